#!/usr/bin/env python3
"""check.py <Cnn> [--tier quick|thorough] [--replay FILE]

One property check = (1) regenerate the data part of the Lean model from /repo and re-check the
property's theorems, (2) audit axioms / forbidden constructs, (3) rebuild the C++ harness from
/repo's working tree, (4) run the real code and the Lean model on the same scenarios and diff
them bit for bit, (5) evaluate the property predicate on the implementation's outputs,
(6) decide and write evidence/<id>.json.

Exit 0: property held on everything explored.  Exit 1 with a line
"VIOLATION property=<id> replay=<path>[ no-failing-input-found]" otherwise.
"""
import argparse
import json
import os
import random
import sys
import time

ROOT = os.path.dirname(os.path.abspath(__file__))
sys.path.insert(0, ROOT)

from vlib import build, run, props, audit  # noqa: E402
from vlib.common import parse_transcript  # noqa: E402


def load_known():
    p = os.path.join(ROOT, "known_findings.json")
    if not os.path.exists(p):
        return []
    return json.load(open(p))


def known_match(known, pid, clause, cause):
    for k in known:
        if k.get("status") == "known" and k["property"] == pid and k["signature"].get("clause") in (clause, "*") \
                and k["signature"].get("cause") in (cause, "*"):
            return k
    return None


def write_replay(pid, tag, content):
    d = os.path.join(ROOT, "replays")
    os.makedirs(d, exist_ok=True)
    import hashlib
    h = hashlib.sha256(content.encode()).hexdigest()[:10]
    path = os.path.join(d, "%s-%s-%s.txt" % (pid, tag, h))
    with open(path, "w") as f:
        f.write(content)
    return path


def shrink(P, exe, model_ok, tier, fail, budget=40):
    """Greedy line removal on the failing scenario: drop call lines (never the scenario, grid and
    graph lines) as long as a failure of the same clause remains.  Every candidate is re-run through
    the property's own runner (real code + model + oracle), so the shrunk replay is a genuine
    failing input."""
    import tempfile
    text = fail.get("scenario_text") or ""
    lines = [l for l in text.split("\n") if l.strip()]
    if not lines or not lines[0].startswith("scn ") or lines[-1].strip() != "end":
        return fail
    head, body = lines[:1], lines[1:-1]
    keep = [i for i, l in enumerate(body) if l.split()[0] in ("grid", "graph")]
    if len(body) - len(keep) <= 1:
        return fail
    clause = fail["clause"]
    # a hang costs a whole watchdog period (plus its confirmation) per attempt: not shrunk; every
    # other failure gets a wall-clock budget besides the attempt budget
    if clause == "terminates":
        return fail
    t_end = time.time() + 180.0
    tries = 0
    best = fail

    def attempt(cand):
        nonlocal tries
        tries += 1
        with tempfile.NamedTemporaryFile("w", suffix=".scn", delete=False) as tf:
            tf.write("\n".join(head + cand + ["end"]) + "\n")
            path = tf.name
        try:
            res = P["runner"](P, exe, model_ok, random.Random(0), tier, replay=path)
        finally:
            os.unlink(path)
        for g in res.get("fails", []):
            if g["clause"] == clause:
                return g
        return None

    i = len(body) - 1
    while i >= 0 and tries < budget and time.time() < t_end:
        if body[i].split()[0] not in ("grid", "graph"):
            cand = body[:i] + body[i + 1:]
            g = attempt(cand)
            if g is not None:
                body, best = cand, g
        i -= 1
    if best is not fail:
        best = dict(best)
        best["witness"] = best["witness"] + " [shrunk from %d to %d lines in %d runs]" % (len(lines) - 2, len(body), tries)
    return best


def main():
    ap = argparse.ArgumentParser()
    ap.add_argument("prop")
    ap.add_argument("--tier", default=os.environ.get("VERIF_TIER", "quick"))
    ap.add_argument("--replay", default=None)
    ap.add_argument("--seed", type=int, default=int(os.environ.get("VERIF_SEED", "1")))
    ap.add_argument("--keep", action="store_true")
    args = ap.parse_args()
    pid = args.prop
    if pid not in props.PROPS:
        print("unknown property " + pid)
        sys.exit(2)
    P = props.PROPS[pid]
    tier = args.tier if args.tier in ("quick", "thorough") else "quick"
    t0 = time.time()
    known = load_known()
    violations = []      # (kind, detail, replay_path, no_input)
    known_hits = []
    ev = dict(property_id=pid, tier=tier, seed=args.seed, level=P["level"], coverage={}, assumptions=list(P.get("assumptions", [])),
              wall_s=0.0, violations=0)
    cov = ev["coverage"]

    # ---------------------------------------------------------------- 1. translator + proofs
    # one critical section: another check process working on a different source tree must not
    # regenerate / rebuild the shared Lean model between our translate, build and audit
    with build.build_lock("lean"):
        proof_broken = []   # descriptions of broken obligations
        ok, msg = build.run_translate()
        cov["translator"] = msg
        if not ok:
            proof_broken.append("translator: " + msg)
        else:
            # a section of the source the translator no longer recognises breaks the tie of exactly
            # the properties that depend on it
            try:
                tinfo = json.load(open(os.path.join(ROOT, "build", "translate_info.json")))
            except Exception:
                tinfo = {}
            for sec, why in tinfo.get("failed_sections", {}).items():
                if pid in why.get("properties", []):
                    proof_broken.append("translator: section %s of the source is no longer recognised (%s); the model keeps the last known-good values" % (sec, why.get("why")))
            # statement-level shape facts of the transcribed algorithms that no longer hold in the source
            groups = [pid] + (["C15"] if pid == "C09" else [])
            for grp in groups:
                facts = dict(tinfo.get("flow_shapes", {}).get(grp, {}))
                facts.update(tinfo.get("grid_shapes", {}).get(grp, {}))
                for name, okf in facts.items():
                    if not okf:
                        proof_broken.append("translator: the source no longer contains the statement the model transcribes: %s.%s (theorem Fs.Shapes.source_shape_%s)" % (grp, name, grp))
        targets = ["fsmodel"] + list(P.get("lean_modules", []))
        lake_ok, lake_out = build.lake_build(targets)
        failed_modules = []
        if not lake_ok:
            import re
            failed_modules = sorted(set(re.findall(r"^- (\S+)", lake_out, flags=re.M)))
            errs = [l for l in lake_out.split("\n") if "error" in l][:12]
            proof_broken.append("lake build failed: modules %s :: %s" % (failed_modules, " | ".join(errs)))
        model_ok = os.path.exists(build.model_exe()) and not any(m.startswith("FsModel") or m in ("Main", "fsmodel") for m in failed_modules)

        # ---------------------------------------------------------------- 2. audit
        a = audit.run_audit(P, lake_ok)
        cov["obligations"] = a["obligations"]
        cov["discharged"] = a["discharged"] if not proof_broken else min(a["discharged"], max(0, a["obligations"] - 1))
        cov["checker_cmd"] = a["checker_cmd"]
        cov["trusted_base"] = a["trusted_base"] + P.get("trusted_base", [])
        cov["theorems"] = a["theorems"]
        for b in a["bad"]:
            proof_broken.append("audit: " + b)
        if tier == "thorough" and lake_ok:
            lc = audit.run_leanchecker(P)
            cov["leanchecker"] = lc["summary"]
            for b in lc["bad"]:
                proof_broken.append("leanchecker: " + b)
        build.snapshot_model_exe()

    # ---------------------------------------------------------------- 3. harness
    exe, hmsg = (None, "not needed")
    if P.get("harness", "asan"):
        exe, hmsg = build.build_harness(P.get("harness", "asan"))
        cov["harness"] = hmsg.split("\n")[0]
        if exe is None:
            path = write_replay(pid, "harness-build", hmsg)
            print("VIOLATION property=%s replay=%s no-failing-input-found" % (pid, path))
            ev["violations"] = 1
            ev["wall_s"] = time.time() - t0
            props.write_evidence(ev)
            sys.exit(1)

    # ---------------------------------------------------------------- 4./5. scenarios
    rng = random.Random(args.seed * 1000003 + (7 if tier == "thorough" else 0))
    if args.replay:
        res = P["runner"](P, exe, model_ok, rng, tier, replay=args.replay)
    else:
        res = P["runner"](P, exe, model_ok, rng, tier)
    cov.update(res["coverage"])
    corr_broken = res.get("corr_broken", [])       # list of strings
    fails = res.get("fails", [])                   # list of dict(clause, cause, witness, scenario_text)

    # ---------------------------------------------------------------- 6. decide
    new_fails = []
    for f in fails:
        k = known_match(known, pid, f["clause"], f.get("cause", "other"))
        if k:
            known_hits.append((k, f))
        else:
            new_fails.append(f)
    seen_known = set()
    for k, f in known_hits:
        if k["id"] not in seen_known:
            seen_known.add(k["id"])
            print("KNOWN-FINDING: property=%s %s (%s; e.g. %s)" % (pid, k["what"], k["id"], f["witness"][:160]))
    rc = 0
    if new_fails and not args.replay and P.get("shrink", True):
        try:
            new_fails[0] = shrink(P, exe, model_ok, tier, new_fails[0])
        except Exception as ex:  # shrinking is a convenience; the unshrunk replay stays valid
            cov["shrink_error"] = "%s: %s" % (type(ex).__name__, ex)
    if new_fails:
        f = new_fails[0]
        body = "# property %s violated: clause=%s cause=%s\n# witness: %s\n# replay: python3 check.py %s --replay <this file>\n%s" % (
            pid, f["clause"], f.get("cause", "other"), f["witness"], pid, f["scenario_text"])
        path = write_replay(pid, f["clause"], body)
        print("VIOLATION property=%s replay=%s" % (pid, path))
        for g in new_fails[1:6]:
            print("  also: clause=%s %s" % (g["clause"], g["witness"][:200]))
        rc = 1
    elif proof_broken or corr_broken:
        body = "# property %s is no longer shown to hold; no failing input found in the search budget\n" % pid
        for b in proof_broken:
            body += "# proof obligation / tie broken: %s\n" % b
        for b in corr_broken[:20]:
            body += "# correspondence broken: %s\n" % b
        if res.get("first_diverging_scenario"):
            body += res["first_diverging_scenario"]
        path = write_replay(pid, "unproved", body)
        print("VIOLATION property=%s replay=%s no-failing-input-found" % (pid, path))
        rc = 1
    ev["violations"] = len(new_fails) + (1 if (rc == 1 and not new_fails) else 0)
    cov["known_findings_seen"] = sorted(seen_known)
    cov["proof_or_tie_broken"] = proof_broken
    cov["correspondence_broken"] = corr_broken[:10]
    ev["wall_s"] = round(time.time() - t0, 2)
    props.write_evidence(ev)
    sys.exit(rc)


def guarded_main():
    """An internal error of the machinery (a harness that no longer understands the tree, a parser
    surprised by new output, ...) leaves the property unshown: it is reported as such, with the
    traceback as the replay, never as a silent non-zero exit."""
    try:
        main()
    except SystemExit:
        raise
    except BaseException:
        import traceback
        pid = sys.argv[1] if len(sys.argv) > 1 else "?"
        tb = traceback.format_exc()
        path = write_replay(pid, "internal-error", "# the check itself failed; the property is not shown to hold on this tree\n" + tb)
        print("VIOLATION property=%s replay=%s no-failing-input-found" % (pid, path))
        try:
            props.write_evidence(dict(property_id=pid, tier=os.environ.get("VERIF_TIER", "quick"), seed=int(os.environ.get("VERIF_SEED", "1")),
                                      level=props.PROPS.get(pid, {}).get("level", "proof"), coverage={"internal_error": tb.strip().split("\n")[-1]},
                                      assumptions=[], wall_s=0.0, violations=1))
        except Exception:
            pass
        sys.exit(1)


if __name__ == "__main__":
    guarded_main()
