import sys
def parse(p):
    d={};cur=None;call=None
    for l in open(p):
        l=l.rstrip('\n')
        if l.startswith('S '): cur=l[2:]; call=None
        elif l.startswith('C '): call=int(l.split()[1])
        elif l.startswith('O '):
            sec=l.split()[1]
            d.setdefault((cur,call),[]).append(l)
    return d
a=parse(sys.argv[1]); b=parse(sys.argv[2])
nd=0
for k in a:
    if a[k]!=b.get(k):
        la=a[k]; lb=b.get(k,[])
        for i in range(max(len(la),len(lb))):
            x=la[i] if i<len(la) else None; y=lb[i] if i<len(lb) else None
            if x!=y:
                nd+=1
                if nd<=int(sys.argv[3]) if len(sys.argv)>3 else 10:
                    print(k,'\n  impl :',(x or '')[:300],'\n  model:',(y or '')[:300])
print('diffs',nd,'calls',len(a))
