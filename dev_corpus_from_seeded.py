#!/usr/bin/env python3
"""development aid: turn the replays stored with the seeded changes into regression-corpus
scenarios (corpus/<pid>/seeded_<id>.scn).  They run first in every check and must pass on the
unchanged tree.  Skipped: C09 / C10 (their scenarios are compared with sibling scenarios),
replays without a failing input, internal-error replays."""
import glob, os, re
# NOTE: run with /repo clean; rewrites evidence files (git checkout evidence afterwards)
HERE = os.path.dirname(os.path.abspath(__file__))
n = 0
for rp in sorted(glob.glob(os.path.join(HERE, "seeded", "*", "replay_C*.txt"))):
    sid = os.path.basename(os.path.dirname(rp))
    pid = os.path.basename(rp)[len("replay_"):-4]
    if pid in ("C09", "C10", "C11"):
        continue
    dst = os.path.join(HERE, "corpus", pid, "seeded_%s.scn" % sid)
    if os.path.exists(dst):
        continue
    txt = open(rp).read()
    if len(txt) > 200000:
        continue       # the huge oracle-only scenarios are generated on every run anyway
    if "no failing input" in txt or "\nscn " not in "\n" + txt or "Traceback" in txt:
        continue
    body = [l for l in txt.split("\n") if not l.startswith("#")]
    out = []
    for l in body:
        if l.startswith("scn "):
            l = "scn seeded_%s_%s " % (sid.replace("-", "_"), l.split()[1])
        out.append(l)
    os.makedirs(os.path.dirname(dst), exist_ok=True)
    with open(dst, "w") as f:
        f.write("# input on which the seeded change %s made the check for %s fail (regression corpus; passes on the unchanged tree)\n" % (sid, pid))
        f.write("\n".join(out).strip() + "\n")
    # a replay is shrunk while it FAILS UNDER THE CHANGE; nothing says the shrunk scenario is meaningful
    # on the unchanged tree (e.g. the `update` line may be gone) - keep it only if it passes there
    import subprocess, sys
    r = subprocess.run([sys.executable, os.path.join(HERE, "check.py"), pid, "--replay", dst], capture_output=True, text=True)
    if "VIOLATION" in r.stdout or r.returncode != 0:
        os.unlink(dst)
        print("dropped (does not pass on the unchanged tree)", os.path.relpath(dst, HERE))
        continue
    n += 1
    print("added", os.path.relpath(dst, HERE))
print(n, "added")
