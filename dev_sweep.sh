#!/bin/bash
# development aid (not a registered check): many seeds of every quick check on a clean copy of /repo
# usage: dev_sweep.sh <first seed> <last seed> [tier]
export FS_REPO=${VP_RUN_REPO:-/repo}
python3 setup.py > sweep_setup.log 2>&1 || { echo "SETUP FAILED"; tail -5 sweep_setup.log; exit 1; }
tier=${3:-quick}
for s in $(seq $1 $2); do
  for i in 01 02 03 04 05 06 07 08 09 10 11 12 13 14 15 16 17 18 19 20; do
    out=$(VERIF_SEED=$s python3 check.py C$i --tier $tier 2>&1); rc=$?
    if [ $rc -ne 0 ] || echo "$out" | grep -q VIOLATION; then
      echo "SEED $s C$i rc=$rc"; echo "$out" | grep -v "^\[build\]" | head -4 | cut -c1-400
      f=$(echo "$out" | grep -o "replay=[^ ]*" | head -1 | cut -d= -f2); [ -n "$f" ] && head -12 "$f" | cut -c1-300
    fi
  done
  echo "seed $s done $(date +%H:%M:%S)"
done
