#!/usr/bin/env python3
"""MANIFEST.setup_cmd: build everything the checks need from files on disk (offline):
regenerate Generated.lean from /repo, build the Lean model driver and every theorem module named
in the registry, compile the sanitizer harnesses against /repo's current tree."""
import sys
import os

ROOT = os.path.dirname(os.path.abspath(__file__))
sys.path.insert(0, ROOT)
from vlib import build, props  # noqa: E402

ok, msg = build.run_translate()
print("translate:", msg)
mods = sorted({m for P in props.PROPS.values() for m in P.get("lean_modules", [])})
lok, out = build.lake_build(["fsmodel"] + mods)
print("lake build:", "ok" if lok else out[-3000:])
kinds = sorted({P.get("harness", "asan") for P in props.PROPS.values() if P.get("harness", "asan")})
hok = True
for k in kinds:
    exe, hmsg = build.build_harness(k)
    print("harness %s: %s" % (k, hmsg.split("\n")[0]))
    hok = hok and exe is not None
sys.exit(0 if (ok and lok and hok) else 1)
