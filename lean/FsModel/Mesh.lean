/-! Triangular-mesh connectivity (trimesh.hpp set_neighbors): an orientation-insensitive edge map
with occurrence counts; neighbours and boundary nodes are read off the unique edges. -/
namespace Fs.Mesh

abbrev Edge := Nat × Nat

def sameEdge (e f : Edge) : Bool := (e.1 == f.1 && e.2 == f.2) || (e.1 == f.2 && e.2 == f.1)

/-- `edges_count.insert({key, 1})`, incrementing when the key (either orientation) is present -/
def insertEdge : List (Edge × Nat) → Edge → List (Edge × Nat)
  | [], e => [(e, 1)]
  | (f, k) :: rest, e => if sameEdge f e then (f, k + 1) :: rest else (f, k) :: insertEdge rest e

def triEdges (t : Nat × Nat × Nat) : List Edge := [(t.2.1, t.2.2), (t.2.2, t.1), (t.1, t.2.1)]

def edgeMap (tris : List (Nat × Nat × Nat)) : List (Edge × Nat) :=
  (tris.flatMap triEdges).foldl insertEdge []

/-- keys are pairwise different as unordered pairs -/
def UniqueKeys (m : List (Edge × Nat)) : Prop := m.Pairwise (fun a b => sameEdge a.1 b.1 = false)

theorem sameEdge_iff (e f : Edge) :
    sameEdge e f = true ↔ ((e.1 = f.1 ∧ e.2 = f.2) ∨ (e.1 = f.2 ∧ e.2 = f.1)) := by
  unfold sameEdge; simp only [Bool.or_eq_true, Bool.and_eq_true, beq_iff_eq]

theorem sameEdge_symm_args (e f : Edge) : sameEdge e f = sameEdge f e := by
  rw [Bool.eq_iff_iff, sameEdge_iff, sameEdge_iff]
  constructor
  · rintro (⟨a, b⟩ | ⟨a, b⟩)
    · exact Or.inl ⟨a.symm, b.symm⟩
    · exact Or.inr ⟨b.symm, a.symm⟩
  · rintro (⟨a, b⟩ | ⟨a, b⟩)
    · exact Or.inl ⟨a.symm, b.symm⟩
    · exact Or.inr ⟨b.symm, a.symm⟩

theorem sameEdge_trans (e f g : Edge) (h1 : sameEdge e f = true) (h2 : sameEdge f g = true) : sameEdge e g = true := by
  unfold sameEdge at *
  simp only [Bool.or_eq_true, Bool.and_eq_true, beq_iff_eq] at *
  rcases h1 with ⟨a, b⟩ | ⟨a, b⟩ <;> rcases h2 with ⟨c, d⟩ | ⟨c, d⟩
  · exact Or.inl ⟨a.trans c, b.trans d⟩
  · exact Or.inr ⟨a.trans c, b.trans d⟩
  · exact Or.inr ⟨a.trans d, b.trans c⟩
  · exact Or.inl ⟨a.trans d, b.trans c⟩

/-- membership of a key (up to orientation) -/
def HasKey (m : List (Edge × Nat)) (e : Edge) : Prop := ∃ p, p ∈ m ∧ sameEdge p.1 e = true

theorem insertEdge_hasKey (m : List (Edge × Nat)) (e g : Edge) :
    HasKey (insertEdge m e) g ↔ HasKey m g ∨ sameEdge e g = true := by
  induction m with
  | nil => simp [insertEdge, HasKey]
  | cons p rest ih =>
    obtain ⟨f, k⟩ := p
    simp only [insertEdge]
    by_cases hs : sameEdge f e = true
    · simp only [hs, if_true]
      constructor
      · rintro ⟨q, hq, hqg⟩
        rcases List.mem_cons.mp hq with rfl | hq
        · exact Or.inl ⟨(f, k), List.mem_cons_self, hqg⟩
        · exact Or.inl ⟨q, List.mem_cons_of_mem _ hq, hqg⟩
      · rintro (⟨q, hq, hqg⟩ | h)
        · rcases List.mem_cons.mp hq with rfl | hq
          · exact ⟨(f, k + 1), List.mem_cons_self, hqg⟩
          · exact ⟨q, List.mem_cons_of_mem _ hq, hqg⟩
        · exact ⟨(f, k + 1), List.mem_cons_self, sameEdge_trans f e g hs h⟩
    · simp only [hs, Bool.false_eq_true, if_false]
      constructor
      · rintro ⟨q, hq, hqg⟩
        rcases List.mem_cons.mp hq with rfl | hq
        · exact Or.inl ⟨(f, k), List.mem_cons_self, hqg⟩
        · rcases (ih).mp ⟨q, hq, hqg⟩ with ⟨q', hq', h'⟩ | h'
          · exact Or.inl ⟨q', List.mem_cons_of_mem _ hq', h'⟩
          · exact Or.inr h'
      · rintro (⟨q, hq, hqg⟩ | h)
        · rcases List.mem_cons.mp hq with rfl | hq
          · exact ⟨(f, k), List.mem_cons_self, hqg⟩
          · obtain ⟨q', hq', h'⟩ := (ih).mpr (Or.inl ⟨q, hq, hqg⟩)
            exact ⟨q', List.mem_cons_of_mem _ hq', h'⟩
        · obtain ⟨q', hq', h'⟩ := (ih).mpr (Or.inr h)
          exact ⟨q', List.mem_cons_of_mem _ hq', h'⟩

theorem insertEdge_unique (m : List (Edge × Nat)) (e : Edge) (h : UniqueKeys m) : UniqueKeys (insertEdge m e) := by
  induction m with
  | nil => simp [insertEdge, UniqueKeys]
  | cons p rest ih =>
    obtain ⟨f, k⟩ := p
    have hf : ∀ b ∈ rest, sameEdge f b.1 = false := (List.pairwise_cons.mp h).1
    have hrest : UniqueKeys rest := (List.pairwise_cons.mp h).2
    simp only [insertEdge]
    by_cases hs : sameEdge f e = true
    · simp only [hs, if_true]
      exact List.pairwise_cons.mpr ⟨hf, hrest⟩
    · simp only [hs, Bool.false_eq_true, if_false]
      refine List.pairwise_cons.mpr ⟨?_, ih hrest⟩
      intro b hb
      -- b is an old entry of `rest` or the fresh entry for `e`
      cases hfb : sameEdge f b.1
      · rfl
      · exfalso
        have hk : HasKey (insertEdge rest e) b.1 := ⟨b, hb, by
          unfold sameEdge; simp⟩
        rcases (insertEdge_hasKey rest e b.1).mp hk with ⟨q, hq, hqb⟩ | heb
        · have := hf q hq
          have h2 : sameEdge f q.1 = true := sameEdge_trans f b.1 q.1 hfb (by rw [sameEdge_symm_args]; exact hqb)
          rw [this] at h2; cases h2
        · have : sameEdge f e = true := sameEdge_trans f b.1 e hfb (by rw [sameEdge_symm_args]; exact heb)
          exact hs this

/-- **mesh_nbrs_iff_edge (key level)**: the edge map holds exactly the triangle edges, each once
up to orientation -/
theorem edgeMap_spec (tris : List (Nat × Nat × Nat)) :
    UniqueKeys (edgeMap tris) ∧
    ∀ g, HasKey (edgeMap tris) g ↔ ∃ e, e ∈ tris.flatMap triEdges ∧ sameEdge e g = true := by
  unfold edgeMap
  suffices H : ∀ (es : List Edge) (m : List (Edge × Nat)), UniqueKeys m →
      UniqueKeys (es.foldl insertEdge m) ∧
      ∀ g, HasKey (es.foldl insertEdge m) g ↔ HasKey m g ∨ ∃ e, e ∈ es ∧ sameEdge e g = true by
    obtain ⟨h1, h2⟩ := H (tris.flatMap triEdges) [] List.Pairwise.nil
    refine ⟨h1, fun g => ?_⟩
    rw [h2 g]
    constructor
    · rintro (⟨p, hp, _⟩ | h)
      · cases hp
      · exact h
    · exact Or.inr
  intro es
  induction es with
  | nil => intro m hm; exact ⟨hm, fun g => by simp⟩
  | cons e t ih =>
    intro m hm
    simp only [List.foldl_cons]
    obtain ⟨h1, h2⟩ := ih (insertEdge m e) (insertEdge_unique m e hm)
    refine ⟨h1, fun g => ?_⟩
    rw [h2 g, insertEdge_hasKey]
    constructor
    · rintro ((h | h) | ⟨x, hx, hxg⟩)
      · exact Or.inl h
      · exact Or.inr ⟨e, List.mem_cons_self, h⟩
      · exact Or.inr ⟨x, List.mem_cons_of_mem _ hx, hxg⟩
    · rintro (h | ⟨x, hx, hxg⟩)
      · exact Or.inl (Or.inl h)
      · rcases List.mem_cons.mp hx with rfl | hx
        · exact Or.inl (Or.inr hxg)
        · exact Or.inr ⟨x, hx, hxg⟩

end Fs.Mesh
