/-! Kruskal with a naive class map (same accept/reject decisions as union-find): the class map
always coincides with connectivity in the accepted forest; rejected edges close a cycle. -/
namespace Fs.Kruskal

variable {α : Type}

abbrev E (α : Type) := Nat × Nat × α

/-- connectivity in an edge list: smallest equivalence relation containing the edges -/
inductive Conn (T : List (E α)) : Nat → Nat → Prop
  | refl (a) : Conn T a a
  | edge (u v w) : (u, v, w) ∈ T → Conn T u v
  | symm {a b} : Conn T a b → Conn T b a
  | trans {a b c} : Conn T a b → Conn T b c → Conn T a c

theorem Conn.mono {T T' : List (E α)} (h : ∀ e, e ∈ T → e ∈ T') {a b} (c : Conn T a b) : Conn T' a b := by
  induction c with
  | refl a => exact .refl a
  | edge u v w hm => exact .edge u v w (h _ hm)
  | symm _ ih => exact ih.symm
  | trans _ _ ih1 ih2 => exact ih1.trans ih2

structure St (α : Type) where
  cls : Nat → Nat
  tree : List (E α)

def kstep (s : St α) (e : E α) : St α :=
  if s.cls e.1 = s.cls e.2.1 then s
  else { cls := fun x => if s.cls x = s.cls e.2.1 then s.cls e.1 else s.cls x, tree := s.tree ++ [e] }

def kruskal (es : List (E α)) : St α := es.foldl kstep { cls := id, tree := [] }

/-- the class map is exactly connectivity in the accepted edges -/
def Agree (s : St α) : Prop := ∀ a b, s.cls a = s.cls b ↔ Conn s.tree a b

theorem agree_init : Agree ({ cls := id, tree := [] } : St α) := by
  intro a b
  constructor
  · intro h; simp at h; subst h; exact .refl a
  · intro c
    induction c with
    | refl a => rfl
    | edge u v w hm => cases hm
    | symm _ ih => exact ih.symm
    | trans _ _ ih1 ih2 => exact ih1.trans ih2

theorem agree_step (s : St α) (e : E α) (h : Agree s) : Agree (kstep s e) := by
  obtain ⟨u, v, w⟩ := e
  unfold kstep
  by_cases hc : s.cls u = s.cls v
  · simp only [hc, if_true]; exact h
  · simp only [hc, if_false]
    intro a b
    constructor
    · intro hab
      simp only at hab
      -- case analysis on the old classes of a and b
      have mono : ∀ {x y}, Conn s.tree x y → Conn (s.tree ++ [(u, v, w)]) x y :=
        fun c => c.mono (fun e he => List.mem_append_left _ he)
      have euv : Conn (s.tree ++ [(u, v, w)]) u v := .edge u v w (by simp)
      by_cases ha : s.cls a = s.cls v <;> by_cases hb : s.cls b = s.cls v
      · exact mono ((h a b).mp (ha.trans hb.symm))
      · simp only [ha, hb, if_true, if_false] at hab
        -- cls u = cls b
        exact (mono ((h a v).mp ha)).trans (euv.symm.trans (mono ((h u b).mp hab)))
      · simp only [ha, hb, if_true, if_false] at hab
        exact (mono ((h a u).mp hab)).trans (euv.trans (mono ((h v b).mp hb.symm)))
      · simp only [ha, hb, if_false] at hab
        exact mono ((h a b).mp hab)
    · intro c
      simp only
      induction c with
      | refl a => rfl
      | edge x y z hm =>
        simp only [List.mem_append, List.mem_singleton] at hm
        rcases hm with hm | hm
        · have := (h x y).mpr (.edge x y z hm)
          rw [this]
        · cases hm
          simp [hc]
      | symm _ ih => exact ih.symm
      | trans _ _ ih1 ih2 => exact ih1.trans ih2

theorem agree_foldl (es : List (E α)) (s : St α) (h : Agree s) : Agree (es.foldl kstep s) := by
  induction es generalizing s with
  | nil => exact h
  | cons e t ih => exact ih _ (agree_step s e h)

theorem kruskal_agree (es : List (E α)) : Agree (kruskal es) := agree_foldl es _ agree_init

theorem tree_mono (s : St α) (e : E α) : ∀ x, x ∈ s.tree → x ∈ (kstep s e).tree := by
  intro x hx; unfold kstep; split
  · exact hx
  · exact List.mem_append_left _ hx

theorem foldl_tree_mono (es : List (E α)) (s : St α) : ∀ x, x ∈ s.tree → x ∈ (es.foldl kstep s).tree := by
  induction es generalizing s with
  | nil => intro x hx; exact hx
  | cons e t ih => intro x hx; exact ih _ x (tree_mono s e x hx)

/-- **spanning**: the end points of every input edge are connected in the returned forest -/
theorem kruskal_spanning (es : List (E α)) : ∀ e, e ∈ es → Conn (kruskal es).tree e.1 e.2.1 := by
  unfold kruskal
  suffices H : ∀ (es : List (E α)) (s : St α), Agree s → ∀ e, e ∈ es → Conn (es.foldl kstep s).tree e.1 e.2.1 from
    H es _ agree_init
  intro es
  induction es with
  | nil => intro _ _ e he; cases he
  | cons e0 t ih =>
    intro s hs e he
    simp only [List.foldl_cons]
    rcases List.mem_cons.mp he with rfl | he
    · -- after its own step the end points are connected; later steps only add edges
      have h1 : Conn (kstep s e).tree e.1 e.2.1 := by
        obtain ⟨u, v, w⟩ := e
        unfold kstep
        by_cases hc : s.cls u = s.cls v
        · simp only [hc, if_true]; exact (hs u v).mp hc
        · simp only [hc, if_false]; exact .edge u v w (by simp)
      exact h1.mono (foldl_tree_mono t _)
    · exact ih _ (agree_step s e0 hs) e he

/-- a forest, stated along the order of acceptance: every edge joins two vertices that the edges
accepted before it did not connect (so no edge closes a cycle) -/
def Forest (T : List (E α)) : Prop := ∀ pre e post, T = pre ++ e :: post → ¬ Conn pre e.1 e.2.1

theorem split_snoc {β : Type} (pre post l : List β) (x e : β) (h : pre ++ x :: post = l ++ [e]) :
    (post = [] ∧ pre = l ∧ x = e) ∨ (∃ post', post = post' ++ [e] ∧ l = pre ++ x :: post') := by
  rcases List.eq_nil_or_concat post with rfl | ⟨post', z, rfl⟩
  · left
    have h' : pre ++ [x] = l ++ [e] := h
    have := List.append_inj' h' rfl
    exact ⟨rfl, this.1, by simpa using this.2⟩
  · right
    have h' : (pre ++ x :: post') ++ [z] = l ++ [e] := by simpa [List.concat_eq_append] using h
    have := List.append_inj' h' rfl
    refine ⟨post', ?_, this.1.symm⟩
    have hz : z = e := by simpa using this.2
    rw [List.concat_eq_append, hz]

theorem forest_step (s : St α) (e : E α) (ha : Agree s) (hf : Forest s.tree) : Forest (kstep s e).tree := by
  unfold kstep
  by_cases hc : s.cls e.1 = s.cls e.2.1
  · simp only [hc, if_true]; exact hf
  · simp only [hc, if_false]
    intro pre x post hsplit
    rcases split_snoc pre post s.tree x e hsplit.symm with ⟨_, hpre, hx⟩ | ⟨post', _, hl⟩
    · subst hpre; subst hx
      intro hconn; exact hc ((ha x.1 x.2.1).mpr hconn)
    · exact hf pre x post' hl

/-- **the accepted edges form a forest** -/
theorem kruskal_forest (es : List (E α)) : Forest (kruskal es).tree := by
  unfold kruskal
  suffices H : ∀ (es : List (E α)) (s : St α), Agree s → Forest s.tree → Forest (es.foldl kstep s).tree from
    H es _ agree_init (by intro pre e post h; cases pre <;> cases h)
  intro es
  induction es with
  | nil => intro s _ hf; exact hf
  | cons e t ih =>
    intro s ha hf
    simp only [List.foldl_cons]
    exact ih _ (agree_step s e ha) (forest_step s e ha hf)

end Fs.Kruskal
