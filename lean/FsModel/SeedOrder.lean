import FsModel.UB2
/-! C09, priority-flood part: with the queue ordered by (elevation, node index) — the D4 repair —
the initial open queue, hence the whole flood, does not depend on the order in which the base
levels are enumerated (hash-set iteration order). -/
namespace Fs.UB
open List

variable {α : Type}

/-- the total order the queue is kept in: elevation first, node index to break ties -/
def Lex (o : Ord α) (a b : QE α) : Prop := o.lt a.2 b.2 = true ∨ (a.2 = b.2 ∧ a.1 ≤ b.1)

theorem lex_antisymm (o : Ord α) (L : Laws o) (a b : QE α) (h1 : Lex o a b) (h2 : Lex o b a) : a = b := by
  rcases h1 with h1 | ⟨e1, i1⟩ <;> rcases h2 with h2 | ⟨e2, i2⟩
  · have := L.trans _ _ _ h1 h2; rw [L.irrefl] at this; cases this
  · rw [e2, L.irrefl] at h1; cases h1
  · rw [e1, L.irrefl] at h2; cases h2
  · exact Prod.ext (Nat.le_antisymm i1 i2) e1

theorem lex_trans (o : Ord α) (L : Laws o) (a b c : QE α) (h1 : Lex o a b) (h2 : Lex o b c) : Lex o a c := by
  rcases h1 with h1 | ⟨e1, i1⟩ <;> rcases h2 with h2 | ⟨e2, i2⟩
  · exact Or.inl (L.trans _ _ _ h1 h2)
  · exact Or.inl (e2 ▸ h1)
  · exact Or.inl (e1 ▸ h2)
  · exact Or.inr ⟨e1.trans e2, Nat.le_trans i1 i2⟩

theorem insertQ_perm (o : Ord α) (x : QE α) (l : List (QE α)) : insertQ o x l ~ x :: l := by
  induction l with
  | nil => simp [insertQ]
  | cons y ys ih =>
    simp only [insertQ]
    split
    · exact Perm.refl _
    · exact (Perm.cons y ih).trans (Perm.swap x y ys)

theorem insertQ_lex (o : Ord α) (L : Laws o) (x : QE α) (l : List (QE α)) (h : l.Pairwise (Lex o)) :
    (insertQ o x l).Pairwise (Lex o) := by
  induction l with
  | nil => simp [insertQ]
  | cons y ys ih =>
    simp only [insertQ]
    have hy : ∀ b ∈ ys, Lex o y b := (pairwise_cons.mp h).1
    have hys := (pairwise_cons.mp h).2
    split
    · rename_i hc
      have hxy : Lex o x y := by
        simp only [Bool.or_eq_true, Bool.and_eq_true, Bool.not_eq_true', decide_eq_true_eq] at hc
        rcases hc with hc | ⟨hc1, hc2⟩
        · exact Or.inl hc
        · -- ¬ y < x and (x < y or x = y)
          cases hxy : o.lt x.2 y.2
          · exact Or.inr ⟨L.antisymm _ _ hxy hc1, Nat.le_of_lt hc2⟩
          · exact Or.inl hxy
      refine pairwise_cons.mpr ⟨?_, h⟩
      intro b hb
      rcases mem_cons.mp hb with rfl | hb
      · exact hxy
      · exact lex_trans o L _ _ _ hxy (hy b hb)
    · rename_i hc
      have hyx : Lex o y x := by
        simp only [Bool.or_eq_true, Bool.and_eq_true, Bool.not_eq_true', decide_eq_true_eq, not_or, not_and] at hc
        obtain ⟨h1, h2⟩ := hc
        have h1' : o.lt x.2 y.2 = false := by cases hh : o.lt x.2 y.2 <;> simp_all
        cases hyx : o.lt y.2 x.2
        · exact Or.inr ⟨L.antisymm _ _ hyx h1', Nat.le_of_not_lt (h2 hyx)⟩
        · exact Or.inl hyx
      refine pairwise_cons.mpr ⟨?_, ih hys⟩
      intro b hb
      rcases (mem_insertQ o x b ys).mp hb with rfl | hb
      · exact hyx
      · exact hy b hb

/-- the open queue the flood starts from -/
def seedQueue (o : Ord α) (z : Nat → α) (seeds : List Nat) : List (QE α) :=
  seeds.foldl (fun q s => insertQ o (s, z s) q) []

theorem seedQueue_spec (o : Ord α) (L : Laws o) (z : Nat → α) (seeds : List Nat) (q0 : List (QE α))
    (h0 : q0.Pairwise (Lex o)) :
    (seeds.foldl (fun q s => insertQ o (s, z s) q) q0).Pairwise (Lex o) ∧
    seeds.foldl (fun q s => insertQ o (s, z s) q) q0 ~ (seeds.map (fun s => (s, z s))).reverse ++ q0 := by
  induction seeds generalizing q0 with
  | nil => exact ⟨h0, by simp⟩
  | cons s t ih =>
    simp only [foldl_cons, map_cons, reverse_cons, append_assoc, singleton_append]
    obtain ⟨h1, h2⟩ := ih (insertQ o (s, z s) q0) (insertQ_lex o L _ _ h0)
    exact ⟨h1, h2.trans (Perm.append_left _ (insertQ_perm o _ _))⟩

/-- **pflood_seed_order_irrelevant** (initial state): permuted seed lists give the same queue -/
theorem seedQueue_perm (o : Ord α) (L : Laws o) (z : Nat → α) (s₁ s₂ : List Nat) (h : s₁ ~ s₂) :
    seedQueue o z s₁ = seedQueue o z s₂ := by
  obtain ⟨a1, a2⟩ := seedQueue_spec o L z s₁ [] Pairwise.nil
  obtain ⟨b1, b2⟩ := seedQueue_spec o L z s₂ [] Pairwise.nil
  apply Perm.eq_of_pairwise (le := Lex o) (fun a b _ _ => lex_antisymm o L a b) a1 b1
  simp only [append_nil] at a2 b2
  exact a2.trans (((reverse_perm _).trans ((h.map _).trans (reverse_perm _).symm)).trans b2.symm)

end Fs.UB
