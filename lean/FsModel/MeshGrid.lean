import FsModel.Mesh
import FsModel.Scalar
import FsModel.Generated

/-! Triangular mesh grid (`trimesh.hpp`): neighbours and boundary nodes read off the edge map
(`Fs.Mesh.edgeMap`, the definition `edgeMap_spec` is proved about), default / map / array node
status with the error kinds of the constructor, edge lengths, and the circumcentric node areas
(`triShares`/`areaSquare`, the definitions `tri_area_partition` is proved about) accumulated in
the order of `xt::bincount`.  Core Lean only. -/
namespace Fs.MeshGrid
open Fs.Mesh

variable {α : Type}

/-- both `push_back`s of one unique edge, seen from node `i` -/
def edgeEnds (i : Nat) (p : Edge × Nat) : List Nat :=
  (if p.1.1 = i then [p.1.2] else []) ++ (if p.1.2 = i then [p.1.1] else [])

/-- neighbours of `i`, in edge-map order (the real order is that of an unordered_map) -/
def nbrs (m : List (Edge × Nat)) (i : Nat) : List Nat := m.flatMap (edgeEnds i)

/-- nodes on an edge that belongs to exactly one triangle -/
def isBoundary (m : List (Edge × Nat)) (i : Nat) : Bool :=
  m.any (fun p => p.2 == 1 && (p.1.1 == i || p.1.2 == i))

def insertNat (x : Nat) : List Nat → List Nat
  | [] => [x]
  | y :: ys => if x ≤ y then x :: y :: ys else y :: insertNat x ys

def sortNat (l : List Nat) : List Nat := l.foldr insertNat []

def dist (S : ScalarOps α) (pts : Nat → α × α) (a b : Nat) : α :=
  let dx := S.sub (pts a).1 (pts b).1
  let dy := S.sub (pts a).2 (pts b).2
  S.sqrt (S.add (S.mul dx dx) (S.mul dy dy))

/-! ### node status -/

inductive Err | invalidArgument | outOfRange deriving DecidableEq, Repr

def statusDefault (n : Nat) (m : List (Edge × Nat)) : Array Nat :=
  Array.ofFn (n := n) (fun i => if isBoundary m i.val then Fs.Gen.nsFixedValue else Fs.Gen.nsCore)

/-- status map: every node core, then the entries in key order; `looped` is refused, then the
bounds-checked access -/
def statusMap (n : Nat) (m : List (Edge × Nat)) (ov : List (Nat × Nat)) : Except Err (Array Nat) :=
  if ov.isEmpty then .ok (statusDefault n m)
  else
    let rec go (st : Array Nat) : List (Nat × Nat) → Except Err (Array Nat)
      | [] => .ok st
      | (i, s) :: rest =>
        if s = Fs.Gen.nsLooped then .error .invalidArgument
        else if i ≥ n then .error .outOfRange
        else go (st.setIfInBounds i s) rest
    go (Array.replicate n Fs.Gen.nsCore) ov

def statusArr (n : Nat) (a : List Nat) : Except Err (Array Nat) :=
  if a.length ≠ n then .error .invalidArgument else .ok a.toArray

/-! ### node areas -/

def smax (S : ScalarOps α) (a b : α) : α := if S.lt a b then b else a     -- std::max(a, b)

/-- squared lengths of the three half-edges of triangle `t` (local index pairs (1,2), (2,0), (0,1)) -/
def triQ (S : ScalarOps α) (pts : Nat → α × α) (t : Nat × Nat × Nat) : α × α × α :=
  let q (p1 p2 : Nat) : α :=
    let hx := S.sub (pts p2).1 (pts p1).1
    let hy := S.sub (pts p2).2 (pts p1).2
    S.add (S.mul hx hx) (S.mul hy hy)
  (q t.2.1 t.2.2, q t.2.2 t.1, q t.1 t.2.1)

/-- the three circumcentric shares of one triangle (for its vertices 0, 1, 2) -/
def triWeights (S : ScalarOps α) (minNormal : α) (pts : Nat → α × α) (t : Nat × Nat × Nat) : α × α × α :=
  let (q0, q1, q2) := triQ S pts t
  let area := S.sqrt (smax S (areaSquare S q0 q1 q2) minNormal)
  triShares S q0 q1 q2 area

/-- `xt::bincount(flatten(transpose(triangles)), weights, n)`: vertex column by vertex column -/
def binAreas (S : ScalarOps α) (zero : α) (n : Nat) (tris : List (Nat × Nat × Nat)) (w : List (α × α × α)) : Array α :=
  let tw := tris.zip w
  let col (sel : Nat × Nat × Nat → Nat) (selw : α × α × α → α) (acc : Array α) : Array α :=
    tw.foldl (fun (a : Array α) p => a.modify (sel p.1) (fun x => S.add x (selw p.2))) acc
  col (·.2.2) (·.2.2) (col (·.2.1) (·.2.1) (col (·.1) (·.1) (Array.replicate n zero)))

def areas (S : ScalarOps α) (zero minNormal : α) (isZero : α → Bool) (n : Nat) (pts : Nat → α × α)
    (tris : List (Nat × Nat × Nat)) (m : List (Edge × Nat)) : Array α :=
  let a := binAreas S zero n tris (tris.map (triWeights S minNormal pts))
  -- isolated nodes get the smallest positive normal number instead of zero
  Array.ofFn (n := n) (fun i =>
    let v := a.getD i.val zero
    if isZero v && (nbrs m i.val).isEmpty then minNormal else v)

end Fs.MeshGrid
