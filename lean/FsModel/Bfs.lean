/-! Level-synchronous breadth-first order (flow_graph_impl::compute_bfs_indices_bottomup):
every receiver of a node of level ℓ+1 lies in a level ≤ ℓ. -/
namespace Fs.Bfs

def upd {β} (f : Nat → β) (i : Nat) (v : β) : Nat → β := fun j => if j = i then v else f j

structure B where
  vis : Nat → Nat        -- 0 unvisited, 1 expanded, 2 queued for the next level
  next : List Nat

def tryAdd (recvs : Nat → List Nat) (b : B) (d : Nat) : B :=
  if b.vis d > 0 then b
  else if (recvs d).all (fun r => b.vis r == 1) then { vis := upd b.vis d 2, next := b.next ++ [d] }
  else b

def procNode (don recvs : Nat → List Nat) (b : B) (x : Nat) : B :=
  (don x).foldl (tryAdd recvs) { b with vis := upd b.vis x 1 }

def procLevel (don recvs : Nat → List Nat) (vis : Nat → Nat) (lvl : List Nat) : B :=
  lvl.foldl (procNode don recvs) { vis := vis, next := [] }

def levels (don recvs : Nat → List Nat) : Nat → (Nat → Nat) → List Nat → List (List Nat)
  | 0, _, lvl => [lvl]
  | f + 1, vis, lvl =>
    if lvl = [] then [] else
      let b := procLevel don recvs vis lvl
      lvl :: levels don recvs f b.vis b.next

/-- invariant carried through a level: expanded marks persist, new expanded marks come from
`S`, and every queued node has all its receivers expanded -/
structure Good (recvs : Nat → List Nat) (vis0 : Nat → Nat) (S : Nat → Prop) (b : B) : Prop where
  keep : ∀ x, vis0 x = 1 → b.vis x = 1
  only : ∀ x, b.vis x = 1 → vis0 x = 1 ∨ S x
  ready : ∀ d, d ∈ b.next → ∀ r, r ∈ recvs d → b.vis r = 1

theorem tryAdd_good (recvs : Nat → List Nat) (vis0 : Nat → Nat) (S : Nat → Prop) (b : B) (d : Nat)
    (h : Good recvs vis0 S b) : Good recvs vis0 S (tryAdd recvs b d) := by
  unfold tryAdd
  split
  · exact h
  · rename_i h0
    have hd0 : b.vis d = 0 := by omega
    split
    · rename_i hall
      have hall' : ∀ r, r ∈ recvs d → b.vis r = 1 := by
        intro r hr; have := List.all_eq_true.mp hall r hr; simpa using this
      refine ⟨?_, ?_, ?_⟩
      · intro x hx
        have hxd : x ≠ d := by intro e; subst e; have := h.keep x hx; omega
        simp [upd, hxd, h.keep x hx]
      · intro x hx
        by_cases hxd : x = d
        · subst hxd; simp [upd] at hx
        · simp [upd, hxd] at hx; exact h.only x hx
      · intro e he r hr
        have keep1 : ∀ y, b.vis y = 1 → upd b.vis d 2 y = 1 := by
          intro y hy
          have : y ≠ d := by intro e'; subst e'; omega
          simp [upd, this, hy]
        simp only [List.mem_append, List.mem_singleton] at he
        rcases he with he | rfl
        · exact keep1 r (h.ready e he r hr)
        · exact keep1 r (hall' r hr)
    · exact h

theorem fold_tryAdd_good (recvs : Nat → List Nat) (vis0 : Nat → Nat) (S : Nat → Prop) (l : List Nat) (b : B)
    (h : Good recvs vis0 S b) : Good recvs vis0 S (l.foldl (tryAdd recvs) b) := by
  induction l generalizing b with
  | nil => exact h
  | cons a t ih => exact ih _ (tryAdd_good recvs vis0 S b a h)

theorem procNode_good (don recvs : Nat → List Nat) (vis0 : Nat → Nat) (S : Nat → Prop) (b : B) (x : Nat)
    (hx : S x) (h : Good recvs vis0 S b) : Good recvs vis0 S (procNode don recvs b x) := by
  unfold procNode
  apply fold_tryAdd_good
  refine ⟨?_, ?_, ?_⟩
  · intro y hy; simp only [upd]; split
    · rfl
    · exact h.keep y hy
  · intro y hy
    by_cases hyx : y = x
    · subst hyx; exact Or.inr hx
    · simp [upd, hyx] at hy; exact h.only y hy
  · intro d hd r hr
    have := h.ready d hd r hr
    simp only [upd]; split
    · rfl
    · exact this

theorem procLevel_good (don recvs : Nat → List Nat) (vis : Nat → Nat) (lvl : List Nat) :
    Good recvs vis (fun x => x ∈ lvl) (procLevel don recvs vis lvl) := by
  unfold procLevel
  suffices H : ∀ (l : List Nat) (b : B), (∀ x, x ∈ l → x ∈ lvl) → Good recvs vis (fun x => x ∈ lvl) b →
      Good recvs vis (fun x => x ∈ lvl) (l.foldl (procNode don recvs) b) from
    H lvl _ (fun _ h => h) ⟨fun _ h => h, fun _ h => Or.inl h, fun _ h => by cases h⟩
  intro l
  induction l with
  | nil => intro b _ h; exact h
  | cons a t ih =>
    intro b hsub h
    exact ih _ (fun x hx => hsub x (List.mem_cons_of_mem _ hx))
      (procNode_good don recvs vis _ b a (hsub a List.mem_cons_self) h)

/-- **bfs level property**: if before the sweep the expanded nodes are exactly those of the
earlier levels (`E`), then every receiver of a node queued for the next level is in an earlier
level or in the level just swept. -/
theorem next_level_receivers (don recvs : Nat → List Nat) (vis : Nat → Nat) (lvl : List Nat)
    (E : Nat → Prop) (hE : ∀ x, vis x = 1 → E x) :
    ∀ d, d ∈ (procLevel don recvs vis lvl).next → ∀ r, r ∈ recvs d → E r ∨ r ∈ lvl := by
  intro d hd r hr
  have g := procLevel_good don recvs vis lvl
  rcases g.only r (g.ready d hd r hr) with h | h
  · exact Or.inl (hE r h)
  · exact Or.inr h

/-- after the sweep the expanded nodes are exactly the earlier ones plus the level swept -/
theorem expanded_after (don recvs : Nat → List Nat) (vis : Nat → Nat) (lvl : List Nat) (x : Nat) :
    (procLevel don recvs vis lvl).vis x = 1 → vis x = 1 ∨ x ∈ lvl :=
  (procLevel_good don recvs vis lvl).only x

end Fs.Bfs
