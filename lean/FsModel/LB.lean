import FsModel.UB2
/-! Priority flood, remaining C02 clauses for the flood: never below the input, identical at
seeds and masked nodes, and not below the spill level (there is a path from a base level whose
input elevations are all ≤ the filled elevation). Same model as the upper bound. -/
namespace Fs.UB
open List

variable {α : Type}

structure LBInv (o : Ord α) (z : Nat → α) (nbrs : Nat → List Nat) (seed mask : Nat → Bool) (s : PF α) : Prop where
  geZ : ∀ n, o.le (z n) (s.elev n) = true
  unclosedZ : ∀ n, s.closed n = false → s.elev n = z n
  seedZ : ∀ b, seed b = true → s.elev b = z b ∧ s.closed b = true
  maskZ : ∀ n, mask n = true → s.elev n = z n
  lb : ∀ y, s.closed y = true → ∃ p, Path nbrs seed mask p y ∧ Bounded o z p (s.elev y)

section
variable (o : Ord α) (L : Laws o) (z : Nat → α) (nbrs : Nat → List Nat) (seed mask : Nat → Bool)
include L

/-- a visit from a closed node `c` whose recorded value is its elevation -/
theorem visit_lb (c : Nat) (s : PF α) (nb : Nat) (h : LBInv o z nbrs seed mask s)
    (hc : s.closed c = true) (hnb : nb ∈ nbrs c) :
    LBInv o z nbrs seed mask (visit o mask (o.nextUp (s.elev c)) s nb) := by
  unfold visit
  by_cases h1 : (mask nb || s.closed nb) = true
  · simp only [h1, if_true]; exact h
  · have hm : mask nb = false := by cases hh : mask nb <;> simp_all
    have hcl : s.closed nb = false := by cases hh : s.closed nb <;> simp_all
    have hcne : c ≠ nb := by intro e; subst e; rw [hc] at hcl; cases hcl
    have hz := h.unclosedZ nb hcl
    obtain ⟨pc, hpc, hbc⟩ := h.lb c hc
    simp only [h1, Bool.false_eq_true, if_false]
    by_cases h2 : o.lt (o.nextUp (s.elev c)) (s.elev nb) = true
    · -- kept
      simp only [h2, if_true]
      have hlt : o.lt (s.elev c) (s.elev nb) = true := L.trans _ _ _ (L.next_gt _) h2
      refine ⟨h.geZ, ?_, ?_, h.maskZ, ?_⟩
      · intro n hn
        have hne : n ≠ nb := by intro e; subst e; simp [upd] at hn
        exact h.unclosedZ n (by simpa [upd_ne _ _ _ _ hne] using hn)
      · intro b hb; refine ⟨(h.seedZ b hb).1, ?_⟩
        simp only [upd]; split <;> simp [(h.seedZ b hb).2]
      · intro y hy
        by_cases hne : y = nb
        · subst hne
          refine ⟨pc ++ [y], Path.step pc c y hpc hnb hm, ?_⟩
          intro w hw
          rcases mem_append.mp hw with hw | hw
          · exact L.le_trans (hbc w hw) (L.le_of_lt hlt)
          · simp at hw; subst hw; exact h.geZ w
        · exact h.lb y (by simpa [upd_ne _ _ _ _ hne] using hy)
    · -- raised to nextUp (elev c); elev nb = z nb ≤ that
      have h2' : o.le (s.elev nb) (o.nextUp (s.elev c)) = true := by
        simp only [Ord.le, Bool.not_eq_true']; cases hh : o.lt (o.nextUp (s.elev c)) (s.elev nb) <;> simp_all
      simp only [h2, Bool.false_eq_true, if_false]
      refine ⟨?_, ?_, ?_, ?_, ?_⟩
      · intro n
        by_cases hne : n = nb
        · subst hne; simp only [upd_same]; rw [← hz]; exact h2'
        · simp only [upd_ne _ _ _ _ hne]; exact h.geZ n
      · intro n hn
        have hne : n ≠ nb := by intro e; subst e; simp [upd] at hn
        simp only [upd_ne _ _ _ _ hne] at hn ⊢; exact h.unclosedZ n hn
      · intro b hb
        have hbn : b ≠ nb := by intro e; subst e; rw [(h.seedZ b hb).2] at hcl; cases hcl
        simp only [upd_ne _ _ _ _ hbn]; exact h.seedZ b hb
      · intro n hn
        have hne : n ≠ nb := by intro e; subst e; rw [hm] at hn; cases hn
        simp only [upd_ne _ _ _ _ hne]; exact h.maskZ n hn
      · intro y hy
        by_cases hne : y = nb
        · subst hne
          simp only [upd_same]
          refine ⟨pc ++ [y], Path.step pc c y hpc hnb hm, ?_⟩
          intro w hw
          rcases mem_append.mp hw with hw | hw
          · have hwc : o.le (z w) (s.elev c) = true := hbc w hw
            exact L.le_trans hwc (L.le_next _)
          · simp at hw; subst hw; rw [← hz]; exact h2'
        · simp only [upd_ne _ _ _ _ hne] at hy ⊢
          obtain ⟨p, hp, hb⟩ := h.lb y hy
          exact ⟨p, hp, hb⟩

end
end Fs.UB
