/-! Worker-pool protocol (`utils/impl/thread_pool_inl.hpp`) with SPURIOUS WAKE-UPS, N arbitrary.

`Fs.Pool5` is `Fs.Pool4` (ghost execution counters, block counts, implicit resume of `run_tasks`,
`stop`, `resize`, worker exit) adapted to

* the repaired pause job
  ```
  std::unique_lock<std::mutex> lk(m_cv_m);
  ++m_paused_count;
  while (m_pause_requested) m_cv.wait(lk);
  --m_paused_count;
  ```
  `pause()` sets `m_pause_requested` under `m_cv_m` before it publishes the pause jobs, `resume()`
  clears it in the critical section in which it calls `notify_all` (before the notification);
* a condition variable whose `wait` may return WITHOUT having been notified (`Tid.spur i`).
  The ghost field `spur i` is the number of times the wait of worker slot `i` may still return
  spuriously; ANY function `Nat → Nat` is allowed in the initial state.  This is the fairness
  assumption "finitely many spurious wake-ups"; it is used by the termination measure only:
  the invariant, exactly-once and no-stuck-state do not look at it.

Worker pause job, micro-steps:
`pLock → pInc → pCheck`; at `pCheck` (mutex held): `pauseReq` ? `pWaitEnter` : `pDec`;
`pWaitEnter → pWaiting` releases the mutex atomically with going to sleep; `pWaiting → pReacquire`
when notified (`Tid.work i`) or spuriously (`Tid.spur i`, one unit of `spur i`);
`pReacquire → pCheck` re-acquires the mutex; `pDec → clear` decrements the count and unlocks.

Caller: `pause` = `paWait` (`wait()`), `paLock`, `paReq` (`m_pause_requested = true`), `paUnlock`,
`paSet` (`set_tasks`), `paPub k`, `paSetPaused`, `paSpin`; `resume` = `reLock`, `reReq`
(`m_pause_requested = false`), `reNotify`, `reUnlock`, `reClear` (`m_paused = false`), `reWait`.

All other modelling decisions are those of `Fs.Pool4` (see there):
* a worker that has not been started yet is an `idle` worker; its `exit` is a stutter step;
* at `idle` both `exit i` (whenever `stopped`) and `work i` (whenever the flag is set) are offered;
* `resize m` keeps `N` until the reset (faithful because `resize` is issued while not paused);
* `runBlocks 0` goes through the micro-steps with nothing published; `b > N` behaves like `b = N`;
* the reset at the end of `resize` is one atomic caller step (all workers joined);
* spin loops are modelled as blocking transitions.

The OLD pause job (`++count; m_cv.wait(lk); --count`, no flag) with the same spurious-wake rule is
`stepOld` at the end of this file: it reaches a state in which `pause()` spins forever. -/
set_option linter.unusedSimpArgs false

namespace Fs.Pool5

inductive WPc | idle | runBlock | pLock | pInc | pCheck | pWaitEnter | pWaiting | pReacquire | pDec | clear | exited
deriving DecidableEq, Repr

inductive CPc
  | ready
  | rbSet (b : Nat) | rbPub (k b : Nat) | rbWait (b : Nat)
  | paWait | paLock | paReq | paUnlock | paSet | paPub (k : Nat) | paSetPaused | paSpin
  | reLock | reReq | reNotify | reUnlock | reClear | reWait
  | stSet | join
deriving DecidableEq, Repr

inductive Op | runBlocks (b : Nat) | pause | resume | stop | resize (m : Nat) deriving DecidableEq, Repr

/-- what the running `resume`/`stop` protocol was called from (the caller's "call stack") -/
inductive Ctx | top | inRun (b : Nat) | inStop | inResize (m : Nat) deriving DecidableEq, Repr

/-- scheduler choices: the caller, worker `i`'s protocol step, worker `i` leaving its main loop,
worker `i`'s `m_cv.wait` returning without having been notified -/
inductive Tid | caller | work (i : Nat) | exit (i : Nat) | spur (i : Nat) deriving DecidableEq, Repr

structure S where
  N : Nat
  flags : Nat → Bool
  w : Nat → WPc
  notified : Nat → Bool
  count : Nat
  mutex : Option Nat          -- some i, i < N: worker i; some N: the caller
  pauseJobs : Bool            -- which job vector `p_jobs` points to
  paused : Bool
  stopped : Bool
  pauseReq : Bool             -- `m_pause_requested` (guarded by `m_cv_m`)
  cpc : CPc
  ctx : Ctx
  ops : List Op
  execs : Nat → Nat           -- ghost: number of block callbacks executed by worker i
  want : Nat → Nat            -- ghost: number of returned `run_blocks` calls with a block for worker i
  spur : Nat → Nat            -- ghost: remaining spurious wake-ups of worker slot i

def upd {β} (f : Nat → β) (i : Nat) (v : β) : Nat → β := fun j => if j = i then v else f j
@[simp] theorem upd_same {β} (f : Nat → β) (i : Nat) (v : β) : upd f i v i = v := by simp [upd]
theorem upd_ne {β} (f : Nat → β) (i j : Nat) (v : β) (h : j ≠ i) : upd f i v j = f j := by simp [upd, h]

def stepW (s : S) (i : Nat) : Option S :=
  match s.w i with
  | .idle => if s.flags i then
      some { s with w := upd s.w i (if s.pauseJobs then .pLock else .runBlock) } else none
  | .runBlock => some { s with w := upd s.w i .clear, execs := upd s.execs i (s.execs i + 1) }
  | .pLock => if s.mutex.isNone then some { s with mutex := some i, w := upd s.w i .pInc } else none
  | .pInc => some { s with count := s.count + 1, w := upd s.w i .pCheck }
  | .pCheck => some { s with w := upd s.w i (if s.pauseReq then .pWaitEnter else .pDec) }
  | .pWaitEnter => some { s with mutex := none, notified := upd s.notified i false, w := upd s.w i .pWaiting }
  | .pWaiting => if s.notified i then some { s with w := upd s.w i .pReacquire } else none
  | .pReacquire => if s.mutex.isNone then some { s with mutex := some i, w := upd s.w i .pCheck } else none
  | .pDec => some { s with count := s.count - 1, mutex := none, w := upd s.w i .clear }
  | .clear => some { s with flags := upd s.flags i false, w := upd s.w i .idle }
  | .exited => none

/-- worker `i` observes `m_stopped` at the head of its main loop and leaves it -/
def stepX (s : S) (i : Nat) : Option S :=
  if s.stopped = true ∧ s.w i = .idle then some { s with w := upd s.w i .exited } else none

/-- `m_cv.wait(lk)` of worker `i` returns although nobody notified (whether or not a notification
is pending); consumes one unit of the ghost budget `spur i` -/
def stepS (s : S) (i : Nat) : Option S :=
  if s.w i = .pWaiting ∧ 0 < s.spur i then
    some { s with w := upd s.w i .pReacquire, spur := upd s.spur i (s.spur i - 1) } else none

def allFlagsClear (s : S) : Bool := (List.range s.N).all (fun i => !s.flags i)
def allExited (s : S) : Bool := (List.range s.N).all (fun i => s.w i == .exited)

/-- the first micro-step of an API call -/
def startOp (s : S) (r : List Op) : Op → S
  | .runBlocks b => if s.paused then { s with ops := r, cpc := .reLock, ctx := .inRun b }
                    else { s with ops := r, cpc := .rbSet b }
  | .pause => { s with ops := r, cpc := if s.paused then .ready else .paWait }
  | .resume => { s with ops := r, cpc := if s.paused then .reLock else .ready }
  | .stop => if s.stopped then { s with ops := r } else { s with ops := r, cpc := .stSet, ctx := .inStop }
  | .resize m => if m = s.N then { s with ops := r } else { s with ops := r, cpc := .stSet, ctx := .inResize m }

def stepC (s : S) : Option S :=
  match s.cpc with
  | .ready => match s.ops with
    | [] => none
    | op :: r => some (startOp s r op)
  | .rbSet b => some { s with pauseJobs := false, cpc := .rbPub 0 b }
  | .rbPub k b => if k < s.N then
        some { s with flags := if k < b then upd s.flags k true else s.flags, cpc := .rbPub (k + 1) b }
      else some { s with cpc := .rbWait b }
  | .rbWait b => if allFlagsClear s then
        some { s with cpc := .ready, want := fun i => s.want i + (if i < b ∧ i < s.N then 1 else 0) }
      else none
  | .paWait => if allFlagsClear s then some { s with cpc := .paLock } else none
  | .paLock => if s.mutex.isNone then some { s with mutex := some s.N, cpc := .paReq } else none
  | .paReq => some { s with pauseReq := true, cpc := .paUnlock }
  | .paUnlock => some { s with mutex := none, cpc := .paSet }
  | .paSet => some { s with pauseJobs := true, cpc := .paPub 0 }
  | .paPub k => if k < s.N then some { s with flags := upd s.flags k true, cpc := .paPub (k + 1) }
                else some { s with cpc := .paSetPaused }
  | .paSetPaused => some { s with paused := true, cpc := .paSpin }
  | .paSpin => if s.count = s.N then some { s with cpc := .ready } else none
  | .reLock => if s.mutex.isNone then some { s with mutex := some s.N, cpc := .reReq } else none
  | .reReq => some { s with pauseReq := false, cpc := .reNotify }
  | .reNotify => some { s with notified := fun i => s.notified i || (s.w i == .pWaiting), cpc := .reUnlock }
  | .reUnlock => some { s with mutex := none, cpc := .reClear }
  | .reClear => some { s with paused := false, cpc := .reWait }
  | .reWait => if allFlagsClear s then
        some (match s.ctx with
          | .top => { s with cpc := .ready }
          | .inRun b => { s with cpc := .rbSet b, ctx := .top }
          | _ => { s with cpc := .join })
      else none
  | .stSet => some { s with stopped := true, cpc := if s.paused then .reLock else .join }
  | .join => if allExited s then
        some (match s.ctx with
          | .inResize m => { s with N := m, flags := fun _ => false, w := fun _ => .idle,
                                    notified := fun _ => false, stopped := false, cpc := .ready, ctx := .top }
          | _ => { s with cpc := .ready, ctx := .top })
      else none

def step (s : S) : Tid → Option S
  | .caller => stepC s
  | .work i => if i < s.N then stepW s i else none
  | .exit i => if i < s.N then stepX s i else none
  | .spur i => if i < s.N then stepS s i else none

def finished (s : S) : Prop := s.cpc = .ready ∧ s.ops = []

/-- programs the library issues (first argument: paused, second: stopped): nothing but `stop`
after `stop`; `resize` only while not paused.  `runBlocks` is allowed while paused (implicit resume). -/
def okProg : Bool → Bool → List Op → Bool
  | _, _, [] => true
  | _, st, .runBlocks _ :: r => !st && okProg false false r
  | _, st, .pause :: r => !st && okProg true false r
  | _, st, .resume :: r => !st && okProg false false r
  | p, st, .resize _ :: r => !p && !st && okProg false false r
  | _, _, .stop :: r => okProg false true r

def Ctx.isTop : Ctx → Bool | .top => true | _ => false
def Ctx.stopping : Ctx → Bool | .inStop | .inResize _ => true | _ => false
def Ctx.isResize : Ctx → Bool | .inResize _ => true | _ => false
def Ctx.isStop : Ctx → Bool | .inStop => true | _ => false

/-- value of `m_paused` once the current API call has returned -/
def pausedAfter (s : S) : Bool :=
  match s.cpc with
  | .ready => s.paused
  | .paWait | .paLock | .paReq | .paUnlock | .paSet | .paPub _ | .paSetPaused | .paSpin => true
  | _ => false

/-- value of `m_stopped` once the current API call has returned -/
def stoppedAfter (s : S) : Bool :=
  match s.cpc with
  | .ready => s.stopped
  | _ => s.ctx.isStop

/-- which worker states hold the mutex -/
def holds : WPc → Bool
  | .pInc | .pCheck | .pWaitEnter | .pDec => true
  | _ => false
/-- in which caller states the caller holds the mutex -/
def callerHolds : CPc → Bool
  | .paReq | .paUnlock | .reReq | .reNotify | .reUnlock => true
  | _ => false
/-- which worker states are counted in `m_paused_count` -/
def counted : WPc → Bool
  | .pCheck | .pWaitEnter | .pWaiting | .pReacquire | .pDec => true
  | _ => false
def inBlock : WPc → Bool
  | .idle | .runBlock | .clear => true
  | _ => false
/-- inside the wait loop of the pause job -/
def parked : WPc → Bool
  | .pCheck | .pWaitEnter | .pWaiting | .pReacquire => true
  | _ => false
def pausing : WPc → Bool
  | .idle | .pLock | .pInc | .pCheck | .pWaitEnter | .pWaiting | .pReacquire => true
  | _ => false
def resuming : WPc → Bool
  | .pWaiting | .pReacquire | .pCheck | .pDec | .clear | .idle => true
  | _ => false

/-- per-worker phase fact: caller pc, `m_paused`, `m_stopped`, worker index, worker pc,
its flag, its pending notification -/
def wOK (c : CPc) (p st : Bool) (i : Nat) (w : WPc) (f nt : Bool) : Bool :=
  match c with
  | .ready => if st then w == .exited && !f
              else if p then parked w && (w == .pWaiting → !nt) && f
              else w == .idle && !f
  | .stSet => if p then parked w && (w == .pWaiting → !nt) && f
              else w == .idle && !f
  | .rbSet _ | .paWait | .paLock | .paReq | .paUnlock | .paSet => w == .idle && !f
  | .rbPub k b => inBlock w && ((decide (k ≤ i) || decide (b ≤ i)) → (w == .idle && !f))
  | .rbWait b => inBlock w && (decide (b ≤ i) → (w == .idle && !f))
  | .paPub k => pausing w && (w == .pWaiting → !nt) && (decide (k ≤ i) → !f) && (decide (i < k) → f)
  | .paSetPaused | .paSpin => pausing w && (w == .pWaiting → !nt) && f
  | .reLock => parked w && (w == .pWaiting → !nt) && f
  | .reReq | .reNotify => ((w == .pWaiting && !nt) || w == .pReacquire) && f
  | .reUnlock => ((w == .pWaiting && nt) || w == .pReacquire) && f
  | .reClear | .reWait => (resuming w || (st && w == .exited)) && (w == .pWaiting → nt)
                          && ((w == .idle || w == .exited) → !f)
  | .join => (w == .idle || w == .exited) && !f

/-- global phase fact (`pr` = `m_pause_requested`) -/
def gOK (c : CPc) (p pj st pr : Bool) (x : Ctx) (n : Nat) : Bool :=
  match c with
  | .ready => (!p || pj) && x.isTop && (!st || !p) && (pr == p)
  | .rbSet _ | .paWait | .paLock | .paReq => !p && !st && x.isTop && !pr
  | .paUnlock | .paSet => !p && !st && x.isTop && pr
  | .rbPub k _ => !p && !pj && !st && x.isTop && decide (k ≤ n) && !pr
  | .rbWait _ => !p && !pj && !st && x.isTop && !pr
  | .paPub k => !p && pj && !st && x.isTop && decide (k ≤ n) && pr
  | .paSetPaused => !p && pj && !st && x.isTop && pr
  | .paSpin => p && pj && !st && x.isTop && pr
  | .stSet => !st && x.stopping && (!p || pj) && (!x.isResize || !p) && (pr == p)
  | .reLock | .reReq => p && pj && (st == x.stopping) && !x.isResize && pr
  | .reNotify | .reUnlock => p && pj && (st == x.stopping) && !x.isResize && !pr
  | .reClear => pj && (st == x.stopping) && !x.isResize && !pr
  | .reWait => !p && pj && (st == x.stopping) && !x.isResize && !pr
  | .join => !p && st && x.stopping && !pr

/-- has worker `i` already executed its block of the `run_blocks` call in flight? -/
def doneB (c : CPc) (i : Nat) (w : WPc) (f : Bool) : Bool :=
  match c with
  | .rbPub k b => w == .clear || (w == .idle && !f && decide (i < k) && decide (i < b))
  | .rbWait b => w == .clear || (w == .idle && !f && decide (i < b))
  | _ => false

structure Inv (s : S) : Prop where
  mutexW : ∀ i, i < s.N → (s.mutex = some i ↔ holds (s.w i) = true)
  mutexC : s.mutex = some s.N ↔ callerHolds s.cpc = true
  mutexR : ∀ j, s.mutex = some j → j ≤ s.N
  cnt : s.count = (List.range s.N).countP (fun i => counted (s.w i))
  busy : ∀ i, i < s.N → s.w i ≠ .idle → s.w i ≠ .exited → s.flags i = true
  prog : okProg (pausedAfter s) (stoppedAfter s) s.ops = true
  glob : gOK s.cpc s.paused s.pauseJobs s.stopped s.pauseReq s.ctx s.N = true
  work : ∀ i, i < s.N → wOK s.cpc s.paused s.stopped i (s.w i) (s.flags i) (s.notified i) = true
  ghost : ∀ i, s.execs i = s.want i + (if (decide (i < s.N) && doneB s.cpc i (s.w i) (s.flags i)) = true then 1 else 0)

/-! ### preservation by worker steps -/

/-- per-worker phase fact is preserved by each worker transition (finite case analysis) -/
theorem wOK_idle_run (c p st pr x i nt n) (hg : gOK c p false st pr x n = true) (h : wOK c p st i .idle true nt = true) :
    wOK c p st i .runBlock true nt = true := by
  cases c <;> cases p <;> cases st <;> cases nt <;> simp_all [wOK, gOK, inBlock, pausing, resuming, parked]
theorem wOK_idle_lock (c p st pr x i nt n) (hg : gOK c p true st pr x n = true) (h : wOK c p st i .idle true nt = true) :
    wOK c p st i .pLock true nt = true := by
  cases c <;> cases p <;> cases st <;> cases nt <;> simp_all [wOK, gOK, inBlock, pausing, resuming, parked]
theorem wOK_run_clear (c p st i f nt) (h : wOK c p st i .runBlock f nt = true) : wOK c p st i .clear f nt = true := by
  cases c <;> cases p <;> cases st <;> cases f <;> cases nt <;> simp_all [wOK, inBlock, pausing, resuming, parked]
theorem wOK_lock_inc (c p st i f nt) (h : wOK c p st i .pLock f nt = true) : wOK c p st i .pInc f nt = true := by
  cases c <;> cases p <;> cases st <;> cases f <;> cases nt <;> simp_all [wOK, inBlock, pausing, resuming, parked]
theorem wOK_inc_check (c p st i f nt) (h : wOK c p st i .pInc f nt = true) : wOK c p st i .pCheck f nt = true := by
  cases c <;> cases p <;> cases st <;> cases f <;> cases nt <;> simp_all [wOK, inBlock, pausing, resuming, parked]
/-- loop head with `m_pause_requested` set: go to sleep -/
theorem wOK_check_we (c p pj st x i f nt n) (hg : gOK c p pj st true x n = true)
    (h : wOK c p st i .pCheck f nt = true) : wOK c p st i .pWaitEnter f nt = true := by
  cases c <;> cases p <;> cases st <;> cases f <;> cases nt <;> simp_all [wOK, gOK, inBlock, pausing, resuming, parked]
/-- loop head with `m_pause_requested` clear: leave the loop -/
theorem wOK_check_dec (c p pj st x i f nt n) (hg : gOK c p pj st false x n = true)
    (h : wOK c p st i .pCheck f nt = true) : wOK c p st i .pDec f nt = true := by
  cases c <;> cases p <;> cases st <;> cases f <;> cases nt <;> simp_all [wOK, gOK, inBlock, pausing, resuming, parked]
theorem wOK_we_wait (c p st i f nt) (h : wOK c p st i .pWaitEnter f nt = true) : wOK c p st i .pWaiting f false = true := by
  cases c <;> cases p <;> cases st <;> cases f <;> cases nt <;> simp_all [wOK, inBlock, pausing, resuming, parked]
theorem wOK_wait_re (c p st i f) (h : wOK c p st i .pWaiting f true = true) : wOK c p st i .pReacquire f true = true := by
  cases c <;> cases p <;> cases st <;> cases f <;> simp_all [wOK, inBlock, pausing, resuming, parked]
/-- a spurious return of `wait` is harmless in every phase -/
theorem wOK_wait_spur (c p st i f nt) (h : wOK c p st i .pWaiting f nt = true) : wOK c p st i .pReacquire f nt = true := by
  cases c <;> cases p <;> cases st <;> cases f <;> cases nt <;> simp_all [wOK, inBlock, pausing, resuming, parked]
theorem wOK_re_check (c p st i f nt) (hc : callerHolds c = false) (h : wOK c p st i .pReacquire f nt = true) :
    wOK c p st i .pCheck f nt = true := by
  cases c <;> cases p <;> cases st <;> cases f <;> cases nt <;> simp_all [wOK, callerHolds, inBlock, pausing, resuming, parked]
theorem wOK_dec_clear (c p st i f nt) (h : wOK c p st i .pDec f nt = true) : wOK c p st i .clear f nt = true := by
  cases c <;> cases p <;> cases st <;> cases f <;> cases nt <;> simp_all [wOK, inBlock, pausing, resuming, parked]
theorem wOK_clear_idle (c p st i nt) (h : wOK c p st i .clear true nt = true) : wOK c p st i .idle false nt = true := by
  cases c <;> cases p <;> cases st <;> cases nt <;> simp_all [wOK, inBlock, pausing, resuming, parked]
theorem wOK_idle_exit (c p pj pr x i f nt n) (hg : gOK c p pj true pr x n = true) (h : wOK c p true i .idle f nt = true) :
    wOK c p true i .exited f nt = true := by
  cases c <;> cases p <;> cases f <;> cases nt <;> simp_all [wOK, gOK, inBlock, pausing, resuming, parked]

/-! ghost bookkeeping: which worker transitions change "has executed its block" -/
theorem doneB_of_ne (c i w f) (h1 : w ≠ .clear) (h2 : w ≠ .idle) : doneB c i w f = false := by
  cases c <;> simp [doneB, h1, h2]
theorem doneB_idle_set (c i) : doneB c i .idle true = false := by
  cases c <;> simp [doneB]
theorem doneB_run_clear (c p st i f nt) (h : wOK c p st i .runBlock f nt = true) : doneB c i .clear f = true := by
  cases c <;> cases p <;> cases st <;> simp_all [wOK, doneB, inBlock, pausing, resuming, parked]
theorem doneB_dec_clear (c p st i f nt) (h : wOK c p st i .pDec f nt = true) : doneB c i .clear f = false := by
  cases c <;> cases p <;> cases st <;> simp_all [wOK, doneB, inBlock, pausing, resuming, parked]
theorem doneB_clear_idle (c p st i f nt) (h : wOK c p st i .clear f nt = true) :
    doneB c i .idle false = doneB c i .clear f := by
  cases c <;> cases p <;> cases st <;> simp_all [wOK, doneB, inBlock, pausing, resuming, parked] <;> omega
theorem doneB_stopped (c p pj pr x n i w f) (hg : gOK c p pj true pr x n = true) : doneB c i w f = false := by
  cases c <;> simp_all [gOK, doneB]

theorem countP_upd (n : Nat) (c : WPc → Bool) (w : Nat → WPc) (i : Nat) (v : WPc) (hi : i < n) :
    (List.range n).countP (fun j => c (upd w i v j)) + (if c (w i) then 1 else 0)
      = (List.range n).countP (fun j => c (w j)) + (if c v then 1 else 0) := by
  induction n with
  | zero => omega
  | succ m ih =>
    rw [List.range_succ, List.countP_append, List.countP_append]
    simp only [List.countP_cons, List.countP_nil, Nat.zero_add]
    by_cases him : i = m
    · subst him
      have : (List.range i).countP (fun j => c (upd w i v j)) = (List.range i).countP (fun j => c (w j)) := by
        apply List.countP_congr
        intro j hj
        have : j ≠ i := by have := List.mem_range.mp hj; omega
        simp [upd_ne _ _ _ _ this]
      rw [this, upd_same]
      cases c (w i) <;> cases c v <;> simp <;> omega
    · have hlt : i < m := by omega
      have := ih hlt
      have hm : upd w i v m = w m := upd_ne _ _ _ _ (by omega)
      rw [hm]
      cases c (w m) <;> simp <;> omega

theorem Inv.no_holder {s : S} (inv : Inv s) (hm : s.mutex = none) : ∀ j, j < s.N → holds (s.w j) = false := by
  intro j hj
  cases hh : holds (s.w j)
  · rfl
  · have := (inv.mutexW j hj).mpr hh; rw [hm] at this; cases this

theorem Inv.other_not_holder {s : S} (inv : Inv s) {i : Nat} (hm : s.mutex = some i) :
    ∀ j, j < s.N → j ≠ i → holds (s.w j) = false := by
  intro j hj hne
  cases hh : holds (s.w j)
  · rfl
  · have := (inv.mutexW j hj).mpr hh; rw [hm] at this; cases this; exact absurd rfl hne

/-- mutex facts after a worker step that neither takes nor releases the mutex -/
theorem mutex_keep {s : S} (inv : Inv s) (i : Nat) (w' : WPc) (hh : holds w' = holds (s.w i)) :
    ∀ j, j < s.N → (s.mutex = some j ↔ holds (upd s.w i w' j) = true) := by
  intro j hj; by_cases hji : j = i
  · subst hji; rw [upd_same, hh]; exact inv.mutexW j hj
  · rw [upd_ne _ _ _ _ hji]; exact inv.mutexW j hj

/-- mutex facts after worker `i` has taken the free mutex -/
theorem mutex_acq {s : S} (inv : Inv s) (i : Nat) (hi : i < s.N) (w' : WPc) (hm : s.mutex = none)
    (hh : holds w' = true) :
    (∀ j, j < s.N → ((some i : Option Nat) = some j ↔ holds (upd s.w i w' j) = true)) ∧
    ((some i : Option Nat) = some s.N ↔ callerHolds s.cpc = true) ∧
    (∀ j, (some i : Option Nat) = some j → j ≤ s.N) := by
  refine ⟨?_, ?_, ?_⟩
  · intro j hj; by_cases hji : j = i
    · subst hji; simp [hh]
    · have := inv.no_holder hm j hj
      simp [upd_ne _ _ _ _ hji, this]; exact fun e => hji e.symm
  · constructor
    · intro e; simp at e; omega
    · intro hc; have := inv.mutexC.mpr hc; rw [hm] at this; cases this
  · intro j e; simp at e; omega

/-- mutex facts after worker `i` has released the mutex -/
theorem mutex_rel {s : S} (inv : Inv s) (i : Nat) (hi : i < s.N) (w' : WPc) (hmi : s.mutex = some i)
    (hh : holds w' = false) :
    (∀ j, j < s.N → ((none : Option Nat) = some j ↔ holds (upd s.w i w' j) = true)) ∧
    ((none : Option Nat) = some s.N ↔ callerHolds s.cpc = true) ∧
    (∀ j, (none : Option Nat) = some j → j ≤ s.N) := by
  refine ⟨?_, ?_, ?_⟩
  · intro j hj; by_cases hji : j = i
    · subst hji; simp [hh]
    · have := inv.other_not_holder hmi j hj hji
      simp [upd_ne _ _ _ _ hji, this]
  · constructor
    · intro e; cases e
    · intro hc; have := inv.mutexC.mpr hc; rw [hmi] at this; simp at this; omega
  · intro j e; cases e

/-- generic re-establishment of the invariant after worker `i` moved -/
theorem inv_worker (s s' : S) (inv : Inv s) (i : Nat) (hi : i < s.N)
    (hN : s'.N = s.N) (hcpc : s'.cpc = s.cpc) (hops : s'.ops = s.ops) (hp : s'.paused = s.paused)
    (hpj : s'.pauseJobs = s.pauseJobs) (hst : s'.stopped = s.stopped) (hpr : s'.pauseReq = s.pauseReq)
    (hctx : s'.ctx = s.ctx) (hwant : s'.want = s.want)
    (hwo : ∀ j, j ≠ i → s'.w j = s.w j) (hfo : ∀ j, j ≠ i → s'.flags j = s.flags j)
    (hno : ∀ j, j ≠ i → s'.notified j = s.notified j) (heo : ∀ j, j ≠ i → s'.execs j = s.execs j)
    (hwi : wOK s.cpc s.paused s.stopped i (s'.w i) (s'.flags i) (s'.notified i) = true)
    (hmW : ∀ j, j < s.N → (s'.mutex = some j ↔ holds (s'.w j) = true))
    (hmC : s'.mutex = some s.N ↔ callerHolds s.cpc = true)
    (hmR : ∀ j, s'.mutex = some j → j ≤ s.N)
    (hcnt : s'.count + (if counted (s.w i) then 1 else 0) = s.count + (if counted (s'.w i) then 1 else 0))
    (hbusy : s'.w i ≠ .idle → s'.w i ≠ .exited → s'.flags i = true)
    (hgh : s'.execs i = s.want i + (if doneB s.cpc i (s'.w i) (s'.flags i) = true then 1 else 0)) : Inv s' := by
  have hw' : s'.w = upd s.w i (s'.w i) := by
    funext j; by_cases h : j = i
    · subst h; simp
    · rw [upd_ne _ _ _ _ h]; exact hwo j h
  refine ⟨?_, ?_, ?_, ?_, ?_, ?_, ?_, ?_, ?_⟩
  · rw [hN]; exact hmW
  · rw [hN, hcpc]; exact hmC
  · rw [hN]; exact hmR
  · rw [hN]
    have := countP_upd s.N counted s.w i (s'.w i) hi
    rw [← hw'] at this
    have h2 := inv.cnt
    omega
  · rw [hN]; intro j hj hne hne2
    by_cases h : j = i
    · subst h; exact hbusy hne hne2
    · rw [hfo j h]; rw [hwo j h] at hne hne2; exact inv.busy j hj hne hne2
  · have h1 : pausedAfter s' = pausedAfter s := by simp [pausedAfter, hcpc, hp]
    have h2 : stoppedAfter s' = stoppedAfter s := by simp [stoppedAfter, hcpc, hst, hctx]
    rw [h1, h2, hops]; exact inv.prog
  · rw [hcpc, hp, hpj, hst, hpr, hctx, hN]; exact inv.glob
  · rw [hN, hcpc, hp, hst]; intro j hj
    by_cases h : j = i
    · subst h; exact hwi
    · rw [hwo j h, hfo j h, hno j h]; exact inv.work j hj
  · intro j
    rw [hN, hcpc, hwant]
    by_cases h : j = i
    · subst h; rw [hgh]; simp [hi]
    · rw [hwo j h, hfo j h, heo j h]; exact inv.ghost j

/-- closes the frame conditions of `inv_worker` -/
macro "frame" : tactic =>
  `(tactic| first | (intro _ _; rfl) | (intro j hj; simp [upd_ne _ _ _ _ hj]))

theorem Inv.ghost_plain {s : S} (inv : Inv s) (i : Nat) (h : doneB s.cpc i (s.w i) (s.flags i) = false) :
    s.execs i = s.want i := by
  have := inv.ghost i; rw [h] at this; simpa using this



theorem inv_stepW (s s' : S) (inv : Inv s) (i : Nat) (hi : i < s.N) (h : stepW s i = some s') : Inv s' := by
  have hwork := inv.work i hi
  have hgho := inv.ghost i
  simp only [hi, decide_true, Bool.true_and] at hgho
  unfold stepW at h
  cases hw : s.w i <;> rw [hw] at h hwork hgho <;> simp only [] at h
  · -- idle: take the published job
    split at h
    · rename_i hf
      cases h
      rw [hf] at hwork hgho
      rw [doneB_idle_set] at hgho
      cases hpj : s.pauseJobs
      · have hg := inv.glob; rw [hpj] at hg
        refine inv_worker s _ inv i hi rfl rfl rfl rfl hpj.symm rfl rfl rfl rfl (by frame) (by frame) (by frame) (by frame)
          ?_ (mutex_keep inv i _ (by simp [hw, holds])) inv.mutexC inv.mutexR ?_ ?_ ?_
        · simpa [hf] using wOK_idle_run _ _ _ _ _ _ _ _ hg hwork
        · simp [hw, counted]
        · intro _ _; simpa using hf
        · simp only [upd_same, Bool.false_eq_true, if_false]
          rw [doneB_of_ne _ _ _ _ (by simp) (by simp)]; simpa using hgho
      · have hg := inv.glob; rw [hpj] at hg
        refine inv_worker s _ inv i hi rfl rfl rfl rfl hpj.symm rfl rfl rfl rfl (by frame) (by frame) (by frame) (by frame)
          ?_ (mutex_keep inv i _ (by simp [hw, holds])) inv.mutexC inv.mutexR ?_ ?_ ?_
        · simpa [hf] using wOK_idle_lock _ _ _ _ _ _ _ _ hg hwork
        · simp [hw, counted]
        · intro _ _; simpa using hf
        · simp only [upd_same, if_true]
          rw [doneB_of_ne _ _ _ _ (by simp) (by simp)]; simpa using hgho
    · cases h
  · -- runBlock -> clear: the callback has been executed
    cases h
    rw [doneB_of_ne _ _ _ _ (by simp) (by simp)] at hgho
    refine inv_worker s _ inv i hi rfl rfl rfl rfl rfl rfl rfl rfl rfl (by frame) (by frame) (by frame) (by frame)
      ?_ (mutex_keep inv i _ (by simp [hw, holds])) inv.mutexC inv.mutexR ?_ ?_ ?_
    · simpa using wOK_run_clear _ _ _ _ _ _ hwork
    · simp [hw, counted]
    · intro _ _; exact inv.busy i hi (by simp [hw]) (by simp [hw])
    · simp only [upd_same]
      rw [doneB_run_clear _ _ _ _ _ _ hwork]; simp at hgho ⊢; omega
  · -- pLock -> pInc (needs the mutex)
    split at h
    · rename_i hm
      have hm' : s.mutex = none := by simpa using hm
      cases h
      rw [doneB_of_ne _ _ _ _ (by simp) (by simp)] at hgho
      have hmx := mutex_acq inv i hi .pInc hm' rfl
      refine inv_worker s _ inv i hi rfl rfl rfl rfl rfl rfl rfl rfl rfl (by frame) (by frame) (by frame) (by frame)
        ?_ hmx.1 hmx.2.1 hmx.2.2 ?_ ?_ ?_
      · simpa using wOK_lock_inc _ _ _ _ _ _ hwork
      · simp [hw, counted]
      · intro _ _; exact inv.busy i hi (by simp [hw]) (by simp [hw])
      · simp only [upd_same]
        rw [doneB_of_ne _ _ _ _ (by simp) (by simp)]; simpa using hgho
    · cases h
  · -- pInc -> pCheck, ++count
    cases h
    rw [doneB_of_ne _ _ _ _ (by simp) (by simp)] at hgho
    refine inv_worker s _ inv i hi rfl rfl rfl rfl rfl rfl rfl rfl rfl (by frame) (by frame) (by frame) (by frame)
      ?_ (mutex_keep inv i _ (by simp [hw, holds])) inv.mutexC inv.mutexR ?_ ?_ ?_
    · simpa using wOK_inc_check _ _ _ _ _ _ hwork
    · simp [hw, counted]
    · intro _ _; exact inv.busy i hi (by simp [hw]) (by simp [hw])
    · simp only [upd_same]
      rw [doneB_of_ne _ _ _ _ (by simp) (by simp)]; simpa using hgho
  · -- pCheck: the loop head `while (m_pause_requested)`
    cases h
    rw [doneB_of_ne _ _ _ _ (by simp) (by simp)] at hgho
    have hg := inv.glob
    cases hpr : s.pauseReq
    · rw [hpr] at hg
      simp only [Bool.false_eq_true, if_false]
      refine inv_worker s _ inv i hi rfl rfl rfl rfl rfl rfl hpr.symm rfl rfl (by frame) (by frame) (by frame) (by frame)
        ?_ (mutex_keep inv i _ (by simp [hw, holds])) inv.mutexC inv.mutexR ?_ ?_ ?_
      · simpa using wOK_check_dec _ _ _ _ _ _ _ _ _ hg hwork
      · simp [hw, counted]
      · intro _ _; exact inv.busy i hi (by simp [hw]) (by simp [hw])
      · simp only [upd_same]
        rw [doneB_of_ne _ _ _ _ (by simp) (by simp)]; simpa using hgho
    · rw [hpr] at hg
      simp only [if_true]
      refine inv_worker s _ inv i hi rfl rfl rfl rfl rfl rfl hpr.symm rfl rfl (by frame) (by frame) (by frame) (by frame)
        ?_ (mutex_keep inv i _ (by simp [hw, holds])) inv.mutexC inv.mutexR ?_ ?_ ?_
      · simpa using wOK_check_we _ _ _ _ _ _ _ _ _ hg hwork
      · simp [hw, counted]
      · intro _ _; exact inv.busy i hi (by simp [hw]) (by simp [hw])
      · simp only [upd_same]
        rw [doneB_of_ne _ _ _ _ (by simp) (by simp)]; simpa using hgho
  · -- pWaitEnter -> pWaiting, releases the mutex, clears the pending notification
    cases h
    rw [doneB_of_ne _ _ _ _ (by simp) (by simp)] at hgho
    have hmi : s.mutex = some i := (inv.mutexW i hi).mpr (by simp [hw, holds])
    have hmx := mutex_rel inv i hi .pWaiting hmi rfl
    refine inv_worker s _ inv i hi rfl rfl rfl rfl rfl rfl rfl rfl rfl (by frame) (by frame) (by frame) (by frame)
      ?_ hmx.1 hmx.2.1 hmx.2.2 ?_ ?_ ?_
    · simpa using wOK_we_wait _ _ _ _ _ _ hwork
    · simp [hw, counted]
    · intro _ _; exact inv.busy i hi (by simp [hw]) (by simp [hw])
    · simp only [upd_same]
      rw [doneB_of_ne _ _ _ _ (by simp) (by simp)]; simpa using hgho
  · -- pWaiting -> pReacquire (notified)
    split at h
    · rename_i hn
      cases h
      rw [hn] at hwork
      rw [doneB_of_ne _ _ _ _ (by simp) (by simp)] at hgho
      refine inv_worker s _ inv i hi rfl rfl rfl rfl rfl rfl rfl rfl rfl (by frame) (by frame) (by frame) (by frame)
        ?_ (mutex_keep inv i _ (by simp [hw, holds])) inv.mutexC inv.mutexR ?_ ?_ ?_
      · simpa [hn] using wOK_wait_re _ _ _ _ _ hwork
      · simp [hw, counted]
      · intro _ _; exact inv.busy i hi (by simp [hw]) (by simp [hw])
      · simp only [upd_same]
        rw [doneB_of_ne _ _ _ _ (by simp) (by simp)]; simpa using hgho
    · cases h
  · -- pReacquire -> pCheck (needs the mutex): back to the loop head
    split at h
    · rename_i hm
      have hm' : s.mutex = none := by simpa using hm
      cases h
      rw [doneB_of_ne _ _ _ _ (by simp) (by simp)] at hgho
      have hcu : callerHolds s.cpc = false := by
        cases hch : callerHolds s.cpc
        · rfl
        · have := inv.mutexC.mpr hch; rw [hm'] at this; cases this
      have hmx := mutex_acq inv i hi .pCheck hm' rfl
      refine inv_worker s _ inv i hi rfl rfl rfl rfl rfl rfl rfl rfl rfl (by frame) (by frame) (by frame) (by frame)
        ?_ hmx.1 hmx.2.1 hmx.2.2 ?_ ?_ ?_
      · simpa using wOK_re_check _ _ _ _ _ _ hcu hwork
      · simp [hw, counted]
      · intro _ _; exact inv.busy i hi (by simp [hw]) (by simp [hw])
      · simp only [upd_same]
        rw [doneB_of_ne _ _ _ _ (by simp) (by simp)]; simpa using hgho
    · cases h
  · -- pDec -> clear, --count, releases the mutex
    cases h
    rw [doneB_of_ne _ _ _ _ (by simp) (by simp)] at hgho
    have hmi : s.mutex = some i := (inv.mutexW i hi).mpr (by simp [hw, holds])
    have hpos : 0 < s.count := by
      rw [inv.cnt]
      apply List.countP_pos_iff.mpr
      exact ⟨i, List.mem_range.mpr hi, by simp [hw, counted]⟩
    have hmx := mutex_rel inv i hi .clear hmi rfl
    refine inv_worker s _ inv i hi rfl rfl rfl rfl rfl rfl rfl rfl rfl (by frame) (by frame) (by frame) (by frame)
      ?_ hmx.1 hmx.2.1 hmx.2.2 ?_ ?_ ?_
    · simpa using wOK_dec_clear _ _ _ _ _ _ hwork
    · simp [hw, counted]; omega
    · intro _ _; exact inv.busy i hi (by simp [hw]) (by simp [hw])
    · simp only [upd_same]
      rw [doneB_dec_clear _ _ _ _ _ _ hwork]; simpa using hgho
  · -- clear -> idle, flag := 0
    cases h
    have hf : s.flags i = true := inv.busy i hi (by simp [hw]) (by simp [hw])
    rw [hf] at hwork hgho
    refine inv_worker s _ inv i hi rfl rfl rfl rfl rfl rfl rfl rfl rfl (by frame) (by frame) (by frame) (by frame)
      ?_ (mutex_keep inv i _ (by simp [hw, holds])) inv.mutexC inv.mutexR ?_ ?_ ?_
    · simpa using wOK_clear_idle _ _ _ _ _ hwork
    · simp [hw, counted]
    · intro hne; simp at hne
    · simp only [upd_same]
      rw [doneB_clear_idle _ _ _ _ _ _ hwork]; exact hgho
  · -- exited: no step
    cases h

theorem inv_stepX (s s' : S) (inv : Inv s) (i : Nat) (hi : i < s.N) (h : stepX s i = some s') : Inv s' := by
  unfold stepX at h
  split at h
  · rename_i hc
    obtain ⟨hst, hw⟩ := hc
    cases h
    have hwork := inv.work i hi
    have hg := inv.glob
    rw [hst] at hg hwork
    rw [hw] at hwork
    have hgho := inv.ghost_plain i (doneB_stopped _ _ _ _ _ _ _ _ _ hg)
    refine inv_worker s _ inv i hi rfl rfl rfl rfl rfl rfl rfl rfl rfl (by frame) (by frame) (by frame) (by frame)
      ?_ (mutex_keep inv i _ (by simp [hw, holds])) inv.mutexC inv.mutexR ?_ ?_ ?_
    · simpa [hst] using wOK_idle_exit _ _ _ _ _ _ _ _ _ hg hwork
    · simp [hw, counted]
    · intro _ hne; simp at hne
    · simp only [upd_same]
      rw [doneB_of_ne _ _ _ _ (by simp) (by simp)]; simpa using hgho
  · cases h

/-- a spurious return of `m_cv.wait` preserves the invariant -/
theorem inv_stepS (s s' : S) (inv : Inv s) (i : Nat) (hi : i < s.N) (h : stepS s i = some s') : Inv s' := by
  unfold stepS at h
  split at h
  · rename_i hc
    obtain ⟨hw, _⟩ := hc
    cases h
    have hwork := inv.work i hi
    rw [hw] at hwork
    have hgho := inv.ghost i
    simp only [hi, decide_true, Bool.true_and] at hgho
    rw [hw, doneB_of_ne _ _ _ _ (by simp) (by simp)] at hgho
    refine inv_worker s _ inv i hi rfl rfl rfl rfl rfl rfl rfl rfl rfl (by frame) (by frame) (by frame) (by frame)
      ?_ (mutex_keep inv i _ (by simp [hw, holds])) inv.mutexC inv.mutexR ?_ ?_ ?_
    · simpa using wOK_wait_spur _ _ _ _ _ _ hwork
    · simp [hw, counted]
    · intro _ _; exact inv.busy i hi (by simp [hw]) (by simp [hw])
    · simp only [upd_same]
      rw [doneB_of_ne _ _ _ _ (by simp) (by simp)]; simpa using hgho
  · cases h

/-! ### preservation by caller steps -/

/-- generic re-establishment of the invariant after a caller micro-step (workers untouched) -/
theorem inv_caller (s s' : S) (inv : Inv s)
    (hN : s'.N = s.N) (hw : s'.w = s.w) (hcount : s'.count = s.count)
    (hmW : ∀ j, j < s.N → (s'.mutex = some j ↔ holds (s.w j) = true))
    (hmC : s'.mutex = some s.N ↔ callerHolds s'.cpc = true)
    (hmR : ∀ j, s'.mutex = some j → j ≤ s.N)
    (hflags : ∀ j, j < s.N → s.flags j = true → s'.flags j = true)
    (hprog : okProg (pausedAfter s') (stoppedAfter s') s'.ops = true)
    (hglob : gOK s'.cpc s'.paused s'.pauseJobs s'.stopped s'.pauseReq s'.ctx s.N = true)
    (hwork : ∀ j, j < s.N → wOK s'.cpc s'.paused s'.stopped j (s.w j) (s'.flags j) (s'.notified j) = true)
    (hghost : ∀ j, s'.execs j = s'.want j +
      (if (decide (j < s.N) && doneB s'.cpc j (s.w j) (s'.flags j)) = true then 1 else 0)) :
    Inv s' := by
  refine ⟨?_, ?_, ?_, ?_, ?_, hprog, ?_, ?_, ?_⟩
  · rw [hN, hw]; exact hmW
  · rw [hN]; exact hmC
  · rw [hN]; exact hmR
  · rw [hN, hw, hcount]; exact inv.cnt
  · rw [hN, hw]; intro j hj hne hne2; exact hflags j hj (inv.busy j hj hne hne2)
  · rw [hN]; exact hglob
  · rw [hN, hw]; exact hwork
  · rw [hN, hw]; exact hghost

theorem Inv.mutexC_other {s : S} (inv : Inv s) (c' : CPc)
    (h1 : callerHolds s.cpc = false) (h2 : callerHolds c' = false) :
    s.mutex = some s.N ↔ callerHolds c' = true := by
  constructor
  · intro e; have := inv.mutexC.mp e; rw [h1] at this; cases this
  · intro e; rw [h2] at e; cases e

/-- the ghost fact carries over when "has executed its block" is unchanged for every worker -/
theorem Inv.ghost_to {s : S} (inv : Inv s) (c' : CPc) (fl : Nat → Bool)
    (h : ∀ j, j < s.N → doneB c' j (s.w j) (fl j) = doneB s.cpc j (s.w j) (s.flags j)) :
    ∀ j, s.execs j = s.want j + (if (decide (j < s.N) && doneB c' j (s.w j) (fl j)) = true then 1 else 0) := by
  intro j
  by_cases hj : j < s.N
  · rw [h j hj]; exact inv.ghost j
  · have := inv.ghost j; simpa [hj] using this

theorem flags_clear (s : S) (h : allFlagsClear s = true) : ∀ j, j < s.N → s.flags j = false := by
  intro j hj
  unfold allFlagsClear at h
  rw [List.all_eq_true] at h
  simpa using h j (List.mem_range.mpr hj)

theorem exited_all (s : S) (h : allExited s = true) : ∀ j, j < s.N → s.w j = .exited := by
  intro j hj
  unfold allExited at h
  rw [List.all_eq_true] at h
  simpa using h j (List.mem_range.mpr hj)

theorem Inv.idle_of_clear {s : S} (inv : Inv s) (h : allFlagsClear s = true) :
    ∀ j, j < s.N → (s.w j = .idle ∨ s.w j = .exited) ∧ s.flags j = false := by
  intro j hj
  have hf := flags_clear s h j hj
  refine ⟨?_, hf⟩
  by_cases h1 : s.w j = .idle
  · exact Or.inl h1
  · by_cases h2 : s.w j = .exited
    · exact Or.inr h2
    · have := inv.busy j hj h1 h2; rw [hf] at this; cases this

theorem all_counted_of_count_eq {n : Nat} {p : Nat → Bool} (h : (List.range n).countP p = n) :
    ∀ i, i < n → p i = true := by
  intro i hi
  have : (List.range n).countP p = (List.range n).length := by simpa using h
  exact (List.countP_eq_length.mp this) i (List.mem_range.mpr hi)

-- per-worker phase transitions (finite case analyses)
theorem wOK_idle_rbPub0 (b p st i nt) : wOK (.rbPub 0 b) p st i .idle false nt = true := by simp [wOK, inBlock]
theorem wOK_idle_paPub0 (p st i nt) : wOK (.paPub 0) p st i .idle false nt = true := by simp [wOK, pausing]
theorem wOK_paSpin_ready (i w f nt) (hc : counted w = true) (h : wOK .paSpin true false i w f nt = true) :
    wOK .ready true false i w f nt = true := by
  cases w <;> cases f <;> cases nt <;> simp_all [wOK, pausing, counted, parked]
theorem wOK_reLock_reReq (p st i w f nt) (hh : holds w = false) (h : wOK .reLock p st i w f nt = true) :
    wOK .reReq p st i w f nt = true := by
  cases w <;> cases f <;> cases nt <;> simp_all [wOK, holds, parked]
theorem wOK_reReq_reNotify (p st i w f nt) (h : wOK .reReq p st i w f nt = true) :
    wOK .reNotify p st i w f nt = true := by
  simpa [wOK] using h
theorem wOK_reNotify_reUnlock (p st i w f nt) (h : wOK .reNotify p st i w f nt = true) :
    wOK .reUnlock p st i w f (nt || (w == .pWaiting)) = true := by
  cases w <;> cases f <;> cases nt <;> simp_all [wOK]
theorem wOK_reUnlock_reClear (p st i w f nt) (h : wOK .reUnlock p st i w f nt = true) :
    wOK .reClear p st i w f nt = true := by
  cases w <;> cases f <;> cases nt <;> simp_all [wOK, resuming]
theorem wOK_reWait_idle (p st i w f nt) (h : wOK .reWait p st i w f nt = true) (hst : st = false)
    (hw : w = .idle ∨ w = .exited) : w = .idle := by
  subst hst
  rcases hw with hw | hw
  · exact hw
  · subst hw; simp [wOK, resuming] at h

theorem wOK_rbPub_set (k b p st j w f nt) (hkb : k < b) (h : wOK (.rbPub k b) p st j w f nt = true) :
    wOK (.rbPub (k + 1) b) p st j w (upd (fun _ => f) k true j) nt = true := by
  simp only [wOK, Bool.and_eq_true, Bool.or_eq_true, decide_eq_true_eq, Bool.decide_eq_true] at h ⊢
  refine ⟨h.1, ?_⟩
  have h2 := h.2
  intro hk
  have hjk : j ≠ k := by have := hkb; omega
  rw [upd_ne _ _ _ _ hjk]
  exact h2 (by omega)
theorem wOK_rbPub_skip (k b p st j w f nt) (h : wOK (.rbPub k b) p st j w f nt = true) :
    wOK (.rbPub (k + 1) b) p st j w f nt = true := by
  simp only [wOK, Bool.and_eq_true, Bool.or_eq_true, decide_eq_true_eq, Bool.decide_eq_true] at h ⊢
  refine ⟨h.1, ?_⟩
  have h2 := h.2
  intro hk
  exact h2 (by omega)
theorem wOK_rbPub_wait (k b p st j w f nt) (h : wOK (.rbPub k b) p st j w f nt = true) :
    wOK (.rbWait b) p st j w f nt = true := by
  simp only [wOK, Bool.and_eq_true, Bool.or_eq_true, decide_eq_true_eq, Bool.decide_eq_true] at h ⊢
  refine ⟨h.1, ?_⟩
  have h2 := h.2
  intro hk
  exact h2 (Or.inr hk)
theorem wOK_paPub_succ (k p st j w f nt) (h : wOK (.paPub k) p st j w f nt = true) :
    wOK (.paPub (k + 1)) p st j w (upd (fun _ => f) k true j) nt = true := by
  simp only [wOK, Bool.and_eq_true, decide_eq_true_eq] at h ⊢
  obtain ⟨⟨⟨h1, h2⟩, h3⟩, h4⟩ := h
  refine ⟨⟨⟨h1, h2⟩, ?_⟩, ?_⟩
  · intro hk
    have : j ≠ k := by omega
    simpa [upd, this] using h3 (by omega)
  · intro hk
    by_cases hjk : j = k
    · simp [upd, hjk]
    · simpa [upd, hjk] using h4 (by omega)
theorem wOK_paPub_done (k p st j w f nt) (hjk : j < k) (h : wOK (.paPub k) p st j w f nt = true) :
    wOK .paSetPaused p st j w f nt = true := by
  simp only [wOK, Bool.and_eq_true, decide_eq_true_eq] at h ⊢
  obtain ⟨⟨⟨h1, h2⟩, _⟩, h4⟩ := h
  exact ⟨⟨h1, h2⟩, h4 hjk⟩

-- ghost bookkeeping along the publication loop
theorem doneB_rbPub_set (k b p st j w f nt) (h : wOK (.rbPub k b) p st j w f nt = true) :
    doneB (.rbPub (k + 1) b) j w (upd (fun _ => f) k true j) = doneB (.rbPub k b) j w f := by
  simp only [wOK, Bool.and_eq_true, Bool.or_eq_true, decide_eq_true_eq, Bool.decide_eq_true] at h
  have h2 := h.2
  simp only [decide_eq_true_eq, Bool.and_eq_true, Bool.or_eq_true, beq_iff_eq, Bool.not_eq_true'] at h2
  by_cases hjk : j = k
  · subst hjk
    have := h2 (Or.inl (Nat.le_refl _))
    simp [doneB, this.1]
  · rw [upd_ne _ _ _ _ hjk]
    have : (j < k + 1) = (j < k) := by apply propext; omega
    simp [doneB, this]
theorem doneB_rbPub_skip (k b j w f) (hkb : ¬ k < b) :
    doneB (.rbPub (k + 1) b) j w f = doneB (.rbPub k b) j w f := by
  have : (j < k + 1 ∧ j < b) = (j < k ∧ j < b) := by apply propext; omega
  have h2 : (decide (j < k + 1) && decide (j < b)) = (decide (j < k) && decide (j < b)) := by
    rw [← Bool.decide_and, ← Bool.decide_and]; simp only [this]
  simp only [doneB, Bool.and_assoc, h2]
theorem doneB_rbPub_wait (k b j w f) (hjk : j < k) :
    doneB (.rbWait b) j w f = doneB (.rbPub k b) j w f := by
  simp [doneB, hjk]

/-- the global phase fact between API calls, spelled out -/
theorem gOK_ready {p pj st pr : Bool} {x : Ctx} {n : Nat} (h : gOK .ready p pj st pr x n = true) :
    (p = true → pj = true) ∧ x = .top ∧ (st = true → p = false) ∧ pr = p := by
  cases p <;> cases pj <;> cases st <;> cases pr <;> cases x <;> simp_all [gOK, Ctx.isTop]

/-- the first micro-step of every API call preserves the invariant -/
theorem inv_startOp (s : S) (inv : Inv s) (hc : s.cpc = .ready) (op : Op) (r : List Op) (ho : s.ops = op :: r) :
    Inv (startOp s r op) := by
  have hg := inv.glob
  have hwk := inv.work
  have hpr := inv.prog
  have hpa : pausedAfter s = s.paused := by simp [pausedAfter, hc]
  have hsa : stoppedAfter s = s.stopped := by simp [stoppedAfter, hc]
  rw [hpa, hsa, ho] at hpr
  rw [hc] at hg hwk
  have hnc : callerHolds s.cpc = false := by simp [hc, callerHolds]
  have hgh : ∀ c', (∀ j w f, doneB c' j w f = false) → ∀ j, s.execs j = s.want j +
      (if (decide (j < s.N) && doneB c' j (s.w j) (s.flags j)) = true then 1 else 0) := by
    intro c' h'
    exact inv.ghost_to c' s.flags (fun j _ => by rw [h', hc]; simp [doneB])
  obtain ⟨hppj, hx, hstp, hprp⟩ := gOK_ready hg
  cases op with
  | runBlocks b =>
    simp only [okProg, Bool.and_eq_true, Bool.not_eq_true'] at hpr
    obtain ⟨hst, hr⟩ := hpr
    cases hp : s.paused
    · simp only [startOp, hp, Bool.false_eq_true, if_false]
      refine inv_caller s _ inv rfl rfl rfl inv.mutexW (inv.mutexC_other _ hnc (by simp [callerHolds])) inv.mutexR
        (fun _ _ h => h) ?_ ?_ ?_ (hgh _ (by simp [doneB]))
      · simpa [pausedAfter, stoppedAfter, hx, Ctx.isStop] using hr
      · simp [gOK, hp, hst, hx, hprp, Ctx.isTop]
      · intro j hj; have := hwk j hj; simp only [hp, hst] at this; simpa [wOK] using this
    · simp only [startOp, hp, if_true]
      have hpj : s.pauseJobs = true := hppj hp
      refine inv_caller s _ inv rfl rfl rfl inv.mutexW (inv.mutexC_other _ hnc (by simp [callerHolds])) inv.mutexR
        (fun _ _ h => h) ?_ ?_ ?_ (hgh _ (by simp [doneB]))
      · simpa [pausedAfter, stoppedAfter, Ctx.isStop] using hr
      · simp [gOK, hp, hst, hpj, hprp, Ctx.stopping, Ctx.isResize]
      · intro j hj; have := hwk j hj; simp only [hp, hst] at this; simpa [wOK] using this
  | pause =>
    simp only [okProg, Bool.and_eq_true, Bool.not_eq_true'] at hpr
    obtain ⟨hst, hr⟩ := hpr
    cases hp : s.paused
    · simp only [startOp, hp, Bool.false_eq_true, if_false]
      refine inv_caller s _ inv rfl rfl rfl inv.mutexW (inv.mutexC_other _ hnc (by simp [callerHolds])) inv.mutexR
        (fun _ _ h => h) ?_ ?_ ?_ (hgh _ (by simp [doneB]))
      · simpa [pausedAfter, stoppedAfter, hx, Ctx.isStop] using hr
      · simp [gOK, hp, hst, hx, hprp, Ctx.isTop]
      · intro j hj; have := hwk j hj; simp only [hp, hst] at this; simpa [wOK] using this
    · simp only [startOp, hp, if_true]
      refine inv_caller s _ inv rfl rfl rfl inv.mutexW (inv.mutexC_other _ hnc (by simp [callerHolds])) inv.mutexR
        (fun _ _ h => h) ?_ ?_ ?_ (hgh _ (by simp [doneB]))
      · simpa [pausedAfter, stoppedAfter, hp, hst] using hr
      · simpa [hc, hp] using inv.glob
      · intro j hj; simpa [hc, hp] using inv.work j hj
  | resume =>
    simp only [okProg, Bool.and_eq_true, Bool.not_eq_true'] at hpr
    obtain ⟨hst, hr⟩ := hpr
    cases hp : s.paused
    · simp only [startOp, hp, Bool.false_eq_true, if_false]
      refine inv_caller s _ inv rfl rfl rfl inv.mutexW (inv.mutexC_other _ hnc (by simp [callerHolds])) inv.mutexR
        (fun _ _ h => h) ?_ ?_ ?_ (hgh _ (by simp [doneB]))
      · simpa [pausedAfter, stoppedAfter, hp, hst] using hr
      · simpa [hc, hp] using inv.glob
      · intro j hj; simpa [hc, hp] using inv.work j hj
    · simp only [startOp, hp, if_true]
      have hpj : s.pauseJobs = true := hppj hp
      refine inv_caller s _ inv rfl rfl rfl inv.mutexW (inv.mutexC_other _ hnc (by simp [callerHolds])) inv.mutexR
        (fun _ _ h => h) ?_ ?_ ?_ (hgh _ (by simp [doneB]))
      · simpa [pausedAfter, stoppedAfter, hx, Ctx.isStop] using hr
      · simp [gOK, hp, hst, hpj, hx, hprp, Ctx.stopping, Ctx.isResize]
      · intro j hj; have := hwk j hj; simp only [hp, hst] at this; simpa [wOK] using this
  | stop =>
    simp only [okProg] at hpr
    cases hst : s.stopped
    · simp only [startOp, hst, Bool.false_eq_true, if_false]
      refine inv_caller s _ inv rfl rfl rfl inv.mutexW (inv.mutexC_other _ hnc (by simp [callerHolds])) inv.mutexR
        (fun _ _ h => h) ?_ ?_ ?_ (hgh _ (by simp [doneB]))
      · simpa [pausedAfter, stoppedAfter, Ctx.isStop] using hpr
      · cases hp : s.paused
        · simp [gOK, hst, hp, hprp, Ctx.stopping, Ctx.isResize]
        · simp [gOK, hst, hp, hprp, hppj hp, Ctx.stopping, Ctx.isResize]
      · intro j hj; have := hwk j hj; simp only [hst] at this; simpa [wOK] using this
    · simp only [startOp, hst, if_true]
      have hp : s.paused = false := hstp hst
      refine inv_caller s _ inv rfl rfl rfl inv.mutexW (inv.mutexC_other _ hnc (by simp [hc, callerHolds])) inv.mutexR
        (fun _ _ h => h) ?_ ?_ ?_ ?_
      · simpa [pausedAfter, stoppedAfter, hc, hp, hst] using hpr
      · simpa [hst] using inv.glob
      · intro j hj; simpa [hst] using inv.work j hj
      · exact inv.ghost
  | resize m =>
    simp only [okProg, Bool.and_eq_true, Bool.not_eq_true'] at hpr
    obtain ⟨⟨hp, hst⟩, hr⟩ := hpr
    by_cases hm : m = s.N
    · simp only [startOp, hm, if_true]
      refine inv_caller s _ inv rfl rfl rfl inv.mutexW (inv.mutexC_other _ hnc (by simp [hc, callerHolds])) inv.mutexR
        (fun _ _ h => h) ?_ ?_ ?_ ?_
      · simpa [pausedAfter, stoppedAfter, hc, hp, hst] using hr
      · have := inv.glob; exact this
      · intro j hj; exact inv.work j hj
      · exact inv.ghost
    · simp only [startOp, hm, if_false]
      refine inv_caller s _ inv rfl rfl rfl inv.mutexW (inv.mutexC_other _ hnc (by simp [callerHolds])) inv.mutexR
        (fun _ _ h => h) ?_ ?_ ?_ (hgh _ (by simp [doneB]))
      · simpa [pausedAfter, stoppedAfter, Ctx.isStop] using hr
      · simp [gOK, hst, hp, hprp, Ctx.stopping, Ctx.isResize]
      · intro j hj; have := hwk j hj; simp only [hp, hst] at this; simpa [wOK, hp] using this

/-- mutex facts after the caller has taken the free mutex -/
theorem mutex_acqC {s : S} (inv : Inv s) (hm : s.mutex = none) :
    (∀ j, j < s.N → ((some s.N : Option Nat) = some j ↔ holds (s.w j) = true)) ∧
    (∀ j, (some s.N : Option Nat) = some j → j ≤ s.N) := by
  refine ⟨?_, ?_⟩
  · intro j hj; have := inv.no_holder hm j hj
    simp only [this]; constructor
    · intro e; simp at e; omega
    · intro e; cases e
  · intro j e; simp at e; omega

/-- mutex facts after the caller has released the mutex -/
theorem mutex_relC {s : S} (inv : Inv s) (hmN : s.mutex = some s.N) :
    (∀ j, j < s.N → ((none : Option Nat) = some j ↔ holds (s.w j) = true)) ∧
    (∀ j, (none : Option Nat) = some j → j ≤ s.N) := by
  refine ⟨?_, ?_⟩
  · intro j hj; have := inv.other_not_holder hmN j hj (by omega)
    simp [this]
  · intro j e; cases e

theorem inv_stepC (s s' : S) (inv : Inv s) (h : stepC s = some s') : Inv s' := by
  have hg := inv.glob
  have hwk := inv.work
  have hpr := inv.prog
  unfold stepC at h
  cases hc : s.cpc <;> rw [hc] at h hg hwk <;> simp only [] at h
  · -- ready: take the next API call
    cases ho : s.ops with
    | nil => rw [ho] at h; cases h
    | cons op r =>
      rw [ho] at h; cases h
      exact inv_startOp s inv hc op r ho
  · -- rbSet b
    rename_i b
    cases h
    refine inv_caller s _ inv rfl rfl rfl inv.mutexW (inv.mutexC_other _ (by simp [hc, callerHolds]) (by simp [callerHolds])) inv.mutexR
      (fun _ _ h => h) ?_ ?_ ?_ ?_
    · simpa [pausedAfter, stoppedAfter, hc] using hpr
    · simp only [gOK, Bool.and_eq_true, Bool.not_eq_true'] at hg
      simp [gOK, hg.1.1.1, hg.1.1.2, hg.1.2, hg.2]
    · intro j hj; have := hwk j hj
      simp only [wOK, Bool.and_eq_true, beq_iff_eq, Bool.not_eq_true'] at this
      simp only []; rw [this.1, this.2]; exact wOK_idle_rbPub0 _ _ _ _ _
    · refine inv.ghost_to _ _ ?_
      intro j hj; have := hwk j hj
      simp only [wOK, Bool.and_eq_true, beq_iff_eq, Bool.not_eq_true'] at this
      rw [hc, this.1, this.2]; simp [doneB]
  · -- rbPub k b
    rename_i k b
    split at h
    · rename_i hk
      cases h
      by_cases hkb : k < b
      · simp only [hkb, if_true]
        refine inv_caller s _ inv rfl rfl rfl inv.mutexW (inv.mutexC_other _ (by simp [hc, callerHolds]) (by simp [callerHolds])) inv.mutexR
          ?_ ?_ ?_ ?_ ?_
        · intro j _ hf; simp only [upd]; split <;> simp [hf]
        · simpa [pausedAfter, stoppedAfter, hc] using hpr
        · simp only [gOK, Bool.and_eq_true, decide_eq_true_eq] at hg ⊢; exact ⟨⟨hg.1.1, by omega⟩, hg.2⟩
        · intro j hj
          have := wOK_rbPub_set k b s.paused s.stopped j (s.w j) (s.flags j) (s.notified j) hkb (hwk j hj)
          simp only [upd] at this ⊢; split <;> simp_all
        · refine inv.ghost_to _ _ ?_
          intro j hj
          have := doneB_rbPub_set k b s.paused s.stopped j (s.w j) (s.flags j) (s.notified j) (hwk j hj)
          rw [hc, ← this]; simp only [upd]
      · simp only [hkb, if_false]
        refine inv_caller s _ inv rfl rfl rfl inv.mutexW (inv.mutexC_other _ (by simp [hc, callerHolds]) (by simp [callerHolds])) inv.mutexR
          (fun _ _ h => h) ?_ ?_ ?_ ?_
        · simpa [pausedAfter, stoppedAfter, hc] using hpr
        · simp only [gOK, Bool.and_eq_true, decide_eq_true_eq] at hg ⊢; exact ⟨⟨hg.1.1, by omega⟩, hg.2⟩
        · intro j hj; exact wOK_rbPub_skip _ _ _ _ _ _ _ _ (hwk j hj)
        · refine inv.ghost_to _ _ ?_
          intro j hj; rw [hc]; exact doneB_rbPub_skip _ _ _ _ _ hkb
    · rename_i hk
      cases h
      have hkN : k = s.N := by
        simp only [gOK, Bool.and_eq_true, decide_eq_true_eq] at hg; omega
      refine inv_caller s _ inv rfl rfl rfl inv.mutexW (inv.mutexC_other _ (by simp [hc, callerHolds]) (by simp [callerHolds])) inv.mutexR
        (fun _ _ h => h) ?_ ?_ ?_ ?_
      · simpa [pausedAfter, stoppedAfter, hc] using hpr
      · simp only [gOK, Bool.and_eq_true] at hg ⊢; exact ⟨hg.1.1, hg.2⟩
      · intro j hj; exact wOK_rbPub_wait _ _ _ _ _ _ _ _ (hwk j hj)
      · refine inv.ghost_to _ _ ?_
        intro j hj; rw [hc]; exact doneB_rbPub_wait _ _ _ _ _ (by omega)
  · -- rbWait b: `run_blocks` returns
    rename_i b
    split at h
    · rename_i hcl
      cases h
      simp only [gOK, Bool.and_eq_true, Bool.not_eq_true'] at hg
      obtain ⟨⟨⟨⟨hp, hpj⟩, hst⟩, hx⟩, hprq⟩ := hg
      have hidle : ∀ j, j < s.N → s.w j = .idle ∧ s.flags j = false := by
        intro j hj
        have h1 := inv.idle_of_clear hcl j hj
        refine ⟨?_, h1.2⟩
        rcases h1.1 with h2 | h2
        · exact h2
        · have := hwk j hj; rw [h2] at this; simp [wOK, inBlock] at this
      refine inv_caller s _ inv rfl rfl rfl inv.mutexW (inv.mutexC_other _ (by simp [hc, callerHolds]) (by simp [callerHolds])) inv.mutexR
        (fun _ _ h => h) ?_ ?_ ?_ ?_
      · have hx' : s.ctx.isStop = false := by cases hxx : s.ctx <;> simp_all [Ctx.isTop, Ctx.isStop]
        simpa [pausedAfter, stoppedAfter, hc, hp, hst, hx'] using hpr
      · simp [gOK, hp, hst, hx, hprq]
      · intro j hj; have := hidle j hj
        simp [wOK, hp, hst, this.1, this.2]
      · intro j
        have hgj := inv.ghost j
        rw [hc] at hgj
        by_cases hj : j < s.N
        · have := hidle j hj
          rw [this.1, this.2] at hgj
          by_cases hjb : j < b <;> simp [doneB, hj, hjb] at hgj ⊢ <;> omega
        · simp [hj] at hgj ⊢; omega
    · cases h
  · -- paWait: `wait()` at the start of `pause()`
    split at h
    · rename_i hcl
      cases h
      refine inv_caller s _ inv rfl rfl rfl inv.mutexW (inv.mutexC_other _ (by simp [hc, callerHolds]) (by simp [callerHolds])) inv.mutexR
        (fun _ _ h => h) ?_ ?_ ?_ ?_
      · simpa [pausedAfter, stoppedAfter, hc] using hpr
      · simpa [gOK] using hg
      · intro j hj; simpa [wOK] using hwk j hj
      · exact inv.ghost_to _ _ (fun j _ => by rw [hc]; simp [doneB])
    · cases h
  · -- paLock: `lock_guard lk(m_cv_m)` in `pause()`
    split at h
    · rename_i hm
      have hm' : s.mutex = none := by simpa using hm
      cases h
      have hmx := mutex_acqC inv hm'
      refine inv_caller s _ inv rfl rfl rfl hmx.1 (by simp [callerHolds]) hmx.2 (fun _ _ h => h) ?_ ?_ ?_ ?_
      · simpa [pausedAfter, stoppedAfter, hc] using hpr
      · simpa [gOK] using hg
      · intro j hj; simpa [wOK] using hwk j hj
      · exact inv.ghost_to _ _ (fun j _ => by rw [hc]; simp [doneB])
    · cases h
  · -- paReq: `m_pause_requested = true`
    cases h
    have hmN : s.mutex = some s.N := inv.mutexC.mpr (by simp [hc, callerHolds])
    refine inv_caller s _ inv rfl rfl rfl inv.mutexW (by simp [hmN, callerHolds]) inv.mutexR (fun _ _ h => h) ?_ ?_ ?_ ?_
    · simpa [pausedAfter, stoppedAfter, hc] using hpr
    · simp only [gOK, Bool.and_eq_true, Bool.not_eq_true'] at hg
      simp [gOK, hg.1.1.1, hg.1.1.2, hg.1.2]
    · intro j hj; simpa [wOK] using hwk j hj
    · exact inv.ghost_to _ _ (fun j _ => by rw [hc]; simp [doneB])
  · -- paUnlock
    cases h
    have hmN : s.mutex = some s.N := inv.mutexC.mpr (by simp [hc, callerHolds])
    have hmx := mutex_relC inv hmN
    refine inv_caller s _ inv rfl rfl rfl hmx.1 (by simp [callerHolds]) hmx.2 (fun _ _ h => h) ?_ ?_ ?_ ?_
    · simpa [pausedAfter, stoppedAfter, hc] using hpr
    · simpa [gOK] using hg
    · intro j hj; simpa [wOK] using hwk j hj
    · exact inv.ghost_to _ _ (fun j _ => by rw [hc]; simp [doneB])
  · -- paSet
    cases h
    refine inv_caller s _ inv rfl rfl rfl inv.mutexW (inv.mutexC_other _ (by simp [hc, callerHolds]) (by simp [callerHolds])) inv.mutexR
      (fun _ _ h => h) ?_ ?_ ?_ ?_
    · simpa [pausedAfter, stoppedAfter, hc] using hpr
    · simp only [gOK, Bool.and_eq_true, Bool.not_eq_true'] at hg
      simp [gOK, hg.1.1.1, hg.1.1.2, hg.1.2, hg.2]
    · intro j hj; have := hwk j hj
      simp only [wOK, Bool.and_eq_true, beq_iff_eq, Bool.not_eq_true'] at this
      simp only []; rw [this.1, this.2]; exact wOK_idle_paPub0 _ _ _ _
    · exact inv.ghost_to _ _ (fun j _ => by rw [hc]; simp [doneB])
  · -- paPub k
    rename_i k
    split at h
    · rename_i hk
      cases h
      refine inv_caller s _ inv rfl rfl rfl inv.mutexW (inv.mutexC_other _ (by simp [hc, callerHolds]) (by simp [callerHolds])) inv.mutexR
        ?_ ?_ ?_ ?_ ?_
      · intro j _ hf; simp only [upd]; split <;> simp [hf]
      · simpa [pausedAfter, stoppedAfter, hc] using hpr
      · simp only [gOK, Bool.and_eq_true, decide_eq_true_eq] at hg ⊢; exact ⟨⟨hg.1.1, by omega⟩, hg.2⟩
      · intro j hj
        have := wOK_paPub_succ k s.paused s.stopped j (s.w j) (s.flags j) (s.notified j) (hwk j hj)
        simp only [upd] at this ⊢; split <;> simp_all
      · exact inv.ghost_to _ _ (fun j _ => by rw [hc]; simp [doneB])
    · rename_i hk
      cases h
      have hkN : k = s.N := by
        simp only [gOK, Bool.and_eq_true, decide_eq_true_eq] at hg; omega
      refine inv_caller s _ inv rfl rfl rfl inv.mutexW (inv.mutexC_other _ (by simp [hc, callerHolds]) (by simp [callerHolds])) inv.mutexR
        (fun _ _ h => h) ?_ ?_ ?_ ?_
      · simpa [pausedAfter, stoppedAfter, hc] using hpr
      · simp only [gOK, Bool.and_eq_true] at hg ⊢; exact ⟨hg.1.1, hg.2⟩
      · intro j hj; exact wOK_paPub_done k _ _ _ _ _ _ (by omega) (hwk j hj)
      · exact inv.ghost_to _ _ (fun j _ => by rw [hc]; simp [doneB])
  · -- paSetPaused
    cases h
    refine inv_caller s _ inv rfl rfl rfl inv.mutexW (inv.mutexC_other _ (by simp [hc, callerHolds]) (by simp [callerHolds])) inv.mutexR
      (fun _ _ h => h) ?_ ?_ ?_ ?_
    · simpa [pausedAfter, stoppedAfter, hc] using hpr
    · simp only [gOK, Bool.and_eq_true, Bool.not_eq_true'] at hg ⊢; simp [hg.1.1.1.2, hg.1.1.2, hg.1.2, hg.2]
    · intro j hj; have := hwk j hj; simpa [wOK] using this
    · exact inv.ghost_to _ _ (fun j _ => by rw [hc]; simp [doneB])
  · -- paSpin: `pause()` returns
    split at h
    · rename_i hcn
      cases h
      simp only [gOK, Bool.and_eq_true, Bool.not_eq_true'] at hg
      obtain ⟨⟨⟨⟨hp, hpj⟩, hst⟩, hx⟩, hprq⟩ := hg
      have hall := all_counted_of_count_eq (n := s.N) (p := fun i => counted (s.w i)) (by rw [← inv.cnt]; exact hcn)
      have hx' : s.ctx.isStop = false := by cases hxx : s.ctx <;> simp_all [Ctx.isTop, Ctx.isStop]
      refine inv_caller s _ inv rfl rfl rfl inv.mutexW (inv.mutexC_other _ (by simp [hc, callerHolds]) (by simp [callerHolds])) inv.mutexR
        (fun _ _ h => h) ?_ ?_ ?_ ?_
      · simpa [pausedAfter, stoppedAfter, hc, hp, hst, hx'] using hpr
      · simp [gOK, hp, hpj, hst, hx, hprq]
      · intro j hj; have := hwk j hj; rw [hp, hst] at this ⊢
        exact wOK_paSpin_ready _ _ _ _ (hall j hj) this
      · exact inv.ghost_to _ _ (fun j _ => by rw [hc]; simp [doneB])
    · cases h
  · -- reLock
    split at h
    · rename_i hm
      have hm' : s.mutex = none := by simpa using hm
      cases h
      have hmx := mutex_acqC inv hm'
      refine inv_caller s _ inv rfl rfl rfl hmx.1 (by simp [callerHolds]) hmx.2 (fun _ _ h => h) ?_ ?_ ?_ ?_
      · simpa [pausedAfter, stoppedAfter, hc] using hpr
      · simpa [gOK] using hg
      · intro j hj; exact wOK_reLock_reReq _ _ _ _ _ _ (inv.no_holder hm' j hj) (hwk j hj)
      · exact inv.ghost_to _ _ (fun j _ => by rw [hc]; simp [doneB])
    · cases h
  · -- reReq: `m_pause_requested = false`
    cases h
    have hmN : s.mutex = some s.N := inv.mutexC.mpr (by simp [hc, callerHolds])
    refine inv_caller s _ inv rfl rfl rfl inv.mutexW (by simp [hmN, callerHolds]) inv.mutexR (fun _ _ h => h) ?_ ?_ ?_ ?_
    · simpa [pausedAfter, stoppedAfter, hc] using hpr
    · simp only [gOK, Bool.and_eq_true] at hg ⊢; simp [hg.1.1.1.1, hg.1.1.1.2, hg.1.1.2, hg.1.2]
    · intro j hj; exact wOK_reReq_reNotify _ _ _ _ _ _ (hwk j hj)
    · exact inv.ghost_to _ _ (fun j _ => by rw [hc]; simp [doneB])
  · -- reNotify
    cases h
    have hmN : s.mutex = some s.N := inv.mutexC.mpr (by simp [hc, callerHolds])
    refine inv_caller s _ inv rfl rfl rfl inv.mutexW (by simp [hmN, callerHolds]) inv.mutexR (fun _ _ h => h) ?_ ?_ ?_ ?_
    · simpa [pausedAfter, stoppedAfter, hc] using hpr
    · simpa [gOK] using hg
    · intro j hj; exact wOK_reNotify_reUnlock _ _ _ _ _ _ (hwk j hj)
    · exact inv.ghost_to _ _ (fun j _ => by rw [hc]; simp [doneB])
  · -- reUnlock
    cases h
    have hmN : s.mutex = some s.N := inv.mutexC.mpr (by simp [hc, callerHolds])
    have hmx := mutex_relC inv hmN
    refine inv_caller s _ inv rfl rfl rfl hmx.1 (by simp [callerHolds]) hmx.2 (fun _ _ h => h) ?_ ?_ ?_ ?_
    · simpa [pausedAfter, stoppedAfter, hc] using hpr
    · simp only [gOK, Bool.and_eq_true] at hg ⊢; exact ⟨⟨⟨hg.1.1.1.2, hg.1.1.2⟩, hg.1.2⟩, hg.2⟩
    · intro j hj; exact wOK_reUnlock_reClear _ _ _ _ _ _ (hwk j hj)
    · exact inv.ghost_to _ _ (fun j _ => by rw [hc]; simp [doneB])
  · -- reClear
    cases h
    refine inv_caller s _ inv rfl rfl rfl inv.mutexW (inv.mutexC_other _ (by simp [hc, callerHolds]) (by simp [callerHolds])) inv.mutexR
      (fun _ _ h => h) ?_ ?_ ?_ ?_
    · simpa [pausedAfter, stoppedAfter, hc] using hpr
    · simpa [gOK] using hg
    · intro j hj; have := hwk j hj; simpa [wOK] using this
    · exact inv.ghost_to _ _ (fun j _ => by rw [hc]; simp [doneB])
  · -- reWait: `resume` returns to whoever called it
    split at h
    · rename_i hcl
      cases h
      simp only [gOK, Bool.and_eq_true, Bool.not_eq_true', beq_iff_eq] at hg
      obtain ⟨⟨⟨⟨hp, hpj⟩, hst⟩, hx⟩, hprq⟩ := hg
      have hio := inv.idle_of_clear hcl
      cases hxx : s.ctx with
      | top =>
        have hst' : s.stopped = false := by simpa [hxx, Ctx.stopping] using hst
        refine inv_caller s _ inv rfl rfl rfl inv.mutexW (inv.mutexC_other _ (by simp [hc, callerHolds]) (by simp [callerHolds])) inv.mutexR
          (fun _ _ h => h) ?_ ?_ ?_ ?_
        · simpa [pausedAfter, stoppedAfter, hc, hp, hst', hxx, Ctx.isStop] using hpr
        · simp [gOK, hp, hst', hprq, Ctx.isTop]
        · intro j hj
          have hi := wOK_reWait_idle _ _ _ _ _ _ (hwk j hj) hst' (hio j hj).1
          simp [wOK, hp, hst', hi, (hio j hj).2]
        · exact inv.ghost_to _ _ (fun j _ => by rw [hc]; simp [doneB])
      | inRun b =>
        have hst' : s.stopped = false := by simpa [hxx, Ctx.stopping] using hst
        refine inv_caller s _ inv rfl rfl rfl inv.mutexW (inv.mutexC_other _ (by simp [hc, callerHolds]) (by simp [callerHolds])) inv.mutexR
          (fun _ _ h => h) ?_ ?_ ?_ ?_
        · simpa [pausedAfter, stoppedAfter, hc, hxx, Ctx.isStop] using hpr
        · simp [gOK, hp, hst', hprq, Ctx.isTop]
        · intro j hj
          have hi := wOK_reWait_idle _ _ _ _ _ _ (hwk j hj) hst' (hio j hj).1
          simp [wOK, hi, (hio j hj).2]
        · exact inv.ghost_to _ _ (fun j _ => by rw [hc]; simp [doneB])
      | inStop =>
        have hst' : s.stopped = true := by simpa [hxx, Ctx.stopping] using hst
        refine inv_caller s _ inv rfl rfl rfl inv.mutexW (inv.mutexC_other _ (by simp [hc, callerHolds]) (by simp [callerHolds])) inv.mutexR
          (fun _ _ h => h) ?_ ?_ ?_ ?_
        · simpa [pausedAfter, stoppedAfter, hc, hxx, Ctx.isStop] using hpr
        · simp [gOK, hp, hst', hprq, hxx, Ctx.stopping]
        · intro j hj
          rcases (hio j hj).1 with hi | hi <;> simp [wOK, hi, (hio j hj).2]
        · exact inv.ghost_to _ _ (fun j _ => by rw [hc]; simp [doneB])
      | inResize m => simp [hxx, Ctx.isResize] at hx
    · cases h
  · -- stSet: `m_stopped = true`
    cases h
    simp only [gOK, Bool.and_eq_true, Bool.or_eq_true, Bool.not_eq_true', beq_iff_eq] at hg
    obtain ⟨⟨⟨⟨hst, hx⟩, hppj⟩, hrz⟩, hprq⟩ := hg
    cases hp : s.paused
    · simp only [Bool.false_eq_true, if_false]
      refine inv_caller s _ inv rfl rfl rfl inv.mutexW (inv.mutexC_other _ (by simp [hc, callerHolds]) (by simp [callerHolds])) inv.mutexR
        (fun _ _ h => h) ?_ ?_ ?_ ?_
      · simpa [pausedAfter, stoppedAfter, hc] using hpr
      · simp [gOK, hx, hprq, hp]
      · intro j hj; have := hwk j hj
        simp only [hp, wOK, Bool.false_eq_true, if_false, Bool.and_eq_true, beq_iff_eq, Bool.not_eq_true'] at this
        simp [wOK, this.1, this.2]
      · exact inv.ghost_to _ _ (fun j _ => by rw [hc]; simp [doneB])
    · simp only [if_true]
      have hpj : s.pauseJobs = true := by rcases hppj with h | h <;> simp_all
      have hnr : s.ctx.isResize = false := by rcases hrz with h | h <;> simp_all
      refine inv_caller s _ inv rfl rfl rfl inv.mutexW (inv.mutexC_other _ (by simp [hc, callerHolds]) (by simp [callerHolds])) inv.mutexR
        (fun _ _ h => h) ?_ ?_ ?_ ?_
      · simpa [pausedAfter, stoppedAfter, hc] using hpr
      · simp [gOK, hx, hpj, hnr, hprq, hp]
      · intro j hj; have := hwk j hj; simp only [hp] at this; simpa [wOK] using this
      · exact inv.ghost_to _ _ (fun j _ => by rw [hc]; simp [doneB])
  · -- join: all workers have left their main loop
    split at h
    · rename_i hex
      cases h
      simp only [gOK, Bool.and_eq_true, Bool.not_eq_true'] at hg
      obtain ⟨⟨⟨hp, hst⟩, hx⟩, hprq⟩ := hg
      have hexi := exited_all s hex
      have hfl : ∀ j, j < s.N → s.flags j = false := by
        intro j hj; have := hwk j hj; simp only [wOK, Bool.and_eq_true, Bool.not_eq_true'] at this; exact this.2
      cases hxx : s.ctx with
      | top => simp [hxx, Ctx.stopping] at hx
      | inRun b => simp [hxx, Ctx.stopping] at hx
      | inStop =>
        refine inv_caller s _ inv rfl rfl rfl inv.mutexW (inv.mutexC_other _ (by simp [hc, callerHolds]) (by simp [callerHolds])) inv.mutexR
          (fun _ _ h => h) ?_ ?_ ?_ ?_
        · simpa [pausedAfter, stoppedAfter, hc, hxx, hp, hst, Ctx.isStop] using hpr
        · simp [gOK, hp, hprq, Ctx.isTop]
        · intro j hj; simp [wOK, hst, hexi j hj, hfl j hj]
        · exact inv.ghost_to _ _ (fun j _ => by rw [hc]; simp [doneB])
      | inResize m =>
        -- fresh pool of size m
        have hmu : s.mutex = none := by
          cases hmx : s.mutex with
          | none => rfl
          | some j =>
            have hle := inv.mutexR j hmx
            by_cases hjN : j = s.N
            · subst hjN; have := inv.mutexC.mp hmx; simp [hc, callerHolds] at this
            · have hlt : j < s.N := by omega
              have := (inv.mutexW j hlt).mp hmx
              rw [hexi j hlt] at this; simp [holds] at this
        have hc0 : s.count = 0 := by
          rw [inv.cnt]
          apply List.countP_eq_zero.mpr
          intro j hj
          rw [hexi j (List.mem_range.mp hj)]; simp [counted]
        refine ⟨?_, ?_, ?_, ?_, ?_, ?_, ?_, ?_, ?_⟩
        · intro i _; simp [hmu, holds]
        · simp [hmu, callerHolds]
        · intro j e; simp [hmu] at e
        · simp [hc0, counted]
        · intro i _ hne; simp at hne
        · simpa [pausedAfter, stoppedAfter, hc, hxx, hp, Ctx.isStop] using hpr
        · simp [gOK, hp, hprq, Ctx.isTop]
        · intro i _; simp [wOK, hp]
        · intro j
          have := inv.ghost j; rw [hc] at this
          simpa [doneB] using this
    · cases h

/-! ### the invariant holds in every reachable state -/

/-- initial state: pool of `n` workers, program `ops`, and an ARBITRARY budget `sp i` of spurious
wake-ups for every worker slot `i` -/
def init (n : Nat) (ops : List Op) (sp : Nat → Nat) : S :=
  { N := n, flags := fun _ => false, w := fun _ => .idle, notified := fun _ => false, count := 0,
    mutex := none, pauseJobs := false, paused := false, stopped := false, pauseReq := false,
    cpc := .ready, ctx := .top, ops, execs := fun _ => 0, want := fun _ => 0, spur := sp }

theorem inv_init (n : Nat) (ops : List Op) (sp : Nat → Nat) (hops : okProg false false ops = true) : Inv (init n ops sp) := by
  refine ⟨?_, ?_, ?_, ?_, ?_, ?_, ?_, ?_, ?_⟩
  · intro i _; simp [init, holds]
  · simp [init, callerHolds]
  · intro j e; simp [init] at e
  · simp [init, counted]
  · intro i _ h; simp [init] at h
  · simpa [init, pausedAfter, stoppedAfter] using hops
  · simp [init, gOK, Ctx.isTop]
  · intro i _; simp [init, wOK]
  · intro i; simp [init, doneB]

theorem inv_step (s s' : S) (inv : Inv s) (t : Tid) (h : step s t = some s') : Inv s' := by
  cases t with
  | caller => exact inv_stepC s s' inv h
  | work i =>
    simp only [step] at h
    split at h
    · rename_i hi; exact inv_stepW s s' inv i hi h
    · cases h
  | exit i =>
    simp only [step] at h
    split at h
    · rename_i hi; exact inv_stepX s s' inv i hi h
    · cases h
  | spur i =>
    simp only [step] at h
    split at h
    · rename_i hi; exact inv_stepS s s' inv i hi h
    · cases h

inductive Reachable (s0 : S) : S → Prop
  | refl : Reachable s0 s0
  | step (s s' t) : Reachable s0 s → step s t = some s' → Reachable s0 s'

theorem reachable_inv (n : Nat) (ops : List Op) (sp : Nat → Nat) (hops : okProg false false ops = true) (s : S)
    (h : Reachable (init n ops sp) s) : Inv s := by
  induction h with
  | refl => exact inv_init n ops sp hops
  | step s s' t _ hs ih => exact inv_step s s' ih t hs

/-! ### EXACTLY ONCE -/

/-- **exactly once**: whenever the caller is between two API calls, every worker `i` has executed
its block callback exactly `want i` times, where `want i` is the number of `run_blocks` calls that have
returned and that had a block for worker `i` (`i < min b N`, see `stepC` at `.rbWait`).
The statement covers all worker slots `i` (also `i ≥ N`, and across `resize`). -/
theorem exactly_once (n : Nat) (ops : List Op) (sp : Nat → Nat) (hops : okProg false false ops = true) (s : S)
    (h : Reachable (init n ops sp) s) (hc : s.cpc = .ready) : ∀ i, s.execs i = s.want i := by
  intro i
  have := (reachable_inv n ops sp hops s h).ghost i
  rw [hc] at this; simpa [doneB] using this

/-- at every moment (also inside a call) a worker is at most one execution ahead of the returned
calls, never behind; it is ahead exactly when it has executed its block of the call in flight -/
theorem at_most_once_in_flight (n : Nat) (ops : List Op) (sp : Nat → Nat) (hops : okProg false false ops = true) (s : S)
    (h : Reachable (init n ops sp) s) (i : Nat) :
    s.want i ≤ s.execs i ∧ s.execs i ≤ s.want i + 1 ∧
    (s.execs i = s.want i + 1 ↔ (i < s.N ∧ doneB s.cpc i (s.w i) (s.flags i) = true)) := by
  have := (reachable_inv n ops sp hops s h).ghost i
  by_cases hd : (decide (i < s.N) && doneB s.cpc i (s.w i) (s.flags i)) = true
  · rw [if_pos hd] at this
    simp only [Bool.and_eq_true, decide_eq_true_eq] at hd
    exact ⟨by omega, by omega, fun _ => hd, fun _ => this⟩
  · rw [if_neg hd] at this
    simp only [Bool.and_eq_true, decide_eq_true_eq] at hd
    exact ⟨by omega, by omega, fun h => by omega, fun h => absurd h hd⟩

/-- outside `run_blocks` (pause / resume / stop / resize protocols) no callback is executed and
none is pending -/
theorem no_exec_outside_run (n : Nat) (ops : List Op) (sp : Nat → Nat) (hops : okProg false false ops = true) (s : S)
    (h : Reachable (init n ops sp) s) (hc : ∀ k b, s.cpc ≠ .rbPub k b) (hc' : ∀ b, s.cpc ≠ .rbWait b) :
    ∀ i, s.execs i = s.want i := by
  intro i
  have := (reachable_inv n ops sp hops s h).ghost i
  cases hcc : s.cpc <;> rw [hcc] at this <;> first
    | (simpa [doneB] using this)
    | exact absurd hcc (hc _ _)
    | exact absurd hcc (hc' _)

/-! meaning of the ghost counters: `execs i` changes only when worker `i` finishes its callback,
`want` changes only when `run_blocks` returns -/
theorem execs_step (s s' : S) (t : Tid) (h : step s t = some s') :
    s'.execs = s.execs ∨ ∃ i, t = .work i ∧ s.w i = .runBlock ∧ s'.execs = upd s.execs i (s.execs i + 1) := by
  cases t with
  | caller =>
    left
    simp only [step, stepC] at h
    cases hc : s.cpc <;> rw [hc] at h <;> simp only [] at h
    case ready =>
      cases ho : s.ops with
      | nil => rw [ho] at h; cases h
      | cons op r =>
        rw [ho] at h; cases h
        cases op <;> simp only [startOp] <;> (try split) <;> rfl
    case reWait => split at h <;> cases h; cases s.ctx <;> rfl
    case join => split at h <;> cases h; cases s.ctx <;> rfl
    all_goals first | (cases h; rfl) | (split at h <;> cases h <;> rfl)
  | work i =>
    simp only [step] at h
    split at h
    · unfold stepW at h
      cases hw : s.w i <;> rw [hw] at h <;> simp only [] at h
      case runBlock => cases h; exact Or.inr ⟨i, rfl, hw, rfl⟩
      all_goals first | (cases h; exact Or.inl rfl) | (split at h <;> cases h <;> exact Or.inl rfl) | cases h
    · cases h
  | exit i =>
    left
    simp only [step, stepX] at h
    split at h
    · split at h <;> cases h; rfl
    · cases h
  | spur i =>
    left
    simp only [step, stepS] at h
    split at h
    · split at h <;> cases h; rfl
    · cases h

theorem want_step (s s' : S) (t : Tid) (h : step s t = some s') :
    s'.want = s.want ∨ ∃ b, t = .caller ∧ s.cpc = .rbWait b ∧ s'.cpc = .ready ∧
      s'.want = fun i => s.want i + (if i < b ∧ i < s.N then 1 else 0) := by
  cases t with
  | caller =>
    simp only [step, stepC] at h
    cases hc : s.cpc <;> rw [hc] at h <;> simp only [] at h
    case ready =>
      left
      cases ho : s.ops with
      | nil => rw [ho] at h; cases h
      | cons op r =>
        rw [ho] at h; cases h
        cases op <;> simp only [startOp] <;> (try split) <;> rfl
    case rbWait b => split at h <;> cases h; exact Or.inr ⟨b, rfl, rfl, rfl, rfl⟩
    case reWait => left; split at h <;> cases h; cases s.ctx <;> rfl
    case join => left; split at h <;> cases h; cases s.ctx <;> rfl
    all_goals first | (cases h; exact Or.inl rfl) | (split at h <;> cases h <;> exact Or.inl rfl)
  | work i =>
    left
    simp only [step] at h
    split at h
    · unfold stepW at h
      cases hw : s.w i <;> rw [hw] at h <;> simp only [] at h
      all_goals first | (cases h; rfl) | (split at h <;> cases h <;> rfl) | cases h
    · cases h
  | exit i =>
    left
    simp only [step, stepX] at h
    split at h
    · split at h <;> cases h; rfl
    · cases h
  | spur i =>
    left
    simp only [step, stepS] at h
    split at h
    · split at h <;> cases h; rfl
    · cases h

/-! ### NO STUCK STATE -/

def enabledW (s : S) (i : Nat) : Bool :=
  match s.w i with
  | .idle => s.flags i
  | .pLock | .pReacquire => s.mutex.isNone
  | .pWaiting => s.notified i
  | .exited => false
  | _ => true

theorem stepW_isSome (s : S) (i : Nat) : (stepW s i).isSome = enabledW s i := by
  unfold stepW enabledW
  cases hw : s.w i <;> simp <;> split <;> simp_all [Option.isSome_iff_ne_none]

theorem worker_enabled (s : S) (i : Nat) (hi : i < s.N) (h : enabledW s i = true) :
    ∃ t, (step s t).isSome = true := by
  refine ⟨.work i, ?_⟩
  simp only [step, hi, if_true]
  rw [stepW_isSome]; exact h

theorem exit_enabled (s : S) (i : Nat) (hi : i < s.N) (hst : s.stopped = true) (hw : s.w i = .idle) :
    ∃ t, (step s t).isSome = true := by
  refine ⟨.exit i, ?_⟩
  simp [step, hi, stepX, hst, hw]

theorem exists_flag_of_not_clear (s : S) (h : allFlagsClear s = false) : ∃ i, i < s.N ∧ s.flags i = true := by
  unfold allFlagsClear at h
  rw [List.all_eq_false] at h
  obtain ⟨i, hi, hf⟩ := h
  exact ⟨i, List.mem_range.mp hi, by simpa using hf⟩

theorem exists_not_exited (s : S) (h : allExited s = false) : ∃ i, i < s.N ∧ s.w i ≠ .exited := by
  unfold allExited at h
  rw [List.all_eq_false] at h
  obtain ⟨i, hi, hf⟩ := h
  exact ⟨i, List.mem_range.mp hi, by simpa using hf⟩

theorem exists_not_of_countP_lt {n : Nat} {p : Nat → Bool}
    (h : (List.range n).countP p < n) : ∃ i, i < n ∧ p i = false := by
  apply Classical.byContradiction
  intro hne
  have hall : ∀ i ∈ List.range n, p i = true := by
    intro i hi
    cases hp : p i
    · exact absurd ⟨i, List.mem_range.mp hi, hp⟩ hne
    · rfl
  have := List.countP_eq_length.mpr hall
  simp at this
  omega

theorem mutex_owner_enabled (s : S) (inv : Inv s) (hc : callerHolds s.cpc = false)
    (hm : s.mutex ≠ none) : ∃ t, (step s t).isSome = true := by
  cases hmu : s.mutex with
  | none => exact absurd hmu hm
  | some j =>
    have hle := inv.mutexR j hmu
    by_cases hj : j = s.N
    · subst hj; have := inv.mutexC.mp hmu; rw [hc] at this; cases this
    · have hlt : j < s.N := by omega
      apply worker_enabled s j hlt
      have hh := (inv.mutexW j hlt).mp hmu
      unfold enabledW
      cases hw : s.w j <;> simp [hw, holds] at hh ⊢

theorem progress (s : S) (inv : Inv s) (hnf : ¬ finished s) : ∃ t, (step s t).isSome = true := by
  have callerStep : (stepC s).isSome = true → ∃ t, (step s t).isSome = true := by
    intro hr; exact ⟨.caller, by simpa [step] using hr⟩
  have hwk := inv.work
  have hg := inv.glob
  cases hc : s.cpc with
  | ready =>
    cases ho : s.ops with
    | nil => exact absurd ⟨hc, ho⟩ hnf
    | cons op r => exact callerStep (by simp [stepC, hc, ho])
  | rbSet b => exact callerStep (by simp [stepC, hc])
  | rbPub k b => by_cases hk : k < s.N <;> exact callerStep (by simp [stepC, hc, hk])
  | paSet => exact callerStep (by simp [stepC, hc])
  | paReq => exact callerStep (by simp [stepC, hc])
  | paUnlock => exact callerStep (by simp [stepC, hc])
  | reReq => exact callerStep (by simp [stepC, hc])
  | paPub k => by_cases hk : k < s.N <;> exact callerStep (by simp [stepC, hc, hk])
  | paSetPaused => exact callerStep (by simp [stepC, hc])
  | reNotify => exact callerStep (by simp [stepC, hc])
  | reUnlock => exact callerStep (by simp [stepC, hc])
  | reClear => exact callerStep (by simp [stepC, hc])
  | stSet => exact callerStep (by simp [stepC, hc])
  | rbWait b =>
    by_cases hcl : allFlagsClear s = true
    · exact callerStep (by simp [stepC, hc, hcl])
    · obtain ⟨i, hi, hf⟩ := exists_flag_of_not_clear s (by simpa using hcl)
      have := hwk i hi; rw [hc, hf] at this
      apply worker_enabled s i hi
      unfold enabledW
      cases hw : s.w i <;> simp [hw, wOK, inBlock] at this ⊢; exact hf
  | paWait =>
    by_cases hcl : allFlagsClear s = true
    · exact callerStep (by simp [stepC, hc, hcl])
    · obtain ⟨i, hi, hf⟩ := exists_flag_of_not_clear s (by simpa using hcl)
      have := hwk i hi; rw [hc, hf] at this
      simp [wOK] at this
  | reWait =>
    by_cases hcl : allFlagsClear s = true
    · exact callerStep (by simp [stepC, hc, hcl])
    · obtain ⟨i, hi, hf⟩ := exists_flag_of_not_clear s (by simpa using hcl)
      have hw1 := hwk i hi; rw [hc, hf] at hw1
      by_cases hm : s.mutex = none
      · apply worker_enabled s i hi
        unfold enabledW
        cases hw : s.w i <;> simp [hw, wOK, resuming] at hw1 ⊢ <;> first | exact hm | exact hw1
      · by_cases hre : s.w i = .pReacquire
        · exact mutex_owner_enabled s inv (by simp [hc, callerHolds]) hm
        · apply worker_enabled s i hi
          unfold enabledW
          cases hw : s.w i <;> simp [hw, wOK, resuming] at hw1 hre ⊢ <;> exact hw1
  | paSpin =>
    by_cases hcn : s.count = s.N
    · exact callerStep (by simp [stepC, hc, hcn])
    · have hle : s.count ≤ s.N := by
        rw [inv.cnt]
        have := List.countP_le_length (p := fun i => counted (s.w i)) (l := List.range s.N)
        simpa using this
      have hlt : (List.range s.N).countP (fun i => counted (s.w i)) < s.N := by rw [← inv.cnt]; omega
      obtain ⟨i, hi, hnc⟩ := exists_not_of_countP_lt hlt
      have hw1 := hwk i hi; rw [hc] at hw1
      simp only [wOK, Bool.and_eq_true] at hw1
      obtain ⟨⟨hp, _⟩, hfl⟩ := hw1
      by_cases hm : s.mutex = none
      · apply worker_enabled s i hi
        unfold enabledW
        cases hw : s.w i <;> simp [hw, pausing, counted] at hp hnc ⊢ <;> first | exact hfl | exact hm
      · by_cases hpl : s.w i = .pLock
        · exact mutex_owner_enabled s inv (by simp [hc, callerHolds]) hm
        · apply worker_enabled s i hi
          unfold enabledW
          cases hw : s.w i <;> simp [hw, pausing, counted] at hp hnc hpl ⊢
          exact hfl
  | reLock =>
    by_cases hm : s.mutex = none
    · exact callerStep (by simp [stepC, hc, hm])
    · exact mutex_owner_enabled s inv (by simp [hc, callerHolds]) hm
  | paLock =>
    by_cases hm : s.mutex = none
    · exact callerStep (by simp [stepC, hc, hm])
    · exact mutex_owner_enabled s inv (by simp [hc, callerHolds]) hm
  | join =>
    by_cases hex : allExited s = true
    · exact callerStep (by simp [stepC, hc, hex])
    · obtain ⟨i, hi, hne⟩ := exists_not_exited s (by simpa using hex)
      have hw1 := hwk i hi; rw [hc] at hw1 hg
      simp only [gOK, Bool.and_eq_true] at hg
      apply exit_enabled s i hi hg.1.1.2
      cases hw : s.w i <;> simp [hw, wOK] at hw1 hne ⊢

/-- **no lost wake-up, no deadlock, `stop`/`join`/`resize` cannot hang**: for every pool size, every
program the library issues and every interleaving, a state in which the caller has not finished
always has an enabled thread. -/
theorem no_stuck_state (n : Nat) (ops : List Op) (sp : Nat → Nat) (hops : okProg false false ops = true) (s : S)
    (h : Reachable (init n ops sp) s) (hnf : ¬ finished s) : ∃ t, (step s t).isSome = true :=
  progress s (reachable_inv n ops sp hops s h) hnf

/-! ### TERMINATION

Spin loops (`wait()`, the `m_paused_count` spin in `pause()`, `join`) and blocking operations are
modelled as transitions that are disabled until their condition holds, so an execution of the model
is an execution of the C++ in which failed spin iterations are not counted.  We give a
lexicographic measure `(callerLeft, workLeft)` that strictly decreases with EVERY step of EVERY
thread.  Hence there is no infinite execution, and together with `no_stuck_state` every maximal
execution ends with the caller finished: any sequence of run, pause, resume, resize and destruction
terminates under every fair schedule. -/

/-- bound on the steps a worker can still take before it needs the caller or a spurious wake-up
(arguments: worker pc, its flag, its pending notification, `m_pause_requested`).  Inside the wait
loop the order is `pReacquire > pCheck > pWaitEnter > pWaiting` while the pause is requested (one
more trip needs a spurious wake-up) and `pWaitEnter > pWaiting > pReacquire > pCheck > pDec` once
it is not. -/
def wbase : WPc → Bool → Bool → Bool → Nat
  | .exited, _, _, _ => 0
  | .idle, false, _, _ => 1
  | .clear, _, _, _ => 2
  | .runBlock, _, _, _ => 3
  | .pDec, _, _, _ => 3
  | .pCheck, _, _, false => 4
  | .pReacquire, _, _, false => 5
  | .pWaiting, _, _, false => 6
  | .pWaitEnter, _, _, false => 7
  | .pWaiting, _, false, true => 4
  | .pWaitEnter, _, _, true => 5
  | .pCheck, _, _, true => 6
  | .pReacquire, _, _, true => 7
  | .pWaiting, _, true, true => 8
  | .pInc, _, _, _ => 9
  | .pLock, _, _, _ => 10
  | .idle, true, _, _ => 11

theorem wbase_le (w : WPc) (f nt pr : Bool) : wbase w f nt pr ≤ 11 := by
  cases w <;> cases f <;> cases nt <;> cases pr <;> simp [wbase]

/-- rank of worker `i`: every trip round the wait loop costs one spurious wake-up (4 steps) -/
def wrank (s : S) (i : Nat) : Nat := 4 * s.spur i + wbase (s.w i) (s.flags i) (s.notified i) s.pauseReq

def sumTo : Nat → (Nat → Nat) → Nat
  | 0, _ => 0
  | n + 1, g => sumTo n g + g n

def workLeft (s : S) : Nat := sumTo s.N (wrank s)

/-- upper bound on the caller micro-steps of the remaining program (pool size `n` now) -/
def costOps : Nat → List Op → Nat
  | _, [] => 0
  | n, .runBlocks _ :: r => n + 12 + costOps n r
  | n, .pause :: r => n + 12 + costOps n r
  | n, .resume :: r => n + 12 + costOps n r
  | n, .stop :: r => n + 12 + costOps n r
  | n, .resize m :: r => n + 12 + costOps m r

/-- upper bound on the caller micro-steps left in the current API call -/
def phaseCost (n : Nat) : CPc → Nat
  | .ready => 0
  | .rbWait _ => 1
  | .rbPub k _ => (n - k) + 2
  | .rbSet _ => n + 3
  | .paSpin => 1
  | .paSetPaused => 2
  | .paPub k => (n - k) + 3
  | .paSet => n + 4
  | .paUnlock => n + 5
  | .paReq => n + 6
  | .paLock => n + 7
  | .paWait => n + 8
  | .join => 1
  | .reWait => n + 4
  | .reClear => n + 5
  | .reUnlock => n + 6
  | .reNotify => n + 7
  | .reReq => n + 8
  | .reLock => n + 9
  | .stSet => n + 10

/-- pool size once the current API call has returned -/
def nAfter (s : S) : Nat := match s.ctx with | .inResize m => m | _ => s.N

def callerLeft (s : S) : Nat := phaseCost s.N s.cpc + costOps (nAfter s) s.ops

/-- the caller's remaining work strictly decreases with every caller step -/
theorem caller_step_decreases (s s' : S) (inv : Inv s) (h : stepC s = some s') : callerLeft s' < callerLeft s := by
  unfold stepC at h
  cases hc : s.cpc <;> rw [hc] at h <;> simp only [] at h
  case ready =>
    have hx : s.ctx = .top := by
      have hg := inv.glob; rw [hc] at hg
      cases hxx : s.ctx <;> simp [gOK, hxx, Ctx.isTop] at hg ⊢
    cases ho : s.ops with
    | nil => rw [ho] at h; cases h
    | cons op r =>
      rw [ho] at h; cases h
      cases op with
      | runBlocks b =>
        cases hp : s.paused <;>
          simp only [callerLeft, startOp, hp, hc, hx, ho, nAfter, phaseCost, costOps, if_true, if_false,
            Bool.false_eq_true] <;> omega
      | pause =>
        cases hp : s.paused <;>
          simp only [callerLeft, startOp, hp, hc, hx, ho, nAfter, phaseCost, costOps, if_true, if_false,
            Bool.false_eq_true] <;> omega
      | resume =>
        cases hp : s.paused <;>
          simp only [callerLeft, startOp, hp, hc, hx, ho, nAfter, phaseCost, costOps, if_true, if_false,
            Bool.false_eq_true] <;> omega
      | stop =>
        cases hp : s.stopped <;>
          simp only [callerLeft, startOp, hp, hc, hx, ho, nAfter, phaseCost, costOps, if_true, if_false,
            Bool.false_eq_true] <;> omega
      | resize m =>
        by_cases hm : m = s.N
        · simp only [callerLeft, startOp, hm, hc, hx, ho, nAfter, phaseCost, costOps, if_true]; omega
        · simp only [callerLeft, startOp, hm, hc, hx, ho, nAfter, phaseCost, costOps, if_false]; omega
  case rbPub k b =>
    split at h <;> cases h <;> simp only [callerLeft, hc, nAfter, phaseCost] <;> omega
  case paPub k =>
    split at h <;> cases h <;> simp only [callerLeft, hc, nAfter, phaseCost] <;> omega
  case reWait =>
    split at h
    · cases h
      cases hxx : s.ctx <;> simp only [callerLeft, hc, hxx, nAfter, phaseCost] <;> omega
    · cases h
  case join =>
    split at h
    · cases h
      cases hxx : s.ctx <;> simp only [callerLeft, hc, hxx, nAfter, phaseCost] <;> omega
    · cases h
  case stSet =>
    cases h
    cases hp : s.paused <;>
      simp only [callerLeft, hc, hp, nAfter, phaseCost, if_true, if_false, Bool.false_eq_true] <;> omega
  all_goals first
    | (cases h; simp only [callerLeft, hc, nAfter, phaseCost]; omega)
    | (split at h <;> cases h; simp only [callerLeft, hc, nAfter, phaseCost]; omega)

/-- what a protocol step of worker `i` leaves unchanged, and: its rank strictly decreases -/
theorem stepW_frame (s s' : S) (i : Nat) (h : stepW s i = some s') :
    s'.N = s.N ∧ s'.cpc = s.cpc ∧ s'.ctx = s.ctx ∧ s'.ops = s.ops ∧
    (∀ j, j ≠ i → wrank s' j = wrank s j) ∧ wrank s' i < wrank s i := by
  unfold stepW at h
  cases hw : s.w i <;> rw [hw] at h <;> simp only [] at h
  case exited => cases h
  all_goals first
    | (cases h
       refine ⟨rfl, rfl, rfl, rfl, fun j hj => by simp [wrank, upd_ne _ _ _ _ hj], ?_⟩
       simp only [wrank, upd_same, hw]
       cases s.flags i <;> cases s.notified i <;> cases s.pauseReq <;> simp [wbase])
    | (split at h
       · rename_i hcnd
         cases h
         refine ⟨rfl, rfl, rfl, rfl, fun j hj => by simp [wrank, upd_ne _ _ _ _ hj], ?_⟩
         simp only [wrank, upd_same, hw]
         cases hpj : s.pauseJobs <;> cases hf : s.flags i <;> cases hn : s.notified i <;> cases s.pauseReq <;>
           simp_all [wbase]
       · cases h)

theorem stepX_frame (s s' : S) (i : Nat) (h : stepX s i = some s') :
    s'.N = s.N ∧ s'.cpc = s.cpc ∧ s'.ctx = s.ctx ∧ s'.ops = s.ops ∧
    (∀ j, j ≠ i → wrank s' j = wrank s j) ∧ wrank s' i < wrank s i := by
  unfold stepX at h
  split at h
  · rename_i hcnd; cases h
    refine ⟨rfl, rfl, rfl, rfl, fun j hj => by simp [wrank, upd_ne _ _ _ _ hj], ?_⟩
    simp only [wrank, upd_same, hcnd.2]
    cases s.flags i <;> cases s.notified i <;> cases s.pauseReq <;> simp [wbase]
  · cases h

/-- a spurious wake-up consumes one unit of the budget: the rank decreases although the worker
goes back towards the loop head -/
theorem stepS_frame (s s' : S) (i : Nat) (h : stepS s i = some s') :
    s'.N = s.N ∧ s'.cpc = s.cpc ∧ s'.ctx = s.ctx ∧ s'.ops = s.ops ∧
    (∀ j, j ≠ i → wrank s' j = wrank s j) ∧ wrank s' i < wrank s i := by
  unfold stepS at h
  split at h
  · rename_i hcnd; cases h
    refine ⟨rfl, rfl, rfl, rfl, fun j hj => by simp [wrank, upd_ne _ _ _ _ hj], ?_⟩
    have hpos := hcnd.2
    simp only [wrank, upd_same, hcnd.1]
    cases s.flags i <;> cases s.notified i <;> cases s.pauseReq <;> simp [wbase] <;> omega
  · cases h

theorem sumTo_congr (n : Nat) (g g' : Nat → Nat) (h : ∀ j, j < n → g' j = g j) : sumTo n g' = sumTo n g := by
  induction n with
  | zero => rfl
  | succ m ih =>
    simp only [sumTo]
    rw [ih (fun j hj => h j (by omega)), h m (by omega)]

theorem sumTo_lt (n : Nat) (g g' : Nat → Nat) (i : Nat) (hi : i < n) (ho : ∀ j, j ≠ i → g' j = g j)
    (hlt : g' i < g i) : sumTo n g' < sumTo n g := by
  induction n with
  | zero => omega
  | succ m ih =>
    simp only [sumTo]
    by_cases him : i = m
    · subst him
      have := sumTo_congr i g g' (fun j hj => ho j (by omega))
      omega
    · have := ih (by omega)
      have := ho m (fun e => him e.symm)
      omega

/-- a worker thread's step (protocol step, exit, spurious wake-up): the caller's measure is
unchanged, the rank of that worker strictly decreases, the other workers' ranks are unchanged. -/
theorem worker_step_decreases (s s' : S) (i : Nat) (hi : i < s.N)
    (h : stepW s i = some s' ∨ stepX s i = some s' ∨ stepS s i = some s') :
    callerLeft s' = callerLeft s ∧ workLeft s' < workLeft s := by
  have hfr : s'.N = s.N ∧ s'.cpc = s.cpc ∧ s'.ctx = s.ctx ∧ s'.ops = s.ops ∧
      (∀ j, j ≠ i → wrank s' j = wrank s j) ∧ wrank s' i < wrank s i := by
    rcases h with h | h | h
    · exact stepW_frame s s' i h
    · exact stepX_frame s s' i h
    · exact stepS_frame s s' i h
  obtain ⟨hN, hcpc, hctx, hops, hoth, hlt⟩ := hfr
  constructor
  · simp only [callerLeft, nAfter, hN, hcpc, hctx, hops]
  · simp only [workLeft, hN]
    exact sumTo_lt s.N _ _ i hi hoth hlt

/-- the lexicographic measure strictly decreases with every step of every thread -/
theorem step_decreases (s s' : S) (inv : Inv s) (t : Tid) (h : step s t = some s') :
    Prod.Lex (· < ·) (· < ·) (callerLeft s', workLeft s') (callerLeft s, workLeft s) := by
  cases t with
  | caller => exact Prod.Lex.left _ _ (caller_step_decreases s s' inv h)
  | work i =>
    simp only [step] at h
    split at h
    · rename_i hi
      have := worker_step_decreases s s' i hi (Or.inl h)
      rw [this.1]; exact Prod.Lex.right _ this.2
    · cases h
  | exit i =>
    simp only [step] at h
    split at h
    · rename_i hi
      have := worker_step_decreases s s' i hi (Or.inr (Or.inl h))
      rw [this.1]; exact Prod.Lex.right _ this.2
    · cases h
  | spur i =>
    simp only [step] at h
    split at h
    · rename_i hi
      have := worker_step_decreases s s' i hi (Or.inr (Or.inr h))
      rw [this.1]; exact Prod.Lex.right _ this.2
    · cases h

/-- **termination**: the step relation (on states satisfying the invariant, i.e. in particular on
all reachable states) is well-founded -/
theorem terminates : WellFounded (fun s' s : S => Inv s ∧ ∃ t, step s t = some s') := by
  have hwf : WellFounded (Prod.Lex (· < ·) (· < ·) : Nat × Nat → Nat × Nat → Prop) :=
    (Prod.lex Nat.lt_wfRel Nat.lt_wfRel).wf
  apply Subrelation.wf (r := InvImage (Prod.Lex (· < ·) (· < ·)) (fun s : S => (callerLeft s, workLeft s)))
  · intro s' s hs
    obtain ⟨inv, t, ht⟩ := hs
    exact step_decreases s s' inv t ht
  · exact InvImage.wf _ hwf

/-- there is no infinite execution of a program the library issues -/
theorem no_infinite_run (n : Nat) (ops : List Op) (sp : Nat → Nat) (hops : okProg false false ops = true)
    (run : Nat → S) (sched : Nat → Tid) (h0 : run 0 = init n ops sp)
    (hstep : ∀ k, step (run k) (sched k) = some (run (k + 1))) : False := by
  have hinv : ∀ k, Inv (run k) := by
    intro k
    induction k with
    | zero => rw [h0]; exact inv_init n ops sp hops
    | succ k ih => exact inv_step _ _ ih _ (hstep k)
  have key : ∀ s, Acc (fun s' s : S => Inv s ∧ ∃ t, step s t = some s') s → ∀ k, run k = s → False := by
    intro s hacc
    induction hacc with
    | intro s _ ih =>
      intro k hk
      exact ih (run (k + 1)) ⟨hk ▸ hinv k, sched k, hk ▸ hstep k⟩ (k + 1) rfl
  exact key (run 0) (terminates.apply _) 0 rfl

theorem Reachable.head {s s1 s' : S} {t : Tid} (hs : Fs.Pool5.step s t = some s1) (h : Reachable s1 s') : Reachable s s' := by
  induction h with
  | refl => exact Reachable.step s s1 t Reachable.refl hs
  | step a b u _ hab ih => exact Reachable.step a b u ih hab

/-- every execution can be continued until the caller has finished (`progress` + `terminates`):
from every state satisfying the invariant a finished state is reachable.  (And by `progress`, a
maximal execution can only end in a finished state; by `no_infinite_run` every execution is finite.) -/
theorem reaches_finished_of_inv (s : S) (inv : Inv s) : ∃ s', Reachable s s' ∧ finished s' := by
  have hacc := terminates.apply s
  induction hacc with
  | intro s _ ih =>
    by_cases hf : finished s
    · exact ⟨s, Reachable.refl, hf⟩
    · obtain ⟨t, ht⟩ := progress s inv hf
      cases hs : step s t with
      | none => rw [hs] at ht; cases ht
      | some s1 =>
        obtain ⟨s', hr, hfin⟩ := ih s1 ⟨inv, t, hs⟩ (inv_step s s1 inv t hs)
        exact ⟨s', Reachable.head hs hr, hfin⟩

theorem reaches_finished (n : Nat) (ops : List Op) (sp : Nat → Nat) (hops : okProg false false ops = true) (s : S)
    (h : Reachable (init n ops sp) s) : ∃ s', Reachable s s' ∧ finished s' :=
  reaches_finished_of_inv s (reachable_inv n ops sp hops s h)

/-- what the pool looks like between API calls: after destruction every worker thread has left its
main loop (joined) with no job pending; otherwise all workers are inside the wait loop of their
pause job (paused: `m_pause_requested` is set, all of them are counted, none can leave) or idle with
no job pending (not paused) -/
theorem between_calls (n : Nat) (ops : List Op) (sp : Nat → Nat) (hops : okProg false false ops = true) (s : S)
    (h : Reachable (init n ops sp) s) (hc : s.cpc = .ready) (i : Nat) (hi : i < s.N) :
    (s.stopped = true → s.w i = .exited ∧ s.flags i = false) ∧
    (s.stopped = false → s.paused = false → s.w i = .idle ∧ s.flags i = false) ∧
    (s.stopped = false → s.paused = true → parked (s.w i) = true ∧ s.flags i = true) := by
  have hw := (reachable_inv n ops sp hops s h).work i hi
  rw [hc] at hw
  refine ⟨?_, ?_, ?_⟩
  · intro hst; rw [hst] at hw; simpa [wOK] using hw
  · intro hst hp; rw [hst, hp] at hw; simpa [wOK] using hw
  · intro hst hp; rw [hst, hp] at hw
    simp only [wOK, Bool.false_eq_true, if_false, if_true, Bool.and_eq_true] at hw
    exact ⟨hw.1.1, hw.2⟩

/-! ### no stranded job flag

The worker loop tests `m_stopped` before its job flag, and the model lets an `idle` worker exit
whenever `stopped` holds, whether or not its flag is set.  In the programs the library issues this
never strands a set flag (which would make `wait()` spin forever): -/

theorem wOK_exited_flag (c p st i f nt) (h : wOK c p st i .exited f nt = true) : f = false := by
  cases c <;> cases p <;> cases st <;> cases f <;> simp_all [wOK, inBlock, pausing, resuming, parked]

theorem wOK_idle_stopped_flag (c p pj pr x n i f nt) (hg : gOK c p pj true pr x n = true)
    (h : wOK c p true i .idle f nt = true) : f = false := by
  cases c <;> cases p <;> cases f <;> simp_all [wOK, gOK, inBlock, pausing, resuming, parked]

/-- a worker that has left its main loop has no job pending -/
theorem no_stranded_flag (n : Nat) (ops : List Op) (sp : Nat → Nat) (hops : okProg false false ops = true) (s : S)
    (h : Reachable (init n ops sp) s) (i : Nat) (hi : i < s.N) (hw : s.w i = .exited) : s.flags i = false := by
  have := (reachable_inv n ops sp hops s h).work i hi
  rw [hw] at this
  exact wOK_exited_flag _ _ _ _ _ _ this

/-- whenever a worker can take the exit transition, its flag is clear (the order of the two loads
in the worker loop is harmless) -/
theorem exit_only_when_flag_clear (n : Nat) (ops : List Op) (sp : Nat → Nat) (hops : okProg false false ops = true) (s : S)
    (h : Reachable (init n ops sp) s) (i : Nat) (hi : i < s.N) (hx : (stepX s i).isSome = true) :
    s.flags i = false := by
  have inv := reachable_inv n ops sp hops s h
  unfold stepX at hx
  split at hx
  · rename_i hc
    have hw := inv.work i hi
    have hg := inv.glob
    rw [hc.1] at hw hg
    rw [hc.2] at hw
    exact wOK_idle_stopped_flag _ _ _ _ _ _ _ _ _ hg hw
  · simp at hx

/-! ### spurious wake-ups cannot end a pause

With the old pause job (`++count; wait; --count`) a worker whose `wait` returned spuriously left
the pause job while `pause()` was still spinning on `m_paused_count != m_size` (see `stepOld`
below).  In the repaired protocol only `resume()` ends a pause: -/

theorem countP_all {n : Nat} {p : Nat → Bool} (h : ∀ i, i < n → p i = true) : (List.range n).countP p = n := by
  have : (List.range n).countP p = (List.range n).length :=
    List.countP_eq_length.mpr (fun i hi => h i (List.mem_range.mp hi))
  simpa using this

theorem parked_counted (w : WPc) (h : parked w = true) : counted w = true := by
  cases w <;> simp_all [parked, counted]

/-- per-worker part of `parked_while_requested` (finite case analysis over the phases) -/
theorem wOK_parked (c : CPc) (pj st : Bool) (x : Ctx) (n i : Nat) (w : WPc) (f nt : Bool)
    (hns : c ≠ .paSpin) (hg : gOK c true pj st true x n = true) (h : wOK c true st i w f nt = true) :
    parked w = true ∧ f = true := by
  cases c <;> cases st <;> cases w <;> cases f <;> simp_all [wOK, gOK, parked]

/-- **only `resume()` ends a pause.**  From the moment `pause()` has returned (`m_paused` set, the
caller no longer in the `m_paused_count` spin) until `resume()` clears `m_pause_requested`, in
every reachable state - whatever the spurious wake-up budgets - EVERY worker is inside the wait
loop of its pause job (`pCheck`, `pWaitEnter`, `pWaiting` or `pReacquire`), its flag is still set
and `m_paused_count = m_size`.  A worker woken spuriously goes `pWaiting → pReacquire → pCheck`
and back to sleep; it cannot reach `pDec`. -/
theorem parked_while_requested (n : Nat) (ops : List Op) (sp : Nat → Nat) (hops : okProg false false ops = true)
    (s : S) (h : Reachable (init n ops sp) s)
    (hp : s.paused = true) (hpr : s.pauseReq = true) (hns : s.cpc ≠ .paSpin) :
    s.count = s.N ∧ ∀ i, i < s.N → parked (s.w i) = true ∧ s.flags i = true := by
  have inv := reachable_inv n ops sp hops s h
  have hg := inv.glob
  rw [hp, hpr] at hg
  have hall : ∀ i, i < s.N → parked (s.w i) = true ∧ s.flags i = true := by
    intro i hi
    have hw := inv.work i hi
    rw [hp] at hw
    exact wOK_parked _ _ _ _ _ _ _ _ _ hns hg hw
  refine ⟨?_, hall⟩
  rw [inv.cnt]
  exact countP_all (fun i hi => parked_counted _ (hall i hi).1)

/-- **`pause()` returns only when every worker is parked**: between API calls, while paused,
`m_pause_requested` is set, the pool is not stopped, `m_paused_count = m_size` and every worker
is inside the wait loop with its flag set. -/
theorem pause_returns_parked (n : Nat) (ops : List Op) (sp : Nat → Nat) (hops : okProg false false ops = true)
    (s : S) (h : Reachable (init n ops sp) s) (hc : s.cpc = .ready) (hp : s.paused = true) :
    s.pauseReq = true ∧ s.stopped = false ∧ s.count = s.N ∧
    ∀ i, i < s.N → parked (s.w i) = true ∧ s.flags i = true := by
  have inv := reachable_inv n ops sp hops s h
  have hg := inv.glob
  rw [hc] at hg
  obtain ⟨_, _, hstp, hprp⟩ := gOK_ready hg
  have hpr : s.pauseReq = true := by rw [hprp, hp]
  have hst : s.stopped = false := by
    cases hs : s.stopped
    · rfl
    · have := hstp hs; rw [hp] at this; cases this
  have := parked_while_requested n ops sp hops s h hp hpr (by simp [hc])
  exact ⟨hpr, hst, this.1, this.2⟩

/-- a caller step other than the `resize` reset leaves the workers alone -/
theorem stepC_w (s s' : S) (h : stepC s = some s') (hj : s.cpc ≠ .join) : s'.w = s.w ∧ s'.N = s.N := by
  unfold stepC at h
  cases hc : s.cpc <;> rw [hc] at h <;> simp only [] at h
  case ready =>
    cases ho : s.ops with
    | nil => rw [ho] at h; cases h
    | cons op r =>
      rw [ho] at h; cases h
      cases op <;> simp only [startOp] <;> (try split) <;> first | exact ⟨rfl, rfl⟩ | simp
  case reWait => split at h <;> cases h; cases s.ctx <;> exact ⟨rfl, rfl⟩
  case join => exact absurd hc hj
  all_goals first | (cases h; exact ⟨rfl, rfl⟩) | (split at h <;> cases h <;> exact ⟨rfl, rfl⟩)

/-- step-level form: while `m_pause_requested` is set, NO step of ANY thread (in particular no
spurious wake-up) takes a parked worker out of the wait loop -/
theorem parked_stays (s s' : S) (inv : Inv s) (t : Tid) (h : step s t = some s')
    (hpr : s.pauseReq = true) (i : Nat) (hpk : parked (s.w i) = true) : parked (s'.w i) = true := by
  cases t with
  | caller =>
    have hj : s.cpc ≠ .join := by
      intro hc; have hg := inv.glob; rw [hc, hpr] at hg; simp [gOK] at hg
    rw [(stepC_w s s' h hj).1]; exact hpk
  | work j =>
    simp only [step] at h
    split at h
    · by_cases hji : i = j
      · subst hji
        unfold stepW at h
        cases hw : s.w i <;> rw [hw] at h hpk <;> simp only [] at h <;> simp [parked] at hpk
        · cases h; simp [hpr, parked]
        · cases h; simp [parked]
        · split at h <;> cases h; simp [parked]
        · split at h <;> cases h; simp [parked]
      · unfold stepW at h
        cases hw : s.w j <;> rw [hw] at h <;> simp only [] at h
        all_goals first
          | (cases h; simpa [upd_ne _ _ _ _ hji] using hpk)
          | (split at h <;> cases h; simpa [upd_ne _ _ _ _ hji] using hpk)
          | cases h
    · cases h
  | exit j =>
    simp only [step, stepX] at h
    split at h
    · split at h
      · rename_i hc
        cases h
        by_cases hji : i = j
        · subst hji; rw [hc.2] at hpk; simp [parked] at hpk
        · simpa [upd_ne _ _ _ _ hji] using hpk
      · cases h
    · cases h
  | spur j =>
    simp only [step, stepS] at h
    split at h
    · split at h
      · cases h
        by_cases hji : i = j
        · subst hji; simp [parked]
        · simpa [upd_ne _ _ _ _ hji] using hpk
      · cases h
    · cases h

/-- a worker enters `pDec` (leaves the wait loop) only by its own loop-head test, and only when
`m_pause_requested` is clear -/
theorem leaves_only_when_cleared (s s' : S) (t : Tid) (h : step s t = some s') (i : Nat)
    (h0 : s.w i ≠ .pDec) (h1 : s'.w i = .pDec) : t = .work i ∧ s.w i = .pCheck ∧ s.pauseReq = false := by
  cases t with
  | caller =>
    by_cases hj : s.cpc = .join
    · simp only [step, stepC, hj] at h
      split at h
      · cases h
        cases hx : s.ctx <;> simp [hx] at h1 <;> exact absurd h1 h0
      · cases h
    · rw [(stepC_w s s' h hj).1] at h1; exact absurd h1 h0
  | work j =>
    simp only [step] at h
    split at h
    · by_cases hji : i = j
      · subst hji
        unfold stepW at h
        cases hw : s.w i <;> rw [hw] at h <;> simp only [] at h
        case pCheck =>
          cases h
          cases hpr : s.pauseReq
          · exact ⟨rfl, rfl, rfl⟩
          · simp [hpr] at h1
        case pDec => exact absurd hw h0
        all_goals first
          | (cases h; simp at h1; try (split at h1 <;> cases h1))
          | (split at h <;> cases h; simp at h1; try (split at h1 <;> cases h1))
          | cases h
      · unfold stepW at h
        cases hw : s.w j <;> rw [hw] at h <;> simp only [] at h
        all_goals first
          | (cases h; simp [upd_ne _ _ _ _ hji] at h1; exact absurd h1 h0)
          | (split at h <;> cases h; simp [upd_ne _ _ _ _ hji] at h1; exact absurd h1 h0)
          | cases h
    · cases h
  | exit j =>
    simp only [step, stepX] at h
    split at h
    · split at h
      · cases h
        by_cases hji : i = j
        · subst hji; simp at h1
        · simp [upd_ne _ _ _ _ hji] at h1; exact absurd h1 h0
      · cases h
    · cases h
  | spur j =>
    simp only [step, stepS] at h
    split at h
    · split at h
      · cases h
        by_cases hji : i = j
        · subst hji; simp at h1
        · simp [upd_ne _ _ _ _ hji] at h1; exact absurd h1 h0
      · cases h
    · cases h

/-- `m_pause_requested` is cleared by `resume()` (micro-step `reReq`) and by nothing else -/
theorem pauseReq_cleared_by_resume (s s' : S) (t : Tid) (h : step s t = some s')
    (h0 : s.pauseReq = true) (h1 : s'.pauseReq = false) : t = .caller ∧ s.cpc = .reReq := by
  cases t with
  | caller =>
    refine ⟨rfl, ?_⟩
    simp only [step, stepC] at h
    cases hc : s.cpc <;> rw [hc] at h <;> simp only [] at h
    case ready =>
      cases ho : s.ops with
      | nil => rw [ho] at h; cases h
      | cons op r =>
        rw [ho] at h; cases h
        cases op <;> simp only [startOp] at h1 <;> (try split at h1) <;> simp_all
    case reWait => split at h <;> cases h; cases hx : s.ctx <;> simp_all
    case join => split at h <;> cases h; cases hx : s.ctx <;> simp_all
    all_goals first | (cases h; simp_all) | (split at h <;> cases h <;> simp_all)
  | work j =>
    simp only [step] at h
    split at h
    · unfold stepW at h
      cases hw : s.w j <;> rw [hw] at h <;> simp only [] at h
      all_goals first
        | (cases h; simp_all)
        | (split at h <;> cases h <;> simp_all)
        | cases h
    · cases h
  | exit j =>
    simp only [step, stepX] at h
    split at h
    · split at h <;> cases h; simp_all
    · cases h
  | spur j =>
    simp only [step, stepS] at h
    split at h
    · split at h <;> cases h; simp_all
    · cases h

/-! ### examples: the hypotheses are satisfiable, concrete executions, bounded exploration -/

def demoProg : List Op :=
  [.resume, .runBlocks 2, .pause, .runBlocks 1, .pause, .resume, .resize 3, .runBlocks 3, .pause, .stop, .stop]

example : okProg false false demoProg = true := by decide
-- rejected: resize while paused, anything but `stop` after `stop`
example : okProg false false [.pause, .resize 3] = false := by decide
example : okProg false false [.runBlocks 2, .stop, .runBlocks 2] = false := by decide

def tids (s : S) : List Tid :=
  .caller :: ((List.range s.N).map .work ++ (List.range s.N).map .exit ++ (List.range s.N).map .spur)

def firstStep (s : S) : List Tid → Option S
  | [] => none
  | t :: ts => match step s t with | some s' => some s' | none => firstStep s ts

/-- run with a fixed-priority scheduler until nothing is enabled (or the fuel is used up) -/
def runGreedy (order : S → List Tid) : Nat → S → S
  | 0, s => s
  | k + 1, s => match firstStep s (order s) with | some s' => runGreedy order k s' | none => s

def demoOK (s : S) : Bool :=
  decide (s.cpc = .ready) && s.ops.isEmpty && s.N == 3 && s.stopped && !s.paused && !s.pauseReq &&
  (List.range 4).map s.execs == [3, 2, 1, 0] && (List.range 4).map s.want == [3, 2, 1, 0] &&
  (List.range s.N).all (fun i => decide (s.w i = .exited))

/-- complete executions of `demoProg` on a pool of 2 in which every slot may be woken spuriously
twice (caller-first, workers-first, and spurious-wake-ups-first priority - in the last one every
spurious wake-up is taken as soon as it is possible): the caller finishes, all 3 workers of the
resized pool have exited, and the slots have executed 3, 2, 1 callbacks -/
example : demoOK (runGreedy tids 300 (init 2 demoProg (fun _ => 2))) = true := by decide
example : demoOK (runGreedy (fun s => (tids s).reverse) 300 (init 2 demoProg (fun _ => 2))) = true := by decide
example : (runGreedy (fun s => (tids s).reverse) 300 (init 2 demoProg (fun _ => 2))).spur 0 = 0 := by decide

def allN (s : S) (p : Nat → Bool) : Bool := (List.range s.N).all p

/-- Boolean version of `Inv` (ghost fact checked for the slots `0..3`) -/
def invB (s : S) : Bool :=
  allN s (fun i => (s.mutex == some i) == holds (s.w i)) &&
  ((s.mutex == some s.N) == callerHolds s.cpc) &&
  (match s.mutex with | none => true | some j => decide (j ≤ s.N)) &&
  (s.count == (List.range s.N).countP (fun i => counted (s.w i))) &&
  allN s (fun i => s.w i == .idle || s.w i == .exited || s.flags i) &&
  okProg (pausedAfter s) (stoppedAfter s) s.ops &&
  gOK s.cpc s.paused s.pauseJobs s.stopped s.pauseReq s.ctx s.N &&
  allN s (fun i => wOK s.cpc s.paused s.stopped i (s.w i) (s.flags i) (s.notified i)) &&
  (List.range 4).all (fun i => s.execs i ==
    s.want i + (if (decide (i < s.N) && doneB s.cpc i (s.w i) (s.flags i)) then 1 else 0))

def wcode : WPc → Nat
  | .idle => 0 | .runBlock => 1 | .pLock => 2 | .pInc => 3 | .pWaitEnter => 4 | .pWaiting => 5
  | .pReacquire => 6 | .pDec => 7 | .clear => 8 | .exited => 9 | .pCheck => 10
def ccode : CPc → List Nat
  | .ready => [0] | .rbSet b => [1, b] | .rbPub k b => [2, k, b] | .rbWait b => [3, b] | .paWait => [4]
  | .paSet => [5] | .paPub k => [6, k] | .paSetPaused => [7] | .paSpin => [8] | .reLock => [9]
  | .reNotify => [10] | .reUnlock => [11] | .reClear => [12] | .reWait => [13] | .stSet => [14] | .join => [15]
  | .paLock => [16] | .paReq => [17] | .paUnlock => [18] | .reReq => [19]
def xcode : Ctx → List Nat
  | .top => [0] | .inRun b => [1, b] | .inStop => [2] | .inResize m => [3, m]
def bcode (b : Bool) : Nat := if b then 1 else 0
/-- a state is determined (as far as slots `0..3` are concerned) by this list of numbers -/
def keyOf (s : S) : List Nat :=
  [s.N, s.count, (match s.mutex with | none => 0 | some j => j + 1), bcode s.pauseJobs, bcode s.paused,
   bcode s.stopped, bcode s.pauseReq, s.ops.length] ++ ccode s.cpc ++ xcode s.ctx ++
  (List.range s.N).flatMap (fun i => [wcode (s.w i), bcode (s.flags i), bcode (s.notified i)]) ++
  (List.range 4).flatMap (fun i => [s.execs i, s.want i, s.spur i])

def finishedB (s : S) : Bool := s.cpc == .ready && s.ops.isEmpty

/-- breadth-first exploration of ALL interleavings of a transition function `stp` (with fuel):
number of distinct states, and whether every visited state satisfies `chk`, is not stuck (has a
successor or is finished), and satisfies exactly-once when the caller is `ready` -/
def exploreG (stp : S → Tid → Option S) (chk : S → Bool) : Nat → List S → List (List Nat) → Bool → Nat × Bool
  | 0, fr, seen, ok => (seen.length, ok && fr.isEmpty)
  | _ + 1, [], seen, ok => (seen.length, ok)
  | fuel + 1, s :: rest, seen, ok =>
    let succs := (tids s).filterMap (stp s)
    let good := chk s && (!succs.isEmpty || finishedB s) &&
      (!(s.cpc == .ready) || (List.range 4).all (fun i => s.execs i == s.want i))
    let acc := succs.foldl (fun (acc : List S × List (List Nat)) x =>
      if acc.2.contains (keyOf x) then acc else (acc.1 ++ [x], keyOf x :: acc.2)) (rest, seen)
    exploreG stp chk fuel acc.1 acc.2 (ok && good)

def explore : Nat → List S → List (List Nat) → Bool → Nat × Bool := exploreG step invB

/-- all interleavings of program `ops` on a pool of `n` workers with spurious budgets `sp` -/
def exploreFrom (fuel n : Nat) (ops : List Op) (sp : Nat → Nat) : Nat × Bool :=
  explore fuel [init n ops sp] [keyOf (init n ops sp)] true

-- kernel-checked exhaustive exploration of a small instance (all interleavings, one spurious
-- wake-up allowed: 99 states, the invariant holds in all of them, every state without successor is
-- finished); more and larger ones in `FsProofs/Properties/C11Spurious.lean`
set_option maxRecDepth 1000000 in
example : exploreFrom 1000 1 [.pause, .resume] (fun _ => 1) = (99, true) := by decide +kernel

-- larger instances, evaluated only (a test of the invariant, not a proof): all `(_, true)`
-- #eval exploreFrom 100000 2 [.pause, .resume] (fun _ => 1)
-- #eval exploreFrom 100000 2 [.runBlocks 1, .pause, .runBlocks 2, .stop] (fun _ => 1)
-- #eval exploreFrom 100000 2 [.runBlocks 2, .resize 3, .pause, .stop] (fun i => if i = 2 then 1 else 0)
-- #eval exploreFrom 100000 3 [.pause, .stop] (fun i => if i = 0 then 1 else 0)
-- a program outside `okProg` (publishing to an exited worker) does get stuck: `(_, false)`
-- #eval exploreFrom 100000 1 [.stop, .runBlocks 1] (fun _ => 1)

def runSched (s : S) : List Tid → Option S
  | [] => some s
  | t :: ts => match step s t with | some s' => runSched s' ts | none => none

theorem Reachable.trans {a b c : S} (h1 : Reachable a b) (h2 : Reachable b c) : Reachable a c := by
  induction h2 with
  | refl => exact h1
  | step s s' t _ hs ih => exact Reachable.step s s' t ih hs

theorem runSched_reachable (ts : List Tid) : ∀ s s', runSched s ts = some s' → Reachable s s' := by
  induction ts with
  | nil => intro s s' h; simp only [runSched] at h; cases h; exact Reachable.refl
  | cons t ts ih =>
    intro s s' h
    simp only [runSched] at h
    cases hs : step s t with
    | none => rw [hs] at h; cases h
    | some s1 => rw [hs] at h; exact Reachable.head hs (ih s1 s' h)

/-! ### why `pause()` has to spin until `m_paused_count == m_size`

(as in `Fs.Pool4`)  The worker loop tests `m_stopped` BEFORE its job flag.  If `pause()` returned
right after publishing the pause jobs, `stop()` could set `m_stopped` while worker 0 is still at the
head of its loop with its pause job published but not taken; the worker leaves the loop, the flag
stays set, and `stop() → resume() → wait()` spins forever.  The state below violates `Inv`. -/
def strandedStart : S :=
  { init 1 [] (fun _ => 0) with flags := fun _ => true, pauseJobs := true, paused := true, stopped := true,
                                 pauseReq := true, cpc := .reLock, ctx := .inStop }

example : invB strandedStart = false := by decide
example : (match runSched strandedStart [.exit 0, .caller, .caller, .caller, .caller, .caller] with
    | some s => decide (s.cpc = .reWait) && (tids s).all (fun t => (step s t).isNone) && s.flags 0
    | none => false) = true := by decide

/-! ### the OLD pause job under spurious wake-ups

The protocol before the repair, i.e. exactly `Fs.Pool4.step` plus the spurious-wake rule `stepS`:
pause job `lock; ++count; wait; --count` (no loop, no flag), `pause()` and `resume()` without
`m_pause_requested` (`pauseReq` is never written and never read).  `FsProofs/Properties/C11Spurious.lean`
exhibits a schedule with ONE spurious wake-up after which `pause()` spins for ever. -/
def stepWOld (s : S) (i : Nat) : Option S :=
  match s.w i with
  | .pInc => some { s with count := s.count + 1, w := upd s.w i .pWaitEnter }
  | .pReacquire => if s.mutex.isNone then some { s with mutex := some i, w := upd s.w i .pDec } else none
  | .pCheck => none
  | _ => stepW s i

def stepCOld (s : S) : Option S :=
  match s.cpc with
  | .paWait => if allFlagsClear s then some { s with cpc := .paSet } else none
  | .reLock => if s.mutex.isNone then some { s with mutex := some s.N, cpc := .reNotify } else none
  | _ => stepC s

def stepOld (s : S) : Tid → Option S
  | .caller => stepCOld s
  | .work i => if i < s.N then stepWOld s i else none
  | .exit i => if i < s.N then stepX s i else none
  | .spur i => if i < s.N then stepS s i else none

inductive ReachableOld (s0 : S) : S → Prop
  | refl : ReachableOld s0 s0
  | step (s s' t) : ReachableOld s0 s → stepOld s t = some s' → ReachableOld s0 s'

def runSchedOld (s : S) : List Tid → Option S
  | [] => some s
  | t :: ts => match stepOld s t with | some s' => runSchedOld s' ts | none => none

theorem runSchedOld_reachable (s0 : S) (ts : List Tid) : ∀ s s', ReachableOld s0 s → runSchedOld s ts = some s' →
    ReachableOld s0 s' := by
  induction ts with
  | nil => intro s s' hr h; simp only [runSchedOld] at h; cases h; exact hr
  | cons t ts ih =>
    intro s s' hr h
    simp only [runSchedOld] at h
    cases hs : stepOld s t with
    | none => rw [hs] at h; cases h
    | some s1 => rw [hs] at h; exact ih s1 s' (ReachableOld.step s s1 t hr hs) h

/-- all interleavings of the OLD protocol (no invariant check: only "not stuck" and exactly-once) -/
def exploreOldFrom (fuel n : Nat) (ops : List Op) (sp : Nat → Nat) : Nat × Bool :=
  exploreG stepOld (fun _ => true) fuel [init n ops sp] [keyOf (init n ops sp)] true

-- without spurious wake-ups the old protocol is `Fs.Pool4` (same state counts as there, nothing stuck) ...
set_option maxRecDepth 1000000 in
example : exploreOldFrom 1000 1 [.runBlocks 1, .pause, .stop] (fun _ => 0) = (54, true) := by decide
-- ... with one spurious wake-up `pause` alone can hang
set_option maxRecDepth 1000000 in
example : (exploreOldFrom 1000 1 [.pause] (fun _ => 1)).2 = false := by decide

end Fs.Pool5
