import FsModel.Mst

/-! The union-find of `utils/union_find.hpp` (parent / rank arrays, two-pass `find` with path
compression, union by rank) and the Kruskal loop of `basin_graph.hpp::compute_tree_kruskal`
running on it, statement by statement.  Out-of-range indices read as their own parent
(`getD i i`) and are never written (`setIfInBounds`), so every function is total.  The two
`while` loops of `find` are fuel-bounded by `parent.size + 1` (structural recursion on the fuel);
`FsProofs.Properties.C15UnionFind` shows that this fuel is never exhausted on a well-formed
structure and that the whole thing refines the class-map `Fs.Mst.kruskal`.  Core Lean only. -/
namespace Fs.UF
open Fs.Mst

structure UF where
  parent : Array Nat
  rank : Array Nat
deriving Repr, DecidableEq

/-- `clear()` / `resize(nb)`: `parent[i] = i`, `rank[i] = 0` -/
def UF.init (nb : Nat) : UF := { parent := Array.range nb, rank := Array.replicate nb 0 }

/-- first loop of `find`: `while (c != parent[c]) c = parent[c];` -/
def findRoot (parent : Array Nat) : Nat → Nat → Nat
  | 0, c => c
  | fuel + 1, c => if c ≠ parent.getD c c then findRoot parent fuel (parent.getD c c) else c

/-- second loop of `find`:
`while (x != parent[x]) { t = parent[x]; parent[x] = c; x = t; }` -/
def compress (c : Nat) : Nat → Array Nat → Nat → Array Nat
  | 0, parent, _ => parent
  | fuel + 1, parent, x =>
    if x ≠ parent.getD x x then compress c fuel (parent.setIfInBounds x c) (parent.getD x x)
    else parent

/-- `find(x)`: the root, and the structure after path compression (the C++ `find` mutates) -/
def UF.find (u : UF) (x : Nat) : Nat × UF :=
  let c := findRoot u.parent (u.parent.size + 1) x
  (c, { u with parent := compress c (u.parent.size + 1) u.parent x })

/-- `merge(x, y)`: two `find`s, then link by rank -/
def UF.merge (u : UF) (x y : Nat) : UF :=
  let fx := u.find x
  let fy := fx.2.find y
  let rx := fx.1
  let ry := fy.1
  let u2 := fy.2
  if rx ≠ ry then
    if u2.rank.getD rx 0 < u2.rank.getD ry 0 then
      { u2 with parent := u2.parent.setIfInBounds rx ry }
    else
      let u3 : UF := { u2 with parent := u2.parent.setIfInBounds ry rx }
      if u3.rank.getD rx 0 = u3.rank.getD ry 0 then
        { u3 with rank := u3.rank.setIfInBounds rx (u3.rank.getD rx 0 + 1) }
      else u3
  else u2

variable {α : Type}

/-- one iteration of the loop of `compute_tree_kruskal`:
`if (uf.find(link[0]) != uf.find(link[1])) { tree.push_back(edge_idx); uf.merge(link[0], link[1]); }`
(both `find`s of the test compress; the order in which the C++ evaluates them is unspecified but
immaterial: each one only redirects nodes of its own path to their - unchanged - root) -/
def kruskalUFStep (edges : Array (BEdge α)) (s : UF × List Nat) (eidx : Nat) : UF × List Nat :=
  match edges[eidx]? with
  | Option.none => s
  | some e =>
    let f0 := s.1.find e.l0
    let f1 := f0.2.find e.l1
    if f0.1 ≠ f1.1 then (f1.2.merge e.l0 e.l1, s.2 ++ [eidx]) else (f1.2, s.2)

/-- final state (union-find and tree) of the Kruskal loop over the sorted edge indices -/
def kruskalUFState (nb : Nat) (edges : Array (BEdge α)) (perm : List Nat) : UF × List Nat :=
  perm.foldl (kruskalUFStep edges) (UF.init nb, [])

def kruskalUF (nb : Nat) (edges : Array (BEdge α)) (perm : List Nat) : List Nat :=
  (kruskalUFState nb edges perm).2

end Fs.UF
