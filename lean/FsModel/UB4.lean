import FsModel.UB3
/-! Priority flood, upper bound (C02): fold over neighbours, pop, run, final theorem. -/
namespace Fs.UB
open List

variable {α : Type}

section
variable (o : Ord α) (L : Laws o) (z : Nat → α) (nbrs : Nat → List Nat) (seed mask : Nat → Bool)
include L

omit L in
theorem visit_L (t : α) (s : PF α) (nb : Nat) : (visit o mask t s nb).L = s.L := by
  unfold visit; split
  · rfl
  · split <;> rfl

omit L in
theorem visit_closed_mono (t : α) (s : PF α) (nb n : Nat) (h : s.closed n = true) :
    (visit o mask t s nb).closed n = true := by
  unfold visit; split
  · exact h
  · split <;> (simp only [upd]; split <;> simp [h])

omit L in
theorem visit_done (t : α) (s : PF α) (nb : Nat) :
    mask nb = true ∨ (visit o mask t s nb).closed nb = true := by
  unfold visit
  by_cases hm : mask nb = true
  · exact Or.inl hm
  · right
    by_cases hc : s.closed nb = true
    · simp [hc]
    · have : (mask nb || s.closed nb) = false := by
        cases h1 : mask nb <;> cases h2 : s.closed nb <;> simp_all
      simp only [this, Bool.false_eq_true, if_false]
      by_cases hh : o.lt t (s.elev nb) = true <;> simp [hh, upd]

theorem fold_inv (c : Nat) (l : List Nat) (s : PF α) (t : α) (ht : t = o.nextUp s.L)
    (h : UBInv o z nbrs seed mask (some c) s) :
    UBInv o z nbrs seed mask (some c) (l.foldl (visit o mask t) s) ∧
    (∀ n, s.closed n = true → (l.foldl (visit o mask t) s).closed n = true) ∧
    (∀ m, m ∈ l → mask m = true ∨ (l.foldl (visit o mask t) s).closed m = true) := by
  induction l generalizing s with
  | nil => exact ⟨h, fun _ h => h, fun _ hm => by cases hm⟩
  | cons a rest ih =>
    simp only [foldl_cons]
    have h1 : UBInv o z nbrs seed mask (some c) (visit o mask t s a) := by
      rw [ht]; exact visit_inv o L z nbrs seed mask c s a h
    have ht' : t = o.nextUp (visit o mask t s a).L := by rw [visit_L]; exact ht
    obtain ⟨r1, r2, r3⟩ := ih _ ht' h1
    refine ⟨r1, fun n hn => r2 n (visit_closed_mono o mask t s a n hn), ?_⟩
    intro m hm
    rcases mem_cons.mp hm with rfl | hm
    · rcases visit_done o mask t s m with h2 | h2
      · exact Or.inl h2
      · exact Or.inr (r2 _ h2)
    · exact r3 m hm

omit L in
theorem pop_cases (s : PF α) (c : QE α) (fo : Bool) (s' : PF α) (h : pop o s = some (c, fo, s')) :
    (fo = true ∧ ∃ qs, s.openQ = c :: qs ∧ s' = { s with openQ := qs } ∧
        (s.pitQ = [] ∨ ∃ p ps, s.pitQ = p :: ps ∧ o.lt c.2 p.2 = false ∧ o.lt p.2 c.2 = false)) ∨
    (fo = false ∧ ∃ ps, s.pitQ = c :: ps ∧ s' = { s with pitQ := ps }) := by
  unfold pop at h
  split at h
  · cases h
  · rename_i p ps q qs hp hq
    split at h
    · rename_i htie
      cases h
      simp only [Bool.and_eq_true, Bool.not_eq_true'] at htie
      exact Or.inl ⟨rfl, qs, hq, rfl, Or.inr ⟨p, ps, hp, htie.1, htie.2⟩⟩
    · cases h; exact Or.inr ⟨rfl, ps, hp, rfl⟩
  · rename_i p ps hp hq
    cases h; exact Or.inr ⟨rfl, ps, hp, rfl⟩
  · rename_i q qs hp hq
    cases h; exact Or.inl ⟨rfl, qs, hq, rfl, Or.inl hp⟩

/-- entries of a sorted pit queue that are ≥ the front value `m ∈ {L, L⁺}` lie in `{m, m⁺}` -/
theorem pit_vals_after (Lv m : α) (hm : m = Lv ∨ m = o.nextUp Lv) (x : α)
    (hx : x = Lv ∨ x = o.nextUp Lv) (hle : o.le m x = true) : x = m ∨ x = o.nextUp m := by
  rcases hm with rfl | rfl
  · exact hx
  · rcases hx with rfl | rfl
    · -- nextUp L ≤ L is impossible
      have := Laws.not_le_of_lt (o := o) (L.next_gt x); rw [hle] at this; cases this
    · exact Or.inl rfl

theorem bump_pit_inv (s : PF α) (c : QE α) (ps : List (QE α)) (hp : s.pitQ = c :: ps)
    (h : UBInv o z nbrs seed mask none s) :
    UBInv o z nbrs seed mask (some c.1) (bump { s with pitQ := ps } c false) := by
  have hk : 0 < s.k := by
    cases hk0 : s.k with
    | zero => have := h.pit0 hk0; rw [hp] at this; cases this
    | succ n => omega
  have hcq : s.queued c := Or.inr (by rw [hp]; simp)
  obtain ⟨hcc, hce⟩ := h.queued c hcq
  have hsorted := h.pitSorted; rw [hp] at hsorted
  have hfront : ∀ x, x ∈ ps → o.le c.2 x.2 = true := (pairwise_cons.mp hsorted).1
  have hcv : c.2 = s.L ∨ c.2 = o.nextUp s.L := h.pitVals hk c (by rw [hp]; simp)
  have hsub : ∀ x, x ∈ ps → x ∈ s.pitQ := fun x hx => by rw [hp]; exact mem_cons_of_mem _ hx
  unfold bump
  refine ⟨?_, h.unclosedZ, h.seedClosed, h.openZ, h.openSorted, (pairwise_cons.mp hsorted).2, ?_, ?_, ?_, ?_, ?_, ?_, ?_, h.H, ?_, ?_⟩
  · intro x hx
    rcases hx with hx | hx
    · exact h.queued x (Or.inl hx)
    · exact h.queued x (Or.inr (hsub x hx))
  · intro hk0; simp at hk0
  · intro _ x hx
    exact pit_vals_after o L s.L c.2 hcv x.2 (h.pitVals hk x (hsub x hx)) (hfront x hx)
  · intro _ x hx; simp only [Bool.false_eq_true, if_false]; exact h.openLB hk x hx
  · intro _; simp only [Bool.false_eq_true, if_false]
    have := h.chainLo hk
    rcases hcv with e | e
    · rw [e]; exact this
    · rw [e]; exact L.le_trans this (L.le_next _)
  · intro _; simp only [Bool.false_eq_true, if_false]
    obtain ⟨h1, h2⟩ := h.chainHi hk
    refine ⟨?_, by omega⟩
    have e : s.k + 1 - s.kO = (s.k - s.kO) + 1 := by omega
    rw [e]
    show o.le c.2 (o.nextUp (pw o (s.k - s.kO) s.LO)) = true
    rcases hcv with e' | e'
    · rw [e']; exact L.le_trans h1 (L.le_next _)
    · rw [e']; exact L.next_mono _ _ h1
  · intro n hn; have := h.ctimeLe n hn; simp only; omega
  · intro x hx
    left
    have := h.ctimeLe x.1 (h.queued x (Or.inr (hsub x hx))).1
    simp only; omega
  · intro d hd
    rcases h.frontier d hd with hf | ⟨e, hf⟩ | hf
    · cases hf
    · rcases hf with hf | hf
      · exact Or.inr (Or.inl ⟨e, Or.inl hf⟩)
      · rw [hp] at hf
        rcases mem_cons.mp hf with heq | hf
        · left; rw [← heq]
        · exact Or.inr (Or.inl ⟨e, Or.inr hf⟩)
    · exact Or.inr (Or.inr hf)
  · intro c' hc'
    cases hc'
    refine ⟨hcc, hce, ?_, by simp⟩
    have := h.ctimeLe c.1 hcc; simp only; omega

theorem bump_open_inv (s : PF α) (c : QE α) (qs : List (QE α)) (hq : s.openQ = c :: qs)
    (htie : s.pitQ = [] ∨ ∃ p ps, s.pitQ = p :: ps ∧ o.lt c.2 p.2 = false ∧ o.lt p.2 c.2 = false)
    (h : UBInv o z nbrs seed mask none s) :
    UBInv o z nbrs seed mask (some c.1) (bump { s with openQ := qs } c true) := by
  have hcq : s.queued c := Or.inl (by rw [hq]; simp)
  obtain ⟨hcc, hce⟩ := h.queued c hcq
  have hsorted := h.openSorted; rw [hq] at hsorted
  have hfront : ∀ x, x ∈ qs → o.le c.2 x.2 = true := (pairwise_cons.mp hsorted).1
  have hsub : ∀ x, x ∈ qs → x ∈ s.openQ := fun x hx => by rw [hq]; exact mem_cons_of_mem _ hx
  unfold bump
  refine ⟨?_, h.unclosedZ, h.seedClosed, fun x hx => h.openZ x (hsub x hx), (pairwise_cons.mp hsorted).2,
    h.pitSorted, ?_, ?_, ?_, ?_, ?_, ?_, ?_, h.H, ?_, ?_⟩
  · intro x hx
    rcases hx with hx | hx
    · exact h.queued x (Or.inl (hsub x hx))
    · exact h.queued x (Or.inr hx)
  · intro hk0; simp at hk0
  · intro _ x hx
    rcases htie with hnil | ⟨p, ps, hp, h1, h2⟩
    · simp only at hx; rw [hnil] at hx; cases hx
    · -- tie: c.2 = p.2 = front of the pit queue
      have hk : 0 < s.k := by
        cases hk0 : s.k with
        | zero => have := h.pit0 hk0; rw [hp] at this; cases this
        | succ n => omega
      have hcp : c.2 = p.2 := L.antisymm _ _ h1 h2
      have hpv : p.2 = s.L ∨ p.2 = o.nextUp s.L := h.pitVals hk p (by rw [hp]; simp)
      have hps := h.pitSorted; rw [hp] at hps
      have hle : o.le p.2 x.2 = true := by
        simp only at hx; rw [hp] at hx
        rcases mem_cons.mp hx with rfl | hx
        · exact L.le_refl _
        · exact (pairwise_cons.mp hps).1 x hx
      show x.2 = c.2 ∨ x.2 = o.nextUp c.2
      rw [hcp]
      exact pit_vals_after o L s.L p.2 hpv x.2 (h.pitVals hk x hx) hle
  · intro _ x hx; simp only [if_true]; exact hfront x hx
  · intro _; simp only [if_true]; exact L.le_refl _
  · intro _; simp only [if_true]
    refine ⟨?_, Nat.le_refl _⟩
    simp only [Nat.sub_self, pw]; exact L.le_refl _
  · intro n hn; have := h.ctimeLe n hn; simp only; omega
  · intro x hx
    left
    have := h.ctimeLe x.1 (h.queued x (Or.inr hx)).1
    simp only; omega
  · intro d hd
    rcases h.frontier d hd with hf | ⟨e, hf⟩ | hf
    · cases hf
    · rcases hf with hf | hf
      · rw [hq] at hf
        rcases mem_cons.mp hf with heq | hf
        · left; rw [← heq]
        · exact Or.inr (Or.inl ⟨e, Or.inl hf⟩)
      · exact Or.inr (Or.inl ⟨e, Or.inr hf⟩)
    · exact Or.inr (Or.inr hf)
  · intro c' hc'
    cases hc'
    refine ⟨hcc, hce, ?_, by simp⟩
    have := h.ctimeLe c.1 hcc; simp only; omega

omit L in
theorem bump_L (s : PF α) (c : QE α) (fo : Bool) : (bump s c fo).L = c.2 := rfl

theorem step_inv (s s' : PF α) (h : UBInv o z nbrs seed mask none s)
    (hs : step o nbrs mask s = some s') : UBInv o z nbrs seed mask none s' := by
  unfold step at hs
  split at hs
  · cases hs
  · rename_i c fo s1 hpop
    cases hs
    have hb : UBInv o z nbrs seed mask (some c.1) (bump s1 c fo) := by
      rcases pop_cases o s c fo s1 hpop with ⟨rfl, qs, hq, rfl, htie⟩ | ⟨rfl, ps, hp, rfl⟩
      · exact bump_open_inv o L z nbrs seed mask s c qs hq htie h
      · exact bump_pit_inv o L z nbrs seed mask s c ps hp h
    obtain ⟨r1, _, r3⟩ := fold_inv o L z nbrs seed mask c.1 (nbrs c.1) (bump s1 c fo) (o.nextUp c.2)
      (by rw [bump_L]) hb
    refine ⟨r1.queued, r1.unclosedZ, r1.seedClosed, r1.openZ, r1.openSorted, r1.pitSorted, r1.pit0,
      r1.pitVals, r1.openLB, r1.chainLo, r1.chainHi, r1.ctimeLe, r1.pitTime, r1.H, ?_, ?_⟩
    · intro d hd
      rcases r1.frontier d hd with hf | hf | hf
      · cases hf; exact Or.inr (Or.inr r3)
      · exact Or.inr (Or.inl hf)
      · exact Or.inr (Or.inr hf)
    · intro c' hc'; cases hc'

theorem run_inv (fuel : Nat) (s : PF α) (h : UBInv o z nbrs seed mask none s) :
    UBInv o z nbrs seed mask none (run o nbrs mask fuel s) := by
  induction fuel generalizing s with
  | zero => exact h
  | succ f ih =>
    unfold run
    split
    · exact h
    · rename_i s' hs; exact ih s' (step_inv o L z nbrs seed mask s s' h hs)

/-- the state the flood starts from: seeds closed and waiting in the sorted open queue with
their own elevation, nothing else touched -/
theorem init_inv (s0 : PF α)
    (hel : s0.elev = z) (hcl : ∀ n, s0.closed n = seed n) (hpit : s0.pitQ = []) (hk : s0.k = 0)
    (hct : ∀ n, s0.ctime n = 0)
    (hopen : ∀ x, x ∈ s0.openQ ↔ (seed x.1 = true ∧ x.2 = z x.1)) (hsorted : SortedQ o s0.openQ) :
    UBInv o z nbrs seed mask none s0 := by
  refine ⟨?_, ?_, ?_, ?_, hsorted, by rw [hpit]; exact Pairwise.nil, fun _ => hpit, ?_, ?_, ?_, ?_, ?_, ?_, ?_, ?_, ?_⟩
  · intro x hx
    rcases hx with hx | hx
    · have := (hopen x).mp hx; rw [hcl, hel]; exact ⟨this.1, this.2.symm⟩
    · rw [hpit] at hx; cases hx
  · intro n _; rw [hel]
  · intro b hb; rw [hcl]; exact hb
  · intro x hx; exact ((hopen x).mp hx).2
  · intro h0; omega
  · intro h0; omega
  · intro h0; omega
  · intro h0; omega
  · intro n _; rw [hct]; omega
  · intro x hx; rw [hpit] at hx; cases hx
  · intro y hy p v hp hb
    rw [hel, hct]
    exact L.le_trans (hb y hp.end_mem) (le_pw L _ v)
  · intro c hc
    right; left
    rw [hcl] at hc
    exact ⟨z c, Or.inl ((hopen (c, z c)).mpr ⟨hc, rfl⟩)⟩
  · intro c hc; cases hc

/-- **C02, upper bound**: whatever unmasked neighbour path `p` leads from a base level to a
closed node `y`, and whatever `v` bounds the input elevation along it, the filled elevation of
`y` is at most `v` raised by (number of pops + 1) floating-point increments. With `v` the
maximum along the best path this is `f y ≤ (spill y)⁺⁽ᵏ⁺¹⁾`, and `k ≤ n`. -/
theorem pflood_upper (fuel : Nat) (s0 : PF α) (h0 : UBInv o z nbrs seed mask none s0)
    (y : Nat) (p : List Nat) (v : α) :
    let f := run o nbrs mask fuel s0
    f.closed y = true → Path nbrs seed mask p y → Bounded o z p v →
    o.le (f.elev y) (pw o (f.k + 1) v) = true := by
  intro f hy hp hb
  have hi := run_inv o L z nbrs seed mask fuel s0 h0
  have h1 := hi.H y hy p v hp hb
  have h2 := hi.ctimeLe y hy
  have h3 : (run o nbrs mask fuel s0).ctime y + 1 ≤ (run o nbrs mask fuel s0).k + 1 := by omega
  exact L.le_trans h1 (pw_mono_left L h3 v)

end
end Fs.UB
