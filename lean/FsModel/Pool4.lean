/-! Worker-pool protocol (`utils/impl/thread_pool_inl.hpp`), N arbitrary, extending `Fs.Pool3` with

* ghost execution counters (`execs i`: how often worker `i` has executed a block callback; `want i`:
  how often it had to, i.e. the number of `run_blocks` calls that have returned and whose block
  count exceeded `i`) and the theorem EXACTLY ONCE (`exactly_once`, `at_most_once_in_flight`);
* block counts: `runBlocks b` publishes a job only to the workers `i < b` (`p_jobs[i] = nullptr`
  for `i ≥ num_blocks`);
* `run_tasks`' implicit `resume()` (a `runBlocks` issued while paused first runs the resume protocol);
* `stop` (destructor) and `resize m`, worker exit on `m_stopped`;
* the invariant for the extended protocol, NO STUCK STATE for the extended programs, and TERMINATION:
  a lexicographic measure (caller measure, sum of worker ranks) that strictly decreases with every
  step of every thread, hence no infinite execution (spin loops are modelled as blocking, i.e. the
  statement is "terminates under every fair schedule").

Modelling decisions (all over-approximate the C++ behaviours):
* a worker that has not been started yet (`m_started = false`) is modelled as an `idle` worker:
  it is indistinguishable from a created thread that has not been scheduled yet; its `exit` step
  under `stop` is a stutter step of the model (`join` of an empty `m_workers` is immediate).
* worker main loop `while (!m_stopped) { if (m_has_job[i]) {...} }`: the two loads are separate,
  so at `idle` BOTH transitions are offered: `exit i` whenever `stopped` (whether or not the flag is
  set) and `work i` whenever the flag is set (whether or not `stopped`: the load of `m_stopped` may
  have happened before the store).
* `resize m` sets `m_size = m` BEFORE calling `stop()`.  The model keeps `N` until the reset; this is
  faithful only because `resize` is issued while not paused (`okProg`), in which case `stop()` does
  not read `m_size` (`resume()`/`wait()` are skipped and `join` iterates over `m_workers`).
  If `resize` were issued while paused, `stop() → resume() → wait() → was_empty()` would scan
  `m_has_job[0 .. m)` of the OLD vector (out-of-bounds read for `m > N`).
* `runBlocks b` with `b = 0` (empty index range: the C++ returns without touching the pool) goes
  through the same micro-steps with nothing published; harmless, `p_jobs` is only read by a worker
  whose flag is set.  `b > N` behaves like `b = N` (the C++ always has `num_blocks ≤ m_size`).
* compared with `Fs.Pool3`, the phase fact for `paWait` is strengthened (all workers idle, no flag:
  `run_blocks` has waited), `wOK` no longer depends on the job vector, and `busy` exempts `exited`.
* the reset at the end of `resize` (`m_stopped = false; m_workers.clear(); m_has_job = …;
  m_started = false`) is one atomic caller step: no other thread exists at that point (all joined). -/
set_option linter.unusedSimpArgs false

namespace Fs.Pool4

inductive WPc | idle | runBlock | pLock | pInc | pWaitEnter | pWaiting | pReacquire | pDec | clear | exited
deriving DecidableEq, Repr

inductive CPc
  | ready
  | rbSet (b : Nat) | rbPub (k b : Nat) | rbWait (b : Nat)
  | paWait | paSet | paPub (k : Nat) | paSetPaused | paSpin
  | reLock | reNotify | reUnlock | reClear | reWait
  | stSet | join
deriving DecidableEq, Repr

inductive Op | runBlocks (b : Nat) | pause | resume | stop | resize (m : Nat) deriving DecidableEq, Repr

/-- what the running `resume`/`stop` protocol was called from (the caller's "call stack") -/
inductive Ctx | top | inRun (b : Nat) | inStop | inResize (m : Nat) deriving DecidableEq, Repr

/-- scheduler choices: the caller, worker `i`'s protocol step, worker `i` leaving its main loop -/
inductive Tid | caller | work (i : Nat) | exit (i : Nat) deriving DecidableEq, Repr

structure S where
  N : Nat
  flags : Nat → Bool
  w : Nat → WPc
  notified : Nat → Bool
  count : Nat
  mutex : Option Nat          -- some i, i < N: worker i; some N: the caller
  pauseJobs : Bool            -- which job vector `p_jobs` points to
  paused : Bool
  stopped : Bool
  cpc : CPc
  ctx : Ctx
  ops : List Op
  execs : Nat → Nat           -- ghost: number of block callbacks executed by worker i
  want : Nat → Nat            -- ghost: number of returned `run_blocks` calls with a block for worker i

def upd {β} (f : Nat → β) (i : Nat) (v : β) : Nat → β := fun j => if j = i then v else f j
@[simp] theorem upd_same {β} (f : Nat → β) (i : Nat) (v : β) : upd f i v i = v := by simp [upd]
theorem upd_ne {β} (f : Nat → β) (i j : Nat) (v : β) (h : j ≠ i) : upd f i v j = f j := by simp [upd, h]

def stepW (s : S) (i : Nat) : Option S :=
  match s.w i with
  | .idle => if s.flags i then
      some { s with w := upd s.w i (if s.pauseJobs then .pLock else .runBlock) } else none
  | .runBlock => some { s with w := upd s.w i .clear, execs := upd s.execs i (s.execs i + 1) }
  | .pLock => if s.mutex.isNone then some { s with mutex := some i, w := upd s.w i .pInc } else none
  | .pInc => some { s with count := s.count + 1, w := upd s.w i .pWaitEnter }
  | .pWaitEnter => some { s with mutex := none, notified := upd s.notified i false, w := upd s.w i .pWaiting }
  | .pWaiting => if s.notified i then some { s with w := upd s.w i .pReacquire } else none
  | .pReacquire => if s.mutex.isNone then some { s with mutex := some i, w := upd s.w i .pDec } else none
  | .pDec => some { s with count := s.count - 1, mutex := none, w := upd s.w i .clear }
  | .clear => some { s with flags := upd s.flags i false, w := upd s.w i .idle }
  | .exited => none

/-- worker `i` observes `m_stopped` at the head of its main loop and leaves it -/
def stepX (s : S) (i : Nat) : Option S :=
  if s.stopped = true ∧ s.w i = .idle then some { s with w := upd s.w i .exited } else none

def allFlagsClear (s : S) : Bool := (List.range s.N).all (fun i => !s.flags i)
def allExited (s : S) : Bool := (List.range s.N).all (fun i => s.w i == .exited)

/-- the first micro-step of an API call -/
def startOp (s : S) (r : List Op) : Op → S
  | .runBlocks b => if s.paused then { s with ops := r, cpc := .reLock, ctx := .inRun b }
                    else { s with ops := r, cpc := .rbSet b }
  | .pause => { s with ops := r, cpc := if s.paused then .ready else .paWait }
  | .resume => { s with ops := r, cpc := if s.paused then .reLock else .ready }
  | .stop => if s.stopped then { s with ops := r } else { s with ops := r, cpc := .stSet, ctx := .inStop }
  | .resize m => if m = s.N then { s with ops := r } else { s with ops := r, cpc := .stSet, ctx := .inResize m }

def stepC (s : S) : Option S :=
  match s.cpc with
  | .ready => match s.ops with
    | [] => none
    | op :: r => some (startOp s r op)
  | .rbSet b => some { s with pauseJobs := false, cpc := .rbPub 0 b }
  | .rbPub k b => if k < s.N then
        some { s with flags := if k < b then upd s.flags k true else s.flags, cpc := .rbPub (k + 1) b }
      else some { s with cpc := .rbWait b }
  | .rbWait b => if allFlagsClear s then
        some { s with cpc := .ready, want := fun i => s.want i + (if i < b ∧ i < s.N then 1 else 0) }
      else none
  | .paWait => if allFlagsClear s then some { s with cpc := .paSet } else none
  | .paSet => some { s with pauseJobs := true, cpc := .paPub 0 }
  | .paPub k => if k < s.N then some { s with flags := upd s.flags k true, cpc := .paPub (k + 1) }
                else some { s with cpc := .paSetPaused }
  | .paSetPaused => some { s with paused := true, cpc := .paSpin }
  | .paSpin => if s.count = s.N then some { s with cpc := .ready } else none
  | .reLock => if s.mutex.isNone then some { s with mutex := some s.N, cpc := .reNotify } else none
  | .reNotify => some { s with notified := fun i => s.notified i || (s.w i == .pWaiting), cpc := .reUnlock }
  | .reUnlock => some { s with mutex := none, cpc := .reClear }
  | .reClear => some { s with paused := false, cpc := .reWait }
  | .reWait => if allFlagsClear s then
        some (match s.ctx with
          | .top => { s with cpc := .ready }
          | .inRun b => { s with cpc := .rbSet b, ctx := .top }
          | _ => { s with cpc := .join })
      else none
  | .stSet => some { s with stopped := true, cpc := if s.paused then .reLock else .join }
  | .join => if allExited s then
        some (match s.ctx with
          | .inResize m => { s with N := m, flags := fun _ => false, w := fun _ => .idle,
                                    notified := fun _ => false, stopped := false, cpc := .ready, ctx := .top }
          | _ => { s with cpc := .ready, ctx := .top })
      else none

def step (s : S) : Tid → Option S
  | .caller => stepC s
  | .work i => if i < s.N then stepW s i else none
  | .exit i => if i < s.N then stepX s i else none

def finished (s : S) : Prop := s.cpc = .ready ∧ s.ops = []

/-- programs the library issues (first argument: paused, second: stopped): nothing but `stop`
after `stop`; `resize` only while not paused.  `runBlocks` is allowed while paused (implicit resume). -/
def okProg : Bool → Bool → List Op → Bool
  | _, _, [] => true
  | _, st, .runBlocks _ :: r => !st && okProg false false r
  | _, st, .pause :: r => !st && okProg true false r
  | _, st, .resume :: r => !st && okProg false false r
  | p, st, .resize _ :: r => !p && !st && okProg false false r
  | _, _, .stop :: r => okProg false true r

def Ctx.isTop : Ctx → Bool | .top => true | _ => false
def Ctx.stopping : Ctx → Bool | .inStop | .inResize _ => true | _ => false
def Ctx.isResize : Ctx → Bool | .inResize _ => true | _ => false
def Ctx.isStop : Ctx → Bool | .inStop => true | _ => false

/-- value of `m_paused` once the current API call has returned -/
def pausedAfter (s : S) : Bool :=
  match s.cpc with
  | .ready => s.paused
  | .paWait | .paSet | .paPub _ | .paSetPaused | .paSpin => true
  | _ => false

/-- value of `m_stopped` once the current API call has returned -/
def stoppedAfter (s : S) : Bool :=
  match s.cpc with
  | .ready => s.stopped
  | _ => s.ctx.isStop

/-- which worker states hold the mutex -/
def holds : WPc → Bool
  | .pInc | .pWaitEnter | .pDec => true
  | _ => false
/-- which worker states are counted in `m_paused_count` -/
def counted : WPc → Bool
  | .pWaitEnter | .pWaiting | .pReacquire | .pDec => true
  | _ => false
def inBlock : WPc → Bool
  | .idle | .runBlock | .clear => true
  | _ => false
def pausing : WPc → Bool
  | .idle | .pLock | .pInc | .pWaitEnter | .pWaiting => true
  | _ => false
def resuming : WPc → Bool
  | .pWaiting | .pReacquire | .pDec | .clear | .idle => true
  | _ => false

/-- per-worker phase fact: caller pc, `m_paused`, `m_stopped`, worker index, worker pc,
its flag, its pending notification -/
def wOK (c : CPc) (p st : Bool) (i : Nat) (w : WPc) (f nt : Bool) : Bool :=
  match c with
  | .ready => if st then w == .exited && !f
              else if p then (w == .pWaitEnter || w == .pWaiting) && (w == .pWaiting → !nt) && f
              else w == .idle && !f
  | .stSet => if p then (w == .pWaitEnter || w == .pWaiting) && (w == .pWaiting → !nt) && f
              else w == .idle && !f
  | .rbSet _ | .paWait | .paSet => w == .idle && !f
  | .rbPub k b => inBlock w && ((decide (k ≤ i) || decide (b ≤ i)) → (w == .idle && !f))
  | .rbWait b => inBlock w && (decide (b ≤ i) → (w == .idle && !f))
  | .paPub k => pausing w && (w == .pWaiting → !nt) && (decide (k ≤ i) → !f) && (decide (i < k) → f)
  | .paSetPaused | .paSpin => pausing w && (w == .pWaiting → !nt) && f
  | .reLock => (w == .pWaitEnter || w == .pWaiting) && (w == .pWaiting → !nt) && f
  | .reNotify => w == .pWaiting && !nt && f
  | .reUnlock => ((w == .pWaiting && nt) || w == .pReacquire) && f
  | .reClear | .reWait => (resuming w || (st && w == .exited)) && (w == .pWaiting → nt)
                          && ((w == .idle || w == .exited) → !f)
  | .join => (w == .idle || w == .exited) && !f

/-- global phase fact -/
def gOK (c : CPc) (p pj st : Bool) (x : Ctx) (n : Nat) : Bool :=
  match c with
  | .ready => (!p || pj) && x.isTop && (!st || !p)
  | .rbSet _ | .paWait | .paSet => !p && !st && x.isTop
  | .rbPub k _ => !p && !pj && !st && x.isTop && decide (k ≤ n)
  | .rbWait _ => !p && !pj && !st && x.isTop
  | .paPub k => !p && pj && !st && x.isTop && decide (k ≤ n)
  | .paSetPaused => !p && pj && !st && x.isTop
  | .paSpin => p && pj && !st && x.isTop
  | .stSet => !st && x.stopping && (!p || pj) && (!x.isResize || !p)
  | .reLock | .reNotify | .reUnlock => p && pj && (st == x.stopping) && !x.isResize
  | .reClear => pj && (st == x.stopping) && !x.isResize
  | .reWait => !p && pj && (st == x.stopping) && !x.isResize
  | .join => !p && st && x.stopping

/-- has worker `i` already executed its block of the `run_blocks` call in flight? -/
def doneB (c : CPc) (i : Nat) (w : WPc) (f : Bool) : Bool :=
  match c with
  | .rbPub k b => w == .clear || (w == .idle && !f && decide (i < k) && decide (i < b))
  | .rbWait b => w == .clear || (w == .idle && !f && decide (i < b))
  | _ => false

structure Inv (s : S) : Prop where
  mutexW : ∀ i, i < s.N → (s.mutex = some i ↔ holds (s.w i) = true)
  mutexC : s.mutex = some s.N ↔ (s.cpc = .reNotify ∨ s.cpc = .reUnlock)
  mutexR : ∀ j, s.mutex = some j → j ≤ s.N
  cnt : s.count = (List.range s.N).countP (fun i => counted (s.w i))
  busy : ∀ i, i < s.N → s.w i ≠ .idle → s.w i ≠ .exited → s.flags i = true
  prog : okProg (pausedAfter s) (stoppedAfter s) s.ops = true
  glob : gOK s.cpc s.paused s.pauseJobs s.stopped s.ctx s.N = true
  work : ∀ i, i < s.N → wOK s.cpc s.paused s.stopped i (s.w i) (s.flags i) (s.notified i) = true
  ghost : ∀ i, s.execs i = s.want i + (if (decide (i < s.N) && doneB s.cpc i (s.w i) (s.flags i)) = true then 1 else 0)

/-! ### preservation by worker steps -/

/-- per-worker phase fact is preserved by each worker transition (finite case analysis) -/
theorem wOK_idle_run (c p st x i nt n) (hg : gOK c p false st x n = true) (h : wOK c p st i .idle true nt = true) :
    wOK c p st i .runBlock true nt = true := by
  cases c <;> cases p <;> cases st <;> cases nt <;> simp_all [wOK, gOK, inBlock, pausing, resuming]
theorem wOK_idle_lock (c p st x i nt n) (hg : gOK c p true st x n = true) (h : wOK c p st i .idle true nt = true) :
    wOK c p st i .pLock true nt = true := by
  cases c <;> cases p <;> cases st <;> cases nt <;> simp_all [wOK, gOK, inBlock, pausing, resuming]
theorem wOK_run_clear (c p st i f nt) (h : wOK c p st i .runBlock f nt = true) : wOK c p st i .clear f nt = true := by
  cases c <;> cases p <;> cases st <;> cases f <;> cases nt <;> simp_all [wOK, inBlock, pausing, resuming]
theorem wOK_lock_inc (c p st i f nt) (h : wOK c p st i .pLock f nt = true) : wOK c p st i .pInc f nt = true := by
  cases c <;> cases p <;> cases st <;> cases f <;> cases nt <;> simp_all [wOK, inBlock, pausing, resuming]
theorem wOK_inc_we (c p st i f nt) (h : wOK c p st i .pInc f nt = true) : wOK c p st i .pWaitEnter f nt = true := by
  cases c <;> cases p <;> cases st <;> cases f <;> cases nt <;> simp_all [wOK, inBlock, pausing, resuming]
theorem wOK_we_wait (c p st i f nt) (h : wOK c p st i .pWaitEnter f nt = true) : wOK c p st i .pWaiting f false = true := by
  cases c <;> cases p <;> cases st <;> cases f <;> cases nt <;> simp_all [wOK, inBlock, pausing, resuming]
theorem wOK_wait_re (c p st i f) (h : wOK c p st i .pWaiting f true = true) : wOK c p st i .pReacquire f true = true := by
  cases c <;> cases p <;> cases st <;> cases f <;> simp_all [wOK, inBlock, pausing, resuming]
theorem wOK_re_dec (c p st i f nt) (hc : c ≠ .reUnlock) (h : wOK c p st i .pReacquire f nt = true) : wOK c p st i .pDec f nt = true := by
  cases c <;> cases p <;> cases st <;> cases f <;> cases nt <;> simp_all [wOK, inBlock, pausing, resuming]
theorem wOK_dec_clear (c p st i f nt) (h : wOK c p st i .pDec f nt = true) : wOK c p st i .clear f nt = true := by
  cases c <;> cases p <;> cases st <;> cases f <;> cases nt <;> simp_all [wOK, inBlock, pausing, resuming]
theorem wOK_clear_idle (c p st i nt) (h : wOK c p st i .clear true nt = true) : wOK c p st i .idle false nt = true := by
  cases c <;> cases p <;> cases st <;> cases nt <;> simp_all [wOK, inBlock, pausing, resuming]
theorem wOK_idle_exit (c p pj x i f nt n) (hg : gOK c p pj true x n = true) (h : wOK c p true i .idle f nt = true) :
    wOK c p true i .exited f nt = true := by
  cases c <;> cases p <;> cases f <;> cases nt <;> simp_all [wOK, gOK, inBlock, pausing, resuming]

/-! ghost bookkeeping: which worker transitions change "has executed its block" -/
theorem doneB_of_ne (c i w f) (h1 : w ≠ .clear) (h2 : w ≠ .idle) : doneB c i w f = false := by
  cases c <;> simp [doneB, h1, h2]
theorem doneB_idle_set (c i) : doneB c i .idle true = false := by
  cases c <;> simp [doneB]
theorem doneB_run_clear (c p st i f nt) (h : wOK c p st i .runBlock f nt = true) : doneB c i .clear f = true := by
  cases c <;> cases p <;> cases st <;> simp_all [wOK, doneB, inBlock, pausing, resuming]
theorem doneB_dec_clear (c p st i f nt) (h : wOK c p st i .pDec f nt = true) : doneB c i .clear f = false := by
  cases c <;> cases p <;> cases st <;> simp_all [wOK, doneB, inBlock, pausing, resuming]
theorem doneB_clear_idle (c p st i f nt) (h : wOK c p st i .clear f nt = true) :
    doneB c i .idle false = doneB c i .clear f := by
  cases c <;> cases p <;> cases st <;> simp_all [wOK, doneB, inBlock, pausing, resuming] <;> omega
theorem doneB_stopped (c p pj x n i w f) (hg : gOK c p pj true x n = true) : doneB c i w f = false := by
  cases c <;> simp_all [gOK, doneB]

theorem countP_upd (n : Nat) (c : WPc → Bool) (w : Nat → WPc) (i : Nat) (v : WPc) (hi : i < n) :
    (List.range n).countP (fun j => c (upd w i v j)) + (if c (w i) then 1 else 0)
      = (List.range n).countP (fun j => c (w j)) + (if c v then 1 else 0) := by
  induction n with
  | zero => omega
  | succ m ih =>
    rw [List.range_succ, List.countP_append, List.countP_append]
    simp only [List.countP_cons, List.countP_nil, Nat.zero_add]
    by_cases him : i = m
    · subst him
      have : (List.range i).countP (fun j => c (upd w i v j)) = (List.range i).countP (fun j => c (w j)) := by
        apply List.countP_congr
        intro j hj
        have : j ≠ i := by have := List.mem_range.mp hj; omega
        simp [upd_ne _ _ _ _ this]
      rw [this, upd_same]
      cases c (w i) <;> cases c v <;> simp <;> omega
    · have hlt : i < m := by omega
      have := ih hlt
      have hm : upd w i v m = w m := upd_ne _ _ _ _ (by omega)
      rw [hm]
      cases c (w m) <;> simp <;> omega

theorem Inv.no_holder {s : S} (inv : Inv s) (hm : s.mutex = none) : ∀ j, j < s.N → holds (s.w j) = false := by
  intro j hj
  cases hh : holds (s.w j)
  · rfl
  · have := (inv.mutexW j hj).mpr hh; rw [hm] at this; cases this

theorem Inv.other_not_holder {s : S} (inv : Inv s) {i : Nat} (hm : s.mutex = some i) :
    ∀ j, j < s.N → j ≠ i → holds (s.w j) = false := by
  intro j hj hne
  cases hh : holds (s.w j)
  · rfl
  · have := (inv.mutexW j hj).mpr hh; rw [hm] at this; cases this; exact absurd rfl hne

/-- mutex facts after a worker step that neither takes nor releases the mutex -/
theorem mutex_keep {s : S} (inv : Inv s) (i : Nat) (w' : WPc) (hh : holds w' = holds (s.w i)) :
    ∀ j, j < s.N → (s.mutex = some j ↔ holds (upd s.w i w' j) = true) := by
  intro j hj; by_cases hji : j = i
  · subst hji; rw [upd_same, hh]; exact inv.mutexW j hj
  · rw [upd_ne _ _ _ _ hji]; exact inv.mutexW j hj

/-- mutex facts after worker `i` has taken the free mutex -/
theorem mutex_acq {s : S} (inv : Inv s) (i : Nat) (hi : i < s.N) (w' : WPc) (hm : s.mutex = none)
    (hh : holds w' = true) :
    (∀ j, j < s.N → ((some i : Option Nat) = some j ↔ holds (upd s.w i w' j) = true)) ∧
    ((some i : Option Nat) = some s.N ↔ (s.cpc = .reNotify ∨ s.cpc = .reUnlock)) ∧
    (∀ j, (some i : Option Nat) = some j → j ≤ s.N) := by
  refine ⟨?_, ?_, ?_⟩
  · intro j hj; by_cases hji : j = i
    · subst hji; simp [hh]
    · have := inv.no_holder hm j hj
      simp [upd_ne _ _ _ _ hji, this]; exact fun e => hji e.symm
  · constructor
    · intro e; simp at e; omega
    · intro hc; have := inv.mutexC.mpr hc; rw [hm] at this; cases this
  · intro j e; simp at e; omega

/-- mutex facts after worker `i` has released the mutex -/
theorem mutex_rel {s : S} (inv : Inv s) (i : Nat) (hi : i < s.N) (w' : WPc) (hmi : s.mutex = some i)
    (hh : holds w' = false) :
    (∀ j, j < s.N → ((none : Option Nat) = some j ↔ holds (upd s.w i w' j) = true)) ∧
    ((none : Option Nat) = some s.N ↔ (s.cpc = .reNotify ∨ s.cpc = .reUnlock)) ∧
    (∀ j, (none : Option Nat) = some j → j ≤ s.N) := by
  refine ⟨?_, ?_, ?_⟩
  · intro j hj; by_cases hji : j = i
    · subst hji; simp [hh]
    · have := inv.other_not_holder hmi j hj hji
      simp [upd_ne _ _ _ _ hji, this]
  · constructor
    · intro e; cases e
    · intro hc; have := inv.mutexC.mpr hc; rw [hmi] at this; simp at this; omega
  · intro j e; cases e

/-- generic re-establishment of the invariant after worker `i` moved -/
theorem inv_worker (s s' : S) (inv : Inv s) (i : Nat) (hi : i < s.N)
    (hN : s'.N = s.N) (hcpc : s'.cpc = s.cpc) (hops : s'.ops = s.ops) (hp : s'.paused = s.paused)
    (hpj : s'.pauseJobs = s.pauseJobs) (hst : s'.stopped = s.stopped) (hctx : s'.ctx = s.ctx)
    (hwant : s'.want = s.want)
    (hwo : ∀ j, j ≠ i → s'.w j = s.w j) (hfo : ∀ j, j ≠ i → s'.flags j = s.flags j)
    (hno : ∀ j, j ≠ i → s'.notified j = s.notified j) (heo : ∀ j, j ≠ i → s'.execs j = s.execs j)
    (hwi : wOK s.cpc s.paused s.stopped i (s'.w i) (s'.flags i) (s'.notified i) = true)
    (hmW : ∀ j, j < s.N → (s'.mutex = some j ↔ holds (s'.w j) = true))
    (hmC : s'.mutex = some s.N ↔ (s.cpc = .reNotify ∨ s.cpc = .reUnlock))
    (hmR : ∀ j, s'.mutex = some j → j ≤ s.N)
    (hcnt : s'.count + (if counted (s.w i) then 1 else 0) = s.count + (if counted (s'.w i) then 1 else 0))
    (hbusy : s'.w i ≠ .idle → s'.w i ≠ .exited → s'.flags i = true)
    (hgh : s'.execs i = s.want i + (if doneB s.cpc i (s'.w i) (s'.flags i) = true then 1 else 0)) : Inv s' := by
  have hw' : s'.w = upd s.w i (s'.w i) := by
    funext j; by_cases h : j = i
    · subst h; simp
    · rw [upd_ne _ _ _ _ h]; exact hwo j h
  refine ⟨?_, ?_, ?_, ?_, ?_, ?_, ?_, ?_, ?_⟩
  · rw [hN]; exact hmW
  · rw [hN, hcpc]; exact hmC
  · rw [hN]; exact hmR
  · rw [hN]
    have := countP_upd s.N counted s.w i (s'.w i) hi
    rw [← hw'] at this
    have h2 := inv.cnt
    omega
  · rw [hN]; intro j hj hne hne2
    by_cases h : j = i
    · subst h; exact hbusy hne hne2
    · rw [hfo j h]; rw [hwo j h] at hne hne2; exact inv.busy j hj hne hne2
  · have h1 : pausedAfter s' = pausedAfter s := by simp [pausedAfter, hcpc, hp]
    have h2 : stoppedAfter s' = stoppedAfter s := by simp [stoppedAfter, hcpc, hst, hctx]
    rw [h1, h2, hops]; exact inv.prog
  · rw [hcpc, hp, hpj, hst, hctx, hN]; exact inv.glob
  · rw [hN, hcpc, hp, hst]; intro j hj
    by_cases h : j = i
    · subst h; exact hwi
    · rw [hwo j h, hfo j h, hno j h]; exact inv.work j hj
  · intro j
    rw [hN, hcpc, hwant]
    by_cases h : j = i
    · subst h; rw [hgh]; simp [hi]
    · rw [hwo j h, hfo j h, heo j h]; exact inv.ghost j

/-- closes the frame conditions of `inv_worker` -/
macro "frame" : tactic =>
  `(tactic| first | (intro _ _; rfl) | (intro j hj; simp [upd_ne _ _ _ _ hj]))

theorem Inv.ghost_plain {s : S} (inv : Inv s) (i : Nat) (h : doneB s.cpc i (s.w i) (s.flags i) = false) :
    s.execs i = s.want i := by
  have := inv.ghost i; rw [h] at this; simpa using this

theorem inv_stepW (s s' : S) (inv : Inv s) (i : Nat) (hi : i < s.N) (h : stepW s i = some s') : Inv s' := by
  have hwork := inv.work i hi
  have hgho := inv.ghost i
  simp only [hi, decide_true, Bool.true_and] at hgho
  unfold stepW at h
  cases hw : s.w i <;> rw [hw] at h hwork hgho <;> simp only [] at h
  · -- idle: take the published job
    split at h
    · rename_i hf
      cases h
      rw [hf] at hwork hgho
      rw [doneB_idle_set] at hgho
      cases hpj : s.pauseJobs
      · have hg := inv.glob; rw [hpj] at hg
        refine inv_worker s _ inv i hi rfl rfl rfl rfl hpj.symm rfl rfl rfl (by frame) (by frame) (by frame) (by frame)
          ?_ (mutex_keep inv i _ (by simp [hw, holds])) inv.mutexC inv.mutexR ?_ ?_ ?_
        · simpa [hf] using wOK_idle_run _ _ _ _ _ _ _ hg hwork
        · simp [hw, counted]
        · intro _ _; simpa using hf
        · simp only [upd_same, Bool.false_eq_true, if_false]
          rw [doneB_of_ne _ _ _ _ (by simp) (by simp)]; simpa using hgho
      · have hg := inv.glob; rw [hpj] at hg
        refine inv_worker s _ inv i hi rfl rfl rfl rfl hpj.symm rfl rfl rfl (by frame) (by frame) (by frame) (by frame)
          ?_ (mutex_keep inv i _ (by simp [hw, holds])) inv.mutexC inv.mutexR ?_ ?_ ?_
        · simpa [hf] using wOK_idle_lock _ _ _ _ _ _ _ hg hwork
        · simp [hw, counted]
        · intro _ _; simpa using hf
        · simp only [upd_same, if_true]
          rw [doneB_of_ne _ _ _ _ (by simp) (by simp)]; simpa using hgho
    · cases h
  · -- runBlock -> clear: the callback has been executed
    cases h
    rw [doneB_of_ne _ _ _ _ (by simp) (by simp)] at hgho
    refine inv_worker s _ inv i hi rfl rfl rfl rfl rfl rfl rfl rfl (by frame) (by frame) (by frame) (by frame)
      ?_ (mutex_keep inv i _ (by simp [hw, holds])) inv.mutexC inv.mutexR ?_ ?_ ?_
    · simpa using wOK_run_clear _ _ _ _ _ _ hwork
    · simp [hw, counted]
    · intro _ _; exact inv.busy i hi (by simp [hw]) (by simp [hw])
    · simp only [upd_same]
      rw [doneB_run_clear _ _ _ _ _ _ hwork]; simp at hgho ⊢; omega
  · -- pLock -> pInc (needs the mutex)
    split at h
    · rename_i hm
      have hm' : s.mutex = none := by simpa using hm
      cases h
      rw [doneB_of_ne _ _ _ _ (by simp) (by simp)] at hgho
      have hmx := mutex_acq inv i hi .pInc hm' rfl
      refine inv_worker s _ inv i hi rfl rfl rfl rfl rfl rfl rfl rfl (by frame) (by frame) (by frame) (by frame)
        ?_ hmx.1 hmx.2.1 hmx.2.2 ?_ ?_ ?_
      · simpa using wOK_lock_inc _ _ _ _ _ _ hwork
      · simp [hw, counted]
      · intro _ _; exact inv.busy i hi (by simp [hw]) (by simp [hw])
      · simp only [upd_same]
        rw [doneB_of_ne _ _ _ _ (by simp) (by simp)]; simpa using hgho
    · cases h
  · -- pInc -> pWaitEnter, ++count
    cases h
    rw [doneB_of_ne _ _ _ _ (by simp) (by simp)] at hgho
    refine inv_worker s _ inv i hi rfl rfl rfl rfl rfl rfl rfl rfl (by frame) (by frame) (by frame) (by frame)
      ?_ (mutex_keep inv i _ (by simp [hw, holds])) inv.mutexC inv.mutexR ?_ ?_ ?_
    · simpa using wOK_inc_we _ _ _ _ _ _ hwork
    · simp [hw, counted]
    · intro _ _; exact inv.busy i hi (by simp [hw]) (by simp [hw])
    · simp only [upd_same]
      rw [doneB_of_ne _ _ _ _ (by simp) (by simp)]; simpa using hgho
  · -- pWaitEnter -> pWaiting, releases the mutex, clears the pending notification
    cases h
    rw [doneB_of_ne _ _ _ _ (by simp) (by simp)] at hgho
    have hmi : s.mutex = some i := (inv.mutexW i hi).mpr (by simp [hw, holds])
    have hmx := mutex_rel inv i hi .pWaiting hmi rfl
    refine inv_worker s _ inv i hi rfl rfl rfl rfl rfl rfl rfl rfl (by frame) (by frame) (by frame) (by frame)
      ?_ hmx.1 hmx.2.1 hmx.2.2 ?_ ?_ ?_
    · simpa using wOK_we_wait _ _ _ _ _ _ hwork
    · simp [hw, counted]
    · intro _ _; exact inv.busy i hi (by simp [hw]) (by simp [hw])
    · simp only [upd_same]
      rw [doneB_of_ne _ _ _ _ (by simp) (by simp)]; simpa using hgho
  · -- pWaiting -> pReacquire (notified)
    split at h
    · rename_i hn
      cases h
      rw [hn] at hwork
      rw [doneB_of_ne _ _ _ _ (by simp) (by simp)] at hgho
      refine inv_worker s _ inv i hi rfl rfl rfl rfl rfl rfl rfl rfl (by frame) (by frame) (by frame) (by frame)
        ?_ (mutex_keep inv i _ (by simp [hw, holds])) inv.mutexC inv.mutexR ?_ ?_ ?_
      · simpa [hn] using wOK_wait_re _ _ _ _ _ hwork
      · simp [hw, counted]
      · intro _ _; exact inv.busy i hi (by simp [hw]) (by simp [hw])
      · simp only [upd_same]
        rw [doneB_of_ne _ _ _ _ (by simp) (by simp)]; simpa using hgho
    · cases h
  · -- pReacquire -> pDec (needs the mutex)
    split at h
    · rename_i hm
      have hm' : s.mutex = none := by simpa using hm
      cases h
      rw [doneB_of_ne _ _ _ _ (by simp) (by simp)] at hgho
      have hcu : s.cpc ≠ .reUnlock := by
        intro hc; have := inv.mutexC.mpr (Or.inr hc); rw [hm'] at this; cases this
      have hmx := mutex_acq inv i hi .pDec hm' rfl
      refine inv_worker s _ inv i hi rfl rfl rfl rfl rfl rfl rfl rfl (by frame) (by frame) (by frame) (by frame)
        ?_ hmx.1 hmx.2.1 hmx.2.2 ?_ ?_ ?_
      · simpa using wOK_re_dec _ _ _ _ _ _ hcu hwork
      · simp [hw, counted]
      · intro _ _; exact inv.busy i hi (by simp [hw]) (by simp [hw])
      · simp only [upd_same]
        rw [doneB_of_ne _ _ _ _ (by simp) (by simp)]; simpa using hgho
    · cases h
  · -- pDec -> clear, --count, releases the mutex
    cases h
    rw [doneB_of_ne _ _ _ _ (by simp) (by simp)] at hgho
    have hmi : s.mutex = some i := (inv.mutexW i hi).mpr (by simp [hw, holds])
    have hpos : 0 < s.count := by
      rw [inv.cnt]
      apply List.countP_pos_iff.mpr
      exact ⟨i, List.mem_range.mpr hi, by simp [hw, counted]⟩
    have hmx := mutex_rel inv i hi .clear hmi rfl
    refine inv_worker s _ inv i hi rfl rfl rfl rfl rfl rfl rfl rfl (by frame) (by frame) (by frame) (by frame)
      ?_ hmx.1 hmx.2.1 hmx.2.2 ?_ ?_ ?_
    · simpa using wOK_dec_clear _ _ _ _ _ _ hwork
    · simp [hw, counted]; omega
    · intro _ _; exact inv.busy i hi (by simp [hw]) (by simp [hw])
    · simp only [upd_same]
      rw [doneB_dec_clear _ _ _ _ _ _ hwork]; simpa using hgho
  · -- clear -> idle, flag := 0
    cases h
    have hf : s.flags i = true := inv.busy i hi (by simp [hw]) (by simp [hw])
    rw [hf] at hwork hgho
    refine inv_worker s _ inv i hi rfl rfl rfl rfl rfl rfl rfl rfl (by frame) (by frame) (by frame) (by frame)
      ?_ (mutex_keep inv i _ (by simp [hw, holds])) inv.mutexC inv.mutexR ?_ ?_ ?_
    · simpa using wOK_clear_idle _ _ _ _ _ hwork
    · simp [hw, counted]
    · intro hne; simp at hne
    · simp only [upd_same]
      rw [doneB_clear_idle _ _ _ _ _ _ hwork]; exact hgho
  · -- exited: no step
    cases h

theorem inv_stepX (s s' : S) (inv : Inv s) (i : Nat) (hi : i < s.N) (h : stepX s i = some s') : Inv s' := by
  unfold stepX at h
  split at h
  · rename_i hc
    obtain ⟨hst, hw⟩ := hc
    cases h
    have hwork := inv.work i hi
    have hg := inv.glob
    rw [hst] at hg hwork
    rw [hw] at hwork
    have hgho := inv.ghost_plain i (doneB_stopped _ _ _ _ _ _ _ _ hg)
    refine inv_worker s _ inv i hi rfl rfl rfl rfl rfl rfl rfl rfl (by frame) (by frame) (by frame) (by frame)
      ?_ (mutex_keep inv i _ (by simp [hw, holds])) inv.mutexC inv.mutexR ?_ ?_ ?_
    · simpa [hst] using wOK_idle_exit _ _ _ _ _ _ _ _ hg hwork
    · simp [hw, counted]
    · intro _ hne; simp at hne
    · simp only [upd_same]
      rw [doneB_of_ne _ _ _ _ (by simp) (by simp)]; simpa using hgho
  · cases h

/-! ### preservation by caller steps -/

/-- generic re-establishment of the invariant after a caller micro-step (workers untouched) -/
theorem inv_caller (s s' : S) (inv : Inv s)
    (hN : s'.N = s.N) (hw : s'.w = s.w) (hcount : s'.count = s.count)
    (hmW : ∀ j, j < s.N → (s'.mutex = some j ↔ holds (s.w j) = true))
    (hmC : s'.mutex = some s.N ↔ (s'.cpc = .reNotify ∨ s'.cpc = .reUnlock))
    (hmR : ∀ j, s'.mutex = some j → j ≤ s.N)
    (hflags : ∀ j, j < s.N → s.flags j = true → s'.flags j = true)
    (hprog : okProg (pausedAfter s') (stoppedAfter s') s'.ops = true)
    (hglob : gOK s'.cpc s'.paused s'.pauseJobs s'.stopped s'.ctx s.N = true)
    (hwork : ∀ j, j < s.N → wOK s'.cpc s'.paused s'.stopped j (s.w j) (s'.flags j) (s'.notified j) = true)
    (hghost : ∀ j, s'.execs j = s'.want j +
      (if (decide (j < s.N) && doneB s'.cpc j (s.w j) (s'.flags j)) = true then 1 else 0)) :
    Inv s' := by
  refine ⟨?_, ?_, ?_, ?_, ?_, hprog, ?_, ?_, ?_⟩
  · rw [hN, hw]; exact hmW
  · rw [hN]; exact hmC
  · rw [hN]; exact hmR
  · rw [hN, hw, hcount]; exact inv.cnt
  · rw [hN, hw]; intro j hj hne hne2; exact hflags j hj (inv.busy j hj hne hne2)
  · rw [hN]; exact hglob
  · rw [hN, hw]; exact hwork
  · rw [hN, hw]; exact hghost

theorem Inv.mutexC_other {s : S} (inv : Inv s) (c' : CPc)
    (h1 : ¬(s.cpc = .reNotify ∨ s.cpc = .reUnlock)) (h2 : ¬(c' = .reNotify ∨ c' = .reUnlock)) :
    s.mutex = some s.N ↔ (c' = .reNotify ∨ c' = .reUnlock) :=
  ⟨fun e => absurd (inv.mutexC.mp e) h1, fun e => absurd e h2⟩

/-- the ghost fact carries over when "has executed its block" is unchanged for every worker -/
theorem Inv.ghost_to {s : S} (inv : Inv s) (c' : CPc) (fl : Nat → Bool)
    (h : ∀ j, j < s.N → doneB c' j (s.w j) (fl j) = doneB s.cpc j (s.w j) (s.flags j)) :
    ∀ j, s.execs j = s.want j + (if (decide (j < s.N) && doneB c' j (s.w j) (fl j)) = true then 1 else 0) := by
  intro j
  by_cases hj : j < s.N
  · rw [h j hj]; exact inv.ghost j
  · have := inv.ghost j; simpa [hj] using this

theorem flags_clear (s : S) (h : allFlagsClear s = true) : ∀ j, j < s.N → s.flags j = false := by
  intro j hj
  unfold allFlagsClear at h
  rw [List.all_eq_true] at h
  simpa using h j (List.mem_range.mpr hj)

theorem exited_all (s : S) (h : allExited s = true) : ∀ j, j < s.N → s.w j = .exited := by
  intro j hj
  unfold allExited at h
  rw [List.all_eq_true] at h
  simpa using h j (List.mem_range.mpr hj)

theorem Inv.idle_of_clear {s : S} (inv : Inv s) (h : allFlagsClear s = true) :
    ∀ j, j < s.N → (s.w j = .idle ∨ s.w j = .exited) ∧ s.flags j = false := by
  intro j hj
  have hf := flags_clear s h j hj
  refine ⟨?_, hf⟩
  by_cases h1 : s.w j = .idle
  · exact Or.inl h1
  · by_cases h2 : s.w j = .exited
    · exact Or.inr h2
    · have := inv.busy j hj h1 h2; rw [hf] at this; cases this

theorem all_counted_of_count_eq {n : Nat} {p : Nat → Bool} (h : (List.range n).countP p = n) :
    ∀ i, i < n → p i = true := by
  intro i hi
  have : (List.range n).countP p = (List.range n).length := by simpa using h
  exact (List.countP_eq_length.mp this) i (List.mem_range.mpr hi)

-- per-worker phase transitions (finite case analyses)
theorem wOK_idle_rbPub0 (b p st i nt) : wOK (.rbPub 0 b) p st i .idle false nt = true := by simp [wOK, inBlock]
theorem wOK_idle_paPub0 (p st i nt) : wOK (.paPub 0) p st i .idle false nt = true := by simp [wOK, pausing]
theorem wOK_paSpin_ready (i w f nt) (hc : counted w = true) (h : wOK .paSpin true false i w f nt = true) :
    wOK .ready true false i w f nt = true := by
  cases w <;> cases f <;> cases nt <;> simp_all [wOK, pausing, counted]
theorem wOK_reLock_reNotify (p st i w f nt) (hh : holds w = false) (h : wOK .reLock p st i w f nt = true) :
    wOK .reNotify p st i w f nt = true := by
  cases w <;> cases f <;> cases nt <;> simp_all [wOK, holds]
theorem wOK_reNotify_reUnlock (p st i w f nt) (h : wOK .reNotify p st i w f nt = true) :
    wOK .reUnlock p st i w f (nt || (w == .pWaiting)) = true := by
  cases w <;> cases f <;> cases nt <;> simp_all [wOK]
theorem wOK_reUnlock_reClear (p st i w f nt) (h : wOK .reUnlock p st i w f nt = true) :
    wOK .reClear p st i w f nt = true := by
  cases w <;> cases f <;> cases nt <;> simp_all [wOK, resuming]
theorem wOK_reWait_idle (p st i w f nt) (h : wOK .reWait p st i w f nt = true) (hst : st = false)
    (hw : w = .idle ∨ w = .exited) : w = .idle := by
  subst hst
  rcases hw with hw | hw
  · exact hw
  · subst hw; simp [wOK, resuming] at h

theorem wOK_rbPub_set (k b p st j w f nt) (hkb : k < b) (h : wOK (.rbPub k b) p st j w f nt = true) :
    wOK (.rbPub (k + 1) b) p st j w (upd (fun _ => f) k true j) nt = true := by
  simp only [wOK, Bool.and_eq_true, Bool.or_eq_true, decide_eq_true_eq, Bool.decide_eq_true] at h ⊢
  refine ⟨h.1, ?_⟩
  have h2 := h.2
  intro hk
  have hjk : j ≠ k := by have := hkb; omega
  rw [upd_ne _ _ _ _ hjk]
  exact h2 (by omega)
theorem wOK_rbPub_skip (k b p st j w f nt) (h : wOK (.rbPub k b) p st j w f nt = true) :
    wOK (.rbPub (k + 1) b) p st j w f nt = true := by
  simp only [wOK, Bool.and_eq_true, Bool.or_eq_true, decide_eq_true_eq, Bool.decide_eq_true] at h ⊢
  refine ⟨h.1, ?_⟩
  have h2 := h.2
  intro hk
  exact h2 (by omega)
theorem wOK_rbPub_wait (k b p st j w f nt) (h : wOK (.rbPub k b) p st j w f nt = true) :
    wOK (.rbWait b) p st j w f nt = true := by
  simp only [wOK, Bool.and_eq_true, Bool.or_eq_true, decide_eq_true_eq, Bool.decide_eq_true] at h ⊢
  refine ⟨h.1, ?_⟩
  have h2 := h.2
  intro hk
  exact h2 (Or.inr hk)
theorem wOK_paPub_succ (k p st j w f nt) (h : wOK (.paPub k) p st j w f nt = true) :
    wOK (.paPub (k + 1)) p st j w (upd (fun _ => f) k true j) nt = true := by
  simp only [wOK, Bool.and_eq_true, decide_eq_true_eq] at h ⊢
  obtain ⟨⟨⟨h1, h2⟩, h3⟩, h4⟩ := h
  refine ⟨⟨⟨h1, h2⟩, ?_⟩, ?_⟩
  · intro hk
    have : j ≠ k := by omega
    simpa [upd, this] using h3 (by omega)
  · intro hk
    by_cases hjk : j = k
    · simp [upd, hjk]
    · simpa [upd, hjk] using h4 (by omega)
theorem wOK_paPub_done (k p st j w f nt) (hjk : j < k) (h : wOK (.paPub k) p st j w f nt = true) :
    wOK .paSetPaused p st j w f nt = true := by
  simp only [wOK, Bool.and_eq_true, decide_eq_true_eq] at h ⊢
  obtain ⟨⟨⟨h1, h2⟩, _⟩, h4⟩ := h
  exact ⟨⟨h1, h2⟩, h4 hjk⟩

-- ghost bookkeeping along the publication loop
theorem doneB_rbPub_set (k b p st j w f nt) (h : wOK (.rbPub k b) p st j w f nt = true) :
    doneB (.rbPub (k + 1) b) j w (upd (fun _ => f) k true j) = doneB (.rbPub k b) j w f := by
  simp only [wOK, Bool.and_eq_true, Bool.or_eq_true, decide_eq_true_eq, Bool.decide_eq_true] at h
  have h2 := h.2
  simp only [decide_eq_true_eq, Bool.and_eq_true, Bool.or_eq_true, beq_iff_eq, Bool.not_eq_true'] at h2
  by_cases hjk : j = k
  · subst hjk
    have := h2 (Or.inl (Nat.le_refl _))
    simp [doneB, this.1]
  · rw [upd_ne _ _ _ _ hjk]
    have : (j < k + 1) = (j < k) := by apply propext; omega
    simp [doneB, this]
theorem doneB_rbPub_skip (k b j w f) (hkb : ¬ k < b) :
    doneB (.rbPub (k + 1) b) j w f = doneB (.rbPub k b) j w f := by
  have : (j < k + 1 ∧ j < b) = (j < k ∧ j < b) := by apply propext; omega
  have h2 : (decide (j < k + 1) && decide (j < b)) = (decide (j < k) && decide (j < b)) := by
    rw [← Bool.decide_and, ← Bool.decide_and]; simp only [this]
  simp only [doneB, Bool.and_assoc, h2]
theorem doneB_rbPub_wait (k b j w f) (hjk : j < k) :
    doneB (.rbWait b) j w f = doneB (.rbPub k b) j w f := by
  simp [doneB, hjk]

/-- the first micro-step of every API call preserves the invariant -/
theorem inv_startOp (s : S) (inv : Inv s) (hc : s.cpc = .ready) (op : Op) (r : List Op) (ho : s.ops = op :: r) :
    Inv (startOp s r op) := by
  have hg := inv.glob
  have hwk := inv.work
  have hpr := inv.prog
  have hpa : pausedAfter s = s.paused := by simp [pausedAfter, hc]
  have hsa : stoppedAfter s = s.stopped := by simp [stoppedAfter, hc]
  rw [hpa, hsa, ho] at hpr
  rw [hc] at hg hwk
  have hnc : ¬(s.cpc = .reNotify ∨ s.cpc = .reUnlock) := by simp [hc]
  have hgh : ∀ c', (∀ j w f, doneB c' j w f = false) → ∀ j, s.execs j = s.want j +
      (if (decide (j < s.N) && doneB c' j (s.w j) (s.flags j)) = true then 1 else 0) := by
    intro c' h'
    exact inv.ghost_to c' s.flags (fun j _ => by rw [h', hc]; simp [doneB])
  simp only [gOK, Bool.and_eq_true, Bool.or_eq_true, Bool.not_eq_true'] at hg
  obtain ⟨⟨hg1, hg2⟩, hg3⟩ := hg
  cases op with
  | runBlocks b =>
    simp only [okProg, Bool.and_eq_true, Bool.not_eq_true'] at hpr
    obtain ⟨hst, hr⟩ := hpr
    cases hp : s.paused
    · simp only [startOp, hp, Bool.false_eq_true, if_false]
      refine inv_caller s _ inv rfl rfl rfl inv.mutexW (inv.mutexC_other _ hnc (by simp)) inv.mutexR
        (fun _ _ h => h) ?_ ?_ ?_ (hgh _ (by simp [doneB]))
      · simpa [pausedAfter, stoppedAfter, hg2, Ctx.isStop, Ctx.isTop] using (show okProg false s.ctx.isStop r = true by
          cases hx : s.ctx <;> simp_all [Ctx.isTop, Ctx.isStop])
      · simp [gOK, hp, hst, hg2]
      · intro j hj; have := hwk j hj; simp only [hp, hst] at this; simpa [wOK] using this
    · simp only [startOp, hp, if_true]
      have hpj : s.pauseJobs = true := by rcases hg1 with h | h <;> simp_all
      refine inv_caller s _ inv rfl rfl rfl inv.mutexW (inv.mutexC_other _ hnc (by simp)) inv.mutexR
        (fun _ _ h => h) ?_ ?_ ?_ (hgh _ (by simp [doneB]))
      · simpa [pausedAfter, stoppedAfter, Ctx.isStop] using hr
      · simp [gOK, hp, hst, hpj, Ctx.stopping, Ctx.isResize]
      · intro j hj; have := hwk j hj; simp only [hp, hst] at this; simpa [wOK] using this
  | pause =>
    simp only [okProg, Bool.and_eq_true, Bool.not_eq_true'] at hpr
    obtain ⟨hst, hr⟩ := hpr
    cases hp : s.paused
    · simp only [startOp, hp, Bool.false_eq_true, if_false]
      refine inv_caller s _ inv rfl rfl rfl inv.mutexW (inv.mutexC_other _ hnc (by simp)) inv.mutexR
        (fun _ _ h => h) ?_ ?_ ?_ (hgh _ (by simp [doneB]))
      · simpa [pausedAfter, stoppedAfter] using (show okProg true s.ctx.isStop r = true by
          cases hx : s.ctx <;> simp_all [Ctx.isTop, Ctx.isStop])
      · simp [gOK, hp, hst, hg2]
      · intro j hj; have := hwk j hj; simp only [hp, hst] at this; simpa [wOK] using this
    · simp only [startOp, hp, if_true]
      refine inv_caller s _ inv rfl rfl rfl inv.mutexW (inv.mutexC_other _ hnc (by simp)) inv.mutexR
        (fun _ _ h => h) ?_ ?_ ?_ (hgh _ (by simp [doneB]))
      · simpa [pausedAfter, stoppedAfter, hp, hst] using hr
      · simpa [hc, hp] using inv.glob
      · intro j hj; simpa [hc, hp] using inv.work j hj
  | resume =>
    simp only [okProg, Bool.and_eq_true, Bool.not_eq_true'] at hpr
    obtain ⟨hst, hr⟩ := hpr
    cases hp : s.paused
    · simp only [startOp, hp, Bool.false_eq_true, if_false]
      refine inv_caller s _ inv rfl rfl rfl inv.mutexW (inv.mutexC_other _ hnc (by simp)) inv.mutexR
        (fun _ _ h => h) ?_ ?_ ?_ (hgh _ (by simp [doneB]))
      · simpa [pausedAfter, stoppedAfter, hp, hst] using hr
      · simpa [hc, hp] using inv.glob
      · intro j hj; simpa [hc, hp] using inv.work j hj
    · simp only [startOp, hp, if_true]
      have hpj : s.pauseJobs = true := by rcases hg1 with h | h <;> simp_all
      have hx : s.ctx = .top := by cases hx : s.ctx <;> simp_all [Ctx.isTop]
      refine inv_caller s _ inv rfl rfl rfl inv.mutexW (inv.mutexC_other _ hnc (by simp)) inv.mutexR
        (fun _ _ h => h) ?_ ?_ ?_ (hgh _ (by simp [doneB]))
      · simpa [pausedAfter, stoppedAfter, hx, Ctx.isStop] using hr
      · simp [gOK, hp, hst, hpj, hx, Ctx.stopping, Ctx.isResize]
      · intro j hj; have := hwk j hj; simp only [hp, hst] at this; simpa [wOK] using this
  | stop =>
    simp only [okProg] at hpr
    cases hst : s.stopped
    · simp only [startOp, hst, Bool.false_eq_true, if_false]
      refine inv_caller s _ inv rfl rfl rfl inv.mutexW (inv.mutexC_other _ hnc (by simp)) inv.mutexR
        (fun _ _ h => h) ?_ ?_ ?_ (hgh _ (by simp [doneB]))
      · simpa [pausedAfter, stoppedAfter, Ctx.isStop] using hpr
      · rcases hg1 with h | h <;> simp [gOK, hst, h, Ctx.stopping, Ctx.isResize]
      · intro j hj; have := hwk j hj; simp only [hst] at this; simpa [wOK] using this
    · simp only [startOp, hst, if_true]
      have hp : s.paused = false := by rcases hg3 with h | h <;> simp_all
      refine inv_caller s _ inv rfl rfl rfl inv.mutexW (inv.mutexC_other _ hnc (by simp [hc])) inv.mutexR
        (fun _ _ h => h) ?_ ?_ ?_ ?_
      · simpa [pausedAfter, stoppedAfter, hc, hp, hst] using hpr
      · simpa [hst] using inv.glob
      · intro j hj; simpa [hst] using inv.work j hj
      · exact inv.ghost
  | resize m =>
    simp only [okProg, Bool.and_eq_true, Bool.not_eq_true'] at hpr
    obtain ⟨⟨hp, hst⟩, hr⟩ := hpr
    by_cases hm : m = s.N
    · simp only [startOp, hm, if_true]
      refine inv_caller s _ inv rfl rfl rfl inv.mutexW (inv.mutexC_other _ hnc (by simp [hc])) inv.mutexR
        (fun _ _ h => h) ?_ ?_ ?_ ?_
      · simpa [pausedAfter, stoppedAfter, hc, hp, hst] using hr
      · have := inv.glob; exact this
      · intro j hj; exact inv.work j hj
      · exact inv.ghost
    · simp only [startOp, hm, if_false]
      refine inv_caller s _ inv rfl rfl rfl inv.mutexW (inv.mutexC_other _ hnc (by simp)) inv.mutexR
        (fun _ _ h => h) ?_ ?_ ?_ (hgh _ (by simp [doneB]))
      · simpa [pausedAfter, stoppedAfter, Ctx.isStop] using hr
      · simp [gOK, hst, hp, Ctx.stopping, Ctx.isResize]
      · intro j hj; have := hwk j hj; simp only [hp, hst] at this; simpa [wOK, hp] using this

theorem inv_stepC (s s' : S) (inv : Inv s) (h : stepC s = some s') : Inv s' := by
  have hg := inv.glob
  have hwk := inv.work
  have hpr := inv.prog
  unfold stepC at h
  cases hc : s.cpc <;> rw [hc] at h hg hwk <;> simp only [] at h
  · -- ready: take the next API call
    cases ho : s.ops with
    | nil => rw [ho] at h; cases h
    | cons op r =>
      rw [ho] at h; cases h
      exact inv_startOp s inv hc op r ho
  · -- rbSet b
    rename_i b
    cases h
    refine inv_caller s _ inv rfl rfl rfl inv.mutexW (inv.mutexC_other _ (by simp [hc]) (by simp)) inv.mutexR
      (fun _ _ h => h) ?_ ?_ ?_ ?_
    · simpa [pausedAfter, stoppedAfter, hc] using hpr
    · simp only [gOK, Bool.and_eq_true, Bool.not_eq_true'] at hg
      simp [gOK, hg.1.1, hg.1.2, hg.2]
    · intro j hj; have := hwk j hj
      simp only [wOK, Bool.and_eq_true, beq_iff_eq, Bool.not_eq_true'] at this
      simp only []; rw [this.1, this.2]; exact wOK_idle_rbPub0 _ _ _ _ _
    · refine inv.ghost_to _ _ ?_
      intro j hj; have := hwk j hj
      simp only [wOK, Bool.and_eq_true, beq_iff_eq, Bool.not_eq_true'] at this
      rw [hc, this.1, this.2]; simp [doneB]
  · -- rbPub k b
    rename_i k b
    split at h
    · rename_i hk
      cases h
      by_cases hkb : k < b
      · simp only [hkb, if_true]
        refine inv_caller s _ inv rfl rfl rfl inv.mutexW (inv.mutexC_other _ (by simp [hc]) (by simp)) inv.mutexR
          ?_ ?_ ?_ ?_ ?_
        · intro j _ hf; simp only [upd]; split <;> simp [hf]
        · simpa [pausedAfter, stoppedAfter, hc] using hpr
        · simp only [gOK, Bool.and_eq_true, decide_eq_true_eq] at hg ⊢; exact ⟨hg.1, by omega⟩
        · intro j hj
          have := wOK_rbPub_set k b s.paused s.stopped j (s.w j) (s.flags j) (s.notified j) hkb (hwk j hj)
          simp only [upd] at this ⊢; split <;> simp_all
        · refine inv.ghost_to _ _ ?_
          intro j hj
          have := doneB_rbPub_set k b s.paused s.stopped j (s.w j) (s.flags j) (s.notified j) (hwk j hj)
          rw [hc, ← this]; simp only [upd]
      · simp only [hkb, if_false]
        refine inv_caller s _ inv rfl rfl rfl inv.mutexW (inv.mutexC_other _ (by simp [hc]) (by simp)) inv.mutexR
          (fun _ _ h => h) ?_ ?_ ?_ ?_
        · simpa [pausedAfter, stoppedAfter, hc] using hpr
        · simp only [gOK, Bool.and_eq_true, decide_eq_true_eq] at hg ⊢; exact ⟨hg.1, by omega⟩
        · intro j hj; exact wOK_rbPub_skip _ _ _ _ _ _ _ _ (hwk j hj)
        · refine inv.ghost_to _ _ ?_
          intro j hj; rw [hc]; exact doneB_rbPub_skip _ _ _ _ _ hkb
    · rename_i hk
      cases h
      have hkN : k = s.N := by
        simp only [gOK, Bool.and_eq_true, decide_eq_true_eq] at hg; omega
      refine inv_caller s _ inv rfl rfl rfl inv.mutexW (inv.mutexC_other _ (by simp [hc]) (by simp)) inv.mutexR
        (fun _ _ h => h) ?_ ?_ ?_ ?_
      · simpa [pausedAfter, stoppedAfter, hc] using hpr
      · simp only [gOK, Bool.and_eq_true] at hg ⊢; exact hg.1
      · intro j hj; exact wOK_rbPub_wait _ _ _ _ _ _ _ _ (hwk j hj)
      · refine inv.ghost_to _ _ ?_
        intro j hj; rw [hc]; exact doneB_rbPub_wait _ _ _ _ _ (by omega)
  · -- rbWait b: `run_blocks` returns
    rename_i b
    split at h
    · rename_i hcl
      cases h
      simp only [gOK, Bool.and_eq_true, Bool.not_eq_true'] at hg
      obtain ⟨⟨⟨hp, hpj⟩, hst⟩, hx⟩ := hg
      have hidle : ∀ j, j < s.N → s.w j = .idle ∧ s.flags j = false := by
        intro j hj
        have h1 := inv.idle_of_clear hcl j hj
        refine ⟨?_, h1.2⟩
        rcases h1.1 with h2 | h2
        · exact h2
        · have := hwk j hj; rw [h2] at this; simp [wOK, inBlock] at this
      refine inv_caller s _ inv rfl rfl rfl inv.mutexW (inv.mutexC_other _ (by simp [hc]) (by simp)) inv.mutexR
        (fun _ _ h => h) ?_ ?_ ?_ ?_
      · have hx' : s.ctx.isStop = false := by cases hxx : s.ctx <;> simp_all [Ctx.isTop, Ctx.isStop]
        simpa [pausedAfter, stoppedAfter, hc, hp, hst, hx'] using hpr
      · simp [gOK, hp, hst, hx]
      · intro j hj; have := hidle j hj
        simp [wOK, hp, hst, this.1, this.2]
      · intro j
        have hgj := inv.ghost j
        rw [hc] at hgj
        by_cases hj : j < s.N
        · have := hidle j hj
          rw [this.1, this.2] at hgj
          by_cases hjb : j < b <;> simp [doneB, hj, hjb] at hgj ⊢ <;> omega
        · simp [hj] at hgj ⊢; omega
    · cases h
  · -- paWait
    split at h
    · rename_i hcl
      cases h
      refine inv_caller s _ inv rfl rfl rfl inv.mutexW (inv.mutexC_other _ (by simp [hc]) (by simp)) inv.mutexR
        (fun _ _ h => h) ?_ ?_ ?_ ?_
      · simpa [pausedAfter, stoppedAfter, hc] using hpr
      · simpa [gOK] using hg
      · intro j hj; simpa [wOK] using hwk j hj
      · exact inv.ghost_to _ _ (fun j _ => by rw [hc]; simp [doneB])
    · cases h
  · -- paSet
    cases h
    refine inv_caller s _ inv rfl rfl rfl inv.mutexW (inv.mutexC_other _ (by simp [hc]) (by simp)) inv.mutexR
      (fun _ _ h => h) ?_ ?_ ?_ ?_
    · simpa [pausedAfter, stoppedAfter, hc] using hpr
    · simp only [gOK, Bool.and_eq_true, Bool.not_eq_true'] at hg
      simp [gOK, hg.1.1, hg.1.2, hg.2]
    · intro j hj; have := hwk j hj
      simp only [wOK, Bool.and_eq_true, beq_iff_eq, Bool.not_eq_true'] at this
      simp only []; rw [this.1, this.2]; exact wOK_idle_paPub0 _ _ _ _
    · exact inv.ghost_to _ _ (fun j _ => by rw [hc]; simp [doneB])
  · -- paPub k
    rename_i k
    split at h
    · rename_i hk
      cases h
      refine inv_caller s _ inv rfl rfl rfl inv.mutexW (inv.mutexC_other _ (by simp [hc]) (by simp)) inv.mutexR
        ?_ ?_ ?_ ?_ ?_
      · intro j _ hf; simp only [upd]; split <;> simp [hf]
      · simpa [pausedAfter, stoppedAfter, hc] using hpr
      · simp only [gOK, Bool.and_eq_true, decide_eq_true_eq] at hg ⊢; exact ⟨hg.1, by omega⟩
      · intro j hj
        have := wOK_paPub_succ k s.paused s.stopped j (s.w j) (s.flags j) (s.notified j) (hwk j hj)
        simp only [upd] at this ⊢; split <;> simp_all
      · exact inv.ghost_to _ _ (fun j _ => by rw [hc]; simp [doneB])
    · rename_i hk
      cases h
      have hkN : k = s.N := by
        simp only [gOK, Bool.and_eq_true, decide_eq_true_eq] at hg; omega
      refine inv_caller s _ inv rfl rfl rfl inv.mutexW (inv.mutexC_other _ (by simp [hc]) (by simp)) inv.mutexR
        (fun _ _ h => h) ?_ ?_ ?_ ?_
      · simpa [pausedAfter, stoppedAfter, hc] using hpr
      · simp only [gOK, Bool.and_eq_true] at hg ⊢; exact hg.1
      · intro j hj; exact wOK_paPub_done k _ _ _ _ _ _ (by omega) (hwk j hj)
      · exact inv.ghost_to _ _ (fun j _ => by rw [hc]; simp [doneB])
  · -- paSetPaused
    cases h
    refine inv_caller s _ inv rfl rfl rfl inv.mutexW (inv.mutexC_other _ (by simp [hc]) (by simp)) inv.mutexR
      (fun _ _ h => h) ?_ ?_ ?_ ?_
    · simpa [pausedAfter, stoppedAfter, hc] using hpr
    · simp only [gOK, Bool.and_eq_true, Bool.not_eq_true'] at hg ⊢; simp [hg.1.1.2, hg.1.2, hg.2]
    · intro j hj; have := hwk j hj; simpa [wOK] using this
    · exact inv.ghost_to _ _ (fun j _ => by rw [hc]; simp [doneB])
  · -- paSpin
    split at h
    · rename_i hcn
      cases h
      simp only [gOK, Bool.and_eq_true, Bool.not_eq_true'] at hg
      obtain ⟨⟨⟨hp, hpj⟩, hst⟩, hx⟩ := hg
      have hall := all_counted_of_count_eq (n := s.N) (p := fun i => counted (s.w i)) (by rw [← inv.cnt]; exact hcn)
      have hx' : s.ctx.isStop = false := by cases hxx : s.ctx <;> simp_all [Ctx.isTop, Ctx.isStop]
      refine inv_caller s _ inv rfl rfl rfl inv.mutexW (inv.mutexC_other _ (by simp [hc]) (by simp)) inv.mutexR
        (fun _ _ h => h) ?_ ?_ ?_ ?_
      · simpa [pausedAfter, stoppedAfter, hc, hp, hst, hx'] using hpr
      · simp [gOK, hp, hpj, hst, hx]
      · intro j hj; have := hwk j hj; rw [hp, hst] at this ⊢
        exact wOK_paSpin_ready _ _ _ _ (hall j hj) this
      · exact inv.ghost_to _ _ (fun j _ => by rw [hc]; simp [doneB])
    · cases h
  · -- reLock
    split at h
    · rename_i hm
      have hm' : s.mutex = none := by simpa using hm
      cases h
      refine inv_caller s _ inv rfl rfl rfl ?_ ?_ ?_ (fun _ _ h => h) ?_ ?_ ?_ ?_
      · intro j hj; have := inv.no_holder hm' j hj
        simp only [this]; constructor
        · intro e; simp at e; omega
        · intro e; cases e
      · simp
      · intro j e; simp at e; omega
      · simpa [pausedAfter, stoppedAfter, hc] using hpr
      · simpa [gOK] using hg
      · intro j hj; exact wOK_reLock_reNotify _ _ _ _ _ _ (inv.no_holder hm' j hj) (hwk j hj)
      · exact inv.ghost_to _ _ (fun j _ => by rw [hc]; simp [doneB])
    · cases h
  · -- reNotify
    cases h
    have hmN : s.mutex = some s.N := inv.mutexC.mpr (Or.inl hc)
    refine inv_caller s _ inv rfl rfl rfl inv.mutexW ?_ inv.mutexR (fun _ _ h => h) ?_ ?_ ?_ ?_
    · simp [hmN]
    · simpa [pausedAfter, stoppedAfter, hc] using hpr
    · simpa [gOK] using hg
    · intro j hj; exact wOK_reNotify_reUnlock _ _ _ _ _ _ (hwk j hj)
    · exact inv.ghost_to _ _ (fun j _ => by rw [hc]; simp [doneB])
  · -- reUnlock
    cases h
    have hmN : s.mutex = some s.N := inv.mutexC.mpr (Or.inr hc)
    refine inv_caller s _ inv rfl rfl rfl ?_ ?_ ?_ (fun _ _ h => h) ?_ ?_ ?_ ?_
    · intro j hj; have := inv.other_not_holder hmN j hj (by omega)
      simp [this]
    · simp
    · intro j e; cases e
    · simpa [pausedAfter, stoppedAfter, hc] using hpr
    · simp only [gOK, Bool.and_eq_true] at hg ⊢; exact ⟨⟨hg.1.1.2, hg.1.2⟩, hg.2⟩
    · intro j hj; exact wOK_reUnlock_reClear _ _ _ _ _ _ (hwk j hj)
    · exact inv.ghost_to _ _ (fun j _ => by rw [hc]; simp [doneB])
  · -- reClear
    cases h
    refine inv_caller s _ inv rfl rfl rfl inv.mutexW (inv.mutexC_other _ (by simp [hc]) (by simp)) inv.mutexR
      (fun _ _ h => h) ?_ ?_ ?_ ?_
    · simpa [pausedAfter, stoppedAfter, hc] using hpr
    · simpa [gOK] using hg
    · intro j hj; have := hwk j hj; simpa [wOK] using this
    · exact inv.ghost_to _ _ (fun j _ => by rw [hc]; simp [doneB])
  · -- reWait: `resume` returns to whoever called it
    split at h
    · rename_i hcl
      cases h
      simp only [gOK, Bool.and_eq_true, Bool.not_eq_true', beq_iff_eq] at hg
      obtain ⟨⟨⟨hp, hpj⟩, hst⟩, hx⟩ := hg
      have hio := inv.idle_of_clear hcl
      cases hxx : s.ctx with
      | top =>
        have hst' : s.stopped = false := by simpa [hxx, Ctx.stopping] using hst
        refine inv_caller s _ inv rfl rfl rfl inv.mutexW (inv.mutexC_other _ (by simp [hc]) (by simp)) inv.mutexR
          (fun _ _ h => h) ?_ ?_ ?_ ?_
        · simpa [pausedAfter, stoppedAfter, hc, hp, hst', hxx, Ctx.isStop] using hpr
        · simp [gOK, hp, hst', Ctx.isTop]
        · intro j hj
          have hi := wOK_reWait_idle _ _ _ _ _ _ (hwk j hj) hst' (hio j hj).1
          simp [wOK, hp, hst', hi, (hio j hj).2]
        · exact inv.ghost_to _ _ (fun j _ => by rw [hc]; simp [doneB])
      | inRun b =>
        have hst' : s.stopped = false := by simpa [hxx, Ctx.stopping] using hst
        refine inv_caller s _ inv rfl rfl rfl inv.mutexW (inv.mutexC_other _ (by simp [hc]) (by simp)) inv.mutexR
          (fun _ _ h => h) ?_ ?_ ?_ ?_
        · simpa [pausedAfter, stoppedAfter, hc, hxx, Ctx.isStop] using hpr
        · simp [gOK, hp, hst', Ctx.isTop]
        · intro j hj
          have hi := wOK_reWait_idle _ _ _ _ _ _ (hwk j hj) hst' (hio j hj).1
          simp [wOK, hi, (hio j hj).2]
        · exact inv.ghost_to _ _ (fun j _ => by rw [hc]; simp [doneB])
      | inStop =>
        have hst' : s.stopped = true := by simpa [hxx, Ctx.stopping] using hst
        refine inv_caller s _ inv rfl rfl rfl inv.mutexW (inv.mutexC_other _ (by simp [hc]) (by simp)) inv.mutexR
          (fun _ _ h => h) ?_ ?_ ?_ ?_
        · simpa [pausedAfter, stoppedAfter, hc, hxx, Ctx.isStop] using hpr
        · simp [gOK, hp, hst', hxx, Ctx.stopping]
        · intro j hj
          rcases (hio j hj).1 with hi | hi <;> simp [wOK, hi, (hio j hj).2]
        · exact inv.ghost_to _ _ (fun j _ => by rw [hc]; simp [doneB])
      | inResize m => simp [hxx, Ctx.isResize] at hx
    · cases h
  · -- stSet: `m_stopped = true`
    cases h
    simp only [gOK, Bool.and_eq_true, Bool.or_eq_true, Bool.not_eq_true'] at hg
    obtain ⟨⟨⟨hst, hx⟩, hppj⟩, hrz⟩ := hg
    cases hp : s.paused
    · simp only [Bool.false_eq_true, if_false]
      refine inv_caller s _ inv rfl rfl rfl inv.mutexW (inv.mutexC_other _ (by simp [hc]) (by simp)) inv.mutexR
        (fun _ _ h => h) ?_ ?_ ?_ ?_
      · simpa [pausedAfter, stoppedAfter, hc] using hpr
      · simp [gOK, hx]
      · intro j hj; have := hwk j hj
        simp only [hp, wOK, Bool.false_eq_true, if_false, Bool.and_eq_true, beq_iff_eq, Bool.not_eq_true'] at this
        simp [wOK, this.1, this.2]
      · exact inv.ghost_to _ _ (fun j _ => by rw [hc]; simp [doneB])
    · simp only [if_true]
      have hpj : s.pauseJobs = true := by rcases hppj with h | h <;> simp_all
      have hnr : s.ctx.isResize = false := by rcases hrz with h | h <;> simp_all
      refine inv_caller s _ inv rfl rfl rfl inv.mutexW (inv.mutexC_other _ (by simp [hc]) (by simp)) inv.mutexR
        (fun _ _ h => h) ?_ ?_ ?_ ?_
      · simpa [pausedAfter, stoppedAfter, hc] using hpr
      · simp [gOK, hx, hpj, hnr]
      · intro j hj; have := hwk j hj; simp only [hp] at this; simpa [wOK] using this
      · exact inv.ghost_to _ _ (fun j _ => by rw [hc]; simp [doneB])
  · -- join: all workers have left their main loop
    split at h
    · rename_i hex
      cases h
      simp only [gOK, Bool.and_eq_true, Bool.not_eq_true'] at hg
      obtain ⟨⟨hp, hst⟩, hx⟩ := hg
      have hexi := exited_all s hex
      have hfl : ∀ j, j < s.N → s.flags j = false := by
        intro j hj; have := hwk j hj; simp only [wOK, Bool.and_eq_true, Bool.not_eq_true'] at this; exact this.2
      cases hxx : s.ctx with
      | top => simp [hxx, Ctx.stopping] at hx
      | inRun b => simp [hxx, Ctx.stopping] at hx
      | inStop =>
        refine inv_caller s _ inv rfl rfl rfl inv.mutexW (inv.mutexC_other _ (by simp [hc]) (by simp)) inv.mutexR
          (fun _ _ h => h) ?_ ?_ ?_ ?_
        · simpa [pausedAfter, stoppedAfter, hc, hxx, hp, hst, Ctx.isStop] using hpr
        · simp [gOK, hp, Ctx.isTop]
        · intro j hj; simp [wOK, hst, hexi j hj, hfl j hj]
        · exact inv.ghost_to _ _ (fun j _ => by rw [hc]; simp [doneB])
      | inResize m =>
        -- fresh pool of size m
        have hmu : s.mutex = none := by
          cases hmx : s.mutex with
          | none => rfl
          | some j =>
            have hle := inv.mutexR j hmx
            by_cases hjN : j = s.N
            · subst hjN; have := inv.mutexC.mp hmx; simp [hc] at this
            · have hlt : j < s.N := by omega
              have := (inv.mutexW j hlt).mp hmx
              rw [hexi j hlt] at this; simp [holds] at this
        have hc0 : s.count = 0 := by
          rw [inv.cnt]
          apply List.countP_eq_zero.mpr
          intro j hj
          rw [hexi j (List.mem_range.mp hj)]; simp [counted]
        refine ⟨?_, ?_, ?_, ?_, ?_, ?_, ?_, ?_, ?_⟩
        · intro i _; simp [hmu, holds]
        · simp [hmu]
        · intro j e; simp [hmu] at e
        · simp [hc0, counted]
        · intro i _ hne; simp at hne
        · simpa [pausedAfter, stoppedAfter, hc, hxx, hp, Ctx.isStop] using hpr
        · simp [gOK, hp, Ctx.isTop]
        · intro i _; simp [wOK, hp]
        · intro j
          have := inv.ghost j; rw [hc] at this
          simpa [doneB] using this
    · cases h

/-! ### the invariant holds in every reachable state -/

def init (n : Nat) (ops : List Op) : S :=
  { N := n, flags := fun _ => false, w := fun _ => .idle, notified := fun _ => false, count := 0,
    mutex := none, pauseJobs := false, paused := false, stopped := false, cpc := .ready, ctx := .top, ops,
    execs := fun _ => 0, want := fun _ => 0 }

theorem inv_init (n : Nat) (ops : List Op) (hops : okProg false false ops = true) : Inv (init n ops) := by
  refine ⟨?_, ?_, ?_, ?_, ?_, ?_, ?_, ?_, ?_⟩
  · intro i _; simp [init, holds]
  · simp [init]
  · intro j e; simp [init] at e
  · simp [init, counted]
  · intro i _ h; simp [init] at h
  · simpa [init, pausedAfter, stoppedAfter] using hops
  · simp [init, gOK, Ctx.isTop]
  · intro i _; simp [init, wOK]
  · intro i; simp [init, doneB]

theorem inv_step (s s' : S) (inv : Inv s) (t : Tid) (h : step s t = some s') : Inv s' := by
  cases t with
  | caller => exact inv_stepC s s' inv h
  | work i =>
    simp only [step] at h
    split at h
    · rename_i hi; exact inv_stepW s s' inv i hi h
    · cases h
  | exit i =>
    simp only [step] at h
    split at h
    · rename_i hi; exact inv_stepX s s' inv i hi h
    · cases h

inductive Reachable (s0 : S) : S → Prop
  | refl : Reachable s0 s0
  | step (s s' t) : Reachable s0 s → step s t = some s' → Reachable s0 s'

theorem reachable_inv (n : Nat) (ops : List Op) (hops : okProg false false ops = true) (s : S)
    (h : Reachable (init n ops) s) : Inv s := by
  induction h with
  | refl => exact inv_init n ops hops
  | step s s' t _ hs ih => exact inv_step s s' ih t hs

/-! ### EXACTLY ONCE -/

/-- **exactly once**: whenever the caller is between two API calls, every worker `i` has executed
its block callback exactly `want i` times, where `want i` is the number of `run_blocks` calls that have
returned and that had a block for worker `i` (`i < min b N`, see `stepC` at `.rbWait`).
The statement covers all worker slots `i` (also `i ≥ N`, and across `resize`). -/
theorem exactly_once (n : Nat) (ops : List Op) (hops : okProg false false ops = true) (s : S)
    (h : Reachable (init n ops) s) (hc : s.cpc = .ready) : ∀ i, s.execs i = s.want i := by
  intro i
  have := (reachable_inv n ops hops s h).ghost i
  rw [hc] at this; simpa [doneB] using this

/-- at every moment (also inside a call) a worker is at most one execution ahead of the returned
calls, never behind; it is ahead exactly when it has executed its block of the call in flight -/
theorem at_most_once_in_flight (n : Nat) (ops : List Op) (hops : okProg false false ops = true) (s : S)
    (h : Reachable (init n ops) s) (i : Nat) :
    s.want i ≤ s.execs i ∧ s.execs i ≤ s.want i + 1 ∧
    (s.execs i = s.want i + 1 ↔ (i < s.N ∧ doneB s.cpc i (s.w i) (s.flags i) = true)) := by
  have := (reachable_inv n ops hops s h).ghost i
  by_cases hd : (decide (i < s.N) && doneB s.cpc i (s.w i) (s.flags i)) = true
  · rw [if_pos hd] at this
    simp only [Bool.and_eq_true, decide_eq_true_eq] at hd
    exact ⟨by omega, by omega, fun _ => hd, fun _ => this⟩
  · rw [if_neg hd] at this
    simp only [Bool.and_eq_true, decide_eq_true_eq] at hd
    exact ⟨by omega, by omega, fun h => by omega, fun h => absurd h hd⟩

/-- outside `run_blocks` (pause / resume / stop / resize protocols) no callback is executed and
none is pending -/
theorem no_exec_outside_run (n : Nat) (ops : List Op) (hops : okProg false false ops = true) (s : S)
    (h : Reachable (init n ops) s) (hc : ∀ k b, s.cpc ≠ .rbPub k b) (hc' : ∀ b, s.cpc ≠ .rbWait b) :
    ∀ i, s.execs i = s.want i := by
  intro i
  have := (reachable_inv n ops hops s h).ghost i
  cases hcc : s.cpc <;> rw [hcc] at this <;> first
    | (simpa [doneB] using this)
    | exact absurd hcc (hc _ _)
    | exact absurd hcc (hc' _)

/-! meaning of the ghost counters: `execs i` changes only when worker `i` finishes its callback,
`want` changes only when `run_blocks` returns -/
theorem execs_step (s s' : S) (t : Tid) (h : step s t = some s') :
    s'.execs = s.execs ∨ ∃ i, t = .work i ∧ s.w i = .runBlock ∧ s'.execs = upd s.execs i (s.execs i + 1) := by
  cases t with
  | caller =>
    left
    simp only [step, stepC] at h
    cases hc : s.cpc <;> rw [hc] at h <;> simp only [] at h
    case ready =>
      cases ho : s.ops with
      | nil => rw [ho] at h; cases h
      | cons op r =>
        rw [ho] at h; cases h
        cases op <;> simp only [startOp] <;> (try split) <;> rfl
    case reWait => split at h <;> cases h; cases s.ctx <;> rfl
    case join => split at h <;> cases h; cases s.ctx <;> rfl
    all_goals first | (cases h; rfl) | (split at h <;> cases h <;> rfl)
  | work i =>
    simp only [step] at h
    split at h
    · unfold stepW at h
      cases hw : s.w i <;> rw [hw] at h <;> simp only [] at h
      case runBlock => cases h; exact Or.inr ⟨i, rfl, hw, rfl⟩
      all_goals first | (cases h; exact Or.inl rfl) | (split at h <;> cases h <;> exact Or.inl rfl) | cases h
    · cases h
  | exit i =>
    left
    simp only [step, stepX] at h
    split at h
    · split at h <;> cases h; rfl
    · cases h

theorem want_step (s s' : S) (t : Tid) (h : step s t = some s') :
    s'.want = s.want ∨ ∃ b, t = .caller ∧ s.cpc = .rbWait b ∧ s'.cpc = .ready ∧
      s'.want = fun i => s.want i + (if i < b ∧ i < s.N then 1 else 0) := by
  cases t with
  | caller =>
    simp only [step, stepC] at h
    cases hc : s.cpc <;> rw [hc] at h <;> simp only [] at h
    case ready =>
      left
      cases ho : s.ops with
      | nil => rw [ho] at h; cases h
      | cons op r =>
        rw [ho] at h; cases h
        cases op <;> simp only [startOp] <;> (try split) <;> rfl
    case rbWait b => split at h <;> cases h; exact Or.inr ⟨b, rfl, rfl, rfl, rfl⟩
    case reWait => left; split at h <;> cases h; cases s.ctx <;> rfl
    case join => left; split at h <;> cases h; cases s.ctx <;> rfl
    all_goals first | (cases h; exact Or.inl rfl) | (split at h <;> cases h <;> exact Or.inl rfl)
  | work i =>
    left
    simp only [step] at h
    split at h
    · unfold stepW at h
      cases hw : s.w i <;> rw [hw] at h <;> simp only [] at h
      all_goals first | (cases h; rfl) | (split at h <;> cases h <;> rfl) | cases h
    · cases h
  | exit i =>
    left
    simp only [step, stepX] at h
    split at h
    · split at h <;> cases h; rfl
    · cases h

/-! ### NO STUCK STATE -/

def enabledW (s : S) (i : Nat) : Bool :=
  match s.w i with
  | .idle => s.flags i
  | .pLock | .pReacquire => s.mutex.isNone
  | .pWaiting => s.notified i
  | .exited => false
  | _ => true

theorem stepW_isSome (s : S) (i : Nat) : (stepW s i).isSome = enabledW s i := by
  unfold stepW enabledW
  cases hw : s.w i <;> simp <;> split <;> simp_all [Option.isSome_iff_ne_none]

theorem worker_enabled (s : S) (i : Nat) (hi : i < s.N) (h : enabledW s i = true) :
    ∃ t, (step s t).isSome = true := by
  refine ⟨.work i, ?_⟩
  simp only [step, hi, if_true]
  rw [stepW_isSome]; exact h

theorem exit_enabled (s : S) (i : Nat) (hi : i < s.N) (hst : s.stopped = true) (hw : s.w i = .idle) :
    ∃ t, (step s t).isSome = true := by
  refine ⟨.exit i, ?_⟩
  simp [step, hi, stepX, hst, hw]

theorem exists_flag_of_not_clear (s : S) (h : allFlagsClear s = false) : ∃ i, i < s.N ∧ s.flags i = true := by
  unfold allFlagsClear at h
  rw [List.all_eq_false] at h
  obtain ⟨i, hi, hf⟩ := h
  exact ⟨i, List.mem_range.mp hi, by simpa using hf⟩

theorem exists_not_exited (s : S) (h : allExited s = false) : ∃ i, i < s.N ∧ s.w i ≠ .exited := by
  unfold allExited at h
  rw [List.all_eq_false] at h
  obtain ⟨i, hi, hf⟩ := h
  exact ⟨i, List.mem_range.mp hi, by simpa using hf⟩

theorem exists_not_of_countP_lt {n : Nat} {p : Nat → Bool}
    (h : (List.range n).countP p < n) : ∃ i, i < n ∧ p i = false := by
  apply Classical.byContradiction
  intro hne
  have hall : ∀ i ∈ List.range n, p i = true := by
    intro i hi
    cases hp : p i
    · exact absurd ⟨i, List.mem_range.mp hi, hp⟩ hne
    · rfl
  have := List.countP_eq_length.mpr hall
  simp at this
  omega

theorem mutex_owner_enabled (s : S) (inv : Inv s) (hc : ¬ (s.cpc = .reNotify ∨ s.cpc = .reUnlock))
    (hm : s.mutex ≠ none) : ∃ t, (step s t).isSome = true := by
  cases hmu : s.mutex with
  | none => exact absurd hmu hm
  | some j =>
    have hle := inv.mutexR j hmu
    by_cases hj : j = s.N
    · subst hj; exact absurd (inv.mutexC.mp hmu) hc
    · have hlt : j < s.N := by omega
      apply worker_enabled s j hlt
      have hh := (inv.mutexW j hlt).mp hmu
      unfold enabledW
      cases hw : s.w j <;> simp [hw, holds] at hh ⊢

theorem progress (s : S) (inv : Inv s) (hnf : ¬ finished s) : ∃ t, (step s t).isSome = true := by
  have callerStep : (stepC s).isSome = true → ∃ t, (step s t).isSome = true := by
    intro hr; exact ⟨.caller, by simpa [step] using hr⟩
  have hwk := inv.work
  have hg := inv.glob
  cases hc : s.cpc with
  | ready =>
    cases ho : s.ops with
    | nil => exact absurd ⟨hc, ho⟩ hnf
    | cons op r => exact callerStep (by simp [stepC, hc, ho])
  | rbSet b => exact callerStep (by simp [stepC, hc])
  | rbPub k b => by_cases hk : k < s.N <;> exact callerStep (by simp [stepC, hc, hk])
  | paSet => exact callerStep (by simp [stepC, hc])
  | paPub k => by_cases hk : k < s.N <;> exact callerStep (by simp [stepC, hc, hk])
  | paSetPaused => exact callerStep (by simp [stepC, hc])
  | reNotify => exact callerStep (by simp [stepC, hc])
  | reUnlock => exact callerStep (by simp [stepC, hc])
  | reClear => exact callerStep (by simp [stepC, hc])
  | stSet => exact callerStep (by simp [stepC, hc])
  | rbWait b =>
    by_cases hcl : allFlagsClear s = true
    · exact callerStep (by simp [stepC, hc, hcl])
    · obtain ⟨i, hi, hf⟩ := exists_flag_of_not_clear s (by simpa using hcl)
      have := hwk i hi; rw [hc, hf] at this
      apply worker_enabled s i hi
      unfold enabledW
      cases hw : s.w i <;> simp [hw, wOK, inBlock] at this ⊢; exact hf
  | paWait =>
    by_cases hcl : allFlagsClear s = true
    · exact callerStep (by simp [stepC, hc, hcl])
    · obtain ⟨i, hi, hf⟩ := exists_flag_of_not_clear s (by simpa using hcl)
      have := hwk i hi; rw [hc, hf] at this
      simp [wOK] at this
  | reWait =>
    by_cases hcl : allFlagsClear s = true
    · exact callerStep (by simp [stepC, hc, hcl])
    · obtain ⟨i, hi, hf⟩ := exists_flag_of_not_clear s (by simpa using hcl)
      have hw1 := hwk i hi; rw [hc, hf] at hw1
      by_cases hm : s.mutex = none
      · apply worker_enabled s i hi
        unfold enabledW
        cases hw : s.w i <;> simp [hw, wOK, resuming] at hw1 ⊢ <;> first | exact hm | exact hw1
      · by_cases hre : s.w i = .pReacquire
        · exact mutex_owner_enabled s inv (by simp [hc]) hm
        · apply worker_enabled s i hi
          unfold enabledW
          cases hw : s.w i <;> simp [hw, wOK, resuming] at hw1 hre ⊢ <;> exact hw1
  | paSpin =>
    by_cases hcn : s.count = s.N
    · exact callerStep (by simp [stepC, hc, hcn])
    · have hle : s.count ≤ s.N := by
        rw [inv.cnt]
        have := List.countP_le_length (p := fun i => counted (s.w i)) (l := List.range s.N)
        simpa using this
      have hlt : (List.range s.N).countP (fun i => counted (s.w i)) < s.N := by rw [← inv.cnt]; omega
      obtain ⟨i, hi, hnc⟩ := exists_not_of_countP_lt hlt
      have hw1 := hwk i hi; rw [hc] at hw1
      simp only [wOK, Bool.and_eq_true] at hw1
      obtain ⟨⟨hp, _⟩, hfl⟩ := hw1
      by_cases hm : s.mutex = none
      · apply worker_enabled s i hi
        unfold enabledW
        cases hw : s.w i <;> simp [hw, pausing, counted] at hp hnc ⊢ <;> first | exact hfl | exact hm
      · by_cases hpl : s.w i = .pLock
        · exact mutex_owner_enabled s inv (by simp [hc]) hm
        · apply worker_enabled s i hi
          unfold enabledW
          cases hw : s.w i <;> simp [hw, pausing, counted] at hp hnc hpl ⊢
          exact hfl
  | reLock =>
    by_cases hm : s.mutex = none
    · exact callerStep (by simp [stepC, hc, hm])
    · exact mutex_owner_enabled s inv (by simp [hc]) hm
  | join =>
    by_cases hex : allExited s = true
    · exact callerStep (by simp [stepC, hc, hex])
    · obtain ⟨i, hi, hne⟩ := exists_not_exited s (by simpa using hex)
      have hw1 := hwk i hi; rw [hc] at hw1 hg
      simp only [gOK, Bool.and_eq_true] at hg
      apply exit_enabled s i hi hg.1.2
      cases hw : s.w i <;> simp [hw, wOK] at hw1 hne ⊢

/-- **no lost wake-up, no deadlock, `stop`/`join`/`resize` cannot hang**: for every pool size, every
program the library issues and every interleaving, a state in which the caller has not finished
always has an enabled thread. -/
theorem no_stuck_state (n : Nat) (ops : List Op) (hops : okProg false false ops = true) (s : S)
    (h : Reachable (init n ops) s) (hnf : ¬ finished s) : ∃ t, (step s t).isSome = true :=
  progress s (reachable_inv n ops hops s h) hnf

/-! ### TERMINATION

Spin loops (`wait()`, the `m_paused_count` spin in `pause()`, `join`) and blocking operations are
modelled as transitions that are disabled until their condition holds, so an execution of the model
is an execution of the C++ in which failed spin iterations are not counted.  We give a
lexicographic measure `(callerLeft, workLeft)` that strictly decreases with EVERY step of EVERY
thread.  Hence there is no infinite execution, and together with `no_stuck_state` every maximal
execution ends with the caller finished: any sequence of run, pause, resume, resize and destruction
terminates under every fair schedule. -/

/-- steps worker can still take without the caller's help -/
def wrank : WPc → Bool → Nat
  | .exited, _ => 0
  | .idle, false => 1
  | .clear, _ => 2
  | .runBlock, _ => 3
  | .pDec, _ => 3
  | .pReacquire, _ => 4
  | .pWaiting, _ => 5
  | .pWaitEnter, _ => 6
  | .pInc, _ => 7
  | .pLock, _ => 8
  | .idle, true => 9

theorem wrank_le (w : WPc) (f : Bool) : wrank w f ≤ 9 := by
  cases w <;> cases f <;> simp [wrank]

def sumTo : Nat → (Nat → Nat) → Nat
  | 0, _ => 0
  | n + 1, g => sumTo n g + g n

def workLeft (s : S) : Nat := sumTo s.N (fun i => wrank (s.w i) (s.flags i))

/-- upper bound on the caller micro-steps of the remaining program (pool size `n` now) -/
def costOps : Nat → List Op → Nat
  | _, [] => 0
  | n, .runBlocks _ :: r => n + 11 + costOps n r
  | n, .pause :: r => n + 11 + costOps n r
  | n, .resume :: r => n + 11 + costOps n r
  | n, .stop :: r => n + 11 + costOps n r
  | n, .resize m :: r => n + 11 + costOps m r

/-- upper bound on the caller micro-steps left in the current API call -/
def phaseCost (n : Nat) : CPc → Nat
  | .ready => 0
  | .rbWait _ => 1
  | .rbPub k _ => (n - k) + 2
  | .rbSet _ => n + 3
  | .paSpin => 1
  | .paSetPaused => 2
  | .paPub k => (n - k) + 3
  | .paSet => n + 4
  | .paWait => n + 5
  | .join => 1
  | .reWait => n + 4
  | .reClear => n + 5
  | .reUnlock => n + 6
  | .reNotify => n + 7
  | .reLock => n + 8
  | .stSet => n + 9

/-- pool size once the current API call has returned -/
def nAfter (s : S) : Nat := match s.ctx with | .inResize m => m | _ => s.N

def callerLeft (s : S) : Nat := phaseCost s.N s.cpc + costOps (nAfter s) s.ops

/-- the caller's remaining work strictly decreases with every caller step -/
theorem caller_step_decreases (s s' : S) (inv : Inv s) (h : stepC s = some s') : callerLeft s' < callerLeft s := by
  unfold stepC at h
  cases hc : s.cpc <;> rw [hc] at h <;> simp only [] at h
  case ready =>
    have hx : s.ctx = .top := by
      have hg := inv.glob; rw [hc] at hg
      cases hxx : s.ctx <;> simp [gOK, hxx, Ctx.isTop] at hg ⊢
    cases ho : s.ops with
    | nil => rw [ho] at h; cases h
    | cons op r =>
      rw [ho] at h; cases h
      cases op with
      | runBlocks b =>
        cases hp : s.paused <;>
          simp only [callerLeft, startOp, hp, hc, hx, ho, nAfter, phaseCost, costOps, if_true, if_false,
            Bool.false_eq_true] <;> omega
      | pause =>
        cases hp : s.paused <;>
          simp only [callerLeft, startOp, hp, hc, hx, ho, nAfter, phaseCost, costOps, if_true, if_false,
            Bool.false_eq_true] <;> omega
      | resume =>
        cases hp : s.paused <;>
          simp only [callerLeft, startOp, hp, hc, hx, ho, nAfter, phaseCost, costOps, if_true, if_false,
            Bool.false_eq_true] <;> omega
      | stop =>
        cases hp : s.stopped <;>
          simp only [callerLeft, startOp, hp, hc, hx, ho, nAfter, phaseCost, costOps, if_true, if_false,
            Bool.false_eq_true] <;> omega
      | resize m =>
        by_cases hm : m = s.N
        · simp only [callerLeft, startOp, hm, hc, hx, ho, nAfter, phaseCost, costOps, if_true]; omega
        · simp only [callerLeft, startOp, hm, hc, hx, ho, nAfter, phaseCost, costOps, if_false]; omega
  case rbPub k b =>
    split at h <;> cases h <;> simp only [callerLeft, hc, nAfter, phaseCost] <;> omega
  case paPub k =>
    split at h <;> cases h <;> simp only [callerLeft, hc, nAfter, phaseCost] <;> omega
  case reWait =>
    split at h
    · cases h
      cases hxx : s.ctx <;> simp only [callerLeft, hc, hxx, nAfter, phaseCost] <;> omega
    · cases h
  case join =>
    split at h
    · cases h
      cases hxx : s.ctx <;> simp only [callerLeft, hc, hxx, nAfter, phaseCost] <;> omega
    · cases h
  case stSet =>
    cases h
    cases hp : s.paused <;>
      simp only [callerLeft, hc, hp, nAfter, phaseCost, if_true, if_false, Bool.false_eq_true] <;> omega
  all_goals first
    | (cases h; simp only [callerLeft, hc, nAfter, phaseCost]; omega)
    | (split at h <;> cases h; simp only [callerLeft, hc, nAfter, phaseCost]; omega)

/-- what a protocol step of worker `i` leaves unchanged, and: its rank strictly decreases -/
theorem stepW_frame (s s' : S) (i : Nat) (h : stepW s i = some s') :
    s'.N = s.N ∧ s'.cpc = s.cpc ∧ s'.ctx = s.ctx ∧ s'.ops = s.ops ∧
    (∀ j, j ≠ i → s'.w j = s.w j ∧ s'.flags j = s.flags j) ∧
    wrank (s'.w i) (s'.flags i) < wrank (s.w i) (s.flags i) := by
  unfold stepW at h
  cases hw : s.w i <;> rw [hw] at h <;> simp only [] at h
  case idle =>
    split at h
    · rename_i hf; cases h
      refine ⟨rfl, rfl, rfl, rfl, fun j hj => ⟨by simp [upd_ne _ _ _ _ hj], rfl⟩, ?_⟩
      cases hpj : s.pauseJobs <;> simp [hf, wrank]
    · cases h
  case clear =>
    cases h
    exact ⟨rfl, rfl, rfl, rfl, fun j hj => ⟨by simp [upd_ne _ _ _ _ hj], by simp [upd_ne _ _ _ _ hj]⟩, by simp [wrank]⟩
  case exited => cases h
  all_goals first
    | (cases h
       exact ⟨rfl, rfl, rfl, rfl, fun j hj => ⟨by simp [upd_ne _ _ _ _ hj], rfl⟩, by simp [wrank]⟩)
    | (split at h
       · cases h
         exact ⟨rfl, rfl, rfl, rfl, fun j hj => ⟨by simp [upd_ne _ _ _ _ hj], rfl⟩, by simp [wrank]⟩
       · cases h)

theorem stepX_frame (s s' : S) (i : Nat) (h : stepX s i = some s') :
    s'.N = s.N ∧ s'.cpc = s.cpc ∧ s'.ctx = s.ctx ∧ s'.ops = s.ops ∧
    (∀ j, j ≠ i → s'.w j = s.w j ∧ s'.flags j = s.flags j) ∧
    wrank (s'.w i) (s'.flags i) < wrank (s.w i) (s.flags i) := by
  unfold stepX at h
  split at h
  · rename_i hcnd; cases h
    refine ⟨rfl, rfl, rfl, rfl, fun j hj => ⟨by simp [upd_ne _ _ _ _ hj], rfl⟩, ?_⟩
    cases hf : s.flags i <;> simp [hcnd.2, wrank]
  · cases h

theorem sumTo_congr (n : Nat) (g g' : Nat → Nat) (h : ∀ j, j < n → g' j = g j) : sumTo n g' = sumTo n g := by
  induction n with
  | zero => rfl
  | succ m ih =>
    simp only [sumTo]
    rw [ih (fun j hj => h j (by omega)), h m (by omega)]

theorem sumTo_lt (n : Nat) (g g' : Nat → Nat) (i : Nat) (hi : i < n) (ho : ∀ j, j ≠ i → g' j = g j)
    (hlt : g' i < g i) : sumTo n g' < sumTo n g := by
  induction n with
  | zero => omega
  | succ m ih =>
    simp only [sumTo]
    by_cases him : i = m
    · subst him
      have := sumTo_congr i g g' (fun j hj => ho j (by omega))
      omega
    · have := ih (by omega)
      have := ho m (fun e => him e.symm)
      omega

/-- a worker thread's step: the caller's measure is unchanged, the rank (≤ 9) of that worker
strictly decreases, the other workers' ranks are unchanged.  So between two caller steps worker `i`
takes at most 9 steps. -/
theorem worker_step_decreases (s s' : S) (i : Nat) (hi : i < s.N)
    (h : stepW s i = some s' ∨ stepX s i = some s') :
    callerLeft s' = callerLeft s ∧ workLeft s' < workLeft s := by
  have hfr : s'.N = s.N ∧ s'.cpc = s.cpc ∧ s'.ctx = s.ctx ∧ s'.ops = s.ops ∧
      (∀ j, j ≠ i → s'.w j = s.w j ∧ s'.flags j = s.flags j) ∧
      wrank (s'.w i) (s'.flags i) < wrank (s.w i) (s.flags i) := by
    rcases h with h | h
    · exact stepW_frame s s' i h
    · exact stepX_frame s s' i h
  obtain ⟨hN, hcpc, hctx, hops, hoth, hlt⟩ := hfr
  constructor
  · simp only [callerLeft, nAfter, hN, hcpc, hctx, hops]
  · simp only [workLeft, hN]
    exact sumTo_lt s.N _ _ i hi (fun j hj => by rw [(hoth j hj).1, (hoth j hj).2]) hlt

/-- the lexicographic measure strictly decreases with every step of every thread -/
theorem step_decreases (s s' : S) (inv : Inv s) (t : Tid) (h : step s t = some s') :
    Prod.Lex (· < ·) (· < ·) (callerLeft s', workLeft s') (callerLeft s, workLeft s) := by
  cases t with
  | caller => exact Prod.Lex.left _ _ (caller_step_decreases s s' inv h)
  | work i =>
    simp only [step] at h
    split at h
    · rename_i hi
      have := worker_step_decreases s s' i hi (Or.inl h)
      rw [this.1]; exact Prod.Lex.right _ this.2
    · cases h
  | exit i =>
    simp only [step] at h
    split at h
    · rename_i hi
      have := worker_step_decreases s s' i hi (Or.inr h)
      rw [this.1]; exact Prod.Lex.right _ this.2
    · cases h

/-- **termination**: the step relation (on states satisfying the invariant, i.e. in particular on
all reachable states) is well-founded -/
theorem terminates : WellFounded (fun s' s : S => Inv s ∧ ∃ t, step s t = some s') := by
  have hwf : WellFounded (Prod.Lex (· < ·) (· < ·) : Nat × Nat → Nat × Nat → Prop) :=
    (Prod.lex Nat.lt_wfRel Nat.lt_wfRel).wf
  apply Subrelation.wf (r := InvImage (Prod.Lex (· < ·) (· < ·)) (fun s : S => (callerLeft s, workLeft s)))
  · intro s' s hs
    obtain ⟨inv, t, ht⟩ := hs
    exact step_decreases s s' inv t ht
  · exact InvImage.wf _ hwf

/-- there is no infinite execution of a program the library issues -/
theorem no_infinite_run (n : Nat) (ops : List Op) (hops : okProg false false ops = true)
    (run : Nat → S) (sched : Nat → Tid) (h0 : run 0 = init n ops)
    (hstep : ∀ k, step (run k) (sched k) = some (run (k + 1))) : False := by
  have hinv : ∀ k, Inv (run k) := by
    intro k
    induction k with
    | zero => rw [h0]; exact inv_init n ops hops
    | succ k ih => exact inv_step _ _ ih _ (hstep k)
  have key : ∀ s, Acc (fun s' s : S => Inv s ∧ ∃ t, step s t = some s') s → ∀ k, run k = s → False := by
    intro s hacc
    induction hacc with
    | intro s _ ih =>
      intro k hk
      exact ih (run (k + 1)) ⟨hk ▸ hinv k, sched k, hk ▸ hstep k⟩ (k + 1) rfl
  exact key (run 0) (terminates.apply _) 0 rfl

theorem Reachable.head {s s1 s' : S} {t : Tid} (hs : Fs.Pool4.step s t = some s1) (h : Reachable s1 s') : Reachable s s' := by
  induction h with
  | refl => exact Reachable.step s s1 t Reachable.refl hs
  | step a b u _ hab ih => exact Reachable.step a b u ih hab

/-- every execution can be continued until the caller has finished (`progress` + `terminates`):
from every state satisfying the invariant a finished state is reachable.  (And by `progress`, a
maximal execution can only end in a finished state; by `no_infinite_run` every execution is finite.) -/
theorem reaches_finished_of_inv (s : S) (inv : Inv s) : ∃ s', Reachable s s' ∧ finished s' := by
  have hacc := terminates.apply s
  induction hacc with
  | intro s _ ih =>
    by_cases hf : finished s
    · exact ⟨s, Reachable.refl, hf⟩
    · obtain ⟨t, ht⟩ := progress s inv hf
      cases hs : step s t with
      | none => rw [hs] at ht; cases ht
      | some s1 =>
        obtain ⟨s', hr, hfin⟩ := ih s1 ⟨inv, t, hs⟩ (inv_step s s1 inv t hs)
        exact ⟨s', Reachable.head hs hr, hfin⟩

theorem reaches_finished (n : Nat) (ops : List Op) (hops : okProg false false ops = true) (s : S)
    (h : Reachable (init n ops) s) : ∃ s', Reachable s s' ∧ finished s' :=
  reaches_finished_of_inv s (reachable_inv n ops hops s h)

/-- what the pool looks like between API calls: after destruction every worker thread has left its
main loop (joined) with no job pending; otherwise all workers are parked inside their pause job
(paused) or idle with no job pending (not paused) -/
theorem between_calls (n : Nat) (ops : List Op) (hops : okProg false false ops = true) (s : S)
    (h : Reachable (init n ops) s) (hc : s.cpc = .ready) (i : Nat) (hi : i < s.N) :
    (s.stopped = true → s.w i = .exited ∧ s.flags i = false) ∧
    (s.stopped = false → s.paused = false → s.w i = .idle ∧ s.flags i = false) ∧
    (s.stopped = false → s.paused = true → (s.w i = .pWaitEnter ∨ s.w i = .pWaiting) ∧ s.flags i = true) := by
  have hw := (reachable_inv n ops hops s h).work i hi
  rw [hc] at hw
  refine ⟨?_, ?_, ?_⟩
  · intro hst; rw [hst] at hw; simpa [wOK] using hw
  · intro hst hp; rw [hst, hp] at hw; simpa [wOK] using hw
  · intro hst hp; rw [hst, hp] at hw
    simp only [wOK, Bool.false_eq_true, if_false, if_true, Bool.and_eq_true, Bool.or_eq_true, beq_iff_eq] at hw
    exact ⟨hw.1.1, hw.2⟩

/-! ### no stranded job flag

The worker loop tests `m_stopped` before its job flag, and the model lets an `idle` worker exit
whenever `stopped` holds, whether or not its flag is set.  In the programs the library issues this
never strands a set flag (which would make `wait()` spin forever): -/

theorem wOK_exited_flag (c p st i f nt) (h : wOK c p st i .exited f nt = true) : f = false := by
  cases c <;> cases p <;> cases st <;> cases f <;> simp_all [wOK, inBlock, pausing, resuming]

theorem wOK_idle_stopped_flag (c p pj x n i f nt) (hg : gOK c p pj true x n = true)
    (h : wOK c p true i .idle f nt = true) : f = false := by
  cases c <;> cases p <;> cases f <;> simp_all [wOK, gOK, inBlock, pausing, resuming]

/-- a worker that has left its main loop has no job pending -/
theorem no_stranded_flag (n : Nat) (ops : List Op) (hops : okProg false false ops = true) (s : S)
    (h : Reachable (init n ops) s) (i : Nat) (hi : i < s.N) (hw : s.w i = .exited) : s.flags i = false := by
  have := (reachable_inv n ops hops s h).work i hi
  rw [hw] at this
  exact wOK_exited_flag _ _ _ _ _ _ this

/-- whenever a worker can take the exit transition, its flag is clear (the order of the two loads
in the worker loop is harmless) -/
theorem exit_only_when_flag_clear (n : Nat) (ops : List Op) (hops : okProg false false ops = true) (s : S)
    (h : Reachable (init n ops) s) (i : Nat) (hi : i < s.N) (hx : (stepX s i).isSome = true) :
    s.flags i = false := by
  have inv := reachable_inv n ops hops s h
  unfold stepX at hx
  split at hx
  · rename_i hc
    have hw := inv.work i hi
    have hg := inv.glob
    rw [hc.1] at hw hg
    rw [hc.2] at hw
    exact wOK_idle_stopped_flag _ _ _ _ _ _ _ _ hg hw
  · simp at hx

/-! ### examples: the hypotheses are satisfiable, concrete executions, bounded exploration -/

def demoProg : List Op :=
  [.resume, .runBlocks 2, .pause, .runBlocks 1, .pause, .resume, .resize 3, .runBlocks 3, .pause, .stop, .stop]

example : okProg false false demoProg = true := by decide
-- rejected: resize while paused, anything but `stop` after `stop`
example : okProg false false [.pause, .resize 3] = false := by decide
example : okProg false false [.runBlocks 2, .stop, .runBlocks 2] = false := by decide

def tids (s : S) : List Tid := .caller :: ((List.range s.N).map .work ++ (List.range s.N).map .exit)

def firstStep (s : S) : List Tid → Option S
  | [] => none
  | t :: ts => match step s t with | some s' => some s' | none => firstStep s ts

/-- run with a fixed-priority scheduler until nothing is enabled (or the fuel is used up) -/
def runGreedy (order : S → List Tid) : Nat → S → S
  | 0, s => s
  | k + 1, s => match firstStep s (order s) with | some s' => runGreedy order k s' | none => s

def demoOK (s : S) : Bool :=
  decide (s.cpc = .ready) && s.ops.isEmpty && s.N == 3 && s.stopped && !s.paused &&
  (List.range 4).map s.execs == [3, 2, 1, 0] && (List.range 4).map s.want == [3, 2, 1, 0] &&
  (List.range s.N).all (fun i => decide (s.w i = .exited))

/-- two complete executions of `demoProg` on a pool of 2 (caller-first and workers-first priority):
the caller finishes, all 3 workers of the resized pool have exited, and the slots have executed
3, 2, 1 callbacks (`runBlocks 2`, `runBlocks 1`, then `runBlocks 3` on the resized pool) -/
example : demoOK (runGreedy tids 200 (init 2 demoProg)) = true := by decide
example : demoOK (runGreedy (fun s => (tids s).reverse) 200 (init 2 demoProg)) = true := by decide

def allN (s : S) (p : Nat → Bool) : Bool := (List.range s.N).all p

/-- Boolean version of `Inv` (ghost fact checked for the slots `0..3`) -/
def invB (s : S) : Bool :=
  allN s (fun i => (s.mutex == some i) == holds (s.w i)) &&
  ((s.mutex == some s.N) == (s.cpc == .reNotify || s.cpc == .reUnlock)) &&
  (match s.mutex with | none => true | some j => decide (j ≤ s.N)) &&
  (s.count == (List.range s.N).countP (fun i => counted (s.w i))) &&
  allN s (fun i => s.w i == .idle || s.w i == .exited || s.flags i) &&
  okProg (pausedAfter s) (stoppedAfter s) s.ops && gOK s.cpc s.paused s.pauseJobs s.stopped s.ctx s.N &&
  allN s (fun i => wOK s.cpc s.paused s.stopped i (s.w i) (s.flags i) (s.notified i)) &&
  (List.range 4).all (fun i => s.execs i ==
    s.want i + (if (decide (i < s.N) && doneB s.cpc i (s.w i) (s.flags i)) then 1 else 0))

def wcode : WPc → Nat
  | .idle => 0 | .runBlock => 1 | .pLock => 2 | .pInc => 3 | .pWaitEnter => 4 | .pWaiting => 5
  | .pReacquire => 6 | .pDec => 7 | .clear => 8 | .exited => 9
def ccode : CPc → List Nat
  | .ready => [0] | .rbSet b => [1, b] | .rbPub k b => [2, k, b] | .rbWait b => [3, b] | .paWait => [4]
  | .paSet => [5] | .paPub k => [6, k] | .paSetPaused => [7] | .paSpin => [8] | .reLock => [9]
  | .reNotify => [10] | .reUnlock => [11] | .reClear => [12] | .reWait => [13] | .stSet => [14] | .join => [15]
def xcode : Ctx → List Nat
  | .top => [0] | .inRun b => [1, b] | .inStop => [2] | .inResize m => [3, m]
def bcode (b : Bool) : Nat := if b then 1 else 0
def keyOf (s : S) : List Nat :=
  [s.N, s.count, (match s.mutex with | none => 0 | some j => j + 1), bcode s.pauseJobs, bcode s.paused,
   bcode s.stopped, s.ops.length] ++ ccode s.cpc ++ xcode s.ctx ++
  (List.range s.N).flatMap (fun i => [wcode (s.w i), bcode (s.flags i), bcode (s.notified i)]) ++
  (List.range 4).flatMap (fun i => [s.execs i, s.want i])

def finishedB (s : S) : Bool := s.cpc == .ready && s.ops.isEmpty

/-- breadth-first exploration of ALL interleavings (with fuel): number of distinct states, and whether
every visited state satisfies `invB`, is not stuck, and satisfies exactly-once when the caller is `ready` -/
def explore : Nat → List S → List (List Nat) → Bool → Nat × Bool
  | 0, fr, seen, ok => (seen.length, ok && fr.isEmpty)
  | _ + 1, [], seen, ok => (seen.length, ok)
  | fuel + 1, s :: rest, seen, ok =>
    let succs := (tids s).filterMap (step s)
    let good := invB s && (!succs.isEmpty || finishedB s) &&
      (!(s.cpc == .ready) || (List.range 4).all (fun i => s.execs i == s.want i))
    let acc := succs.foldl (fun (acc : List S × List (List Nat)) x =>
      if acc.2.contains (keyOf x) then acc else (acc.1 ++ [x], keyOf x :: acc.2)) (rest, seen)
    explore fuel acc.1 acc.2 (ok && good)

def exploreFrom (fuel n : Nat) (ops : List Op) : Nat × Bool :=
  explore fuel [init n ops] [keyOf (init n ops)] true

-- kernel-checked exhaustive explorations of two small instances (all interleavings)
set_option maxRecDepth 1000000 in
example : exploreFrom 1000 1 [.runBlocks 1, .pause, .stop] = (54, true) := by decide
set_option maxRecDepth 1000000 in
example : exploreFrom 1000 1 [.pause, .runBlocks 1, .resize 2, .stop] = (57, true) := by decide

-- larger instances, evaluated only (a test of the invariant, not a proof): all `(_, true)`
#eval exploreFrom 100000 2 [.runBlocks 1, .pause, .runBlocks 2, .resize 1, .runBlocks 1, .pause, .stop]
#eval exploreFrom 100000 2 [.pause, .resume, .pause, .stop, .stop]
#eval exploreFrom 100000 3 [.runBlocks 2, .pause, .stop]
#eval exploreFrom 100000 2 [.runBlocks 2, .resize 3, .pause, .runBlocks 3, .stop]
-- a program outside `okProg` (publishing to an exited worker) does get stuck: `(_, false)`
#eval exploreFrom 100000 1 [.stop, .runBlocks 1]

/-! ### why `pause()` has to spin until `m_paused_count == m_size`

The worker loop tests `m_stopped` BEFORE its job flag.  If `pause()` returned right after publishing
the pause jobs (without the spin), `stop()` could set `m_stopped` while worker 0 is still at the head
of its loop with its pause job published but not taken.  The worker then leaves the loop, the flag
stays set, and `stop() → resume() → wait()` spins forever.  The state below is exactly that state
(it violates `Inv`: `wOK .reLock` requires the worker to be inside its pause job); after the worker's
exit step and the caller's four resume steps no thread is enabled and the caller has not finished.
The invariant shows that the spin in `pause()` excludes this: at `ready` with `paused`, every worker
is at `pWaitEnter`/`pWaiting`, i.e. none is `idle`, so none can exit before it has cleared its flag. -/
def strandedStart : S :=
  { init 1 [] with flags := fun _ => true, pauseJobs := true, paused := true, stopped := true,
                    cpc := .reLock, ctx := .inStop }

def runSched (s : S) : List Tid → Option S
  | [] => some s
  | t :: ts => match step s t with | some s' => runSched s' ts | none => none

example : invB strandedStart = false := by decide
example : (match runSched strandedStart [.exit 0, .caller, .caller, .caller, .caller] with
    | some s => decide (s.cpc = .reWait) && (tids s).all (fun t => (step s t).isNone) && s.flags 0
    | none => false) = true := by decide

end Fs.Pool4

