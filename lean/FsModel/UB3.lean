import FsModel.UB2
/-! Priority flood, upper bound (C02): one visit preserves the invariant. -/
namespace Fs.UB
open List

variable {α : Type}

section
variable (o : Ord α) (L : Laws o) (z : Nat → α) (nbrs : Nat → List Nat) (seed mask : Nat → Bool)
include L

theorem visit_open_inv (c : Nat) (s : PF α) (nb : Nat)
    (h : UBInv o z nbrs seed mask (some c) s)
    (hm : mask nb = false) (hcl : s.closed nb = false)
    (hlt : o.lt (o.nextUp s.L) (s.elev nb) = true) :
    UBInv o z nbrs seed mask (some c)
      { s with closed := upd s.closed nb true, ctime := upd s.ctime nb s.k,
               openQ := insertQ o (nb, s.elev nb) s.openQ } := by
  obtain ⟨hcc, hce, hct, hk⟩ := h.curInfo c rfl
  have hcne : c ≠ nb := by intro e; subst e; rw [hcc] at hcl; cases hcl
  have qne : ∀ x, s.queued x → x.1 ≠ nb := by
    intro x hx e; have := (h.queued x hx).1; rw [e, hcl] at this; cases this
  have hz : s.elev nb = z nb := h.unclosedZ nb hcl
  refine ⟨?_, ?_, ?_, ?_, ?_, h.pitSorted, h.pit0, h.pitVals, ?_, h.chainLo, h.chainHi, ?_, ?_, ?_, ?_, ?_⟩
  · intro x hx
    simp only [PF.queued, mem_insertQ] at hx
    rcases hx with (hx | hx) | hx
    · subst hx; simp
    · have := h.queued x (Or.inl hx); simp [upd_ne _ _ _ _ (qne x (Or.inl hx)), this]
    · have := h.queued x (Or.inr hx); simp [upd_ne _ _ _ _ (qne x (Or.inr hx)), this]
  · intro n hn
    have hne : n ≠ nb := by intro e; subst e; simp at hn
    exact h.unclosedZ n (by simpa [upd_ne _ _ _ _ hne] using hn)
  · intro b hb; simp only [upd]; split <;> simp [h.seedClosed b hb]
  · intro x hx
    rcases (mem_insertQ o _ x _).mp hx with rfl | hx
    · exact hz
    · exact h.openZ x hx
  · exact insertQ_sorted o L _ _ h.openSorted
  · intro hk' x hx
    rcases (mem_insertQ o _ x _).mp hx with rfl | hx
    · -- LO ≤ L < nextUp L < elev nb
      have h1 := h.chainLo hk
      have h2 : o.lt s.L (s.elev nb) = true := L.trans _ _ _ (L.next_gt _) hlt
      exact L.le_of_lt (L.lt_of_le_of_lt h1 h2)
    · exact h.openLB hk x hx
  · intro n hn
    by_cases hne : n = nb
    · subst hne; simp
    · simp only [upd_ne _ _ _ _ hne] at hn ⊢; exact h.ctimeLe n hn
  · intro x hx
    have hne := qne x (Or.inr hx)
    simp only [upd_ne _ _ _ _ hne]; exact h.pitTime x hx
  · intro y hy p v hp hb
    by_cases hne : y = nb
    · subst hne
      simp only [upd_same]
      have : o.le (z y) v = true := hb y hp.end_mem
      rw [hz]; exact L.le_trans this (le_pw L _ v)
    · simp only [upd_ne _ _ _ _ hne] at hy ⊢; exact h.H y hy p v hp hb
  · intro d hd
    by_cases hdn : d = nb
    · subst hdn; right; left; exact ⟨s.elev d, Or.inl ((mem_insertQ _ _ _ _).mpr (Or.inl rfl))⟩
    · have hd' : s.closed d = true := by simpa [upd_ne _ _ _ _ hdn] using hd
      rcases h.frontier d hd' with hf | ⟨e, hf⟩ | hf
      · exact Or.inl hf
      · right; left; refine ⟨e, ?_⟩
        rcases hf with hf | hf
        · exact Or.inl ((mem_insertQ _ _ _ _).mpr (Or.inr hf))
        · exact Or.inr hf
      · right; right; intro m hm'
        rcases hf m hm' with h1 | h1
        · exact Or.inl h1
        · right; simp only [upd]; split <;> simp [h1]
  · intro c' hc'
    cases hc'
    refine ⟨by simp [upd_ne _ _ _ _ hcne, hcc], hce, by simp [upd_ne _ _ _ _ hcne, hct], hk⟩

theorem visit_pit_inv (c : Nat) (s : PF α) (nb : Nat)
    (h : UBInv o z nbrs seed mask (some c) s)
    (hm : mask nb = false) (hcl : s.closed nb = false) :
    UBInv o z nbrs seed mask (some c)
      { s with elev := upd s.elev nb (o.nextUp s.L), closed := upd s.closed nb true,
               ctime := upd s.ctime nb s.k, pitQ := s.pitQ ++ [(nb, o.nextUp s.L)] } := by
  obtain ⟨hcc, hce, hct, hk⟩ := h.curInfo c rfl
  have hcne : c ≠ nb := by intro e; subst e; rw [hcc] at hcl; cases hcl
  have qne : ∀ x, s.queued x → x.1 ≠ nb := by
    intro x hx e; have := (h.queued x hx).1; rw [e, hcl] at this; cases this
  have cne : ∀ y, s.closed y = true → y ≠ nb := by
    intro y hy e; rw [e, hcl] at hy; cases hy
  refine ⟨?_, ?_, ?_, h.openZ, h.openSorted, ?_, ?_, ?_, h.openLB, h.chainLo, h.chainHi, ?_, ?_, ?_, ?_, ?_⟩
  · intro x hx
    simp only [PF.queued, mem_append, mem_singleton] at hx
    rcases hx with hx | hx | hx
    · have := h.queued x (Or.inl hx); simp [upd_ne _ _ _ _ (qne x (Or.inl hx)), this]
    · have := h.queued x (Or.inr hx); simp [upd_ne _ _ _ _ (qne x (Or.inr hx)), this]
    · subst hx; simp
  · intro n hn
    have hne : n ≠ nb := by intro e; subst e; simp at hn
    simp only [upd_ne _ _ _ _ hne] at hn ⊢; exact h.unclosedZ n hn
  · intro b hb; simp only [upd]; split <;> simp [h.seedClosed b hb]
  · -- pit queue stays sorted: every old entry is ≤ nextUp L
    simp only [SortedQ]
    rw [pairwise_append]
    refine ⟨h.pitSorted, by simp, ?_⟩
    intro a ha b hb
    simp only [mem_singleton] at hb; subst hb
    rcases h.pitVals hk a ha with e | e
    · rw [e]; exact L.le_next _
    · rw [e]; exact L.le_refl _
  · intro hk0; exfalso; have : s.k = 0 := hk0; omega
  · intro _ x hx
    simp only [mem_append, mem_singleton] at hx
    rcases hx with hx | rfl
    · exact h.pitVals hk x hx
    · exact Or.inr rfl
  · intro n hn
    by_cases hne : n = nb
    · subst hne; simp
    · simp only [upd_ne _ _ _ _ hne] at hn ⊢; exact h.ctimeLe n hn
  · intro x hx
    simp only [mem_append, mem_singleton] at hx
    rcases hx with hx | rfl
    · have hne := qne x (Or.inr hx)
      simp only [upd_ne _ _ _ _ hne]; exact h.pitTime x hx
    · exact Or.inr rfl
  · intro y hy p v hp hb
    by_cases hne : y = nb
    · subst hne
      simp only [upd_same]
      -- the path to `y` leaves the closed set somewhere: `u` closed, its successor not
      obtain ⟨p', u, v', hp', hu, hv'1, hv'2, hv'3, hsub⟩ :=
        hp.split s.closed h.seedClosed hcl
      have hb' : Bounded o z p' v := fun w hw => hb w (hsub w hw)
      have hHu := h.H u hu p' v hp' hb'
      have hctu := h.ctimeLe u hu
      rcases h.frontier u hu with hcur | ⟨e, hq⟩ | hall
      · -- u = c
        have huc : u = c := by cases hcur; rfl
        subst huc
        rw [hce] at hHu
        have := L.next_mono _ _ hHu
        exact L.le_trans this (pw_mono_left L (j := s.ctime u + 1 + 1) (by omega) v)
      · have he : s.elev u = e := (h.queued _ hq).2
        rcases hq with hq | hq
        · -- u waits in the open queue: unraised, and ≥ LO
          have hz : e = z u := h.openZ _ hq
          have hlb := h.openLB hk _ hq
          obtain ⟨hhi, hko⟩ := h.chainHi hk
          have huv : o.le e v = true := by rw [hz]; exact hb' u hp'.end_mem
          have h1 : o.le s.L (pw o (s.k - s.kO) v) = true :=
            L.le_trans hhi (pw_mono_right L _ (L.le_trans hlb huv))
          have := L.next_mono _ _ h1
          exact L.le_trans this (pw_mono_left L (j := s.k - s.kO + 1) (by omega) v)
        · -- u waits in the pit queue
          rcases h.pitVals hk _ hq with e1 | e1
          · rcases h.pitTime _ hq with ht | e2
            · -- value L, closed before this pop
              simp only at e1 ht
              rw [he, e1] at hHu
              have := L.next_mono _ _ hHu
              exact L.le_trans this (pw_mono_left L (j := s.ctime u + 1 + 1) (by omega) v)
            · simp only at e1 e2
              rw [he, e2] at hHu
              exact L.le_trans hHu (pw_mono_left L (by omega) v)
          · simp only at e1
            rw [he, e1] at hHu
            exact L.le_trans hHu (pw_mono_left L (by omega) v)
      · rcases hall v' hv'1 with h1 | h1
        · rw [hv'2] at h1; cases h1
        · rw [hv'3] at h1; cases h1
    · simp only [upd_ne _ _ _ _ hne] at hy ⊢; exact h.H y hy p v hp hb
  · intro d hd
    by_cases hdn : d = nb
    · subst hdn; right; left; exact ⟨o.nextUp s.L, Or.inr (by simp)⟩
    · have hd' : s.closed d = true := by simpa [upd_ne _ _ _ _ hdn] using hd
      rcases h.frontier d hd' with hf | ⟨e, hf⟩ | hf
      · exact Or.inl hf
      · right; left; refine ⟨e, ?_⟩
        rcases hf with hf | hf
        · exact Or.inl hf
        · exact Or.inr (by simp [hf])
      · right; right; intro m hm'
        rcases hf m hm' with h1 | h1
        · exact Or.inl h1
        · right; simp only [upd]; split <;> simp [h1]
  · intro c' hc'
    cases hc'
    exact ⟨by simp [upd_ne _ _ _ _ hcne, hcc], by simp [upd_ne _ _ _ _ hcne, hce],
      by simp [upd_ne _ _ _ _ hcne, hct], hk⟩

/-- one visit (tiny = nextUp of the popped node's value, which is `s.L`) -/
theorem visit_inv (c : Nat) (s : PF α) (nb : Nat)
    (h : UBInv o z nbrs seed mask (some c) s) :
    UBInv o z nbrs seed mask (some c) (visit o mask (o.nextUp s.L) s nb) := by
  unfold visit
  by_cases h1 : (mask nb || s.closed nb) = true
  · simp only [h1, if_true]; exact h
  · have hm : mask nb = false := by cases hh : mask nb <;> simp_all
    have hcl : s.closed nb = false := by cases hh : s.closed nb <;> simp_all
    simp only [h1, Bool.false_eq_true, if_false]
    by_cases h2 : o.lt (o.nextUp s.L) (s.elev nb) = true
    · simp only [h2, if_true]; exact visit_open_inv o L z nbrs seed mask c s nb h hm hcl h2
    · simp only [h2, Bool.false_eq_true, if_false]; exact visit_pit_inv o L z nbrs seed mask c s nb h hm hcl

end
end Fs.UB
