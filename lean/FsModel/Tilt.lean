import FsModel.Basic
import FsModel.Dfs
/-! Tilt pass of the spanning-tree resolver (sink_resolver.hpp fill_sinks_sloped): along a
bottom-up order, raise every node that is not above its receiver to one step above it. -/
namespace Fs.Tilt
open Fs.Dfs

variable {α : Type}

structure Ord (α : Type) where
  lt : α → α → Bool
  nextUp : α → α

def tiltStep (o : Ord α) (recv : Nat → Nat) (elev : Tbl α) (i : Nat) : Tbl α :=
  if recv i = i then elev
  else if o.lt (elev.get (recv i)) (elev.get i) then elev
  else elev.set i (o.nextUp (elev.get (recv i)))

def tilt (o : Ord α) (recv : Nat → Nat) (order : List Nat) (elev : Tbl α) : Tbl α :=
  order.foldl (tiltStep o recv) elev

/-- a step only ever changes the node it processes -/
theorem tiltStep_other (o : Ord α) (recv : Nat → Nat) (elev : Tbl α) (i j : Nat) (h : j ≠ i) :
    (tiltStep o recv elev i).get j = elev.get j := by
  unfold tiltStep; split
  · rfl
  · split
    · rfl
    · simp [Tbl.set, h]

theorem tilt_other (o : Ord α) (recv : Nat → Nat) (l : List Nat) (elev : Tbl α) (j : Nat)
    (h : j ∉ l) : (tilt o recv l elev).get j = elev.get j := by
  induction l generalizing elev with
  | nil => rfl
  | cons a t ih =>
    simp only [tilt, List.foldl_cons]
    have ha : j ≠ a := fun e => h (e ▸ List.mem_cons_self)
    have ht : j ∉ t := fun hh => h (List.mem_cons_of_mem _ hh)
    have := ih (tiltStep o recv elev a) ht
    simp only [tilt] at this
    rw [this, tiltStep_other o recv elev a j ha]

/-- after its own step a node is strictly above its receiver -/
theorem tiltStep_self (o : Ord α) (next_gt : ∀ x, o.lt x (o.nextUp x) = true) (recv : Nat → Nat)
    (elev : Tbl α) (i : Nat) (hr : recv i ≠ i) :
    o.lt ((tiltStep o recv elev i).get (recv i)) ((tiltStep o recv elev i).get i) = true := by
  unfold tiltStep
  simp only [hr, if_false]
  by_cases hlt : o.lt (elev.get (recv i)) (elev.get i) = true
  · simp [hlt]
  · simp only [hlt, Bool.false_eq_true, if_false]
    simp only [Tbl.set, hr, if_false, if_true]
    exact next_gt _

/-- **tilt_descends**: along an order in which every node comes after its receiver and no node
is repeated, the tilt pass leaves every non-root node of the order strictly above its receiver. -/
theorem tilt_descends (o : Ord α) (next_gt : ∀ x, o.lt x (o.nextUp x) = true) (recv : Nat → Nat)
    (order : List Nat) (hord : Ordered recv order) (hnd : order.Nodup) (elev : Tbl α) :
    ∀ i, i ∈ order → recv i ≠ i →
      o.lt ((tilt o recv order elev).get (recv i)) ((tilt o recv order elev).get i) = true := by
  -- generalise over the split  order = pre ++ rest  and the current elevation
  suffices H : ∀ (rest pre : List Nat) (e : Tbl α), pre ++ rest = order →
      (∀ i, i ∈ pre → recv i ≠ i → o.lt (e.get (recv i)) (e.get i) = true) →
      ∀ i, i ∈ order → recv i ≠ i → o.lt ((tilt o recv rest e).get (recv i)) ((tilt o recv rest e).get i) = true from
    H order [] elev rfl (fun _ h => by cases h)
  intro rest
  induction rest with
  | nil =>
    intro pre e hsplit hpre i hi hr
    simp only [List.append_nil] at hsplit
    subst hsplit
    exact hpre i hi hr
  | cons a t ih =>
    intro pre e hsplit hpre i hi hr
    simp only [tilt, List.foldl_cons]
    have hnd' : (pre ++ a :: t).Nodup := hsplit ▸ hnd
    have ha_notin_pre : a ∉ pre := by
      intro hh
      have := (List.nodup_append.mp hnd').2.2 a hh a List.mem_cons_self
      exact this rfl
    apply ih (pre ++ [a]) (tiltStep o recv e a) (by simp [hsplit]) _ i hi hr
    intro j hj hrj
    rcases List.mem_append.mp hj with hj | hj
    · -- already processed: neither j nor its receiver is `a`
      have hja : j ≠ a := fun e' => ha_notin_pre (e' ▸ hj)
      have hrec : recv j ∈ pre := by
        obtain ⟨p1, p2, hp⟩ := List.append_of_mem hj
        have hsp : order = p1 ++ j :: (p2 ++ a :: t) := by rw [← hsplit, hp]; simp
        rcases hord.split p1 j _ hsp with h1 | h1
        · exact absurd h1 hrj
        · rw [hp]; exact List.mem_append_left _ h1
      have hra : recv j ≠ a := fun e' => ha_notin_pre (e' ▸ hrec)
      rw [tiltStep_other o recv e a j hja, tiltStep_other o recv e a (recv j) hra]
      exact hpre j hj hrj
    · simp only [List.mem_singleton] at hj
      subst hj
      exact tiltStep_self o next_gt recv e j hrj

end Fs.Tilt
