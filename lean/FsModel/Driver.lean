import FsModel.Wire
import FsModel.Flow
import FsModel.OpSeq
import FsModel.Generated
import FsModel.ImplCheck
import FsModel.SpillCheck

/-! `fsmodel`: reads the harness transcript (scenario lines `C`, implementation-defined inputs
`I`), runs the executable model and prints its own `O` lines in the harness format. -/
namespace Fs.Driver
open Fs.Wire Fs.Flow

abbrev F := Float
def S : Scalar Float := floatScalar

inductive Op where
  | single (threads : Nat)
  | multi (p : Float)
  | pflood
  | mst (boruvka carve : Bool)
  | snap (name : String) (g e : Bool)

def parseOp (tok : String) : Option Op :=
  match tok.splitOn ":" with
  | ["single"] => some (.single 0)
  | ["single", t] => some (.single (natOf t))
  | ["multi", p] => some (.multi (hexF p))
  | ["pflood"] => some .pflood
  | ["mst", m, r] => some (.mst (m == "b") (r == "carve"))
  | ["snap", name, fl] => some (.snap name (fl.toList.contains 'g') (fl.toList.contains 'e'))
  | _ => none

open Fs.OpSeq in
def ofGenDir : Fs.Gen.Dir → Dir
  | .undefined => .undefined | .single => .single | .multi => .multi

open Fs.OpSeq in
/-- operator flags come from the table regenerated from the source (`static constexpr` members) -/
def ofGen (f : Fs.Gen.OpFlags) (graphSnapshot : Bool) : Flags :=
  { graphUpdated := f.graphUpdated, elevUpdated := f.elevUpdated, inDir := ofGenDir f.inDir,
    outDir := ofGenDir f.outDir, graphSnapshot := graphSnapshot }

open Fs.OpSeq in
def flagsOf : Op → Flags
  | .single _ => ofGen Fs.Gen.flags_single_flow_router false
  | .multi _ => ofGen Fs.Gen.flags_multi_flow_router false
  | .pflood => ofGen Fs.Gen.flags_pflood_sink_resolver false
  | .mst _ _ => ofGen Fs.Gen.flags_mst_sink_resolver false
  | .snap _ g _ => ofGen Fs.Gen.flags_flow_snapshot g

structure Call where
  li : Nat
  toks : List String
  inp : List (List String)

/-- a stored graph snapshot: tables, mask and base levels as copied by `flow_snapshot::_save` -/
structure Snap where
  name : String
  g : Graph F
  mask : Nat → Bool
  isBase : Nat → Bool

structure St where
  topo : Topo F := { n := 0, nmax := 0, nbrs := fun _ => [] }
  gstatus : List Nat := []
  ops : List Op := []
  graphOk : Bool := false
  g : Graph F := Graph.empty
  mask : Nat → Bool := fun _ => false
  isBase : Nat → Bool := fun _ => false
  snaps : List Snap := []
  implT : Option Fs.ImplCheck.Tables := none   -- tables the implementation reported at the last update

def findInp (c : Call) (key : String) : Option (List String) :=
  (c.inp.find? (fun l => l.head? == some key)).map List.tail

def findInps (c : Call) (key : String) : List (List String) :=
  (c.inp.filter (fun l => l.head? == some key)).map List.tail

/-- `I topo n nmax`, `I nb i (idx dist)*`, `I gstatus ...` -/
def readTopo (c : Call) (st : St) : St :=
  match findInp c "topo" with
  | some [n, nmax] =>
    let n := natOf n
    let rows := findInps c "nb"
    let tab : Array (List (Nat × F)) := Id.run do
      let mut a := Array.replicate n []
      for r in rows do
        match r with
        | i :: rest =>
          let rec pairs : List String → List (Nat × F)
            | a :: b :: t => (natOf a, hexF b) :: pairs t
            | _ => []
          a := a.setIfInBounds (natOf i) (pairs rest)
        | [] => pure ()
      return a
    { st with topo := { n := n, nmax := natOf nmax, nbrs := fun i => tab.getD i [] },
              gstatus := ((findInp c "gstatus").getD []).map natOf }
  | _ => st

def fromList {β : Type} (d : β) (l : List β) : Nat → β :=
  let a := l.toArray
  fun i => a.getD i d

def dumpGraph (pre : String) (n : Nat) (g : Graph F) : List String :=
  let idx := List.range n
  [ line (pre ++ "rcount") (joinNats (idx.map (fun i => (g.recv i).length))),
    line (pre ++ "recv") (joinNats (idx.flatMap g.recv)),
    line (pre ++ "rdist") (joinF (idx.flatMap g.rdist)),
    line (pre ++ "rweight") (joinF (idx.flatMap g.rweight)),
    line (pre ++ "dcount") (joinNats (idx.map (fun i => (g.donors i).length))),
    line (pre ++ "donors") (joinNats (idx.flatMap g.donors)),
    line (pre ++ "dfs") (joinNats g.dfs),
    line (pre ++ "bfs") (joinNats g.bfs.flatten),
    line (pre ++ "levels") (joinNats (g.bfs.foldl (fun acc l => acc ++ [acc.getLast! + l.length]) [0])) ]

def callGraph (c : Call) (st : St) : St × List String :=
  let st := readTopo c st
  match (c.toks.drop 1).mapM parseOp with
  | none => (st, ["O model-bad-op"])
  | some ops =>
    match Fs.OpSeq.build (ops.map flagsOf) with
    | none => ({ st with ops := ops, graphOk := false }, ["O graph err invalid_argument"])
    | some acc =>
      let n := st.topo.n
      let gkeys := ops.filterMap (fun o => match o with | .snap nm true _ => some nm | _ => none)
      let ekeys := ops.filterMap (fun o => match o with | .snap nm _ true => some nm | _ => none)
      -- direction in force at each graph snapshot decides its table width
      let snapMeta : List String := Id.run do
        let mut dir := Fs.OpSeq.Dir.undefined
        let mut out : List (String × Bool) := []
        for o in ops do
          let f := flagsOf o
          match o with
          | .snap nm true _ =>
            -- std::map::insert keeps the first entry registered under a name
            let sf := match out.find? (·.1 == nm) with
              | some p => p.2
              | none => dir == .single
            out := out ++ [(nm, sf)]
          | _ => pure ()
          if f.graphUpdated && f.outDir != .undefined then dir := f.outDir
        -- std::map iteration of keys is sorted, but the harness walks the key vector
        return out.map (fun p => "O snapmeta " ++ p.1 ++ " " ++ (if p.2 then "1" else "0") ++ " " ++
          toString (if p.2 then 1 else st.topo.nmax))
      let base := (List.range n).filter (fun i => st.gstatus.getD i 0 == 1)
      let isBase := fromList false ((List.range n).map (fun i => st.gstatus.getD i 0 == 1))
      ({ st with ops := ops, graphOk := true, g := Graph.empty, mask := fun _ => false,
                 isBase := isBase, snaps := [] },
       [ "O graph ok",
         line "single_flow" (if acc.outDir == .single then "1" else "0"),
         line "rwidth" (toString (if acc.allSingle then 1 else st.topo.nmax)),
         line "dwidth" (toString (st.topo.nmax + 1)),
         line "gkeys" (" ".intercalate gkeys),
         line "ekeys" (" ".intercalate ekeys) ] ++ snapMeta ++ [ line "base" (joinNats base) ])

structure Run where
  elev : Nat → F
  g : Graph F
  snaps : List Snap
  esnaps : List (String × (Nat → F))
  hang : Bool := false
  notes : List String := []     -- extra output lines (certificate verdicts of the operators)

/-! ### what `_save` copies: driven by the member list regenerated from flow_snapshot.hpp -/

open Fs.Gen in
def coverOf (single : Bool) (member : String) : Cover :=
  match snapshotCopy.find? (·.1 == member) with
  | some (_, cs, cm) => if single then cs else cm
  | none => .none

open Fs.Gen in
def coverRow {β : Type} (c : Cover) (l : List β) : List β :=
  match c with
  | .whole => l
  | .col0 => l.take 1
  | .none => []

open Fs.Gen in
def minCover (a b : Cover) : Cover :=
  match a, b with
  | .none, _ | _, .none => .none
  | .col0, _ | _, .col0 => .col0
  | .whole, .whole => .whole

open Fs.Gen in
/-- the snapshot's observable tables after `_save(graph_impl, snapshot)`; `single` = the snapshot
graph was created single-direction -/
def snapCopy (single : Bool) (g : Graph F) : Graph F :=
  let rc := coverOf single "m_receivers_count"
  let dc := coverOf single "m_donors_count"
  { recv := fun i => coverRow (minCover rc (coverOf single "m_receivers")) (g.recv i),
    rdist := fun i => coverRow (minCover rc (coverOf single "m_receivers_distance")) (g.rdist i),
    rweight := fun i => coverRow (minCover rc (coverOf single "m_receivers_weight")) (g.rweight i),
    donors := fun i => coverRow (minCover dc (coverOf single "m_donors")) (g.donors i),
    dfs := coverRow (coverOf single "m_dfs_indices") g.dfs,
    bfs := match minCover (coverOf single "m_bfs_indices") (coverOf single "m_bfs_levels") with
      | .whole => g.bfs
      | _ => [] }

open Fs.Gen in
def snapMask (single : Bool) (m : Nat → Bool) : Nat → Bool :=
  match minCover (coverOf single "m_mask") (coverOf single "m_mask_initialized") with
  | .whole => m
  | _ => fun _ => false

open Fs.Gen in
def snapBase (single : Bool) (b : Nat → Bool) : Nat → Bool :=
  match coverOf single "m_base_levels" with
  | .whole => b
  | _ => fun _ => false

/-- direction in force before operator `k` (decides whether a graph snapshot is single-column) -/
def dirBefore (ops : List Op) (k : Nat) : Fs.OpSeq.Dir :=
  Fs.OpSeq.dirAfter ((ops.take k).map flagsOf)

abbrev Hook := Env F → Run → Nat → List (Nat × List Nat) → Bool → Bool → Run

/-- one operator of the sequence applied to the running state (`apply` of each operator class) -/
def stepOp (hook : Hook) (env : Env F) (perms : List (Nat × List Nat)) (snapSingle : String → Bool)
    (r : Run) (ok : Op × Nat) : Run :=
  match ok.1 with
  | .single t => { r with g := singleRouter S env (decide (t > 1)) r.elev }
  | .multi p => { r with g := multiRouter S p env r.elev }
  | .pflood => { r with elev := look (pflood S env r.elev) 0.0 }
  | .mst b cv => hook env r ok.2 perms b cv
  | .snap nm g e =>
    let r := if g then
        { r with snaps := (r.snaps.filter (·.name != nm)) ++
            [{ name := nm, g := snapCopy (snapSingle nm) r.g, mask := snapMask (snapSingle nm) env.mask,
               isBase := snapBase (snapSingle nm) env.isBase }] }
      else r
    if e then { r with esnaps := (r.esnaps.filter (·.1 != nm)) ++ [(nm, r.elev)] } else r

/-- `update_routes`: the operators applied in order -/
def runOps (hook : Hook) (env : Env F) (perms : List (Nat × List Nat)) (snapSingle : String → Bool)
    (r0 : Run) (ops : List Op) : Run :=
  ops.zipIdx.foldl (stepOp hook env perms snapSingle) r0

/-- a snapshot graph is single-column iff the direction in force where its name was first
registered is single (`std::map::insert` keeps the first registration) -/
def snapSingleOf (ops : List Op) (nm : String) : Bool :=
  match ops.zipIdx.find? (fun ok => match ok.1 with | .snap n true _ => n == nm | _ => false) with
  | some ok => dirBefore ops ok.2 == .single
  | none => true

def callUpdate (c : Call) (st : St) (mstHook : Hook) :
    St × List String :=
  let n := st.topo.n
  let mask := fromList false (((findInp c "mask").getD []).map (· == "1"))
  let seeds := ((findInp c "seeds").getD []).map natOf
  let isBase := fromList false ((List.range n).map (fun i => seeds.contains i))
  let ops := (((findInp c "ops").getD []).filterMap parseOp)
  let perms := (findInps c "perm").map (fun l => (natOf (l.headD "0"), l.tail.map natOf))
  let z := fromList 0.0 ((c.toks.drop 1).map hexF)
  let env : Env F := { topo := st.topo, mask := mask, seeds := seeds, isBase := isBase }
  let r0 : Run := { elev := z, g := st.g, snaps := st.snaps, esnaps := [] }
  let r := runOps mstHook env perms (snapSingleOf ops) r0 ops
  let same := !(ops.any (fun o => (flagsOf o).elevUpdated))
  let idx := List.range n
  let outs := [ "O update ok", "O input_unchanged 1", line "same_array" (if same then "1" else "0"),
      line "elev" (joinF (idx.map r.elev)) ] ++ dumpGraph "" n r.g ++
      (ops.filterMap (fun o => match o with | .snap nm true _ => some nm | _ => none)).flatMap
        (fun nm => match r.snaps.find? (·.name == nm) with
          | some sn => dumpGraph ("snap:" ++ nm ++ ":") n sn.g
          | none => []) ++
      (ops.filterMap (fun o => match o with | .snap nm _ true => some nm | _ => none)).map
        (fun nm => match r.esnaps.find? (·.1 == nm) with
          | some (_, e) => line ("esnap:" ++ nm) (joinF (idx.map e))
          | none => "O esnap-missing")
  -- certificates on the tables the IMPLEMENTATION reported (handed over as `I impl_*`):
  -- the checkers of `FsModel/ImplCheck.lean`, sound by `Fs.ImplCheck.check*_sound`
  let splitRows (counts : List Nat) (flat : List Nat) : Nat → List Nat :=
    let rows : Array (List Nat) := Id.run do
      let mut out : Array (List Nat) := #[]
      let mut rest := flat
      for k in counts do
        out := out.push (rest.take k)
        rest := rest.drop k
      return out
    fun i => rows.getD i []
  let nats (key : String) : Option (List Nat) := (findInp c key).map (·.map natOf)
  let implT : Option Fs.ImplCheck.Tables :=
    match nats "impl_rcount", nats "impl_recv", nats "impl_dcount", nats "impl_donors", nats "impl_dfs",
          nats "impl_bfs", nats "impl_levels" with
    | some rc, some rv, some dc, some dn, some dfs, some bfs, some lv =>
      let sizes := (lv.zip lv.tail).map (fun p => p.2 - p.1)
      let lvlRows := splitRows sizes bfs
      some { n := n, recv := splitRows rc rv, donors := splitRows dc dn, dfs := dfs,
             bfs := (List.range sizes.length).map lvlRows }
    | _, _, _, _, _, _, _ => none
  let certs : List String :=
    match implT with
    | none => []
    | some t =>
      let c06 := line "cert_c06" (if Fs.ImplCheck.checkC06 t then "1" else "0")
      let resolved := ops.any (fun o => match o with | .pflood => true | .mst _ _ => true | _ => false)
      let basic := ops.any (fun o => match o with | .mst _ false => true | _ => false)
      match resolved, findInp c "impl_elev" with
      | true, some ev =>
        let zi := fromList 0.0 (ev.map hexF)
        -- C02 on the elevation the implementation returned: spill-level table by minimax relaxation,
        -- accepted only if stable; soundness `Fs.ImplCheck.checkC02_sound'` (the symmetry of the
        -- neighbour lists it needs is decided by `nbSymOk`)
        let o : Fs.UB.Ord F := { lt := S.lt, nextUp := S.nextUp }
        let nbI := nbIdx st.topo
        let flood := ops.any (fun o => match o with | .pflood => true | _ => false)
        let k := if flood then n + 2 else n
        let seedF := fun i => decide (i < n) && isBase i
        let c02 := Fs.ImplCheck.nbSymOk n nbI &&
          Fs.ImplCheck.checkC02 o n nbI seedF mask (fun a b => a.toBits == b.toBits) z zi k
        [c06, line "cert_c01" (if Fs.ImplCheck.checkFlow S t (nbIdx st.topo) mask isBase zi (!basic) then "1" else "0"),
         line "cert_c02" (if c02 then "1" else "0")]
      | _, _ => [c06]
  ({ st with ops := ops, g := r.g, mask := mask, isBase := isBase, snaps := r.snaps, implT := implT },
   if r.hang then ["O hang"] else outs ++ certs ++ r.notes)

def callAcc (pre : String) (c : Call) (n : Nat) (g : Graph F) : List String :=
  let src := fromList 0.0 (((findInp c (pre ++ "src")).getD []).map hexF)
  let area := fromList 0.0 (((findInp c (pre ++ "area")).getD []).map hexF)
  let acc := accumulate S n g area src
  [ line (pre ++ "acc_overloads_agree") "1", line (pre ++ "acc") (joinF acc.toList) ]

def callBasins (pre : String) (n : Nat) (g : Graph F) (mask isBase : Nat → Bool) : List String :=
  let b := basins n g mask isBase
  [ line (pre ++ "basins") (joinNats b.labels.toList),
    line (pre ++ "outlets") (joinNats b.outlets), line (pre ++ "pits") (joinNats b.pits) ]

/-- `Fs.ImplCheck.checkBasins` on the labels / outlets / pits the implementation reported for the
tables it reported at the last update (soundness: `checkBasins_sound`) -/
def certBasins (c : Call) (st : St) : List String :=
  match st.implT, findInp c "impl_basins", findInp c "impl_outlets", findInp c "impl_pits" with
  | some t, some lb, some ol, some pt =>
    let labels := fromList 0 (lb.map natOf)
    if (List.range t.n).all (fun i => (t.recv i).length == 1) then
      [line "cert_c19" (if Fs.ImplCheck.checkBasins t st.mask st.isBase labels (ol.map natOf) (pt.map natOf) maxLabel
        then "1" else "0")]
    else []
  | _, _, _, _ => []

end Fs.Driver
