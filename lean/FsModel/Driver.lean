import FsModel.Wire
import FsModel.Flow
import FsModel.OpSeq
import FsModel.Generated

/-! `fsmodel`: reads the harness transcript (scenario lines `C`, implementation-defined inputs
`I`), runs the executable model and prints its own `O` lines in the harness format. -/
namespace Fs.Driver
open Fs.Wire Fs.Flow

abbrev F := Float
def S : Scalar Float := floatScalar

inductive Op where
  | single (threads : Nat)
  | multi (p : Float)
  | pflood
  | mst (boruvka carve : Bool)
  | snap (name : String) (g e : Bool)

def parseOp (tok : String) : Option Op :=
  match tok.splitOn ":" with
  | ["single"] => some (.single 0)
  | ["single", t] => some (.single (natOf t))
  | ["multi", p] => some (.multi (hexF p))
  | ["pflood"] => some .pflood
  | ["mst", m, r] => some (.mst (m == "b") (r == "carve"))
  | ["snap", name, fl] => some (.snap name (fl.toList.contains 'g') (fl.toList.contains 'e'))
  | _ => none

open Fs.OpSeq in
def ofGenDir : Fs.Gen.Dir → Dir
  | .undefined => .undefined | .single => .single | .multi => .multi

open Fs.OpSeq in
/-- operator flags come from the table regenerated from the source (`static constexpr` members) -/
def ofGen (f : Fs.Gen.OpFlags) (graphSnapshot : Bool) : Flags :=
  { graphUpdated := f.graphUpdated, elevUpdated := f.elevUpdated, inDir := ofGenDir f.inDir,
    outDir := ofGenDir f.outDir, graphSnapshot := graphSnapshot }

open Fs.OpSeq in
def flagsOf : Op → Flags
  | .single _ => ofGen Fs.Gen.flags_single_flow_router false
  | .multi _ => ofGen Fs.Gen.flags_multi_flow_router false
  | .pflood => ofGen Fs.Gen.flags_pflood_sink_resolver false
  | .mst _ _ => ofGen Fs.Gen.flags_mst_sink_resolver false
  | .snap _ g _ => ofGen Fs.Gen.flags_flow_snapshot g

structure Call where
  li : Nat
  toks : List String
  inp : List (List String)

structure St where
  topo : Topo F := { n := 0, nmax := 0, nbrs := fun _ => [] }
  gstatus : List Nat := []
  ops : List Op := []
  graphOk : Bool := false
  g : Graph F := Graph.empty
  mask : Nat → Bool := fun _ => false
  isBase : Nat → Bool := fun _ => false
  snaps : List (String × Graph F × (Nat → Bool) × (Nat → Bool)) := []

def findInp (c : Call) (key : String) : Option (List String) :=
  (c.inp.find? (fun l => l.head? == some key)).map List.tail

def findInps (c : Call) (key : String) : List (List String) :=
  (c.inp.filter (fun l => l.head? == some key)).map List.tail

/-- `I topo n nmax`, `I nb i (idx dist)*`, `I gstatus ...` -/
def readTopo (c : Call) (st : St) : St :=
  match findInp c "topo" with
  | some [n, nmax] =>
    let n := natOf n
    let rows := findInps c "nb"
    let tab : Array (List (Nat × F)) := Id.run do
      let mut a := Array.replicate n []
      for r in rows do
        match r with
        | i :: rest =>
          let rec pairs : List String → List (Nat × F)
            | a :: b :: t => (natOf a, hexF b) :: pairs t
            | _ => []
          a := a.setIfInBounds (natOf i) (pairs rest)
        | [] => pure ()
      return a
    { st with topo := { n := n, nmax := natOf nmax, nbrs := fun i => tab.getD i [] },
              gstatus := ((findInp c "gstatus").getD []).map natOf }
  | _ => st

def fromList {β : Type} (d : β) (l : List β) : Nat → β :=
  let a := l.toArray
  fun i => a.getD i d

def dumpGraph (pre : String) (n : Nat) (g : Graph F) : List String :=
  let idx := List.range n
  [ line (pre ++ "rcount") (joinNats (idx.map (fun i => (g.recv i).length))),
    line (pre ++ "recv") (joinNats (idx.flatMap g.recv)),
    line (pre ++ "rdist") (joinF (idx.flatMap g.rdist)),
    line (pre ++ "rweight") (joinF (idx.flatMap g.rweight)),
    line (pre ++ "dcount") (joinNats (idx.map (fun i => (g.donors i).length))),
    line (pre ++ "donors") (joinNats (idx.flatMap g.donors)),
    line (pre ++ "dfs") (joinNats g.dfs),
    line (pre ++ "bfs") (joinNats g.bfs.flatten),
    line (pre ++ "levels") (joinNats (g.bfs.foldl (fun acc l => acc ++ [acc.getLast! + l.length]) [0])) ]

def callGraph (c : Call) (st : St) : St × List String :=
  let st := readTopo c st
  match (c.toks.drop 1).mapM parseOp with
  | none => (st, ["O model-bad-op"])
  | some ops =>
    match Fs.OpSeq.build (ops.map flagsOf) with
    | none => ({ st with ops := ops, graphOk := false }, ["O graph err invalid_argument"])
    | some acc =>
      let n := st.topo.n
      let gkeys := ops.filterMap (fun o => match o with | .snap nm true _ => some nm | _ => none)
      let ekeys := ops.filterMap (fun o => match o with | .snap nm _ true => some nm | _ => none)
      -- direction in force at each graph snapshot decides its table width
      let snapMeta : List String := Id.run do
        let mut dir := Fs.OpSeq.Dir.undefined
        let mut out : List (String × Bool) := []
        for o in ops do
          let f := flagsOf o
          match o with
          | .snap nm true _ =>
            -- std::map::insert keeps the first entry registered under a name
            let sf := match out.find? (·.1 == nm) with
              | some p => p.2
              | none => dir == .single
            out := out ++ [(nm, sf)]
          | _ => pure ()
          if f.graphUpdated && f.outDir != .undefined then dir := f.outDir
        -- std::map iteration of keys is sorted, but the harness walks the key vector
        return out.map (fun p => "O snapmeta " ++ p.1 ++ " " ++ (if p.2 then "1" else "0") ++ " " ++
          toString (if p.2 then 1 else st.topo.nmax))
      let base := (List.range n).filter (fun i => st.gstatus.getD i 0 == 1)
      let isBase := fromList false ((List.range n).map (fun i => st.gstatus.getD i 0 == 1))
      ({ st with ops := ops, graphOk := true, g := Graph.empty, mask := fun _ => false,
                 isBase := isBase, snaps := [] },
       [ "O graph ok",
         line "single_flow" (if acc.outDir == .single then "1" else "0"),
         line "rwidth" (toString (if acc.allSingle then 1 else st.topo.nmax)),
         line "dwidth" (toString (st.topo.nmax + 1)),
         line "gkeys" (" ".intercalate gkeys),
         line "ekeys" (" ".intercalate ekeys) ] ++ snapMeta ++ [ line "base" (joinNats base) ])

structure Run where
  elev : Nat → F
  g : Graph F
  snaps : List (String × Graph F × (Nat → Bool) × (Nat → Bool))
  esnaps : List (String × (Nat → F))
  hang : Bool := false

def applyOp (env : Env F) (r : Run) (k : Nat) (perms : List (Nat × List Nat)) : Op → Run
  | .single t => { r with g := singleRouter S env (decide (t > 1)) r.elev }
  | .multi p => { r with g := multiRouter S p env r.elev }
  | .pflood => { r with elev := look (pflood S env r.elev) 0.0 }
  | .mst _ _ => let _ := (k, perms); r   -- filled in by FsModel.Mst (see Driver2)
  | .snap nm g e =>
    let r := if g then { r with snaps := (r.snaps.filter (·.1 != nm)) ++ [(nm, r.g, env.mask, env.isBase)] } else r
    if e then { r with esnaps := (r.esnaps.filter (·.1 != nm)) ++ [(nm, r.elev)] } else r

def callUpdate (c : Call) (st : St) (mstHook : Env F → Run → Nat → List (Nat × List Nat) → Bool → Bool → Run) :
    St × List String :=
  let n := st.topo.n
  let mask := fromList false (((findInp c "mask").getD []).map (· == "1"))
  let seeds := ((findInp c "seeds").getD []).map natOf
  let isBase := fromList false ((List.range n).map (fun i => seeds.contains i))
  let ops := (((findInp c "ops").getD []).filterMap parseOp)
  let perms := (findInps c "perm").map (fun l => (natOf (l.headD "0"), l.tail.map natOf))
  let z := fromList 0.0 ((c.toks.drop 1).map hexF)
  let env : Env F := { topo := st.topo, mask := mask, seeds := seeds, isBase := isBase }
  let r0 : Run := { elev := z, g := st.g, snaps := st.snaps, esnaps := [] }
  let r := (ops.zipIdx).foldl (fun r ok =>
      match ok.1 with
      | .mst b cv => mstHook env r ok.2 perms b cv
      | o => applyOp env r ok.2 perms o) r0
  let same := !(ops.any (fun o => (flagsOf o).elevUpdated))
  let idx := List.range n
  let outs := [ "O update ok", "O input_unchanged 1", line "same_array" (if same then "1" else "0"),
      line "elev" (joinF (idx.map r.elev)) ] ++ dumpGraph "" n r.g ++
      (ops.filterMap (fun o => match o with | .snap nm true _ => some nm | _ => none)).flatMap
        (fun nm => match r.snaps.find? (·.1 == nm) with
          | some (_, g, _, _) => dumpGraph ("snap:" ++ nm ++ ":") n g
          | none => []) ++
      (ops.filterMap (fun o => match o with | .snap nm _ true => some nm | _ => none)).map
        (fun nm => match r.esnaps.find? (·.1 == nm) with
          | some (_, e) => line ("esnap:" ++ nm) (joinF (idx.map e))
          | none => "O esnap-missing")
  ({ st with ops := ops, g := r.g, mask := mask, isBase := isBase, snaps := r.snaps },
   if r.hang then ["O hang"] else outs)

def callAcc (pre : String) (c : Call) (n : Nat) (g : Graph F) : List String :=
  let src := fromList 0.0 (((findInp c (pre ++ "src")).getD []).map hexF)
  let area := fromList 0.0 (((findInp c (pre ++ "area")).getD []).map hexF)
  let acc := accumulate S n g area src
  [ line (pre ++ "acc_overloads_agree") "1", line (pre ++ "acc") (joinF acc.toList) ]

def callBasins (pre : String) (n : Nat) (g : Graph F) (mask isBase : Nat → Bool) : List String :=
  let b := basins n g mask isBase
  [ line (pre ++ "basins") (joinNats b.labels.toList),
    line (pre ++ "outlets") (joinNats b.outlets), line (pre ++ "pits") (joinNats b.pits) ]

end Fs.Driver
