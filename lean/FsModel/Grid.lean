import FsModel.Basic
import FsModel.Generated
import FsModel.U64
import FsModel.Iter

/-! Structured grids: node codes, table-driven neighbour lists (tables regenerated from the
source by translate.py), the `size_t` index arithmetic of the code, distances, status
composition with error kinds, status-filtered iteration. Core Lean only. -/
namespace Fs.Grid
open Fs.Gen

inductive Conn | rook | queen | bishop deriving DecidableEq, Repr

def offs : Conn → List (Nat × Nat)
  | .rook => offsRook | .queen => offsQueen | .bishop => offsBishop

def countTab : Conn → Bool → Bool → List Nat
  | .rook => countRook | .queen => countQueen | .bishop => countBishop

def nmax : Conn → Nat
  | .rook => nmaxRook | .queen => nmaxQueen | .bishop => nmaxBishop

def symVal (dr dc : Int) : Sym → Int
  | .one => 1 | .mone => -1 | .dr => dr | .mdr => -dr | .dc => dc | .mdc => -dc

/-- `build_nodes_codes` -/
def axisCode (len x mid : Nat) : Nat :=
  if x = len - 1 then mid * codeLastMul else if x = 0 then 0 else mid

def codeOf (rows cols r c : Nat) : Nat := axisCode rows r codeRowMid + axisCode cols c codeColMid

def pick (a b : Int) : Nat → Int
  | 0 => 0 | 1 => a | _ => b

/-- selected offsets of a node code: `node_neighbors_offsets(up, down, left, right)` -/
def codeOffsets (conn : Conn) (rows cols : Nat) (lv lh : Bool) (code : Nat) : List (Int × Int) :=
  let dr : Int := if lv then (rows : Int) - 1 else 0
  let dc : Int := if lh then (cols : Int) - 1 else 0
  let t := codedTuples.getD code (.mone, .one, .mone, .one)
  let up := symVal dr dc t.1
  let down := symVal dr dc t.2.1
  let left := symVal dr dc t.2.2.1
  let right := symVal dr dc t.2.2.2
  (offs conn).filterMap fun (sr, sc) =>
    let o0 := pick up down sr
    let o1 := pick left right sc
    if (sr ≠ 0 ∧ o0 = 0) ∨ (sc ≠ 0 ∧ o1 = 0) then none else some (o0, o1)

structure Raster (α : Type) where
  rows : Nat
  cols : Nat
  dy : α
  dx : α
  conn : Conn
  lv : Bool
  lh : Bool

variable {α : Type}

def sentinel : Nat := 18446744073709551615

/-- flat neighbour indices as the code computes them (wrap-around `size_t` arithmetic), cut or
padded to the count table entry the accessors use -/
def rasterNbIdx (g : Raster α) (idx : Nat) : List Nat :=
  let r := idx / g.cols
  let c := idx - r * g.cols
  let code := codeOf g.rows g.cols r c
  let l := (codeOffsets g.conn g.rows g.cols g.lv g.lh code).map fun (o0, o1) =>
    (Fs.nbIndex o0 o1 (UInt64.ofNat g.cols) (UInt64.ofNat idx)).toNat
  let cnt := (countTab g.conn g.lv g.lh).getD code 0
  (l ++ List.replicate (nmax g.conn) sentinel).take cnt

/-- `compute_distance`: `sqrt(sum(square(where(offset == 0, 0, 1) * spacing)))` -/
def stepDist (S : Scalar α) (dy dx : α) (o : Int × Int) : α :=
  let m0 := if o.1 = 0 then S.zero else S.one
  let m1 := if o.2 = 0 then S.zero else S.one
  let a := S.mul m0 dy
  let b := S.mul m1 dx
  S.sqrt (S.add (S.add S.zero (S.mul a a)) (S.mul b b))

def rasterNbDist (S : Scalar α) (g : Raster α) (idx : Nat) : List α :=
  let r := idx / g.cols
  let c := idx - r * g.cols
  let code := codeOf g.rows g.cols r c
  let l := (codeOffsets g.conn g.rows g.cols g.lv g.lh code).map (stepDist S g.dy g.dx)
  let cnt := (countTab g.conn g.lv g.lh).getD code 0
  (l ++ List.replicate (nmax g.conn) S.zero).take cnt

def rasterCount (g : Raster α) (idx : Nat) : Nat :=
  let r := idx / g.cols
  (countTab g.conn g.lv g.lh).getD (codeOf g.rows g.cols r (idx - r * g.cols)) 0

/-! ### profile grid -/

def profileNbIdx (n : Nat) (looped : Bool) (idx : Nat) : List Nat :=
  let gcode := if idx = n - 1 then 2 else if idx = 0 then 0 else 1
  let l :=
    if idx = 0 then (if looped then [n - 1, 1] else [1])
    else if idx = n - 1 then (if looped then [n - 2, 0] else [n - 2])
    else [idx - 1, idx + 1]
  (l ++ [sentinel, sentinel]).take ((profileCount looped).getD gcode 0)

/-! ### node status -/

inductive Err | invalidArgument | outOfRange | runtimeError deriving DecidableEq, Repr

def Err.name : Err → String
  | .invalidArgument => "invalid_argument" | .outOfRange => "out_of_range" | .runtimeError => "runtime_error"

/-- statuses are carried as their enum values (generated) -/
def prio (s : Nat) : Nat :=
  if s = nsCore then prioCore else if s = nsLooped then prioLooped
  else if s = nsFixedGradient then prioFixedGradient else prioFixedValue

def maxNS (a b : Nat) : Nat := if prio a < prio b then b else a    -- std::max(a, b, cmp)

structure Bounds where
  left : Nat
  right : Nat
  top : Nat
  bottom : Nat

def symmetricLoops (b : Bounds) : Bool :=
  ((b.left == nsLooped) == (b.right == nsLooped)) && ((b.top == nsLooped) == (b.bottom == nsLooped))

/-- the code: fill core, paint left/right columns, then top/bottom rows, then the four corners -/
def paint (rows cols : Nat) (b : Bounds) (r c : Nat) : Nat :=
  let s1 := if c = 0 then b.left else nsCore
  let s2 := if c = cols - 1 then b.right else s1
  let s3 := if r = 0 then b.top else s2
  let s4 := if r = rows - 1 then b.bottom else s3
  -- corners, in the order the code writes them (a later one wins on degenerate shapes)
  let s5 := if r = 0 ∧ c = 0 then maxNS b.top b.left else s4
  let s6 := if r = 0 ∧ c = cols - 1 then maxNS b.top b.right else s5
  let s7 := if r = rows - 1 ∧ c = 0 then maxNS b.bottom b.left else s6
  if r = rows - 1 ∧ c = cols - 1 then maxNS b.bottom b.right else s7

/-- insertion sort of override entries by key (std::map iteration order) -/
def insertKey {β : Type} (lt : β → β → Bool) (x : β) : List β → List β
  | [] => [x]
  | y :: ys => if lt x y then x :: y :: ys else y :: insertKey lt x ys

def sortKeys {β : Type} (lt : β → β → Bool) (l : List β) : List β := l.foldr (insertKey lt) []

/-- raster overrides: bounds check, then "looped not allowed", then "cannot overwrite looped" -/
def rasterOverrides (rows cols : Nat) (st : Array Nat) :
    List ((Nat × Nat) × Nat) → Except Err (Array Nat)
  | [] => .ok st
  | ((r, c), s) :: rest =>
    if r ≥ rows ∨ c ≥ cols then .error .outOfRange
    else if s = nsLooped then .error .invalidArgument
    else if st.getD (r * cols + c) 0 = nsLooped then .error .invalidArgument
    else rasterOverrides rows cols (st.setIfInBounds (r * cols + c) s) rest

def rasterStatus (rows cols : Nat) (b : Bounds) (ov : List ((Nat × Nat) × Nat)) : Except Err (Array Nat) :=
  if !symmetricLoops b then .error .invalidArgument
  else
    let base := Fs.tab (rows * cols) (fun i => paint rows cols b (i / cols) (i % cols))
    let keyLt := fun (x y : (Nat × Nat) × Nat) => x.1.1 < y.1.1 || (x.1.1 == y.1.1 && x.1.2 < y.1.2)
    rasterOverrides rows cols base (sortKeys keyLt ov)

/-- profile overrides: "looped not allowed" first, then the bounds-checked access -/
def profileOverrides (n : Nat) (st : Array Nat) : List (Nat × Nat) → Except Err (Array Nat)
  | [] => .ok st
  | (i, s) :: rest =>
    if s = nsLooped then .error .invalidArgument
    else if i ≥ n then .error .outOfRange
    else if st.getD i 0 = nsLooped then .error .invalidArgument
    else profileOverrides n (st.setIfInBounds i s) rest

def profileStatus (n : Nat) (left right : Nat) (ov : List (Nat × Nat)) : Except Err (Array Nat) :=
  if (left == nsLooped) != (right == nsLooped) then .error .invalidArgument
  else
    let base := Fs.tab n (fun i => if i = n - 1 then right else if i = 0 then left else nsCore)
    profileOverrides n base (sortKeys (fun (x y : Nat × Nat) => x.1 < y.1) ov)

/-! ### status-filtered iteration (`grid_nodes_indices`) -/

/-- forward iteration: `begin()` skips to the first match; `++` steps once then skips -/
def iterFwdAux (size : Nat) (p : Nat → Bool) : Nat → Nat → List Nat
  | 0, _ => []
  | fuel + 1, idx =>
    if idx ≥ size then []
    else idx :: iterFwdAux size p fuel (Fs.Iter.skipFwd false size p (size + 1) (idx + 1) []).1

def iterFwd (size : Nat) (p : Nat → Bool) : List Nat :=
  iterFwdAux size p (size + 1) (Fs.Iter.skipFwd false size p (size + 1) 0 []).1

/-- `--`: step down once, then keep stepping while the filter fails and the index is positive -/
def skipBack (p : Nat → Bool) : Nat → Nat → Nat
  | 0, idx => idx
  | fuel + 1, idx => if idx > 0 ∧ !p idx then skipBack p fuel (idx - 1) else idx

/-- reverse iteration from `end()` down to `begin()` -/
def iterRevAux (p : Nat → Bool) (first : Nat) : Nat → Nat → List Nat
  | 0, _ => []
  | fuel + 1, cur =>
    if cur = first then []
    else
      let k := skipBack p (cur + 1) (cur - 1)
      k :: iterRevAux p first fuel k

def iterRev (size : Nat) (p : Nat → Bool) : List Nat :=
  let first := (Fs.Iter.skipFwd false size p (size + 1) 0 []).1
  iterRevAux p first (size + 1) size

end Fs.Grid
