import FsModel.Router
/-! C01, priority flood followed by the single-direction router: composition of the flood's
"no interior minimum" property with the router's steepest-descent property. The two facts about
the flood (`hparent`, from `pflood_parent` + `pflood_complete`) and the router scan (`hroute`,
from `route_spec`) enter as hypotheses in terms of plain functions. -/
namespace Fs.C01
open Fs.Router

variable {α : Type}

/-- connected to a base level through unmasked neighbours -/
inductive Reach (nbrs : Nat → List Nat) (seed mask : Nat → Bool) : Nat → Prop
  | seed (s) : seed s = true → Reach nbrs seed mask s
  | step (c m) : Reach nbrs seed mask c → m ∈ nbrs c → mask m = false → Reach nbrs seed mask m

/-- following receivers (zero or more proper steps) -/
inductive Flows (recv : Nat → Nat) : Nat → Nat → Prop
  | refl (a) : Flows recv a a
  | step (a b) : Flows recv a b → recv b ≠ b → Flows recv a (recv b)

theorem C01_pflood_single (o : Ops α) (L : Laws o) (f : Nat → α) (zero : α) (seed mask : Nat → Bool)
    (nbrsD : Nat → List (Nat × α)) (recv : Nat → Nat)
    (hsym : ∀ a b, b ∈ (nbrsD a).map Prod.fst → a ∈ (nbrsD b).map Prod.fst)
    (hparent : ∀ n, Reach (fun i => (nbrsD i).map Prod.fst) seed mask n → seed n = false →
        ∃ c, mask c = false ∧ n ∈ (nbrsD c).map Prod.fst ∧ o.lt (f c) (f n) = true)
    (hroute : ∀ i, seed i = false → mask i = false →
        ∃ b, Good o mask f i zero (nbrsD i) b ∧ recv i = b.recv)
    (hterminal : ∀ s, seed s = true → recv s = s) :
    -- every node connected to a base level, whatever it flows to, can only stop at a base level,
    (∀ n, Reach (fun i => (nbrsD i).map Prod.fst) seed mask n →
      ∀ t, Flows recv n t → recv t = t → seed t = true) ∧
    -- and every proper step goes strictly downhill to an unmasked neighbour
    (∀ i, seed i = false → mask i = false → recv i ≠ i →
      mask (recv i) = false ∧ o.lt (f (recv i)) (f i) = true ∧ recv i ∈ (nbrsD i).map Prod.fst) := by
  have stepfact : ∀ i, seed i = false → mask i = false → recv i ≠ i →
      mask (recv i) = false ∧ o.lt (f (recv i)) (f i) = true ∧ recv i ∈ (nbrsD i).map Prod.fst := by
    intro i hs hm hne
    obtain ⟨b, hg, hb⟩ := hroute i hs hm
    rcases hg with ⟨h1, _⟩ | ⟨p, hp, hc, h1, _⟩
    · exact absurd (hb.trans h1) hne
    · have : cand o mask f i p = true := hc
      simp only [cand, Bool.and_eq_true, Bool.not_eq_true'] at this
      rw [hb, h1]
      exact ⟨this.1, this.2, List.mem_map.mpr ⟨p, hp, rfl⟩⟩
  -- reachability is preserved along the flow
  have hreach : ∀ n, Reach (fun i => (nbrsD i).map Prod.fst) seed mask n →
      ∀ t, Flows recv n t → Reach (fun i => (nbrsD i).map Prod.fst) seed mask t := by
    intro n hn t hflow
    induction hflow with
    | refl => exact hn
    | step b _ hne ih =>
      have hsb' : seed b = false := by
        cases h : seed b
        · rfl
        · exact absurd (hterminal b h) hne
      have hmb : mask b = false := by
        cases ih with
        | seed s hs => rw [hs] at hsb'; cases hsb'
        | step c m _ _ hm => exact hm
      obtain ⟨h1, _, h3⟩ := stepfact b hsb' hmb hne
      exact Reach.step b (recv b) ih h3 h1
  refine ⟨?_, stepfact⟩
  intro n hn t hflow hterm
  have hrt := hreach n hn t hflow
  by_cases hst : seed t = true
  · exact hst
  · exfalso
    have hst' : seed t = false := by cases h : seed t <;> simp_all
    have hmt : mask t = false := by
      cases hrt with
      | seed s hs => rw [hs] at hst'; cases hst'
      | step c m _ _ hm => exact hm
    obtain ⟨c, hc1, hc2, hc3⟩ := hparent t hrt hst'
    have hct : c ∈ (nbrsD t).map Prod.fst := hsym c t hc2
    obtain ⟨p, hp, hpc⟩ := List.mem_map.mp hct
    obtain ⟨b, hg, hb⟩ := hroute t hst' hmt
    rcases hg with ⟨_, _, _, hnone⟩ | ⟨q, _, hcq, h1, _⟩
    · have := hnone p hp
      simp [cand, hpc, hc1, hc3] at this
    · have : cand o mask f t q = true := hcq
      simp only [cand, Bool.and_eq_true, Bool.not_eq_true'] at this
      have hrq : recv t = q.1 := hb.trans h1
      rw [hterm] at hrq
      rw [← hrq, L.irrefl] at this
      exact absurd this.2 (by simp)

end Fs.C01
