namespace Fs
/-- raster_grid::neighbors_indices_impl: `size_t(off0) * ncols + size_t(off1) + idx` (wraps mod 2^64) -/
def nbIndex (off0 off1 : Int) (ncols idx : UInt64) : UInt64 :=
  UInt64.ofInt off0 * ncols + UInt64.ofInt off1 + idx

theorem ofInt_toNat (x : UInt64) : UInt64.ofInt (x.toNat : Int) = x := by
  simp [UInt64.ofInt]
  have : ((x.toNat : Int) % 18446744073709551616).toNat = x.toNat := by
    have := x.toNat_lt; omega
  rw [this]; simp

theorem toNat_ofInt_of_range (z : Int) (h0 : 0 ≤ z) (h1 : z < 2 ^ 64) :
    ((UInt64.ofInt z).toNat : Int) = z := by
  simp only [UInt64.ofInt]
  have : (z % 2 ^ 64).toNat < 2 ^ 64 := by omega
  rw [UInt64.toNat_ofNat_of_lt' this]
  omega

theorem nbIndex_toNat (off0 off1 : Int) (ncols idx : UInt64)
    (h0 : 0 ≤ (idx.toNat : Int) + off0 * ncols.toNat + off1)
    (h1 : (idx.toNat : Int) + off0 * ncols.toNat + off1 < 2 ^ 64) :
    ((nbIndex off0 off1 ncols idx).toNat : Int) = idx.toNat + off0 * ncols.toNat + off1 := by
  have e : nbIndex off0 off1 ncols idx = UInt64.ofInt ((idx.toNat : Int) + off0 * ncols.toNat + off1) := by
    unfold nbIndex
    rw [UInt64.ofInt_add, UInt64.ofInt_add, UInt64.ofInt_mul, ofInt_toNat, ofInt_toNat]
    rw [UInt64.add_comm (_ * _ + _) idx, UInt64.add_assoc]
  rw [e]
  exact toNat_ofInt_of_range _ h0 h1
end Fs
