/-! Worker-pool protocol, repaired configuration (notify under the mutex), N arbitrary:
invariant + progress ("no stuck state"). Function-style state. -/
namespace Fs.Pool3

inductive WPc | idle | runBlock | pLock | pInc | pWaitEnter | pWaiting | pReacquire | pDec | clear
deriving DecidableEq, Repr

inductive CPc
  | ready
  | rbSet | rbPub (k : Nat) | rbWait
  | paWait | paSet | paPub (k : Nat) | paSetPaused | paSpin
  | reLock | reNotify | reUnlock | reClear | reWait
deriving DecidableEq, Repr

inductive Op | runBlocks | pause | resume deriving DecidableEq, Repr

structure S where
  N : Nat
  flags : Nat → Bool
  w : Nat → WPc
  notified : Nat → Bool
  count : Nat
  mutex : Option Nat          -- some i, i < N: worker i; some N: the caller
  pauseJobs : Bool            -- which job vector `p_jobs` points to
  paused : Bool
  cpc : CPc
  ops : List Op

def upd {β} (f : Nat → β) (i : Nat) (v : β) : Nat → β := fun j => if j = i then v else f j
@[simp] theorem upd_same {β} (f : Nat → β) (i : Nat) (v : β) : upd f i v i = v := by simp [upd]
theorem upd_ne {β} (f : Nat → β) (i j : Nat) (v : β) (h : j ≠ i) : upd f i v j = f j := by simp [upd, h]

def stepW (s : S) (i : Nat) : Option S :=
  match s.w i with
  | .idle => if s.flags i then
      some { s with w := upd s.w i (if s.pauseJobs then .pLock else .runBlock) } else none
  | .runBlock => some { s with w := upd s.w i .clear }
  | .pLock => if s.mutex.isNone then some { s with mutex := some i, w := upd s.w i .pInc } else none
  | .pInc => some { s with count := s.count + 1, w := upd s.w i .pWaitEnter }
  | .pWaitEnter => some { s with mutex := none, notified := upd s.notified i false, w := upd s.w i .pWaiting }
  | .pWaiting => if s.notified i then some { s with w := upd s.w i .pReacquire } else none
  | .pReacquire => if s.mutex.isNone then some { s with mutex := some i, w := upd s.w i .pDec } else none
  | .pDec => some { s with count := s.count - 1, mutex := none, w := upd s.w i .clear }
  | .clear => some { s with flags := upd s.flags i false, w := upd s.w i .idle }

def allFlagsClear (s : S) : Bool := (List.range s.N).all (fun i => !s.flags i)

def stepC (s : S) : Option S :=
  match s.cpc with
  | .ready => match s.ops with
    | [] => none
    | .runBlocks :: r => some { s with ops := r, cpc := .rbSet }
    | .pause :: r => some { s with ops := r, cpc := if s.paused then .ready else .paWait }
    | .resume :: r => some { s with ops := r, cpc := if s.paused then .reLock else .ready }
  | .rbSet => some { s with pauseJobs := false, cpc := .rbPub 0 }
  | .rbPub k => if k < s.N then some { s with flags := upd s.flags k true, cpc := .rbPub (k + 1) }
                else some { s with cpc := .rbWait }
  | .rbWait => if allFlagsClear s then some { s with cpc := .ready } else none
  | .paWait => if allFlagsClear s then some { s with cpc := .paSet } else none
  | .paSet => some { s with pauseJobs := true, cpc := .paPub 0 }
  | .paPub k => if k < s.N then some { s with flags := upd s.flags k true, cpc := .paPub (k + 1) }
                else some { s with cpc := .paSetPaused }
  | .paSetPaused => some { s with paused := true, cpc := .paSpin }
  | .paSpin => if s.count = s.N then some { s with cpc := .ready } else none
  | .reLock => if s.mutex.isNone then some { s with mutex := some s.N, cpc := .reNotify } else none
  | .reNotify => some { s with notified := fun i => s.notified i || (s.w i == .pWaiting), cpc := .reUnlock }
  | .reUnlock => some { s with mutex := none, cpc := .reClear }
  | .reClear => some { s with paused := false, cpc := .reWait }
  | .reWait => if allFlagsClear s then some { s with cpc := .ready } else none

def step (s : S) (t : Nat) : Option S := if t = s.N then stepC s else if t < s.N then stepW s t else none

def finished (s : S) : Prop := s.cpc = .ready ∧ s.ops = []

/-- programs the library issues: `runBlocks` only while not paused -/
def okProg : Bool → List Op → Bool
  | _, [] => true
  | p, .runBlocks :: r => !p && okProg false r
  | _, .pause :: r => okProg true r
  | _, .resume :: r => okProg false r

/-- value of `m_paused` once the current API call has returned -/
def pausedAfter (s : S) : Bool :=
  match s.cpc with
  | .ready => s.paused
  | .rbSet | .rbPub _ | .rbWait => false
  | .paWait | .paSet | .paPub _ | .paSetPaused | .paSpin => true
  | .reLock | .reNotify | .reUnlock | .reClear | .reWait => false

/-- which worker states hold the mutex -/
def holds : WPc → Bool
  | .pInc | .pWaitEnter | .pDec => true
  | _ => false
/-- which worker states are counted in `m_paused_count` -/
def counted : WPc → Bool
  | .pWaitEnter | .pWaiting | .pReacquire | .pDec => true
  | _ => false
def inBlock : WPc → Bool
  | .idle | .runBlock | .clear => true
  | _ => false
def pausing : WPc → Bool
  | .idle | .pLock | .pInc | .pWaitEnter | .pWaiting => true
  | _ => false
def resuming : WPc → Bool
  | .pWaiting | .pReacquire | .pDec | .clear | .idle => true
  | _ => false

/-- per-worker phase fact: caller pc, `m_paused`, worker index, worker pc, its flag, its pending notification -/
def wOK (c : CPc) (paused : Bool) (pj : Bool) (i : Nat) (w : WPc) (f nt : Bool) : Bool :=
  match c with
  | .ready => if paused then (w == .pWaitEnter || w == .pWaiting) && (w == .pWaiting → !nt) && f
              else w == .idle && !f
  | .rbSet | .paSet => w == .idle && !f
  | .rbPub k => inBlock w && (decide (k ≤ i) → !f)
  | .rbWait => inBlock w
  | .paWait => inBlock w && (pj → !f)
  | .paPub k => pausing w && (w == .pWaiting → !nt) && (decide (k ≤ i) → !f) && (decide (i < k) → f)
  | .paSetPaused | .paSpin => pausing w && (w == .pWaiting → !nt) && f
  | .reLock => (w == .pWaitEnter || w == .pWaiting) && (w == .pWaiting → !nt) && f
  | .reNotify => w == .pWaiting && !nt && f
  | .reUnlock => ((w == .pWaiting && nt) || w == .pReacquire) && f
  | .reClear | .reWait => resuming w && (w == .pWaiting → nt) && (w == .idle → !f)

/-- global phase fact -/
def gOK (c : CPc) (paused pj : Bool) (n : Nat) : Bool :=
  match c with
  | .ready => (paused → pj)
  | .rbSet | .paWait | .paSet => !paused
  | .rbPub k => !paused && !pj && decide (k ≤ n)
  | .rbWait => !paused && !pj
  | .paPub k => !paused && pj && decide (k ≤ n)
  | .paSetPaused => !paused && pj
  | .paSpin | .reLock | .reNotify | .reUnlock => paused && pj
  | .reClear => pj
  | .reWait => !paused && pj

structure Inv (s : S) : Prop where
  mutexW : ∀ i, i < s.N → (s.mutex = some i ↔ holds (s.w i) = true)
  mutexC : s.mutex = some s.N ↔ (s.cpc = .reNotify ∨ s.cpc = .reUnlock)
  mutexR : ∀ j, s.mutex = some j → j ≤ s.N
  cnt : s.count = (List.range s.N).countP (fun i => counted (s.w i))
  busy : ∀ i, i < s.N → s.w i ≠ .idle → s.flags i = true
  prog : okProg (pausedAfter s) s.ops = true
  glob : gOK s.cpc s.paused s.pauseJobs s.N = true
  work : ∀ i, i < s.N → wOK s.cpc s.paused s.pauseJobs i (s.w i) (s.flags i) (s.notified i) = true

/-! ### preservation by worker steps -/

/-- per-worker phase fact is preserved by each worker transition (finite case analysis) -/
theorem wOK_idle_run (c p i nt n) (hg : gOK c p false n = true) (h : wOK c p false i .idle true nt = true) :
    wOK c p false i .runBlock true nt = true := by
  cases c <;> cases p <;> cases nt <;> simp_all [wOK, gOK, inBlock, pausing, resuming]
theorem wOK_idle_lock (c p i nt n) (hg : gOK c p true n = true) (h : wOK c p true i .idle true nt = true) :
    wOK c p true i .pLock true nt = true := by
  cases c <;> cases p <;> cases nt <;> simp_all [wOK, gOK, inBlock, pausing, resuming]
theorem wOK_run_clear (c p pj i f nt) (h : wOK c p pj i .runBlock f nt = true) : wOK c p pj i .clear f nt = true := by
  cases c <;> cases p <;> cases pj <;> cases f <;> cases nt <;> simp_all [wOK, inBlock, pausing, resuming]
theorem wOK_lock_inc (c p pj i f nt) (h : wOK c p pj i .pLock f nt = true) : wOK c p pj i .pInc f nt = true := by
  cases c <;> cases p <;> cases pj <;> cases f <;> cases nt <;> simp_all [wOK, inBlock, pausing, resuming]
theorem wOK_inc_we (c p pj i f nt) (h : wOK c p pj i .pInc f nt = true) : wOK c p pj i .pWaitEnter f nt = true := by
  cases c <;> cases p <;> cases pj <;> cases f <;> cases nt <;> simp_all [wOK, inBlock, pausing, resuming]
theorem wOK_we_wait (c p pj i f nt) (h : wOK c p pj i .pWaitEnter f nt = true) : wOK c p pj i .pWaiting f false = true := by
  cases c <;> cases p <;> cases pj <;> cases f <;> cases nt <;> simp_all [wOK, inBlock, pausing, resuming]
theorem wOK_wait_re (c p pj i f) (h : wOK c p pj i .pWaiting f true = true) : wOK c p pj i .pReacquire f true = true := by
  cases c <;> cases p <;> cases pj <;> cases f <;> simp_all [wOK, inBlock, pausing, resuming]
theorem wOK_re_dec (c p pj i f nt) (hc : c ≠ .reUnlock) (h : wOK c p pj i .pReacquire f nt = true) : wOK c p pj i .pDec f nt = true := by
  cases c <;> cases p <;> cases pj <;> cases f <;> cases nt <;> simp_all [wOK, inBlock, pausing, resuming]
theorem wOK_dec_clear (c p pj i f nt) (h : wOK c p pj i .pDec f nt = true) : wOK c p pj i .clear f nt = true := by
  cases c <;> cases p <;> cases pj <;> cases f <;> cases nt <;> simp_all [wOK, inBlock, pausing, resuming]
theorem wOK_clear_idle (c p pj i f nt) (h : wOK c p pj i .clear f nt = true) : wOK c p pj i .idle false nt = true := by
  cases c <;> cases p <;> cases pj <;> cases f <;> cases nt <;> simp_all [wOK, inBlock, pausing, resuming]

theorem countP_upd (n : Nat) (c : WPc → Bool) (w : Nat → WPc) (i : Nat) (v : WPc) (hi : i < n) :
    (List.range n).countP (fun j => c (upd w i v j)) + (if c (w i) then 1 else 0)
      = (List.range n).countP (fun j => c (w j)) + (if c v then 1 else 0) := by
  induction n with
  | zero => omega
  | succ m ih =>
    rw [List.range_succ, List.countP_append, List.countP_append]
    simp only [List.countP_cons, List.countP_nil, Nat.zero_add]
    by_cases him : i = m
    · subst him
      have : (List.range i).countP (fun j => c (upd w i v j)) = (List.range i).countP (fun j => c (w j)) := by
        apply List.countP_congr
        intro j hj
        have : j ≠ i := by have := List.mem_range.mp hj; omega
        simp [upd_ne _ _ _ _ this]
      rw [this, upd_same]
      cases c (w i) <;> cases c v <;> simp <;> omega
    · have hlt : i < m := by omega
      have := ih hlt
      have hm : upd w i v m = w m := upd_ne _ _ _ _ (by omega)
      rw [hm]
      cases c (w m) <;> simp <;> omega

theorem Inv.no_holder {s : S} (inv : Inv s) (hm : s.mutex = none) : ∀ j, j < s.N → holds (s.w j) = false := by
  intro j hj
  cases hh : holds (s.w j)
  · rfl
  · have := (inv.mutexW j hj).mpr hh; rw [hm] at this; cases this

theorem Inv.other_not_holder {s : S} (inv : Inv s) {i : Nat} (hm : s.mutex = some i) :
    ∀ j, j < s.N → j ≠ i → holds (s.w j) = false := by
  intro j hj hne
  cases hh : holds (s.w j)
  · rfl
  · have := (inv.mutexW j hj).mpr hh; rw [hm] at this; cases this; exact absurd rfl hne

/-- rebuilding the per-worker facts after worker `i` moved -/
theorem work_after {s : S} (inv : Inv s) (i : Nat) (w' : WPc) (f' nt' : Bool)
    (hi : wOK s.cpc s.paused s.pauseJobs i w' f' nt' = true) :
    ∀ j, j < s.N → wOK s.cpc s.paused s.pauseJobs j (upd s.w i w' j) (upd s.flags i f' j) (upd s.notified i nt' j) = true := by
  intro j hj
  by_cases hji : j = i
  · subst hji; simpa using hi
  · rw [upd_ne _ _ _ _ hji, upd_ne _ _ _ _ hji, upd_ne _ _ _ _ hji]; exact inv.work j hj

theorem upd_self_eq {β} (f : Nat → β) (i : Nat) : upd f i (f i) = f := by
  funext j; by_cases h : j = i <;> simp [upd, h]

/-- generic re-establishment of the invariant after worker `i` moved -/
theorem inv_worker (s s' : S) (inv : Inv s) (i : Nat) (hi : i < s.N)
    (hN : s'.N = s.N) (hcpc : s'.cpc = s.cpc) (hops : s'.ops = s.ops) (hp : s'.paused = s.paused)
    (hpj : s'.pauseJobs = s.pauseJobs)
    (hwo : ∀ j, j ≠ i → s'.w j = s.w j) (hfo : ∀ j, j ≠ i → s'.flags j = s.flags j)
    (hno : ∀ j, j ≠ i → s'.notified j = s.notified j)
    (hwi : wOK s.cpc s.paused s.pauseJobs i (s'.w i) (s'.flags i) (s'.notified i) = true)
    (hmW : ∀ j, j < s.N → (s'.mutex = some j ↔ holds (s'.w j) = true))
    (hmC : s'.mutex = some s.N ↔ (s.cpc = .reNotify ∨ s.cpc = .reUnlock))
    (hmR : ∀ j, s'.mutex = some j → j ≤ s.N)
    (hcnt : s'.count + (if counted (s.w i) then 1 else 0) = s.count + (if counted (s'.w i) then 1 else 0))
    (hbusy : s'.w i ≠ .idle → s'.flags i = true) : Inv s' := by
  have hw' : s'.w = upd s.w i (s'.w i) := by
    funext j; by_cases h : j = i
    · subst h; simp
    · rw [upd_ne _ _ _ _ h]; exact hwo j h
  refine ⟨?_, ?_, ?_, ?_, ?_, ?_, ?_, ?_⟩
  · rw [hN]; exact hmW
  · rw [hN, hcpc]; exact hmC
  · rw [hN]; exact hmR
  · rw [hN]
    have := countP_upd s.N counted s.w i (s'.w i) hi
    rw [← hw'] at this
    have h2 := inv.cnt
    omega
  · rw [hN]; intro j hj hne
    by_cases h : j = i
    · subst h; exact hbusy hne
    · rw [hfo j h]; rw [hwo j h] at hne; exact inv.busy j hj hne
  · have : pausedAfter s' = pausedAfter s := by simp [pausedAfter, hcpc, hp]
    rw [this, hops]; exact inv.prog
  · rw [hcpc, hp, hpj, hN]; exact inv.glob
  · rw [hN, hcpc, hp, hpj]; intro j hj
    by_cases h : j = i
    · subst h; exact hwi
    · rw [hwo j h, hfo j h, hno j h]; exact inv.work j hj

theorem inv_stepW (s s' : S) (inv : Inv s) (i : Nat) (hi : i < s.N) (h : stepW s i = some s') : Inv s' := by
  have hwork := inv.work i hi
  unfold stepW at h
  cases hw : s.w i <;> rw [hw] at h hwork <;> simp only [] at h
  · -- idle: take the published job
    split at h
    · rename_i hf
      cases h
      cases hpj : s.pauseJobs
      · rw [hpj, hf] at hwork
        have hg := inv.glob; rw [hpj] at hg
        refine inv_worker s _ inv i hi ?_ ?_ ?_ ?_ ?_ ?_ ?_ ?_ ?_ ?_ ?_ ?_ ?_ ?_
        · rfl
        · rfl
        · rfl
        · rfl
        · simp [hpj]
        · intro j hj; simp [upd_ne _ _ _ _ hj]
        · intro _ _; rfl
        · intro _ _; rfl
        · simpa [hpj, hf] using wOK_idle_run _ _ _ _ _ hg hwork
        · intro j hj; by_cases hji : j = i
          · subst hji; simp [holds, (inv.mutexW j hj), hw]
          · simp [upd_ne _ _ _ _ hji, inv.mutexW j hj]
        · exact inv.mutexC
        · exact inv.mutexR
        · simp [hw, counted]
        · intro _; simpa using hf
      · rw [hpj, hf] at hwork
        have hg := inv.glob; rw [hpj] at hg
        refine inv_worker s _ inv i hi ?_ ?_ ?_ ?_ ?_ ?_ ?_ ?_ ?_ ?_ ?_ ?_ ?_ ?_
        · rfl
        · rfl
        · rfl
        · rfl
        · simp [hpj]
        · intro j hj; simp [upd_ne _ _ _ _ hj]
        · intro _ _; rfl
        · intro _ _; rfl
        · simpa [hpj, hf] using wOK_idle_lock _ _ _ _ _ hg hwork
        · intro j hj; by_cases hji : j = i
          · subst hji; simp [holds, (inv.mutexW j hj), hw]
          · simp [upd_ne _ _ _ _ hji, inv.mutexW j hj]
        · exact inv.mutexC
        · exact inv.mutexR
        · simp [hw, counted]
        · intro _; simpa using hf
    · cases h
  · -- runBlock -> clear
    cases h
    refine inv_worker s _ inv i hi ?_ ?_ ?_ ?_ ?_ ?_ ?_ ?_ ?_ ?_ ?_ ?_ ?_ ?_
    · rfl
    · rfl
    · rfl
    · rfl
    · rfl
    · intro j hj; simp [upd_ne _ _ _ _ hj]
    · intro _ _; rfl
    · intro _ _; rfl
    · simpa using wOK_run_clear _ _ _ _ _ _ hwork
    · intro j hj; by_cases hji : j = i
      · subst hji; simp [holds, (inv.mutexW j hj), hw]
      · simp [upd_ne _ _ _ _ hji, inv.mutexW j hj]
    · exact inv.mutexC
    · exact inv.mutexR
    · simp [hw, counted]
    · intro _; exact inv.busy i hi (by simp [hw])
  · -- pLock -> pInc (needs the mutex)
    split at h
    · rename_i hm
      have hm' : s.mutex = none := by simpa using hm
      cases h
      refine inv_worker s _ inv i hi ?_ ?_ ?_ ?_ ?_ ?_ ?_ ?_ ?_ ?_ ?_ ?_ ?_ ?_
      · rfl
      · rfl
      · rfl
      · rfl
      · rfl
      · intro j hj; simp [upd_ne _ _ _ _ hj]
      · intro _ _; rfl
      · intro _ _; rfl
      · simpa using wOK_lock_inc _ _ _ _ _ _ hwork
      · intro j hj; by_cases hji : j = i
        · subst hji; simp [holds]
        · have := inv.no_holder hm' j hj
          simp [upd_ne _ _ _ _ hji, this]; exact fun e => hji e.symm
      · constructor
        · intro e; simp at e; omega
        · intro hc; have := inv.mutexC.mpr hc; rw [hm'] at this; cases this
      · intro j e; simp at e; omega
      · simp [hw, counted]
      · intro _; exact inv.busy i hi (by simp [hw])
    · cases h
  · -- pInc -> pWaitEnter, ++count
    cases h
    refine inv_worker s _ inv i hi ?_ ?_ ?_ ?_ ?_ ?_ ?_ ?_ ?_ ?_ ?_ ?_ ?_ ?_
    · rfl
    · rfl
    · rfl
    · rfl
    · rfl
    · intro j hj; simp [upd_ne _ _ _ _ hj]
    · intro _ _; rfl
    · intro _ _; rfl
    · simpa using wOK_inc_we _ _ _ _ _ _ hwork
    · intro j hj; by_cases hji : j = i
      · subst hji; simp [holds, (inv.mutexW j hj), hw]
      · simp [upd_ne _ _ _ _ hji, inv.mutexW j hj]
    · exact inv.mutexC
    · exact inv.mutexR
    · simp [hw, counted]
    · intro _; exact inv.busy i hi (by simp [hw])
  · -- pWaitEnter -> pWaiting, releases the mutex, clears the pending notification
    cases h
    have hmi : s.mutex = some i := (inv.mutexW i hi).mpr (by simp [hw, holds])
    refine inv_worker s _ inv i hi ?_ ?_ ?_ ?_ ?_ ?_ ?_ ?_ ?_ ?_ ?_ ?_ ?_ ?_
    · rfl
    · rfl
    · rfl
    · rfl
    · rfl
    · intro j hj; simp [upd_ne _ _ _ _ hj]
    · intro _ _; rfl
    · intro j hj; simp [upd_ne _ _ _ _ hj]
    · simpa using wOK_we_wait _ _ _ _ _ _ hwork
    · intro j hj; by_cases hji : j = i
      · subst hji; simp [holds]
      · have := inv.other_not_holder hmi j hj hji
        simp [upd_ne _ _ _ _ hji, this]
    · constructor
      · intro e; cases e
      · intro hc; have := inv.mutexC.mpr hc; rw [hmi] at this; simp at this; omega
    · intro j e; cases e
    · simp [hw, counted]
    · intro _; exact inv.busy i hi (by simp [hw])
  · -- pWaiting -> pReacquire (notified)
    split at h
    · rename_i hn
      cases h
      rw [hn] at hwork
      refine inv_worker s _ inv i hi ?_ ?_ ?_ ?_ ?_ ?_ ?_ ?_ ?_ ?_ ?_ ?_ ?_ ?_
      · rfl
      · rfl
      · rfl
      · rfl
      · rfl
      · intro j hj; simp [upd_ne _ _ _ _ hj]
      · intro _ _; rfl
      · intro _ _; rfl
      · simpa [hn] using wOK_wait_re _ _ _ _ _ hwork
      · intro j hj; by_cases hji : j = i
        · subst hji; simp [holds, (inv.mutexW j hj), hw]
        · simp [upd_ne _ _ _ _ hji, inv.mutexW j hj]
      · exact inv.mutexC
      · exact inv.mutexR
      · simp [hw, counted]
      · intro _; exact inv.busy i hi (by simp [hw])
    · cases h
  · -- pReacquire -> pDec (needs the mutex)
    split at h
    · rename_i hm
      have hm' : s.mutex = none := by simpa using hm
      cases h
      have hcu : s.cpc ≠ .reUnlock := by
        intro hc; have := inv.mutexC.mpr (Or.inr hc); rw [hm'] at this; cases this
      refine inv_worker s _ inv i hi ?_ ?_ ?_ ?_ ?_ ?_ ?_ ?_ ?_ ?_ ?_ ?_ ?_ ?_
      · rfl
      · rfl
      · rfl
      · rfl
      · rfl
      · intro j hj; simp [upd_ne _ _ _ _ hj]
      · intro _ _; rfl
      · intro _ _; rfl
      · simpa using wOK_re_dec _ _ _ _ _ _ hcu hwork
      · intro j hj; by_cases hji : j = i
        · subst hji; simp [holds]
        · have := inv.no_holder hm' j hj
          simp [upd_ne _ _ _ _ hji, this]; exact fun e => hji e.symm
      · constructor
        · intro e; simp at e; omega
        · intro hc; have := inv.mutexC.mpr hc; rw [hm'] at this; cases this
      · intro j e; simp at e; omega
      · simp [hw, counted]
      · intro _; exact inv.busy i hi (by simp [hw])
    · cases h
  · -- pDec -> clear, --count, releases the mutex
    cases h
    have hmi : s.mutex = some i := (inv.mutexW i hi).mpr (by simp [hw, holds])
    have hpos : 0 < s.count := by
      rw [inv.cnt]
      apply List.countP_pos_iff.mpr
      exact ⟨i, List.mem_range.mpr hi, by simp [hw, counted]⟩
    refine inv_worker s _ inv i hi ?_ ?_ ?_ ?_ ?_ ?_ ?_ ?_ ?_ ?_ ?_ ?_ ?_ ?_
    · rfl
    · rfl
    · rfl
    · rfl
    · rfl
    · intro j hj; simp [upd_ne _ _ _ _ hj]
    · intro _ _; rfl
    · intro _ _; rfl
    · simpa using wOK_dec_clear _ _ _ _ _ _ hwork
    · intro j hj; by_cases hji : j = i
      · subst hji; simp [holds]
      · have := inv.other_not_holder hmi j hj hji
        simp [upd_ne _ _ _ _ hji, this]
    · constructor
      · intro e; cases e
      · intro hc; have := inv.mutexC.mpr hc; rw [hmi] at this; simp at this; omega
    · intro j e; cases e
    · simp [hw, counted]; omega
    · intro _; exact inv.busy i hi (by simp [hw])
  · -- clear -> idle, flag := 0
    cases h
    refine inv_worker s _ inv i hi ?_ ?_ ?_ ?_ ?_ ?_ ?_ ?_ ?_ ?_ ?_ ?_ ?_ ?_
    · rfl
    · rfl
    · rfl
    · rfl
    · rfl
    · intro j hj; simp [upd_ne _ _ _ _ hj]
    · intro j hj; simp [upd_ne _ _ _ _ hj]
    · intro _ _; rfl
    · simpa using wOK_clear_idle _ _ _ _ _ _ hwork
    · intro j hj; by_cases hji : j = i
      · subst hji; simp [holds, (inv.mutexW j hj), hw]
      · simp [upd_ne _ _ _ _ hji, inv.mutexW j hj]
    · exact inv.mutexC
    · exact inv.mutexR
    · simp [hw, counted]
    · intro hne; simp at hne

/-! ### preservation by caller steps -/

/-- generic re-establishment of the invariant after a caller micro-step (workers untouched) -/
theorem inv_caller (s s' : S) (inv : Inv s)
    (hN : s'.N = s.N) (hw : s'.w = s.w) (hcount : s'.count = s.count)
    (hmW : ∀ j, j < s.N → (s'.mutex = some j ↔ holds (s.w j) = true))
    (hmC : s'.mutex = some s.N ↔ (s'.cpc = .reNotify ∨ s'.cpc = .reUnlock))
    (hmR : ∀ j, s'.mutex = some j → j ≤ s.N)
    (hflags : ∀ j, j < s.N → s.flags j = true → s'.flags j = true)
    (hprog : okProg (pausedAfter s') s'.ops = true)
    (hglob : gOK s'.cpc s'.paused s'.pauseJobs s.N = true)
    (hwork : ∀ j, j < s.N → wOK s'.cpc s'.paused s'.pauseJobs j (s.w j) (s'.flags j) (s'.notified j) = true) :
    Inv s' := by
  refine ⟨?_, ?_, ?_, ?_, ?_, hprog, ?_, ?_⟩
  · rw [hN, hw]; exact hmW
  · rw [hN]; exact hmC
  · rw [hN]; exact hmR
  · rw [hN, hw, hcount]; exact inv.cnt
  · rw [hN, hw]; intro j hj hne; exact hflags j hj (inv.busy j hj hne)
  · rw [hN]; exact hglob
  · rw [hN, hw]; exact hwork

theorem flags_clear (s : S) (h : allFlagsClear s = true) : ∀ j, j < s.N → s.flags j = false := by
  intro j hj
  unfold allFlagsClear at h
  rw [List.all_eq_true] at h
  simpa using h j (List.mem_range.mpr hj)

theorem Inv.idle_of_clear {s : S} (inv : Inv s) (h : allFlagsClear s = true) :
    ∀ j, j < s.N → s.w j = .idle ∧ s.flags j = false := by
  intro j hj
  have hf := flags_clear s h j hj
  refine ⟨?_, hf⟩
  cases hw : s.w j <;> first | rfl | (have := inv.busy j hj (by simp [hw]); rw [hf] at this; cases this)

theorem all_counted_of_count_eq {n : Nat} {p : Nat → Bool} (h : (List.range n).countP p = n) :
    ∀ i, i < n → p i = true := by
  intro i hi
  have : (List.range n).countP p = (List.range n).length := by simpa using h
  exact (List.countP_eq_length.mp this) i (List.mem_range.mpr hi)

-- per-worker phase transitions (finite case analyses)
theorem wOK_ready_paWait (pj i w f nt) (h : wOK .ready false pj i w f nt = true) : wOK .paWait false pj i w f nt = true := by
  cases w <;> cases pj <;> cases f <;> simp_all [wOK, inBlock]
theorem wOK_idle_rbPub0 (p pj i nt) : wOK (.rbPub 0) p pj i .idle false nt = true := by simp [wOK, inBlock]
theorem wOK_idle_paPub0 (p pj i nt) : wOK (.paPub 0) p pj i .idle false nt = true := by simp [wOK, pausing]
theorem wOK_paSpin_ready (pj i w f nt) (hc : counted w = true) (h : wOK .paSpin true pj i w f nt = true) :
    wOK .ready true pj i w f nt = true := by
  cases w <;> cases f <;> cases nt <;> simp_all [wOK, pausing, counted]
theorem wOK_reLock_reNotify (p pj i w f nt) (hh : holds w = false) (h : wOK .reLock p pj i w f nt = true) :
    wOK .reNotify p pj i w f nt = true := by
  cases w <;> cases f <;> cases nt <;> simp_all [wOK, holds]
theorem wOK_reNotify_reUnlock (p pj i w f nt) (h : wOK .reNotify p pj i w f nt = true) :
    wOK .reUnlock p pj i w f (nt || (w == .pWaiting)) = true := by
  cases w <;> cases f <;> cases nt <;> simp_all [wOK]
theorem wOK_reUnlock_reClear (p pj i w f nt) (h : wOK .reUnlock p pj i w f nt = true) :
    wOK .reClear p pj i w f nt = true := by
  cases w <;> cases f <;> cases nt <;> simp_all [wOK, resuming]

theorem wOK_rbPub_succ (k p pj j w f nt) (h : wOK (.rbPub k) p pj j w f nt = true) :
    wOK (.rbPub (k + 1)) p pj j w (upd (fun _ => f) k true j) nt = true := by
  simp only [wOK, Bool.and_eq_true, decide_eq_true_eq] at h ⊢
  refine ⟨h.1, ?_⟩
  intro hk
  have : j ≠ k := by omega
  simpa [upd, this] using h.2 (by omega)
theorem wOK_rbPub_wait (k p pj j w f nt) (h : wOK (.rbPub k) p pj j w f nt = true) :
    wOK .rbWait p pj j w f nt = true := by
  simp only [wOK, Bool.and_eq_true] at h ⊢; exact h.1
theorem wOK_paPub_succ (k p pj j w f nt) (h : wOK (.paPub k) p pj j w f nt = true) :
    wOK (.paPub (k + 1)) p pj j w (upd (fun _ => f) k true j) nt = true := by
  simp only [wOK, Bool.and_eq_true, decide_eq_true_eq] at h ⊢
  obtain ⟨⟨⟨h1, h2⟩, h3⟩, h4⟩ := h
  refine ⟨⟨⟨h1, h2⟩, ?_⟩, ?_⟩
  · intro hk
    have : j ≠ k := by omega
    simpa [upd, this] using h3 (by omega)
  · intro hk
    by_cases hjk : j = k
    · simp [upd, hjk]
    · simpa [upd, hjk] using h4 (by omega)
theorem wOK_paPub_done (k p pj j w f nt) (hjk : j < k) (h : wOK (.paPub k) p pj j w f nt = true) :
    wOK .paSetPaused p pj j w f nt = true := by
  simp only [wOK, Bool.and_eq_true, decide_eq_true_eq] at h ⊢
  obtain ⟨⟨⟨h1, h2⟩, _⟩, h4⟩ := h
  exact ⟨⟨h1, h2⟩, h4 hjk⟩

theorem inv_stepC (s s' : S) (inv : Inv s) (h : stepC s = some s') : Inv s' := by
  have hg := inv.glob
  have hwk := inv.work
  have hpr := inv.prog
  unfold stepC at h
  cases hc : s.cpc <;> rw [hc] at h hg hwk <;> simp only [] at h
  · -- ready: take the next API call
    have hpa : pausedAfter s = s.paused := by simp [pausedAfter, hc]
    rw [hpa] at hpr
    cases ho : s.ops with
    | nil => rw [ho] at h; cases h
    | cons op r =>
      rw [ho] at h hpr
      cases op <;> simp only [] at h <;> cases h
      · -- runBlocks (requires not paused)
        have hp : s.paused = false := by
          cases hh : s.paused <;> simp_all [okProg]
        have hr : okProg false r = true := by simp_all [okProg]
        refine inv_caller s _ inv rfl rfl rfl inv.mutexW ?_ inv.mutexR (fun _ _ h => h) ?_ ?_ ?_
        · simp only []; constructor
          · intro e; have := inv.mutexC.mp e; rw [hc] at this; simp at this
          · intro e; simp at e
        · simpa [pausedAfter] using hr
        · simp [gOK, hp]
        · intro j hj; have := hwk j hj; simp only [hp] at this ⊢; simpa [wOK] using this
      · -- pause
        have hr : okProg true r = true := by simp_all [okProg]
        cases hp : s.paused
        · refine inv_caller s _ inv rfl rfl rfl inv.mutexW ?_ inv.mutexR (fun _ _ h => h) ?_ ?_ ?_
          · simp only [hp]; constructor
            · intro e; have := inv.mutexC.mp e; rw [hc] at this; simp at this
            · intro e; simp at e
          · simpa [pausedAfter, hp] using hr
          · simp [gOK, hp]
          · intro j hj; have := hwk j hj; simp only [hp] at this ⊢
            simpa using wOK_ready_paWait _ _ _ _ _ this
        · refine inv_caller s _ inv rfl rfl rfl inv.mutexW ?_ inv.mutexR (fun _ _ h => h) ?_ ?_ ?_
          · simp only [hp]; constructor
            · intro e; have := inv.mutexC.mp e; rw [hc] at this; simp at this
            · intro e; simp at e
          · simpa [pausedAfter, hp] using hr
          · simpa [hp] using hg
          · intro j hj; have := hwk j hj; simpa [hp] using this
      · -- resume
        have hr : okProg false r = true := by simp_all [okProg]
        cases hp : s.paused
        · refine inv_caller s _ inv rfl rfl rfl inv.mutexW ?_ inv.mutexR (fun _ _ h => h) ?_ ?_ ?_
          · simp only [hp]; constructor
            · intro e; have := inv.mutexC.mp e; rw [hc] at this; simp at this
            · intro e; simp at e
          · simpa [pausedAfter, hp] using hr
          · simpa [hp] using hg
          · intro j hj; have := hwk j hj; simpa [hp] using this
        · refine inv_caller s _ inv rfl rfl rfl inv.mutexW ?_ inv.mutexR (fun _ _ h => h) ?_ ?_ ?_
          · simp only [hp]; constructor
            · intro e; have := inv.mutexC.mp e; rw [hc] at this; simp at this
            · intro e; simp at e
          · simpa [pausedAfter, hp] using hr
          · have := hg; simp [gOK, hp] at this ⊢; exact this
          · intro j hj; have := hwk j hj; simp only [hp] at this ⊢; simpa [wOK] using this
  · -- rbSet
    cases h
    refine inv_caller s _ inv rfl rfl rfl inv.mutexW ?_ inv.mutexR (fun _ _ h => h) ?_ ?_ ?_
    · simp only []; constructor
      · intro e; have := inv.mutexC.mp e; rw [hc] at this; simp at this
      · intro e; simp at e
    · simpa [pausedAfter, hc] using hpr
    · simpa [gOK] using hg
    · intro j hj; have := hwk j hj
      simp only [wOK, Bool.and_eq_true, beq_iff_eq, Bool.not_eq_true'] at this
      simp only []; rw [this.1, this.2]; exact wOK_idle_rbPub0 _ _ _ _
  · -- rbPub k
    rename_i k
    split at h
    · rename_i hk
      cases h
      refine inv_caller s _ inv rfl rfl rfl inv.mutexW ?_ inv.mutexR ?_ ?_ ?_ ?_
      · simp only []; constructor
        · intro e; have := inv.mutexC.mp e; rw [hc] at this; simp at this
        · intro e; simp at e
      · intro j _ hf; simp only [upd]; split <;> simp [hf]
      · simpa [pausedAfter, hc] using hpr
      · simp only [gOK, Bool.and_eq_true, decide_eq_true_eq] at hg ⊢; exact ⟨hg.1, by omega⟩
      · intro j hj
        have := wOK_rbPub_succ k s.paused s.pauseJobs j (s.w j) (s.flags j) (s.notified j) (hwk j hj)
        simp only [upd] at this ⊢; split <;> simp_all
    · rename_i hk
      cases h
      refine inv_caller s _ inv rfl rfl rfl inv.mutexW ?_ inv.mutexR (fun _ _ h => h) ?_ ?_ ?_
      · simp only []; constructor
        · intro e; have := inv.mutexC.mp e; rw [hc] at this; simp at this
        · intro e; simp at e
      · simpa [pausedAfter, hc] using hpr
      · simp only [gOK, Bool.and_eq_true] at hg ⊢; exact hg.1
      · intro j hj; exact wOK_rbPub_wait _ _ _ _ _ _ _ (hwk j hj)
  · -- rbWait
    split at h
    · rename_i hcl
      cases h
      have hp : s.paused = false := by simp only [gOK, Bool.and_eq_true, Bool.not_eq_true'] at hg; exact hg.1
      refine inv_caller s _ inv rfl rfl rfl inv.mutexW ?_ inv.mutexR (fun _ _ h => h) ?_ ?_ ?_
      · simp only []; constructor
        · intro e; have := inv.mutexC.mp e; rw [hc] at this; simp at this
        · intro e; simp at e
      · simpa [pausedAfter, hc, hp] using hpr
      · simp [gOK, hp]
      · intro j hj; have := inv.idle_of_clear hcl j hj
        simp [wOK, hp, this.1, this.2]
    · cases h
  · -- paWait
    split at h
    · rename_i hcl
      cases h
      refine inv_caller s _ inv rfl rfl rfl inv.mutexW ?_ inv.mutexR (fun _ _ h => h) ?_ ?_ ?_
      · simp only []; constructor
        · intro e; have := inv.mutexC.mp e; rw [hc] at this; simp at this
        · intro e; simp at e
      · simpa [pausedAfter, hc] using hpr
      · simpa [gOK] using hg
      · intro j hj; have := inv.idle_of_clear hcl j hj
        simp [wOK, this.1, this.2]
    · cases h
  · -- paSet
    cases h
    refine inv_caller s _ inv rfl rfl rfl inv.mutexW ?_ inv.mutexR (fun _ _ h => h) ?_ ?_ ?_
    · simp only []; constructor
      · intro e; have := inv.mutexC.mp e; rw [hc] at this; simp at this
      · intro e; simp at e
    · simpa [pausedAfter, hc] using hpr
    · simpa [gOK] using hg
    · intro j hj; have := hwk j hj
      simp only [wOK, Bool.and_eq_true, beq_iff_eq, Bool.not_eq_true'] at this
      simp only []; rw [this.1, this.2]; exact wOK_idle_paPub0 _ _ _ _
  · -- paPub k
    rename_i k
    split at h
    · rename_i hk
      cases h
      refine inv_caller s _ inv rfl rfl rfl inv.mutexW ?_ inv.mutexR ?_ ?_ ?_ ?_
      · simp only []; constructor
        · intro e; have := inv.mutexC.mp e; rw [hc] at this; simp at this
        · intro e; simp at e
      · intro j _ hf; simp only [upd]; split <;> simp [hf]
      · simpa [pausedAfter, hc] using hpr
      · simp only [gOK, Bool.and_eq_true, decide_eq_true_eq] at hg ⊢; exact ⟨hg.1, by omega⟩
      · intro j hj
        have := wOK_paPub_succ k s.paused s.pauseJobs j (s.w j) (s.flags j) (s.notified j) (hwk j hj)
        simp only [upd] at this ⊢; split <;> simp_all
    · rename_i hk
      cases h
      have hkN : k = s.N := by
        simp only [gOK, Bool.and_eq_true, decide_eq_true_eq] at hg; omega
      refine inv_caller s _ inv rfl rfl rfl inv.mutexW ?_ inv.mutexR (fun _ _ h => h) ?_ ?_ ?_
      · simp only []; constructor
        · intro e; have := inv.mutexC.mp e; rw [hc] at this; simp at this
        · intro e; simp at e
      · simpa [pausedAfter, hc] using hpr
      · simp only [gOK, Bool.and_eq_true] at hg ⊢; exact hg.1
      · intro j hj; exact wOK_paPub_done k _ _ _ _ _ _ (by omega) (hwk j hj)
  · -- paSetPaused
    cases h
    refine inv_caller s _ inv rfl rfl rfl inv.mutexW ?_ inv.mutexR (fun _ _ h => h) ?_ ?_ ?_
    · simp only []; constructor
      · intro e; have := inv.mutexC.mp e; rw [hc] at this; simp at this
      · intro e; simp at e
    · simpa [pausedAfter, hc] using hpr
    · simp only [gOK, Bool.and_eq_true] at hg ⊢; simp [hg.2]
    · intro j hj; have := hwk j hj; simpa [wOK] using this
  · -- paSpin
    split at h
    · rename_i hcn
      cases h
      have hp : s.paused = true := by simp only [gOK, Bool.and_eq_true] at hg; exact hg.1
      have hpj : s.pauseJobs = true := by simp only [gOK, Bool.and_eq_true] at hg; exact hg.2
      have hall := all_counted_of_count_eq (n := s.N) (p := fun i => counted (s.w i)) (by rw [← inv.cnt]; exact hcn)
      refine inv_caller s _ inv rfl rfl rfl inv.mutexW ?_ inv.mutexR (fun _ _ h => h) ?_ ?_ ?_
      · simp only []; constructor
        · intro e; have := inv.mutexC.mp e; rw [hc] at this; simp at this
        · intro e; simp at e
      · simpa [pausedAfter, hc, hp] using hpr
      · simp [gOK, hp, hpj]
      · intro j hj; have := hwk j hj; rw [hp] at this ⊢
        exact wOK_paSpin_ready _ _ _ _ _ (hall j hj) this
    · cases h
  · -- reLock
    split at h
    · rename_i hm
      have hm' : s.mutex = none := by simpa using hm
      cases h
      refine inv_caller s _ inv rfl rfl rfl ?_ ?_ ?_ (fun _ _ h => h) ?_ ?_ ?_
      · intro j hj; have := inv.no_holder hm' j hj
        simp only [this]; constructor
        · intro e; simp at e; omega
        · intro e; cases e
      · simp
      · intro j e; simp at e; omega
      · simpa [pausedAfter, hc] using hpr
      · simpa [gOK] using hg
      · intro j hj; exact wOK_reLock_reNotify _ _ _ _ _ _ (inv.no_holder hm' j hj) (hwk j hj)
    · cases h
  · -- reNotify
    cases h
    have hmN : s.mutex = some s.N := inv.mutexC.mpr (Or.inl hc)
    refine inv_caller s _ inv rfl rfl rfl inv.mutexW ?_ inv.mutexR (fun _ _ h => h) ?_ ?_ ?_
    · simp [hmN]
    · simpa [pausedAfter, hc] using hpr
    · simpa [gOK] using hg
    · intro j hj; exact wOK_reNotify_reUnlock _ _ _ _ _ _ (hwk j hj)
  · -- reUnlock
    cases h
    have hmN : s.mutex = some s.N := inv.mutexC.mpr (Or.inr hc)
    refine inv_caller s _ inv rfl rfl rfl ?_ ?_ ?_ (fun _ _ h => h) ?_ ?_ ?_
    · intro j hj; have := inv.other_not_holder hmN j hj (by omega)
      simp [this]
    · simp
    · intro j e; cases e
    · simpa [pausedAfter, hc] using hpr
    · simp only [gOK, Bool.and_eq_true] at hg ⊢; exact hg.2
    · intro j hj; exact wOK_reUnlock_reClear _ _ _ _ _ _ (hwk j hj)
  · -- reClear
    cases h
    refine inv_caller s _ inv rfl rfl rfl inv.mutexW ?_ inv.mutexR (fun _ _ h => h) ?_ ?_ ?_
    · simp only []; constructor
      · intro e; have := inv.mutexC.mp e; rw [hc] at this; simp at this
      · intro e; simp at e
    · simpa [pausedAfter, hc] using hpr
    · simpa [gOK] using hg
    · intro j hj; have := hwk j hj; simpa [wOK] using this
  · -- reWait
    split at h
    · rename_i hcl
      cases h
      have hp : s.paused = false := by simp only [gOK, Bool.and_eq_true, Bool.not_eq_true'] at hg; exact hg.1
      refine inv_caller s _ inv rfl rfl rfl inv.mutexW ?_ inv.mutexR (fun _ _ h => h) ?_ ?_ ?_
      · simp only []; constructor
        · intro e; have := inv.mutexC.mp e; rw [hc] at this; simp at this
        · intro e; simp at e
      · simpa [pausedAfter, hc, hp] using hpr
      · simp [gOK, hp]
      · intro j hj; have := inv.idle_of_clear hcl j hj
        simp [wOK, hp, this.1, this.2]
    · cases h

/-! ### the invariant holds in every reachable state; no reachable state is stuck -/

def init (n : Nat) (ops : List Op) : S :=
  { N := n, flags := fun _ => false, w := fun _ => .idle, notified := fun _ => false, count := 0,
    mutex := none, pauseJobs := false, paused := false, cpc := .ready, ops }


theorem inv_init (n : Nat) (ops : List Op) (hops : okProg false ops = true) : Inv (init n ops) := by
  refine ⟨?_, ?_, ?_, ?_, ?_, ?_, ?_, ?_⟩
  · intro i _; simp [init, holds]
  · simp [init]
  · intro j e; simp [init] at e
  · simp [init, counted]
  · intro i _ h; simp [init] at h
  · simpa [init, pausedAfter] using hops
  · simp [init, gOK]
  · intro i _; simp [init, wOK]

theorem inv_step (s s' : S) (inv : Inv s) (t : Nat) (h : step s t = some s') : Inv s' := by
  unfold step at h
  split at h
  · exact inv_stepC s s' inv h
  · split at h
    · rename_i ht; exact inv_stepW s s' inv t ht h
    · cases h

inductive Reachable (s0 : S) : S → Prop
  | refl : Reachable s0 s0
  | step (s s' t) : Reachable s0 s → step s t = some s' → Reachable s0 s'

theorem reachable_inv (n : Nat) (ops : List Op) (hops : okProg false ops = true) (s : S)
    (h : Reachable (init n ops) s) : Inv s := by
  induction h with
  | refl => exact inv_init n ops hops
  | step s s' t _ hs ih => exact inv_step s s' ih t hs

def enabledW (s : S) (i : Nat) : Bool :=
  match s.w i with
  | .idle => s.flags i
  | .pLock | .pReacquire => s.mutex.isNone
  | .pWaiting => s.notified i
  | _ => true

theorem stepW_isSome (s : S) (i : Nat) : (stepW s i).isSome = enabledW s i := by
  unfold stepW enabledW
  cases hw : s.w i <;> simp <;> split <;> simp_all [Option.isSome_iff_ne_none]

theorem worker_enabled (s : S) (i : Nat) (hi : i < s.N) (h : enabledW s i = true) :
    ∃ t, (step s t).isSome = true := by
  refine ⟨i, ?_⟩
  have : i ≠ s.N := by omega
  simp only [step, this, if_false, hi, if_true]
  rw [stepW_isSome]; exact h

theorem exists_flag_of_not_clear (s : S) (h : allFlagsClear s = false) : ∃ i, i < s.N ∧ s.flags i = true := by
  unfold allFlagsClear at h
  rw [List.all_eq_false] at h
  obtain ⟨i, hi, hf⟩ := h
  exact ⟨i, List.mem_range.mp hi, by simpa using hf⟩

theorem exists_not_of_countP_lt {n : Nat} {p : Nat → Bool}
    (h : (List.range n).countP p < n) : ∃ i, i < n ∧ p i = false := by
  apply Classical.byContradiction
  intro hne
  have hall : ∀ i ∈ List.range n, p i = true := by
    intro i hi
    cases hp : p i
    · exact absurd ⟨i, List.mem_range.mp hi, hp⟩ hne
    · rfl
  have := List.countP_eq_length.mpr hall
  simp at this
  omega

theorem mutex_owner_enabled (s : S) (inv : Inv s) (hc : ¬ (s.cpc = .reNotify ∨ s.cpc = .reUnlock))
    (hm : s.mutex ≠ none) : ∃ t, (step s t).isSome = true := by
  cases hmu : s.mutex with
  | none => exact absurd hmu hm
  | some j =>
    have hle := inv.mutexR j hmu
    by_cases hj : j = s.N
    · subst hj; exact absurd (inv.mutexC.mp hmu) hc
    · have hlt : j < s.N := by omega
      apply worker_enabled s j hlt
      have hh := (inv.mutexW j hlt).mp hmu
      unfold enabledW
      cases hw : s.w j <;> simp [hw, holds] at hh ⊢

/-- worker `i` is enabled, given its phase fact, its flag, and whether the mutex is free -/
theorem enabled_of_wOK (s : S) (i : Nat) (hf : s.flags i = true) (hm : s.mutex = none)
    (hno : s.w i = .pWaiting → s.notified i = true) : enabledW s i = true := by
  unfold enabledW
  cases hw : s.w i <;> simp [hw] at hno ⊢ <;> first | exact hf | exact hm | exact hno

theorem progress (s : S) (inv : Inv s) (hnf : ¬ finished s) : ∃ t, (step s t).isSome = true := by
  have callerStep : (stepC s).isSome = true → ∃ t, (step s t).isSome = true := by
    intro hr; exact ⟨s.N, by simpa [step] using hr⟩
  have hwk := inv.work
  have hg := inv.glob
  cases hc : s.cpc with
  | ready =>
    cases ho : s.ops with
    | nil => exact absurd ⟨hc, ho⟩ hnf
    | cons op r => cases op <;> exact callerStep (by simp [stepC, hc, ho])
  | rbSet => exact callerStep (by simp [stepC, hc])
  | rbPub k => by_cases hk : k < s.N <;> exact callerStep (by simp [stepC, hc, hk])
  | paSet => exact callerStep (by simp [stepC, hc])
  | paPub k => by_cases hk : k < s.N <;> exact callerStep (by simp [stepC, hc, hk])
  | paSetPaused => exact callerStep (by simp [stepC, hc])
  | reNotify => exact callerStep (by simp [stepC, hc])
  | reUnlock => exact callerStep (by simp [stepC, hc])
  | reClear => exact callerStep (by simp [stepC, hc])
  | rbWait =>
    by_cases hcl : allFlagsClear s = true
    · exact callerStep (by simp [stepC, hc, hcl])
    · obtain ⟨i, hi, hf⟩ := exists_flag_of_not_clear s (by simpa using hcl)
      have := hwk i hi; rw [hc] at this
      apply worker_enabled s i hi
      unfold enabledW
      cases hw : s.w i <;> simp [hw, wOK, inBlock] at this ⊢; exact hf
  | paWait =>
    by_cases hcl : allFlagsClear s = true
    · exact callerStep (by simp [stepC, hc, hcl])
    · obtain ⟨i, hi, hf⟩ := exists_flag_of_not_clear s (by simpa using hcl)
      have := hwk i hi; rw [hc] at this
      apply worker_enabled s i hi
      unfold enabledW
      cases hw : s.w i <;> simp [hw, wOK, inBlock] at this ⊢; exact hf
  | reWait =>
    by_cases hcl : allFlagsClear s = true
    · exact callerStep (by simp [stepC, hc, hcl])
    · obtain ⟨i, hi, hf⟩ := exists_flag_of_not_clear s (by simpa using hcl)
      have hw1 := hwk i hi; rw [hc] at hw1
      by_cases hm : s.mutex = none
      · apply worker_enabled s i hi
        apply enabled_of_wOK s i hf hm
        intro hw; simp [wOK, hw, resuming] at hw1; exact hw1
      · by_cases hre : s.w i = .pReacquire
        · exact mutex_owner_enabled s inv (by simp [hc]) hm
        · apply worker_enabled s i hi
          unfold enabledW
          cases hw : s.w i <;> simp [hw, wOK, resuming] at hw1 hre ⊢ <;> first | exact hf | exact hw1.1 | exact hw1
  | paSpin =>
    by_cases hcn : s.count = s.N
    · exact callerStep (by simp [stepC, hc, hcn])
    · have hle : s.count ≤ s.N := by
        rw [inv.cnt]
        have := List.countP_le_length (p := fun i => counted (s.w i)) (l := List.range s.N)
        simpa using this
      have hlt : (List.range s.N).countP (fun i => counted (s.w i)) < s.N := by rw [← inv.cnt]; omega
      obtain ⟨i, hi, hnc⟩ := exists_not_of_countP_lt hlt
      have hw1 := hwk i hi; rw [hc] at hw1
      simp only [wOK, Bool.and_eq_true] at hw1
      obtain ⟨⟨hp, _⟩, hfl⟩ := hw1
      by_cases hm : s.mutex = none
      · apply worker_enabled s i hi
        unfold enabledW
        cases hw : s.w i <;> simp [hw, pausing, counted] at hp hnc ⊢ <;> first | exact hfl | exact hm
      · by_cases hpl : s.w i = .pLock
        · exact mutex_owner_enabled s inv (by simp [hc]) hm
        · apply worker_enabled s i hi
          unfold enabledW
          cases hw : s.w i <;> simp [hw, pausing, counted] at hp hnc hpl ⊢
          exact hfl
  | reLock =>
    by_cases hm : s.mutex = none
    · exact callerStep (by simp [stepC, hc, hm])
    · exact mutex_owner_enabled s inv (by simp [hc]) hm

/-- **no lost wake-up, no deadlock**: for every pool size, every program the library issues and
every interleaving, a state in which the caller has not finished always has an enabled thread. -/
theorem no_stuck_state (n : Nat) (ops : List Op) (hops : okProg false ops = true) (s : S)
    (h : Reachable (init n ops) s) (hnf : ¬ finished s) : ∃ t, (step s t).isSome = true :=
  progress s (reachable_inv n ops hops s h) hnf

/-! ### empirical validation of the candidate invariant (a test, not a proof) -/

def allN (s : S) (p : Nat → Bool) : Bool := (List.range s.N).all p

def invB (s : S) : Bool :=
  allN s (fun i => (s.mutex == some i) == holds (s.w i)) &&
  ((s.mutex == some s.N) == (s.cpc == .reNotify || s.cpc == .reUnlock)) &&
  (match s.mutex with | none => true | some j => decide (j ≤ s.N)) &&
  (s.count == (List.range s.N).countP (fun i => counted (s.w i))) &&
  allN s (fun i => s.w i == .idle || s.flags i) &&
  okProg (pausedAfter s) s.ops && gOK s.cpc s.paused s.pauseJobs s.N &&
  allN s (fun i => wOK s.cpc s.paused s.pauseJobs i (s.w i) (s.flags i) (s.notified i))

def key (s : S) : List Nat × List Nat × List Nat × Nat × Option Nat × Bool × Bool × String × Nat :=
  ((List.range s.N).map (fun i => if s.flags i then 1 else 0),
   (List.range s.N).map (fun i => match s.w i with
      | .idle => 0 | .runBlock => 1 | .pLock => 2 | .pInc => 3 | .pWaitEnter => 4 | .pWaiting => 5
      | .pReacquire => 6 | .pDec => 7 | .clear => 8),
   (List.range s.N).map (fun i => if s.notified i then 1 else 0),
   s.count, s.mutex, s.pauseJobs, s.paused, reprStr s.cpc, s.ops.length)

partial def explore (frontier : List S) (seen : List (List Nat × List Nat × List Nat × Nat × Option Nat × Bool × Bool × String × Nat))
    (bad : List String) (stuck : Nat) : Nat × List String × Nat :=
  match frontier with
  | [] => (seen.length, bad.take 3, stuck)
  | s :: rest =>
    let succs := (List.range (s.N + 1)).filterMap (step s)
    let isStuck := succs.isEmpty && !(s.cpc == .ready && s.ops.isEmpty)
    let new := succs.filter (fun x => !(seen.contains (key x)))
    let newKeys := (new.map key).eraseDups
    let new' := newKeys.filterMap (fun k => new.find? (fun x => key x == k))
    explore (rest ++ new') (seen ++ newKeys) (if invB s then bad else bad ++ [reprStr (key s)]) (stuck + (if isStuck then 1 else 0))

#eval explore [init 1 [.runBlocks, .pause, .resume, .pause, .pause, .resume, .resume, .runBlocks]] [] [] 0
#eval explore [init 2 [.pause, .resume, .pause, .resume, .runBlocks, .runBlocks, .pause]] [] [] 0
#eval explore [init 3 [.runBlocks, .pause, .resume, .pause, .resume]] [] [] 0

end Fs.Pool3
