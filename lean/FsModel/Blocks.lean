namespace Fs
/-- model of thread_pool::blocks (thread_pool_inl.hpp:249-278) -/
structure Blocks where
  first : Nat
  last : Nat
  nb : Nat
  bs : Nat
  rem : Nat
deriving Repr

def mkBlocks (first last poolSize minSize : Nat) : Blocks :=
  if last > first then
    let total := last - first
    let nb0 := if poolSize > total then total else poolSize
    let nb1 := if total / nb0 < minSize then max 1 (total / minSize) else nb0
    let bs := total / nb1
    let rem := total % nb1
    if bs = 0 then { first, last, nb := if total > 1 then total else 1, bs := 1, rem }
    else { first, last, nb := nb1, bs, rem }
  else { first, last, nb := 0, bs := 0, rem := 0 }

def Blocks.start (b : Blocks) (k : Nat) : Nat := b.first + k * b.bs + (if k < b.rem then k else b.rem)
def Blocks.stop (b : Blocks) (k : Nat) : Nat := if k = b.nb - 1 then b.last else b.start (k + 1)

/-- the well-formedness facts everything else follows from -/
structure Blocks.WF (b : Blocks) (poolSize : Nat) : Prop where
  nb_pos : 0 < b.nb
  nb_le : b.nb ≤ poolSize
  bs_pos : 0 < b.bs
  rem_lt : b.rem < b.nb
  total : b.nb * b.bs + b.rem = b.last - b.first
  lt : b.first < b.last

theorem mkBlocks_wf (first last poolSize minSize : Nat) (hp : 0 < poolSize) (h : first < last) :
    (mkBlocks first last poolSize minSize).WF poolSize := by
  unfold mkBlocks
  simp only [gt_iff_lt, h, if_true]
  generalize hT : last - first = total
  have hT0 : 0 < total := by omega
  -- nb0
  generalize hnb0 : (if total < poolSize then total else poolSize) = nb0
  have h0pos : 0 < nb0 := by split at hnb0 <;> omega
  have h0le : nb0 ≤ poolSize := by split at hnb0 <;> omega
  have h0tot : nb0 ≤ total := by split at hnb0 <;> omega
  -- nb1
  generalize hnb1 : (if total / nb0 < minSize then max 1 (total / minSize) else nb0) = nb1
  have h1 : 0 < nb1 ∧ nb1 ≤ poolSize ∧ nb1 ≤ total := by
    split at hnb1
    · rename_i hlt
      have hms : 0 < minSize := Nat.lt_of_le_of_lt (Nat.zero_le _) hlt
      have hq : total / minSize ≤ nb0 := by
        -- total / nb0 < minSize  →  total < minSize * nb0  →  total / minSize < nb0 + 1 … ≤ nb0
        have h1 : total < minSize * nb0 := by
          have := Nat.lt_mul_div_succ total h0pos
          calc total < nb0 * (total / nb0 + 1) := this
            _ ≤ nb0 * minSize := Nat.mul_le_mul_left _ hlt
            _ = minSize * nb0 := Nat.mul_comm _ _
        have : total / minSize < nb0 := (Nat.div_lt_iff_lt_mul hms).mpr (by rw [Nat.mul_comm]; exact h1)
        omega
      have hq2 : total / minSize ≤ total := Nat.div_le_self _ _
      subst hnb1
      refine ⟨by omega, ?_, ?_⟩ <;> (simp only [Nat.max_def]; split <;> omega)
    · subst hnb1; exact ⟨h0pos, h0le, h0tot⟩
  obtain ⟨h1pos, h1le, h1tot⟩ := h1
  have hbs : 0 < total / nb1 := Nat.div_pos h1tot h1pos
  have hne : ¬ (total / nb1 = 0) := by omega
  simp only [hne, if_false]
  refine ⟨h1pos, h1le, hbs, Nat.mod_lt _ h1pos, ?_, h⟩
  simp only []
  rw [hT]
  exact Nat.div_add_mod total nb1


theorem start_succ (b : Blocks) (k : Nat) :
    b.start (k + 1) = b.start k + b.bs + (if k < b.rem then 1 else 0) := by
  unfold Blocks.start
  rw [Nat.succ_mul]
  by_cases h1 : k < b.rem <;> by_cases h2 : k + 1 < b.rem <;> simp [h1, h2] <;> omega

theorem start_zero (b : Blocks) : b.start 0 = b.first := by
  unfold Blocks.start; simp

theorem start_nb {p} (b : Blocks) (w : b.WF p) : b.start b.nb = b.last := by
  unfold Blocks.start
  have := w.rem_lt; have := w.total; have := w.lt
  simp only [show ¬ b.nb < b.rem by omega, if_false]
  omega

/-- every block is non-empty, consecutive blocks touch, the first starts at `first`, the last
ends at `last`: the blocks partition `[first, last)`. -/
theorem blocks_partition {p} (b : Blocks) (w : b.WF p) :
    b.start 0 = b.first ∧ b.stop (b.nb - 1) = b.last ∧
    (∀ k, k < b.nb → b.start k < b.stop k) ∧
    (∀ k, k + 1 < b.nb → b.stop k = b.start (k + 1)) := by
  refine ⟨start_zero b, by simp [Blocks.stop], ?_, ?_⟩
  · intro k hk
    unfold Blocks.stop
    split
    · rename_i hk1
      -- last block: start k < last = start nb, and start is increasing
      have hs := start_nb b w
      have : b.start (k + 1) = b.last := by
        have : k + 1 = b.nb := by have := w.nb_pos; omega
        rw [this, hs]
      rw [← this, start_succ]; have := w.bs_pos; omega
    · rw [start_succ]; have := w.bs_pos; omega
  · intro k hk
    unfold Blocks.stop
    have : ¬ k = b.nb - 1 := by omega
    simp [this]
end Fs
