/-! Operator-sequence validation prototype (flow_operator.hpp add_operator / flow_snapshot.hpp
update_snapshots / flow_graph constructor). The flag table would be generated from the source. -/
namespace Fs.OpSeq

inductive Dir | undefined | single | multi deriving DecidableEq, Repr

structure Flags where
  graphUpdated : Bool
  elevUpdated : Bool
  inDir : Dir
  outDir : Dir
  graphSnapshot : Bool      -- flow_snapshot with save_graph
deriving DecidableEq, Repr

structure Acc where
  elevUpdated : Bool := false
  graphUpdated : Bool := false
  outDir : Dir := .undefined
  allSingle : Bool := true
deriving DecidableEq, Repr

/-- one `add_operator` (incl. the snapshot registration that precedes it); `none` = throws -/
def add (a : Acc) (f : Flags) : Option Acc :=
  if f.graphSnapshot && a.outDir == .undefined then none
  else if f.inDir != .undefined && f.inDir != a.outDir then none
  else
    let a1 := if f.elevUpdated then { a with elevUpdated := true } else a
    let a2 := if f.graphUpdated then
        let a' := { a1 with graphUpdated := true }
        if f.outDir != .undefined then
          { a' with outDir := f.outDir, allSingle := a'.allSingle && (f.outDir == .single) }
        else a'
      else a1
    some a2

def build (ops : List Flags) : Option Acc :=
  (ops.foldlM add {}).bind fun a => if a.graphUpdated && a.outDir != .undefined then some a else none

/-- the direction produced by a prefix (spec side, independent of the accumulator) -/
def dirAfter : List Flags → Dir
  | [] => .undefined
  | ops => ops.foldl (fun d f => if f.graphUpdated && f.outDir != .undefined then f.outDir else d) .undefined

def Compatible : List Flags → List Flags → Prop    -- prefix, rest
  | _, [] => True
  | pre, f :: rest =>
    (f.graphSnapshot = true → dirAfter pre ≠ .undefined) ∧
    (f.inDir ≠ .undefined → f.inDir = dirAfter pre) ∧ Compatible (pre ++ [f]) rest

theorem foldlM_add_dir (pre ops : List Flags) (a b : Acc) (ha : a.outDir = dirAfter pre)
    (h : ops.foldlM add a = some b) : b.outDir = dirAfter (pre ++ ops) ∧ Compatible pre ops := by
  induction ops generalizing pre a with
  | nil => simp [List.foldlM] at h; subst h; simp [ha, Compatible]
  | cons f rest ih =>
    simp only [List.foldlM_cons] at h
    cases hadd : add a f with
    | none => simp [hadd] at h
    | some a' =>
      simp only [hadd, Option.bind_some] at h
      have hd : a'.outDir = dirAfter (pre ++ [f]) := by
        have : dirAfter (pre ++ [f]) =
            if f.graphUpdated && f.outDir != .undefined then f.outDir else dirAfter pre := by
          cases pre <;> simp [dirAfter, List.foldl_append]
        rw [this, ← ha]
        unfold add at hadd
        split at hadd
        · cases hadd
        · split at hadd
          · cases hadd
          · cases hadd
            cases hg : f.graphUpdated <;> cases ho : (f.outDir != Dir.undefined) <;>
              cases he : f.elevUpdated <;> simp [hg, ho, he]
      obtain ⟨h1, h2⟩ := ih (pre ++ [f]) a' hd h
      refine ⟨by simpa using h1, ?_, ?_, h2⟩
      · intro hs
        unfold add at hadd
        rw [← ha]
        intro hu
        simp [hs, hu] at hadd
      · intro hin
        unfold add at hadd
        rw [← ha]
        split at hadd
        · cases hadd
        · split at hadd
          · cases hadd
          · rename_i h2
            simp only [Bool.and_eq_true, bne_iff_ne, ne_eq, not_and, Decidable.not_not] at h2
            exact h2 hin

/-- converse: a sequence compatible with its prefix is folded without error -/
theorem foldlM_add_some (pre ops : List Flags) (a : Acc) (ha : a.outDir = dirAfter pre)
    (hc : Compatible pre ops) : ∃ b, ops.foldlM add a = some b := by
  induction ops generalizing pre a with
  | nil => exact ⟨a, by simp [List.foldlM]⟩
  | cons f rest ih =>
    obtain ⟨h1, h2, h3⟩ := hc
    simp only [List.foldlM_cons]
    have hadd : ∃ a', add a f = some a' := by
      unfold add
      have c1 : (f.graphSnapshot && a.outDir == .undefined) = false := by
        cases hs : f.graphSnapshot
        · simp
        · have := h1 hs; rw [← ha] at this; simp [this]
      have c2 : (f.inDir != .undefined && f.inDir != a.outDir) = false := by
        by_cases hin : f.inDir = .undefined
        · simp [hin]
        · have := h2 hin; rw [← ha] at this; simp [this]
      simp [c1, c2]
    obtain ⟨a', ha'⟩ := hadd
    have hd : a'.outDir = dirAfter (pre ++ [f]) := by
      have := (foldlM_add_dir pre [f] a a' ha (by simp [List.foldlM, ha'])).1
      simpa using this
    obtain ⟨b, hb⟩ := ih (pre ++ [f]) a' hd h3
    exact ⟨b, by simp [ha', hb]⟩

/-- **accepts_iff** for the folding part: the operators are accepted one after the other iff every
operator is compatible with the direction produced before it and every graph snapshot follows a
router. (The constructor then additionally requires `graphUpdated` and a defined direction.) -/
theorem fold_accepts_iff (ops : List Flags) :
    (∃ b, ops.foldlM add ({} : Acc) = some b) ↔ Compatible [] ops := by
  constructor
  · rintro ⟨b, hb⟩; exact (foldlM_add_dir [] ops {} b rfl hb).2
  · intro hc; exact foldlM_add_some [] ops {} rfl hc

end Fs.OpSeq
