import FsModel.Mst

/-! Certificate checker for minimum spanning forests of the basin graph.

`certOk S nb edges tree` is run on an arbitrary candidate `tree` (a list of edge indices, e.g. the
output of `boruvka`) and accepts only minimum-weight spanning forests of `edges`
(`Fs.C15.certOk_sound` in `FsProofs/Properties/C15Cert.lean`):

1. `certValid`   : tree indices are edge indices, end points of all edges are basins `< nb`;
2. `certForest`  : the class-map Kruskal run over the candidate's own edges, in the candidate's own
                   order, accepts every one of them (no edge closes a cycle);
3. `certSpan`    : after that run both end points of every edge of `edges` are in the same class;
4. `certWeights` : the sorted list of weights of the candidate equals (pointwise `S.beq`) the sorted
                   list of weights of the Kruskal tree of the edges sorted by pass elevation.

The sort is a structurally recursive top-down merge sort (fuel = length of the list, never
exhausted) so that the checker can also be evaluated in the kernel by `decide`.
Cost: O(E log E) for the sorts, O(E·nb) for the two class-map Kruskal runs.  Core Lean only. -/
namespace Fs.Mst

variable {α : Type} {β : Type}

/-! ### a structurally recursive merge sort -/

/-- inner loop of `mergeBy`: merge `x :: xs` (with `k = mergeBy le xs`) into the second list -/
def mergeAux (le : β → β → Bool) (x : β) (k : List β → List β) : List β → List β
  | [] => x :: k []
  | y :: ys => if le x y then x :: k (y :: ys) else y :: mergeAux le x k ys

/-- merge of two lists sorted for `le` -/
def mergeBy (le : β → β → Bool) : List β → List β → List β
  | [], ys => ys
  | x :: xs, ys => mergeAux le x (mergeBy le xs) ys

/-- top-down merge sort with fuel (`fuel ≥ l.length` is enough) -/
def msortF (le : β → β → Bool) : Nat → List β → List β
  | 0, l => l
  | fuel + 1, l =>
    if l.length < 2 then l
    else
      let h := l.length / 2
      mergeBy le (msortF le fuel (l.take h)) (msortF le fuel (l.drop h))

def msort (le : β → β → Bool) (l : List β) : List β := msortF le l.length l

/-! ### the checker -/

/-- pass elevation of edge `i` (`S.lowest` for an invalid index, as in `boruvka`) -/
def peOf (S : Scalar α) (edges : Array (BEdge α)) (i : Nat) : α :=
  match edges[i]? with
  | some e => e.pe
  | Option.none => S.lowest

/-- `pe i ≤ pe j` -/
def peLe (S : Scalar α) (edges : Array (BEdge α)) (i j : Nat) : Bool :=
  !S.lt (peOf S edges j) (peOf S edges i)

/-- indices of all edges sorted by non-decreasing pass elevation -/
def sortByPe (S : Scalar α) (edges : Array (BEdge α)) : List Nat :=
  msort (peLe S edges) (List.range edges.size)

/-- the class-map Kruskal run over the candidate's own edges in the candidate's own order
(`kruskal nb edges tree = (certRun nb edges tree).tree` by definition) -/
def certRun (nb : Nat) (edges : Array (BEdge α)) (tree : List Nat) : KS :=
  tree.foldl (kruskalStep edges) { cls := Array.range nb, tree := [] }

/-- (1) every tree index is a valid edge index, end points of every edge are `< nb` -/
def certValid (nb : Nat) (edges : Array (BEdge α)) (tree : List Nat) : Bool :=
  tree.all (fun i => decide (i < edges.size)) &&
  edges.toList.all (fun e => decide (e.l0 < nb) && decide (e.l1 < nb))

/-- (2) FOREST: Kruskal over the candidate accepts every candidate edge -/
def certForest (nb : Nat) (edges : Array (BEdge α)) (tree : List Nat) : Bool :=
  (certRun nb edges tree).tree == tree

/-- (3) SPANNING: after the run both end points of every edge are in the same class -/
def certSpan (nb : Nat) (edges : Array (BEdge α)) (tree : List Nat) : Bool :=
  let s := certRun nb edges tree
  edges.toList.all (fun e => s.cls.getD e.l0 e.l0 == s.cls.getD e.l1 e.l1)

/-- weights of the (valid) edge indices of `t`, in the order of `t` -/
def weightsOf (edges : Array (BEdge α)) (t : List Nat) : List α :=
  t.filterMap (fun i => (edges[i]?).map (fun e => e.pe))

/-- weights sorted in non-decreasing order -/
def sortW (S : Scalar α) (l : List α) : List α := msort (fun a b => !S.lt b a) l

/-- equal length and pointwise `S.beq` -/
def sameWeights (S : Scalar α) : List α → List α → Bool
  | [], [] => true
  | a :: as, b :: bs => S.beq a b && sameWeights S as bs
  | _, _ => false

/-- (4) SAME WEIGHTS AS A KRUSKAL TREE -/
def certWeights (S : Scalar α) (nb : Nat) (edges : Array (BEdge α)) (tree : List Nat) : Bool :=
  let tK := kruskal nb edges (sortByPe S edges)
  sameWeights S (sortW S (weightsOf edges tree)) (sortW S (weightsOf edges tK))

/-- the certificate checker: `tree` is a minimum-weight spanning forest of `edges` -/
def certOk (S : Scalar α) (nb : Nat) (edges : Array (BEdge α)) (tree : List Nat) : Bool :=
  certValid nb edges tree && certForest nb edges tree && certSpan nb edges tree &&
  certWeights S nb edges tree

end Fs.Mst

namespace Fs.Mst
variable {α : Type}

/-- indices of the edges lying in the connected component of basin `root` (class map after
joining along ALL edges) -/
def rootComponent (nb : Nat) (edges : Array (BEdge α)) (root : Nat) : List Nat :=
  let s := certRun nb edges (List.range edges.size)
  let rc := s.cls.getD root root
  (List.range edges.size).filter (fun i =>
    match edges[i]? with
    | some e => s.cls.getD e.l0 e.l0 == rc
    | Option.none => false)

/-- the sub-array of the edges of the root's component and the candidate tree re-indexed into it -/
def restrictTo (edges : Array (BEdge α)) (idx : List Nat) (tree : List Nat) : Array (BEdge α) × List Nat :=
  ((idx.filterMap (fun i => edges[i]?)).toArray, tree.map (fun i => idx.idxOf i))

/-- certificate for a final (oriented, root-reachable) tree as the implementation reports it:
every tree edge lies in the root's component and the tree passes `certOk` on the edges of that
component -/
def certImpl (S : Scalar α) (nb : Nat) (edges : Array (BEdge α)) (tree : List Nat) (root : Nat) : Bool :=
  let idx := rootComponent nb edges root
  let r := restrictTo edges idx tree
  tree.all (fun i => idx.contains i) && certOk S nb r.1 r.2

end Fs.Mst
