/-! Non-interfering tasks: every interleaving ends in the same memory (C10 core).
Memory is `Nat → V`; an action has a read set and a write set. -/
namespace Fs.Commute

variable {V : Type}

structure Action (V : Type) where
  act : (Nat → V) → (Nat → V)
  R : Nat → Prop
  W : Nat → Prop
  frame : ∀ m l, ¬ W l → act m l = m l
  det : ∀ m m', (∀ l, R l → m l = m' l) → ∀ l, W l → act m l = act m' l

structure Task (V : Type) where
  steps : List (Action V)
  R : Nat → Prop
  W : Nat → Prop
  subR : ∀ a, a ∈ steps → ∀ l, a.R l → R l
  subW : ∀ a, a ∈ steps → ∀ l, a.W l → W l

/-- run the first `k` actions of a list -/
def runK : List (Action V) → Nat → (Nat → V) → (Nat → V)
  | [], _, m => m
  | _, 0, m => m
  | a :: t, k + 1, m => runK t k (a.act m)

theorem runK_snoc (l : List (Action V)) (k : Nat) (m : Nat → V) (hk : k < l.length) :
    runK l (k + 1) m = (l[k]).act (runK l k m) := by
  induction l generalizing k m with
  | nil => simp at hk
  | cons a t ih =>
    cases k with
    | zero => simp [runK]; cases t <;> simp [runK]
    | succ k =>
      simp only [runK]
      have : k < t.length := by simpa using hk
      rw [ih k _ this]
      simp

/-- scheduler state: memory and one program counter per task -/
structure St (V : Type) where
  mem : Nat → V
  pc : Nat → Nat

def stepT (ts : List (Task V)) (s : St V) (k : Nat) : Option (St V) :=
  match ts[k]? with
  | none => none
  | some t => match t.steps[s.pc k]? with
    | none => none
    | some a => some { mem := a.act s.mem, pc := fun j => if j = k then s.pc k + 1 else s.pc j }

def runSched (ts : List (Task V)) : List Nat → St V → Option (St V)
  | [], s => some s
  | k :: σ, s => (stepT ts s k).bind (runSched ts σ)

def NonInterfering (ts : List (Task V)) : Prop :=
  ∀ j k (hj : j < ts.length) (hk : k < ts.length), j ≠ k →
    ∀ l, ts[j].W l → ¬ ts[k].R l ∧ ¬ ts[k].W l

/-- invariant: every task sees, on its own footprint, exactly what it would see running alone -/
def Solo (ts : List (Task V)) (m0 : Nat → V) (s : St V) : Prop :=
  (∀ k (hk : k < ts.length), ∀ l, ts[k].R l ∨ ts[k].W l → s.mem l = runK ts[k].steps (s.pc k) m0 l) ∧
  (∀ l, (∀ k (hk : k < ts.length), ¬ ts[k].W l) → s.mem l = m0 l)

theorem solo_step (ts : List (Task V)) (hni : NonInterfering ts) (m0 : Nat → V) (s s' : St V) (k : Nat)
    (h : Solo ts m0 s) (hs : stepT ts s k = some s') : Solo ts m0 s' := by
  unfold stepT at hs
  cases htk : ts[k]? with
  | none => simp [htk] at hs
  | some t =>
    simp only [htk] at hs
    cases hak : t.steps[s.pc k]? with
    | none => simp [hak] at hs
    | some a =>
      simp only [hak] at hs
      cases hs
      obtain ⟨hk, htk'⟩ := List.getElem?_eq_some_iff.mp htk
      obtain ⟨hpc, hak'⟩ := List.getElem?_eq_some_iff.mp hak
      have ha_mem : a ∈ t.steps := by rw [← hak']; exact List.getElem_mem hpc
      subst htk'
      refine ⟨?_, ?_⟩
      · intro j hj l hl
        by_cases hjk : j = k
        · subst hjk
          simp only [if_true]
          rw [runK_snoc _ _ _ hpc, hak']
          by_cases hw : a.W l
          · apply a.det _ _ _ l hw
            intro l' hl'
            exact h.1 j hj l' (Or.inl (ts[j].subR a ha_mem l' hl'))
          · rw [a.frame _ _ hw, a.frame _ _ hw]
            exact h.1 j hj l hl
        · simp only [hjk, if_false]
          have hnw : ¬ a.W l := by
            intro hw
            have := hni k j hk hj (Ne.symm hjk) l (ts[k].subW a ha_mem l hw)
            rcases hl with hl | hl
            · exact this.1 hl
            · exact this.2 hl
          rw [a.frame _ _ hnw]
          exact h.1 j hj l hl
      · intro l hl
        have hnw : ¬ a.W l := fun hw => hl k hk (ts[k].subW a ha_mem l hw)
        show a.act s.mem l = m0 l
        rw [a.frame _ _ hnw]
        exact h.2 l hl

theorem solo_sched (ts : List (Task V)) (hni : NonInterfering ts) (m0 : Nat → V) (σ : List Nat)
    (s s' : St V) (h : Solo ts m0 s) (hs : runSched ts σ s = some s') : Solo ts m0 s' := by
  induction σ generalizing s with
  | nil => simp [runSched] at hs; subst hs; exact h
  | cons k σ ih =>
    simp only [runSched] at hs
    cases hst : stepT ts s k with
    | none => simp [hst] at hs
    | some s1 =>
      simp only [hst, Option.bind_some] at hs
      exact ih s1 (solo_step ts hni m0 s s1 k h hst) hs

/-- **any two complete schedules agree**: if both run every task to completion, the final
memories coincide (in particular with the sequential schedule). -/
theorem schedules_agree (ts : List (Task V)) (hni : NonInterfering ts) (m0 : Nat → V)
    (σ₁ σ₂ : List Nat) (s₁ s₂ : St V)
    (h₁ : runSched ts σ₁ { mem := m0, pc := fun _ => 0 } = some s₁)
    (h₂ : runSched ts σ₂ { mem := m0, pc := fun _ => 0 } = some s₂)
    (hc₁ : ∀ k (hk : k < ts.length), s₁.pc k = ts[k].steps.length)
    (hc₂ : ∀ k (hk : k < ts.length), s₂.pc k = ts[k].steps.length) : s₁.mem = s₂.mem := by
  have init : Solo ts m0 { mem := m0, pc := fun _ => 0 } := by
    refine ⟨?_, fun _ _ => rfl⟩
    intro k hk l _
    cases ts[k].steps <;> simp [runK]
  have j₁ := solo_sched ts hni m0 σ₁ _ s₁ init h₁
  have j₂ := solo_sched ts hni m0 σ₂ _ s₂ init h₂
  funext l
  by_cases hw : ∃ k, ∃ hk : k < ts.length, ts[k].W l
  · obtain ⟨k, hk, hwl⟩ := hw
    rw [j₁.1 k hk l (Or.inr hwl), j₂.1 k hk l (Or.inr hwl), hc₁ k hk, hc₂ k hk]
  · have : ∀ k (hk : k < ts.length), ¬ ts[k].W l := fun k hk hh => hw ⟨k, hk, hh⟩
    rw [j₁.2 l this, j₂.2 l this]

end Fs.Commute
