/-! Raster node-status composition (raster_grid.hpp set_nodes_status): borders, corner
precedence (generated from `node_status_cmp`), then per-node overrides with rejection rules. -/
namespace Fs.Status

inductive NS | core | fixedValue | fixedGradient | looped deriving DecidableEq, Repr

/-- precedence map of `detail::node_status_cmp` (the translator regenerates these four numbers) -/
def prio : NS → Nat
  | .core => 0 | .looped => 1 | .fixedGradient => 2 | .fixedValue => 3

def maxNS (a b : NS) : NS := if prio a < prio b then b else a     -- std::max(a, b, cmp)

structure Bounds where
  left : NS
  right : NS
  top : NS
  bottom : NS
deriving DecidableEq, Repr

def symmetricLoops (b : Bounds) : Bool :=
  ((b.left == .looped) == (b.right == .looped)) && ((b.top == .looped) == (b.bottom == .looped))

/-- the code: fill core, paint left/right columns, then top/bottom rows, then the four corners -/
def paint (rows cols : Nat) (b : Bounds) (r c : Nat) : NS :=
  let s0 := NS.core
  let s1 := if c = 0 then b.left else s0
  let s2 := if c = cols - 1 then b.right else s1
  let s3 := if r = 0 then b.top else s2
  let s4 := if r = rows - 1 then b.bottom else s3
  -- corners
  if r = 0 ∧ c = 0 then maxNS b.top b.left
  else if r = 0 ∧ c = cols - 1 then maxNS b.top b.right
  else if r = rows - 1 ∧ c = 0 then maxNS b.bottom b.left
  else if r = rows - 1 ∧ c = cols - 1 then maxNS b.bottom b.right
  else s4

/-- the documented composition -/
def spec (rows cols : Nat) (b : Bounds) (r c : Nat) : NS :=
  let onT := r = 0
  let onB := r = rows - 1
  let onL := c = 0
  let onR := c = cols - 1
  let rowB := if onT then some b.top else if onB then some b.bottom else none
  let colB := if onL then some b.left else if onR then some b.right else none
  match rowB, colB with
  | some x, some y => if prio x ≥ prio y then x else y
  | some x, none => x
  | none, some y => y
  | none, none => .core

theorem paint_eq_spec (rows cols : Nat) (hr : 2 ≤ rows) (hc : 2 ≤ cols) (b : Bounds) (r c : Nat)
    (hr' : r < rows) (hc' : c < cols) : paint rows cols b r c = spec rows cols b r c := by
  have hrcase : r = 0 ∨ r = rows - 1 ∨ (r ≠ 0 ∧ r ≠ rows - 1) := by omega
  have hccase : c = 0 ∨ c = cols - 1 ∨ (c ≠ 0 ∧ c ≠ cols - 1) := by omega
  have e1 : ¬ (0 = rows - 1) := by omega
  have e2 : ¬ (0 = cols - 1) := by omega
  have e3 : ¬ (rows - 1 = 0) := by omega
  have e4 : ¬ (cols - 1 = 0) := by omega
  rcases hrcase with rfl | rfl | ⟨h1, h2⟩ <;> rcases hccase with rfl | rfl | ⟨h3, h4⟩ <;>
    simp [paint, spec, maxNS, e1, e2, e3, e4, *] <;>
    (try (split <;> simp_all <;> omega))

/-- overrides: `none` = the constructor throws -/
def applyOverrides (rows cols : Nat) (base : Nat → Nat → NS) : List ((Nat × Nat) × NS) → Option (Nat → Nat → NS)
  | [] => some base
  | ((r, c), s) :: rest =>
    if r ≥ rows ∨ c ≥ cols then none
    else if s = .looped then none
    else if base r c = .looped then none
    else applyOverrides rows cols (fun r' c' => if r' = r ∧ c' = c then s else base r' c') rest

theorem overrides_rejected_first (rows cols : Nat) (base : Nat → Nat → NS) (r c : Nat) (s : NS)
    (rest : List ((Nat × Nat) × NS)) (h : r ≥ rows ∨ c ≥ cols ∨ s = .looped ∨ base r c = .looped) :
    applyOverrides rows cols base (((r, c), s) :: rest) = none := by
  unfold applyOverrides
  rcases h with h | h | h | h
  · simp [h]
  · simp [h]
  · by_cases h0 : r ≥ rows ∨ c ≥ cols <;> simp [h0, h]
  · by_cases h0 : r ≥ rows ∨ c ≥ cols <;> by_cases h1 : s = .looped <;> simp [h0, h1, h]

end Fs.Status
