import FsModel.Basic

/-! Text protocol helpers shared by the drivers: tokens, 16-hex-digit doubles. Core Lean only. -/
namespace Fs.Wire

def hexDigit (c : Char) : Option Nat :=
  if '0' ≤ c ∧ c ≤ '9' then some (c.toNat - '0'.toNat)
  else if 'a' ≤ c ∧ c ≤ 'f' then some (c.toNat - 'a'.toNat + 10)
  else if 'A' ≤ c ∧ c ≤ 'F' then some (c.toNat - 'A'.toNat + 10)
  else none

def parseHex (s : String) : Option Nat :=
  s.toList.foldl (fun acc c => match acc, hexDigit c with
    | some a, some d => some (a * 16 + d)
    | _, _ => none) (some 0)

def hexF (s : String) : Float :=
  match parseHex s with
  | some n => Float.ofBits (UInt64.ofNat n)
  | none => Float.ofBits 0x7ff8000000000000

def nibble (n : Nat) : Char :=
  if n < 10 then Char.ofNat ('0'.toNat + n) else Char.ofNat ('a'.toNat + n - 10)

def fHex (x : Float) : String :=
  let b := x.toBits.toNat
  String.ofList ((List.range 16).map (fun k => nibble ((b >>> (4 * (15 - k))) % 16)))

def toks (line : String) : List String :=
  (line.splitOn " ").filter (· ≠ "")

def natOf (s : String) : Nat := s.toNat?.getD 0

def joinNats (l : List Nat) : String := " ".intercalate (l.map toString)
def joinF (l : List Float) : String := " ".intercalate (l.map fHex)

def line (sec : String) (body : String) : String :=
  if body.isEmpty then "O " ++ sec else "O " ++ sec ++ " " ++ body

end Fs.Wire
