import FsModel.Basic

/-! Hillslope diffusion, alternating-direction-implicit scheme (`eroders/diffusion_adi.hpp`):
factor tables, the tridiagonal (Thomas) solve, the row sweep used for both half steps (the second
one on transposed data), erosion = elevation − new elevation.  Operation order mirrors the xtensor
expressions so that the Float instance is bit-identical.  Core Lean only. -/
namespace Fs.Adi

variable {α : Type}

/-- a 2-D field as a function of (row, col) -/
abbrev Fld (α : Type) := Nat → Nat → α

structure Factors (α : Type) where
  f0 : Fld α
  f1 : Fld α
  f2 : Fld α

def two (S : Scalar α) : α := S.ofNat 2

/-- `set_factors`, scalar diffusivity: `k * 0.5 / (d*d)` in all three layers -/
def factorsScalar (S : Scalar α) (half k d : α) : Factors α :=
  let f := S.div (S.mul k half) (S.mul d d)
  { f0 := fun _ _ => f, f1 := fun _ _ => f, f2 := fun _ _ => f }

/-- `set_factors`, array diffusivity, row direction: neighbours along the row index -/
def factorsRow (S : Scalar α) (quarter dy : α) (k : Fld α) : Factors α :=
  let fr := S.div quarter (S.mul dy dy)
  { f0 := fun r c => S.mul fr (S.add (k (r - 1) c) (k r c)),
    f1 := fun r c => S.mul (S.div fr (two S)) (S.add (S.add (k (r - 1) c) (S.mul (two S) (k r c))) (k (r + 1) c)),
    f2 := fun r c => S.mul fr (S.add (k r c) (k (r + 1) c)) }

/-- column direction: neighbours along the column index -/
def factorsCol (S : Scalar α) (quarter dx : α) (k : Fld α) : Factors α :=
  let fc := S.div quarter (S.mul dx dx)
  { f0 := fun r c => S.mul fc (S.add (k r (c - 1)) (k r c)),
    f1 := fun r c => S.mul (S.div fc (two S)) (S.add (S.add (k r (c - 1)) (S.mul (two S) (k r c))) (k r (c + 1))),
    f2 := fun r c => S.mul fc (S.add (k r c) (k r (c + 1))) }

def Factors.transpose (f : Factors α) : Factors α :=
  { f0 := fun r c => f.f0 c r, f1 := fun r c => f.f1 c r, f2 := fun r c => f.f2 c r }

/-! ### tridiagonal solve (`solve_tridiagonal`) -/

structure Fwd (α : Type) where
  bet : α
  res : List α      -- result(0..i), reversed (head = result(i))
  gam : List α      -- gam(1..i), reversed
  zeroPivot : Bool

/-- forward sweep over rows `1..n-1` -/
def fwdStep (S : Scalar α) (lower diag upper vec : Nat → α) (s : Fwd α) (i : Nat) : Fwd α :=
  let g := S.div (upper (i - 1)) s.bet
  let bet := S.sub (diag i) (S.mul (lower i) g)
  let prev := s.res.headD S.zero
  { bet := bet, res := S.div (S.sub (vec i) (S.mul (lower i) prev)) bet :: s.res, gam := g :: s.gam,
    zeroPivot := s.zeroPivot || S.beq bet S.zero }

/-- back substitution: `result(i) -= gam(i+1) * result(i+1)` from `n-2` down to `0`.
`resRev` = result(n-1), …, result(0); `gamRev` = gam(n-1), …, gam(1). Returns result(0..n-1). -/
def backSub (S : Scalar α) : List α → List α → List α → List α
  | [], _, acc => acc
  | x :: xs, gs, [] => backSub S xs gs [x]
  | x :: xs, g :: gs, nxt :: acc => backSub S xs gs (S.sub x (S.mul g nxt) :: nxt :: acc)
  | x :: xs, [], acc => backSub S xs [] (x :: acc)

/-- `none` = "division by zero while solving tri-diagonal system" -/
def thomas (S : Scalar α) (n : Nat) (lower diag upper vec : Nat → α) : Option (List α) :=
  if n = 0 then some []
  else if S.beq (diag 0) S.zero then none
  else
    let s0 : Fwd α := { bet := diag 0, res := [S.div (vec 0) (diag 0)], gam := [], zeroPivot := false }
    let s := (List.range' 1 (n - 1)).foldl (fwdStep S lower diag upper vec) s0
    if s.zeroPivot then none else some (backSub S s.res s.gam [])

/-! ### one half step (`solve_adi_row`) -/

/-- row `r` of the half step: implicit along the columns with `fcol`, explicit along the rows with `frow` -/
def solveRow (S : Scalar α) (ncols : Nat) (frow fcol : Factors α) (dt : α) (e : Fld α) (r : Nat) : Option (List α) :=
  let last := ncols - 1
  let bnd (c : Nat) : Bool := c = 0 || c = last
  let mone := S.sub S.zero S.one
  let lower := fun c => if bnd c then S.zero else S.mul (S.mul mone (fcol.f0 r c)) dt
  let diag := fun c => if bnd c then S.one else S.add S.one (S.mul (S.mul (two S) (fcol.f1 r c)) dt)
  let upper := fun c => if bnd c then S.zero else S.mul (S.mul mone (fcol.f2 r c)) dt
  let vec := fun c =>
    if bnd c then e r c
    else S.add (S.add (S.mul (S.sub S.one (S.mul (S.mul (two S) (frow.f1 r c)) dt)) (e r c))
                      (S.mul (S.mul (frow.f0 r c) (e (r - 1) c)) dt))
               (S.mul (S.mul (frow.f2 r c) (e (r + 1) c)) dt)
  thomas S ncols lower diag upper vec

/-- `solve_adi_row`: interior rows solved, first and last row copied; `none` = a pivot vanished -/
def halfStep (S : Scalar α) (nrows ncols : Nat) (frow fcol : Factors α) (dt : α) (e : Fld α) : Option (Fld α) :=
  let rows : List (Option (Array α)) := (List.range nrows).map fun r =>
    if r = 0 || r = nrows - 1 then some (Array.ofFn (n := ncols) (fun c => e r c.val))
    else (solveRow S ncols frow fcol dt e r).map List.toArray
  if rows.any Option.isNone then none
  else
    let tabl : Array (Array α) := (rows.map (fun o => o.getD #[])).toArray
    some (fun r c => (tabl.getD r #[]).getD c S.zero)

/-- `erode`: rows then columns (on transposed data), erosion = elevation − result -/
def erode (S : Scalar α) (nrows ncols : Nat) (frow fcol : Factors α) (dt : α) (e : Fld α) : Option (Fld α) :=
  match halfStep S nrows ncols frow fcol dt e with
  | none => none
  | some tmp =>
    match halfStep S ncols nrows fcol.transpose frow.transpose dt (fun r c => tmp c r) with
    | none => none
    | some nxt => some (fun r c => S.sub (e r c) (nxt c r))

end Fs.Adi
