import FsModel.Basic

/-! Hillslope diffusion, alternating-direction-implicit scheme (`eroders/diffusion_adi.hpp`):
factor tables, the tridiagonal (Thomas) solve, the row sweep used for both half steps (the second
one on transposed data), erosion = elevation − new elevation.  Operation order mirrors the xtensor
expressions so that the Float instance is bit-identical.  Core Lean only. -/
namespace Fs.Adi

variable {α : Type}

/-- a 2-D field as a function of (row, col) -/
abbrev Fld (α : Type) := Nat → Nat → α

structure Factors (α : Type) where
  f0 : Fld α
  f1 : Fld α
  f2 : Fld α

def two (S : Scalar α) : α := S.ofNat 2

/-- `set_factors`, scalar diffusivity: `k * 0.5 / (d*d)` in all three layers -/
def factorsScalar (S : Scalar α) (half k d : α) : Factors α :=
  let f := S.div (S.mul k half) (S.mul d d)
  { f0 := fun _ _ => f, f1 := fun _ _ => f, f2 := fun _ _ => f }

/-- `set_factors`, array diffusivity, row direction: neighbours along the row index -/
def factorsRow (S : Scalar α) (quarter dy : α) (k : Fld α) : Factors α :=
  let fr := S.div quarter (S.mul dy dy)
  { f0 := fun r c => S.mul fr (S.add (k (r - 1) c) (k r c)),
    f1 := fun r c => S.mul (S.div fr (two S)) (S.add (S.add (k (r - 1) c) (S.mul (two S) (k r c))) (k (r + 1) c)),
    f2 := fun r c => S.mul fr (S.add (k r c) (k (r + 1) c)) }

/-- column direction: neighbours along the column index -/
def factorsCol (S : Scalar α) (quarter dx : α) (k : Fld α) : Factors α :=
  let fc := S.div quarter (S.mul dx dx)
  { f0 := fun r c => S.mul fc (S.add (k r (c - 1)) (k r c)),
    f1 := fun r c => S.mul (S.div fc (two S)) (S.add (S.add (k r (c - 1)) (S.mul (two S) (k r c))) (k r (c + 1))),
    f2 := fun r c => S.mul fc (S.add (k r c) (k r (c + 1))) }

def Factors.transpose (f : Factors α) : Factors α :=
  { f0 := fun r c => f.f0 c r, f1 := fun r c => f.f1 c r, f2 := fun r c => f.f2 c r }

/-! ### tridiagonal solve (`solve_tridiagonal`) -/

/-- forward sweep: `(bet i, gam i, result(i) after the forward loop)`; `gam 0` is unused -/
def fwd (S : Scalar α) (lower diag upper vec : Nat → α) : Nat → α × α × α
  | 0 => (diag 0, S.zero, S.div (vec 0) (diag 0))
  | i + 1 =>
    let p := fwd S lower diag upper vec i
    let g := S.div (upper i) p.1
    let b := S.sub (diag (i + 1)) (S.mul (lower (i + 1)) g)
    (b, g, S.div (S.sub (vec (i + 1)) (S.mul (lower (i + 1)) p.2.2)) b)

/-- back substitution for a system of size `m + 1`, as a function of the distance from the last
row: `result(i) -= gam(i+1) * result(i+1)` -/
def xback (S : Scalar α) (lower diag upper vec : Nat → α) (m : Nat) : Nat → α
  | 0 => (fwd S lower diag upper vec m).2.2
  | k + 1 => S.sub (fwd S lower diag upper vec (m - (k + 1))).2.2
               (S.mul (fwd S lower diag upper vec (m - k)).2.1 (xback S lower diag upper vec m k))

/-- `none` = "division by zero while solving tri-diagonal system" (a vanishing pivot) -/
def thomas (S : Scalar α) (n : Nat) (lower diag upper vec : Nat → α) : Option (List α) :=
  if n = 0 then some []
  else if (List.range n).any (fun j => S.beq (fwd S lower diag upper vec j).1 S.zero) then none
  else some ((List.range n).map (fun i => xback S lower diag upper vec (n - 1) (n - 1 - i)))

/-! ### one half step (`solve_adi_row`) -/

/-- row `r` of the half step: implicit along the columns with `fcol`, explicit along the rows with `frow` -/
def solveRow (S : Scalar α) (ncols : Nat) (frow fcol : Factors α) (dt : α) (e : Fld α) (r : Nat) : Option (List α) :=
  let last := ncols - 1
  let bnd (c : Nat) : Bool := c = 0 || c = last
  let mone := S.sub S.zero S.one
  let lower := fun c => if bnd c then S.zero else S.mul (S.mul mone (fcol.f0 r c)) dt
  let diag := fun c => if bnd c then S.one else S.add S.one (S.mul (S.mul (two S) (fcol.f1 r c)) dt)
  let upper := fun c => if bnd c then S.zero else S.mul (S.mul mone (fcol.f2 r c)) dt
  let vec := fun c =>
    if bnd c then e r c
    else S.add (S.add (S.mul (S.sub S.one (S.mul (S.mul (two S) (frow.f1 r c)) dt)) (e r c))
                      (S.mul (S.mul (frow.f0 r c) (e (r - 1) c)) dt))
               (S.mul (S.mul (frow.f2 r c) (e (r + 1) c)) dt)
  thomas S ncols lower diag upper vec

/-- `solve_adi_row`: interior rows solved, first and last row copied; `none` = a pivot vanished -/
def halfStep (S : Scalar α) (nrows ncols : Nat) (frow fcol : Factors α) (dt : α) (e : Fld α) : Option (Fld α) :=
  let rows : List (Option (Array α)) := (List.range nrows).map fun r =>
    if r = 0 || r = nrows - 1 then some (Array.ofFn (n := ncols) (fun c => e r c.val))
    else (solveRow S ncols frow fcol dt e r).map List.toArray
  if rows.any Option.isNone then none
  else
    let tabl : Array (Array α) := (rows.map (fun o => o.getD #[])).toArray
    some (fun r c => (tabl.getD r #[]).getD c S.zero)

/-- `erode`: rows then columns (on transposed data), erosion = elevation − result -/
def erode (S : Scalar α) (nrows ncols : Nat) (frow fcol : Factors α) (dt : α) (e : Fld α) : Option (Fld α) :=
  match halfStep S nrows ncols frow fcol dt e with
  | none => none
  | some tmp =>
    match halfStep S ncols nrows fcol.transpose frow.transpose dt (fun r c => tmp c r) with
    | none => none
    | some nxt => some (fun r c => S.sub (e r c) (nxt c r))

end Fs.Adi
