structure ScalarOps (α : Type) where
  add : α → α → α
  sub : α → α → α
  neg : α → α
  mul : α → α → α
  div : α → α → α
  lt : α → α → Bool
  ofNat : Nat → α
  sqrt : α → α

namespace ScalarOps
def float : ScalarOps Float :=
  { add := (· + ·), sub := (· - ·), neg := fun a => -a, mul := (· * ·), div := (· / ·), lt := fun a b => a < b,
    ofNat := Float.ofNat, sqrt := Float.sqrt }
end ScalarOps

/-- the three circumcentric shares of one triangle, mirroring trimesh::set_nodes_areas;
    `e i` = squared length of half-edge i; returns (areaSquare, w0, w1, w2) -/
def triShares {α} (S : ScalarOps α) (q0 q1 q2 area : α) : α × α × α :=
  let two := S.ofNat 2
  let half := S.div (S.add (S.add q0 q1) q2) two
  let d0 := S.sub q0 half
  let d1 := S.sub q1 half
  let d2 := S.sub q2 half
  let quarter := S.div (S.ofNat 1) (S.ofNat 4)
  let ce (d : α) := S.div (S.mul (S.neg d) quarter) area
  let part (q d : α) := S.div (S.mul (S.div q two) (ce d)) two
  let p0 := part q0 d0
  let p1 := part q1 d1
  let p2 := part q2 d2
  (S.add p1 p2, S.add p2 p0, S.add p0 p1)

def areaSquare {α} (S : ScalarOps α) (q0 q1 q2 : α) : α :=
  let two := S.ofNat 2
  let half := S.div (S.add (S.add q0 q1) q2) two
  let d0 := S.sub q0 half
  let d1 := S.sub q1 half
  let d2 := S.sub q2 half
  S.mul (S.div (S.ofNat 1) (S.ofNat 4)) (S.add (S.add (S.mul d2 d0) (S.mul d0 d1)) (S.mul d1 d2))
