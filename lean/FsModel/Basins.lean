/-! Basin labelling (flow_graph_impl::compute_basins) along an order made of blocks
`root :: non-roots draining to it`. -/
namespace Fs.Basins

def upd {β} (f : Nat → β) (i : Nat) (v : β) : Nat → β := fun j => if j = i then v else f j

/-- state: number of outlets seen so far, labels -/
abbrev St := Nat × (Nat → Nat)

def bstep (recv : Nat → Nat) (mask : Nat → Bool) (maxL : Nat) (st : St) (x : Nat) : St :=
  if mask x then (st.1, upd st.2 x maxL)
  else
    let c := if recv x = x then st.1 + 1 else st.1
    (c, upd st.2 x (c - 1))

def run (recv : Nat → Nat) (mask : Nat → Bool) (maxL : Nat) (l : List Nat) (st : St) : St :=
  l.foldl (bstep recv mask maxL) st

theorem run_other (recv : Nat → Nat) (mask : Nat → Bool) (maxL : Nat) (l : List Nat) (st : St) (y : Nat)
    (h : y ∉ l) : (run recv mask maxL l st).2 y = st.2 y := by
  induction l generalizing st with
  | nil => rfl
  | cons a t ih =>
    simp only [run, List.foldl_cons]
    have ha : y ≠ a := fun e => h (e ▸ List.mem_cons_self)
    have ht : y ∉ t := fun hh => h (List.mem_cons_of_mem _ hh)
    have := ih (bstep recv mask maxL st a) ht
    simp only [run] at this
    rw [this]
    unfold bstep; split <;> simp [upd, ha]

/-- non-root nodes: the counter does not move and each gets the current label (or `maxL`) -/
theorem run_nonroots (recv : Nat → Nat) (mask : Nat → Bool) (maxL : Nat) (l : List Nat) (st : St)
    (hnr : ∀ x, x ∈ l → recv x ≠ x) :
    (run recv mask maxL l st).1 = st.1 ∧
    ∀ x, x ∈ l → (run recv mask maxL l st).2 x = if mask x then maxL else st.1 - 1 := by
  induction l generalizing st with
  | nil => exact ⟨rfl, fun _ h => by cases h⟩
  | cons a t ih =>
    simp only [run, List.foldl_cons]
    have hra : recv a ≠ a := hnr a List.mem_cons_self
    have hc : (bstep recv mask maxL st a).1 = st.1 := by
      unfold bstep; split
      · rfl
      · simp [hra]
    obtain ⟨h1, h2⟩ := ih (bstep recv mask maxL st a) (fun x hx => hnr x (List.mem_cons_of_mem _ hx))
    simp only [run] at h1 h2
    refine ⟨by rw [h1, hc], ?_⟩
    intro x hx
    by_cases hxt : x ∈ t
    · rw [h2 x hxt, hc]
    · have hxa : x = a := by
        rcases List.mem_cons.mp hx with h | h
        · exact h
        · exact absurd h hxt
      subst hxa
      have := run_other recv mask maxL t (bstep recv mask maxL st x) x hxt
      simp only [run] at this
      rw [this]
      unfold bstep; split
      · rename_i hm; simp [upd, hm]
      · rename_i hm; simp [upd, hm, hra]

/-- one block `r :: ext` (`r` a root, `ext` non-roots) -/
theorem run_block (recv : Nat → Nat) (mask : Nat → Bool) (maxL : Nat) (r : Nat) (ext : List Nat) (st : St)
    (hr : recv r = r) (hnr : ∀ x, x ∈ ext → recv x ≠ x) (hrn : r ∉ ext) :
    let c' := if mask r then st.1 else st.1 + 1
    (run recv mask maxL (r :: ext) st).1 = c' ∧
    ∀ x, x ∈ r :: ext → (run recv mask maxL (r :: ext) st).2 x = if mask x then maxL else c' - 1 := by
  intro c'
  simp only [run, List.foldl_cons]
  have hb : (bstep recv mask maxL st r).1 = c' := by
    unfold bstep; split
    · rename_i hm; simp [c', hm]
    · rename_i hm; simp [c', hm, hr]
  obtain ⟨h1, h2⟩ := run_nonroots recv mask maxL ext (bstep recv mask maxL st r) hnr
  simp only [run] at h1 h2
  refine ⟨by rw [h1, hb], ?_⟩
  intro x hx
  rcases List.mem_cons.mp hx with rfl | hx
  · have := run_other recv mask maxL ext (bstep recv mask maxL st x) x hrn
    simp only [run] at this
    rw [this]
    unfold bstep; split
    · rename_i hm; simp [upd, hm]
    · rename_i hm; simp [upd, hm, hr, c']
  · rw [h2 x hx, hb]

/-- **C19 core**: inside one block all unmasked nodes carry the block's label, masked nodes the
reserved label; the outlet counter advances by one exactly for an unmasked root. In particular
an unmasked node and its (unmasked) receiver, which lie in the same block, get the same label. -/
theorem block_labels_agree (recv : Nat → Nat) (mask : Nat → Bool) (maxL : Nat) (r : Nat) (ext : List Nat)
    (st : St) (hr : recv r = r) (hnr : ∀ x, x ∈ ext → recv x ≠ x) (hrn : r ∉ ext)
    (x y : Nat) (hx : x ∈ r :: ext) (hy : y ∈ r :: ext) (mx : mask x = false) (my : mask y = false) :
    (run recv mask maxL (r :: ext) st).2 x = (run recv mask maxL (r :: ext) st).2 y := by
  obtain ⟨_, h⟩ := run_block recv mask maxL r ext st hr hnr hrn
  rw [h x hx, h y hy, mx, my]

end Fs.Basins
