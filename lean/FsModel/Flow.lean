import FsModel.Basic
import FsModel.PFlood
import FsModel.Router
import FsModel.Donors
import FsModel.Dfs
import FsModel.Bfs
import FsModel.Basins
import FsModel.Tilt

/-! The flow-graph model: operators composed into `update_routes`, over function tables.
Component definitions (flood, router scan, donor table, traversal orders, basins, tilt) are the
ones the component theorems are proved about; this file only wires them together the way
`flow_graph::update_routes` and the operator `apply` functions do. Core Lean only. -/
namespace Fs.Flow

/-- what every grid hands to the flow layer: neighbour lists `(index, distance)` in accessor order -/
structure Topo (α : Type) where
  n : Nat
  nmax : Nat
  nbrs : Nat → List (Nat × α)

/-- the observable graph tables (rows are lists whose length is the stored count) -/
structure Graph (α : Type) where
  recv : Nat → List Nat
  rdist : Nat → List α
  rweight : Nat → List α
  donors : Nat → List Nat
  dfs : List Nat
  bfs : List (List Nat)

def Graph.empty {α : Type} : Graph α :=
  { recv := fun _ => [], rdist := fun _ => [], rweight := fun _ => [], donors := fun _ => [],
    dfs := [], bfs := [] }

/-- inputs in force at an `update_routes` call -/
structure Env (α : Type) where
  topo : Topo α
  mask : Nat → Bool
  seeds : List Nat            -- base levels, in the iteration order of the hash set
  isBase : Nat → Bool

variable {α : Type}

def ordOf (S : Scalar α) : Fs.Ord α := { lt := S.lt, nextUp := S.nextUp }
def tiltOrdOf (S : Scalar α) : Fs.Tilt.Ord α := { lt := S.lt, nextUp := S.nextUp }
def routerOps (S : Scalar α) : Fs.Router.Ops α :=
  { lt := S.lt, slope := fun a b d => S.div (S.sub a b) d, lowest := S.lowest }

/-! ### priority flood (`fill_sinks_sloped`) -/

/-- `init_pflood`: every unmasked base level enters the open queue with its own elevation -/
def pfInit (S : Scalar α) (e : Env α) (z : Nat → α) : Fs.PF α :=
  e.seeds.foldl
    (fun s b =>
      if e.mask b then s
      else { elev := s.elev, closed := Fs.upd s.closed b true,
             openQ := Fs.insertQ (ordOf S) (b, z b) s.openQ, pitQ := s.pitQ })
    { elev := z, closed := fun _ => false, openQ := [], pitQ := [] }

def nbIdx (t : Topo α) (i : Nat) : List Nat := (t.nbrs i).map (·.1)

def pflood (S : Scalar α) (e : Env α) (z : Nat → α) : Array α :=
  let s := Fs.run (ordOf S) (nbIdx e.topo) e.mask (e.topo.n + 1) (pfInit S e z)
  tab e.topo.n s.elev

/-! ### traversal orders -/

def selfOnly (g : Graph α) (i : Nat) : Bool := g.recv i == [i]

def recv0 (g : Graph α) (i : Nat) : Nat := (g.recv i).headD i

/-- donors of `i` other than `i`, table order -/
def donNoSelf (g : Graph α) (i : Nat) : List Nat := (g.donors i).filter (· != i)

def dfsBottomUp (n : Nat) (g : Graph α) : List Nat :=
  Fs.Dfs.dfs (donNoSelf g) (recv0 g) n (n + 1)

def bfsLevels (n : Nat) (g : Graph α) : List (List Nat) :=
  let l0 := (List.range n).filter (fun i => recv0 g i == i)
  Fs.Bfs.levels g.donors g.recv (n + 1) (fun _ => 0) l0

/-- state of the top-down (Kahn) sweep of `compute_dfs_indices_topdown` -/
structure Kahn where
  cnt : Nat → Nat
  stack : List Nat
  out : List Nat

def kahnRecv (dcount : Nat → Nat) (k : Kahn) (r : Nat) : Kahn :=
  let c := k.cnt r + 1
  { cnt := Fs.upd k.cnt r c, stack := if c = dcount r then r :: k.stack else k.stack, out := k.out }

def kahnDrain (recv : Nat → List Nat) (dcount : Nat → Nat) : Nat → Kahn → Kahn
  | 0, k => k
  | f + 1, k =>
    match k.stack with
    | [] => k
    | s :: st =>
      kahnDrain recv dcount f
        ((recv s).foldl (kahnRecv dcount) { cnt := k.cnt, stack := st, out := k.out ++ [s] })

def dfsTopDown (n : Nat) (g : Graph α) : List Nat :=
  let dcount := fun i => (g.donors i).length
  let k := (List.range n).foldl
    (fun k i =>
      let k' := if dcount i = 0 then { k with stack := i :: k.stack } else k
      kahnDrain g.recv dcount (n + 1) k')
    { cnt := fun _ => 0, stack := [], out := [] }
  k.out.reverse

/-! ### single-direction router -/

def singleRow (S : Scalar α) (e : Env α) (f : Nat → α) (i : Nat) : Fs.Router.Best α :=
  if e.mask i || e.isBase i then { recv := i, dist := S.zero, smax := S.lowest }
  else Fs.Router.route (routerOps S) e.mask f S.zero i (e.topo.nbrs i)

/-- `par = true`: the multi-threaded variant registers every node as a donor of its receiver,
the sequential one skips masked and base-level nodes -/
def singleRouter (S : Scalar α) (e : Env α) (par : Bool) (f : Nat → α) : Graph α :=
  let n := e.topo.n
  let rows := look (tab n (singleRow S e f))
                ({ recv := 0, dist := S.zero, smax := S.lowest } : Fs.Router.Best α)
  let recv1 := fun i => (rows i).recv
  let skip := fun i => if par then false else (e.mask i || e.isBase i)
  let don := look (tab n (Fs.Donors.donors recv1 skip n).get) []
  let g0 : Graph α :=
    { recv := fun i => [recv1 i], rdist := fun i => [(rows i).dist], rweight := fun _ => [S.one],
      donors := don, dfs := [], bfs := [] }
  { g0 with dfs := dfsBottomUp n g0, bfs := bfsLevels n g0 }

/-! ### multiple-direction router -/

def multiCands (S : Scalar α) (e : Env α) (f : Nat → α) (i : Nat) : List (Nat × α) :=
  (e.topo.nbrs i).filter (fun p => !e.mask p.1 && S.lt (f p.1) (f i))

def slopeOf (S : Scalar α) (f : Nat → α) (i : Nat) (p : Nat × α) : α :=
  S.div (S.sub (f i) (f p.1)) p.2

/-- weights proportional to `(slope / max slope)^p`, normalised (left-to-right sum) -/
def multiWeights (S : Scalar α) (p : α) (slopes : List α) : List α :=
  let smax := slopes.foldl (fun m s => S.max m s) S.zero
  let w := slopes.map (fun s => S.pow (if S.lt S.zero smax then S.div s smax else S.one) p)
  let sum := w.foldl S.add S.zero
  w.map (fun x => S.div x sum)

structure MRow (α : Type) where
  recv : List Nat
  dist : List α
  weight : List α

def multiRow (S : Scalar α) (p : α) (e : Env α) (f : Nat → α) (i : Nat) : MRow α :=
  let self : MRow α := { recv := [i], dist := [S.zero], weight := [S.zero] }
  if e.mask i || e.isBase i then self
  else
    let c := multiCands S e f i
    if c.isEmpty then self
    else { recv := c.map (·.1), dist := c.map (·.2),
           weight := multiWeights S p (c.map (slopeOf S f i)) }

def multiDonorsStep (rows : Nat → MRow α) (D : Tbl (List Nat)) (i : Nat) : Tbl (List Nat) :=
  if (rows i).recv == [i] then D
  else (rows i).recv.foldl (fun (D : Tbl (List Nat)) r => D.set r (D.get r ++ [i])) D

def multiDonors (n : Nat) (rows : Nat → MRow α) : Tbl (List Nat) :=
  (List.range n).foldl (multiDonorsStep rows) (Tbl.const [])

def multiRouter (S : Scalar α) (p : α) (e : Env α) (f : Nat → α) : Graph α :=
  let n := e.topo.n
  let rows := look (tab n (multiRow S p e f)) ({ recv := [], dist := [], weight := [] } : MRow α)
  let don := look (tab n (multiDonors n rows).get) []
  let g0 : Graph α :=
    { recv := fun i => (rows i).recv, rdist := fun i => (rows i).dist,
      rweight := fun i => (rows i).weight, donors := don, dfs := [], bfs := [] }
  { g0 with dfs := dfsTopDown n g0, bfs := bfsLevels n g0 }

/-! ### accumulation and basins -/

/-- `accumulate`: reverse bottom-up order; `acc[i] += area*src`, then pushed to the receivers -/
def accStep (S : Scalar α) (g : Graph α) (area src : Nat → α) (acc : Tbl α) (i : Nat) : Tbl α :=
  let a := acc.set i (S.add (acc.get i) (S.mul (area i) (src i)))
  ((g.recv i).zip (g.rweight i)).foldl
    (fun (a : Tbl α) rw =>
      if rw.1 = i then a else a.set rw.1 (S.add (a.get rw.1) (S.mul (a.get i) rw.2))) a

def accumulate (S : Scalar α) (n : Nat) (g : Graph α) (area src : Nat → α) : Array α :=
  tab n (g.dfs.reverse.foldl (accStep S g area src) (Tbl.const S.zero)).get

def maxLabel : Nat := 18446744073709551615

structure BasinsOut where
  labels : Array Nat
  outlets : List Nat
  pits : List Nat

def basins (n : Nat) (g : Graph α) (mask isBase : Nat → Bool) : BasinsOut :=
  let st := Fs.Basins.run (recv0 g) mask maxLabel g.dfs (0, fun _ => 0)
  let outlets := g.dfs.filter (fun i => !mask i && recv0 g i == i)
  { labels := tab n st.2, outlets := outlets, pits := outlets.filter (fun o => !isBase o) }

end Fs.Flow
