/-! Basics shared by the executable model: pointwise table update, compaction of a function
table into an array (identity below `n`), and the IEEE-754 binary64 instance of the scalar
operations used by the drivers.  Core Lean only. -/
namespace Fs

/-- Tabulate a function table below `n` (evaluated once).  Definitions of the model never
return work-doing functions: the compiler eta-expands a function-valued definition and would
redo the work at every look-up, so tables are materialised with `tab` and read with `look`. -/
def tab {β : Type} (n : Nat) (f : Nat → β) : Array β := Array.ofFn (n := n) (fun i => f i.val)

@[inline] def look {β : Type} (a : Array β) (d : β) : Nat → β := fun j => a.getD j d

theorem look_tab {β : Type} (n : Nat) (d : β) (f : Nat → β) (i : Nat) (h : i < n) :
    look (tab n f) d i = f i := by
  simp [look, tab, Array.getD, h]

@[simp] theorem size_tab {β : Type} (n : Nat) (f : Nat → β) : (tab n f).size = n := by simp [tab]

/-- A function table wrapped in a structure.  Step functions of folds take and return `Tbl`
(data) rather than bare functions, so that compiled code evaluates each step when it is taken
instead of building a chain of unevaluated partial applications. -/
structure Tbl (β : Type) where
  get : Nat → β

def Tbl.const {β : Type} (v : β) : Tbl β := ⟨fun _ => v⟩

def Tbl.set {β : Type} (t : Tbl β) (i : Nat) (v : β) : Tbl β :=
  ⟨fun j => if j = i then v else t.get j⟩

@[simp] theorem Tbl.get_set_same {β : Type} (t : Tbl β) (i : Nat) (v : β) : (t.set i v).get i = v := by
  simp [Tbl.set]

theorem Tbl.get_set_other {β : Type} (t : Tbl β) (i j : Nat) (v : β) (h : j ≠ i) :
    (t.set i v).get j = t.get j := by
  simp [Tbl.set, h]

theorem Tbl.get_set {β : Type} (t : Tbl β) (i j : Nat) (v : β) :
    (t.set i v).get j = if j = i then v else t.get j := rfl

@[simp] theorem Tbl.get_const {β : Type} (v : β) (i : Nat) : (Tbl.const v).get i = v := rfl

/-- Scalar operations the algorithms use.  The drivers instantiate it with `Float`
(bit-identical to the C++ `double` operations); theorems are stated for any instance satisfying
explicit laws. -/
structure Scalar (α : Type) where
  lt : α → α → Bool
  add : α → α → α
  sub : α → α → α
  mul : α → α → α
  div : α → α → α
  pow : α → α → α
  sqrt : α → α
  nextUp : α → α
  zero : α
  one : α
  lowest : α          -- -DBL_MAX
  maxFinite : α       -- DBL_MAX
  minNormal : α       -- DBL_MIN
  ofNat : Nat → α

def Scalar.le {α} (S : Scalar α) (a b : α) : Bool := !S.lt b a
def Scalar.max {α} (S : Scalar α) (a b : α) : α := if S.lt a b then b else a   -- std::max(a,b)
def Scalar.beq {α} (S : Scalar α) (a b : α) : Bool := !S.lt a b && !S.lt b a

/-- `std::nextafter(x, +inf)` for finite `x` on the bit pattern -/
def floatNextUp (x : Float) : Float :=
  if x == 0.0 then Float.ofBits 1
  else if x > 0.0 then Float.ofBits (x.toBits + 1)
  else Float.ofBits (x.toBits - 1)

def floatScalar : Scalar Float where
  lt a b := decide (a < b)
  add a b := a + b
  sub a b := a - b
  mul a b := a * b
  div a b := a / b
  pow a b := Float.pow a b
  sqrt a := Float.sqrt a
  nextUp := floatNextUp
  zero := 0.0
  one := 1.0
  lowest := Float.ofBits 0xffefffffffffffff
  maxFinite := Float.ofBits 0x7fefffffffffffff
  minNormal := Float.ofBits 0x0010000000000000
  ofNat n := Float.ofNat n

end Fs
