import FsModel.Driver
import FsModel.Grid
import FsModel.MeshGrid
import FsModel.Adi

/-! Grid calls of `fsmodel`. -/
namespace Fs.Driver
open Fs.Wire Fs.Grid

inductive GridSpec where
  | raster (g : Raster F) (status : Array Nat)
  | profile (n : Nat) (dx : F) (looped : Bool) (status : Array Nat)
  | mesh (n : Nat) (status : Array Nat) (nb : Array (List (Nat × F))) (areas : Array F)
  | none

def stTok (s : String) : Nat :=
  if s == "c" then Fs.Gen.nsCore else if s == "v" then Fs.Gen.nsFixedValue
  else if s == "g" then Fs.Gen.nsFixedGradient else Fs.Gen.nsLooped

def connTok (s : String) : Conn :=
  if s == "rook" then .rook else if s == "bishop" then .bishop else .queen

def parseOvR : List String → List ((Nat × Nat) × Nat)
  | r :: c :: s :: t => ((natOf r, natOf c), stTok s) :: parseOvR t
  | _ => []

def parseOvP : List String → List (Nat × Nat)
  | i :: s :: t => (natOf i, stTok s) :: parseOvP t
  | _ => []

/-- `grid ...` line → spec or error kind -/
def parseGrid (t : List String) : Except Err GridSpec :=
  match t with
  | "grid" :: "raster" :: rows :: cols :: dy :: dx :: conn :: l :: r :: tp :: bt :: _cache :: rest =>
    let rows := natOf rows
    let cols := natOf cols
    let b : Bounds := { left := stTok l, right := stTok r, top := stTok tp, bottom := stTok bt }
    let ov := match rest with
      | "ov" :: _ :: tl => parseOvR tl
      | _ => []
    match rasterStatus rows cols b ov with
    | .error e => .error e
    | .ok st =>
      .ok (.raster { rows := rows, cols := cols, dy := hexF dy, dx := hexF dx, conn := connTok conn,
                     lv := b.top == Fs.Gen.nsLooped && b.bottom == Fs.Gen.nsLooped,
                     lh := b.left == Fs.Gen.nsLooped && b.right == Fs.Gen.nsLooped } st)
  | "grid" :: "profile" :: n :: dx :: l :: r :: _cache :: rest =>
    let n := natOf n
    let ov := match rest with
      | "ov" :: _ :: tl => parseOvP tl
      | _ => []
    match profileStatus n (stTok l) (stTok r) ov with
    | .error e => .error e
    | .ok st => .ok (.profile n (hexF dx) (stTok l == Fs.Gen.nsLooped && stTok r == Fs.Gen.nsLooped) st)
  | "grid" :: "mesh" :: np :: nt :: rest =>
    let np := natOf np
    let nt := natOf nt
    let ptsA : Array (F × F) := Id.run do
      let mut a := #[]
      let toksA := (rest.take (2 * np)).toArray
      for i in [0:np] do
        a := a.push (hexF (toksA.getD (2 * i) "0"), hexF (toksA.getD (2 * i + 1) "0"))
      return a
    let pts : Nat → F × F := fun i => ptsA.getD i (0.0, 0.0)
    let trisA := ((rest.drop (2 * np)).take (3 * nt)).toArray
    let tris : List (Nat × Nat × Nat) := (List.range nt).map (fun t =>
      (natOf (trisA.getD (3 * t) "0"), natOf (trisA.getD (3 * t + 1) "0"), natOf (trisA.getD (3 * t + 2) "0")))
    let m := Fs.Mesh.edgeMap tris
    let SO := ScalarOps.float
    -- `set_neighbors` runs before the status is set: a node with more neighbours than the mesh
    -- type allows is refused first (constant and check regenerated from trimesh.hpp)
    if Fs.Gen.meshChecksDegree && (List.range np).any (fun i => (Fs.MeshGrid.nbrs m i).length > Fs.Gen.meshNmax) then
      .error .invalidArgument
    else
    let stRes : Except Fs.MeshGrid.Err (Array Nat) :=
      match rest.drop (2 * np + 3 * nt) with
      | "map" :: _ :: tl => Fs.MeshGrid.statusMap np m (parseOvP tl)
      | "arr" :: _ :: tl => Fs.MeshGrid.statusArr np (tl.map stTok)
      | _ => .ok (Fs.MeshGrid.statusDefault np m)
    match stRes with
    | .error .invalidArgument => .error .invalidArgument
    | .error .outOfRange => .error .outOfRange
    | .ok st =>
      let nb : Array (List (Nat × F)) := Array.ofFn (n := np) (fun i =>
        (Fs.MeshGrid.sortNat (Fs.MeshGrid.nbrs m i.val)).map (fun j => (j, Fs.MeshGrid.dist SO pts i.val j)))
      let ar := Fs.MeshGrid.areas SO 0.0 (Float.ofBits 0x0010000000000000) (fun x => x == 0.0) np pts tris m
      .ok (.mesh np st nb ar)
  | _ => .ok .none

def GridSpec.size : GridSpec → Nat
  | .raster g _ => g.rows * g.cols | .profile n _ _ _ => n | .mesh n _ _ _ => n | .none => 0

def GridSpec.status : GridSpec → Array Nat
  | .raster _ s => s | .profile _ _ _ s => s | .mesh _ s _ _ => s | _ => #[]

def GridSpec.nbIdx : GridSpec → Nat → List Nat
  | .raster g _, i => rasterNbIdx g i
  | .profile n _ l _, i => profileNbIdx n l i
  | .mesh _ _ nb _, i => (nb.getD i []).map (·.1)
  | _, _ => []

def GridSpec.nbDist : GridSpec → Nat → List F
  | .raster g _, i => rasterNbDist S g i
  | .profile n dx l _, i => (profileNbIdx n l i).map (fun _ => dx)
  | _, _ => []

def GridSpec.area : GridSpec → F
  | .raster g _ => g.dy * g.dx | .profile _ dx _ _ => dx | _ => 0.0

def GridSpec.nmax : GridSpec → Nat
  | .raster g _ => Fs.Grid.nmax g.conn | .profile .. => 2 | .mesh .. => Fs.Gen.meshNmax | _ => 0

def gridCommon (g : GridSpec) : List String :=
  let n := g.size
  let areas := match g with
    | .mesh _ _ _ a => a.toList
    | _ => List.replicate n g.area
  (match g with
    | .raster r _ => [line "spacing" (joinF [r.dy, r.dx]),
                      line "length" (joinF [Float.ofNat (r.rows - 1) * r.dy, Float.ofNat (r.cols - 1) * r.dx]),
                      line "shape" (joinNats [r.rows, r.cols])]
    | .profile n dx _ _ => [line "spacing" (joinF [dx]), line "length" (joinF [Float.ofNat (n - 1) * dx]),
                            line "shape" (joinNats [n])]
    | _ => []) ++
  [line "status_views_agree" "1"] ++
  [ line "size" (toString n), line "nmax" (toString g.nmax),
    line "status" (joinNats g.status.toList),
    line "area" (joinF areas), line "area_views_agree" "1" ]

def gridQuery (g : GridSpec) (kind : String) (i : Nat) : List String :=
  match g, kind with
  | .mesh _ st nb _, "m" =>
    [line ("q m " ++ toString i) (" ".intercalate ((nb.getD i []).map (fun p =>
        toString p.1 ++ " " ++ fHex p.2 ++ " " ++ toString (st.getD p.1 0))))]
  | _, _ =>
  let idx := g.nbIdx i
  let dist := g.nbDist i
  let pre := "q " ++ kind ++ " " ++ toString i
  if kind == "c" then [line pre (toString idx.length)]
  else if kind == "i" || kind == "ib" then [line pre (joinNats idx)]
  else if kind == "d" then [line pre (joinF dist)]
  else [line pre (" ".intercalate ((idx.zip dist).map (fun p =>
          toString p.1 ++ " " ++ fHex p.2 ++ " " ++ toString (g.status.getD p.1 0))))]

def gridQueryR (g : GridSpec) (kind : String) (i : Nat) : List String :=
  match g with
  | .raster r st =>
    let idx := rasterNbIdx r i
    let dist := rasterNbDist S r i
    let pre := "qr " ++ kind ++ " " ++ toString i
    if kind == "rc" then
      [line pre (" ".intercalate (idx.map (fun j => toString (j / r.cols) ++ " " ++ toString (j - (j / r.cols) * r.cols))))]
    else if kind == "rs" || kind == "rso" then
      [line pre (" ".intercalate ((idx.zip dist).map (fun p =>
          toString p.1 ++ " " ++ toString (p.1 / r.cols) ++ " " ++ toString (p.1 - (p.1 / r.cols) * r.cols) ++ " " ++
          fHex p.2 ++ " " ++ toString (st.getD p.1 0))))]
    else
      let c := codeOf r.rows r.cols (i / r.cols) (i - (i / r.cols) * r.cols)
      [line pre (toString c ++ " " ++ toString c)]
  | _ => ["O model-unsupported"]

def gridIter (g : GridSpec) (which dir : String) : List String :=
  let n := g.size
  let p : Nat → Bool := if which == "all" then fun _ => true else fun i => g.status.getD i 0 == stTok which
  let l := if dir == "fwd" then iterFwd n p else iterRev n p
  [line ("iter " ++ which ++ " " ++ dir) (joinNats l)]

/-- `adi <s k | a k…> dt elev… [reps]` on a raster grid -/
def gridAdi (g : GridSpec) (toks : List String) : List String :=
  match g, toks with
  | .raster r _, _ :: kk :: rest =>
    let n := r.rows * r.cols
    let nk := if kk == "s" then 1 else n
    let ks := (rest.take nk).map hexF
    let dt := hexF ((rest.drop nk).headD "0")
    let ev := ((rest.drop (nk + 1)).take n).map hexF |>.toArray
    let e : Fs.Adi.Fld F := fun i j => ev.getD (i * r.cols + j) 0.0
    let (frow, fcol) :=
      if kk == "s" then
        (Fs.Adi.factorsScalar S 0.5 (ks.headD 0.0) r.dy, Fs.Adi.factorsScalar S 0.5 (ks.headD 0.0) r.dx)
      else
        let ka := ks.toArray
        let k : Fs.Adi.Fld F := fun i j => ka.getD (i * r.cols + j) 0.0
        (Fs.Adi.factorsRow S 0.25 r.dy k, Fs.Adi.factorsCol S 0.25 r.dx k)
    match Fs.Adi.erode S r.rows r.cols frow fcol dt e with
    | none => ["O adi err runtime_error"]
    | some ero =>
      [line "adi" (joinF ((List.range n).map (fun i => ero (i / r.cols) (i % r.cols))))]
  | _, _ => ["O model-unsupported"]

end Fs.Driver
