import FsModel.Driver
import FsModel.Grid

/-! Grid calls of `fsmodel`. -/
namespace Fs.Driver
open Fs.Wire Fs.Grid

inductive GridSpec where
  | raster (g : Raster F) (status : Array Nat)
  | profile (n : Nat) (dx : F) (looped : Bool) (status : Array Nat)
  | mesh (n : Nat)
  | none

def stTok (s : String) : Nat :=
  if s == "c" then Fs.Gen.nsCore else if s == "v" then Fs.Gen.nsFixedValue
  else if s == "g" then Fs.Gen.nsFixedGradient else Fs.Gen.nsLooped

def connTok (s : String) : Conn :=
  if s == "rook" then .rook else if s == "bishop" then .bishop else .queen

def parseOvR : List String → List ((Nat × Nat) × Nat)
  | r :: c :: s :: t => ((natOf r, natOf c), stTok s) :: parseOvR t
  | _ => []

def parseOvP : List String → List (Nat × Nat)
  | i :: s :: t => (natOf i, stTok s) :: parseOvP t
  | _ => []

/-- `grid ...` line → spec or error kind -/
def parseGrid (t : List String) : Except Err GridSpec :=
  match t with
  | "grid" :: "raster" :: rows :: cols :: dy :: dx :: conn :: l :: r :: tp :: bt :: _cache :: rest =>
    let rows := natOf rows
    let cols := natOf cols
    let b : Bounds := { left := stTok l, right := stTok r, top := stTok tp, bottom := stTok bt }
    let ov := match rest with
      | "ov" :: _ :: tl => parseOvR tl
      | _ => []
    match rasterStatus rows cols b ov with
    | .error e => .error e
    | .ok st =>
      .ok (.raster { rows := rows, cols := cols, dy := hexF dy, dx := hexF dx, conn := connTok conn,
                     lv := b.top == Fs.Gen.nsLooped && b.bottom == Fs.Gen.nsLooped,
                     lh := b.left == Fs.Gen.nsLooped && b.right == Fs.Gen.nsLooped } st)
  | "grid" :: "profile" :: n :: dx :: l :: r :: _cache :: rest =>
    let n := natOf n
    let ov := match rest with
      | "ov" :: _ :: tl => parseOvP tl
      | _ => []
    match profileStatus n (stTok l) (stTok r) ov with
    | .error e => .error e
    | .ok st => .ok (.profile n (hexF dx) (stTok l == Fs.Gen.nsLooped && stTok r == Fs.Gen.nsLooped) st)
  | _ => .ok .none

def GridSpec.size : GridSpec → Nat
  | .raster g _ => g.rows * g.cols | .profile n _ _ _ => n | .mesh n => n | .none => 0

def GridSpec.status : GridSpec → Array Nat
  | .raster _ s => s | .profile _ _ _ s => s | _ => #[]

def GridSpec.nbIdx : GridSpec → Nat → List Nat
  | .raster g _, i => rasterNbIdx g i
  | .profile n _ l _, i => profileNbIdx n l i
  | _, _ => []

def GridSpec.nbDist : GridSpec → Nat → List F
  | .raster g _, i => rasterNbDist S g i
  | .profile n dx l _, i => (profileNbIdx n l i).map (fun _ => dx)
  | _, _ => []

def GridSpec.area : GridSpec → F
  | .raster g _ => g.dy * g.dx | .profile _ dx _ _ => dx | _ => 0.0

def GridSpec.nmax : GridSpec → Nat
  | .raster g _ => Fs.Grid.nmax g.conn | .profile .. => 2 | _ => 0

def gridCommon (g : GridSpec) : List String :=
  let n := g.size
  [ line "size" (toString n), line "nmax" (toString g.nmax),
    line "status" (joinNats g.status.toList),
    line "area" (joinF (List.replicate n g.area)), line "area_views_agree" "1" ]

def gridQuery (g : GridSpec) (kind : String) (i : Nat) : List String :=
  let idx := g.nbIdx i
  let dist := g.nbDist i
  let pre := "q " ++ kind ++ " " ++ toString i
  if kind == "c" then [line pre (toString idx.length)]
  else if kind == "i" || kind == "ib" then [line pre (joinNats idx)]
  else if kind == "d" then [line pre (joinF dist)]
  else [line pre (" ".intercalate ((idx.zip dist).map (fun p =>
          toString p.1 ++ " " ++ fHex p.2 ++ " " ++ toString (g.status.getD p.1 0))))]

def gridQueryR (g : GridSpec) (kind : String) (i : Nat) : List String :=
  match g with
  | .raster r st =>
    let idx := rasterNbIdx r i
    let dist := rasterNbDist S r i
    let pre := "qr " ++ kind ++ " " ++ toString i
    if kind == "rc" then
      [line pre (" ".intercalate (idx.map (fun j => toString (j / r.cols) ++ " " ++ toString (j - (j / r.cols) * r.cols))))]
    else if kind == "rs" || kind == "rso" then
      [line pre (" ".intercalate ((idx.zip dist).map (fun p =>
          toString p.1 ++ " " ++ toString (p.1 / r.cols) ++ " " ++ toString (p.1 - (p.1 / r.cols) * r.cols) ++ " " ++
          fHex p.2 ++ " " ++ toString (st.getD p.1 0))))]
    else
      let c := codeOf r.rows r.cols (i / r.cols) (i - (i / r.cols) * r.cols)
      [line pre (toString c ++ " " ++ toString c)]
  | _ => ["O model-unsupported"]

def gridIter (g : GridSpec) (which dir : String) : List String :=
  let n := g.size
  let p : Nat → Bool := if which == "all" then fun _ => true else fun i => g.status.getD i 0 == stTok which
  let l := if dir == "fwd" then iterFwd n p else iterRev n p
  [line ("iter " ++ which ++ " " ++ dir) (joinNats l)]

end Fs.Driver
