/-! Priority-flood prototype: model + parent / frontier invariants + completeness. -/
namespace Fs

structure Ord (α : Type) where
  lt : α → α → Bool
  nextUp : α → α

structure Laws {α} (o : Ord α) : Prop where
  next_gt : ∀ x, o.lt x (o.nextUp x) = true
  trans : ∀ a b c, o.lt a b = true → o.lt b c = true → o.lt a c = true

variable {α : Type}

abbrev QE (α : Type) := Nat × α

structure PF (α : Type) where
  elev : Nat → α
  closed : Nat → Bool
  openQ : List (QE α)
  pitQ : List (QE α)

def upd {β} (f : Nat → β) (i : Nat) (v : β) : Nat → β := fun j => if j = i then v else f j

@[simp] theorem upd_same {β} (f : Nat → β) (i : Nat) (v : β) : upd f i v i = v := by simp [upd]
theorem upd_other {β} (f : Nat → β) (i j : Nat) (v : β) (h : j ≠ i) : upd f i v j = f j := by
  simp [upd, h]

def insertQ (o : Ord α) (x : QE α) : List (QE α) → List (QE α)
  | [] => [x]
  | y :: ys =>
    if o.lt x.2 y.2 || (!o.lt y.2 x.2 && x.1 < y.1) then x :: y :: ys else y :: insertQ o x ys

theorem mem_insertQ (o : Ord α) (x y : QE α) (l : List (QE α)) :
    y ∈ insertQ o x l ↔ y = x ∨ y ∈ l := by
  induction l with
  | nil => simp [insertQ]
  | cons a t ih =>
    simp only [insertQ]
    split
    · simp
    · simp only [List.mem_cons, ih]
      constructor
      · rintro (h | h | h) <;> simp [h]
      · rintro (h | h | h) <;> simp [h]

def visit (o : Ord α) (mask : Nat → Bool) (tiny : α) (s : PF α) (nb : Nat) : PF α :=
  if mask nb || s.closed nb then s
  else if o.lt tiny (s.elev nb) then
    { elev := s.elev, closed := upd s.closed nb true,
      openQ := insertQ o (nb, s.elev nb) s.openQ, pitQ := s.pitQ }
  else
    { elev := upd s.elev nb tiny, closed := upd s.closed nb true,
      openQ := s.openQ, pitQ := s.pitQ ++ [(nb, tiny)] }

def pop (o : Ord α) (s : PF α) : Option (QE α × PF α) :=
  match s.pitQ, s.openQ with
  | [], [] => none
  | p :: ps, q :: qs =>
    if !o.lt q.2 p.2 && !o.lt p.2 q.2 then some (q, { s with openQ := qs })
    else some (p, { s with pitQ := ps })
  | p :: ps, [] => some (p, { s with pitQ := ps })
  | [], q :: qs => some (q, { s with openQ := qs })

def step (o : Ord α) (nbrs : Nat → List Nat) (mask : Nat → Bool) (s : PF α) : Option (PF α) :=
  match pop o s with
  | none => none
  | some (c, s') => some ((nbrs c.1).foldl (visit o mask (o.nextUp c.2)) s')

def run (o : Ord α) (nbrs : Nat → List Nat) (mask : Nat → Bool) : Nat → PF α → PF α
  | 0, s => s
  | fuel + 1, s => match step o nbrs mask s with
    | none => s
    | some s' => run o nbrs mask fuel s'

def PF.queued (s : PF α) (x : QE α) : Prop := x ∈ s.openQ ∨ x ∈ s.pitQ

/-- invariant; `cur` is the node being processed (popped, its neighbours not all visited yet) -/
structure Inv (o : Ord α) (nbrs : Nat → List Nat) (seed mask : Nat → Bool) (cur : Option Nat)
    (s : PF α) : Prop where
  queued : ∀ x, s.queued x → s.closed x.1 = true ∧ s.elev x.1 = x.2
  unmasked : ∀ n, s.closed n = true → mask n = false
  parent : ∀ n, s.closed n = true → seed n = false →
    ∃ c, s.closed c = true ∧ n ∈ nbrs c ∧ o.lt (s.elev c) (s.elev n) = true
  frontier : ∀ c, s.closed c = true → some c = cur ∨ (∃ e, s.queued (c, e)) ∨
    ∀ m, m ∈ nbrs c → mask m = true ∨ s.closed m = true

/-! ### one visit -/

theorem visit_closed_mono (o : Ord α) (mask : Nat → Bool) (t : α) (s : PF α) (nb n : Nat)
    (h : s.closed n = true) : (visit o mask t s nb).closed n = true := by
  unfold visit
  split
  · exact h
  · split <;> (simp only [upd]; split <;> simp [h])

theorem visit_done (o : Ord α) (mask : Nat → Bool) (t : α) (s : PF α) (nb : Nat) :
    mask nb = true ∨ (visit o mask t s nb).closed nb = true := by
  unfold visit
  by_cases hm : mask nb = true
  · exact Or.inl hm
  · right
    by_cases hc : s.closed nb = true
    · simp [hc]
    · have : (mask nb || s.closed nb) = false := by
        cases h1 : mask nb <;> cases h2 : s.closed nb <;> simp_all
      simp only [this, Bool.false_eq_true, if_false]
      by_cases hh : o.lt t (s.elev nb) = true <;> simp [hh, upd]

theorem visit_inv (o : Ord α) (L : Laws o) (nbrs : Nat → List Nat) (seed mask : Nat → Bool)
    (c : Nat) (ce : α) (s : PF α) (nb : Nat)
    (hc : s.closed c = true ∧ s.elev c = ce) (hnb : nb ∈ nbrs c)
    (h : Inv o nbrs seed mask (some c) s) :
    Inv o nbrs seed mask (some c) (visit o mask (o.nextUp ce) s nb) ∧
    ((visit o mask (o.nextUp ce) s nb).closed c = true ∧
     (visit o mask (o.nextUp ce) s nb).elev c = ce) := by
  by_cases h1 : (mask nb || s.closed nb) = true
  · have : visit o mask (o.nextUp ce) s nb = s := by simp [visit, h1]
    rw [this]; exact ⟨h, hc⟩
  · have hncl : s.closed nb = false := by
      cases hh : s.closed nb <;> simp_all
    have hnm : mask nb = false := by
      cases hh : mask nb <;> simp_all
    have hcne : c ≠ nb := by intro e; subst e; simp_all
    have h1' : (mask nb || s.closed nb) = false := by simp [hncl, hnm]
    -- facts common to both branches
    have qne : ∀ x, s.queued x → x.1 ≠ nb := by
      intro x hx e; have := (h.queued x hx).1; rw [e] at this; simp_all
    by_cases h2 : o.lt (o.nextUp ce) (s.elev nb) = true
    · -- kept: goes to the open queue with its own elevation
      have hv : visit o mask (o.nextUp ce) s nb =
          { elev := s.elev, closed := upd s.closed nb true,
            openQ := insertQ o (nb, s.elev nb) s.openQ, pitQ := s.pitQ } := by
        simp [visit, h1', h2]
      rw [hv]
      refine ⟨⟨?_, ?_, ?_, ?_⟩, ?_⟩
      · intro x hx
        simp only [PF.queued, mem_insertQ] at hx
        rcases hx with (hx | hx) | hx
        · subst hx; simp
        · have := h.queued x (Or.inl hx)
          simp [upd_other _ _ _ _ (qne x (Or.inl hx)), this]
        · have := h.queued x (Or.inr hx)
          simp [upd_other _ _ _ _ (qne x (Or.inr hx)), this]
      · intro n hn
        by_cases hnn : n = nb
        · subst hnn; exact hnm
        · exact h.unmasked n (by simpa [upd_other _ _ _ _ hnn] using hn)
      · intro n hn hs
        by_cases hnn : n = nb
        · subst hnn
          refine ⟨c, by simp [upd_other _ _ _ _ hcne, hc.1], hnb, ?_⟩
          show o.lt (s.elev c) (s.elev n) = true
          rw [hc.2]; exact L.trans _ _ _ (L.next_gt _) h2
        · have hn' : s.closed n = true := by simpa [upd_other _ _ _ _ hnn] using hn
          obtain ⟨p, hp1, hp2, hp3⟩ := h.parent n hn' hs
          have hpne : p ≠ nb := by intro e; subst e; simp_all
          exact ⟨p, by simp [upd_other _ _ _ _ hpne, hp1], hp2, hp3⟩
      · intro d hd
        by_cases hdn : d = nb
        · subst hdn
          right; left; exact ⟨s.elev d, Or.inl ((mem_insertQ _ _ _ _).mpr (Or.inl rfl))⟩
        · have hd' : s.closed d = true := by simpa [upd_other _ _ _ _ hdn] using hd
          rcases h.frontier d hd' with hf | ⟨e, hf⟩ | hf
          · exact Or.inl hf
          · right; left; refine ⟨e, ?_⟩
            rcases hf with hf | hf
            · exact Or.inl ((mem_insertQ _ _ _ _).mpr (Or.inr hf))
            · exact Or.inr hf
          · right; right; intro m hm
            rcases hf m hm with hm1 | hm1
            · exact Or.inl hm1
            · right; simp only [upd]; split <;> simp [hm1]
      · simp [upd_other _ _ _ _ hcne, hc]
    · -- raised: goes to the pit queue one step above the current node
      have h2' : o.lt (o.nextUp ce) (s.elev nb) = false := by
        cases hh : o.lt (o.nextUp ce) (s.elev nb) <;> simp_all
      have hv : visit o mask (o.nextUp ce) s nb =
          { elev := upd s.elev nb (o.nextUp ce), closed := upd s.closed nb true,
            openQ := s.openQ, pitQ := s.pitQ ++ [(nb, o.nextUp ce)] } := by
        simp [visit, h1', h2']
      rw [hv]
      refine ⟨⟨?_, ?_, ?_, ?_⟩, ?_⟩
      · intro x hx
        simp only [PF.queued, List.mem_append, List.mem_singleton] at hx
        rcases hx with hx | hx | hx
        · have := h.queued x (Or.inl hx)
          simp [upd_other _ _ _ _ (qne x (Or.inl hx)), this]
        · have := h.queued x (Or.inr hx)
          simp [upd_other _ _ _ _ (qne x (Or.inr hx)), this]
        · subst hx; simp
      · intro n hn
        by_cases hnn : n = nb
        · subst hnn; exact hnm
        · exact h.unmasked n (by simpa [upd_other _ _ _ _ hnn] using hn)
      · intro n hn hs
        by_cases hnn : n = nb
        · subst hnn
          refine ⟨c, by simp [upd_other _ _ _ _ hcne, hc.1], hnb, ?_⟩
          simp only [upd_same, upd_other _ _ _ _ hcne, hc.2]
          exact L.next_gt _
        · have hn' : s.closed n = true := by simpa [upd_other _ _ _ _ hnn] using hn
          obtain ⟨p, hp1, hp2, hp3⟩ := h.parent n hn' hs
          have hpne : p ≠ nb := by intro e; subst e; simp_all
          refine ⟨p, by simp [upd_other _ _ _ _ hpne, hp1], hp2, ?_⟩
          simpa [upd_other _ _ _ _ hpne, upd_other _ _ _ _ hnn] using hp3
      · intro d hd
        by_cases hdn : d = nb
        · subst hdn
          right; left; exact ⟨o.nextUp ce, Or.inr (by simp)⟩
        · have hd' : s.closed d = true := by simpa [upd_other _ _ _ _ hdn] using hd
          rcases h.frontier d hd' with hf | ⟨e, hf⟩ | hf
          · exact Or.inl hf
          · right; left; refine ⟨e, ?_⟩
            rcases hf with hf | hf
            · exact Or.inl hf
            · exact Or.inr (by simp [hf])
          · right; right; intro m hm
            rcases hf m hm with hm1 | hm1
            · exact Or.inl hm1
            · right; simp only [upd]; split <;> simp [hm1]
      · simp [upd_other _ _ _ _ hcne, hc]


/-! ### folding visits over the neighbours of the popped node -/

theorem fold_inv (o : Ord α) (L : Laws o) (nbrs : Nat → List Nat) (seed mask : Nat → Bool)
    (c : Nat) (ce : α) (l : List Nat) (hl : ∀ m, m ∈ l → m ∈ nbrs c) (s : PF α)
    (hc : s.closed c = true ∧ s.elev c = ce)
    (h : Inv o nbrs seed mask (some c) s) :
    let s' := l.foldl (visit o mask (o.nextUp ce)) s
    Inv o nbrs seed mask (some c) s' ∧ (s'.closed c = true ∧ s'.elev c = ce) ∧
    (∀ n, s.closed n = true → s'.closed n = true) ∧
    (∀ m, m ∈ l → mask m = true ∨ s'.closed m = true) := by
  induction l generalizing s with
  | nil => exact ⟨h, hc, fun _ h => h, fun _ hm => by cases hm⟩
  | cons a t ih =>
    simp only [List.foldl_cons]
    obtain ⟨hi, hc'⟩ := visit_inv o L nbrs seed mask c ce s a hc (hl a List.mem_cons_self) h
    obtain ⟨r1, r2, r3, r4⟩ := ih (fun m hm => hl m (List.mem_cons_of_mem _ hm)) _ hc' hi
    refine ⟨r1, r2, fun n hn => r3 n (visit_closed_mono _ _ _ _ _ _ hn), ?_⟩
    intro m hm
    rcases List.mem_cons.mp hm with rfl | hm
    · rcases visit_done o mask (o.nextUp ce) s m with h1 | h1
      · exact Or.inl h1
      · exact Or.inr (r3 _ h1)
    · exact r4 m hm

theorem pop_spec (o : Ord α) (s : PF α) (x : QE α) (s' : PF α) (h : pop o s = some (x, s')) :
    s'.elev = s.elev ∧ s'.closed = s.closed ∧ s.queued x ∧
    (∀ y, s.queued y → y = x ∨ s'.queued y) ∧ (∀ y, s'.queued y → s.queued y) := by
  unfold pop at h
  split at h
  · cases h
  · rename_i p ps q qs hp hq
    split at h
    · cases h
      refine ⟨rfl, rfl, Or.inl (by simp [hq]), ?_, ?_⟩
      · intro y hy; simp only [PF.queued, hq, hp, List.mem_cons] at hy ⊢
        rcases hy with (hy | hy) | hy
        · exact Or.inl hy
        · exact Or.inr (Or.inl hy)
        · exact Or.inr (Or.inr (by simpa [hp] using hy))
      · intro y hy; simp only [PF.queued, hq, hp] at hy ⊢
        rcases hy with hy | hy
        · exact Or.inl (List.mem_cons_of_mem _ hy)
        · exact Or.inr hy
    · cases h
      refine ⟨rfl, rfl, Or.inr (by simp [hp]), ?_, ?_⟩
      · intro y hy; simp only [PF.queued, hq, hp, List.mem_cons] at hy ⊢
        rcases hy with hy | hy | hy
        · exact Or.inr (Or.inl (by simpa [hq] using hy))
        · exact Or.inl hy
        · exact Or.inr (Or.inr hy)
      · intro y hy; simp only [PF.queued, hq, hp] at hy ⊢
        rcases hy with hy | hy
        · exact Or.inl hy
        · exact Or.inr (List.mem_cons_of_mem _ hy)
  · rename_i p ps hp hq
    cases h
    refine ⟨rfl, rfl, Or.inr (by simp [hp]), ?_, ?_⟩
    · intro y hy; simp only [PF.queued, hq, hp, List.mem_cons] at hy ⊢
      rcases hy with hy | hy | hy
      · cases hy
      · exact Or.inl hy
      · exact Or.inr (Or.inr hy)
    · intro y hy; simp only [PF.queued, hq, hp] at hy ⊢
      rcases hy with hy | hy
      · cases hy
      · exact Or.inr (List.mem_cons_of_mem _ hy)
  · rename_i q qs hp hq
    cases h
    refine ⟨rfl, rfl, Or.inl (by simp [hq]), ?_, ?_⟩
    · intro y hy; simp only [PF.queued, hq, hp, List.mem_cons] at hy ⊢
      rcases hy with (hy | hy) | hy
      · exact Or.inl hy
      · exact Or.inr (Or.inl hy)
      · cases hy
    · intro y hy; simp only [PF.queued, hq, hp] at hy ⊢
      rcases hy with hy | hy
      · exact Or.inl (List.mem_cons_of_mem _ hy)
      · cases hy

theorem pop_none (o : Ord α) (s : PF α) (h : pop o s = none) : ∀ y, ¬ s.queued y := by
  unfold pop at h
  split at h
  · rename_i hp hq; intro y hy; simp [PF.queued, hp, hq] at hy
  · split at h <;> cases h
  · cases h
  · cases h

theorem step_inv (o : Ord α) (L : Laws o) (nbrs : Nat → List Nat) (seed mask : Nat → Bool)
    (s s' : PF α) (h : Inv o nbrs seed mask none s) (hs : step o nbrs mask s = some s') :
    Inv o nbrs seed mask none s' ∧ (∀ n, s.closed n = true → s'.closed n = true) := by
  unfold step at hs
  split at hs
  · cases hs
  · rename_i c s1 hpop
    cases hs
    obtain ⟨he, hcl, hq, hrem, hsub⟩ := pop_spec o s c s1 hpop
    have hc := h.queued c hq
    have hc1 : s1.closed c.1 = true ∧ s1.elev c.1 = c.2 := by rw [he, hcl]; exact hc
    have hi1 : Inv o nbrs seed mask (some c.1) s1 := by
      refine ⟨?_, ?_, ?_, ?_⟩
      · intro x hx; rw [he, hcl]; exact h.queued x (hsub x hx)
      · intro n hn; rw [hcl] at hn; exact h.unmasked n hn
      · intro n hn hs; rw [hcl] at hn; rw [he, hcl]; exact h.parent n hn hs
      · intro d hd; rw [hcl] at hd
        rcases h.frontier d hd with hf | ⟨e, hf⟩ | hf
        · cases hf
        · rcases hrem _ hf with hx | hx
          · left; rw [← hx]
          · right; left; exact ⟨e, hx⟩
        · right; right; rw [hcl]; exact hf
    obtain ⟨r1, r2, r3, r4⟩ := fold_inv o L nbrs seed mask c.1 c.2 (nbrs c.1) (fun _ h => h) s1 hc1 hi1
    refine ⟨⟨r1.queued, r1.unmasked, r1.parent, ?_⟩, fun n hn => r3 n (by rw [hcl]; exact hn)⟩
    intro d hd
    rcases r1.frontier d hd with hf | hf | hf
    · cases hf; right; right; exact r4
    · exact Or.inr (Or.inl hf)
    · exact Or.inr (Or.inr hf)

theorem run_inv (o : Ord α) (L : Laws o) (nbrs : Nat → List Nat) (seed mask : Nat → Bool)
    (fuel : Nat) (s : PF α) (h : Inv o nbrs seed mask none s) :
    Inv o nbrs seed mask none (run o nbrs mask fuel s) ∧
    (∀ n, s.closed n = true → (run o nbrs mask fuel s).closed n = true) := by
  induction fuel generalizing s with
  | zero => exact ⟨h, fun _ h => h⟩
  | succ f ih =>
    unfold run
    split
    · exact ⟨h, fun _ h => h⟩
    · rename_i s' hs
      obtain ⟨h1, h2⟩ := step_inv o L nbrs seed mask s s' h hs
      obtain ⟨h3, h4⟩ := ih s' h1
      exact ⟨h3, fun n hn => h4 n (h2 n hn)⟩

/-- nodes connected to a seed through unmasked neighbours -/
inductive Reach (nbrs : Nat → List Nat) (seed mask : Nat → Bool) : Nat → Prop
  | seed (s) : seed s = true → Reach nbrs seed mask s
  | step (c m) : Reach nbrs seed mask c → m ∈ nbrs c → mask m = false → Reach nbrs seed mask m

/-- **no interior minimum** : in any state reached by the flood, a closed non-seed node has a
closed, unmasked neighbour-parent that is strictly lower. -/
theorem pflood_parent (o : Ord α) (L : Laws o) (nbrs : Nat → List Nat) (seed mask : Nat → Bool)
    (fuel : Nat) (s0 : PF α) (h0 : Inv o nbrs seed mask none s0) (n : Nat) :
    let f := run o nbrs mask fuel s0
    f.closed n = true → seed n = false →
    ∃ c, f.closed c = true ∧ mask c = false ∧ n ∈ nbrs c ∧ o.lt (f.elev c) (f.elev n) = true := by
  intro f hn hs
  have hi := (run_inv o L nbrs seed mask fuel s0 h0).1
  obtain ⟨c, h1, h2, h3⟩ := hi.parent n hn hs
  exact ⟨c, h1, hi.unmasked c h1, h2, h3⟩

/-- **completeness** : if the flood stopped because both queues are empty, every node connected
to a seed through unmasked neighbours is closed. -/
theorem pflood_complete (o : Ord α) (L : Laws o) (nbrs : Nat → List Nat) (seed mask : Nat → Bool)
    (fuel : Nat) (s0 : PF α) (h0 : Inv o nbrs seed mask none s0)
    (hseed : ∀ b, seed b = true → s0.closed b = true)
    (hdone : pop o (run o nbrs mask fuel s0) = none) (n : Nat)
    (hr : Reach nbrs seed mask n) : (run o nbrs mask fuel s0).closed n = true := by
  obtain ⟨hi, hmono⟩ := run_inv o L nbrs seed mask fuel s0 h0
  induction hr with
  | seed b hb => exact hmono b (hseed b hb)
  | step c m _ hm hmask ih =>
    rcases hi.frontier c ih with hf | ⟨e, hf⟩ | hf
    · cases hf
    · exact absurd hf (pop_none o _ hdone _)
    · rcases hf m hm with h1 | h1
      · rw [hmask] at h1; cases h1
      · exact h1

end Fs
