/-! Single-direction router prototype (flow_router.hpp apply_seq, with the D2 repair:
a neighbour is a candidate iff it is unmasked and strictly lower). -/
namespace Fs.Router

structure Ops (α : Type) where
  lt : α → α → Bool
  slope : α → α → α → α       -- slope a b d = (a - b) / d
  lowest : α

variable {α : Type}

/-- loop state: current receiver, its distance, current maximal slope -/
structure Best (α : Type) where
  recv : Nat
  dist : α
  smax : α

def cand (o : Ops α) (mask : Nat → Bool) (f : Nat → α) (i : Nat) (p : Nat × α) : Bool :=
  !mask p.1 && o.lt (f p.1) (f i)

def visit (o : Ops α) (mask : Nat → Bool) (f : Nat → α) (i : Nat) (b : Best α) (p : Nat × α) : Best α :=
  if cand o mask f i p then
    let s := o.slope (f i) (f p.1) p.2
    if o.lt b.smax s then { recv := p.1, dist := p.2, smax := s } else b
  else b

def route (o : Ops α) (mask : Nat → Bool) (f : Nat → α) (zero : α) (i : Nat) (nbrs : List (Nat × α)) : Best α :=
  nbrs.foldl (visit o mask f i) { recv := i, dist := zero, smax := o.lowest }

structure Laws (o : Ops α) : Prop where
  irrefl : ∀ a, o.lt a a = false
  trans : ∀ a b c, o.lt a b = true → o.lt b c = true → o.lt a c = true
  /-- `¬ a < b → ¬ b < c → ¬ a < c` (negative transitivity: `lt` is a strict weak order) -/
  ntrans : ∀ a b c, o.lt a b = false → o.lt b c = false → o.lt a c = false

/-- invariant of the scan: either nothing was chosen yet (no candidate in the prefix, state
untouched), or the chosen one is a candidate of the prefix whose slope is `smax` and no
candidate of the prefix has a larger slope -/
def Good (o : Ops α) (mask : Nat → Bool) (f : Nat → α) (i : Nat) (zero : α) (pre : List (Nat × α)) (b : Best α) : Prop :=
  (b.recv = i ∧ b.dist = zero ∧ b.smax = o.lowest ∧ ∀ p, p ∈ pre → cand o mask f i p = false) ∨
  (∃ p, p ∈ pre ∧ cand o mask f i p = true ∧ b.recv = p.1 ∧ b.dist = p.2 ∧
      b.smax = o.slope (f i) (f p.1) p.2 ∧
      ∀ q, q ∈ pre → cand o mask f i q = true → o.lt b.smax (o.slope (f i) (f q.1) q.2) = false)

theorem visit_good (o : Ops α) (L : Laws o) (mask : Nat → Bool) (f : Nat → α) (i : Nat) (zero : α)
    (pre : List (Nat × α)) (b : Best α) (p : Nat × α)
    (hlow : cand o mask f i p = true → o.lt o.lowest (o.slope (f i) (f p.1) p.2) = true)
    (h : Good o mask f i zero pre b) : Good o mask f i zero (pre ++ [p]) (visit o mask f i b p) := by
  unfold visit
  by_cases hc : cand o mask f i p = true
  · simp only [hc, if_true]
    by_cases hs : o.lt b.smax (o.slope (f i) (f p.1) p.2) = true
    · simp only [hs, if_true]
      right
      refine ⟨p, by simp, hc, rfl, rfl, rfl, ?_⟩
      intro q hq hcq
      simp only [List.mem_append, List.mem_singleton] at hq
      rcases hq with hq | rfl
      · rcases h with ⟨_, _, _, hnone⟩ | ⟨r, _, _, _, _, _, hmax⟩
        · rw [hnone q hq] at hcq; cases hcq
        · -- slope q ≤ smax < slope p
          have h1 := hmax q hq hcq
          cases hh : o.lt (o.slope (f i) (f p.1) p.2) (o.slope (f i) (f q.1) q.2)
          · rfl
          · have := L.trans _ _ _ hs hh; rw [h1] at this; cases this
      · exact L.irrefl _
    · have hs' : o.lt b.smax (o.slope (f i) (f p.1) p.2) = false := by
        cases hh : o.lt b.smax (o.slope (f i) (f p.1) p.2) <;> simp_all
      simp only [hs', Bool.false_eq_true, if_false]
      rcases h with ⟨_, _, hsm, _⟩ | ⟨r, hr, hcr, h1, h2, h3, hmax⟩
      · -- nothing chosen yet but p is a candidate: its slope is above `lowest`, contradiction
        rw [hsm, hlow hc] at hs'; cases hs'
      · right
        refine ⟨r, by simp [hr], hcr, h1, h2, h3, ?_⟩
        intro q hq hcq
        simp only [List.mem_append, List.mem_singleton] at hq
        rcases hq with hq | rfl
        · exact hmax q hq hcq
        · exact hs'
  · have hc' : cand o mask f i p = false := by cases hh : cand o mask f i p <;> simp_all
    simp only [hc', Bool.false_eq_true, if_false]
    rcases h with ⟨h1, h2, h3, hnone⟩ | ⟨r, hr, hcr, h1, h2, h3, hmax⟩
    · left
      refine ⟨h1, h2, h3, ?_⟩
      intro q hq
      simp only [List.mem_append, List.mem_singleton] at hq
      rcases hq with hq | rfl
      · exact hnone q hq
      · exact hc'
    · right
      refine ⟨r, by simp [hr], hcr, h1, h2, h3, ?_⟩
      intro q hq hcq
      simp only [List.mem_append, List.mem_singleton] at hq
      rcases hq with hq | rfl
      · exact hmax q hq hcq
      · rw [hc'] at hcq; cases hcq

theorem foldl_good (o : Ops α) (L : Laws o) (mask : Nat → Bool) (f : Nat → α) (i : Nat) (zero : α)
    (l pre : List (Nat × α))
    (hlow : ∀ p, p ∈ pre ++ l → cand o mask f i p = true →
      o.lt o.lowest (o.slope (f i) (f p.1) p.2) = true)
    (b : Best α) (h : Good o mask f i zero pre b) :
    Good o mask f i zero (pre ++ l) (l.foldl (visit o mask f i) b) := by
  induction l generalizing pre b with
  | nil => simpa using h
  | cons p t ih =>
    simp only [List.foldl_cons]
    have := ih (pre ++ [p]) (fun q hq => hlow q (by simpa using hq)) _
      (visit_good o L mask f i zero pre b p (hlow p (by simp)) h)
    simpa using this

/-- **C04 core**: the router leaves `i` as its own receiver iff no unmasked neighbour is strictly
lower; otherwise the receiver is such a neighbour, with its grid distance, of maximal slope. -/
theorem route_spec (o : Ops α) (L : Laws o) (mask : Nat → Bool) (f : Nat → α) (zero : α) (i : Nat)
    (nbrs : List (Nat × α))
    (hlow : ∀ p, p ∈ nbrs → cand o mask f i p = true →
      o.lt o.lowest (o.slope (f i) (f p.1) p.2) = true) :
    Good o mask f i zero nbrs (route o mask f zero i nbrs) := by
  have := foldl_good o L mask f i zero nbrs [] (by simpa using hlow)
    { recv := i, dist := zero, smax := o.lowest }
    (Or.inl ⟨rfl, rfl, rfl, fun _ h => by cases h⟩)
  simpa [route] using this

end Fs.Router
