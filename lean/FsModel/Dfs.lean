/-! Bottom-up DFS order prototype (flow_graph_impl::compute_dfs_indices_bottomup).

`don i` = donors of `i` without `i` itself, in table order; `recv i` = the single receiver.
The C++ loop: for i in 0..n: if recv i = i then (out += [i]; push i); drain the stack:
pop s; for d in don s: (out += [d]; push d).  -/
namespace Fs.Dfs

/-- drain the stack (top first) appending to `out`; fuelled -/
def drain (don : Nat → List Nat) : Nat → List Nat → List Nat → List Nat
  | 0, _, out => out
  | _ + 1, [], out => out
  | f + 1, s :: st, out => drain don f ((don s).reverse ++ st) (out ++ don s)

def roots (recv : Nat → Nat) (n : Nat) : List Nat := (List.range n).filter (fun i => recv i == i)

def dfs (don : Nat → List Nat) (recv : Nat → Nat) (n fuel : Nat) : List Nat :=
  (roots recv n).foldl (fun out r => drain don fuel [r] (out ++ [r])) []

/-- built by appending elements whose receiver is already present (or which are roots) -/
inductive Ordered (recv : Nat → Nat) : List Nat → Prop
  | nil : Ordered recv []
  | snoc (l x) : Ordered recv l → (recv x = x ∨ recv x ∈ l) → Ordered recv (l ++ [x])

theorem Ordered.append_all {recv} {l : List Nat} (h : Ordered recv l) (ds : List Nat)
    (hds : ∀ d, d ∈ ds → recv d ∈ l) : Ordered recv (l ++ ds) := by
  induction ds generalizing l with
  | nil => simpa using h
  | cons d t ih =>
    have : l ++ d :: t = (l ++ [d]) ++ t := by simp
    rw [this]
    apply ih (Ordered.snoc l d h (Or.inr (hds d List.mem_cons_self)))
    intro e he
    exact List.mem_append_left _ (hds e (List.mem_cons_of_mem _ he))

/-- the position reading of `Ordered`: in any split, a non-root has its receiver in the prefix -/
theorem Ordered.split {recv} {l : List Nat} (h : Ordered recv l) :
    ∀ pre x post, l = pre ++ x :: post → recv x = x ∨ recv x ∈ pre := by
  induction h with
  | nil => intro pre x post e; simp at e
  | snoc l y _ hy ih =>
    intro pre x post e
    rcases List.eq_nil_or_concat post with rfl | ⟨post', z, rfl⟩
    · -- x is the last element
      have : l ++ [y] = pre ++ [x] := by simpa using e
      obtain ⟨e1, e2⟩ := List.append_inj' this rfl
      cases e2
      rw [← e1]; exact hy
    · have : l ++ [y] = (pre ++ x :: post') ++ [z] := by simp [e]
      obtain ⟨e1, _⟩ := List.append_inj' this rfl
      exact ih pre x post' e1

structure G (don : Nat → List Nat) (recv : Nat → Nat) : Prop where
  /-- donors table is the inverse of the receiver function (self excluded) -/
  inv : ∀ d s, d ∈ don s ↔ (recv d = s ∧ d ≠ s)

theorem drain_ordered {don recv} (g : G don recv) (fuel : Nat) (st out : List Nat)
    (hst : ∀ s, s ∈ st → s ∈ out) (h : Ordered recv out) :
    Ordered recv (drain don fuel st out) := by
  induction fuel generalizing st out with
  | zero => simpa [drain] using h
  | succ f ih =>
    cases st with
    | nil => simpa [drain] using h
    | cons s st =>
      simp only [drain]
      apply ih
      · intro x hx
        simp only [List.mem_append, List.mem_reverse] at hx ⊢
        rcases hx with hx | hx
        · exact Or.inr hx
        · exact Or.inl (hst x (List.mem_cons_of_mem _ hx))
      · apply h.append_all
        intro d hd
        rw [((g.inv d s).mp hd).1]
        exact hst s List.mem_cons_self

theorem dfs_ordered {don recv} (g : G don recv) (n fuel : Nat) :
    Ordered recv (dfs don recv n fuel) := by
  unfold dfs
  suffices H : ∀ (rs : List Nat) (out : List Nat), (∀ r, r ∈ rs → recv r = r) → Ordered recv out →
      Ordered recv (rs.foldl (fun out r => drain don fuel [r] (out ++ [r])) out) by
    apply H _ _ _ Ordered.nil
    intro r hr
    simp only [roots, List.mem_filter, beq_iff_eq] at hr
    exact hr.2
  intro rs
  induction rs with
  | nil => intro out _ h; simpa using h
  | cons r rs ih =>
    intro out hr h
    simp only [List.foldl_cons]
    apply ih _ (fun x hx => hr x (List.mem_cons_of_mem _ hx))
    apply drain_ordered g
    · intro s hs; simp at hs; subst hs; simp
    · exact Ordered.snoc out r h (Or.inl (hr r List.mem_cons_self))

/-- **receiver before donor** for the bottom-up order, any fuel -/
theorem dfs_recv_before {don recv} (g : G don recv) (n fuel : Nat) (pre : List Nat) (x : Nat)
    (post : List Nat) (h : dfs don recv n fuel = pre ++ x :: post) : recv x = x ∨ recv x ∈ pre :=
  (dfs_ordered g n fuel).split pre x post h

end Fs.Dfs
