/-! Generic descent theorem prototype (core Lean only). -/
namespace Fs

variable {α : Type} (lt : α → α → Prop) [DecidableRel lt]

/-- number of nodes in `[0,n)` strictly below node `i` -/
def rank (n : Nat) (elev : Nat → α) (i : Nat) : Nat :=
  (List.range n).countP (fun j => decide (lt (elev j) (elev i)))

theorem countP_lt_of_imp {β} (l : List β) (p q : β → Bool)
    (h : ∀ x ∈ l, p x = true → q x = true) (w : β) (hw : w ∈ l) (hq : q w = true) (hp : p w = false) :
    l.countP p < l.countP q := by
  induction l with
  | nil => cases hw
  | cons a t ih =>
    have hmono : t.countP p ≤ t.countP q := by
      apply List.countP_mono_left
      intro x hx; exact h x (List.mem_cons_of_mem _ hx)
    rcases List.mem_cons.mp hw with rfl | hwt
    · simp [List.countP_cons, hq, hp]; omega
    · have := ih (fun x hx => h x (List.mem_cons_of_mem _ hx)) hwt
      simp only [List.countP_cons]
      by_cases hpa : p a = true
      · have := h a (List.mem_cons_self) hpa
        simp [hpa, this]; omega
      · simp [hpa]; split <;> omega

theorem rank_lt (irrefl : ∀ a, ¬ lt a a) (trans : ∀ a b c, lt a b → lt b c → lt a c)
    (n : Nat) (elev : Nat → α) (i j : Nat) (hj : j < n) (h : lt (elev j) (elev i)) :
    rank lt n elev j < rank lt n elev i := by
  unfold rank
  apply countP_lt_of_imp _ _ _ _ j (List.mem_range.mpr hj)
  · simpa using h
  · simpa using irrefl _
  · intro x _ hx
    simp at hx ⊢
    exact trans _ _ _ hx h

/-- multi-receiver graph: `recvs i` is the receiver list of node `i` -/
def stepRel (recvs : Nat → List Nat) (j i : Nat) : Prop := j ∈ recvs i ∧ j ≠ i

theorem step_wf (irrefl : ∀ a, ¬ lt a a) (trans : ∀ a b c, lt a b → lt b c → lt a c)
    (n : Nat) (elev : Nat → α) (recvs : Nat → List Nat)
    (hin : ∀ i j, j ∈ recvs i → j < n)
    (hdesc : ∀ i j, j ∈ recvs i → j ≠ i → lt (elev j) (elev i)) :
    WellFounded (stepRel recvs) := by
  apply Subrelation.wf (r := InvImage (· < ·) (rank lt n elev))
  · intro j i ⟨hm, hne⟩
    exact rank_lt lt irrefl trans n elev i j (hin i j hm) (hdesc i j hm hne)
  · exact InvImage.wf _ Nat.lt_wfRel.wf

end Fs
