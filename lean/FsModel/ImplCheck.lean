import FsModel.Flow

/-! Decidable checkers of the CONCLUSIONS of the end-to-end theorems (C01, C06, C19), to be run by
the driver on the tables that the C++ implementation reported for a scenario.  The verdict is
then about the real output, not about the model's.  Every checker has a soundness theorem
`checker … = true → <Prop-level statement>` in `FsProofs/Properties/ImplCheck.lean`; the
statements have the shapes of `Fs.C06.multi_dfs`, `Fs.C06.multi_bfs`,
`Fs.C06.multi_donors_inverse`, `Fs.C19.basins_spec`, `Fs.C01.C01_pflood_multiRouter`.

Executable, core Lean only.  Costs: `checkDonors` O(n² · deg), `checkDfs`/`checkBfs` O(n² + n · deg · n)
(list look-ups), `checkFlow` O(n · deg) for the search plus O(n · deg²) for the scans. -/
namespace Fs.ImplCheck

/-- what the implementation printed, as total functions plus the node count -/
structure Tables where
  n : Nat
  recv : Nat → List Nat          -- receivers row (length = receivers_count)
  donors : Nat → List Nat        -- donors row (length = donors_count)
  dfs : List Nat
  bfs : List (List Nat)          -- levels

/-- `l` has length `n` and contains every `i < n` (hence is a permutation of `range n`) -/
def isPermRange (n : Nat) (l : List Nat) : Bool :=
  l.length == n && (List.range n).all (fun i => l.contains i)

/-! ### C06: donors -/

/-- what the donors row of `r` must contain of `d` -/
def expectedCount (t : Tables) (r d : Nat) : Nat :=
  if t.recv d ≠ [d] then (t.recv d).count r else 0

/-- all entries of both tables are node indices, and the donors table is the inverse of the
receivers table with multiplicity, for distinct nodes (a self-only row registers nowhere) -/
def checkDonors (t : Tables) : Bool :=
  (List.range t.n).all (fun r =>
    (t.recv r).all (fun x => decide (x < t.n)) &&
    (t.donors r).all (fun x => decide (x < t.n)) &&
    (List.range t.n).all (fun d =>
      d == r || (t.donors r).count d == expectedCount t r d))

/-! ### C06: bottom-up order -/

/-- scan of an order: every receiver of `x` other than `x` occurs among the nodes `seen` before -/
def orderOk (recv : Nat → List Nat) : List Nat → List Nat → Bool
  | _, [] => true
  | seen, x :: rest =>
    (recv x).all (fun r => r == x || seen.contains r) && orderOk recv (x :: seen) rest

def checkDfs (t : Tables) : Bool :=
  isPermRange t.n t.dfs && orderOk t.recv [] t.dfs

/-! ### C06: breadth-first levels -/

/-- scan of the levels: every receiver of a node of a level, other than the node, occurs in an
earlier level (`seen` = the earlier levels, flattened) -/
def levelsOk (recv : Nat → List Nat) : List Nat → List (List Nat) → Bool
  | _, [] => true
  | seen, lvl :: rest =>
    lvl.all (fun d => (recv d).all (fun r => r == d || seen.contains r)) &&
      levelsOk recv (lvl.reverse ++ seen) rest

def checkBfs (t : Tables) : Bool :=
  isPermRange t.n t.bfs.flatten && t.bfs.all (fun lvl => !lvl.isEmpty) &&
    levelsOk t.recv [] t.bfs

def checkC06 (t : Tables) : Bool := checkDonors t && checkDfs t && checkBfs t

/-! ### C19: basins -/

/-- the receiver of a single-direction table -/
def recv1 (t : Tables) (i : Nat) : Nat := (t.recv i).headD i

/-- single-direction tables (every receiver row has length 1).  Masked nodes carry `maxLabel`;
an unmasked node whose receiver is unmasked has the label of its receiver; the outlets are the
unmasked self-receivers in the order of `dfs`; outlets are labelled 0, 1, 2, … in that order;
every unmasked label is below the number of outlets; pits are the outlets that are not base levels -/
def checkBasins (t : Tables) (mask isBase : Nat → Bool) (labels : Nat → Nat)
    (outlets pits : List Nat) (maxLabel : Nat) : Bool :=
  (List.range t.n).all (fun i => (t.recv i).length == 1) &&
  (List.range t.n).all (fun x =>
    if mask x then labels x == maxLabel
    else (mask (recv1 t x) || labels x == labels (recv1 t x)) &&
      decide (labels x < outlets.length)) &&
  outlets == t.dfs.filter (fun i => !mask i && recv1 t i == i) &&
  (List.range outlets.length).all (fun k => labels (outlets.getD k 0) == k) &&
  pits == outlets.filter (fun o => !isBase o)

/-! ### C01: flow paths reach a base level -/

/-- one step of the search: the unmasked, not yet visited neighbours of a popped node are marked
and pushed -/
def visitNbr (mask : Nat → Bool) (p : Array Bool × List Nat) (m : Nat) : Array Bool × List Nat :=
  if mask m || p.1.getD m true then p else (p.1.setIfInBounds m true, m :: p.2)

/-- fuelled depth-first search over `nb` through unmasked nodes; `vis` has size `n`, out-of-range
indices count as visited (they are never pushed) -/
def search (nb : Nat → List Nat) (mask : Nat → Bool) : Nat → Array Bool → List Nat → Array Bool
  | 0, vis, _ => vis
  | _ + 1, vis, [] => vis
  | f + 1, vis, c :: st =>
    let p := (nb c).foldl (visitNbr mask) (vis, st)
    search nb mask f p.1 p.2

/-- the unmasked base levels below `n` -/
def seedList (n : Nat) (mask isBase : Nat → Bool) : List Nat :=
  (List.range n).filter (fun b => isBase b && !mask b)

/-- the nodes below `n` connected to an unmasked base level through unmasked neighbours, as a
Boolean table.  Every node is pushed at most once, so `n + 1` pops suffice; the checker does not
rely on that: it re-checks that the set is closed (`closedOk`). -/
def connTable (n : Nat) (nb : Nat → List Nat) (mask isBase : Nat → Bool) : Array Bool :=
  let seeds := seedList n mask isBase
  let p := seeds.foldl (visitNbr (fun _ => false)) (Array.replicate n false, [])
  search nb mask (n + 1) p.1 p.2

/-- certificate check for a candidate connected set: neighbour lists stay in range, every
unmasked base level below `n` is in the set, and the set is closed under unmasked neighbours -/
def closedOk (n : Nat) (nb : Nat → List Nat) (mask isBase : Nat → Bool) (conn : Nat → Bool) : Bool :=
  (List.range n).all (fun i => (nb i).all (fun m => decide (m < n))) &&
  (List.range n).all (fun b => !(isBase b && !mask b) || conn b) &&
  (List.range n).all (fun c => !conn c || (nb c).all (fun m => mask m || conn m))

/-- (1) masked and base-level nodes are their own single receiver -/
def terminalOk (t : Tables) (mask isBase : Nat → Bool) : Bool :=
  (List.range t.n).all (fun i => !(mask i || isBase i) || t.recv i == [i])

/-- (2) every receiver is a node; every receiver other than the node itself is strictly lower in
the returned elevation, unmasked and (if `strictNbr`) a neighbour -/
def descentOk {α : Type} (S : Scalar α) (t : Tables) (nb : Nat → List Nat) (mask : Nat → Bool)
    (z' : Nat → α) (strictNbr : Bool) : Bool :=
  (List.range t.n).all (fun i => (t.recv i).all (fun r =>
    decide (r < t.n) &&
      (r == i || (S.lt (z' r) (z' i) && !mask r && (!strictNbr || (nb i).contains r)))))

/-- (3) a connected node that is not a base level is not a pit: it has a receiver other than
itself; (3') connected nodes are unmasked and all their receivers are connected -/
def noPitOk (t : Tables) (mask isBase : Nat → Bool) (conn : Nat → Bool) : Bool :=
  (List.range t.n).all (fun i => !conn i ||
    (!mask i && (isBase i || (t.recv i).any (fun r => r != i)) && (t.recv i).all conn))

/-- property C01 on the returned elevation `z'` and the reported receivers -/
def checkFlow {α : Type} (S : Scalar α) (t : Tables) (nb : Nat → List Nat) (mask isBase : Nat → Bool)
    (z' : Nat → α) (strictNbr : Bool) : Bool :=
  let vis := connTable t.n nb mask isBase
  let conn := fun i => vis.getD i false
  closedOk t.n nb mask isBase conn && terminalOk t mask isBase &&
    descentOk S t nb mask z' strictNbr && noPitOk t mask isBase conn

end Fs.ImplCheck
