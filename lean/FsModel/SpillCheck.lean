import FsModel.UB1

/-! Decidable checker of the CONCLUSION of property C02 (elevation after a sink resolver), to be
run by the driver on the elevation that the C++ implementation returned.  Soundness
(`checkC02 … = true → <Prop-level statement over `Fs.UB.Path` / `Fs.UB.Bounded`>`) is
`Fs.ImplCheck.checkC02_sound` in `FsProofs/Properties/SpillCheck.lean`.

The spill level of a node is the minimum, over the paths from an unmasked base level through
unmasked neighbours, of the maximal INPUT elevation on the path.  `spillTable` computes it by at
most `n` Jacobi rounds of minimax relaxation (it stops at the first stable table).  The checker
does not rely on `n` rounds being enough: `spillStable` re-checks that the table is a fixpoint (no
entry can be lowered any further), which is what the optimality half of the soundness proof uses.
The relaxation of node `i` reads `nb i`; the soundness theorem assumes symmetric neighbour lists
(`nbSymOk` decides that).

Executable, core Lean only.  Costs: `spillTable` O(rounds · n · deg) with rounds ≤ n (typically
the number of edges of the longest optimal path), `spillStable` O(n · deg), `checkC02`
additionally O(n · k) for the `k`-fold `nextUp`. -/
namespace Fs.ImplCheck
open Fs.UB (pw)

variable {α : Type}

/-- minimum of two optional values, `none` = +∞ (no path yet) -/
def optMin (o : Fs.UB.Ord α) : Option α → Option α → Option α
  | none, b => b
  | some a, none => some a
  | some a, some b => if o.lt b a then some b else some a

/-- `max x ·` of an optional value; `none` stays `none` -/
def optMax (o : Fs.UB.Ord α) (x : α) : Option α → Option α
  | none => none
  | some a => if o.lt x a then some a else some x

/-- strict order on optional values with `none` = +∞ -/
def optLt (o : Fs.UB.Ord α) : Option α → Option α → Bool
  | none, _ => false
  | some _, none => true
  | some a, some b => o.lt a b

/-- table look-up, out of range = `none` -/
@[inline] def spGet (sp : Array (Option α)) (i : Nat) : Option α := sp.getD i none

/-- minimum of the entries of the unmasked nodes below `n` of a neighbour list -/
def nbrMin (o : Fs.UB.Ord α) (n : Nat) (mask : Nat → Bool) (sp : Array (Option α)) : List Nat → Option α
  | [] => none
  | j :: l =>
    if j < n && !mask j then optMin o (spGet sp j) (nbrMin o n mask sp l) else nbrMin o n mask sp l

/-- what the neighbours offer to node `i`: `max (f i) (min over the neighbours)` -/
def spillCand (o : Fs.UB.Ord α) (n : Nat) (nb : Nat → List Nat) (mask : Nat → Bool) (f : Nat → α)
    (sp : Array (Option α)) (i : Nat) : Option α :=
  optMax o (f i) (nbrMin o n mask sp (nb i))

/-- the new entry of node `i` after one round (masked nodes keep theirs, i.e. `none`) -/
def relaxEntry (o : Fs.UB.Ord α) (n : Nat) (nb : Nat → List Nat) (mask : Nat → Bool) (f : Nat → α)
    (sp : Array (Option α)) (i : Nat) : Option α :=
  if mask i then spGet sp i else optMin o (spGet sp i) (spillCand o n nb mask f sp i)

/-- one Jacobi round: every entry is recomputed from the OLD table -/
def spillRound (o : Fs.UB.Ord α) (n : Nat) (nb : Nat → List Nat) (mask : Nat → Bool) (f : Nat → α)
    (sp : Array (Option α)) : Array (Option α) :=
  Array.ofFn (n := n) (fun i => relaxEntry o n nb mask f sp i.val)

/-- start: the unmasked base levels carry their own elevation -/
def spillInit (n : Nat) (seed mask : Nat → Bool) (f : Nat → α) : Array (Option α) :=
  Array.ofFn (n := n) (fun i => if seed i.val && !mask i.val then some (f i.val) else none)

/-- certificate check for a candidate table, through `o.lt` only: every unmasked base level below
`n` has an entry not above its own elevation, and no entry of an unmasked node can be lowered by
one more round -/
def spillStable (o : Fs.UB.Ord α) (n : Nat) (nb : Nat → List Nat) (seed mask : Nat → Bool) (f : Nat → α)
    (sp : Array (Option α)) : Bool :=
  (List.range n).all (fun i => mask i ||
    ((!seed i || !optLt o (some (f i)) (spGet sp i)) &&
      !optLt o (spillCand o n nb mask f sp i) (spGet sp i)))

/-- at most `r` rounds, stopping as soon as the table is stable (further rounds would not change
it) -/
def spillRounds (o : Fs.UB.Ord α) (n : Nat) (nb : Nat → List Nat) (seed mask : Nat → Bool) (f : Nat → α) :
    Nat → Array (Option α) → Array (Option α)
  | 0, sp => sp
  | r + 1, sp =>
    if spillStable o n nb seed mask f sp then sp
    else spillRounds o n nb seed mask f r (spillRound o n nb mask f sp)

/-- the spill levels of the nodes below `n` (`none` = masked or not connected to a base level):
at most `n` rounds of minimax relaxation (a simple path has at most `n - 1` edges) -/
def spillTable (o : Fs.UB.Ord α) (n : Nat) (nb : Nat → List Nat) (seed mask : Nat → Bool) (f : Nat → α) :
    Array (Option α) :=
  spillRounds o n nb seed mask f n (spillInit n seed mask f)

/-- clauses (a)-(d) of C02 at node `i`, `sp` = the spill levels -/
def nodeOkC02 (o : Fs.UB.Ord α) (seed mask : Nat → Bool) (beq : α → α → Bool) (f z' : Nat → α) (k : Nat)
    (sp : Array (Option α)) (i : Nat) : Bool :=
  !o.lt (z' i) (f i) &&
  (!(seed i || mask i) || beq (z' i) (f i)) &&
  (mask i ||
    match spGet sp i with
    | none => true
    | some v => !o.lt (z' i) v && o.le (z' i) (pw o k v))

/-- property C02 on the returned elevation `z'` for the input `f`: (a) never below the input,
(b) `beq` to the input at base levels and masked nodes, (c) not below the spill level, (d) at most
`k` increments above the spill level -/
def checkC02 (o : Fs.UB.Ord α) (n : Nat) (nb : Nat → List Nat) (seed mask : Nat → Bool)
    (beq : α → α → Bool) (f z' : Nat → α) (k : Nat) : Bool :=
  let sp := spillTable o n nb seed mask f
  spillStable o n nb seed mask f sp &&
    (List.range n).all (nodeOkC02 o seed mask beq f z' k sp)

/-- neighbour lists stay below `n` and are symmetric (the hypotheses `hnb`, `hsym` of
`checkC02_sound`, decided) -/
def nbSymOk (n : Nat) (nb : Nat → List Nat) : Bool :=
  (List.range n).all (fun i => (nb i).all (fun j => decide (j < n) && (nb j).contains i))

end Fs.ImplCheck
