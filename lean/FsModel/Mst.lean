import FsModel.Flow

/-! Spanning-tree sink resolver (`basin_graph.hpp`, `sink_resolver.hpp`): basin graph
construction (lowest pass per pair of adjacent basins), Kruskal / Boruvka trees, orientation from
the root, `basic` / `carve` re-routing, tilt pass.  Mirrors the C++ statement by statement so
that the correspondence is exact; scratch state that survives between calls in the C++ is
re-initialised there on every call and is therefore local here. Core Lean only. -/
namespace Fs.Mst
open Fs.Flow

def none : Nat := 18446744073709551615   -- size_type(-1)

structure BEdge (α : Type) where
  l0 : Nat
  l1 : Nat
  p0 : Nat
  p1 : Nat
  pe : α
  pl : α

variable {α : Type}

structure BG (α : Type) where
  edges : Array (BEdge α)
  tree : List Nat
  root : Nat
  outlets : List Nat

/-! ### connect_basins -/

structure CB (α : Type) where
  ibasin : Nat
  inner : Bool
  current : Nat
  root : Nat
  edges : Array (BEdge α)
  pos : Tbl Nat
  tmp : List Nat

def cbNeighbor (S : Scalar α) (mask isBase : Nat → Bool) (labels : Nat → Nat) (outlets : Array Nat)
    (f : Nat → α) (idfs : Nat) (s : CB α) (p : Nat × α) : CB α :=
  if mask p.1 then s
  else
    let nbasin := labels p.1
    let skip := decide (s.ibasin ≥ nbasin)
    let innerN := !isBase (outlets.getD nbasin 0)
    if skip && innerN then s
    else
      let pe := S.max (f idfs) (f p.1)
      let s1 : CB α :=
        if s.current ≠ s.ibasin then
          { s with pos := s.tmp.foldl (fun (t : Tbl Nat) v => t.set v none) s.pos, tmp := [],
                   current := s.ibasin }
        else s
      let eidx := s1.pos.get nbasin
      let e : BEdge α := { l0 := s1.ibasin, l1 := nbasin, p0 := idfs, p1 := p.1, pe := pe, pl := p.2 }
      if eidx = none then
        { s1 with pos := s1.pos.set nbasin s1.edges.size, tmp := s1.tmp ++ [nbasin],
                  edges := s1.edges.push e }
      else if S.lt pe ((s1.edges.getD eidx e).pe) then
        { s1 with edges := s1.edges.setIfInBounds eidx e }
      else s1

def cbNode (S : Scalar α) (t : Topo α) (mask isBase : Nat → Bool) (recv : Nat → Nat)
    (labels : Nat → Nat) (outlets : Array Nat) (f : Nat → α) (s : CB α) (idfs : Nat) : CB α :=
  if mask idfs then s
  else
    let s1 : CB α :=
      if recv idfs = idfs then
        let ib := labels idfs
        let inner := !isBase idfs
        let s' := { s with ibasin := ib, inner := inner }
        if !inner then
          if s'.root = none then { s' with root := ib }
          else
            let e0 : BEdge α := { l0 := s'.root, l1 := ib, p0 := none, p1 := none, pe := S.lowest, pl := S.zero }
            { s' with edges := s'.edges.push e0 }
        else s'
      else s
    if s1.inner then (t.nbrs idfs).foldl (cbNeighbor S mask isBase labels outlets f idfs) s1
    else s1

def connectBasins (S : Scalar α) (t : Topo α) (mask isBase : Nat → Bool) (recv : Nat → Nat)
    (dfs : List Nat) (labels : Nat → Nat) (outlets : List Nat) (f : Nat → α) : CB α :=
  dfs.foldl (cbNode S t mask isBase recv labels outlets.toArray f)
    { ibasin := none, inner := false, current := none, root := none, edges := #[],
      pos := Tbl.const none, tmp := [] }

/-! ### Kruskal (union-find decisions modelled by a class map) -/

structure KS where
  cls : Array Nat
  tree : List Nat

def kruskalStep (edges : Array (BEdge α)) (s : KS) (eidx : Nat) : KS :=
  match edges[eidx]? with
  | Option.none => s
  | some e =>
    let a := s.cls.getD e.l0 e.l0
    let b := s.cls.getD e.l1 e.l1
    if a = b then s
    else { cls := s.cls.map (fun c => if c = b then a else c), tree := s.tree ++ [eidx] }

def kruskal (nb : Nat) (edges : Array (BEdge α)) (perm : List Nat) : List Nat :=
  (perm.foldl (kruskalStep edges) { cls := Array.range nb, tree := [] }).tree

/-- the permutation handed over by the harness must be a permutation of the edge indices,
sorted by pass elevation (what `std::sort` guarantees) -/
def validPerm (S : Scalar α) (edges : Array (BEdge α)) (perm : List Nat) : Bool :=
  perm.length == edges.size && (List.range edges.size).all (fun i => perm.contains i) &&
  (perm.zip perm.tail).all (fun p =>
    match edges[p.1]?, edges[p.2]? with
    | some a, some b => !S.lt b.pe a.pe
    | _, _ => false)

/-! ### Boruvka (adjacency linked lists, low/large degree lists, buckets) -/

structure Adj where
  begin : Nat
  size : Nat
deriving Inhabited

def boruvka (S : Scalar α) (nb : Nat) (edges : Array (BEdge α)) (maxLow : Nat) : List Nat := Id.run do
  let w : Nat → α := fun i => match edges[i]? with
    | some e => e.pe
    | Option.none => S.lowest
  let ne := edges.size
  let mut adjacency : Array Adj := Array.replicate nb { begin := 0, size := 0 }
  let mut bucket : Array Nat := Array.replicate nb none
  let mut link : Array (Nat × Nat) := edges.map (fun e => (e.l0, e.l1))
  for lid in [0:ne] do
    let (a, b) := link[lid]!
    adjacency := adjacency.modify a (fun x => { x with size := x.size + 1 })
    adjacency := adjacency.modify b (fun x => { x with size := x.size + 1 })
  if nb = 0 then return []
  adjacency := adjacency.modify 0 (fun x => { x with begin := 0 })
  for nid in [1:nb] do
    let prev := adjacency[nid - 1]!
    adjacency := adjacency.modify nid (fun x => { x with begin := prev.begin + prev.size })
    adjacency := adjacency.modify (nid - 1) (fun x => { x with size := 0 })
  let last := adjacency[nb - 1]!
  let listSize := last.begin + last.size
  adjacency := adjacency.modify (nb - 1) (fun x => { x with size := 0 })
  -- adjacency list entries: (link_id, next)
  let mut alist : Array (Nat × Nat) := (Array.range listSize).map (fun i => (0, i + 1))
  for lid in [0:ne] do
    let (a, b) := link[lid]!
    let pa := adjacency[a]!
    alist := alist.modify (pa.begin + pa.size) (fun x => (lid, x.2))
    adjacency := adjacency.modify a (fun x => { x with size := x.size + 1 })
    let pb := adjacency[b]!
    alist := alist.modify (pb.begin + pb.size) (fun x => (lid, x.2))
    adjacency := adjacency.modify b (fun x => { x with size := x.size + 1 })
  let mut low : Array Nat := #[]
  let mut large : Array Nat := #[]
  for nid in [0:nb] do
    if adjacency[nid]!.size ≤ maxLow then low := low.push nid else large := large.push nid
  let mut tree : List Nat := []
  let mut fuel := 2 * nb + 4
  while low.size > 0 && fuel > 0 do
    fuel := fuel - 1
    for nid in low do
      if adjacency[nid]!.size > maxLow then
        large := large.push nid
        continue
      let mut found := none
      let mut nodeB := none
      let mut foundW := S.maxFinite
      let mut ptr := adjacency[nid]!.begin
      for _ in [0:adjacency[nid]!.size] do
        let pe := (alist[ptr]!).1
        ptr := (alist[ptr]!).2
        let lk := link[pe]!
        let opp := if lk.1 = nid then lk.2 else lk.1
        if opp ≠ nid && adjacency[opp]!.size > 0 && S.lt (w pe) foundW then
          found := pe
          foundW := w pe
          nodeB := opp
      if found = none then continue
      tree := tree ++ [found]
      ptr := adjacency[nid]!.begin
      let sz := adjacency[nid]!.size
      for step in [0:sz] do
        let eAC := (alist[ptr]!).1
        if step ≠ sz - 1 then ptr := (alist[ptr]!).2
        let lk := link[eAC]!
        if lk.1 = nid then link := link.set! eAC (nodeB, lk.2) else link := link.set! eAC (lk.1, nodeB)
      let bB := adjacency[nodeB]!
      alist := alist.modify ptr (fun x => (x.1, bB.begin))
      let aA := adjacency[nid]!
      adjacency := adjacency.set! nodeB { begin := aA.begin, size := bB.size + aA.size }
      adjacency := adjacency.set! nid { begin := aA.begin, size := 0 }
    low := #[]
    let mut newLarge : Array Nat := #[]
    for nodeA in large do
      let mut inBucket : Array Nat := #[]
      let mut ptr := adjacency[nodeA]!.begin
      for _ in [0:adjacency[nodeA]!.size] do
        let eAB := (alist[ptr]!).1
        ptr := (alist[ptr]!).2
        let lk := link[eAB]!
        let nodeB := if lk.1 = nodeA then lk.2 else lk.1
        if adjacency[nodeB]!.size > 0 && nodeB ≠ nodeA then
          let inB := bucket[nodeB]!
          if inB = none then
            bucket := bucket.set! nodeB eAB
            inBucket := inBucket.push nodeB
          else
            let wB := w inB
            let wAB := w eAB
            if S.beq wB wAB then bucket := bucket.set! nodeB (min inB eAB)
            else if S.lt wAB wB then bucket := bucket.set! nodeB eAB
      let mut cur := adjacency[nodeA]!.begin
      adjacency := adjacency.modify nodeA (fun x => { x with size := inBucket.size })
      for nodeB in inBucket do
        alist := alist.modify cur (fun x => (bucket[nodeB]!, x.2))
        cur := (alist[cur]!).2
        bucket := bucket.set! nodeB none
      if adjacency[nodeA]!.size ≤ maxLow then
        if adjacency[nodeA]!.size > 0 then low := low.push nodeA
      else newLarge := newLarge.push nodeA
    large := newLarge
  return tree

/-! ### orient_edges -/

structure OS (α : Type) where
  edges : Array (BEdge α)
  stack : List (Nat × Nat)      -- (node, parent)
  reached : List Nat

def orientVisit (node parent : Nat) (s : OS α) (eidx : Nat) : OS α :=
  match s.edges[eidx]? with
  | Option.none => s
  | some e =>
    if e.l0 = parent ∧ node ≠ parent then s
    else
      let e' : BEdge α := if node ≠ e.l0 then { e with l0 := e.l1, l1 := e.l0, p0 := e.p1, p1 := e.p0 } else e
      { edges := s.edges.setIfInBounds eidx e', stack := (e'.l1, node) :: s.stack,
        reached := s.reached ++ [eidx] }

def orientLoop (adj : Nat → List Nat) : Nat → OS α → OS α
  | 0, s => s
  | fuel + 1, s =>
    match s.stack with
    | [] => s
    | (node, parent) :: st => orientLoop adj fuel ((adj node).foldl (orientVisit node parent) { s with stack := st })

/-- tree adjacency in tree order (the CSR table of the code), then the depth-first sweep from
the root; the tree keeps, in its own order, the edges reached from the root -/
def orient (nb : Nat) (edges : Array (BEdge α)) (tree : List Nat) (root : Nat) : Array (BEdge α) × List Nat :=
  let adjT : Tbl (List Nat) := tree.foldl (fun (t : Tbl (List Nat)) eidx =>
      match edges[eidx]? with
      | some e =>
        let t1 := t.set e.l0 (t.get e.l0 ++ [eidx])
        t1.set e.l1 (t1.get e.l1 ++ [eidx])
      | Option.none => t) (Tbl.const [])
  let adj := look (tab nb adjT.get) []
  let s := orientLoop adj (nb + 1) { edges := edges, stack := [(root, root)], reached := [] }
  (s.edges, tree.filter (fun e => s.reached.contains e))

def basinGraph (S : Scalar α) (t : Topo α) (mask isBase : Nat → Bool) (recv : Nat → Nat)
    (dfs : List Nat) (labels : Nat → Nat) (outlets : List Nat) (f : Nat → α)
    (useBoruvka : Bool) (perm : List Nat) (maxLow : Nat) : BG α :=
  let cb := connectBasins S t mask isBase recv dfs labels outlets f
  let nb := outlets.length
  let tree0 := if useBoruvka then boruvka S nb cb.edges maxLow else kruskal nb cb.edges perm
  let (edges, tree) := orient nb cb.edges tree0 cb.root
  { edges := edges, tree := tree, root := cb.root, outlets := outlets }

/-! ### re-routing -/

structure RR (α : Type) where
  recv : Tbl Nat
  dist : Tbl α
  hang : Bool := false

def routeBasic (S : Scalar α) (f : Nat → α) (outlets : Array Nat) (edges : Array (BEdge α))
    (r : RR α) (eidx : Nat) : RR α :=
  match edges[eidx]? with
  | Option.none => r
  | some e =>
    if e.p0 = none then r
    else
      let pit := outlets.getD e.l1 0
      let d1 := r.dist.set pit S.maxFinite
      if S.lt (f e.p1) (f e.p0) then { r with recv := r.recv.set pit e.p0, dist := d1 }
      else
        { r with recv := (r.recv.set pit e.p1).set e.p1 e.p0, dist := d1.set e.p1 e.pl }

structure CarveSt (α : Type) where
  recv : Tbl Nat
  dist : Tbl α
  cur : Nat
  next : Nat
  prev : α

def carveLoop (pit : Nat) : Nat → CarveSt α → CarveSt α × Bool
  | 0, s => (s, decide (s.cur ≠ pit))
  | fuel + 1, s =>
    if s.cur = pit then (s, false)
    else
      let recNext := s.recv.get s.next
      let dNext := s.dist.get s.next
      carveLoop pit fuel
        { recv := s.recv.set s.next s.cur, dist := s.dist.set s.next s.prev, cur := s.next,
          next := recNext, prev := dNext }

def routeCarve (n : Nat) (outlets : Array Nat) (edges : Array (BEdge α)) (r : RR α) (eidx : Nat) : RR α :=
  match edges[eidx]? with
  | Option.none => r
  | some e =>
    if e.p0 = none then r
    else
      let pit := outlets.getD e.l1 0
      let cur := e.p1
      let (s, hang) := carveLoop pit (n + 1)
        { recv := r.recv.set cur e.p0, dist := r.dist.set cur e.pl, cur := cur,
          next := r.recv.get cur, prev := r.dist.get cur }
      { recv := s.recv, dist := s.dist, hang := r.hang || hang }

structure Out (α : Type) where
  g : Graph α
  elev : Array α
  hang : Bool

/-- `mst_sink_resolver::apply` on the current single-direction graph -/
def resolve (S : Scalar α) (e : Env α) (g : Graph α) (f : Nat → α) (useBoruvka carve : Bool)
    (perm : List Nat) (maxLow : Nat) : Out α :=
  let n := e.topo.n
  let b := basins n g e.mask e.isBase
  if b.pits.isEmpty then { g := g, elev := tab n f, hang := false }
  else
    let recv := recv0 g
    let labels := look b.labels 0
    let bg := basinGraph S e.topo e.mask e.isBase recv g.dfs labels b.outlets f useBoruvka perm maxLow
    let outl := b.outlets.toArray
    let r0 : RR α := { recv := ⟨recv⟩, dist := ⟨fun i => (g.rdist i).headD S.zero⟩ }
    let r := if carve then bg.tree.foldl (routeCarve n outl bg.edges) r0
             else bg.tree.foldl (routeBasic S f outl bg.edges) r0
    let recvA := look (tab n r.recv.get) 0
    let distA := look (tab n r.dist.get) S.zero
    let don := look (tab n (Fs.Donors.donors recvA (fun i => recvA i == i) n).get) []
    let g0 : Graph α := { recv := fun i => [recvA i], rdist := fun i => [distA i], rweight := g.rweight,
                          donors := don, dfs := [], bfs := [] }
    let g1 := { g0 with dfs := dfsBottomUp n g0, bfs := bfsLevels n g0 }
    let el := Fs.Tilt.tilt (tiltOrdOf S) recvA g1.dfs ⟨f⟩
    { g := g1, elev := tab n el.get, hang := r.hang }

end Fs.Mst
