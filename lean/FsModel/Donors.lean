import FsModel.Basic
/-! Donor table built by the single-direction router / compute_donors: exact inverse of the
receiver function, donors listed in increasing index order. -/
namespace Fs.Donors

/-- `skip d` = the node registers nowhere (masked / base level in the sequential router;
`recv d = d` in `compute_donors`) -/
def addDonor (recv : Nat → Nat) (skip : Nat → Bool) (D : Tbl (List Nat)) (d : Nat) : Tbl (List Nat) :=
  if skip d then D else D.set (recv d) (D.get (recv d) ++ [d])

def donors (recv : Nat → Nat) (skip : Nat → Bool) (n : Nat) : Tbl (List Nat) :=
  (List.range n).foldl (addDonor recv skip) (Tbl.const [])

theorem addDonor_apply (recv : Nat → Nat) (skip : Nat → Bool) (D : Tbl (List Nat)) (d i : Nat) :
    (addDonor recv skip D d).get i = D.get i ++ (if !skip d && recv d == i then [d] else []) := by
  unfold addDonor
  by_cases hs : skip d = true
  · simp [hs]
  · have hs' : skip d = false := by cases h : skip d <;> simp_all
    simp only [hs', Bool.false_eq_true, if_false, Bool.not_false, Bool.true_and]
    by_cases hr : recv d = i
    · subst hr; simp [Tbl.set]
    · have : ¬ (i = recv d) := fun e => hr e.symm
      simp [Tbl.set, this, hr]

theorem donors_eq (recv : Nat → Nat) (skip : Nat → Bool) (n i : Nat) :
    (donors recv skip n).get i = (List.range n).filter (fun d => !skip d && recv d == i) := by
  unfold donors
  induction n with
  | zero => simp
  | succ m ih =>
    rw [List.range_succ, List.foldl_append, List.filter_append]
    simp only [List.foldl_cons, List.foldl_nil]
    rw [addDonor_apply, ih]
    simp only [List.filter_cons, List.filter_nil]

/-- **donors_inverse** -/
theorem mem_donors (recv : Nat → Nat) (skip : Nat → Bool) (n i d : Nat) :
    d ∈ (donors recv skip n).get i ↔ d < n ∧ skip d = false ∧ recv d = i := by
  rw [donors_eq]; simp [List.mem_filter, List.mem_range]

theorem donors_nodup (recv : Nat → Nat) (skip : Nat → Bool) (n i : Nat) : ((donors recv skip n).get i).Nodup := by
  rw [donors_eq]; exact (List.nodup_range).filter _

end Fs.Donors
