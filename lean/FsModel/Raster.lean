/-! Raster neighbourhood (queen connectivity): the list computed from the node-code tables of
raster_grid.hpp equals the geometric neighbourhood, for all shapes ≥ 2×2 and all loop flags.
The three constants below are what translate.py regenerates from the source. -/
namespace Fs.Raster

/-- `node_neighbors_offsets` for queen: (row offset symbol, col offset symbol); 0 = none,
1 = up/left argument, 2 = down/right argument -/
def offsQueen : List (Nat × Nat) := [(1,1),(1,0),(1,2),(0,1),(0,2),(2,1),(2,0),(2,2)]

/-- `build_coded_neighbors_offsets`: (up, down, left, right) per node code, with
`dr = rows-1` if vertically looped else 0, `dc = cols-1` if horizontally looped else 0 -/
def coded (dr dc : Int) : Nat → Int × Int × Int × Int
  | 0 => (dr, 1, dc, 1)   | 1 => (dr, 1, -1, 1)   | 2 => (dr, 1, -1, -dc)
  | 3 => (-1, 1, dc, 1)   | 4 => (-1, 1, -1, 1)   | 5 => (-1, 1, -1, -dc)
  | 6 => (-1, -dr, dc, 1) | 7 => (-1, -dr, -1, 1) | _ => (-1, -dr, -1, -dc)

/-- `build_nodes_codes` -/
def code (rows cols r c : Int) : Nat :=
  (if r = 0 then 0 else if r = rows - 1 then 6 else 3) + (if c = 0 then 0 else if c = cols - 1 then 2 else 1)

def pick (a b : Int) : Nat → Int
  | 0 => 0 | 1 => a | _ => b

/-- neighbours of (r, c) as the code computes them: offsets with a zero component that should be
non-zero are dropped -/
def codeNbrs (rows cols : Int) (lv lh : Bool) (r c : Int) : List (Int × Int) :=
  let dr := if lv then rows - 1 else 0
  let dc := if lh then cols - 1 else 0
  let (up, down, left, right) := coded dr dc (code rows cols r c)
  offsQueen.filterMap fun (sr, sc) =>
    let o0 := pick up down sr
    let o1 := pick left right sc
    if (sr ≠ 0 ∧ o0 = 0) ∨ (sc ≠ 0 ∧ o1 = 0) then none else some (r + o0, c + o1)

/-- one geometric step along an axis of length `n`: stay inside, wrap across a looped border, or drop -/
def stepAxis (n : Int) (looped : Bool) (x d : Int) : Option Int :=
  let y := x + d
  if 0 ≤ y ∧ y < n then some y
  else if looped then some (if y < 0 then y + n else y - n)
  else none

def dirsQueen : List (Int × Int) := [(-1,-1),(-1,0),(-1,1),(0,-1),(0,1),(1,-1),(1,0),(1,1)]

def geomNbrs (rows cols : Int) (lv lh : Bool) (r c : Int) : List (Int × Int) :=
  dirsQueen.filterMap fun (dr, dc) =>
    match stepAxis rows lv r dr, stepAxis cols lh c dc with
    | some r', some c' => some (r', c')
    | _, _ => none

theorem step_first_m1 (n : Int) (l : Bool) (h : 2 ≤ n) : stepAxis n l 0 (-1) = if l then some (n - 1) else none := by
  unfold stepAxis; cases l <;> simp <;> omega
theorem step_first_0 (n : Int) (l : Bool) (h : 2 ≤ n) : stepAxis n l 0 0 = some 0 := by
  unfold stepAxis; simp; omega
theorem step_first_p1 (n : Int) (l : Bool) (h : 2 ≤ n) : stepAxis n l 0 1 = some 1 := by
  unfold stepAxis; simp; omega
theorem step_last_m1 (n : Int) (l : Bool) (h : 2 ≤ n) : stepAxis n l (n - 1) (-1) = some (n - 1 + -1) := by
  unfold stepAxis; simp; omega
theorem step_last_0 (n : Int) (l : Bool) (h : 2 ≤ n) : stepAxis n l (n - 1) 0 = some (n - 1) := by
  unfold stepAxis; simp; omega
theorem step_last_p1 (n : Int) (l : Bool) (h : 2 ≤ n) : stepAxis n l (n - 1) 1 = if l then some 0 else none := by
  unfold stepAxis; cases l <;> simp <;> omega
theorem step_mid (n : Int) (l : Bool) (x d : Int) (h0 : 0 < x) (h1 : x < n - 1) (hd : d = -1 ∨ d = 0 ∨ d = 1) :
    stepAxis n l x d = some (x + d) := by
  unfold stepAxis; rcases hd with rfl | rfl | rfl <;> simp <;> omega

theorem nb_first_first (rows cols : Int) (hr : 2 ≤ rows) (hc : 2 ≤ cols) (lv lh : Bool) :
    codeNbrs rows cols lv lh (0) (0) = geomNbrs rows cols lv lh (0) (0) := by
  have e1 : rows - 1 ≠ 0 := by omega
  have e2 : cols - 1 ≠ 0 := by omega
  have e5 : ¬ (-(rows - 1) = 0) := by omega
  have e6 : ¬ (-(cols - 1) = 0) := by omega
  cases lv <;> cases lh <;>
    simp [codeNbrs, geomNbrs, code, coded, offsQueen, dirsQueen, pick, List.filterMap_cons,
      step_first_m1 _ _ hr, step_first_0 _ _ hr, step_first_p1 _ _ hr, step_last_m1 _ _ hr, step_last_0 _ _ hr,
      step_last_p1 _ _ hr, step_first_m1 _ _ hc, step_first_0 _ _ hc, step_first_p1 _ _ hc, step_last_m1 _ _ hc,
      step_last_0 _ _ hc, step_last_p1 _ _ hc, e1, e2, e5, e6] <;>
    (try omega)

theorem nb_first_last (rows cols : Int) (hr : 2 ≤ rows) (hc : 2 ≤ cols) (lv lh : Bool) :
    codeNbrs rows cols lv lh (0) (cols - 1) = geomNbrs rows cols lv lh (0) (cols - 1) := by
  have e1 : rows - 1 ≠ 0 := by omega
  have e2 : cols - 1 ≠ 0 := by omega
  have e5 : ¬ (-(rows - 1) = 0) := by omega
  have e6 : ¬ (-(cols - 1) = 0) := by omega
  have n6 : ¬ cols - 1 = 0 := by omega
  cases lv <;> cases lh <;>
    simp [codeNbrs, geomNbrs, code, coded, offsQueen, dirsQueen, pick, List.filterMap_cons,
      step_first_m1 _ _ hr, step_first_0 _ _ hr, step_first_p1 _ _ hr, step_last_m1 _ _ hr, step_last_0 _ _ hr,
      step_last_p1 _ _ hr, step_first_m1 _ _ hc, step_first_0 _ _ hc, step_first_p1 _ _ hc, step_last_m1 _ _ hc,
      step_last_0 _ _ hc, step_last_p1 _ _ hc, n6, e1, e2, e5, e6] <;>
    (try omega)

theorem nb_first_mid (rows cols : Int) (hr : 2 ≤ rows) (hc : 2 ≤ cols) (lv lh : Bool) (c : Int) (hca : 0 < c) (hcb : c < cols - 1) :
    codeNbrs rows cols lv lh (0) (c) = geomNbrs rows cols lv lh (0) (c) := by
  have e1 : rows - 1 ≠ 0 := by omega
  have e2 : cols - 1 ≠ 0 := by omega
  have e5 : ¬ (-(rows - 1) = 0) := by omega
  have e6 : ¬ (-(cols - 1) = 0) := by omega
  have n3 : ¬ c = 0 := by omega
  have n4 : ¬ c = cols - 1 := by omega
  cases lv <;> cases lh <;>
    simp [codeNbrs, geomNbrs, code, coded, offsQueen, dirsQueen, pick, List.filterMap_cons,
      step_first_m1 _ _ hr, step_first_0 _ _ hr, step_first_p1 _ _ hr, step_last_m1 _ _ hr, step_last_0 _ _ hr,
      step_last_p1 _ _ hr, step_first_m1 _ _ hc, step_first_0 _ _ hc, step_first_p1 _ _ hc, step_last_m1 _ _ hc,
      step_last_0 _ _ hc, step_last_p1 _ _ hc, n3, n4, e1, e2, e5, e6] <;>
    (try simp [step_mid _ _ _ _ hca hcb]) <;>
    (try omega)

theorem nb_last_first (rows cols : Int) (hr : 2 ≤ rows) (hc : 2 ≤ cols) (lv lh : Bool) :
    codeNbrs rows cols lv lh (rows - 1) (0) = geomNbrs rows cols lv lh (rows - 1) (0) := by
  have e1 : rows - 1 ≠ 0 := by omega
  have e2 : cols - 1 ≠ 0 := by omega
  have e5 : ¬ (-(rows - 1) = 0) := by omega
  have e6 : ¬ (-(cols - 1) = 0) := by omega
  have n5 : ¬ rows - 1 = 0 := by omega
  cases lv <;> cases lh <;>
    simp [codeNbrs, geomNbrs, code, coded, offsQueen, dirsQueen, pick, List.filterMap_cons,
      step_first_m1 _ _ hr, step_first_0 _ _ hr, step_first_p1 _ _ hr, step_last_m1 _ _ hr, step_last_0 _ _ hr,
      step_last_p1 _ _ hr, step_first_m1 _ _ hc, step_first_0 _ _ hc, step_first_p1 _ _ hc, step_last_m1 _ _ hc,
      step_last_0 _ _ hc, step_last_p1 _ _ hc, n5, e1, e2, e5, e6] <;>
    (try omega)

theorem nb_last_last (rows cols : Int) (hr : 2 ≤ rows) (hc : 2 ≤ cols) (lv lh : Bool) :
    codeNbrs rows cols lv lh (rows - 1) (cols - 1) = geomNbrs rows cols lv lh (rows - 1) (cols - 1) := by
  have e1 : rows - 1 ≠ 0 := by omega
  have e2 : cols - 1 ≠ 0 := by omega
  have e5 : ¬ (-(rows - 1) = 0) := by omega
  have e6 : ¬ (-(cols - 1) = 0) := by omega
  have n5 : ¬ rows - 1 = 0 := by omega
  have n6 : ¬ cols - 1 = 0 := by omega
  cases lv <;> cases lh <;>
    simp [codeNbrs, geomNbrs, code, coded, offsQueen, dirsQueen, pick, List.filterMap_cons,
      step_first_m1 _ _ hr, step_first_0 _ _ hr, step_first_p1 _ _ hr, step_last_m1 _ _ hr, step_last_0 _ _ hr,
      step_last_p1 _ _ hr, step_first_m1 _ _ hc, step_first_0 _ _ hc, step_first_p1 _ _ hc, step_last_m1 _ _ hc,
      step_last_0 _ _ hc, step_last_p1 _ _ hc, n5, n6, e1, e2, e5, e6] <;>
    (try omega)

theorem nb_last_mid (rows cols : Int) (hr : 2 ≤ rows) (hc : 2 ≤ cols) (lv lh : Bool) (c : Int) (hca : 0 < c) (hcb : c < cols - 1) :
    codeNbrs rows cols lv lh (rows - 1) (c) = geomNbrs rows cols lv lh (rows - 1) (c) := by
  have e1 : rows - 1 ≠ 0 := by omega
  have e2 : cols - 1 ≠ 0 := by omega
  have e5 : ¬ (-(rows - 1) = 0) := by omega
  have e6 : ¬ (-(cols - 1) = 0) := by omega
  have n3 : ¬ c = 0 := by omega
  have n4 : ¬ c = cols - 1 := by omega
  have n5 : ¬ rows - 1 = 0 := by omega
  cases lv <;> cases lh <;>
    simp [codeNbrs, geomNbrs, code, coded, offsQueen, dirsQueen, pick, List.filterMap_cons,
      step_first_m1 _ _ hr, step_first_0 _ _ hr, step_first_p1 _ _ hr, step_last_m1 _ _ hr, step_last_0 _ _ hr,
      step_last_p1 _ _ hr, step_first_m1 _ _ hc, step_first_0 _ _ hc, step_first_p1 _ _ hc, step_last_m1 _ _ hc,
      step_last_0 _ _ hc, step_last_p1 _ _ hc, n3, n4, n5, e1, e2, e5, e6] <;>
    (try simp [step_mid _ _ _ _ hca hcb]) <;>
    (try omega)

theorem nb_mid_first (rows cols : Int) (hr : 2 ≤ rows) (hc : 2 ≤ cols) (lv lh : Bool) (r : Int) (hra : 0 < r) (hrb : r < rows - 1) :
    codeNbrs rows cols lv lh (r) (0) = geomNbrs rows cols lv lh (r) (0) := by
  have e1 : rows - 1 ≠ 0 := by omega
  have e2 : cols - 1 ≠ 0 := by omega
  have e5 : ¬ (-(rows - 1) = 0) := by omega
  have e6 : ¬ (-(cols - 1) = 0) := by omega
  have n1 : ¬ r = 0 := by omega
  have n2 : ¬ r = rows - 1 := by omega
  cases lv <;> cases lh <;>
    simp [codeNbrs, geomNbrs, code, coded, offsQueen, dirsQueen, pick, List.filterMap_cons,
      step_first_m1 _ _ hr, step_first_0 _ _ hr, step_first_p1 _ _ hr, step_last_m1 _ _ hr, step_last_0 _ _ hr,
      step_last_p1 _ _ hr, step_first_m1 _ _ hc, step_first_0 _ _ hc, step_first_p1 _ _ hc, step_last_m1 _ _ hc,
      step_last_0 _ _ hc, step_last_p1 _ _ hc, n1, n2, e1, e2, e5, e6] <;>
    (try simp [step_mid _ _ _ _ hra hrb]) <;>
    (try omega)

theorem nb_mid_last (rows cols : Int) (hr : 2 ≤ rows) (hc : 2 ≤ cols) (lv lh : Bool) (r : Int) (hra : 0 < r) (hrb : r < rows - 1) :
    codeNbrs rows cols lv lh (r) (cols - 1) = geomNbrs rows cols lv lh (r) (cols - 1) := by
  have e1 : rows - 1 ≠ 0 := by omega
  have e2 : cols - 1 ≠ 0 := by omega
  have e5 : ¬ (-(rows - 1) = 0) := by omega
  have e6 : ¬ (-(cols - 1) = 0) := by omega
  have n1 : ¬ r = 0 := by omega
  have n2 : ¬ r = rows - 1 := by omega
  have n6 : ¬ cols - 1 = 0 := by omega
  cases lv <;> cases lh <;>
    simp [codeNbrs, geomNbrs, code, coded, offsQueen, dirsQueen, pick, List.filterMap_cons,
      step_first_m1 _ _ hr, step_first_0 _ _ hr, step_first_p1 _ _ hr, step_last_m1 _ _ hr, step_last_0 _ _ hr,
      step_last_p1 _ _ hr, step_first_m1 _ _ hc, step_first_0 _ _ hc, step_first_p1 _ _ hc, step_last_m1 _ _ hc,
      step_last_0 _ _ hc, step_last_p1 _ _ hc, n1, n2, n6, e1, e2, e5, e6] <;>
    (try simp [step_mid _ _ _ _ hra hrb]) <;>
    (try omega)

theorem nb_mid_mid (rows cols : Int) (hr : 2 ≤ rows) (hc : 2 ≤ cols) (lv lh : Bool) (r : Int) (hra : 0 < r) (hrb : r < rows - 1) (c : Int) (hca : 0 < c) (hcb : c < cols - 1) :
    codeNbrs rows cols lv lh (r) (c) = geomNbrs rows cols lv lh (r) (c) := by
  have e1 : rows - 1 ≠ 0 := by omega
  have e2 : cols - 1 ≠ 0 := by omega
  have e5 : ¬ (-(rows - 1) = 0) := by omega
  have e6 : ¬ (-(cols - 1) = 0) := by omega
  have n1 : ¬ r = 0 := by omega
  have n2 : ¬ r = rows - 1 := by omega
  have n3 : ¬ c = 0 := by omega
  have n4 : ¬ c = cols - 1 := by omega
  cases lv <;> cases lh <;>
    simp [codeNbrs, geomNbrs, code, coded, offsQueen, dirsQueen, pick, List.filterMap_cons,
      step_first_m1 _ _ hr, step_first_0 _ _ hr, step_first_p1 _ _ hr, step_last_m1 _ _ hr, step_last_0 _ _ hr,
      step_last_p1 _ _ hr, step_first_m1 _ _ hc, step_first_0 _ _ hc, step_first_p1 _ _ hc, step_last_m1 _ _ hc,
      step_last_0 _ _ hc, step_last_p1 _ _ hc, n1, n2, n3, n4, e1, e2, e5, e6] <;>
    (try simp [step_mid _ _ _ _ hra hrb, step_mid _ _ _ _ hca hcb]) <;>
    (try omega)

theorem codeNbrs_eq_geom (rows cols : Int) (hr : 2 ≤ rows) (hc : 2 ≤ cols) (lv lh : Bool)
    (r c : Int) (hr0 : 0 ≤ r) (hr1 : r < rows) (hc0 : 0 ≤ c) (hc1 : c < cols) :
    codeNbrs rows cols lv lh r c = geomNbrs rows cols lv lh r c := by
  have hrcase : r = 0 ∨ r = rows - 1 ∨ (0 < r ∧ r < rows - 1) := by omega
  have hccase : c = 0 ∨ c = cols - 1 ∨ (0 < c ∧ c < cols - 1) := by omega
  rcases hrcase with rfl | rfl | ⟨hra, hrb⟩ <;> rcases hccase with rfl | rfl | ⟨hca, hcb⟩
  · exact nb_first_first rows cols hr hc lv lh
  · exact nb_first_last rows cols hr hc lv lh
  · exact nb_first_mid rows cols hr hc lv lh c hca hcb
  · exact nb_last_first rows cols hr hc lv lh
  · exact nb_last_last rows cols hr hc lv lh
  · exact nb_last_mid rows cols hr hc lv lh c hca hcb
  · exact nb_mid_first rows cols hr hc lv lh r hra hrb
  · exact nb_mid_last rows cols hr hc lv lh r hra hrb
  · exact nb_mid_mid rows cols hr hc lv lh r hra hrb c hca hcb

end Fs.Raster
