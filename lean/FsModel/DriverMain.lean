import FsModel.Driver

/-! Scenario loop of `fsmodel`. -/
namespace Fs.Driver
open Fs.Wire Fs.Flow

def mstStub (_ : Env F) (r : Run) (_ : Nat) (_ : List (Nat × List Nat)) (_ _ : Bool) : Run := r

def runCall (st : St) (c : Call) : St × List String :=
  match c.toks with
  | "grid" :: _ => (st, ["O grid ok"])
  | "graph" :: _ => callGraph c st
  | "set_mask" :: _ => (st, ["O set_mask ok"])
  | "set_base" :: _ => (st, ["O set_base ok"])
  | "set_param" :: _ => (st, ["O set_param ok"])
  | "update" :: _ => callUpdate c st mstStub
  | "acc" :: _ => (st, callAcc "" c st.topo.n st.g)
  | "basins" :: _ => (st, callBasins "" st.topo.n st.g st.mask st.isBase)
  | _ => (st, ["O model-unsupported"])

/-- group transcript lines into scenarios and calls -/
partial def loop (h : IO.FS.Stream) (out : IO.FS.Stream) (st : St) (cur : Option Call) : IO Unit := do
  let l ← h.getLine
  let flush (st : St) (cur : Option Call) : IO St := do
    match cur with
    | none => pure st
    | some c =>
      let (st', outs) := runCall st c
      out.putStrLn ("C " ++ toString c.li ++ " " ++ c.toks.headD "")
      for o in outs do out.putStrLn o
      pure st'
  if l.isEmpty then
    let _ ← flush st cur
    return ()
  match toks (l.trimAscii.toString) with
  | "S" :: id :: _ =>
    let _ ← flush st cur
    out.putStrLn ("S " ++ id)
    loop h out {} none
  | "E" :: id :: _ =>
    let _ ← flush st cur
    out.putStrLn ("E " ++ id)
    loop h out {} none
  | "C" :: li :: rest =>
    let st' ← flush st cur
    loop h out st' (some { li := natOf li, toks := rest, inp := [] })
  | "I" :: rest =>
    loop h out st (cur.map (fun c => { c with inp := c.inp ++ [rest] }))
  | _ => loop h out st cur

def main (args : List String) : IO Unit := do
  let out ← IO.getStdout
  match args with
  | [path] =>
    let hd ← IO.FS.Handle.mk path .read
    loop (IO.FS.Stream.ofHandle hd) out {} none
  | _ => loop (← IO.getStdin) out {} none

end Fs.Driver
