import FsModel.Driver
import FsModel.DriverGrid
import FsModel.Mst
import FsModel.MstCert
import FsModel.UnionFind
import FsModel.Spl
import FsModel.Blocks
import FsModel.PassCheck

/-! Scenario loop of `fsmodel`. -/
namespace Fs.Driver
open Fs.Wire Fs.Flow

def mstHook (env : Env F) (r : Run) (k : Nat) (perms : List (Nat × List Nat)) (boruvka carve : Bool) : Run :=
  let perm := ((perms.find? (·.1 == k)).map (·.2)).getD []
  let o := Fs.Mst.resolve S env r.g r.elev boruvka carve perm Fs.Gen.maxLowDegree
  -- certificate for the spanning tree this resolver run used (either method): the raw tree is a
  -- minimum-weight spanning forest of the lowest-pass edges (`certOk_sound`) and keeps every
  -- virtual root edge - the two tree facts `resolve_c01_tree` / `resolve_le_of_low` assume
  let n := env.topo.n
  let b := basins n r.g env.mask env.isBase
  let note : List String :=
    if b.pits.isEmpty then []
    else
      let cb := Fs.Mst.connectBasins S env.topo env.mask env.isBase (recv0 r.g) r.g.dfs (look b.labels 0) b.outlets r.elev
      let nb := b.outlets.length
      let tree0 := if boruvka then Fs.Mst.boruvka S nb cb.edges Fs.Gen.maxLowDegree else Fs.Mst.kruskal nb cb.edges perm
      let virt := (List.range cb.edges.size).filter (fun i => match cb.edges[i]? with
        | some ed => ed.p0 == Fs.Mst.none | Option.none => false)
      let ok := Fs.Mst.certOk S nb cb.edges tree0 && virt.all (fun i => tree0.contains i)
      [line "cert_mst" (if ok then "1" else "0")]
  { r with g := o.g, elev := look o.elev 0.0, hang := r.hang || o.hang, notes := r.notes ++ note }

/-- `bgraph <k|b> <elev…> [reps]`: basin graph built directly on the current single-direction graph -/
def callBgraph (c : Call) (st : St) : List String :=
  let n := st.topo.n
  let g := st.g
  let b := basins n g st.mask st.isBase
  let f := fromList 0.0 (((findInp c "bg_elev").getD []).map hexF)
  let perm := ((findInps c "perm").headD []).tail.map natOf
  let useB := c.toks.getD 1 "k" == "b"
  let bg0 := Fs.Mst.basinGraph S st.topo st.mask st.isBase (recv0 g) g.dfs (look b.labels 0) b.outlets f useB perm
    Fs.Gen.maxLowDegree
  -- Kruskal: the tree printed here comes from the statement-by-statement model of the C++
  -- union-find (`Fs.UF.kruskalUF`: two-pass path compression, union by rank), which
  -- `Fs.C15.kruskalUF_eq` proves equal to the class-map Kruskal all theorems are about
  let bg : Fs.Mst.BG F :=
    if useB then bg0
    else
      let cbk := Fs.Mst.connectBasins S st.topo st.mask st.isBase (recv0 g) g.dfs (look b.labels 0) b.outlets f
      let o := Fs.Mst.orient b.outlets.length cbk.edges (Fs.UF.kruskalUF b.outlets.length cbk.edges perm) cbk.root
      { bg0 with edges := o.1, tree := o.2 }
  let sgn (x : Nat) : String := if x = Fs.Mst.none then "-1" else toString x
  -- certificate (soundness: `Fs.C15.certOk_sound`): the raw tree of the chosen method, before
  -- orientation, is a minimum-weight spanning forest of the lowest-pass edges
  let cb := Fs.Mst.connectBasins S st.topo st.mask st.isBase (recv0 g) g.dfs (look b.labels 0) b.outlets f
  let nb := b.outlets.length
  let tree0 := if useB then Fs.Mst.boruvka S nb cb.edges Fs.Gen.maxLowDegree else Fs.Mst.kruskal nb cb.edges perm
  let cert := Fs.Mst.certOk S nb cb.edges tree0
  -- the same checker on the edge array and the final tree the implementation reported
  -- (`I impl_bg_edges`, `I impl_bg_tree`; soundness: `Fs.C15.certImpl_sound`)
  let rec parseE : List String → List (Fs.Mst.BEdge F)
    | a :: b2 :: p0 :: p1 :: pe :: pl :: rest =>
      let sg (x : String) : Nat := if x == "-1" then Fs.Mst.none else natOf x
      { l0 := natOf a, l1 := natOf b2, p0 := sg p0, p1 := sg p1, pe := hexF pe, pl := hexF pl } :: parseE rest
    | _ => []
  let certI : List String := match findInp c "impl_bg_edges", findInp c "impl_bg_tree" with
    | some ev, some tv =>
      let ie := (parseE ev).toArray
      -- lowest passes on the edge array the implementation reported (after orient_edges: every clause
      -- is checked up to the swap of an edge's ends); soundness `Fs.ImplCheck.checkPasses_sound`
      let passes := Fs.ImplCheck.checkPasses S (fun a b => a.toBits == b.toBits) n st.topo.nbrs st.mask st.isBase
        (look b.labels 0) b.outlets f ie
      [line "bg_cert_impl" (if Fs.Mst.certImpl S nb ie (tv.map natOf) cb.root then "1" else "0"),
       line "bg_cert_passes" (if passes then "1" else "0")]
    | _, _ => []
  certI ++
  [ line "bg_cert" (if cert then "1" else "0"),
    line "bg_outlets" (joinNats b.outlets),
    line "bg_edges" (" ".intercalate (bg.edges.toList.map (fun e =>
      toString e.l0 ++ " " ++ toString e.l1 ++ " " ++ sgn e.p0 ++ " " ++ sgn e.p1 ++ " " ++ fHex e.pe ++ " " ++ fHex e.pl))),
    line "bg_tree" (joinNats bg.tree) ]

/-- `mstraw nb ne (l0 l1 w)*`: Kruskal (the union-find transcription `Fs.UF.kruskalUF`, on the
permutation `std::sort` produced, echoed as `I rawperm`) and Boruvka on a SYNTHETIC basin graph;
certificates (`certOk`, soundness `Fs.C15.certOk_sound`) on the model's trees and on the trees the
implementation reported (`I impl_raw_k`, `I impl_raw_b`) -/
def callMstRaw (c : Call) : List String :=
  let nb := natOf (c.toks.getD 1 "0")
  let ne := natOf (c.toks.getD 2 "0")
  let rec parseE : Nat → List String → List (Fs.Mst.BEdge F)
    | 0, _ => []
    | k + 1, a :: b :: w :: rest =>
      { l0 := natOf a, l1 := natOf b, p0 := 0, p1 := 0, pe := hexF w, pl := 1.0 } :: parseE k rest
    | _, _ => []
  let edges := (parseE ne (c.toks.drop 3)).toArray
  let perm := ((findInp c "rawperm").getD []).map natOf
  let permOk := Fs.Mst.validPerm S edges perm
  let tk := Fs.UF.kruskalUF nb edges perm
  let tb := Fs.Mst.boruvka S nb edges Fs.Gen.maxLowDegree
  let b01 (b : Bool) : String := if b then "1" else "0"
  let certI : List String :=
    (match findInp c "impl_raw_k" with
      | some tv => [line "cert_raw_impl_k" (b01 (Fs.Mst.certOk S nb edges (tv.map natOf)))]
      | none => []) ++
    (match findInp c "impl_raw_b" with
      | some tv => [line "cert_raw_impl_b" (b01 (Fs.Mst.certOk S nb edges (tv.map natOf)))]
      | none => [])
  certI ++
  [ line "cert_raw_perm" (b01 permOk),
    line "cert_raw_k" (b01 (Fs.Mst.certOk S nb edges tk)),
    line "cert_raw_b" (b01 (Fs.Mst.certOk S nb edges tb)),
    line "raw_k" (joinNats tk),
    line "raw_b" (joinNats tb),
    line "raw_b2" (joinNats tb) ]

/-- `spl`: the harness echoes every parameter in `I spl kind K… m n tol dt area… elev…` -/
def callSpl (c : Call) (st : St) : List String :=
  let n := st.topo.n
  match findInp c "spl" with
  | some (kind :: rest) =>
    let nk := if kind == "s" then 1 else n
    let ks := (rest.take nk).map hexF
    let kcoef : Nat → F := if kind == "s" then fun _ => ks.headD 0.0 else fromList 0.0 ks
    let r := (rest.drop nk).map hexF
    let m := r.getD 0 0.0
    let nn := r.getD 1 0.0
    let tol := r.getD 2 0.0
    let dt := r.getD 3 0.0
    let area := fromList 0.0 ((r.drop 4).take n)
    let elev := fromList 0.0 ((r.drop (4 + n)).take n)
    let eps : F := Float.ofBits 0x3cb0000000000000
    let linear := Fs.Spl.isLinear S Fs.Gen.splLinearForm eps nn
    let isSingle := match Fs.OpSeq.build (st.ops.map flagsOf) with
      | some acc => acc.outDir == .single
      | none => true
    if !linear && !isSingle then ["O spl err invalid_argument"]
    else
      -- setter calls on the fresh eroder (`set:n:<v>`, `set:m:<v>`): the setters ASSIGN first and
      -- validate afterwards (set_slope_exp refuses a non-linear exponent on a multiple-direction
      -- graph but keeps the value); after a refused call nothing is eroded
      let sets := c.toks.filter (fun t => t.startsWith "set:")
      let (mE, nE, kE, outs, rej) := sets.zipIdx.foldl (fun (acc : F × F × Option F × List String × Bool) ti =>
        let (mA, nA, kA, o, rj) := acc
        let (t, i) := ti
        match t.splitOn ":" with
        | [_, "n", v] =>
          let v := hexF v
          let lin := Fs.Spl.isLinear S Fs.Gen.splLinearForm eps v
          if !lin && !isSingle then (mA, v, kA, o ++ ["O splset" ++ toString i ++ " err invalid_argument"], true)
          else (mA, v, kA, o ++ ["O splset" ++ toString i ++ " ok"], rj)
        | [_, "m", v] => (hexF v, nA, kA, o ++ ["O splset" ++ toString i ++ " ok"], rj)
        | [_, "k", v] => (mA, nA, some (hexF v), o ++ ["O splset" ++ toString i ++ " ok"], rj)
        | _ => (mA, nA, kA, o ++ ["O model-bad-setter"], rj)) (m, nn, none, [], false)
      let kcoef : Nat → F := match kE with | some v => fun _ => v | none => kcoef
      let effLine := if sets.isEmpty then [] else [line "spl_eff" (joinF [mE, nE])]
      if rej then ["O spl_new 1"] ++ outs ++ effLine
      else
        let linearE := Fs.Spl.isLinear S Fs.Gen.splLinearForm eps nE
        let (ero, nc, hang) := Fs.Spl.erode S linearE Fs.Gen.splNewtonTwoSided n st.g kcoef dt mE nE tol area elev
        if hang then ["O hang"]
        else (if sets.isEmpty then [] else ["O spl_new 1"]) ++ outs ++ effLine ++ [ line "erosion" (joinF ero.toList), line "ncorr" (toString nc) ]
  | _ => ["O model-bad-spl"]

/-- `kernel <bfs|dfs|any> <threads> <min_block> <min_level>`: the harness kernel computes, along
the requested upstream order, 1 + the largest value among the node's proper receivers (0 at
terminal nodes) - the longest downstream path; for `any` the value is index + 1.  The result does
not depend on the thread count or the thresholds; a multi-threaded depth-first application is
refused. -/
def callKernel (c : Call) (st : St) : List String :=
  let n := st.topo.n
  let dir := c.toks.getD 1 "bfs"
  let threads := natOf (c.toks.getD 2 "1")
  -- one node data per worker (one for the sequential application), each created once and freed once
  let nd := if threads > 1 then threads else 1
  let knodes := line "knodes" (toString nd ++ " " ++ toString nd)
  if threads > 1 && dir == "dfs" then ["O kernel err runtime_error"]
  else if dir == "any" then [line "kernel" (joinF ((List.range n).map (fun i => Float.ofNat (i + 1)))), "O kvisits 1", knodes]
  else
    -- bottom-up order: every receiver before its donors (dfs for single, reversed Kahn for multi)
    let val : Array Float := st.g.dfs.foldl (fun (v : Array Float) i =>
      let best := (st.g.recv i).foldl (fun (b : Float) r => if r == i then b else
        let vr := v.getD r (-1.0)
        let vr := if vr < 0.0 then 1e9 else vr
        if b < vr then vr else b) (-1.0)
      v.setIfInBounds i (best + 1.0)) (Array.replicate n (-1.0))
    [line "kernel" (joinF val.toList), "O kvisits 1", knodes]

/-! ### worker pool: block arithmetic and API programs -/

def blocksLine (pre : String) (first last n mn : Nat) : String :=
  let b := Fs.mkBlocks first last n mn
  line pre (" ".intercalate ((toString b.nb) :: (List.range b.nb).flatMap (fun k => [toString (b.start k), toString (b.stop k)])))

/-- `pool N [schedule tokens] prog…`: what every run must report whatever the schedule -/
def poolProg (toks : List String) : List String :=
  match toks with
  | _ :: n :: rest =>
    let prog := rest.filter (fun t => !(t.startsWith "d:" || t.startsWith "rand:" || t.startsWith "sp:"))
    let (outs, _, _) := prog.foldl (fun (acc : List String × Nat × Nat) op =>
      let (outs, size, runs) := acc
      match op.splitOn ":" with
      | ["run", f, l, mn] =>
        let first := natOf f
        let last := natOf l
        let ls := if last > first then
            [blocksLine ("run" ++ toString runs) first last size (natOf mn), line ("run" ++ toString runs ++ "_once") "1"]
          else [line ("run" ++ toString runs) "0", line ("run" ++ toString runs ++ "_once") "1"]
        (outs ++ ls, size, runs + 1)
      | ["pause"] => (outs ++ ["O pause_paused 1"], size, runs)
      | ["resume"] => (outs ++ ["O resume_paused 0"], size, runs)
      | ["resize", m] => (outs ++ [line "resize_size" m], natOf m, runs)
      | ["stop"] => (outs ++ ["O stop_stopped 1"], size, runs)
      | _ => (outs ++ ["O model-bad-pool-op"], size, runs)) ([], natOf n, 0)
    outs ++ ["O pool_done 1"]
  | _ => ["O model-bad-pool"]

structure DSt where
  st : St := {}
  grid : GridSpec := .none
  gridOk : Bool := true

/-- the model's own neighbour lists must agree with the topology the real grid reported -/
def topoAgrees (g : GridSpec) (st : St) : Bool :=
  match g with
  | .none | .mesh .. => true
  | _ => (List.range st.topo.n).all fun i =>
      let a := st.topo.nbrs i
      let idx := g.nbIdx i
      let d := g.nbDist i
      a.length == idx.length && (a.zip (idx.zip d)).all (fun p => p.1.1 == p.2.1 && p.1.2.toBits == p.2.2.toBits)

def runFlowOk (st : St) (c : Call) : St × List String :=
  match c.toks with
  | "set_mask" :: _ => (st, ["O set_mask ok"])
  | "set_base" :: _ => (st, ["O set_base ok"])
  | "set_param" :: _ => (st, ["O set_param ok"])
  | "update" :: _ => callUpdate c st mstHook
  | "update_again" :: _ =>
    -- update_routes handed the array it returned last time: the same as an update with a copy of
    -- those values (echoed by the harness as `I elev`); "nothing returned yet" is a no-op
    match findInp c "elev" with
    | some ev =>
      let (st', outs) := callUpdate { c with toks := "update" :: ev } st mstHook
      (st', outs.filter (fun l => !(l.startsWith "O input_unchanged" || l.startsWith "O same_array")))
    | none => (st, ["O update_again none"])
  | "acc" :: _ => (st, callAcc "" c st.topo.n st.g)
  | "basins" :: _ => (st, callBasins "" st.topo.n st.g st.mask st.isBase ++ certBasins c st)
  | "pits" :: _ =>
    -- outlets of the last delineation, pits judged against the base levels in force NOW
    let seeds := ((findInp c "seeds").getD []).map natOf
    let isBase := fromList false ((List.range st.topo.n).map (fun i => seeds.contains i))
    let b := basins st.topo.n st.g st.mask isBase
    (st, [line "outlets" (joinNats b.outlets), line "pits" (joinNats b.pits)])
  | "bgraph" :: _ => (st, callBgraph c st)
  | "mstraw" :: _ => (st, callMstRaw c)
  | "spl" :: _ => (st, callSpl c st)
  | "kernel" :: _ => (st, callKernel c st)
  | "snapcall" :: nm :: what :: rest =>
    let refused (k : Nat) (lbl : String) : List String :=
      -- a snapshot graph is read-only: the guard must be present in the mutator and the snapshot
      -- constructed non-writeable
      if Fs.Gen.writeGuards.getD k false && !Fs.Gen.snapshotWriteable then ["O " ++ lbl ++ " err runtime_error"]
      else ["O " ++ lbl ++ " ok"]
    match st.snaps.find? (·.name == nm) with
    | none => (st, ["O snapcall nosnap"])
    | some sn =>
      let pre := "snap:" ++ nm ++ ":"
      if what == "acc" then (st, callAcc pre { c with toks := "acc" :: rest } st.topo.n sn.g)
      else if what == "basins" then (st, callBasins pre st.topo.n sn.g sn.mask sn.isBase)
      else if what == "set_mask" then (st, refused 2 "set_mask")
      else if what == "set_base" then (st, refused 1 "set_base")
      else (st, refused 0 "snap_update")
  | _ => (st, ["O model-unsupported"])

def runFlow (st : St) (c : Call) : St × List String :=
  match c.toks with
  | "graph" :: _ => callGraph c st
  | cmd :: _ =>
    if !st.graphOk then (st, ["O " ++ cmd ++ " nograph"]) else runFlowOk st c
  | [] => (st, ["O model-unsupported"])

def runCall (d : DSt) (c : Call) : DSt × List String :=
  match c.toks with
  | "grid" :: _ =>
    match parseGrid c.toks with
    | .ok g => ({ d with grid := g, gridOk := true }, ["O grid ok"])
    | .error e => ({ d with gridOk := false }, ["O grid err " ++ e.name])
  | "grid_common" :: _ => (d, gridCommon d.grid)
  | ["q", kind, i] => (d, gridQuery d.grid kind (natOf i))
  | ["qr", kind, i] => (d, gridQueryR d.grid kind (natOf i))
  | ["iter", which, dir] => (d, gridIter d.grid which dir)
  | "adi" :: _ => (d, gridAdi d.grid c.toks)
  | ["blocks", f, l, n, mn] => (d, [blocksLine "blocks" (natOf f) (natOf l) (natOf n) (natOf mn)])
  | "pool" :: _ => (d, poolProg c.toks)
  | "graph" :: _ =>
    let (st', outs) := runFlow d.st c
    ({ d with st := st' }, [line "topo_model_agrees" (if topoAgrees d.grid st' then "1" else "0")] ++ outs)
  | _ =>
    let (st', outs) := runFlow d.st c
    ({ d with st := st' }, outs)

/-- group transcript lines into scenarios and calls -/
partial def loop (h : IO.FS.Stream) (out : IO.FS.Stream) (st : DSt) (cur : Option Call) : IO Unit := do
  let l ← h.getLine
  let flush (st : DSt) (cur : Option Call) : IO DSt := do
    match cur with
    | none => pure st
    | some c =>
      let (st', outs) := runCall st c
      out.putStrLn ("C " ++ toString c.li ++ " " ++ c.toks.headD "")
      for o in outs do out.putStrLn o
      pure st'
  if l.isEmpty then
    let _ ← flush st cur
    return ()
  match toks (l.trimAscii.toString) with
  | "S" :: id :: _ =>
    let _ ← flush st cur
    out.putStrLn ("S " ++ id)
    loop h out {} none
  | "E" :: id :: _ =>
    let _ ← flush st cur
    out.putStrLn ("E " ++ id)
    loop h out {} none
  | "C" :: li :: rest =>
    let st' ← flush st cur
    loop h out st' (some { li := natOf li, toks := rest, inp := [] })
  | "I" :: rest =>
    loop h out st (cur.map (fun c => { c with inp := c.inp ++ [rest] }))
  | _ => loop h out st cur

def main (args : List String) : IO Unit := do
  let out ← IO.getStdout
  match args with
  | [path] =>
    let hd ← IO.FS.Handle.mk path .read
    loop (IO.FS.Stream.ofHandle hd) out {} none
  | _ => loop (← IO.getStdin) out {} none

end Fs.Driver
