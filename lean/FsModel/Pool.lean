/-! Thread-pool protocol prototype: transition system + lost wake-up counterexample. -/
namespace Fs.Pool

structure Cfg where
  notifyUnderMutex : Bool      -- generated from thread_pool_inl.hpp
deriving DecidableEq, Repr

inductive Job | none | block (k : Nat) | pause
deriving DecidableEq, Repr

inductive WPc | idle | runBlock (k : Nat) | pLock | pInc | pWaitEnter | pWaiting | pReacquire | pDec | clear | exited
deriving DecidableEq, Repr

/-- caller micro-steps -/
inductive CPc
  | setJobs (pauseJobs : Bool)   -- set_tasks(...)
  | publish (k : Nat)            -- run_tasks: store flag k (if job k non-null), then k+1
  | waitScan                     -- wait(): spin until all flags are 0
  | setPaused                    -- m_paused = true
  | spinCount                    -- while (m_paused_count != m_size)
  | resLock | resNotify | resUnlock | resClear   -- resume()
deriving DecidableEq, Repr

inductive Op | runBlocks | pause | resume
deriving DecidableEq, Repr

structure S where
  flags : List Bool
  jobs : List Job
  w : List WPc
  notified : List Bool          -- pending notification for a waiter
  count : Nat
  mutex : Option Nat            -- some i = worker i, some N = caller
  paused : Bool
  cpc : List CPc                -- remaining micro-steps of the current op
  ops : List Op                 -- remaining API calls
  log : List Nat                -- executed block callbacks
deriving DecidableEq, Repr

def N (s : S) : Nat := s.w.length

def expand (cfg : Cfg) (s : S) : Op → S
  | .runBlocks =>
    { s with cpc := [CPc.setJobs false] ++ (List.range s.w.length).map CPc.publish ++ [CPc.waitScan] }
  | .pause => if s.paused then s else
    { s with cpc := [CPc.waitScan, CPc.setJobs true] ++ (List.range s.w.length).map CPc.publish
                     ++ [CPc.setPaused, CPc.spinCount] }
  | .resume => if !s.paused then s else
    { s with cpc := (if cfg.notifyUnderMutex then [CPc.resLock, CPc.resNotify, CPc.resUnlock]
                     else [CPc.resNotify]) ++ [CPc.resClear, CPc.waitScan] }

def setAt {β} (l : List β) (i : Nat) (v : β) : List β := l.set i v

/-- one step of worker `i`; `none` = not enabled -/
def stepW (s : S) (i : Nat) : Option S :=
  match s.w[i]? with
  | none => none
  | some pc =>
    match pc with
    | .idle =>
      if s.flags.getD i false then
        match s.jobs.getD i .none with
        | .block k => some { s with w := setAt s.w i (.runBlock k) }
        | .pause => some { s with w := setAt s.w i .pLock }
        | .none => some { s with w := setAt s.w i .clear }
      else none                                   -- spinning: no state change
    | .runBlock k => some { s with log := s.log ++ [k], w := setAt s.w i .clear }
    | .pLock => if s.mutex.isNone then some { s with mutex := some i, w := setAt s.w i .pInc } else none
    | .pInc => some { s with count := s.count + 1, w := setAt s.w i .pWaitEnter }
    | .pWaitEnter => some { s with mutex := none, notified := setAt s.notified i false, w := setAt s.w i .pWaiting }
    | .pWaiting => if s.notified.getD i false then some { s with w := setAt s.w i .pReacquire } else none
    | .pReacquire => if s.mutex.isNone then some { s with mutex := some i, w := setAt s.w i .pDec } else none
    | .pDec => some { s with count := s.count - 1, mutex := none, w := setAt s.w i .clear }
    | .clear => some { s with flags := setAt s.flags i false, w := setAt s.w i .idle }
    | .exited => none

/-- one step of the caller -/
def stepC (cfg : Cfg) (s : S) : Option S :=
  match s.cpc with
  | [] => match s.ops with
    | [] => none
    | op :: rest => some (expand cfg { s with ops := rest } op)
  | pc :: rest =>
    match pc with
    | .setJobs p =>
      some { s with jobs := if p then List.replicate s.w.length Job.pause
                            else (List.range s.w.length).map Job.block, cpc := rest }
    | .publish k =>
      some { s with flags := (if (s.jobs.getD k .none) = .none then s.flags else setAt s.flags k true), cpc := rest }
    | .waitScan => if s.flags.all (· == false) then some { s with cpc := rest } else none
    | .setPaused => some { s with paused := true, cpc := rest }
    | .spinCount => if s.count = s.w.length then some { s with cpc := rest } else none
    | .resLock => if s.mutex.isNone then some { s with mutex := some s.w.length, cpc := rest } else none
    | .resNotify =>
      -- notify_all wakes exactly the workers that are inside wait now
      some { s with notified := (List.range s.w.length).map (fun i => s.notified.getD i false || s.w[i]? == some .pWaiting),
                    cpc := rest }
    | .resUnlock => some { s with mutex := none, cpc := rest }
    | .resClear => some { s with paused := false, cpc := rest }

/-- pause() publishes the pause jobs: model `set_tasks(m_pause_jobs)` at the first publish -/
def stepC' (cfg : Cfg) (s : S) : Option S :=
  match s.cpc, s.ops with
  | _, _ => stepC cfg s

def step (cfg : Cfg) (s : S) (t : Nat) : Option S :=
  if t = s.w.length then stepC' cfg s else stepW s t

def init (n : Nat) (ops : List Op) : S :=
  { flags := List.replicate n false, jobs := List.replicate n .none, w := List.replicate n .idle,
    notified := List.replicate n false, count := 0, mutex := none, paused := false, cpc := [], ops, log := [] }

def finished (s : S) : Bool := s.cpc.isEmpty && s.ops.isEmpty

def runTrace (cfg : Cfg) (s : S) : List Nat → Option S
  | [] => some s
  | t :: ts => match step cfg s t with
    | none => none
    | some s' => runTrace cfg s' ts

/-- no thread can move and the caller has not finished -/
def stuck (cfg : Cfg) (s : S) : Bool :=
  !finished s && (List.range (s.w.length + 1)).all (fun t => (step cfg s t).isNone)


open Op in
/-- the lost wake-up of the unchanged code, one worker: the caller resumes while the worker is
between "count me as paused" and `wait` (thread ids: 0 = worker, 1 = caller) -/
def lostWakeupTrace : List Nat :=
  [1,            -- start pause(): expand
   1, 1, 1,      -- waitScan, setJobs pause, publish 0
   0, 0, 0,      -- worker: sees flag, takes the mutex, ++count        (now at pWaitEnter)
   1, 1,         -- caller: m_paused = true ; count == size -> pause() returns
   1, 1, 1,      -- resume(): expand, notify_all (nobody waits yet), m_paused = false
   0]            -- worker finally enters wait: nobody will ever notify it

example : (runTrace ⟨false⟩ (init 1 [Op.pause, Op.resume]) lostWakeupTrace).map (stuck ⟨false⟩) = some true := by
  decide

/-- with the notification issued under the mutex the same schedule is not even executable:
the caller blocks on the mutex until the worker is inside `wait` -/
example : runTrace ⟨true⟩ (init 1 [Op.pause, Op.resume]) lostWakeupTrace = none := by decide

/-- bounded sanity exploration (a test, not a proof): number of reachable states and whether any is stuck -/
partial def explore (cfg : Cfg) (frontier : List S) (seen : List S) : Nat × Bool :=
  match frontier with
  | [] => (seen.length, false)
  | s :: rest =>
    if stuck cfg s then (seen.length, true) else
    let succs := (List.range (s.w.length + 1)).filterMap (step cfg s)
    let new := succs.filter (fun x => !(seen.contains x) && !(rest.contains x))
    explore cfg (rest ++ new.eraseDups) (seen ++ new.eraseDups)

#eval explore ⟨false⟩ [init 2 [Op.runBlocks, Op.pause, Op.resume, Op.runBlocks, Op.pause]] []
#eval explore ⟨true⟩ [init 2 [Op.runBlocks, Op.pause, Op.resume, Op.runBlocks, Op.pause]] []

end Fs.Pool
