import FsModel.Basic
import FsModel.Blocks
import FsModel.Commute

/-! # Flow kernels: sequential and parallel application (model of `apply_kernel_seq` /
`apply_kernel_par`, flow_graph_inl.hpp)

Memory is `Nat → V`, one location per node (the node's slice of the kernel data).  The step for
node `i` (`node_data_getter(i)`, `func`, `node_data_setter(i)`) reads the node's own value and the
values of its receivers and writes the node's own value.

* `seqRun` — `apply_kernel_seq`: the node steps in the given order (`bfs_indices`, i.e. the
  flattened breadth-first levels);
* `levelTasks` — what `apply_kernel_par` dispatches for one level: a single task run by the caller
  when the level is smaller than `min_level_size`, otherwise one task per block of
  `thread_pool::run_blocks` (`Fs.mkBlocks`), each task = the node steps of its index range in order;
* `parRun` — the whole parallel application: the levels one after the other (barrier =
  `run_blocks` returns only when every block is done), inside a level an arbitrary interleaving
  `σ` of the tasks' steps (`Fs.Commute.runSched`), required to be complete.

Core Lean only. -/
namespace Fs.Kernel
open Fs.Commute

variable {V : Type}

/-- a flow kernel: new value of node `i` from its own value and its receivers' values (row order) -/
structure Kern (V : Type) where
  f : Nat → V → List V → V

/-- the step of node `i`: read `{i} ∪ recvs i`, write `{i}` -/
def nodeAction (k : Kern V) (recvs : Nat → List Nat) (i : Nat) : Action V where
  act := fun m l => if l = i then k.f i (m i) ((recvs i).map m) else m l
  R := fun l => l = i ∨ l ∈ recvs i
  W := fun l => l = i
  frame := by
    intro m l h
    exact if_neg h
  det := by
    intro m m' h l hl
    have hl' : l = i := hl
    subst hl'
    have h1 : m l = m' l := h l (Or.inl rfl)
    have h2 : (recvs l).map m = (recvs l).map m' :=
      List.map_congr_left (fun r hr => h r (Or.inr hr))
    simp only [if_true, h1, h2]

/-- sequential application: the node steps in the given order -/
def seqRun (k : Kern V) (recvs : Nat → List Nat) (order : List Nat) (m : Nat → V) : Nat → V :=
  order.foldl (fun m i => (nodeAction k recvs i).act m) m

/-- the task "process the nodes `ns` in order" (the body of the `run` lambda for one index range);
its footprint is the union of the footprints of its steps -/
def nodesTask (k : Kern V) (recvs : Nat → List Nat) (ns : List Nat) : Fs.Commute.Task V where
  steps := ns.map (nodeAction k recvs)
  R := fun l => ∃ i, i ∈ ns ∧ (l = i ∨ l ∈ recvs i)
  W := fun l => l ∈ ns
  subR := by
    intro a ha l hl
    obtain ⟨i, hi, rfl⟩ := List.mem_map.mp ha
    exact ⟨i, hi, hl⟩
  subW := by
    intro a ha l hl
    obtain ⟨i, hi, rfl⟩ := List.mem_map.mp ha
    have : l = i := hl
    exact this ▸ hi

/-- the node lists of the blocks of `run_blocks(0, lvl.length, run, minBlock)`:
block `j` holds `lvl[start j .. stop j)` -/
def blockSlices (lvl : List Nat) (poolSize minBlock : Nat) : List (List Nat) :=
  let b := Fs.mkBlocks 0 lvl.length poolSize minBlock
  (List.range b.nb).map (fun j => (lvl.take (b.stop j)).drop (b.start j))

/-- the node lists run concurrently for one level: the whole level on the caller when it is
smaller than `minLevel`, its blocks otherwise -/
def levelSlices (lvl : List Nat) (poolSize minBlock minLevel : Nat) : List (List Nat) :=
  if lvl.length < minLevel then [lvl] else blockSlices lvl poolSize minBlock

/-- the tasks of one level -/
def levelTasks (k : Kern V) (recvs : Nat → List Nat) (lvl : List Nat)
    (poolSize minBlock minLevel : Nat) : List (Fs.Commute.Task V) :=
  (levelSlices lvl poolSize minBlock minLevel).map (nodesTask k recvs)

/-- every task has run all its steps -/
def complete (ts : List (Fs.Commute.Task V)) (s : St V) : Bool :=
  (List.range ts.length).all (fun j =>
    match ts[j]? with
    | some t => s.pc j == t.steps.length
    | none => true)

/-- one level under the interleaving `σ` (a list of task indices, one entry per step taken):
`none` if `σ` asks a finished or non-existent task to step, or stops before every task is done -/
def runLevel (k : Kern V) (recvs : Nat → List Nat) (poolSize minBlock minLevel : Nat)
    (lvl : List Nat) (σ : List Nat) (m : Nat → V) : Option (Nat → V) :=
  match runSched (levelTasks k recvs lvl poolSize minBlock minLevel) σ { mem := m, pc := fun _ => 0 } with
  | none => none
  | some s =>
    if complete (levelTasks k recvs lvl poolSize minBlock minLevel) s then some s.mem else none

/-- parallel application: the levels in turn, level `n` under the interleaving `σs[n]` -/
def parRun (k : Kern V) (recvs : Nat → List Nat) (poolSize minBlock minLevel : Nat) :
    List (List Nat) → List (List Nat) → (Nat → V) → Option (Nat → V)
  | [], _, m => some m
  | _ :: _, [], _ => none
  | lvl :: L, σ :: σs, m =>
    (runLevel k recvs poolSize minBlock minLevel lvl σ m).bind
      (parRun k recvs poolSize minBlock minLevel L σs)

end Fs.Kernel
