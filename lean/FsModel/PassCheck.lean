import FsModel.Mst

/-! Decidable checker of the CONCLUSION of property C15, first clause (`connect_basins` stores a
lowest pass per pair of adjacent basins, plus the virtual edges of the outer basins), to be run by
the driver on the EDGE ARRAY THE C++ IMPLEMENTATION REPORTED.  Soundness
(`checkPasses … = true → <∀/∃ statements over the edge array>`) is
`Fs.ImplCheck.checkPasses_sound` in `FsProofs/Properties/PassCheck.lean`.

The implementation reports the edges after `orient_edges`, which may have swapped the two ends of
an edge (`l0 ↔ l1` together with `p0 ↔ p1`).  Every clause is therefore checked up to this swap:
the per-edge clause E1 accepts an edge if the edge or its swap (`swapE`) satisfies it, all the
other clauses speak about the UNORDERED pair of basins of an edge (`joinsB`).

* E1 `realOk`     : a real edge (`p0 ≠ none`) is a pair of neighbouring unmasked nodes of its two
                    basins, `pl` is the stored distance, `pe` the larger of the two elevations,
                    the basins are distinct, valid, and at least one of them is inner;
* E2 `noDupPairs` : no two distinct edges (real or virtual) join the same unordered pair of basins;
* E3 `lowOk`      : every pair of neighbouring unmasked nodes of two distinct basins, at least one
                    of them inner, is covered by a real edge joining the two basins whose `pe` is
                    not above the pass elevation of the pair;
* E4 `virtualOk`  : virtual edges (`p0 = none`) have `p1 = none`, `pe = lowest`, join two distinct
                    outer basins, all share one end `r` (the root) and every outer basin other
                    than `r` has a virtual edge to `r` (exactly one, by E2); without a virtual
                    edge there is at most one outer basin.

A basin `k` is OUTER iff `isBase (outlets.getD k 0)`, INNER otherwise.  Equalities of elevations
go through the supplied `beq` (the driver instantiates `α := Float`, which has no `DecidableEq`).

Executable, core Lean only, structural recursion / `List.all` / `List.any` only.
Cost: E1 O(|edges| · deg), E2 O(|edges|²), E3 O(n · deg · |edges|), E4 O(|outlets| · |edges|). -/
namespace Fs.ImplCheck
open Fs.Mst (BEdge)

variable {α : Type}

/-- the edge with its two ends exchanged (what `orient_edges` does to an edge it reverses) -/
def swapE (e : BEdge α) : BEdge α :=
  { l0 := e.l1, l1 := e.l0, p0 := e.p1, p1 := e.p0, pe := e.pe, pl := e.pl }

/-- virtual edge: no pass node -/
def isVirt (e : BEdge α) : Bool := e.p0 == Fs.Mst.none

/-- the edge joins the unordered pair of basins `{a, b}` -/
def joinsB (e : BEdge α) (a b : Nat) : Bool :=
  (e.l0 == a && e.l1 == b) || (e.l0 == b && e.l1 == a)

/-- basin `k` exists and its outlet is a base level -/
def outerB (isBase : Nat → Bool) (outlets : List Nat) (k : Nat) : Bool :=
  decide (k < outlets.length) && isBase (outlets.getD k 0)

/-- E1 for the edge as it stands (not up to swap) -/
def realOk (S : Scalar α) (beq : α → α → Bool) (n : Nat) (nb : Nat → List (Nat × α))
    (mask isBase : Nat → Bool) (lab : Nat → Nat) (outlets : List Nat) (f : Nat → α)
    (e : BEdge α) : Bool :=
  decide (e.p0 < n) && decide (e.p1 < n) && !mask e.p0 && !mask e.p1 &&
  (nb e.p0).any (fun q => q.1 == e.p1 && beq q.2 e.pl) &&
  lab e.p0 == e.l0 && lab e.p1 == e.l1 &&
  beq e.pe (S.max (f e.p0) (f e.p1)) &&
  e.l0 != e.l1 && decide (e.l0 < outlets.length) && decide (e.l1 < outlets.length) &&
  (!isBase (outlets.getD e.l0 0) || !isBase (outlets.getD e.l1 0))

/-- E1: every real edge, or its swap, passes `realOk` -/
def realEdgesOk (S : Scalar α) (beq : α → α → Bool) (n : Nat) (nb : Nat → List (Nat × α))
    (mask isBase : Nat → Bool) (lab : Nat → Nat) (outlets : List Nat) (f : Nat → α)
    (es : List (BEdge α)) : Bool :=
  es.all (fun e => isVirt e ||
    realOk S beq n nb mask isBase lab outlets f e ||
    realOk S beq n nb mask isBase lab outlets f (swapE e))

/-- E2: no later edge joins the unordered pair of basins of an earlier one -/
def noDupPairs : List (BEdge α) → Bool
  | [] => true
  | e :: l => l.all (fun e' => !joinsB e' e.l0 e.l1) && noDupPairs l

/-- the pair of neighbouring nodes `(i, j)` is covered: a real edge joins `{lab i, lab j}` with a
pass elevation not above `max (f i) (f j)` -/
def passCovered (S : Scalar α) (lab : Nat → Nat) (f : Nat → α) (es : List (BEdge α))
    (i j : Nat) : Bool :=
  es.any (fun e => !isVirt e && joinsB e (lab i) (lab j) && !S.lt (S.max (f i) (f j)) e.pe)

/-- E3: every pair of neighbouring unmasked nodes of two distinct basins, not both outer, is
covered -/
def lowOk (S : Scalar α) (n : Nat) (nb : Nat → List (Nat × α)) (mask isBase : Nat → Bool)
    (lab : Nat → Nat) (outlets : List Nat) (f : Nat → α) (es : List (BEdge α)) : Bool :=
  (List.range n).all (fun i => mask i ||
    (nb i).all (fun q => mask q.1 || lab i == lab q.1 ||
      (isBase (outlets.getD (lab i) 0) && isBase (outlets.getD (lab q.1) 0)) ||
      passCovered S lab f es i q.1))

/-- E4 for one virtual edge -/
def virtOk (S : Scalar α) (beq : α → α → Bool) (isBase : Nat → Bool) (outlets : List Nat)
    (e : BEdge α) : Bool :=
  e.p1 == Fs.Mst.none && beq e.pe S.lowest && e.l0 != e.l1 &&
  outerB isBase outlets e.l0 && outerB isBase outlets e.l1

/-- `r` is an end of every virtual edge and every other outer basin is joined to `r` by one -/
def rootOk (isBase : Nat → Bool) (outlets : List Nat) (virt : List (BEdge α)) (r : Nat) : Bool :=
  virt.all (fun e => e.l0 == r || e.l1 == r) &&
  (List.range outlets.length).all (fun k =>
    !isBase (outlets.getD k 0) || k == r || virt.any (fun e => joinsB e r k))

/-- E4 -/
def virtualOk (S : Scalar α) (beq : α → α → Bool) (isBase : Nat → Bool) (outlets : List Nat)
    (es : List (BEdge α)) : Bool :=
  let virt := es.filter isVirt
  virt.all (virtOk S beq isBase outlets) &&
  match virt with
  | [] => decide (((List.range outlets.length).filter (fun k => isBase (outlets.getD k 0))).length ≤ 1)
  | v :: _ => rootOk isBase outlets virt v.l0 || rootOk isBase outlets virt v.l1

/-- property C15 (lowest passes, first clause) on the edge array `edges` the implementation
reported, up to the swap of `orient_edges`: E1 ∧ E2 ∧ E3 ∧ E4 -/
def checkPasses (S : Scalar α) (beq : α → α → Bool) (n : Nat) (nb : Nat → List (Nat × α))
    (mask isBase : Nat → Bool) (lab : Nat → Nat) (outlets : List Nat) (f : Nat → α)
    (edges : Array (BEdge α)) : Bool :=
  let es := edges.toList
  realEdgesOk S beq n nb mask isBase lab outlets f es &&
  noDupPairs es &&
  lowOk S n nb mask isBase lab outlets f es &&
  virtualOk S beq isBase outlets es

end Fs.ImplCheck
