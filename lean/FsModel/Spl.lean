import FsModel.Flow
import FsModel.Generated

/-! Stream-power eroder (`eroders/spl.hpp`, `spl_eroder::erode`): one sweep over the bottom-up
order, per node the lake test, the closed-form step (slope exponent one) or the Newton iteration,
the clamp to the lowest post-erosion receiver.  Operation order mirrors the C++ so that the Float
instance is bit-identical.  Which exponents count as "one" (`m_linear`) and the exit test of the
Newton loop are read from the source (`Fs.Gen.splLinearForm`, `Fs.Gen.splNewtonTwoSided`).
Core Lean only. -/
namespace Fs.Spl
open Fs.Flow

variable {α : Type}

def sabs (S : Scalar α) (x : α) : α := if S.lt x S.zero then S.sub S.zero x else x

/-- `m_linear`: form 0 = `(fabs(n) - 1) <= eps`, form 1 = `fabs(n - 1) <= eps` -/
def isLinear (S : Scalar α) (form : Nat) (eps n : α) : Bool :=
  if form = 0 then S.le (S.sub (sabs S n) S.one) eps else S.le (sabs S (S.sub n S.one)) eps

/-- lowest post-erosion elevation among the receivers -/
def flooded (S : Scalar α) (elev : Nat → α) (ero : Tbl α) (recvs : List Nat) : α :=
  recvs.foldl (fun fl r =>
    let nxt := S.sub (elev r) (ero.get r)
    if S.lt nxt fl then nxt else fl) S.maxFinite

/-- Newton iterations on `δ + F δⁿ − δ₀` from `δ₀` (fuel-bounded; `none` = fuel exhausted) -/
def newton (S : Scalar α) (twoSided : Bool) (F n tol d0 : α) : Nat → α → Option α
  | 0, _ => none
  | fuel + 1, dk =>
    let fde := S.mul F (S.pow dk n)
    let func := S.sub (S.add dk fde) d0
    let done := if twoSided then S.le (sabs S func) tol else S.le func tol
    if done then some dk
    else
      let deriv := S.add S.one (S.div (S.mul n fde) dk)
      let dk' := S.sub dk (S.div func deriv)
      if S.le dk' S.zero then some dk' else newton S twoSided F n tol d0 fuel dk'

structure Acc (α : Type) where
  num : α
  den : α
  hang : Bool := false

/-- contribution of one receiver to the discrete equation -/
def recvStep (S : Scalar α) (linear twoSided : Bool) (k dt area m n tol h : α) (elev : Nat → α) (ero : Tbl α)
    (a : Acc α) (rwd : Nat × α × α) : Acc α :=
  let r := rwd.1
  let nxt := S.sub (elev r) (ero.get r)
  if S.lt h (elev r) then a
  else
    let factor := S.mul (S.mul k dt) (S.pow (S.mul area rwd.2.1) m)
    if linear then
      let f := S.div factor rwd.2.2
      { a with num := S.add a.num (S.mul f nxt), den := S.add a.den f }
    else
      let f := S.div factor (S.pow rwd.2.2 n)
      let d0 := S.sub h nxt
      match newton S twoSided f n tol d0 200 d0 with
      | some dk => { a with num := S.sub h (S.sub d0 dk) }
      | none => { a with hang := true }

structure St (α : Type) where
  ero : Tbl α
  ncorr : Nat
  hang : Bool

def nodeStep (S : Scalar α) (linear twoSided : Bool) (g : Graph α) (kcoef : Nat → α) (dt m n tol : α)
    (area elev : Nat → α) (s : St α) (i : Nat) : St α :=
  let recvs := g.recv i
  if recvs == [i] then s
  else
    let h := elev i
    let fl := flooded S elev s.ero recvs
    if S.le h fl then s
    else
      let a := (recvs.zip ((g.rweight i).zip (g.rdist i))).foldl
        (recvStep S linear twoSided (kcoef i) dt (area i) m n tol h elev s.ero) { num := h, den := S.one }
      let upd := S.div a.num a.den
      let (upd, nc) := if S.lt upd fl then (S.add fl S.minNormal, s.ncorr + 1) else (upd, s.ncorr)
      { ero := s.ero.set i (S.sub h upd), ncorr := nc, hang := s.hang || a.hang }

def erode (S : Scalar α) (linear twoSided : Bool) (nn : Nat) (g : Graph α) (kcoef : Nat → α) (dt m n tol : α)
    (area elev : Nat → α) : Array α × Nat × Bool :=
  let s := g.dfs.foldl (nodeStep S linear twoSided g kcoef dt m n tol area elev)
    { ero := Tbl.const S.zero, ncorr := 0, hang := false }
  (tab nn s.ero.get, s.ncorr, s.hang)

end Fs.Spl
