/-! Priority flood, upper bound (C02): order laws, iterated nextUp, paths. -/
namespace Fs.UB

structure Ord (α : Type) where
  lt : α → α → Bool
  nextUp : α → α

variable {α : Type}

def Ord.le (o : Ord α) (a b : α) : Bool := !o.lt b a

structure Laws (o : Ord α) : Prop where
  irrefl : ∀ a, o.lt a a = false
  trans : ∀ a b c, o.lt a b = true → o.lt b c = true → o.lt a c = true
  /-- linear order: incomparable elements are equal -/
  antisymm : ∀ a b, o.lt a b = false → o.lt b a = false → a = b
  next_gt : ∀ x, o.lt x (o.nextUp x) = true
  next_mono : ∀ a b, o.le a b = true → o.le (o.nextUp a) (o.nextUp b) = true

namespace Laws
variable {o : Ord α} (L : Laws o)
include L

theorem le_refl (a : α) : o.le a a = true := by simp [Ord.le, L.irrefl]

theorem le_of_lt {a b : α} (h : o.lt a b = true) : o.le a b = true := by
  simp only [Ord.le, Bool.not_eq_true']
  cases hh : o.lt b a
  · rfl
  · have := L.trans _ _ _ h hh; rw [L.irrefl] at this; cases this

theorem le_trans {a b c : α} (h1 : o.le a b = true) (h2 : o.le b c = true) : o.le a c = true := by
  simp only [Ord.le, Bool.not_eq_true'] at *
  cases hca : o.lt c a
  · rfl
  · -- c < a; compare b with c
    cases hbc : o.lt b c
    · have : b = c := L.antisymm b c hbc h2
      subst this; rw [hca] at h1; cases h1
    · have := L.trans _ _ _ hbc hca; rw [h1] at this; cases this

theorem lt_of_lt_of_le {a b c : α} (h1 : o.lt a b = true) (h2 : o.le b c = true) : o.lt a c = true := by
  simp only [Ord.le, Bool.not_eq_true'] at h2
  cases hbc : o.lt b c
  · have : b = c := L.antisymm b c hbc h2
    subst this; exact h1
  · exact L.trans _ _ _ h1 hbc

theorem lt_of_le_of_lt {a b c : α} (h1 : o.le a b = true) (h2 : o.lt b c = true) : o.lt a c = true := by
  simp only [Ord.le, Bool.not_eq_true'] at h1
  cases hab : o.lt a b
  · have : a = b := L.antisymm a b hab h1
    subst this; exact h2
  · exact L.trans _ _ _ hab h2

theorem le_total (a b : α) : o.le a b = true ∨ o.le b a = true := by
  simp only [Ord.le, Bool.not_eq_true']
  cases h : o.lt b a
  · exact Or.inl rfl
  · right
    cases h' : o.lt a b
    · rfl
    · have := L.trans _ _ _ h h'; rw [L.irrefl] at this; cases this

theorem le_next (a : α) : o.le a (o.nextUp a) = true := L.le_of_lt (L.next_gt a)

omit L in
theorem not_le_of_lt {a b : α} (h : o.lt a b = true) : o.le b a = false := by simp [Ord.le, h]

end Laws

/-- `k`-fold nextUp -/
def pw (o : Ord α) : Nat → α → α
  | 0, x => x
  | k + 1, x => o.nextUp (pw o k x)

theorem pw_mono_right {o : Ord α} (L : Laws o) (k : Nat) {a b : α} (h : o.le a b = true) :
    o.le (pw o k a) (pw o k b) = true := by
  induction k with
  | zero => simpa [pw] using h
  | succ k ih => exact L.next_mono _ _ ih

theorem le_pw {o : Ord α} (L : Laws o) (k : Nat) (a : α) : o.le a (pw o k a) = true := by
  induction k with
  | zero => exact L.le_refl a
  | succ k ih => exact L.le_trans ih (L.le_next _)

theorem pw_mono_left {o : Ord α} (L : Laws o) {j k : Nat} (h : j ≤ k) (a : α) :
    o.le (pw o j a) (pw o k a) = true := by
  induction k with
  | zero => have : j = 0 := by omega
            subst this; exact L.le_refl _
  | succ k ih =>
    by_cases hj : j = k + 1
    · subst hj; exact L.le_refl _
    · exact L.le_trans (ih (by omega)) (L.le_next _)

theorem pw_le_pw {o : Ord α} (L : Laws o) {j k : Nat} (h : j ≤ k) {a b : α} (hab : o.le a b = true) :
    o.le (pw o j a) (pw o k b) = true :=
  L.le_trans (pw_mono_right L j hab) (pw_mono_left L h b)

/-! ### paths from a seed through unmasked neighbours -/

inductive Path (nbrs : Nat → List Nat) (seed mask : Nat → Bool) : List Nat → Nat → Prop
  | seed (s) : seed s = true → mask s = false → Path nbrs seed mask [s] s
  | step (p c m) : Path nbrs seed mask p c → m ∈ nbrs c → mask m = false → Path nbrs seed mask (p ++ [m]) m

theorem Path.end_mem {nbrs seed mask p x} (h : Path nbrs seed mask p x) : x ∈ p := by
  cases h <;> simp

/-- a path that ends outside a set containing the seeds crosses its boundary -/
theorem Path.split {nbrs : Nat → List Nat} {seed mask : Nat → Bool} (C : Nat → Bool)
    (hseed : ∀ s, seed s = true → C s = true) {p x} (h : Path nbrs seed mask p x) (hx : C x = false) :
    ∃ p' u v, Path nbrs seed mask p' u ∧ C u = true ∧ v ∈ nbrs u ∧ mask v = false ∧ C v = false ∧
      (∀ y, y ∈ p' → y ∈ p) := by
  induction h with
  | seed s hs _ => rw [hseed s hs] at hx; cases hx
  | step p c m hp hm hmask ih =>
    cases hc : C c
    · obtain ⟨p', u, v, h1, h2, h3, h4, h5, h6⟩ := ih hc
      exact ⟨p', u, v, h1, h2, h3, h4, h5, fun y hy => List.mem_append_left _ (h6 y hy)⟩
    · exact ⟨p, c, m, hp, hc, hm, hmask, hx, fun y hy => List.mem_append_left _ hy⟩

end Fs.UB
