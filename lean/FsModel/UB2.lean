import FsModel.UB1
/-! Priority flood, upper bound (C02): model with ghost counters, invariant, one visit. -/
namespace Fs.UB
open List

variable {α : Type}

abbrev QE (α : Type) := Nat × α

structure PF (α : Type) where
  elev : Nat → α
  closed : Nat → Bool
  openQ : List (QE α)
  pitQ : List (QE α)
  k : Nat            -- number of pops so far
  kO : Nat           -- index of the last pop from the open queue
  L : α              -- value of the node popped last
  LO : α             -- value of the node popped last from the open queue
  ctime : Nat → Nat  -- pop index during which a node was closed (0 for seeds)

def upd {β} (f : Nat → β) (i : Nat) (v : β) : Nat → β := fun j => if j = i then v else f j
@[simp] theorem upd_same {β} (f : Nat → β) (i : Nat) (v : β) : upd f i v i = v := by simp [upd]
theorem upd_ne {β} (f : Nat → β) (i j : Nat) (v : β) (h : j ≠ i) : upd f i v j = f j := by simp [upd, h]

def insertQ (o : Ord α) (x : QE α) : List (QE α) → List (QE α)
  | [] => [x]
  | y :: ys =>
    if o.lt x.2 y.2 || (!o.lt y.2 x.2 && x.1 < y.1) then x :: y :: ys else y :: insertQ o x ys

theorem mem_insertQ (o : Ord α) (x y : QE α) (l : List (QE α)) :
    y ∈ insertQ o x l ↔ y = x ∨ y ∈ l := by
  induction l with
  | nil => simp [insertQ]
  | cons a t ih =>
    simp only [insertQ]
    split
    · simp
    · simp only [List.mem_cons, ih]
      constructor
      · rintro (h | h | h) <;> simp [h]
      · rintro (h | h | h) <;> simp [h]

def SortedQ (o : Ord α) (l : List (QE α)) : Prop := l.Pairwise (fun a b => o.le a.2 b.2 = true)

theorem insertQ_sorted (o : Ord α) (L : Laws o) (x : QE α) (l : List (QE α)) (h : SortedQ o l) :
    SortedQ o (insertQ o x l) := by
  induction l with
  | nil => simp [insertQ, SortedQ]
  | cons y ys ih =>
    simp only [insertQ]
    have hy : ∀ b ∈ ys, o.le y.2 b.2 = true := (pairwise_cons.mp h).1
    have hys : SortedQ o ys := (pairwise_cons.mp h).2
    split
    · rename_i hc
      -- x ≤ y
      have hxy : o.le x.2 y.2 = true := by
        simp only [Bool.or_eq_true, Bool.and_eq_true, Bool.not_eq_true', decide_eq_true_eq] at hc
        rcases hc with hc | hc
        · exact L.le_of_lt hc
        · simp [Ord.le, hc.1]
      refine pairwise_cons.mpr ⟨?_, h⟩
      intro b hb
      rcases mem_cons.mp hb with rfl | hb
      · exact hxy
      · exact L.le_trans hxy (hy b hb)
    · rename_i hc
      -- y ≤ x
      have hyx : o.le y.2 x.2 = true := by
        simp only [Bool.or_eq_true, Bool.and_eq_true, Bool.not_eq_true', decide_eq_true_eq, not_or, not_and] at hc
        simp only [Ord.le, Bool.not_eq_true']
        cases hh : o.lt x.2 y.2
        · rfl
        · exact absurd hh hc.1
      refine pairwise_cons.mpr ⟨?_, ih hys⟩
      intro b hb
      rcases (mem_insertQ o x b ys).mp hb with rfl | hb
      · exact hyx
      · exact hy b hb

def visit (o : Ord α) (mask : Nat → Bool) (tiny : α) (s : PF α) (nb : Nat) : PF α :=
  if mask nb || s.closed nb then s
  else if o.lt tiny (s.elev nb) then
    { s with closed := upd s.closed nb true, ctime := upd s.ctime nb s.k,
             openQ := insertQ o (nb, s.elev nb) s.openQ }
  else
    { s with elev := upd s.elev nb tiny, closed := upd s.closed nb true, ctime := upd s.ctime nb s.k,
             pitQ := s.pitQ ++ [(nb, tiny)] }

/-- pop: the entry, whether it came from the open queue, and the remaining queues -/
def pop (o : Ord α) (s : PF α) : Option (QE α × Bool × PF α) :=
  match s.pitQ, s.openQ with
  | [], [] => none
  | p :: ps, q :: qs =>
    if !o.lt q.2 p.2 && !o.lt p.2 q.2 then some (q, true, { s with openQ := qs })
    else some (p, false, { s with pitQ := ps })
  | p :: ps, [] => some (p, false, { s with pitQ := ps })
  | [], q :: qs => some (q, true, { s with openQ := qs })

def bump (s : PF α) (c : QE α) (fromOpen : Bool) : PF α :=
  { s with k := s.k + 1, L := c.2, kO := if fromOpen then s.k + 1 else s.kO,
           LO := if fromOpen then c.2 else s.LO }

def step (o : Ord α) (nbrs : Nat → List Nat) (mask : Nat → Bool) (s : PF α) : Option (PF α) :=
  match pop o s with
  | none => none
  | some (c, fo, s') => some ((nbrs c.1).foldl (visit o mask (o.nextUp c.2)) (bump s' c fo))

def run (o : Ord α) (nbrs : Nat → List Nat) (mask : Nat → Bool) : Nat → PF α → PF α
  | 0, s => s
  | fuel + 1, s => match step o nbrs mask s with
    | none => s
    | some s' => run o nbrs mask fuel s'

def PF.queued (s : PF α) (x : QE α) : Prop := x ∈ s.openQ ∨ x ∈ s.pitQ

def Bounded (o : Ord α) (z : Nat → α) (p : List Nat) (v : α) : Prop := ∀ w, w ∈ p → o.le (z w) v = true

structure UBInv (o : Ord α) (z : Nat → α) (nbrs : Nat → List Nat) (seed mask : Nat → Bool)
    (cur : Option Nat) (s : PF α) : Prop where
  queued : ∀ x, s.queued x → s.closed x.1 = true ∧ s.elev x.1 = x.2
  unclosedZ : ∀ n, s.closed n = false → s.elev n = z n
  seedClosed : ∀ b, seed b = true → s.closed b = true
  openZ : ∀ x, x ∈ s.openQ → x.2 = z x.1
  openSorted : SortedQ o s.openQ
  pitSorted : SortedQ o s.pitQ
  pit0 : s.k = 0 → s.pitQ = []
  pitVals : 0 < s.k → ∀ x, x ∈ s.pitQ → x.2 = s.L ∨ x.2 = o.nextUp s.L
  openLB : 0 < s.k → ∀ x, x ∈ s.openQ → o.le s.LO x.2 = true
  chainLo : 0 < s.k → o.le s.LO s.L = true
  chainHi : 0 < s.k → o.le s.L (pw o (s.k - s.kO) s.LO) = true ∧ s.kO ≤ s.k
  ctimeLe : ∀ n, s.closed n = true → s.ctime n ≤ s.k
  pitTime : ∀ x, x ∈ s.pitQ → s.ctime x.1 < s.k ∨ x.2 = o.nextUp s.L
  H : ∀ y, s.closed y = true → ∀ p v, Path nbrs seed mask p y → Bounded o z p v →
        o.le (s.elev y) (pw o (s.ctime y + 1) v) = true
  frontier : ∀ c, s.closed c = true → some c = cur ∨ (∃ e, s.queued (c, e)) ∨
        ∀ m, m ∈ nbrs c → mask m = true ∨ s.closed m = true
  curInfo : ∀ c, cur = some c → s.closed c = true ∧ s.elev c = s.L ∧ s.ctime c < s.k ∧ 0 < s.k

end Fs.UB
