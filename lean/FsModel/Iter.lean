/-! Filtered node-index iterator prototype (utils/iterators.hpp): model with access log. -/
namespace Fs.Iter

/-- `while (<cond>) ++idx`, where `<cond>` is `(!p idx) && (idx < size)` when `filterFirst`
(the order found in the unchanged source) and `(idx < size) && (!p idx)` otherwise.
Returns the stop index and the list of indices at which `p` (= a read of the status array)
was evaluated. `p` is only meaningful below `size`. -/
def skipFwd (filterFirst : Bool) (size : Nat) (p : Nat → Bool) : Nat → Nat → List Nat → Nat × List Nat
  | 0, idx, log => (idx, log)
  | fuel + 1, idx, log =>
    if filterFirst then
      if !p idx && decide (idx < size) then skipFwd filterFirst size p fuel (idx + 1) (log ++ [idx])
      else (idx, log ++ [idx])
    else
      if idx < size then
        if !p idx then skipFwd filterFirst size p fuel (idx + 1) (log ++ [idx]) else (idx, log ++ [idx])
      else (idx, log)

/-- repaired order: every logged index is in range, provided the log so far is -/
theorem skipFwd_log_in_range (size : Nat) (p : Nat → Bool) (fuel idx : Nat) (log : List Nat)
    (h : ∀ k, k ∈ log → k < size) :
    ∀ k, k ∈ (skipFwd false size p fuel idx log).2 → k < size := by
  induction fuel generalizing idx log with
  | zero => simpa [skipFwd] using h
  | succ f ih =>
    simp only [skipFwd, Bool.false_eq_true, if_false]
    split
    · rename_i hlt
      split
      · apply ih
        intro k hk
        simp only [List.mem_append, List.mem_singleton] at hk
        rcases hk with hk | rfl
        · exact h k hk
        · exact hlt
      · intro k hk
        simp only [List.mem_append, List.mem_singleton] at hk
        rcases hk with hk | rfl
        · exact h k hk
        · exact hlt
    · exact h

/-- unchanged order: constructing `end()` (position `size`) reads the status array at `size` -/
example : (skipFwd true 3 (fun _ => false) 10 3 []).2 = [3] := by decide

/-- result of the repaired loop: the first index ≥ idx satisfying `p`, or `size` -/
theorem skipFwd_stop (size : Nat) (p : Nat → Bool) (fuel idx : Nat) (log : List Nat)
    (hf : size - idx < fuel) (hidx : idx ≤ size) :
    let r := (skipFwd false size p fuel idx log).1
    idx ≤ r ∧ r ≤ size ∧ (r < size → p r = true) ∧ ∀ k, idx ≤ k → k < r → p k = false := by
  induction fuel generalizing idx log with
  | zero => omega
  | succ f ih =>
    simp only [skipFwd, Bool.false_eq_true, if_false]
    split
    · rename_i hlt
      split
      · rename_i hp
        have hp' : p idx = false := by cases h : p idx <;> simp_all
        obtain ⟨h1, h2, h3, h4⟩ := ih (idx + 1) (log ++ [idx]) (by omega) (by omega)
        refine ⟨by omega, h2, h3, ?_⟩
        intro k hk1 hk2
        by_cases hk : k = idx
        · subst hk; exact hp'
        · exact h4 k (by omega) hk2
      · rename_i hp
        have hp' : p idx = true := by cases h : p idx <;> simp_all
        exact ⟨Nat.le_refl _, by omega, fun _ => hp', fun k h1 h2 => by omega⟩
    · rename_i hge
      have : idx = size := by omega
      subst this
      exact ⟨Nat.le_refl _, Nat.le_refl _, fun h => by omega, fun k h1 h2 => by omega⟩

end Fs.Iter
