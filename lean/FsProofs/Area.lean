import FsModel.Scalar
import Mathlib.Tactic.Ring
import Mathlib.Tactic.FieldSimp
import Mathlib.Tactic.Linarith
import Mathlib.Tactic.LinearCombination
import Mathlib.Algebra.Order.Field.Basic

def ScalarOps.ofField (α : Type) [Field α] [LinearOrder α] : ScalarOps α :=
  { add := (· + ·), sub := (· - ·), neg := fun a => -a, mul := (· * ·), div := (· / ·), lt := fun a b => decide (a < b),
    ofNat := fun n => (n : α), sqrt := id }

theorem tri_area_partition {α : Type} [Field α] [LinearOrder α] [CharZero α]
    (q0 q1 q2 A : α) (hA : A ≠ 0)
    (hArea : areaSquare (ScalarOps.ofField α) q0 q1 q2 = A * A) :
    let w := triShares (ScalarOps.ofField α) q0 q1 q2 A
    w.1 + w.2.1 + w.2.2 = A := by
  simp only [triShares, areaSquare, ScalarOps.ofField] at *
  field_simp
  field_simp at hArea
  push_cast at *
  linear_combination (2 : α) * hArea
