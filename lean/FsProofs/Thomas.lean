import Mathlib.Tactic.Ring
import Mathlib.Tactic.FieldSimp
import Mathlib.Tactic.LinearCombination
import Mathlib.Algebra.Field.Basic
/-! Thomas algorithm prototype (diffusion_adi_eroder::solve_tridiagonal) over a field. -/
namespace Fs.Thomas

variable {α : Type} [Field α]

/-- forward sweep: `bet i`, `gam i` (gam 0 unused), `y i` (the value of `result(i)` after the
forward loop) -/
def fwd (lower diag upper vec : Nat → α) : Nat → α × α × α     -- (bet, gam, y)
  | 0 => (diag 0, 0, vec 0 / diag 0)
  | i + 1 =>
    let (bet, _, y) := fwd lower diag upper vec i
    let gam' := upper i / bet
    let bet' := diag (i + 1) - lower (i + 1) * gam'
    (bet', gam', (vec (i + 1) - lower (i + 1) * y) / bet')

def bet (l d u v : Nat → α) (i : Nat) : α := (fwd l d u v i).1
def gam (l d u v : Nat → α) (i : Nat) : α := (fwd l d u v i).2.1
def y (l d u v : Nat → α) (i : Nat) : α := (fwd l d u v i).2.2

/-- back substitution for a system of size `m + 1`: `x m = y m`, `x i = y i - gam (i+1) * x (i+1)`;
`x` is given as a function of the distance `k` from the last row -/
def xback (l d u v : Nat → α) (m : Nat) : Nat → α
  | 0 => y l d u v m
  | k + 1 => y l d u v (m - (k + 1)) - gam l d u v (m - k) * xback l d u v m k

/-- solution at row `i ≤ m` -/
def x (l d u v : Nat → α) (m i : Nat) : α := xback l d u v m (m - i)

theorem x_last (l d u v : Nat → α) (m : Nat) : x l d u v m m = y l d u v m := by
  simp [x, xback]

theorem x_step (l d u v : Nat → α) (m i : Nat) (hi : i < m) :
    x l d u v m i = y l d u v i - gam l d u v (i + 1) * x l d u v m (i + 1) := by
  unfold x
  obtain ⟨k, hk⟩ : ∃ k, m - i = k + 1 := ⟨m - i - 1, by omega⟩
  have h1 : m - (i + 1) = k := by omega
  rw [hk, h1]
  simp only [xback]
  have : m - (k + 1) = i := by omega
  have h2 : m - k = i + 1 := by omega
  rw [this, h2]

theorem bet_succ (l d u v : Nat → α) (i : Nat) :
    bet l d u v (i + 1) = d (i + 1) - l (i + 1) * gam l d u v (i + 1) := by
  simp [bet, gam, fwd]

theorem gam_succ (l d u v : Nat → α) (i : Nat) : gam l d u v (i + 1) = u i / bet l d u v i := by
  simp [bet, gam, fwd]

theorem y_succ (l d u v : Nat → α) (i : Nat) :
    y l d u v (i + 1) = (v (i + 1) - l (i + 1) * y l d u v i) / bet l d u v (i + 1) := by
  simp [bet, y, gam, fwd]

/-- interior rows of the tridiagonal system are satisfied -/
theorem thomas_row (l d u v : Nat → α) (m i : Nat) (hi : i + 1 < m)
    (hb : ∀ j, j ≤ m → bet l d u v j ≠ 0) :
    l (i + 1) * x l d u v m i + d (i + 1) * x l d u v m (i + 1) + u (i + 1) * x l d u v m (i + 2)
      = v (i + 1) := by
  have e0 := x_step l d u v m i (by omega)
  have e1 := x_step l d u v m (i + 1) (by omega)
  have hy := y_succ l d u v i
  have hg := gam_succ l d u v (i + 1)
  have hbet := bet_succ l d u v i
  have hb1 := hb (i + 1) (by omega)
  -- y (i+1) * bet (i+1) = v (i+1) - l (i+1) * y i
  have hy' : y l d u v (i + 1) * bet l d u v (i + 1) = v (i + 1) - l (i + 1) * y l d u v i := by
    rw [hy]; field_simp
  have hg' : gam l d u v (i + 2) * bet l d u v (i + 1) = u (i + 1) := by
    rw [hg]; field_simp
  -- express y i and y (i+1) through x and eliminate
  have ey0 : y l d u v i = x l d u v m i + gam l d u v (i + 1) * x l d u v m (i + 1) := by
    rw [e0]; ring
  have ey1 : y l d u v (i + 1) = x l d u v m (i + 1) + gam l d u v (i + 2) * x l d u v m (i + 2) := by
    rw [e1]; ring
  rw [ey0, ey1, hbet] at hy'
  linear_combination hy' - x l d u v m (i + 2) * (hg' - (hbet ▸ rfl : gam l d u v (i + 2) * bet l d u v (i + 1) = gam l d u v (i + 2) * (d (i + 1) - l (i + 1) * gam l d u v (i + 1))))

theorem bet_zero (l d u v : Nat → α) : bet l d u v 0 = d 0 := rfl
theorem y_zero (l d u v : Nat → α) : y l d u v 0 = v 0 / d 0 := rfl

/-- first row (system with at least two rows) -/
theorem thomas_first (l d u v : Nat → α) (m : Nat) (hm : 0 < m) (hb : ∀ j, j ≤ m → bet l d u v j ≠ 0) :
    d 0 * x l d u v m 0 + u 0 * x l d u v m 1 = v 0 := by
  have e0 := x_step l d u v m 0 hm
  have hg := gam_succ l d u v 0
  have hb0 : d 0 ≠ 0 := by have := hb 0 (by omega); rwa [bet_zero] at this
  rw [e0, y_zero, hg, bet_zero]
  field_simp
  ring

/-- the only row of a one-row system -/
theorem thomas_single (l d u v : Nat → α) (hb : bet l d u v 0 ≠ 0) : d 0 * x l d u v 0 0 = v 0 := by
  rw [x_last, y_zero]
  have hb0 : d 0 ≠ 0 := by rwa [bet_zero] at hb
  field_simp

/-- last row (system with at least two rows) -/
theorem thomas_last (l d u v : Nat → α) (m : Nat) (hm : 0 < m) (hb : ∀ j, j ≤ m → bet l d u v j ≠ 0) :
    l m * x l d u v m (m - 1) + d m * x l d u v m m = v m := by
  obtain ⟨k, rfl⟩ : ∃ k, m = k + 1 := ⟨m - 1, by omega⟩
  have e0 := x_step l d u v (k + 1) k (by omega)
  have e1 := x_last l d u v (k + 1)
  have hy := y_succ l d u v k
  have hbet := bet_succ l d u v k
  have hb1 := hb (k + 1) (by omega)
  have hy' : y l d u v (k + 1) * bet l d u v (k + 1) = v (k + 1) - l (k + 1) * y l d u v k := by
    rw [hy]; field_simp
  simp only [Nat.add_sub_cancel]
  rw [e0, e1]
  rw [hbet] at hy'
  linear_combination hy'

end Fs.Thomas
