import Mathlib.Algebra.Order.Field.Basic
import Mathlib.Algebra.BigOperators.Group.List.Basic
import Mathlib.Algebra.Order.BigOperators.Group.List
import Mathlib.Tactic.FieldSimp
import Mathlib.Tactic.Linarith
/-! Multiple-direction router weights (with the D3 repair: slopes are scaled by the steepest one
before `pow`), over a linear ordered field with an abstract `pow`. -/
namespace Fs.Weights

variable {α : Type} [Field α] [LinearOrder α] [IsStrictOrderedRing α]

/-- raw weights: `pow (s / smax) p` -/
def raw (pow : α → α) (smax : α) (slopes : List α) : List α := slopes.map (fun s => pow (s / smax))

def weights (pow : α → α) (smax : α) (slopes : List α) : List α :=
  let r := raw pow smax slopes
  r.map (fun w => w / r.sum)

/-- the normalised weights sum to one as soon as the raw sum is non-zero -/
theorem weights_sum (pow : α → α) (smax : α) (slopes : List α)
    (h : (raw pow smax slopes).sum ≠ 0) : (weights pow smax slopes).sum = 1 := by
  unfold weights
  simp only
  have key : ∀ (l : List α) (c : α), (l.map (fun w => w / c)).sum = l.sum / c := by
    intro l c
    induction l with
    | nil => simp
    | cons a t ih => simp [ih, add_div]
  rw [key]
  exact div_self h

/-- with the repair the raw sum is ≥ 1: the steepest slope contributes `pow 1 = 1`, all others `≥ 0` -/
theorem raw_sum_pos (pow : α → α) (smax : α) (slopes : List α) (hmax : smax ∈ slopes) (hpos : smax ≠ 0)
    (pow_one : pow 1 = 1) (pow_nonneg : ∀ x, 0 ≤ pow x) : 1 ≤ (raw pow smax slopes).sum := by
  unfold raw
  have hmem : pow (smax / smax) ∈ slopes.map (fun s => pow (s / smax)) := List.mem_map.mpr ⟨smax, hmax, rfl⟩
  rw [div_self hpos, pow_one] at hmem
  exact List.single_le_sum (fun x hx => by
    obtain ⟨s, _, rfl⟩ := List.mem_map.mp hx; exact pow_nonneg _) 1 hmem

theorem weights_sum_repaired (pow : α → α) (smax : α) (slopes : List α) (hmax : smax ∈ slopes)
    (hpos : smax ≠ 0) (pow_one : pow 1 = 1) (pow_nonneg : ∀ x, 0 ≤ pow x) :
    (weights pow smax slopes).sum = 1 := by
  apply weights_sum
  have := raw_sum_pos pow smax slopes hmax hpos pow_one pow_nonneg
  intro h0; rw [h0] at this; linarith

end Fs.Weights
