import FsModel.Dfs
import Batteries.Data.List.Perm
/-! Permutation half of the bottom-up DFS order (prototype). -/
namespace Fs.Dfs
open List

theorem nodup_reverse' {l : List Nat} : (reverse l).Nodup ↔ l.Nodup := by
  simp only [Nodup, pairwise_reverse]
  constructor <;> (intro h; exact h.imp (fun hab => Ne.symm hab))

theorem length_le_of_nodup_lt {l : List Nat} {n : Nat} (hn : l.Nodup) (hl : ∀ x, x ∈ l → x < n) :
    l.length ≤ n := by
  have : l ⊆ List.range n := fun x hx => List.mem_range.mpr (hl x hx)
  simpa using (List.subperm_of_subset hn this).length_le

structure G' (don : Nat → List Nat) (recv : Nat → Nat) (n : Nat) : Prop extends G don recv where
  don_nodup : ∀ s, (don s).Nodup
  don_lt : ∀ s d, d ∈ don s → d < n

/-- invariant of the drain loop -/
structure J (don : Nat → List Nat) (recv : Nat → Nat) (n : Nat) (st out : List Nat) : Prop where
  out_nodup : out.Nodup
  out_lt : ∀ x, x ∈ out → x < n
  st_nodup : st.Nodup
  st_sub : ∀ s, s ∈ st → s ∈ out
  recv_closed : ∀ x, x ∈ out → recv x ≠ x → recv x ∈ out
  done : ∀ x, x ∈ out → x ∉ st → ∀ d, d ∈ don x → d ∈ out
  pending : ∀ s, s ∈ st → ∀ d, d ∈ don s → d ∉ out

theorem J.pop {don recv n} (g : G' don recv n) {s : Nat} {st out : List Nat}
    (h : J don recv n (s :: st) out) : J don recv n ((don s).reverse ++ st) (out ++ don s) := by
  have hs_out : s ∈ out := h.st_sub s mem_cons_self
  have hs_notin : s ∉ st := (nodup_cons.mp h.st_nodup).1
  have hst_nodup : st.Nodup := (nodup_cons.mp h.st_nodup).2
  have hdisj : ∀ d, d ∈ don s → d ∉ out := h.pending s mem_cons_self
  refine ⟨?_, ?_, ?_, ?_, ?_, ?_, ?_⟩
  · -- out ++ don s nodup
    rw [nodup_append]
    refine ⟨h.out_nodup, g.don_nodup s, ?_⟩
    intro a ha b hb e; subst e; exact hdisj a hb ha
  · intro x hx
    rcases mem_append.mp hx with hx | hx
    · exact h.out_lt x hx
    · exact g.don_lt s x hx
  · rw [nodup_append]
    refine ⟨nodup_reverse'.mpr (g.don_nodup s), hst_nodup, ?_⟩
    intro a ha b hb e; subst e
    exact hdisj a (mem_reverse.mp ha) (h.st_sub a (mem_cons_of_mem _ hb))
  · intro x hx
    rcases mem_append.mp hx with hx | hx
    · exact mem_append_right _ (mem_reverse.mp hx)
    · exact mem_append_left _ (h.st_sub x (mem_cons_of_mem _ hx))
  · intro x hx hr
    rcases mem_append.mp hx with hx | hx
    · exact mem_append_left _ (h.recv_closed x hx hr)
    · rw [((g.inv x s).mp hx).1]; exact mem_append_left _ hs_out
  · intro x hx hxst d hd
    have hx1 : x ∉ (don s).reverse := fun hh => hxst (mem_append_left _ hh)
    have hx2 : x ∉ st := fun hh => hxst (mem_append_right _ hh)
    rcases mem_append.mp hx with hx | hx
    · by_cases hxs : x = s
      · subst hxs; exact mem_append_right _ hd
      · have : x ∉ s :: st := by
          intro hh; rcases mem_cons.mp hh with hh | hh
          · exact hxs hh
          · exact hx2 hh
        exact mem_append_left _ (h.done x hx this d hd)
    · exact absurd (mem_reverse.mpr hx) hx1
  · intro s' hs' e he
    have hrecv : recv e = s' ∧ e ≠ s' := (g.inv e s').mp he
    rcases mem_append.mp hs' with hs' | hs'
    · have hs'd : s' ∈ don s := mem_reverse.mp hs'
      intro hmem
      rcases mem_append.mp hmem with hmem | hmem
      · -- e already in out ⇒ its receiver s' is in out, but s' ∈ don s is not
        have : recv e ≠ e := by rw [hrecv.1]; exact fun hh => hrecv.2 hh.symm
        have := h.recv_closed e hmem this
        rw [hrecv.1] at this
        exact hdisj s' hs'd this
      · -- e ∈ don s ⇒ recv e = s, so s' = s, but s' ∈ don s means s' ≠ s
        have : recv e = s := ((g.inv e s).mp hmem).1
        have : s' = s := by rw [← hrecv.1, this]
        exact ((g.inv s' s).mp hs'd).2 this
    · intro hmem
      rcases mem_append.mp hmem with hmem | hmem
      · exact h.pending s' (mem_cons_of_mem _ hs') e he hmem
      · have : recv e = s := ((g.inv e s).mp hmem).1
        have : s' = s := by rw [← hrecv.1, this]
        exact hs_notin (this ▸ hs')

theorem drain_J {don recv n} (g : G' don recv n) (fuel : Nat) (st out : List Nat)
    (h : J don recv n st out) (hf : (n - out.length) + st.length < fuel) :
    J don recv n [] (drain don fuel st out) := by
  induction fuel generalizing st out with
  | zero => omega
  | succ f ih =>
    cases st with
    | nil => simpa [drain] using h
    | cons s st =>
      simp only [drain]
      have h' := h.pop g
      apply ih _ _ h'
      have hlen := length_le_of_nodup_lt h'.out_nodup h'.out_lt
      simp only [length_append, length_reverse, length_cons] at hf hlen ⊢
      omega


/-- `drain` only ever appends to `out` -/
theorem drain_prefix {don : Nat → List Nat} (fuel : Nat) (st out : List Nat) :
    ∃ ext, drain don fuel st out = out ++ ext := by
  induction fuel generalizing st out with
  | zero => exact ⟨[], by simp [drain]⟩
  | succ f ih =>
    cases st with
    | nil => exact ⟨[], by simp [drain]⟩
    | cons s st =>
      simp only [drain]
      obtain ⟨ext, he⟩ := ih ((don s).reverse ++ st) (out ++ don s)
      exact ⟨don s ++ ext, by rw [he]; simp⟩

/-- `drain` adds no roots (every appended node is a donor, hence has a different receiver) -/
theorem drain_no_new_root {don recv n} (g : G' don recv n) (fuel : Nat) (st out : List Nat) :
    ∀ x, x ∈ drain don fuel st out → recv x = x → x ∈ out := by
  induction fuel generalizing st out with
  | zero => intro x hx _; simpa [drain] using hx
  | succ f ih =>
    cases st with
    | nil => intro x hx _; simpa [drain] using hx
    | cons s st =>
      intro x hx hr
      simp only [drain] at hx
      have := ih _ _ x hx hr
      rcases mem_append.mp this with h | h
      · exact h
      · have := ((g.inv x s).mp h); rw [hr] at this; exact absurd this.1 this.2

/-- invariant of the outer loop over the roots -/
structure K (don : Nat → List Nat) (recv : Nat → Nat) (n : Nat) (doneRoots out : List Nat) : Prop where
  j : J don recv n [] out
  roots_in : ∀ r, r ∈ doneRoots → r ∈ out
  only_done : ∀ x, x ∈ out → recv x = x → x ∈ doneRoots

theorem K.add_root {don recv n} (g : G' don recv n) {doneRoots out : List Nat} (r : Nat)
    (k : K don recv n doneRoots out) (hr : recv r = r) (hrn : r < n) (hnew : r ∉ doneRoots) :
    K don recv n (doneRoots ++ [r]) (drain don (n + 1) [r] (out ++ [r])) := by
  have hr_out : r ∉ out := fun h => hnew (k.only_done r h hr)
  have j0 : J don recv n [r] (out ++ [r]) := by
    refine ⟨?_, ?_, by simp, ?_, ?_, ?_, ?_⟩
    · rw [nodup_append]; exact ⟨k.j.out_nodup, by simp, fun a ha b hb e => by simp at hb; subst hb; subst e; exact hr_out ha⟩
    · intro x hx; rcases mem_append.mp hx with h | h
      · exact k.j.out_lt x h
      · simp at h; subst h; exact hrn
    · intro s hs; simp at hs; subst hs; simp
    · intro x hx hne
      rcases mem_append.mp hx with h | h
      · exact mem_append_left _ (k.j.recv_closed x h hne)
      · simp at h; subst h; exact absurd hr hne
    · intro x hx hxst d hd
      rcases mem_append.mp hx with h | h
      · exact mem_append_left _ (k.j.done x h (by simp) d hd)
      · simp at h; subst h; simp at hxst
    · intro s hs d hd hmem
      simp at hs; subst hs
      have hdr := (g.inv d s).mp hd
      rcases mem_append.mp hmem with h | h
      · have : recv d ≠ d := by rw [hdr.1]; exact fun e => hdr.2 e.symm
        have := k.j.recv_closed d h this
        rw [hdr.1] at this; exact hr_out this
      · simp at h; exact hdr.2 h
  have hlen := length_le_of_nodup_lt j0.out_nodup j0.out_lt
  have jd := drain_J g (n + 1) [r] (out ++ [r]) j0 (by simp at hlen ⊢; omega)
  obtain ⟨ext, hext⟩ := drain_prefix (don := don) (n + 1) [r] (out ++ [r])
  refine ⟨jd, ?_, ?_⟩
  · intro x hx
    rw [hext]
    rcases mem_append.mp hx with h | h
    · exact mem_append_left _ (mem_append_left _ (k.roots_in x h))
    · simp at h; subst h; simp
  · intro x hx hrx
    have := drain_no_new_root g (n + 1) [r] (out ++ [r]) x hx hrx
    rcases mem_append.mp this with h | h
    · exact mem_append_left _ (k.only_done x h hrx)
    · exact mem_append_right _ h


theorem K.fold {don recv n} (g : G' don recv n) (rs : List Nat) (doneRoots out : List Nat)
    (k : K don recv n doneRoots out)
    (hrs : ∀ r, r ∈ rs → recv r = r ∧ r < n ∧ r ∉ doneRoots) (hnd : rs.Nodup) :
    K don recv n (doneRoots ++ rs) (rs.foldl (fun out r => drain don (n + 1) [r] (out ++ [r])) out) := by
  induction rs generalizing doneRoots out with
  | nil => simpa using k
  | cons r t ih =>
    simp only [foldl_cons]
    obtain ⟨h1, h2, h3⟩ := hrs r mem_cons_self
    have k' := k.add_root g r h1 h2 h3
    have := ih (doneRoots ++ [r]) _ k' (by
      intro x hx
      obtain ⟨a, b, c⟩ := hrs x (mem_cons_of_mem _ hx)
      refine ⟨a, b, ?_⟩
      intro hm
      rcases mem_append.mp hm with hm | hm
      · exact c hm
      · simp at hm; subst hm; exact (nodup_cons.mp hnd).1 hx) (nodup_cons.mp hnd).2
    simpa using this

theorem K.init (don : Nat → List Nat) (recv : Nat → Nat) (n : Nat) : K don recv n [] [] :=
  ⟨⟨by simp, by simp, by simp, by simp, by simp, by simp, by simp⟩, by simp, by simp⟩

/-- `k` receiver steps from `i` -/
def iter (recv : Nat → Nat) : Nat → Nat → Nat
  | 0, i => i
  | k + 1, i => iter recv k (recv i)

/-- **dfs_bottomup_valid, permutation half**: on a forest (every node reaches a root by following
receivers) the bottom-up order with fuel `n + 1` is a permutation of `0 … n-1`. -/
theorem dfs_perm {don recv n} (g : G' don recv n) (recv_lt : ∀ i, i < n → recv i < n)
    (hforest : ∀ i, i < n → ∃ k, recv (iter recv k i) = iter recv k i) :
    dfs don recv n (n + 1) ~ range n := by
  have hk : K don recv n ([] ++ roots recv n) (dfs don recv n (n + 1)) := by
    unfold dfs
    apply K.fold g (roots recv n) [] [] (K.init don recv n)
    · intro r hr
      simp only [roots, mem_filter, mem_range, beq_iff_eq] at hr
      exact ⟨hr.2, hr.1, by simp⟩
    · exact (nodup_range).filter _
  have hall : ∀ i, i < n → i ∈ dfs don recv n (n + 1) := by
    intro i hi
    obtain ⟨k, hk'⟩ := hforest i hi
    induction k generalizing i with
    | zero =>
      simp only [iter] at hk'
      apply hk.roots_in
      simp [roots, hi, hk']
    | succ k ih =>
      simp only [iter] at hk'
      have hr := ih (recv i) (recv_lt i hi) hk'
      by_cases hself : recv i = i
      · rw [hself] at hr; exact hr
      · exact hk.j.done (recv i) hr (by simp) i ((g.inv i (recv i)).mpr ⟨rfl, fun e => hself e.symm⟩)
  have h1 : dfs don recv n (n + 1) <+~ range n :=
    subperm_of_subset hk.j.out_nodup (fun x hx => mem_range.mpr (hk.j.out_lt x hx))
  have h2 : range n <+~ dfs don recv n (n + 1) :=
    subperm_of_subset nodup_range (fun x hx => hall x (mem_range.mp hx))
  exact h1.antisymm h2

/-! ### block structure: the order is the concatenation, over the roots in increasing index
order, of one block per root containing exactly nodes that drain to that root -/

def Reaches (recv : Nat → Nat) (x r : Nat) : Prop := ∃ k, iter recv k x = r

theorem Reaches.of_recv {recv : Nat → Nat} {d s r : Nat} (h : recv d = s) (hs : Reaches recv s r) :
    Reaches recv d r := by
  obtain ⟨k, hk⟩ := hs
  exact ⟨k + 1, by simp [iter, h, hk]⟩

/-- everything `drain` appends reaches `r` when everything on the stack does -/
theorem drain_ext_reaches {don recv n} (g : G' don recv n) (r : Nat) (fuel : Nat) (st out : List Nat)
    (hst : ∀ s, s ∈ st → Reaches recv s r) :
    ∃ ext, drain don fuel st out = out ++ ext ∧ ∀ x, x ∈ ext → Reaches recv x r ∧ recv x ≠ x := by
  induction fuel generalizing st out with
  | zero => exact ⟨[], by simp [drain], by simp⟩
  | succ f ih =>
    cases st with
    | nil => exact ⟨[], by simp [drain], by simp⟩
    | cons s st =>
      simp only [drain]
      have hs := hst s mem_cons_self
      have hdon : ∀ d, d ∈ don s → Reaches recv d r := fun d hd => Reaches.of_recv ((g.inv d s).mp hd).1 hs
      obtain ⟨ext, he, hext⟩ := ih ((don s).reverse ++ st) (out ++ don s) (by
        intro x hx
        rcases mem_append.mp hx with h | h
        · exact hdon x (mem_reverse.mp h)
        · exact hst x (mem_cons_of_mem _ h))
      refine ⟨don s ++ ext, by rw [he]; simp, ?_⟩
      intro x hx
      rcases mem_append.mp hx with h | h
      · have hi := (g.inv x s).mp h
        exact ⟨hdon x h, by rw [hi.1]; exact fun e => hi.2 e.symm⟩
      · exact hext x h

/-- the fold over the roots produces one block per root -/
theorem fold_blocks {don recv n} (g : G' don recv n) (rs : List Nat) (out : List Nat) :
    ∃ blocks : List (List Nat),
      rs.foldl (fun out r => drain don (n + 1) [r] (out ++ [r])) out = out ++ blocks.flatten ∧
      blocks.length = rs.length ∧
      ∀ i (hi : i < blocks.length) (hi' : i < rs.length),
        (∃ ext, blocks[i] = rs[i] :: ext ∧ ∀ x, x ∈ ext → Reaches recv x rs[i] ∧ recv x ≠ x) := by
  induction rs generalizing out with
  | nil => exact ⟨[], by simp, rfl, by intro i hi; simp at hi⟩
  | cons r t ih =>
    simp only [foldl_cons]
    obtain ⟨ext, he, hext⟩ := drain_ext_reaches g r (n + 1) [r] (out ++ [r])
      (by intro s hs; simp at hs; subst hs; exact ⟨0, rfl⟩)
    obtain ⟨bs, hb1, hb2, hb3⟩ := ih (drain don (n + 1) [r] (out ++ [r]))
    refine ⟨(r :: ext) :: bs, ?_, by simp [hb2], ?_⟩
    · rw [hb1, he]; simp
    · intro i hi hi'
      cases i with
      | zero =>
        simp only [getElem_cons_zero]
        exact ⟨ext, rfl, hext⟩
      | succ j =>
        simp only [getElem_cons_succ]
        exact hb3 j (by simpa using hi) (by simpa using hi')

/-- **dfs_bottomup_valid, contiguity**: the order is `blocks.flatten` with one block per root, in
the order of the roots, every block starting with its root and containing only nodes that drain
to it. -/
theorem dfs_blocks {don recv n} (g : G' don recv n) :
    ∃ blocks : List (List Nat),
      dfs don recv n (n + 1) = blocks.flatten ∧ blocks.length = (roots recv n).length ∧
      ∀ i (hi : i < blocks.length) (hi' : i < (roots recv n).length),
        (∃ ext, blocks[i] = (roots recv n)[i] :: ext ∧
          ∀ x, x ∈ ext → Reaches recv x (roots recv n)[i] ∧ recv x ≠ x) := by
  obtain ⟨bs, h1, h2, h3⟩ := fold_blocks g (roots recv n) []
  exact ⟨bs, by simpa [dfs] using h1, h2, h3⟩

end Fs.Dfs
