import Mathlib.Algebra.BigOperators.Group.Finset.Basic
import Mathlib.Algebra.BigOperators.Ring.Finset
import Mathlib.Tactic.Ring
import Mathlib.Tactic.Linarith
/-! Flow accumulation prototype (flow_graph_impl::accumulate) over a commutative ring:
conservation of the source. -/
namespace Fs.Acc
open Finset

variable {α : Type} [CommRing α]

/-- push `a * w` to every receiver of the list -/
def push (a : α) : List (Nat × α) → (Nat → α) → (Nat → α)
  | [], acc => acc
  | (r, w) :: rest, acc => push a rest (Function.update acc r (acc r + a * w))

/-- process one node: add the local contribution, then push to the receivers -/
def stepNode (s : Nat → α) (rs : Nat → List (Nat × α)) (acc : Nat → α) (i : Nat) : Nat → α :=
  let a := acc i + s i
  push a (rs i) (Function.update acc i a)

def accumulate (s : Nat → α) (rs : Nat → List (Nat × α)) (ord : List Nat) : Nat → α :=
  ord.foldl (stepNode s rs) (fun _ => 0)

/-- weighted total with an arbitrary "counted" indicator -/
def tot (n : Nat) (c : Nat → α) (acc : Nat → α) : α := ∑ j ∈ range n, c j * acc j

theorem tot_update (n : Nat) (c acc : Nat → α) (r : Nat) (v : α) (hr : r < n) :
    tot n c (Function.update acc r v) = tot n c acc + c r * (v - acc r) := by
  unfold tot
  have hmem : r ∈ range n := mem_range.mpr hr
  rw [← Finset.add_sum_erase _ _ hmem, ← Finset.add_sum_erase (range n) (fun j => c j * acc j) hmem]
  have : ∑ x ∈ (range n).erase r, c x * Function.update acc r v x = ∑ x ∈ (range n).erase r, c x * acc x := by
    apply Finset.sum_congr rfl
    intro x hx
    rw [Function.update_of_ne (Finset.ne_of_mem_erase hx)]
  rw [this, Function.update_self]
  ring

theorem tot_push (n : Nat) (c : Nat → α) (a : α) (l : List (Nat × α)) (acc : Nat → α)
    (hl : ∀ p ∈ l, p.1 < n ∧ c p.1 = 1) :
    tot n c (push a l acc) = tot n c acc + a * (l.map Prod.snd).sum := by
  induction l generalizing acc with
  | nil => simp [push]
  | cons p rest ih =>
    obtain ⟨r, w⟩ := p
    simp only [push, List.map_cons, List.sum_cons]
    rw [ih _ (fun q hq => hl q (List.mem_cons_of_mem _ hq))]
    obtain ⟨hr, hc⟩ := hl (r, w) List.mem_cons_self
    rw [tot_update n c acc r _ hr, hc]
    ring


/-- indicator of the nodes that still hold their accumulated value: not processed yet, or terminal -/
def cnt (rs : Nat → List (Nat × α)) (proc : Nat → Bool) (j : Nat) : α :=
  if proc j = false ∨ rs j = [] then 1 else 0

theorem tot_congr_except (n : Nat) (c c' acc : Nat → α) (i : Nat) (hi : i < n)
    (h : ∀ j, j ≠ i → c' j = c j) : tot n c' acc = tot n c acc + (c' i - c i) * acc i := by
  unfold tot
  have hmem : i ∈ range n := mem_range.mpr hi
  rw [← Finset.add_sum_erase _ _ hmem, ← Finset.add_sum_erase (range n) (fun j => c j * acc j) hmem]
  have : ∑ x ∈ (range n).erase i, c' x * acc x = ∑ x ∈ (range n).erase i, c x * acc x := by
    apply Finset.sum_congr rfl
    intro x hx; rw [h x (Finset.ne_of_mem_erase hx)]
  rw [this]; ring

/-- one node: the counted total grows by exactly the local contribution -/
theorem step_conserves (n : Nat) (s : Nat → α) (rs : Nat → List (Nat × α)) (proc : Nat → Bool)
    (acc : Nat → α) (i : Nat) (hi : i < n) (hproc : proc i = false)
    (hrs : ∀ p ∈ rs i, p.1 < n ∧ p.1 ≠ i ∧ proc p.1 = false)
    (hw : rs i ≠ [] → ((rs i).map Prod.snd).sum = 1) :
    tot n (cnt rs (Function.update proc i true)) (stepNode s rs acc i)
      = tot n (cnt rs proc) acc + s i := by
  unfold stepNode
  simp only []
  have hc_recv : ∀ p ∈ rs i, p.1 < n ∧ cnt rs (Function.update proc i true) p.1 = (1 : α) := by
    intro p hp
    obtain ⟨h1, h2, h3⟩ := hrs p hp
    refine ⟨h1, ?_⟩
    simp [cnt, Function.update_of_ne h2, h3]
  rw [tot_push n _ _ (rs i) _ hc_recv, tot_update n _ acc i _ hi]
  have hother : ∀ j, j ≠ i → cnt rs (Function.update proc i true) j = cnt rs proc j := by
    intro j hj; simp [cnt, Function.update_of_ne hj]
  rw [tot_congr_except n (cnt rs proc) _ acc i hi hother]
  by_cases he : rs i = []
  · simp [cnt, he, hproc]
  · have hsum := hw he
    simp only [cnt, he, hproc, Function.update_self, or_false, or_true, if_true]
    simp only [Bool.true_eq_false, if_false, hsum]
    ring

end Fs.Acc
