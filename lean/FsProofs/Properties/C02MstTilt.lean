import FsModel.Tilt
import FsProofs.DfsPerm

/-! # C02 (spanning-tree resolver), abstract part: the exact result of the tilt pass

`Fs.Tilt.tilt` along an order in which every node comes after its receiver and no node is
repeated computes, at every node of the order, the value `tiltVal`: the input elevation if the
node is a self-receiver or is already strictly above the FINAL elevation of its receiver, and
one increment above that final elevation otherwise.  Everything C02 says about the tilt pass
(never below the input, fixed at self-receivers, one increment per node along the flow path)
follows from this equation and the order laws. -/
namespace Fs.C02Mst
open Fs Fs.Dfs Fs.Tilt

variable {α : Type}

/-- the value the tilt pass gives node `i`, in terms of the input elevation `f` and the (final)
elevation table `E` -/
def tiltVal (o : Tilt.Ord α) (recv : Nat → Nat) (f E : Nat → α) (i : Nat) : α :=
  if recv i = i then f i else if o.lt (E (recv i)) (f i) then f i else o.nextUp (E (recv i))

theorem tiltStep_get_self (o : Tilt.Ord α) (recv : Nat → Nat) (elev : Tbl α) (i : Nat) :
    (tiltStep o recv elev i).get i = tiltVal o recv elev.get elev.get i := by
  unfold tiltStep tiltVal
  by_cases h1 : recv i = i
  · simp [h1]
  · by_cases h2 : o.lt (elev.get (recv i)) (elev.get i) = true
    · simp [h1, h2]
    · simp [h1, h2, Tbl.set]

/-- `tiltVal` only reads `E` at the receiver of a non-root -/
theorem tiltVal_congr (o : Tilt.Ord α) (recv : Nat → Nat) (f E E' : Nat → α) (i : Nat)
    (h : recv i ≠ i → E' (recv i) = E (recv i)) : tiltVal o recv f E' i = tiltVal o recv f E i := by
  unfold tiltVal
  by_cases h1 : recv i = i
  · simp [h1]
  · simp only [h1, if_false, h h1]

/-- **the tilt pass, exactly**: at every node of the order the final table satisfies the
equation of `tiltStep` read with the final elevation of the receiver and the input elevation of
the node. -/
theorem tilt_shape (o : Tilt.Ord α) (recv : Nat → Nat) (order : List Nat) (hord : Ordered recv order)
    (hnd : order.Nodup) (elev : Tbl α) :
    ∀ i, i ∈ order →
      (tilt o recv order elev).get i = tiltVal o recv elev.get (tilt o recv order elev).get i := by
  suffices H : ∀ (rest pre : List Nat) (e : Tbl α), pre ++ rest = order →
      (∀ j, j ∉ pre → e.get j = elev.get j) →
      (∀ j, j ∈ pre → e.get j = tiltVal o recv elev.get e.get j) →
      ∀ i, i ∈ order → (tilt o recv rest e).get i = tiltVal o recv elev.get (tilt o recv rest e).get i from
    H order [] elev rfl (fun _ _ => rfl) (fun _ h => by cases h)
  intro rest
  induction rest with
  | nil =>
    intro pre e hsplit _ hpre i hi
    simp only [List.append_nil] at hsplit
    subst hsplit
    exact hpre i hi
  | cons a t ih =>
    intro pre e hsplit hout hpre i hi
    simp only [tilt, List.foldl_cons]
    have hnd' : (pre ++ a :: t).Nodup := hsplit ▸ hnd
    have ha_notin_pre : a ∉ pre := by
      intro hh
      exact (List.nodup_append.mp hnd').2.2 a hh a List.mem_cons_self rfl
    apply ih (pre ++ [a]) (tiltStep o recv e a) (by simp [hsplit]) _ _ i hi
    · intro j hj
      have hja : j ≠ a := fun e' => hj (by simp [e'])
      rw [tiltStep_other o recv e a j hja]
      exact hout j (fun h => hj (List.mem_append_left _ h))
    · intro j hj
      rcases List.mem_append.mp hj with hj | hj
      · have hja : j ≠ a := fun e' => ha_notin_pre (e' ▸ hj)
        rw [tiltStep_other o recv e a j hja, hpre j hj]
        symm
        apply tiltVal_congr
        intro hrj
        have hrec : recv j ∈ pre := by
          obtain ⟨p1, p2, hp⟩ := List.append_of_mem hj
          have hsp : order = p1 ++ j :: (p2 ++ a :: t) := by rw [← hsplit, hp]; simp
          rcases hord.split p1 j _ hsp with h1 | h1
          · exact absurd h1 hrj
          · rw [hp]; exact List.mem_append_left _ h1
        have hra : recv j ≠ a := fun e' => ha_notin_pre (e' ▸ hrec)
        exact tiltStep_other o recv e a (recv j) hra
      · simp only [List.mem_singleton] at hj
        subst hj
        rw [tiltStep_get_self]
        have h1 : tiltVal o recv e.get e.get j = tiltVal o recv elev.get e.get j := by
          unfold tiltVal
          rw [hout j ha_notin_pre]
        rw [h1]
        symm
        apply tiltVal_congr
        intro hrj
        exact tiltStep_other o recv e j (recv j) hrj

/-! ### consequences of the equation -/

section
variable (o : Tilt.Ord α) (recv : Nat → Nat) (f E : Nat → α)

/-- never below the input (needs irreflexivity, transitivity and `x < nextUp x`) -/
theorem tiltVal_ge (irrefl : ∀ a, o.lt a a = false)
    (trans : ∀ a b c, o.lt a b = true → o.lt b c = true → o.lt a c = true)
    (next_gt : ∀ x, o.lt x (o.nextUp x) = true) (i : Nat) :
    o.lt (tiltVal o recv f E i) (f i) = false := by
  unfold tiltVal
  by_cases h1 : recv i = i
  · simp [h1, irrefl]
  · by_cases h2 : o.lt (E (recv i)) (f i) = true
    · simp [h1, h2, irrefl]
    · simp only [h1, h2, if_false, Bool.false_eq_true]
      cases h3 : o.lt (o.nextUp (E (recv i))) (f i) with
      | false => rfl
      | true => exact absurd (trans _ _ _ (next_gt _) h3) h2

theorem tiltVal_self (i : Nat) (h : recv i = i) : tiltVal o recv f E i = f i := by
  simp [tiltVal, h]

theorem tiltVal_above (i : Nat) (h : o.lt (E (recv i)) (f i) = true) : tiltVal o recv f E i = f i := by
  unfold tiltVal
  by_cases h1 : recv i = i
  · simp [h1]
  · simp [h1, h]

theorem tiltVal_cases (i : Nat) (h : recv i ≠ i) :
    (o.lt (E (recv i)) (f i) = true ∧ tiltVal o recv f E i = f i) ∨
    (o.lt (E (recv i)) (f i) = false ∧ tiltVal o recv f E i = o.nextUp (E (recv i))) := by
  unfold tiltVal
  cases h2 : o.lt (E (recv i)) (f i) with
  | true => left; simp [h]
  | false => right; simp [h]

end

end Fs.C02Mst
