import FsModel.Mst
import FsModel.Kruskal
import FsProofs.Properties.C15
import Mathlib.Algebra.Order.Group.Defs
import Mathlib.Algebra.Order.Group.Int
import Mathlib.Algebra.Order.BigOperators.Group.List
import Mathlib.Tactic.Abel

/-! # C15 (minimality) — the Kruskal tree has minimum total weight among all spanning forests

`Fs.Kruskal.kruskal es` processes `es` in the given order.  When `es` is sorted by non-decreasing
weight, the accepted edges have minimum total weight among *all* spanning forests of `es`
(`kruskal_min_weight`), and they are themselves a spanning forest (`kruskal_is_spanning_forest`).
Through the simulation `Fs.C15.kruskal_sim` the executed array Kruskal inherits the statement
(`kruskal_exec_min_weight`).

Proof route: contraction / exchange, by induction on the input list, generalised over Kruskal's
running state `s` (`Agree s`): forests and spanning are taken *relative to* the already accepted
edges `K = s.tree` (`ForestOver K T`, `Conn (K ++ T)`).  When Kruskal accepts `e = (u,v,w)`, the
competing forest `T'` connects `u` and `v` over `K`; the first edge `f` of `T'` (in list order)
that completes this connection is removed: `T' − f` is a spanning forest relative to `K ++ [e]`
and `w ≤ weight f` by sortedness.  Self loops and parallel / duplicate edges are allowed in `es`;
a forest can contain neither a self loop nor two copies of the same edge (`Forest.nodup`). -/
namespace Fs.C15
open Fs.Kruskal

variable {α : Type}

/-! ## connectivity lemmas -/

/-- if every edge of `A` is connected in `B`, connectivity in `A` implies connectivity in `B` -/
theorem conn_sub {A B : List (E α)} (h : ∀ g, g ∈ A → Conn B g.1 g.2.1) {x y : Nat}
    (c : Conn A x y) : Conn B x y := by
  induction c with
  | refl a => exact .refl a
  | edge u v w hm => exact h (u, v, w) hm
  | symm _ ih => exact ih.symm
  | trans _ _ ih1 ih2 => exact ih1.trans ih2

theorem conn_mem {A : List (E α)} {g : E α} (h : g ∈ A) : Conn A g.1 g.2.1 := by
  obtain ⟨a, b, w⟩ := g
  exact .edge a b w h

/-- connectivity after adding one edge -/
theorem conn_snoc {A : List (E α)} {g : E α} {x y : Nat} (c : Conn (A ++ [g]) x y) :
    Conn A x y ∨ (Conn A x g.1 ∧ Conn A g.2.1 y) ∨ (Conn A x g.2.1 ∧ Conn A g.1 y) := by
  induction c with
  | refl a => exact .inl (.refl a)
  | edge u v w hm =>
    rcases List.mem_append.mp hm with hm | hm
    · exact .inl (.edge u v w hm)
    · have : (u, v, w) = g := by simpa using hm
      subst this
      exact .inr (.inl ⟨.refl _, .refl _⟩)
  | symm _ ih =>
    rcases ih with h | ⟨h1, h2⟩ | ⟨h1, h2⟩
    · exact .inl h.symm
    · exact .inr (.inr ⟨h2.symm, h1.symm⟩)
    · exact .inr (.inl ⟨h2.symm, h1.symm⟩)
  | trans _ _ ih1 ih2 =>
    rcases ih1 with h | ⟨h1, h2⟩ | ⟨h1, h2⟩
    · rcases ih2 with k | ⟨k1, k2⟩ | ⟨k1, k2⟩
      · exact .inl (h.trans k)
      · exact .inr (.inl ⟨h.trans k1, k2⟩)
      · exact .inr (.inr ⟨h.trans k1, k2⟩)
    · rcases ih2 with k | ⟨k1, k2⟩ | ⟨k1, k2⟩
      · exact .inr (.inl ⟨h1, h2.trans k⟩)
      · exact .inr (.inl ⟨h1, k2⟩)
      · exact .inl (h1.trans k2)
    · rcases ih2 with k | ⟨k1, k2⟩ | ⟨k1, k2⟩
      · exact .inr (.inr ⟨h1, h2.trans k⟩)
      · exact .inl (h1.trans k2)
      · exact .inr (.inr ⟨h1, k2⟩)

/-- the first edge (in list order) of `T` that completes a connection `u ~ v` over `K` -/
theorem first_connecting (u v : Nat) (T : List (E α)) : ∀ K : List (E α), ¬ Conn K u v →
    Conn (K ++ T) u v →
    ∃ pre f post, T = pre ++ f :: post ∧ ¬ Conn (K ++ pre) u v ∧ Conn ((K ++ pre) ++ [f]) u v := by
  induction T with
  | nil => intro K hn hc; rw [List.append_nil] at hc; exact absurd hc hn
  | cons f t ih =>
    intro K hn hc
    by_cases h1 : Conn (K ++ [f]) u v
    · exact ⟨[], f, t, rfl, by simpa using hn, by simpa using h1⟩
    · have hc' : Conn ((K ++ [f]) ++ t) u v := by simpa using hc
      obtain ⟨pre, g, post, ht, hn', hc''⟩ := ih (K ++ [f]) h1 hc'
      refine ⟨f :: pre, g, post, by rw [ht]; rfl, ?_, ?_⟩
      · simpa using hn'
      · simpa using hc''

/-! ## forests relative to a base edge set -/

/-- `T` is a forest *over* `K`: no edge of `T` is connected by `K` together with the edges before
it in `T` (i.e. `T` is a forest in the graph where the components of `K` are contracted) -/
def ForestOver (K T : List (E α)) : Prop :=
  ∀ pre e post, T = pre ++ e :: post → ¬ Conn (K ++ pre) e.1 e.2.1

theorem forestOver_nil_iff (T : List (E α)) : ForestOver [] T ↔ Forest T := by
  unfold ForestOver Forest
  simp only [List.nil_append]

/-- an edge already connected by `K` (in particular a self loop) is not in a forest over `K` -/
theorem ForestOver.not_mem {K T : List (E α)} (hf : ForestOver K T) {e : E α}
    (hc : Conn K e.1 e.2.1) : e ∉ T := by
  intro hm
  obtain ⟨pre, post, rfl⟩ := List.append_of_mem hm
  exact hf pre e post rfl (hc.mono (fun _ h => List.mem_append_left _ h))

/-- **exchange step**.  `T` is a forest over `K` that connects `u ~ v`, which `K` alone does not.
Then one edge `f` can be removed from `T` so that the rest is a forest over `K ++ [(u,v,w)]` with
the same overall connectivity; the new edge `(u,v,w)` itself does not remain in the rest. -/
theorem exchange (K T : List (E α)) (u v : Nat) (w : α) (hf : ForestOver K T)
    (hn : ¬ Conn K u v) (hc : Conn (K ++ T) u v) :
    ∃ pre f post, T = pre ++ f :: post ∧ ForestOver (K ++ [(u, v, w)]) (pre ++ post) ∧
      (u, v, w) ∉ pre ++ post ∧
      (∀ x y, Conn (K ++ T) x y → Conn ((K ++ [(u, v, w)]) ++ (pre ++ post)) x y) := by
  obtain ⟨pre, f, post, hT, hnp, hcp⟩ := first_connecting u v T K hn hc
  -- the end points of `f` are connected in `K ++ [e] ++ pre`
  have hfe : Conn ((K ++ [(u, v, w)]) ++ pre) f.1 f.2.1 := by
    have mono : ∀ {x y}, Conn (K ++ pre) x y → Conn ((K ++ [(u, v, w)]) ++ pre) x y :=
      fun c => c.mono (fun g hg => by simp only [List.mem_append] at hg ⊢; tauto)
    have euv : Conn ((K ++ [(u, v, w)]) ++ pre) u v := .edge u v w (by simp)
    rcases conn_snoc hcp with h | ⟨h1, h2⟩ | ⟨h1, h2⟩
    · exact absurd h hnp
    · exact (mono h1).symm.trans (euv.trans (mono h2).symm)
    · exact (mono h2).trans (euv.symm.trans (mono h1))
  -- Claim X, one direction: whatever `K ++ pre ++ [f] ++ P` connects, `K ++ [e] ++ pre ++ P` connects
  have claim : ∀ (P : List (E α)) {x y}, Conn (K ++ (pre ++ f :: P)) x y →
      Conn ((K ++ [(u, v, w)]) ++ (pre ++ P)) x y := by
    intro P x y c
    refine conn_sub ?_ c
    intro g hg
    simp only [List.mem_append, List.mem_cons] at hg
    rcases hg with hg | hg | rfl | hg
    · exact conn_mem (by simp [hg])
    · exact conn_mem (by simp [hg])
    · exact hfe.mono (fun g hg => by simp only [List.mem_append] at hg ⊢; tauto)
    · exact conn_mem (by simp [hg])
  -- the reverse direction
  have claim' : ∀ (P : List (E α)) {x y}, Conn ((K ++ [(u, v, w)]) ++ (pre ++ P)) x y →
      Conn (K ++ (pre ++ f :: P)) x y := by
    intro P x y c
    refine conn_sub ?_ c
    intro g hg
    simp only [List.mem_append, List.mem_singleton] at hg
    rcases hg with (hg | rfl) | hg | hg
    · exact conn_mem (by simp [hg])
    · exact hcp.mono (fun g hg => by
        simp only [List.mem_append, List.mem_cons, List.not_mem_nil, or_false] at hg ⊢
        tauto)
    · exact conn_mem (by simp [hg])
    · exact conn_mem (by simp [hg])
  have hfo : ForestOver (K ++ [(u, v, w)]) (pre ++ post) := by
    intro p g q hsplit
    rcases List.append_eq_append_iff.mp hsplit with ⟨a', hp, hq⟩ | ⟨c', hpre, hpost⟩
    · -- p = pre ++ a', post = a' ++ g :: q : the split is inside `post`
      subst hp
      intro hcon
      have := claim' a' hcon
      refine hf (pre ++ f :: a') g q ?_ this
      rw [hT, hq]; simp
    · -- pre = p ++ c', c' ++ post = g :: q
      cases c' with
      | nil =>
        -- split is at the head of post
        simp only [List.nil_append] at hpost
        rw [List.append_nil] at hpre
        subst hpre
        intro hcon
        have hcon' : Conn ((K ++ [(u, v, w)]) ++ (pre ++ [])) g.1 g.2.1 := by simpa using hcon
        have := claim' [] hcon'
        refine hf (pre ++ [f]) g q ?_ (by simpa using this)
        rw [hT, hpost]; simp
      | cons g' q' =>
        -- split is inside `pre`
        simp only [List.cons_append, List.cons.injEq] at hpost
        obtain ⟨hgg, hq⟩ := hpost
        subst hgg
        intro hcon
        have hcon' : Conn ((K ++ p) ++ [(u, v, w)]) g.1 g.2.1 :=
          hcon.mono (fun z hz => by simp only [List.mem_append] at hz ⊢; tauto)
        have hmono : ∀ {x y}, Conn (K ++ p) x y → Conn ((K ++ p) ++ [g]) x y :=
          fun c => c.mono (fun z hz => List.mem_append_left _ hz)
        have eg : Conn ((K ++ p) ++ [g]) g.1 g.2.1 := conn_mem (by simp)
        have hup : ∀ {x y}, Conn ((K ++ p) ++ [g]) x y → Conn (K ++ pre) x y :=
          fun c => c.mono (fun z hz => by
            rw [hpre]; simp only [List.mem_append, List.mem_cons] at hz ⊢; tauto)
        rcases conn_snoc hcon' with h | ⟨h1, h2⟩ | ⟨h1, h2⟩
        · refine hf p g (q' ++ f :: post) ?_ h
          rw [hT, hpre]; simp
        · -- g.1 ~ u, v ~ g.2.1 in K ++ p, so u ~ v in K ++ p ++ [g]
          exact hnp (hup ((hmono h1).symm.trans (eg.trans (hmono h2).symm)))
        · exact hnp (hup ((hmono h2).trans (eg.symm.trans (hmono h1))))
  refine ⟨pre, f, post, hT, hfo, ?_, ?_⟩
  · -- the new edge does not stay: it would be connected by the edges before it
    intro hm
    rcases List.mem_append.mp hm with hm | hm
    · exact hnp (conn_mem (g := (u, v, w)) (List.mem_append_right _ hm))
    · obtain ⟨p', q', rfl⟩ := List.append_of_mem hm
      refine hf (pre ++ f :: p') (u, v, w) q' (by rw [hT]; simp) ?_
      exact hcp.mono (fun g hg => by
        simp only [List.mem_append, List.mem_cons, List.not_mem_nil, or_false] at hg ⊢
        tauto)
  · intro x y c
    rw [hT] at c
    exact claim post c

/-! ## weights -/

section Weight
variable [AddCommGroup α]

/-- total weight of an edge list -/
def weight (T : List (E α)) : α := (T.map (fun e => e.2.2)).sum

@[simp] theorem weight_nil : weight ([] : List (E α)) = 0 := rfl

@[simp] theorem weight_cons (e : E α) (T : List (E α)) : weight (e :: T) = e.2.2 + weight T := by
  simp [weight]

@[simp] theorem weight_append (A B : List (E α)) : weight (A ++ B) = weight A + weight B := by
  simp [weight]

theorem weight_perm {A B : List (E α)} (h : A.Perm B) : weight A = weight B := by
  unfold weight
  exact (h.map _).sum_eq

end Weight

/-! ## spanning forests -/

/-- `T` is a spanning forest of the edge list `es`: its edges are taken from `es`, it is acyclic
(`Forest`, stated along the list order of `T`; `forest_perm` / `forest_iff_acyclic` below show the
notion does not depend on the order) and it connects whatever `es` connects.

`sub` is stated as set inclusion: this is the *weakest* reading of "sub-multiset", because a forest
never contains the same edge twice (`Forest.nodup`), so set inclusion and multiset inclusion
(`List.Subperm`) coincide for forests (`SpanningForest.subperm`).  Parallel edges with different
weights are different elements of `E α`, and self loops `(u,u,w)` are never in a forest
(`Forest.no_self_loop`), whatever `es` contains. -/
structure SpanningForest (es T : List (E α)) : Prop where
  sub : ∀ e, e ∈ T → e ∈ es
  forest : Forest T
  span : ∀ e, e ∈ es → Conn T e.1 e.2.1

theorem Forest.no_self_loop {T : List (E α)} (hf : Forest T) (u : Nat) (w : α) : (u, u, w) ∉ T :=
  ((forestOver_nil_iff T).mpr hf).not_mem (e := (u, u, w)) (.refl u)

theorem Forest.nodup {T : List (E α)} (hf : Forest T) : T.Nodup := by
  induction T with
  | nil => exact List.nodup_nil
  | cons e t ih =>
    refine List.nodup_cons.mpr ⟨?_, ih ?_⟩
    · intro hm
      obtain ⟨p, q, rfl⟩ := List.append_of_mem hm
      exact hf (e :: p) e q rfl (conn_mem List.mem_cons_self)
    · intro pre x post h hc
      exact hf (e :: pre) x post (by rw [h]; rfl) (hc.mono (fun _ h => List.mem_cons_of_mem _ h))

theorem SpanningForest.subperm {es T : List (E α)} (h : SpanningForest es T) : T.Subperm es :=
  List.subperm_of_subset (Forest.nodup h.forest) h.sub

theorem kstep_tree_sub (s : St α) (e : E α) (L : List (E α)) (h : ∀ x, x ∈ s.tree → x ∈ L) :
    ∀ x, x ∈ (kstep s e).tree → x = e ∨ x ∈ L := by
  intro x hx
  unfold kstep at hx
  split at hx
  · exact .inr (h x hx)
  · rcases List.mem_append.mp hx with hx | hx
    · exact .inr (h x hx)
    · exact .inl (by simpa using hx)

theorem foldl_tree_sub (es : List (E α)) : ∀ (s : St α) (L : List (E α)), (∀ x, x ∈ s.tree → x ∈ L) →
    ∀ x, x ∈ (es.foldl kstep s).tree → x ∈ L ∨ x ∈ es := by
  induction es with
  | nil => intro s L h x hx; exact .inl (h x hx)
  | cons e t ih =>
    intro s L h x hx
    simp only [List.foldl_cons] at hx
    rcases ih (kstep s e) (e :: L) (fun y hy => by
      rcases kstep_tree_sub s e L h y hy with rfl | hy
      · exact List.mem_cons_self
      · exact List.mem_cons_of_mem _ hy) x hx with hx | hx
    · rcases List.mem_cons.mp hx with rfl | hx
      · exact .inr List.mem_cons_self
      · exact .inl hx
    · exact .inr (List.mem_cons_of_mem _ hx)

/-- the accepted edges are input edges -/
theorem kruskal_tree_sub (es : List (E α)) : ∀ e, e ∈ (kruskal es).tree → e ∈ es := by
  intro e he
  rcases foldl_tree_sub es { cls := id, tree := [] } [] (fun x hx => by cases hx) e he with h | h
  · cases h
  · exact h

/-- **the Kruskal tree is a spanning forest of its input** (any processing order) -/
theorem kruskal_is_spanning_forest (es : List (E α)) : SpanningForest es (kruskal es).tree :=
  ⟨kruskal_tree_sub es, Fs.Kruskal.kruskal_forest es, Fs.Kruskal.kruskal_spanning es⟩

open Fs.Mst in
/-- the executed Kruskal tree is a spanning forest of the edges handed over -/
theorem kruskal_exec_is_spanning_forest (nb : Nat) (edges : Array (BEdge α)) (perm : List Nat)
    (hv : ∀ i, i ∈ perm → ∀ e, edges[i]? = some e → e.l0 < nb ∧ e.l1 < nb) :
    SpanningForest (perm.filterMap (toE edges))
      ((Fs.Mst.kruskal nb edges perm).filterMap (toE edges)) := by
  rw [kruskal_sim nb edges perm hv]
  exact kruskal_is_spanning_forest _

/-! ## the forest notion does not depend on the list order -/

/-- order-independent acyclicity: no edge is connected by the *other* edges -/
def Acyclic (T : List (E α)) : Prop :=
  ∀ pre e post, T = pre ++ e :: post → ¬ Conn (pre ++ post) e.1 e.2.1

theorem forest_iff_acyclic (T : List (E α)) : Forest T ↔ Acyclic T := by
  constructor
  · intro hf pre e post hT hc
    have hn : ¬ Conn pre e.1 e.2.1 := hf pre e post hT
    obtain ⟨p, g, q, hpost, hnp, hcp⟩ := first_connecting e.1 e.2.1 post pre hn hc
    have mono : ∀ {x y}, Conn (pre ++ p) x y → Conn (pre ++ e :: p) x y :=
      fun c => c.mono (fun z hz => by simp only [List.mem_append, List.mem_cons] at hz ⊢; tauto)
    have ee : Conn (pre ++ e :: p) e.1 e.2.1 := conn_mem (by simp)
    refine hf (pre ++ e :: p) g q (by rw [hT, hpost]; simp) ?_
    rcases conn_snoc hcp with h | ⟨h1, h2⟩ | ⟨h1, h2⟩
    · exact absurd h hnp
    · exact (mono h1).symm.trans (ee.trans (mono h2).symm)
    · exact (mono h2).trans (ee.symm.trans (mono h1))
  · intro ha pre e post hT hc
    exact ha pre e post hT (hc.mono (fun _ h => List.mem_append_left _ h))

theorem acyclic_perm {T T' : List (E α)} (hp : T.Perm T') (ha : Acyclic T) : Acyclic T' := by
  intro pre e post hT' hc
  have hm : e ∈ T := hp.mem_iff.mpr (by rw [hT']; simp)
  obtain ⟨pre2, post2, hT⟩ := List.append_of_mem hm
  have h1 : (e :: (pre2 ++ post2)).Perm (e :: (pre ++ post)) :=
    (List.perm_middle.symm.trans (hT ▸ hp)).trans (hT' ▸ List.perm_middle)
  have h2 : (pre ++ post).Perm (pre2 ++ post2) := h1.cons_inv.symm
  exact ha pre2 e post2 hT (hc.mono (fun _ h => h2.subset h))

/-- **order independence**: being a forest is invariant under permutation of the edge list -/
theorem forest_perm {T T' : List (E α)} (hp : T.Perm T') (hf : Forest T) : Forest T' :=
  (forest_iff_acyclic T').mpr (acyclic_perm hp ((forest_iff_acyclic T).mp hf))

/-- with decidable equality: `T` is a forest iff no edge is connected by `T.erase e` -/
theorem forest_iff_erase [DecidableEq α] (T : List (E α)) :
    Forest T ↔ ∀ e, e ∈ T → ¬ Conn (T.erase e) e.1 e.2.1 := by
  rw [forest_iff_acyclic]
  constructor
  · intro ha e hm hc
    obtain ⟨pre, post, hT⟩ := List.append_of_mem hm
    have h1 : (e :: T.erase e).Perm (e :: (pre ++ post)) :=
      (List.perm_cons_erase hm).symm.trans (hT ▸ List.perm_middle)
    exact ha pre e post hT (hc.mono (fun _ h => h1.cons_inv.subset h))
  · intro h pre e post hT hc
    have hm : e ∈ T := by rw [hT]; simp
    have h1 : (e :: T.erase e).Perm (e :: (pre ++ post)) :=
      (List.perm_cons_erase hm).symm.trans (hT ▸ List.perm_middle)
    exact h e hm (hc.mono (fun _ h => h1.cons_inv.symm.subset h))

/-- spanning forests are invariant under permutation of both lists -/
theorem SpanningForest.perm {es es' T T' : List (E α)} (he : es.Perm es') (hT : T.Perm T')
    (h : SpanningForest es T) : SpanningForest es' T' where
  sub e hm := he.subset (h.sub e (hT.symm.subset hm))
  forest := forest_perm hT h.forest
  span e hm := (h.span e (he.symm.subset hm)).mono (fun _ h => hT.subset h)

/-- the multiset / order-independent formulation implies `SpanningForest` -/
theorem SpanningForest.of_subperm_acyclic {es T : List (E α)} (hsub : T.Subperm es) (ha : Acyclic T)
    (hspan : ∀ e, e ∈ es → Conn T e.1 e.2.1) : SpanningForest es T :=
  ⟨fun _ h => hsub.subset h, (forest_iff_acyclic T).mpr ha, hspan⟩

/-! ## minimality -/

section Min
variable [AddCommGroup α] [LinearOrder α] [IsOrderedAddMonoid α]

/-- generalisation over Kruskal's running state: forests / spanning relative to the accepted edges -/
theorem min_weight_aux (es : List (E α)) : es.Pairwise (fun a b => a.2.2 ≤ b.2.2) →
    ∀ (s : St α), Agree s → ∀ T' : List (E α), (∀ g, g ∈ T' → g ∈ es) → ForestOver s.tree T' →
      (∀ g, g ∈ es → Conn (s.tree ++ T') g.1 g.2.1) →
      weight (es.foldl kstep s).tree ≤ weight s.tree + weight T' := by
  induction es with
  | nil =>
    intro _ s _ T' hsub _ _
    have : T' = [] := List.eq_nil_iff_forall_not_mem.mpr (fun g hg => by cases hsub g hg)
    subst this
    simp
  | cons e t ih =>
    intro hs s ha T' hsub hf hspan
    obtain ⟨u, v, w⟩ := e
    rw [List.pairwise_cons] at hs
    simp only [List.foldl_cons]
    by_cases hc : s.cls u = s.cls v
    · -- rejected: the edge is a self loop modulo the accepted edges, so it is not in T'
      have hk : kstep s (u, v, w) = s := by unfold kstep; simp [hc]
      rw [hk]
      have hnm : (u, v, w) ∉ T' := hf.not_mem (e := (u, v, w)) ((ha u v).mp hc)
      refine ih hs.2 s ha T' ?_ hf (fun g hg => hspan g (List.mem_cons_of_mem _ hg))
      intro g hg
      rcases List.mem_cons.mp (hsub g hg) with rfl | h
      · exact absurd hg hnm
      · exact h
    · -- accepted: exchange
      have hn : ¬ Conn s.tree u v := fun c => hc ((ha u v).mpr c)
      have htree : (kstep s (u, v, w)).tree = s.tree ++ [(u, v, w)] := by unfold kstep; simp [hc]
      have ha' : Agree (kstep s (u, v, w)) := agree_step s _ ha
      obtain ⟨pre, f, post, hT, hfo, hnm, hconn⟩ :=
        exchange s.tree T' u v w hf hn (hspan (u, v, w) List.mem_cons_self)
      have hfm : f ∈ T' := by rw [hT]; simp
      have hwf : w ≤ f.2.2 := by
        rcases List.mem_cons.mp (hsub f hfm) with rfl | h
        · exact le_refl _
        · exact hs.1 f h
      have key := ih hs.2 (kstep s (u, v, w)) ha' (pre ++ post) ?_ (by rw [htree]; exact hfo) ?_
      · rw [htree] at key
        rw [hT]
        simp only [weight_append, weight_cons, weight_nil, add_zero] at key ⊢
        calc weight (List.foldl kstep (kstep s (u, v, w)) t).tree
            ≤ weight s.tree + w + (weight pre + weight post) := key
          _ = weight s.tree + (weight pre + (w + weight post)) := by abel
          _ ≤ weight s.tree + (weight pre + (f.2.2 + weight post)) := by
              exact add_le_add_right (add_le_add_right (add_le_add_left hwf _) _) _
      · intro g hg
        have hgT : g ∈ T' := by
          rw [hT]; simp only [List.mem_append, List.mem_cons] at hg ⊢; tauto
        rcases List.mem_cons.mp (hsub g hgT) with rfl | h
        · exact absurd hg hnm
        · exact h
      · intro g hg
        rw [htree]
        exact hconn _ _ (hspan g (List.mem_cons_of_mem _ hg))

/-- **minimality**: with the input sorted by non-decreasing weight, the Kruskal tree has minimum
total weight among all spanning forests of the input edges -/
theorem kruskal_min_weight (es : List (E α)) (hs : es.Pairwise (fun a b => a.2.2 ≤ b.2.2))
    (T' : List (E α)) (h' : SpanningForest es T') :
    weight (kruskal es).tree ≤ weight T' := by
  have := min_weight_aux es hs { cls := id, tree := [] } agree_init T' h'.sub
    ((forestOver_nil_iff T').mpr h'.forest) (fun g hg => by simpa using h'.span g hg)
  simpa [kruskal] using this

/-- minimality among spanning forests given in the order-independent form (`Subperm`, `Acyclic`) -/
theorem kruskal_min_weight' (es : List (E α)) (hs : es.Pairwise (fun a b => a.2.2 ≤ b.2.2))
    (T' : List (E α)) (hsub : T'.Subperm es) (ha : Acyclic T')
    (hspan : ∀ e, e ∈ es → Conn T' e.1 e.2.1) :
    weight (kruskal es).tree ≤ weight T' :=
  kruskal_min_weight es hs T' (SpanningForest.of_subperm_acyclic hsub ha hspan)

/-- Kruskal's tree is a *minimum* spanning forest: it is one, and no other one is lighter -/
theorem kruskal_minimum_spanning_forest (es : List (E α))
    (hs : es.Pairwise (fun a b => a.2.2 ≤ b.2.2)) :
    SpanningForest es (kruskal es).tree ∧
      ∀ T', SpanningForest es T' → weight (kruskal es).tree ≤ weight T' :=
  ⟨kruskal_is_spanning_forest es, kruskal_min_weight es hs⟩

/-! ## the executed Kruskal -/

open Fs.Mst in
/-- **minimality for the executed array Kruskal** (`Fs.Mst.kruskal`), through `kruskal_sim`:
`perm` lists edge indices with end points `< nb` (`hv`, as in `C15.kruskal_sim`), sorted by pass
elevation `pe` (`hsorted`; what `std::sort` provides, see `validPerm_sorted`) -/
theorem kruskal_exec_min_weight (nb : Nat) (edges : Array (BEdge α)) (perm : List Nat)
    (hv : ∀ i, i ∈ perm → ∀ e, edges[i]? = some e → e.l0 < nb ∧ e.l1 < nb)
    (hsorted : perm.Pairwise (fun i j => ∀ a b, edges[i]? = some a → edges[j]? = some b → a.pe ≤ b.pe))
    (T' : List (E α)) (h' : SpanningForest (perm.filterMap (toE edges)) T') :
    weight ((Fs.Mst.kruskal nb edges perm).filterMap (toE edges)) ≤ weight T' := by
  rw [kruskal_sim nb edges perm hv]
  refine kruskal_min_weight _ ?_ T' h'
  refine List.Pairwise.filterMap (toE edges) ?_ hsorted
  intro i j hij x hx y hy
  unfold toE at hx hy
  cases hi : edges[i]? with
  | none => rw [hi] at hx; cases hx
  | some a =>
    cases hj : edges[j]? with
    | none => rw [hj] at hy; cases hy
    | some b =>
      rw [hi] at hx; rw [hj] at hy
      simp only [Option.map_some, Option.some.injEq] at hx hy
      subst hx; subst hy
      exact hij a b hi hj

theorem pairwise_of_adjacent {β : Type} (R : β → β → Prop) (htr : ∀ a b c, R a b → R b c → R a c) :
    ∀ l : List β, (∀ p, p ∈ l.zip l.tail → R p.1 p.2) → l.Pairwise R := by
  intro l
  induction l with
  | nil => intro _; exact List.Pairwise.nil
  | cons a l' ih =>
    intro h
    cases l' with
    | nil => exact List.pairwise_singleton R a
    | cons b l'' =>
      have hab : R a b := h (a, b) (by simp)
      have hrest : (b :: l'').Pairwise R := ih (fun p hp => h p (by
        simp only [List.tail_cons, List.zip_cons_cons, List.mem_cons] at hp ⊢
        exact .inr hp))
      refine List.pairwise_cons.mpr ⟨?_, hrest⟩
      intro x hx
      rcases List.mem_cons.mp hx with rfl | hx
      · exact hab
      · exact htr _ _ _ hab ((List.pairwise_cons.mp hrest).1 x hx)

omit [AddCommGroup α] [IsOrderedAddMonoid α] in
/-- the harness check `Fs.Mst.validPerm` (run on every execution) implies the sortedness
hypothesis of `kruskal_exec_min_weight`, for a scalar record whose `lt` is the order's `<` -/
theorem validPerm_sorted (S : Scalar α) (hlt : ∀ a b, S.lt a b = decide (a < b))
    (edges : Array (Mst.BEdge α)) (perm : List Nat) (h : Mst.validPerm S edges perm = true) :
    perm.Pairwise (fun i j => ∀ a b, edges[i]? = some a → edges[j]? = some b → a.pe ≤ b.pe) := by
  unfold Mst.validPerm at h
  simp only [Bool.and_eq_true, List.all_eq_true] at h
  have hadj := h.2
  have hp : perm.Pairwise (fun i j => ∃ a b, edges[i]? = some a ∧ edges[j]? = some b ∧ a.pe ≤ b.pe) := by
    refine pairwise_of_adjacent _ ?_ perm ?_
    · rintro i j k ⟨a, b, ha, hb, hab⟩ ⟨b', c, hb', hc, hbc⟩
      rw [hb] at hb'; cases hb'
      exact ⟨a, c, ha, hc, le_trans hab hbc⟩
    · intro p hp
      have := hadj p hp
      cases h1 : edges[p.1]? with
      | none => rw [h1] at this; cases this
      | some a =>
        cases h2 : edges[p.2]? with
        | none => rw [h1, h2] at this; cases this
        | some b =>
          rw [h1, h2] at this
          simp only [hlt, Bool.not_eq_eq_eq_not, Bool.not_true, decide_eq_false_iff_not, not_lt] at this
          exact ⟨a, b, rfl, rfl, this⟩
  refine hp.imp ?_
  rintro i j ⟨a, b, ha, hb, hab⟩ a' b' ha' hb'
  rw [ha] at ha'; rw [hb] at hb'; cases ha'; cases hb'
  exact hab

end Min

/-! ## concrete instances (hypotheses are satisfiable, conclusion is not vacuous) -/

section Examples

/-- a sorted input with a self loop `(1,1,1)` and a duplicated edge `(0,2,3)` -/
def exEs : List (E Int) := [(0, 1, 1), (1, 1, 1), (1, 2, 2), (0, 2, 3), (0, 2, 3), (2, 3, 4)]

/-- the same edges in another order: Kruskal then returns a different (heavier) spanning forest -/
def exEs' : List (E Int) := [(0, 2, 3), (2, 3, 4), (0, 1, 1), (1, 1, 1), (1, 2, 2), (0, 2, 3)]

example : exEs.Pairwise (fun a b => a.2.2 ≤ b.2.2) := by decide
example : (kruskal exEs).tree = [(0, 1, 1), (1, 2, 2), (2, 3, 4)] := by decide
example : (kruskal exEs').tree = [(0, 2, 3), (2, 3, 4), (0, 1, 1)] := by decide

/-- a competing spanning forest of `exEs` that is not the Kruskal tree -/
theorem exForest : SpanningForest exEs [(0, 2, 3), (2, 3, 4), (0, 1, 1)] := by
  have h := kruskal_is_spanning_forest exEs'
  have ht : (kruskal exEs').tree = [(0, 2, 3), (2, 3, 4), (0, 1, 1)] := by decide
  rw [ht] at h
  exact h.perm (by decide) (List.Perm.refl _)

/-- `kruskal_min_weight` on this instance: 7 ≤ 8 -/
example : weight (kruskal exEs).tree = 7 ∧ weight [((0, 2, 3) : E Int), (2, 3, 4), (0, 1, 1)] = 8 ∧
    weight (kruskal exEs).tree ≤ weight [((0, 2, 3) : E Int), (2, 3, 4), (0, 1, 1)] :=
  ⟨by decide, by decide, kruskal_min_weight exEs (by decide) _ exForest⟩

open Fs.Mst in
/-- executed instance: 3 basins, 4 lowest-pass edges, indices sorted by `pe` -/
def exEdges : Array (BEdge Int) :=
  #[⟨0, 1, 0, 0, 5, 0⟩, ⟨1, 2, 0, 0, 2, 0⟩, ⟨0, 2, 0, 0, 3, 0⟩, ⟨0, 1, 0, 0, 5, 0⟩]

example : Fs.Mst.kruskal 3 exEdges [1, 2, 0, 3] = [1, 2] := by
  simp [Fs.Mst.kruskal, Fs.Mst.kruskalStep, exEdges, Array.range, Array.getD]

example (T' : List (E Int)) (h' : SpanningForest ([1, 2, 0, 3].filterMap (toE exEdges)) T') :
    weight ((Fs.Mst.kruskal 3 exEdges [1, 2, 0, 3]).filterMap (toE exEdges)) ≤ weight T' := by
  refine kruskal_exec_min_weight 3 exEdges [1, 2, 0, 3] ?_ ?_ T' h'
  · intro i hi e he
    simp only [List.mem_cons, List.not_mem_nil, or_false] at hi
    rcases hi with rfl | rfl | rfl | rfl <;>
      (simp only [exEdges] at he; cases he; decide)
  · simp only [List.pairwise_cons, List.mem_cons, List.not_mem_nil, or_false]
    refine ⟨?_, ?_, ?_, ?_, List.Pairwise.nil⟩ <;>
      (intro j hj a b ha hb
       rcases hj with rfl | rfl | rfl <;>
         (simp only [exEdges] at ha hb; cases ha; cases hb; decide))

end Examples

end Fs.C15
