import FsProofs.Properties.C02MstUpperTree
import FsProofs.Properties.C02MstRouter

/-! # C02 for the spanning-tree sink resolver: the UPPER bound (stages U3 node level, U4)

"At every node the returned elevation equals the lowest level from which water can reach a base
level (the minimum over neighbour paths of the highest INPUT elevation on the path), exceeded by
at most one floating-point increment per grid node."  The lower bound is
`Fs.C02Mst.resolve_ge_spill_carve`; here the upper bound, for Kruskal's tree with a sorted
permutation and BOTH routing methods (`carve`, `basic`):

* `low_of_path` (U3) - for every path `p` from an unmasked base-level node to `y` through
  unmasked neighbours whose input elevations are all `≤ v`, every tree edge above the basin of `y`
  has pass elevation `≤ v` (`Low`): consecutive path nodes in different basins form a joining
  pair, so the stored pass of their two basins is `≤ v` (`c15_lowest_pass_exists`; two outer
  basins hang under the root by virtual edges of weight `lowest ≤ v`); hence the basin of `y` is
  joined to the root by stored edges of weight `≤ v`, hence by TREE edges of weight `≤ v`
  (`kruskal_bottleneck_scalar`), hence `Low` (`low_of_conn_root`);
* `bg_pe` - the pass elevation of a real oriented tree edge is not below the input at its two
  pass nodes;
* `resolve_le_spill` (U4) - `z' y ≤ nextUp^n v` for every such path and bound;
* `resolve_c02_upper_singleRouter` - the same after the single router.

Hypotheses beyond those of `resolve_c02_singleRouter`: `Fs.UB.Laws (ubOrd S)` (`lt` is a linear
order, `nextUp` strictly increasing and monotone: the hypothesis of `pflood_le_spill`, true of
finite binary64 up to the identification of ±0), the symmetric neighbour relation `hsym` (as for
the lower bound) and `hbn`: base-level nodes are grid nodes (`isBase b → b < n`; the drivers build
`isBase` from a list of node indices) - needed because `Fs.UB.Path` does not bound its seed. -/
namespace Fs.C02Mst
open Fs Fs.Flow Fs.Mst Fs.Dfs Fs.C06 Fs.C01Mst Fs.C02 Fs.C15 Fs.C15Connect Fs.Kruskal

variable {α : Type}

/-- `max a b` (the `std::max` of the code) is not below its arguments -/
theorem max_ge (S : Scalar α) (L : Fs.UB.Laws (ubOrd S)) (a b : α) :
    S.lt (S.max a b) a = false ∧ S.lt (S.max a b) b = false := by
  unfold Scalar.max
  split
  · rename_i h; exact ⟨ule_of_lt L h, ule_refl L _⟩
  · rename_i h; exact ⟨ule_refl L _, by simpa using h⟩

/-- and not above a common bound -/
theorem max_le (S : Scalar α) {a b v : α} (ha : S.lt v a = false) (hb : S.lt v b = false) :
    S.lt v (S.max a b) = false := by
  unfold Scalar.max
  split
  · exact hb
  · exact ha

section
variable (S : Scalar α) (e : Env α) (g : Graph α) (f : Nat → α) (perm : List Nat) (maxLow : Nat)
  {recv1 : Nat → Nat} {skip : Nat → Bool}

/-- **the pass elevation of a real oriented tree edge is not below the input elevation of its
pass nodes** (`c15_edge_sound`: `pe = max (f p0) (f p1)`; `orient` keeps or flips the edge). -/
theorem bg_pe (useBoruvka : Bool) (L : Fs.UB.Laws (ubOrd S)) (hg : SingleGraph e.topo.n g recv1 skip)
    (hdfs : g.dfs = dfsBottomUp e.topo.n g)
    (hmc : ∀ x, x < e.topo.n → e.mask x = false → e.mask (recv1 x) = false)
    (hwork : work e.topo g.dfs < Mst.none)
    (hF : Forest ((tree0Of S e g f useBoruvka perm maxLow).filterMap (toE (cbOf S e g f).edges))) :
    ∀ idx, idx ∈ (bgOf S e g f useBoruvka perm maxLow).tree → ∀ ed,
      (bgOf S e g f useBoruvka perm maxLow).edges[idx]? = some ed → ed.p0 ≠ Mst.none →
      S.lt ed.pe (f ed.p0) = false ∧ S.lt ed.pe (f ed.p1) = false := by
  have hlaws : LtLaws S := ⟨L.irrefl, L.trans⟩
  have H := sweepHyp_resolve S e hlaws hg hdfs hmc hwork
  obtain ⟨hE, hT, _⟩ := bgOf_eq S e g f useBoruvka perm maxLow
  obtain ⟨_, _, o_flip, _⟩ :=
    orient_spec (basins e.topo.n g e.mask e.isBase).outlets.length (cbOf S e g f).edges
      (tree0Of S e g f useBoruvka perm maxLow) (cbOf S e g f).root hF
  rw [← hE, ← hT] at o_flip
  have sound := c15_edge_sound (isBase := e.isBase) (f := f) H
  obtain ⟨_, v_list⟩ := c15_virtual (isBase := e.isBase) (f := f) H
  change (cbOf S e g f).edges.toList.filter _ = _ at v_list
  intro idx _ ed hed hr
  rcases o_flip idx with h1 | ⟨_, e0, he0, h1⟩
  · rw [hed] at h1
    obtain ⟨_, _, _, _, _, _, s7, _⟩ := sound ed (Array.mem_iff_getElem?.mpr ⟨idx, h1.symm⟩) hr
    rw [s7]; exact max_ge S L _ _
  · rw [hed] at h1; cases h1
    have hr0 : e0.p0 ≠ Mst.none := by
      intro hv
      have hm : e0 ∈ (cbOf S e g f).edges.toList.filter (fun ed => ed.p0 == Mst.none) :=
        List.mem_filter.mpr ⟨Array.mem_toList_iff.mpr (Array.mem_iff_getElem?.mpr ⟨idx, he0⟩), by simp [hv]⟩
      rw [v_list] at hm
      obtain ⟨o, _, rfl⟩ := List.mem_map.mp hm
      exact hr rfl
    obtain ⟨_, _, _, _, _, _, s7, _⟩ := sound e0 (Array.mem_iff_getElem?.mpr ⟨idx, he0⟩) hr0
    show S.lt e0.pe (f e0.p1) = false ∧ S.lt e0.pe (f e0.p0) = false
    rw [s7]; exact ⟨(max_ge S L _ _).2, (max_ge S L _ _).1⟩

/-- **U3: every neighbour path from a base level crosses passes at least as high as the tree
path.**  For Kruskal's tree with a sorted permutation: if `p` is a path from an unmasked
base-level node to `y` through unmasked neighbours and all input elevations on `p` are `≤ v`, then
every edge of the oriented basin tree above the basin of `y` has pass elevation `≤ v`. -/
theorem low_of_path (L : Fs.UB.Laws (ubOrd S)) (hg : SingleGraph e.topo.n g recv1 skip)
    (hdfs : g.dfs = dfsBottomUp e.topo.n g)
    (hmc : ∀ x, x < e.topo.n → e.mask x = false → e.mask (recv1 x) = false)
    (hbs : ∀ x, x < e.topo.n → e.isBase x = true → recv1 x = x)
    (hwork : work e.topo g.dfs < Mst.none)
    (hnb : ∀ i, i < e.topo.n → ∀ p, p ∈ e.topo.nbrs i → p.1 < e.topo.n)
    (hsym : ∀ u v d, u < e.topo.n → (v, d) ∈ e.topo.nbrs u → ∃ d', (u, d') ∈ e.topo.nbrs v)
    (hvp : validPerm S (cbOf S e g f).edges perm = true)
    (hfin : ∀ i, i < e.topo.n → S.lt S.lowest (f i) = true)
    (hbn : ∀ b, e.isBase b = true → b < e.topo.n)
    (y : Nat) (p : List Nat) (v : α)
    (hp : Fs.UB.Path (nbIdx e.topo) (baseSeed e) e.mask p y) (hb : Fs.UB.Bounded (ubOrd S) f p v) :
    y < e.topo.n ∧
    Low S (bgOf S e g f false perm maxLow).edges (bgOf S e g f false perm maxLow).tree v (labOf e g y) := by
  have hlaws : LtLaws S := ⟨L.irrefl, L.trans⟩
  have H := sweepHyp_resolve S e hlaws hg hdfs hmc hwork
  have bd : BasinData e.topo.n e.mask (recv0 g) (labOf e g) (outlOf e g) :=
    basinData_of hg hdfs e.mask e.isBase hmc
  have hmemn : ∀ x, x ∈ g.dfs → x < e.topo.n := fun x hx => by
    rw [hdfs] at hx; exact (Fs.C19.mem_order hg x).mp hx
  have hmemd : ∀ x, x < e.topo.n → x ∈ g.dfs := fun x hx => by
    rw [hdfs]; exact (Fs.C19.mem_order hg x).mpr hx
  have hedlt := cb_edges_lt S e g f hlaws hg hdfs hmc hwork hnb
  have ht0 : tree0Of S e g f false perm maxLow =
      kruskal (basins e.topo.n g e.mask e.isBase).outlets.length (cbOf S e g f).edges perm := by
    simp [tree0Of]
  have hF : Forest ((tree0Of S e g f false perm maxLow).filterMap (toE (cbOf S e g f).edges)) := by
    rw [ht0]
    exact Fs.C15.kruskal_forest _ _ perm (fun i _ ed hed => hedlt i ed hed)
  -- the stored edges of pass elevation `≤ v`
  generalize hEV : (perm.filterMap (toE (cbOf S e g f).edges)).filter (fun x => !S.lt v x.2.2) = EV
  have hstore : ∀ (k : Nat) (ed : BEdge α), (cbOf S e g f).edges[k]? = some ed → S.lt v ed.pe = false →
      Conn EV ed.l0 ed.l1 := by
    intro k ed hk hpe
    have hksz : k < (cbOf S e g f).edges.size := by
      rcases Nat.lt_or_ge k (cbOf S e g f).edges.size with h1 | h1
      · exact h1
      · rw [Array.getElem?_eq_none h1] at hk; cases hk
    apply Conn.edge ed.l0 ed.l1 ed.pe
    rw [← hEV]
    refine List.mem_filter.mpr ⟨List.mem_filterMap.mpr ⟨k, validPerm_mem S _ perm hvp k hksz, ?_⟩, ?_⟩
    · simp [toE, hk]
    · simp [hpe]
  -- virtual edges and the root
  obtain ⟨v_root, v_list⟩ := c15_virtual (isBase := e.isBase) (f := f) H
  change (cbOf S e g f).root = _ at v_root
  change (cbOf S e g f).edges.toList.filter _ = _ at v_list
  have hlabout : ∀ x, x < e.topo.n → e.mask x = false →
      (outlOf e g).getD (labOf e g x) 0 = (basins e.topo.n g e.mask e.isBase).outlets.getD (labOf e g x) 0 := by
    intro x _ _; unfold outlOf; rw [toArray_getD]
  -- an outer basin is joined to the root basin by a virtual edge, of weight `lowest`
  have houter : ∀ x, x < e.topo.n → e.mask x = false →
      e.isBase ((basins e.topo.n g e.mask e.isBase).outlets.getD (labOf e g x) 0) = true →
      S.lt v S.lowest = false →
      Conn EV (cbOf S e g f).root (labOf e g x) ∧
      (cbOf S e g f).root < (basins e.topo.n g e.mask e.isBase).outlets.length := by
    intro x hx hmx hbx hlo
    have hin : InB e.topo.n e.mask (labOf e g) (labOf e g x) x := ⟨hx, hmx, rfl⟩
    have hpit := bd.inB_pit hin
    have hself := bd.pit_self' hin
    rw [hlabout x hx hmx] at hpit hself
    generalize (basins e.topo.n g e.mask e.isBase).outlets.getD (labOf e g x) 0 = oo at hpit hself hbx
    have hout : oo ∈ outers e.mask e.isBase (recv0 g) g.dfs := by
      unfold outers
      refine List.mem_filter.mpr ⟨hmemd _ hpit.1, ?_⟩
      show (isRootB e.mask (recv0 g) oo && e.isBase oo) = true
      unfold isRootB
      rw [hpit.2.1, hself, hbx]; simp
    cases hos : outers e.mask e.isBase (recv0 g) g.dfs with
    | nil => rw [hos] at hout; cases hout
    | cons o1 rest =>
      rw [hos] at v_root v_list hout
      have ho1 : o1 ∈ outers e.mask e.isBase (recv0 g) g.dfs := by rw [hos]; simp
      have ho1' : o1 < e.topo.n ∧ e.mask o1 = false := by
        unfold outers at ho1
        obtain ⟨h1, h2⟩ := List.mem_filter.mp ho1
        simp only [isRootB, Bool.and_eq_true, Bool.not_eq_true', beq_iff_eq] at h2
        exact ⟨hmemn o1 h1, h2.1.1⟩
      have hrlt : (cbOf S e g f).root < (basins e.topo.n g e.mask e.isBase).outlets.length := by
        rw [v_root]
        have := bd.lab_lt o1 ho1'.1 ho1'.2
        simpa [outlOf] using this
      refine ⟨?_, hrlt⟩
      rcases List.mem_cons.mp hout with h1 | h1
      · rw [← hpit.2.2, h1, v_root]; exact .refl _
      · have hm : vE S (cbOf S e g f).root (labOf e g oo) ∈
            (cbOf S e g f).edges.toList.filter (fun ed => ed.p0 == Mst.none) := by
          rw [v_list]; exact List.mem_map.mpr ⟨oo, h1, rfl⟩
        obtain ⟨k, hk⟩ := Array.mem_iff_getElem?.mp (Array.mem_toList_iff.mp (List.mem_filter.mp hm).1)
        have := hstore k _ hk hlo
        rw [← hpit.2.2]; exact this
  -- two neighbouring unmasked nodes of input elevation `≤ v` lie in basins joined within `v`
  have hlow := c15_lowest_pass_exists (isBase := e.isBase) (f := f) H
  have hadj : ∀ u w d, u < e.topo.n → e.mask u = false → (w, d) ∈ e.topo.nbrs u → e.mask w = false →
      S.lt v (f u) = false → S.lt v (f w) = false →
      Conn EV (labOf e g u) (labOf e g w) := by
    intro u w d hu hmu hw hmw hfu hfw
    have hwn : w < e.topo.n := hnb u hu _ hw
    obtain ⟨d', hw'⟩ := hsym u w d hu hw
    have hlo : S.lt v S.lowest = false := ule_trans L (ule_of_lt L (hfin u hu)) hfu
    have edge_conn : ∀ (a b : Nat) (dd : α), a < e.topo.n → e.mask a = false → (b, dd) ∈ e.topo.nbrs a →
        e.mask b = false → S.lt v (f a) = false → S.lt v (f b) = false →
        e.isBase ((basins e.topo.n g e.mask e.isBase).outlets.getD (labOf e g a) 0) = false →
        (labOf e g a < labOf e g b ∨
          e.isBase ((basins e.topo.n g e.mask e.isBase).outlets.getD (labOf e g b) 0) = true) →
        Conn EV (labOf e g a) (labOf e g b) := by
      intro a b dd ha hma hab hmb' hfa hfb hin hadm
      obtain ⟨ed, hed, h0, h1, _, hle⟩ := hlow a (hmemd a ha) hma hin b dd hab hmb' hadm
      obtain ⟨k, hk⟩ := Array.mem_iff_getElem?.mp hed
      have := hstore k ed hk (ule_trans L hle (max_le S hfa hfb))
      rw [h0, h1] at this; exact this
    cases hou : e.isBase ((basins e.topo.n g e.mask e.isBase).outlets.getD (labOf e g u) 0) <;>
      cases hov : e.isBase ((basins e.topo.n g e.mask e.isBase).outlets.getD (labOf e g w) 0)
    · rcases Nat.lt_trichotomy (labOf e g u) (labOf e g w) with h | h | h
      · exact edge_conn u w d hu hmu hw hmw hfu hfw hou (Or.inl h)
      · rw [h]; exact .refl _
      · exact (edge_conn w u d' hwn hmw hw' hmu hfw hfu hov (Or.inl h)).symm
    · exact edge_conn u w d hu hmu hw hmw hfu hfw hou (Or.inr hov)
    · exact (edge_conn w u d' hwn hmw hw' hmu hfw hfu hov (Or.inr hou)).symm
    · exact (houter u hu hmu hou hlo).1.symm.trans (houter w hwn hmw hov hlo).1
  -- along the path
  have hpath : ∀ (q : List Nat) (z : Nat), Fs.UB.Path (nbIdx e.topo) (baseSeed e) e.mask q z →
      (∀ w, w ∈ q → S.lt v (f w) = false) →
      z < e.topo.n ∧ e.mask z = false ∧ Conn EV (cbOf S e g f).root (labOf e g z) ∧
      (cbOf S e g f).root < (basins e.topo.n g e.mask e.isBase).outlets.length := by
    intro q z hq
    induction hq with
    | seed s hs hm =>
      intro hbq
      have hsb : e.isBase s = true := by
        simp only [baseSeed, Bool.and_eq_true] at hs; exact hs.1
      have hsn := hbn s hsb
      have hfs := hbq s (by simp)
      have hlo : S.lt v S.lowest = false := ule_trans L (ule_of_lt L (hfin s hsn)) hfs
      have hbout : e.isBase ((basins e.topo.n g e.mask e.isBase).outlets.getD (labOf e g s) 0) = true := by
        have := outlet_of_self hg hdfs e.mask e.isBase hmc s hsn hm (hbs s hsn hsb)
        rw [← hlabout s hsn hm]
        show e.isBase ((outlOf e g).getD (labOf e g s) 0) = true
        unfold outlOf labOf
        rw [this]; exact hsb
      obtain ⟨h1, h2⟩ := houter s hsn hm hbout hlo
      exact ⟨hsn, hm, h1, h2⟩
    | step q c m hq hm hmask ih =>
      intro hbq
      obtain ⟨hc, hmc', hcr, hrl⟩ := ih (fun w hw => hbq w (List.mem_append_left _ hw))
      obtain ⟨pr, hpr, hpr1⟩ := List.mem_map.mp hm
      have hcm : (m, pr.2) ∈ e.topo.nbrs c := by rw [← hpr1]; exact hpr
      have hfc := hbq c (List.mem_append_left _ hq.end_mem)
      have hfm := hbq m (by simp)
      exact ⟨hnb c hc _ hcm, hmask, hcr.trans (hadj c m pr.2 hc hmc' hcm hmask hfc hfm), hrl⟩
  obtain ⟨hy, _, hcy, hrlt⟩ := hpath p y hp (fun w hw => (ule_iff S _ _).mp (hb w hw))
  refine ⟨hy, ?_⟩
  -- Kruskal's tree joins the same basins within `v`
  rw [← hEV] at hcy
  have hct := kruskal_bottleneck_scalar S L (basins e.topo.n g e.mask e.isBase).outlets.length
    (cbOf S e g f).edges perm (fun i _ ed hed => hedlt i ed hed) hvp v _ _ hcy
  rw [← ht0] at hct
  obtain ⟨hE, hT', _⟩ := bgOf_eq S e g f false perm maxLow
  rw [hE, hT']
  exact low_of_conn_root S _ _ _ _ hF (fun i _ e0 he0 => hedlt i e0 he0) hrlt v _ hct

/-- **U4: the returned elevation is at most the spill level raised by one increment per grid
node** (Kruskal's tree, sorted permutation, `carve` or `basic`, any single-direction input graph
satisfying the hypotheses of `resolve_c01`).  For every unmasked node `y`, every path `p` from an
unmasked base-level node to `y` through unmasked neighbours and every bound `v` on the INPUT
elevations along `p`: `z' y ≤ nextUp^n v`. -/
theorem resolve_le_spill (carve : Bool) (L : Fs.UB.Laws (ubOrd S)) (hg : SingleGraph e.topo.n g recv1 skip)
    (hdfs : g.dfs = dfsBottomUp e.topo.n g)
    (hmc : ∀ x, x < e.topo.n → e.mask x = false → e.mask (recv1 x) = false)
    (hms : ∀ x, x < e.topo.n → e.mask x = true → recv1 x = x)
    (hbs : ∀ x, x < e.topo.n → e.isBase x = true → recv1 x = x)
    (hdesc : ∀ x, x < e.topo.n → recv1 x ≠ x → S.lt (f (recv1 x)) (f x) = true)
    (hwork : work e.topo g.dfs < Mst.none)
    (hnb : ∀ i, i < e.topo.n → ∀ p, p ∈ e.topo.nbrs i → p.1 < e.topo.n)
    (hsym : ∀ u v d, u < e.topo.n → (v, d) ∈ e.topo.nbrs u → ∃ d', (u, d') ∈ e.topo.nbrs v)
    (hvp : validPerm S (cbOf S e g f).edges perm = true)
    (hfin : ∀ i, i < e.topo.n → S.lt S.lowest (f i) = true)
    (hbn : ∀ b, e.isBase b = true → b < e.topo.n) :
    let n := e.topo.n
    let o := resolve S e g f false carve perm maxLow
    let z' := look o.elev S.zero
    ∀ y, e.mask y = false → ∀ p v,
      Fs.UB.Path (nbIdx e.topo) (baseSeed e) e.mask p y → Fs.UB.Bounded (ubOrd S) f p v →
      (ubOrd S).le (z' y) (Fs.UB.pw (ubOrd S) n v) = true := by
  intro n o z' y hm p v hp hb
  have hlaws : LtLaws S := ⟨L.irrefl, L.trans⟩
  have hnt : ∀ a b c, S.lt b a = false → S.lt c b = false → S.lt c a = false :=
    fun a b c h1 h2 => ule_trans L h1 h2
  obtain ⟨th, hinner, rh, _⟩ :=
    kruskal_sorted_hyps S e g f perm maxLow hlaws hg hdfs hmc hwork hnb hvp hnt hfin
  have hedlt := cb_edges_lt S e g f hlaws hg hdfs hmc hwork hnb
  have hF : Forest ((tree0Of S e g f false perm maxLow).filterMap (toE (cbOf S e g f).edges)) := by
    have ht0 : tree0Of S e g f false perm maxLow =
        kruskal (basins e.topo.n g e.mask e.isBase).outlets.length (cbOf S e g f).edges perm := by
      simp [tree0Of]
    rw [ht0]
    exact Fs.C15.kruskal_forest _ _ perm (fun i _ ed hed => hedlt i ed hed)
  have hpe := bg_pe S e g f perm maxLow false L hg hdfs hmc hwork hF
  obtain ⟨hy, hlow⟩ := low_of_path S e g f perm maxLow L hg hdfs hmc hbs hwork hnb hsym hvp hfin hbn y p v hp hb
  have hfy : S.lt v (f y) = false := (ule_iff S _ _).mp (hb y hp.end_mem)
  exact resolve_le_of_low S e g f false carve perm maxLow hg hdfs hmc hms hbs hdesc th hinner rh hpe L
    y hy hm v hlow hfy

end

/-- **C02, upper bound, spanning-tree resolver after the single router** (Kruskal, sorted
permutation, `carve` or `basic`).  Hypotheses: those of `resolve_c02_singleRouter` with the
order laws in the form `Fs.UB.Laws (ubOrd S)` (linear order, `nextUp` strictly increasing and
monotone; they imply `Fs.Router.Laws` and `next_gt`), the symmetric neighbour relation and
`hbn` (base levels are grid nodes).

For every unmasked node `y`, every path `p` from an unmasked base-level node to `y` through
unmasked neighbours and every `v` bounding the INPUT elevations on `p`, the returned elevation of
`y` is at most `v` raised by `n` increments (`n` = number of grid nodes).  With `p` the best path
and `v` its highest input elevation: returned elevation `≤ (spill level)⁺ⁿ`. -/
theorem resolve_c02_upper_singleRouter (S : Scalar α) (e : Env α) (par : Bool) (f : Nat → α) (perm : List Nat)
    (maxLow : Nat) (carve : Bool) (L : Fs.UB.Laws (ubOrd S))
    (hnb : ∀ i, i < e.topo.n → ∀ p, p ∈ e.topo.nbrs i → p.1 < e.topo.n)
    (hsym : ∀ u v d, u < e.topo.n → (v, d) ∈ e.topo.nbrs u → ∃ d', (u, d') ∈ e.topo.nbrs v)
    (hlow : Fs.C04.HLow S e f)
    (hwork : work e.topo (singleRouter S e par f).dfs < Mst.none)
    (hvp : validPerm S (cbOf S e (singleRouter S e par f) f).edges perm = true)
    (hfin : ∀ i, i < e.topo.n → S.lt S.lowest (f i) = true)
    (hbn : ∀ b, e.isBase b = true → b < e.topo.n) :
    let n := e.topo.n
    let g := singleRouter S e par f
    let o := resolve S e g f false carve perm maxLow
    let z' := look o.elev S.zero
    ∀ y, e.mask y = false → ∀ p v,
      Fs.UB.Path (nbIdx e.topo) (baseSeed e) e.mask p y → Fs.UB.Bounded (ubOrd S) f p v →
      (ubOrd S).le (z' y) (Fs.UB.pw (ubOrd S) n v) = true := by
  intro n g o z'
  have LR : Fs.Router.Laws (routerOps S) :=
    ⟨L.irrefl, L.trans, fun a b c h1 h2 => ule_trans L h2 h1⟩
  have hg := singleRouter_graph S e par f LR hnb hlow
  have hr0 := recv0_single S e par f
  have hdfs : g.dfs = dfsBottomUp n g := dfs_single S e par f
  have hlower := fun i hi => Fs.C04.recv_lower S e par f LR i hi hlow
  have hmc : ∀ x, x < n → e.mask x = false → e.mask (rowRecv S e f x) = false := by
    intro x hx hm
    rw [← hr0]
    rcases hlower x hx with h | ⟨_, h, _⟩
    · rw [h]; exact hm
    · exact h
  have hterm : ∀ x, x < n → (e.mask x || e.isBase x) = true → rowRecv S e f x = x := by
    intro x hx h
    rw [← hr0]
    simp [recv0, (Fs.C04.terminal_row S e par f x hx h).1]
  have hms : ∀ x, x < n → e.mask x = true → rowRecv S e f x = x :=
    fun x hx h => hterm x hx (by simp [h])
  have hbs : ∀ x, x < n → e.isBase x = true → rowRecv S e f x = x :=
    fun x hx h => hterm x hx (by simp [h])
  have hdesc : ∀ x, x < n → rowRecv S e f x ≠ x → S.lt (f (rowRecv S e f x)) (f x) = true := by
    intro x hx hne
    rw [← hr0] at hne ⊢
    rcases hlower x hx with h | ⟨h, _⟩
    · exact absurd h hne
    · exact h
  exact resolve_le_spill S e g f perm maxLow carve L hg hdfs hmc hms hbs hdesc hwork hnb hsym hvp hfin hbn

/-- **C02, "equals the spill level up to one increment per grid node"** (`carve`, after the
single router): lower bound (`resolve_c02_singleRouter`, T4) and upper bound together.  For an
unmasked node `y` connected through unmasked neighbours to an unmasked base-level node there is a
path `p` from a base level to `y` all of whose INPUT elevations are `≤ z' y` (so the spill level
is `≤ z' y`), and for EVERY such path `q` with inputs `≤ v`: `z' y ≤ nextUp^n v`. -/
theorem resolve_c02_spill_level_singleRouter (S : Scalar α) (e : Env α) (par : Bool) (f : Nat → α)
    (perm : List Nat) (maxLow : Nat) (L : Fs.UB.Laws (ubOrd S))
    (hnb : ∀ i, i < e.topo.n → ∀ p, p ∈ e.topo.nbrs i → p.1 < e.topo.n)
    (hsym : ∀ u v d, u < e.topo.n → (v, d) ∈ e.topo.nbrs u → ∃ d', (u, d') ∈ e.topo.nbrs v)
    (hlow : Fs.C04.HLow S e f)
    (hwork : work e.topo (singleRouter S e par f).dfs < Mst.none)
    (hvp : validPerm S (cbOf S e (singleRouter S e par f) f).edges perm = true)
    (hfin : ∀ i, i < e.topo.n → S.lt S.lowest (f i) = true)
    (hbn : ∀ b, e.isBase b = true → b < e.topo.n) :
    let n := e.topo.n
    let g := singleRouter S e par f
    let o := resolve S e g f false true perm maxLow
    let z' := look o.elev S.zero
    ∀ y b, y < n → e.mask y = false → b < n → e.mask b = false → e.isBase b = true →
      NConn e.topo e.mask y b →
      (∃ p, Fs.UB.Path (nbIdx e.topo) (baseSeed e) e.mask p y ∧
        Fs.UB.Bounded (ubOrd S) f p (z' y)) ∧
      (∀ q v, Fs.UB.Path (nbIdx e.topo) (baseSeed e) e.mask q y → Fs.UB.Bounded (ubOrd S) f q v →
        (ubOrd S).le (z' y) (Fs.UB.pw (ubOrd S) n v) = true) := by
  intro n g o z' y b hy hmy hb hmb hbb hc
  have LR : Fs.Router.Laws (routerOps S) :=
    ⟨L.irrefl, L.trans, fun a b c h1 h2 => ule_trans L h2 h1⟩
  have hlo := (resolve_c02_singleRouter S e par f perm maxLow true LR hnb hlow L.next_gt hwork hvp
    hfin).2.2.2.2.2.2 rfl hsym
  obtain ⟨p, h1, _, h3⟩ := hlo.2 y b hy hmy hb hmb hbb hc
  refine ⟨⟨p, h1, fun w hw => (ule_iff S _ _).mpr (h3 w hw)⟩, ?_⟩
  intro q v hq hbq
  exact resolve_c02_upper_singleRouter S e par f perm maxLow true L hnb hsym hlow hwork hvp hfin hbn
    y hmy q v hq hbq

end Fs.C02Mst
