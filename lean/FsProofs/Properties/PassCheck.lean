import FsModel.PassCheck

/-! # Soundness of the lowest-pass checker of `FsModel/PassCheck.lean` (property C15, first clause)

`checkPasses … edges = true → <E1 ∧ E2 ∧ E3 ∧ C15 ∧ E4 as ∀/∃ statements over the edge array>` for
ANY edge array (the one the implementation printed, after `orient_edges`).  Everything is stated
up to the swap of the two ends of an edge: E1 holds for the edge or for `swapE` of it, the other
clauses speak about the unordered pair of basins of an edge (`Joins e a b`).

No order law is needed for `checkPasses_sound`: the minimality statement (C15) is obtained from
the coverage clause E3 (some real edge of the pair of basins is not above the pass of the node
pair), the uniqueness clause E2 (that edge is THE edge of the pair) and E1 (the two basins of a
real edge are distinct and not both outer, so E3 applies).  The corollary `checkPasses_lowest`
(the pass elevation of the two STORED pass nodes is minimal) additionally needs that `beq` is
compatible with `lt` on the right (`BeqCompat`); this holds for `beq := S.beq` as soon as `≤` is
transitive (`beqCompat_of_trans`) and trivially for a `beq` that reflects equality
(`beqCompat_of_eq`). -/
namespace Fs.ImplCheck
open Fs.Mst (BEdge)

variable {α : Type}

/-! ### Prop-level vocabulary -/

/-- the edge joins the unordered pair of basins `{a, b}` -/
def Joins (e : BEdge α) (a b : Nat) : Prop := (e.l0 = a ∧ e.l1 = b) ∨ (e.l0 = b ∧ e.l1 = a)

/-- basin `k` exists and its outlet is a base level -/
def Outer (isBase : Nat → Bool) (outlets : List Nat) (k : Nat) : Prop :=
  k < outlets.length ∧ isBase (outlets.getD k 0) = true

/-- clause E1 for the edge as it stands -/
structure RealOk (S : Scalar α) (beq : α → α → Bool) (n : Nat) (nb : Nat → List (Nat × α))
    (mask isBase : Nat → Bool) (lab : Nat → Nat) (outlets : List Nat) (f : Nat → α)
    (e : BEdge α) : Prop where
  p0_lt : e.p0 < n
  p1_lt : e.p1 < n
  p0_unmasked : mask e.p0 = false
  p1_unmasked : mask e.p1 = false
  nbr : ∃ d, (e.p1, d) ∈ nb e.p0 ∧ beq d e.pl = true
  lab0 : lab e.p0 = e.l0
  lab1 : lab e.p1 = e.l1
  pe_eq : beq e.pe (S.max (f e.p0) (f e.p1)) = true
  ne : e.l0 ≠ e.l1
  l0_lt : e.l0 < outlets.length
  l1_lt : e.l1 < outlets.length
  inner : isBase (outlets.getD e.l0 0) = false ∨ isBase (outlets.getD e.l1 0) = false

theorem joinsB_iff {e : BEdge α} {a b : Nat} : joinsB e a b = true ↔ Joins e a b := by
  simp [joinsB, Joins]

theorem Joins.comm {e : BEdge α} {a b : Nat} (h : Joins e a b) : Joins e b a := Or.symm h

theorem joins_swapE {e : BEdge α} {a b : Nat} : Joins (swapE e) a b ↔ Joins e a b := by
  simp only [Joins, swapE]
  constructor
  · rintro (⟨h1, h2⟩ | ⟨h1, h2⟩)
    · exact Or.inr ⟨h2, h1⟩
    · exact Or.inl ⟨h2, h1⟩
  · rintro (⟨h1, h2⟩ | ⟨h1, h2⟩)
    · exact Or.inr ⟨h2, h1⟩
    · exact Or.inl ⟨h2, h1⟩

/-- two edges joining the same pair `{a, b}` join each other's pair -/
theorem Joins.same {e e' : BEdge α} {a b : Nat} (h : Joins e a b) (h' : Joins e' a b) :
    Joins e' e.l0 e.l1 := by
  rcases h with ⟨h1, h2⟩ | ⟨h1, h2⟩ <;> rcases h' with ⟨g1, g2⟩ | ⟨g1, g2⟩
  · exact Or.inl ⟨by omega, by omega⟩
  · exact Or.inr ⟨by omega, by omega⟩
  · exact Or.inr ⟨by omega, by omega⟩
  · exact Or.inl ⟨by omega, by omega⟩

theorem Joins.symm' {e e' : BEdge α} (h : Joins e e'.l0 e'.l1) : Joins e' e.l0 e.l1 := by
  rcases h with ⟨h1, h2⟩ | ⟨h1, h2⟩
  · exact Or.inl ⟨h1.symm, h2.symm⟩
  · exact Or.inr ⟨h2.symm, h1.symm⟩

theorem outerB_iff {isBase : Nat → Bool} {outlets : List Nat} {k : Nat} :
    outerB isBase outlets k = true ↔ Outer isBase outlets k := by
  simp [outerB, Outer]

theorem isVirt_iff {e : BEdge α} : isVirt e = true ↔ e.p0 = Fs.Mst.none := by
  simp [isVirt]

theorem isVirt_false_iff {e : BEdge α} : isVirt e = false ↔ e.p0 ≠ Fs.Mst.none := by
  simp [isVirt]

theorem pc_all_range_iff {n : Nat} {p : Nat → Bool} :
    (List.range n).all p = true ↔ ∀ i, i < n → p i = true := by
  simp [List.all_eq_true, List.mem_range]

/-! ### E1 -/

theorem realOk_sound {S : Scalar α} {beq : α → α → Bool} {n : Nat} {nb : Nat → List (Nat × α)}
    {mask isBase : Nat → Bool} {lab : Nat → Nat} {outlets : List Nat} {f : Nat → α} {e : BEdge α}
    (h : realOk S beq n nb mask isBase lab outlets f e = true) :
    RealOk S beq n nb mask isBase lab outlets f e := by
  simp only [realOk, Bool.and_eq_true, decide_eq_true_eq, Bool.not_eq_true', beq_iff_eq,
    bne_iff_ne, ne_eq, Bool.or_eq_true, List.any_eq_true] at h
  obtain ⟨⟨⟨⟨⟨⟨⟨⟨⟨⟨⟨a1, a2⟩, a3⟩, a4⟩, ⟨q, hq, hq1, hq2⟩⟩, a6⟩, a7⟩, a8⟩, a9⟩, a10⟩, a11⟩, a12⟩ := h
  refine ⟨a1, a2, a3, a4, ⟨q.2, ?_, hq2⟩, a6, a7, a8, a9, a10, a11, a12⟩
  rw [← hq1]
  exact hq

theorem realEdgesOk_sound {S : Scalar α} {beq : α → α → Bool} {n : Nat} {nb : Nat → List (Nat × α)}
    {mask isBase : Nat → Bool} {lab : Nat → Nat} {outlets : List Nat} {f : Nat → α}
    {es : List (BEdge α)} (h : realEdgesOk S beq n nb mask isBase lab outlets f es = true)
    {e : BEdge α} (he : e ∈ es) (hr : e.p0 ≠ Fs.Mst.none) :
    RealOk S beq n nb mask isBase lab outlets f e ∨
    RealOk S beq n nb mask isBase lab outlets f (swapE e) := by
  simp only [realEdgesOk, List.all_eq_true, Bool.or_eq_true] at h
  rcases h e he with (hv | h1) | h2
  · exact absurd (isVirt_iff.mp hv) hr
  · exact Or.inl (realOk_sound h1)
  · exact Or.inr (realOk_sound h2)

/-- what E1 says about the two basins of a real edge, whichever way round it is stored -/
theorem real_basins {S : Scalar α} {beq : α → α → Bool} {n : Nat} {nb : Nat → List (Nat × α)}
    {mask isBase : Nat → Bool} {lab : Nat → Nat} {outlets : List Nat} {f : Nat → α} {e : BEdge α}
    (h : RealOk S beq n nb mask isBase lab outlets f e ∨
      RealOk S beq n nb mask isBase lab outlets f (swapE e)) :
    e.l0 ≠ e.l1 ∧ e.l0 < outlets.length ∧ e.l1 < outlets.length ∧
    (isBase (outlets.getD e.l0 0) = false ∨ isBase (outlets.getD e.l1 0) = false) := by
  rcases h with h | h
  · exact ⟨h.ne, h.l0_lt, h.l1_lt, h.inner⟩
  · exact ⟨fun hh => h.ne hh.symm, h.l1_lt, h.l0_lt, h.inner.symm⟩

/-! ### E2 -/

theorem noDupPairs_pairwise : ∀ (l : List (BEdge α)), noDupPairs l = true →
    l.Pairwise (fun e e' => ¬ Joins e' e.l0 e.l1) := by
  intro l
  induction l with
  | nil => intro _; exact List.Pairwise.nil
  | cons e l ih =>
    intro h
    simp only [noDupPairs, Bool.and_eq_true, List.all_eq_true, Bool.not_eq_true'] at h
    refine List.pairwise_cons.mpr ⟨fun e' he' hj => ?_, ih h.2⟩
    have := h.1 e' he'
    rw [joinsB_iff.mpr hj] at this
    cases this

theorem noDupPairs_sound {l : List (BEdge α)} (h : noDupPairs l = true)
    {k1 k2 : Nat} {e1 e2 : BEdge α} (h1 : l[k1]? = some e1) (h2 : l[k2]? = some e2)
    (hj : Joins e1 e2.l0 e2.l1) : k1 = k2 := by
  have hp := List.pairwise_iff_getElem.mp (noDupPairs_pairwise l h)
  obtain ⟨b1, g1⟩ := List.getElem?_eq_some_iff.mp h1
  obtain ⟨b2, g2⟩ := List.getElem?_eq_some_iff.mp h2
  rcases Nat.lt_trichotomy k1 k2 with hlt | heq | hgt
  · have := hp k1 k2 b1 b2 hlt
    rw [g1, g2] at this
    exact absurd hj.symm' this
  · exact heq
  · have := hp k2 k1 b2 b1 hgt
    rw [g1, g2] at this
    exact absurd hj this

/-! ### E3 -/

theorem lowOk_sound {S : Scalar α} {n : Nat} {nb : Nat → List (Nat × α)} {mask isBase : Nat → Bool}
    {lab : Nat → Nat} {outlets : List Nat} {f : Nat → α} {es : List (BEdge α)}
    (h : lowOk S n nb mask isBase lab outlets f es = true)
    {i : Nat} (hi : i < n) (hmi : mask i = false) {j : Nat} {d : α} (hj : (j, d) ∈ nb i)
    (hmj : mask j = false) (hne : lab i ≠ lab j)
    (hin : isBase (outlets.getD (lab i) 0) = false ∨ isBase (outlets.getD (lab j) 0) = false) :
    ∃ e, e ∈ es ∧ e.p0 ≠ Fs.Mst.none ∧ Joins e (lab i) (lab j) ∧
      S.lt (S.max (f i) (f j)) e.pe = false := by
  unfold lowOk at h
  rw [pc_all_range_iff] at h
  have h1 := h i hi
  simp only [hmi, Bool.false_or, List.all_eq_true] at h1
  have h2 := h1 (j, d) hj
  simp only [hmj, Bool.false_or, Bool.or_eq_true, beq_iff_eq, Bool.and_eq_true] at h2
  rcases h2 with (h2 | h2) | h2
  · exact absurd h2 hne
  · rcases hin with e | e
    · rw [e] at h2; exact absurd h2.1 (by simp)
    · rw [e] at h2; exact absurd h2.2 (by simp)
  · simp only [passCovered, List.any_eq_true, Bool.and_eq_true, Bool.not_eq_true'] at h2
    obtain ⟨e, he, ⟨hv, hjn⟩, hlt⟩ := h2
    exact ⟨e, he, isVirt_false_iff.mp hv, joinsB_iff.mp hjn, hlt⟩

/-! ### E4 -/

theorem length_le_one_eq : ∀ (l : List Nat) {a b : Nat}, l.length ≤ 1 → a ∈ l → b ∈ l → a = b
  | [], _, _, _, ha, _ => by cases ha
  | [x], a, b, _, ha, hb => by
    rw [List.mem_singleton] at ha hb
    rw [ha, hb]
  | _ :: _ :: _, _, _, hl, _, _ => by simp at hl

theorem virtOk_sound {S : Scalar α} {beq : α → α → Bool} {isBase : Nat → Bool} {outlets : List Nat}
    {e : BEdge α} (h : virtOk S beq isBase outlets e = true) :
    e.p1 = Fs.Mst.none ∧ beq e.pe S.lowest = true ∧ e.l0 ≠ e.l1 ∧
    Outer isBase outlets e.l0 ∧ Outer isBase outlets e.l1 := by
  simp only [virtOk, Bool.and_eq_true, beq_iff_eq, bne_iff_ne, ne_eq, outerB_iff] at h
  obtain ⟨⟨⟨⟨a1, a2⟩, a3⟩, a4⟩, a5⟩ := h
  exact ⟨a1, a2, a3, a4, a5⟩

theorem rootOk_sound {isBase : Nat → Bool} {outlets : List Nat} {virt : List (BEdge α)} {r : Nat}
    (h : rootOk isBase outlets virt r = true) :
    (∀ e, e ∈ virt → e.l0 = r ∨ e.l1 = r) ∧
    (∀ k, Outer isBase outlets k → k ≠ r → ∃ e, e ∈ virt ∧ Joins e r k) := by
  simp only [rootOk, Bool.and_eq_true, List.all_eq_true, Bool.or_eq_true, beq_iff_eq,
    Bool.not_eq_true', List.mem_range, List.any_eq_true, joinsB_iff] at h
  refine ⟨h.1, fun k hk hkr => ?_⟩
  rcases h.2 k hk.1 with (h3 | h3) | h3
  · rw [hk.2] at h3; cases h3
  · exact absurd h3 hkr
  · exact h3

/-- E4 over a list of edges (existence part; uniqueness comes from E2) -/
theorem virtualOk_sound {S : Scalar α} {beq : α → α → Bool} {isBase : Nat → Bool}
    {outlets : List Nat} {es : List (BEdge α)} (h : virtualOk S beq isBase outlets es = true) :
    (∀ e, e ∈ es → e.p0 = Fs.Mst.none →
      e.p1 = Fs.Mst.none ∧ beq e.pe S.lowest = true ∧ e.l0 ≠ e.l1 ∧
      Outer isBase outlets e.l0 ∧ Outer isBase outlets e.l1) ∧
    (((∀ e, e ∈ es → e.p0 ≠ Fs.Mst.none) ∧
        ∀ a b, Outer isBase outlets a → Outer isBase outlets b → a = b) ∨
      ∃ r, Outer isBase outlets r ∧
        (∀ e, e ∈ es → e.p0 = Fs.Mst.none → e.l0 = r ∨ e.l1 = r) ∧
        ∀ k, Outer isBase outlets k → k ≠ r →
          ∃ e, e ∈ es ∧ e.p0 = Fs.Mst.none ∧ Joins e r k) := by
  simp only [virtualOk, Bool.and_eq_true] at h
  obtain ⟨hall, hroot⟩ := h
  have hmem : ∀ e, e ∈ es.filter isVirt ↔ e ∈ es ∧ e.p0 = Fs.Mst.none := by
    intro e; rw [List.mem_filter, isVirt_iff]
  have hv : ∀ e, e ∈ es → e.p0 = Fs.Mst.none →
      e.p1 = Fs.Mst.none ∧ beq e.pe S.lowest = true ∧ e.l0 ≠ e.l1 ∧
      Outer isBase outlets e.l0 ∧ Outer isBase outlets e.l1 := by
    intro e he hp
    exact virtOk_sound (List.all_eq_true.mp hall e ((hmem e).mpr ⟨he, hp⟩))
  refine ⟨hv, ?_⟩
  cases hvirt : es.filter isVirt with
  | nil =>
    rw [hvirt] at hroot
    simp only [decide_eq_true_eq] at hroot
    left
    refine ⟨fun e he hp => ?_, fun a b ha hb => ?_⟩
    · have : e ∈ es.filter isVirt := (hmem e).mpr ⟨he, hp⟩
      rw [hvirt] at this
      cases this
    · refine length_le_one_eq _ hroot ?_ ?_
      · exact List.mem_filter.mpr ⟨List.mem_range.mpr ha.1, ha.2⟩
      · exact List.mem_filter.mpr ⟨List.mem_range.mpr hb.1, hb.2⟩
  | cons v t =>
    rw [hvirt] at hroot
    simp only [Bool.or_eq_true] at hroot
    have hvm : v ∈ es ∧ v.p0 = Fs.Mst.none := (hmem v).mp (by rw [hvirt]; exact List.mem_cons_self)
    obtain ⟨_, _, _, ho0, ho1⟩ := hv v hvm.1 hvm.2
    right
    have key : ∀ r, Outer isBase outlets r → rootOk isBase outlets (v :: t) r = true →
        Outer isBase outlets r ∧
        (∀ e, e ∈ es → e.p0 = Fs.Mst.none → e.l0 = r ∨ e.l1 = r) ∧
        ∀ k, Outer isBase outlets k → k ≠ r →
          ∃ e, e ∈ es ∧ e.p0 = Fs.Mst.none ∧ Joins e r k := by
      intro r hr hro
      obtain ⟨g1, g2⟩ := rootOk_sound hro
      refine ⟨hr, fun e he hp => g1 e (by rw [← hvirt]; exact (hmem e).mpr ⟨he, hp⟩), ?_⟩
      intro k hk hkr
      obtain ⟨e, he, hj⟩ := g2 k hk hkr
      rw [← hvirt] at he
      exact ⟨e, ((hmem e).mp he).1, ((hmem e).mp he).2, hj⟩
    rcases hroot with hro | hro
    · exact ⟨v.l0, key v.l0 ho0 hro⟩
    · exact ⟨v.l1, key v.l1 ho1 hro⟩

/-! ### the checker -/

/-- **soundness of `checkPasses`**, for ANY edge array (the one the implementation reported after
`orient_edges`), every clause up to the swap of the two ends of an edge:

* **E1** every real edge (`p0 ≠ none`), or its swap, is a pair of neighbouring unmasked nodes
  `p0`, `p1 < n` with the stored distance `pl`, `p0` in basin `l0`, `p1` in basin `l1`, `pe` is
  `max (f p0) (f p1)` (through `beq`), the basins are distinct, valid, and not both outer;
* **E2** no two distinct edges join the same unordered pair of basins;
* **E3** every pair of neighbouring unmasked nodes of two distinct basins, not both outer, has a
  real edge joining its two basins whose `pe` is not above the pass elevation of the pair;
* **C15** the stored pass of a real edge is a minimum: it is not above the pass elevation of ANY
  pair of neighbouring unmasked nodes joining its two basins (either way round);
* **E4** a virtual edge (`p0 = none`) has `p1 = none`, `pe = lowest` (through `beq`) and joins two
  distinct outer basins; either there is no virtual edge and at most one outer basin, or there is
  an outer basin `r` (the root) that is an end of every virtual edge, and every outer basin other
  than `r` is joined to `r` by exactly one edge, a virtual one.

No hypothesis on `lt`, `max`, `beq`, the neighbour lists or the labels is needed. -/
theorem checkPasses_sound {S : Scalar α} {beq : α → α → Bool} {n : Nat} {nb : Nat → List (Nat × α)}
    {mask isBase : Nat → Bool} {lab : Nat → Nat} {outlets : List Nat} {f : Nat → α}
    {edges : Array (BEdge α)}
    (h : checkPasses S beq n nb mask isBase lab outlets f edges = true) :
    -- E1
    (∀ e, e ∈ edges → e.p0 ≠ Fs.Mst.none →
      RealOk S beq n nb mask isBase lab outlets f e ∨
      RealOk S beq n nb mask isBase lab outlets f (swapE e)) ∧
    -- E2
    (∀ (k1 k2 : Nat) e1 e2, edges[k1]? = some e1 → edges[k2]? = some e2 →
      Joins e1 e2.l0 e2.l1 → k1 = k2) ∧
    -- E3
    (∀ i, i < n → mask i = false → ∀ j d, (j, d) ∈ nb i → mask j = false → lab i ≠ lab j →
      (isBase (outlets.getD (lab i) 0) = false ∨ isBase (outlets.getD (lab j) 0) = false) →
      ∃ e, e ∈ edges ∧ e.p0 ≠ Fs.Mst.none ∧ Joins e (lab i) (lab j) ∧
        S.lt (S.max (f i) (f j)) e.pe = false) ∧
    -- C15: the stored pass is a minimum
    (∀ e, e ∈ edges → e.p0 ≠ Fs.Mst.none →
      ∀ i, i < n → mask i = false → ∀ j d, (j, d) ∈ nb i → mask j = false →
      Joins e (lab i) (lab j) → S.lt (S.max (f i) (f j)) e.pe = false) ∧
    -- E4
    (∀ e, e ∈ edges → e.p0 = Fs.Mst.none →
      e.p1 = Fs.Mst.none ∧ beq e.pe S.lowest = true ∧ e.l0 ≠ e.l1 ∧
      Outer isBase outlets e.l0 ∧ Outer isBase outlets e.l1) ∧
    (((∀ e, e ∈ edges → e.p0 ≠ Fs.Mst.none) ∧
        ∀ a b, Outer isBase outlets a → Outer isBase outlets b → a = b) ∨
      ∃ r, Outer isBase outlets r ∧
        (∀ e, e ∈ edges → e.p0 = Fs.Mst.none → e.l0 = r ∨ e.l1 = r) ∧
        ∀ k, Outer isBase outlets k → k ≠ r →
          ∃ (idx : Nat) (e : BEdge α), edges[idx]? = some e ∧ e.p0 = Fs.Mst.none ∧ Joins e r k ∧
            ∀ (idx' : Nat) (e' : BEdge α), edges[idx']? = some e' → Joins e' r k → idx' = idx) := by
  simp only [checkPasses, Bool.and_eq_true] at h
  obtain ⟨⟨⟨h1, h2⟩, h3⟩, h4⟩ := h
  have hmem : ∀ e, e ∈ edges ↔ e ∈ edges.toList := fun e => Array.mem_def
  have hidx : ∀ (k : Nat), edges[k]? = edges.toList[k]? := fun k => (Array.getElem?_toList (xs := edges) (i := k)).symm
  have E1 : ∀ e, e ∈ edges → e.p0 ≠ Fs.Mst.none →
      RealOk S beq n nb mask isBase lab outlets f e ∨
      RealOk S beq n nb mask isBase lab outlets f (swapE e) :=
    fun e he hr => realEdgesOk_sound h1 ((hmem e).mp he) hr
  have E2 : ∀ (k1 k2 : Nat) e1 e2, edges[k1]? = some e1 → edges[k2]? = some e2 →
      Joins e1 e2.l0 e2.l1 → k1 = k2 := by
    intro k1 k2 e1 e2 g1 g2 hj
    rw [hidx] at g1 g2
    exact noDupPairs_sound h2 g1 g2 hj
  have E3 : ∀ i, i < n → mask i = false → ∀ j d, (j, d) ∈ nb i → mask j = false → lab i ≠ lab j →
      (isBase (outlets.getD (lab i) 0) = false ∨ isBase (outlets.getD (lab j) 0) = false) →
      ∃ e, e ∈ edges ∧ e.p0 ≠ Fs.Mst.none ∧ Joins e (lab i) (lab j) ∧
        S.lt (S.max (f i) (f j)) e.pe = false := by
    intro i hi hmi j d hj hmj hne hin
    obtain ⟨e, he, r⟩ := lowOk_sound h3 hi hmi hj hmj hne hin
    exact ⟨e, (hmem e).mpr he, r⟩
  have hget : ∀ e, e ∈ edges → ∃ k : Nat, edges[k]? = some e := by
    intro e he
    obtain ⟨k, hk⟩ := List.getElem?_of_mem ((hmem e).mp he)
    exact ⟨k, by rw [hidx]; exact hk⟩
  refine ⟨E1, E2, E3, ?_, ?_⟩
  · intro e he hr i hi hmi j d hj hmj hjoin
    obtain ⟨hne, _, _, hin⟩ := real_basins (E1 e he hr)
    -- the two basins of the node pair are those of `e`
    have hpair : lab i ≠ lab j ∧
        (isBase (outlets.getD (lab i) 0) = false ∨ isBase (outlets.getD (lab j) 0) = false) := by
      rcases hjoin with ⟨a, b⟩ | ⟨a, b⟩
      · rw [← a, ← b]; exact ⟨hne, hin⟩
      · rw [← a, ← b]; exact ⟨fun hh => hne hh.symm, hin.symm⟩
    obtain ⟨e', he', _, hj', hle⟩ := E3 i hi hmi j d hj hmj hpair.1 hpair.2
    obtain ⟨k, hk⟩ := hget e he
    obtain ⟨k', hk'⟩ := hget e' he'
    have hkk : k' = k := E2 k' k e' e hk' hk (hjoin.same hj')
    rw [hkk, hk] at hk'
    cases hk'
    exact hle
  · obtain ⟨v1, v2⟩ := virtualOk_sound h4
    refine ⟨fun e he hp => v1 e ((hmem e).mp he) hp, ?_⟩
    rcases v2 with ⟨a, b⟩ | ⟨r, hr, a, b⟩
    · exact Or.inl ⟨fun e he => a e ((hmem e).mp he), b⟩
    · refine Or.inr ⟨r, hr, fun e he hp => a e ((hmem e).mp he) hp, fun k hk hkr => ?_⟩
      obtain ⟨e, he, hp, hj⟩ := b k hk hkr
      obtain ⟨idx, hidx'⟩ := hget e ((hmem e).mpr he)
      exact ⟨idx, e, hidx', hp, hj, fun idx' e' he' hj' => E2 idx' idx e' e he' hidx' (hj.same hj')⟩

/-! ### corollary: the pass of the two stored pass nodes is the lowest -/

/-- `beq` is compatible with `lt` on the right: `c` is not below `a` and `beq a b`, then `c` is
not below `b` -/
def BeqCompat (S : Scalar α) (beq : α → α → Bool) : Prop :=
  ∀ a b c, beq a b = true → S.lt c a = false → S.lt c b = false

/-- a `beq` that reflects equality is compatible -/
theorem beqCompat_of_eq {S : Scalar α} {beq : α → α → Bool} (hb : ∀ a b, beq a b = true → a = b) :
    BeqCompat S beq := by
  intro a b c h hl
  rw [← hb a b h]; exact hl

/-- `S.beq` (neither below the other) is compatible as soon as `≤` is transitive -/
theorem beqCompat_of_trans {S : Scalar α}
    (ht : ∀ a b c, S.lt b a = false → S.lt c b = false → S.lt c a = false) :
    BeqCompat S S.beq := by
  intro a b c h hl
  simp only [Scalar.beq, Bool.and_eq_true, Bool.not_eq_true'] at h
  exact ht b a c h.1 hl

/-- **the stored pass nodes form a lowest pass**: every real edge comes, possibly after a swap of
its ends, with two neighbouring unmasked nodes `p0` in basin `l0`, `p1` in basin `l1` such that
`max (f p0) (f p1)` is not above `max (f i) (f j)` for ANY pair of neighbouring unmasked nodes
`(i, j)` joining the two basins, either way round.  Needs `BeqCompat` only. -/
theorem checkPasses_lowest {S : Scalar α} {beq : α → α → Bool} (hc : BeqCompat S beq)
    {n : Nat} {nb : Nat → List (Nat × α)}
    {mask isBase : Nat → Bool} {lab : Nat → Nat} {outlets : List Nat} {f : Nat → α}
    {edges : Array (BEdge α)}
    (h : checkPasses S beq n nb mask isBase lab outlets f edges = true)
    {e : BEdge α} (he : e ∈ edges) (hr : e.p0 ≠ Fs.Mst.none) :
    ∃ e', (e' = e ∨ e' = swapE e) ∧
      e'.p0 < n ∧ e'.p1 < n ∧ mask e'.p0 = false ∧ mask e'.p1 = false ∧
      (∃ d, (e'.p1, d) ∈ nb e'.p0) ∧ lab e'.p0 = e'.l0 ∧ lab e'.p1 = e'.l1 ∧
      ∀ i, i < n → mask i = false → ∀ j d, (j, d) ∈ nb i → mask j = false →
        ((lab i = e'.l0 ∧ lab j = e'.l1) ∨ (lab i = e'.l1 ∧ lab j = e'.l0)) →
        S.lt (S.max (f i) (f j)) (S.max (f e'.p0) (f e'.p1)) = false := by
  obtain ⟨E1, _, _, C15, _⟩ := checkPasses_sound h
  have main : ∀ e' : BEdge α, (e' = e ∨ e' = swapE e) →
      RealOk S beq n nb mask isBase lab outlets f e' →
      ∀ i, i < n → mask i = false → ∀ j d, (j, d) ∈ nb i → mask j = false →
        ((lab i = e'.l0 ∧ lab j = e'.l1) ∨ (lab i = e'.l1 ∧ lab j = e'.l0)) →
        S.lt (S.max (f i) (f j)) (S.max (f e'.p0) (f e'.p1)) = false := by
    intro e' hor R i hi hmi j d hj hmj hl
    have hje' : Joins e' (lab i) (lab j) := by
      rcases hl with ⟨a, b⟩ | ⟨a, b⟩
      · exact Or.inl ⟨a.symm, b.symm⟩
      · exact Or.inr ⟨b.symm, a.symm⟩
    have hje : Joins e (lab i) (lab j) := by
      rcases hor with rfl | rfl
      · exact hje'
      · exact joins_swapE.mp hje'
    have hpe : e'.pe = e.pe := by
      rcases hor with rfl | rfl <;> rfl
    have := C15 e he hr i hi hmi j d hj hmj hje
    rw [← hpe] at this
    exact hc _ _ _ R.pe_eq this
  have pack : ∀ e' : BEdge α, (e' = e ∨ e' = swapE e) →
      RealOk S beq n nb mask isBase lab outlets f e' →
      ∃ e', (e' = e ∨ e' = swapE e) ∧
        e'.p0 < n ∧ e'.p1 < n ∧ mask e'.p0 = false ∧ mask e'.p1 = false ∧
        (∃ d, (e'.p1, d) ∈ nb e'.p0) ∧ lab e'.p0 = e'.l0 ∧ lab e'.p1 = e'.l1 ∧
        ∀ i, i < n → mask i = false → ∀ j d, (j, d) ∈ nb i → mask j = false →
          ((lab i = e'.l0 ∧ lab j = e'.l1) ∨ (lab i = e'.l1 ∧ lab j = e'.l0)) →
          S.lt (S.max (f i) (f j)) (S.max (f e'.p0) (f e'.p1)) = false := by
    intro e' hor R
    obtain ⟨d, hd, _⟩ := R.nbr
    exact ⟨e', hor, R.p0_lt, R.p1_lt, R.p0_unmasked, R.p1_unmasked, ⟨d, hd⟩, R.lab0, R.lab1,
      main e' hor R⟩
  rcases E1 e he hr with R | R
  · exact pack e (Or.inl rfl) R
  · exact pack (swapE e) (Or.inr rfl) R

/-! ### concrete instances over `Nat` -/
section Examples

def pcS : Scalar Nat where
  lt a b := decide (a < b)
  add a b := a + b
  sub a b := a - b
  mul a b := a * b
  div a b := a / b
  pow a _ := a
  sqrt a := a
  nextUp a := a + 1
  zero := 0
  one := 1
  lowest := 0
  maxFinite := 1000
  minNormal := 1
  ofNat n := n

def pcBeq (a b : Nat) : Bool := a == b

theorem pcCompat : BeqCompat pcS pcBeq :=
  beqCompat_of_eq (fun a b h => by simpa [pcBeq] using h)

abbrev NONE : Nat := Fs.Mst.none

/-! #### a 6-node profile `0 - 1 - 2 - 3 - 4 - 5`, base levels at both ends

`f = 2 3 1 4 0 3`: node 1 flows to the pit 2, node 3 to the pit 4; basins `0 = {0}` (outer),
`1 = {1, 2}` (inner), `2 = {3, 4}` (inner), `3 = {5}` (outer); outlets `0 2 4 5`.  (A profile
with a SINGLE outer basin has no virtual edge at all; the second outer basin is there so that a
missing virtual edge can be exhibited.  The second instance below has a single outer basin.)
`connect_basins` stores `1-0` through `(1, 0)` at 3, `1-2` through `(2, 3)` at 4, `2-3` through
`(4, 5)` at 3 and the virtual edge `0-3`. -/

def pNb (i : Nat) : List (Nat × Nat) :=
  (if 0 < i then [(i - 1, 1)] else []) ++ (if i + 1 < 6 then [(i + 1, 1)] else [])
def pMask : Nat → Bool := fun _ => false
def pBase (i : Nat) : Bool := i == 0 || i == 5
def pF (i : Nat) : Nat := [2, 3, 1, 4, 0, 3].getD i 0
def pLab (i : Nat) : Nat := [0, 1, 1, 2, 2, 3].getD i 0
def pOut : List Nat := [0, 2, 4, 5]

def pCheck (edges : Array (BEdge Nat)) : Bool :=
  checkPasses pcS pcBeq 6 pNb pMask pBase pLab pOut pF edges

def eA0 : BEdge Nat := { l0 := 1, l1 := 0, p0 := 1, p1 := 0, pe := 3, pl := 1 }
def eAB : BEdge Nat := { l0 := 1, l1 := 2, p0 := 2, p1 := 3, pe := 4, pl := 1 }
def eB3 : BEdge Nat := { l0 := 2, l1 := 3, p0 := 4, p1 := 5, pe := 3, pl := 1 }
def eV : BEdge Nat := { l0 := 0, l1 := 3, p0 := NONE, p1 := NONE, pe := 0, pl := 0 }

/-- the edge array of `connect_basins` passes -/
example : pCheck #[eA0, eAB, eB3, eV] = true := by decide +kernel
/-- … and so does an array in which `orient_edges` has reversed the edges `1-0` and `2-3`
(`l0 ↔ l1` together with `p0 ↔ p1`) -/
example : pCheck #[swapE eA0, eAB, swapE eB3, eV] = true := by decide +kernel
/-- … and with the virtual edge reversed and the edges in another order -/
example : pCheck #[swapE eV, eB3, swapE eAB, eA0] = true := by decide +kernel

/-- fails E1: wrong pass node (`p1 = 4` is not a neighbour of 2, though in the right basin) -/
example : pCheck #[eA0, { eAB with p1 := 4, pe := 1 }, eB3, eV] = false := by decide +kernel
/-- fails E1 only: half-swapped edge (labels exchanged, pass nodes not) -/
example : pCheck #[eA0, { eAB with l0 := 2, l1 := 1 }, eB3, eV] = false := by decide +kernel
/-- fails E1 only: the pass elevation is not `max (f p0) (f p1)` (too low) -/
example : pCheck #[eA0, { eAB with pe := 3 }, eB3, eV] = false := by decide +kernel
/-- fails E1 only: wrong stored distance -/
example : pCheck #[eA0, { eAB with pl := 2 }, eB3, eV] = false := by decide +kernel
/-- fails E2 only: the pair of basins `{1, 2}` twice (once swapped) -/
example : pCheck #[eA0, eAB, eB3, eV, swapE eAB] = false := by decide +kernel
/-- fails E3 only: the edge `1-2` is missing -/
example : pCheck #[eA0, eB3, eV] = false := by decide +kernel
/-- fails E4 only: missing virtual edge (two outer basins) -/
example : pCheck #[eA0, eAB, eB3] = false := by decide +kernel
/-- fails E4 only: the virtual edge does not carry `lowest` -/
example : pCheck #[eA0, eAB, eB3, { eV with pe := 1 }] = false := by decide +kernel
/-- fails E4 only: the virtual edge ends in an inner basin -/
example : pCheck #[eA0, eAB, eB3, { eV with l1 := 2 }] = false := by decide +kernel

/-- the separate clauses on the mutated arrays: exactly the announced clause fails -/
example :
    let bad : List (BEdge Nat) := [eA0, eAB, eB3, eV, swapE eAB]
    (realEdgesOk pcS pcBeq 6 pNb pMask pBase pLab pOut pF bad, noDupPairs bad,
      lowOk pcS 6 pNb pMask pBase pLab pOut pF bad, virtualOk pcS pcBeq pBase pOut bad) =
    (true, false, true, true) := by decide +kernel
example :
    let bad : List (BEdge Nat) := [eA0, eB3, eV]
    (realEdgesOk pcS pcBeq 6 pNb pMask pBase pLab pOut pF bad, noDupPairs bad,
      lowOk pcS 6 pNb pMask pBase pLab pOut pF bad, virtualOk pcS pcBeq pBase pOut bad) =
    (true, true, false, true) := by decide +kernel
example :
    let bad : List (BEdge Nat) := [eA0, eAB, eB3]
    (realEdgesOk pcS pcBeq 6 pNb pMask pBase pLab pOut pF bad, noDupPairs bad,
      lowOk pcS 6 pNb pMask pBase pLab pOut pF bad, virtualOk pcS pcBeq pBase pOut bad) =
    (true, true, true, false) := by decide +kernel
example :
    let bad : List (BEdge Nat) := [eA0, { eAB with p1 := 4, pe := 1 }, eB3, eV]
    (realEdgesOk pcS pcBeq 6 pNb pMask pBase pLab pOut pF bad, noDupPairs bad,
      lowOk pcS 6 pNb pMask pBase pLab pOut pF bad, virtualOk pcS pcBeq pBase pOut bad) =
    (false, true, true, true) := by decide +kernel

/-! #### a 2 × 3 raster (rook neighbours), ONE outer basin, two inner basins joined twice

```
nodes  0 1 2      f  9 7 5      basins  0 2 2
       3 4 5         1 6 2              1 1 2
```
base level at node 0 (outlet of basin 0 = `{0}`); pits 3 (basin 1 = `{3, 4}`) and 5 (basin 2 =
`{1, 2, 5}`).  Basins 1 and 2 touch along `(4, 5)` (pass 6) and `(4, 1)` (pass 7): the lowest pass
is `(4, 5)`.  Basin 0 touches basin 1 along `(3, 0)` and basin 2 along `(1, 0)`, both at 9. -/

def rNb (i : Nat) : List (Nat × Nat) :=
  ([[(1, 1), (3, 1)], [(0, 1), (2, 1), (4, 1)], [(1, 1), (5, 1)],
    [(0, 1), (4, 1)], [(1, 1), (3, 1), (5, 1)], [(2, 1), (4, 1)]] : List (List (Nat × Nat))).getD i []
def rBase (i : Nat) : Bool := i == 0
def rF (i : Nat) : Nat := [9, 7, 5, 1, 6, 2].getD i 0
def rLab (i : Nat) : Nat := [0, 2, 2, 1, 1, 2].getD i 0
def rOut : List Nat := [0, 3, 5]

def rCheck (edges : Array (BEdge Nat)) : Bool :=
  checkPasses pcS pcBeq 6 rNb pMask rBase rLab rOut rF edges

def r10 : BEdge Nat := { l0 := 1, l1 := 0, p0 := 3, p1 := 0, pe := 9, pl := 1 }
def r12 : BEdge Nat := { l0 := 1, l1 := 2, p0 := 4, p1 := 5, pe := 6, pl := 1 }
def r20 : BEdge Nat := { l0 := 2, l1 := 0, p0 := 1, p1 := 0, pe := 9, pl := 1 }

/-- the correct array (no virtual edge: a single outer basin) passes, also with an edge swapped -/
example : rCheck #[r10, r12, r20] = true := by decide +kernel
example : rCheck #[r10, swapE r12, swapE r20] = true := by decide +kernel
/-- fails E3 only: **a higher pass although a lower pair exists** - the edge `1-2` goes through
the genuine pair of neighbours `(4, 1)` at 7 (E1 holds) but `(4, 5)` joins the basins at 6 -/
example : rCheck #[r10, { r12 with p1 := 1, pe := 7 }, r20] = false := by decide +kernel
example :
    let bad : List (BEdge Nat) := [r10, { r12 with p1 := 1, pe := 7 }, r20]
    (realEdgesOk pcS pcBeq 6 rNb pMask rBase rLab rOut rF bad, noDupPairs bad,
      lowOk pcS 6 rNb pMask rBase rLab rOut rF bad, virtualOk pcS pcBeq rBase rOut bad) =
    (true, true, false, true) := by decide +kernel
/-- fails E4 only: a virtual edge although there is a single outer basin -/
example : rCheck #[r10, r12, r20, { l0 := 0, l1 := 0, p0 := NONE, p1 := NONE, pe := 0, pl := 0 }] = false := by
  decide +kernel

/-- the hypotheses of `checkPasses_sound` / `checkPasses_lowest` are satisfiable on the raster, and
the conclusion there: the (swapped) edge `2-1` reported through `(5, 4)` stands for a lowest pass,
in particular it is not above the pass 7 of the other pair `(4, 1)` -/
example : pcS.lt (pcS.max (rF 4) (rF 1)) (swapE r12).pe = false ∧
    ∃ e', (e' = swapE r12 ∨ e' = swapE (swapE r12)) ∧ rLab e'.p0 = e'.l0 ∧ rLab e'.p1 = e'.l1 := by
  have hchk : checkPasses pcS pcBeq 6 rNb pMask rBase rLab rOut rF #[r10, swapE r12, swapE r20] = true := by
    decide +kernel
  have hmem : swapE r12 ∈ #[r10, swapE r12, swapE r20] := by simp
  have hreal : (swapE r12).p0 ≠ Fs.Mst.none := by decide
  refine ⟨(checkPasses_sound hchk).2.2.2.1 _ hmem hreal 4 (by omega) rfl 1 1 (by decide) rfl
    (Or.inr ⟨rfl, rfl⟩), ?_⟩
  obtain ⟨e', hor, _, _, _, _, _, l0, l1, _⟩ := checkPasses_lowest pcCompat hchk hmem hreal
  exact ⟨e', hor, l0, l1⟩

end Examples

end Fs.ImplCheck
