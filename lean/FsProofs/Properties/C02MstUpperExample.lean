import FsProofs.Properties.C02MstUpperSpill
import FsProofs.Properties.C02MstExample

/-! # C02 (spanning-tree resolver), upper bound: concrete instances

The two 1×5 profiles of `C02MstExample` (`zF = 1 5 3 2 9`, `xF = 1 5 3 7 2`, base level at node
`0`) behind the single router: the hypotheses of `resolve_c02_upper_singleRouter` hold (carve and
basic), the statement was tested on the executed model with `decide +kernel` against the spill
levels computed by hand, and the theorem is applied to an explicit path. -/
namespace Fs.C02Mst.Example
open Fs Fs.Flow Fs.Mst Fs.Dfs Fs.C06 Fs.C01Mst Fs.C02 Fs.C02Mst Fs.C15Connect Fs.C01Mst.Example

/-- the order laws of the test scalar (`<` and `+ 1` on `Nat`) -/
theorem xUB : Fs.UB.Laws (ubOrd xS2) where
  irrefl a := by simp [ubOrd, xS2, exS]
  trans a b c h1 h2 := by simp [ubOrd, xS2, exS] at *; omega
  antisymm a b h1 h2 := by simp [ubOrd, xS2, exS] at *; omega
  next_gt x := by simp [ubOrd, xS2, exS]
  next_mono a b h := by simp [Fs.UB.Ord.le, ubOrd, xS2, exS] at *; omega

/-- the candidate statement on the executed model: spill levels by hand
(`zF`: `1 5 5 5 9`, `xF`: `1 5 5 7 7`), bound `n = 5` increments, carve and basic -/
example : ∀ carve : Bool,
    (let o := resolve xS2 xEnv zG zF false carve [0] 0
     ∀ i, i < 5 → (ubOrd xS2).le (look o.elev 0 i) (Fs.UB.pw (ubOrd xS2) 5 ([1, 5, 5, 5, 9].getD i 0)) = true) ∧
    (let o := resolve xS2 xEnv (singleRouter xS2 xEnv false xF) xF false carve [0, 1] 0
     ∀ i, i < 5 → (ubOrd xS2).le (look o.elev 0 i) (Fs.UB.pw (ubOrd xS2) 5 ([1, 5, 5, 7, 7].getD i 0)) = true) := by
  decide +kernel

/-- the bound is about the spill level, not the input: node `3` of `zF` (input `2`, spill level
`5`) is returned at `7` (carve) - above `nextUp^5` of its input would also hold, but the returned
value is NOT bounded by the input plus one increment: the statement is not trivial -/
example : (let o := resolve xS2 xEnv zG zF false true [0] 0
    (look o.elev 0 3, zF 3)) = (7, 2) := by decide +kernel

theorem xBn : ∀ b, xEnv.isBase b = true → b < xEnv.topo.n := by
  intro b hb
  have : b = 0 := by simpa [xEnv, exBase] using hb
  subst this; decide

/-- all hypotheses of `resolve_c02_upper_singleRouter` hold on both profiles, carve and basic -/
theorem zUpper (carve : Bool) : ∀ y, xEnv.mask y = false → ∀ p v,
    Fs.UB.Path (nbIdx xEnv.topo) (baseSeed xEnv) xEnv.mask p y → Fs.UB.Bounded (ubOrd xS2) zF p v →
    (ubOrd xS2).le (look (resolve xS2 xEnv zG zF false carve [0] 0).elev xS2.zero y)
      (Fs.UB.pw (ubOrd xS2) 5 v) = true :=
  resolve_c02_upper_singleRouter xS2 xEnv false zF [0] 0 carve xUB (by decide) xSym
    (by intro i p _; simp [xS2, exS]) (by decide +kernel) zValid (by decide) xBn

theorem xUpper (carve : Bool) : ∀ y, xEnv.mask y = false → ∀ p v,
    Fs.UB.Path (nbIdx xEnv.topo) (baseSeed xEnv) xEnv.mask p y → Fs.UB.Bounded (ubOrd xS2) xF p v →
    (ubOrd xS2).le (look (resolve xS2 xEnv (singleRouter xS2 xEnv false xF) xF false carve [0, 1] 0).elev
      xS2.zero y) (Fs.UB.pw (ubOrd xS2) 5 v) = true :=
  resolve_c02_upper_singleRouter xS2 xEnv false xF [0, 1] 0 carve xUB (by decide) xSym
    (by intro i p _; simp [xS2, exS]) (by decide +kernel) (by decide +kernel) (by decide) xBn

/-- the path `0 → 1 → 2 → 3` from the base level, through unmasked neighbours -/
theorem zPath : Fs.UB.Path (nbIdx xEnv.topo) (baseSeed xEnv) xEnv.mask [0, 1, 2, 3] 3 :=
  .step [0, 1, 2] 2 3 (.step [0, 1] 1 2 (.step [0] 0 1 (.seed 0 (by decide) rfl) (by decide) rfl)
    (by decide) rfl) (by decide) rfl

/-- the theorem applied: the inputs on the path are `1 5 3 2`, all `≤ 5`, so node `3` is returned
at most at `5 + 5` (carve and basic) -/
example (carve : Bool) :
    (ubOrd xS2).le (look (resolve xS2 xEnv zG zF false carve [0] 0).elev xS2.zero 3)
      (Fs.UB.pw (ubOrd xS2) 5 5) = true :=
  zUpper carve 3 rfl [0, 1, 2, 3] 5 zPath (by
    intro w hw
    simp only [List.mem_cons, List.not_mem_nil, or_false] at hw
    rcases hw with rfl | rfl | rfl | rfl <;> decide)

/-- and the intermediate statements: the tree edge above the basin of node `3` (pass `1 — 2`, height
`5`) is within `5` (`low_of_path`) -/
example : Low xS2 (bgOf xS2 xEnv zG zF false [0] 0).edges (bgOf xS2 xEnv zG zF false [0] 0).tree 5
    (labOf xEnv zG 3) := by
  have LR : Fs.Router.Laws (routerOps xS2) := xLaws2
  have hg := singleRouter_graph xS2 xEnv false zF LR (by decide) (by intro i p _; simp [xS2, exS])
  refine (low_of_path xS2 xEnv zG zF [0] 0 xUB hg (dfs_single xS2 xEnv false zF) ?_ ?_ (by decide +kernel)
    (by decide) xSym zValid (by decide) xBn 3 [0, 1, 2, 3] 5 zPath ?_).2
  · decide +kernel
  · decide +kernel
  · intro w hw
    simp only [List.mem_cons, List.not_mem_nil, or_false] at hw
    rcases hw with rfl | rfl | rfl | rfl <;> decide

/-- lower and upper bound together (`resolve_c02_spill_level_singleRouter`) for node `3` of `zF`,
connected to the base level `0` (`zConn`) -/
example := resolve_c02_spill_level_singleRouter xS2 xEnv false zF [0] 0 xUB (by decide) xSym
  (by intro i p _; simp [xS2, exS]) (by decide +kernel) zValid (by decide) xBn
  3 0 (by decide) rfl (by decide) rfl rfl zConn

/-! ### two base levels (nodes `0` and `4`): the outer basin `{3,4}` hangs under the root by a
virtual edge of weight `lowest`, which the `Low` chain passes through -/

theorem xBn2 : ∀ b, xEnv2.isBase b = true → b < xEnv2.topo.n := by
  intro b hb
  have : b = 0 ∨ b = 4 := by simpa [xEnv2, exBase2] using hb
  rcases this with rfl | rfl <;> decide

example : (cbOf xS2 xEnv2 (singleRouter xS2 xEnv2 false xF) xF).edges.toList.map
    (fun e => (e.l0, e.l1, e.p0, e.p1, e.pe)) =
    [(1, 0, 2, 1, 5), (1, 2, 2, 3, 7), (0, 2, Mst.none, Mst.none, 0)] := by decide +kernel

/-- the hypotheses hold with the virtual edge first in the permutation; node `2` (input `3`) can be
reached from base level `4` over node `3` (input `7`) or from base level `0` over node `1`
(input `5`): the theorem applies to both paths, the second gives the bound `5 + 5` -/
example (carve : Bool) :
    (ubOrd xS2).le (look (resolve xS2 xEnv2 (singleRouter xS2 xEnv2 false xF) xF false carve [2, 0, 1] 0).elev
      xS2.zero 2) (Fs.UB.pw (ubOrd xS2) 5 5) = true :=
  resolve_c02_upper_singleRouter xS2 xEnv2 false xF [2, 0, 1] 0 carve xUB (by decide) xSym
    (by intro i p _; simp [xS2, exS]) (by decide +kernel) (by decide +kernel) (by decide) xBn2
    2 rfl [0, 1, 2] 5
    (.step [0, 1] 1 2 (.step [0] 0 1 (.seed 0 (by decide) rfl) (by decide) rfl) (by decide) rfl)
    (by
      intro w hw
      simp only [List.mem_cons, List.not_mem_nil, or_false] at hw
      rcases hw with rfl | rfl | rfl <;> decide)

example : (let o := resolve xS2 xEnv2 (singleRouter xS2 xEnv2 false xF) xF false true [2, 0, 1] 0
    ((List.range 5).map (recv0 o.g), o.elev)) = ([0, 0, 1, 4, 4], #[1, 5, 6, 7, 2]) := by decide +kernel

end Fs.C02Mst.Example
