import FsModel.UB4
import FsModel.LB
import FsModel.Flow

/-! # C02 — depression filling raises terrain to its spill level (priority flood)

The upper-bound proof (`Fs.UB.pflood_upper`) is about a copy of the flood loop that carries ghost
counters (number of pops, time of closing, last popped values).  This file ties it to the
definitions the model driver executes: erasing the ghost fields turns every step of the
instrumented loop into the corresponding step of `Fs.run`, and the instrumented initial state
erases to `Fs.Flow.pfInit`.  Hence the theorems below are statements about `Fs.Flow.pflood`. -/
namespace Fs.C02
open Fs Fs.Flow

variable {α : Type}

def ubOrd (S : Scalar α) : Fs.UB.Ord α := { lt := S.lt, nextUp := S.nextUp }

theorem ordOf_eq (S : Scalar α) : (ordOf S).lt = (ubOrd S).lt ∧ (ordOf S).nextUp = (ubOrd S).nextUp := ⟨rfl, rfl⟩

/-- forget the ghost counters -/
def erase (s : Fs.UB.PF α) : Fs.PF α :=
  { elev := s.elev, closed := s.closed, openQ := s.openQ, pitQ := s.pitQ }

theorem insertQ_eq (S : Scalar α) (x : Nat × α) (l : List (Nat × α)) :
    Fs.insertQ (ordOf S) x l = Fs.UB.insertQ (ubOrd S) x l := by
  induction l with
  | nil => rfl
  | cons y ys ih =>
    simp only [Fs.insertQ, Fs.UB.insertQ, ih]
    rfl

theorem upd_eq {β} (f : Nat → β) (i : Nat) (v : β) : Fs.upd f i v = Fs.UB.upd f i v := rfl

theorem visit_erase (S : Scalar α) (mask : Nat → Bool) (t : α) (s : Fs.UB.PF α) (nb : Nat) :
    erase (Fs.UB.visit (ubOrd S) mask t s nb) = Fs.visit (ordOf S) mask t (erase s) nb := by
  unfold Fs.UB.visit Fs.visit
  by_cases h1 : (mask nb || s.closed nb) = true
  · have h1' : (mask nb || (erase s).closed nb) = true := h1
    rw [if_pos h1, if_pos h1']
  · have h1' : ¬ (mask nb || (erase s).closed nb) = true := h1
    rw [if_neg h1, if_neg h1']
    by_cases h2 : (ubOrd S).lt t (s.elev nb) = true
    · have h2' : (ordOf S).lt t ((erase s).elev nb) = true := h2
      rw [if_pos h2, if_pos h2']
      simp only [erase, insertQ_eq, upd_eq]
    · have h2' : ¬ (ordOf S).lt t ((erase s).elev nb) = true := h2
      rw [if_neg h2, if_neg h2']
      simp only [erase, upd_eq]

theorem fold_visit_erase (S : Scalar α) (mask : Nat → Bool) (t : α) (l : List Nat) (s : Fs.UB.PF α) :
    erase (l.foldl (Fs.UB.visit (ubOrd S) mask t) s) = l.foldl (Fs.visit (ordOf S) mask t) (erase s) := by
  induction l generalizing s with
  | nil => rfl
  | cons a r ih => simp only [List.foldl_cons]; rw [ih, visit_erase]

theorem pop_erase (S : Scalar α) (s : Fs.UB.PF α) :
    (Fs.UB.pop (ubOrd S) s).map (fun r => (r.1, erase r.2.2)) = Fs.pop (ordOf S) (erase s) := by
  unfold Fs.UB.pop Fs.pop erase
  cases hp : s.pitQ with
  | nil =>
    cases hq : s.openQ with
    | nil => simp
    | cons q qs => simp
  | cons p ps =>
    cases hq : s.openQ with
    | nil => simp
    | cons q qs =>
      simp only
      show Option.map _ (if (!S.lt q.2 p.2 && !S.lt p.2 q.2) = true then _ else _) =
        (if (!S.lt q.2 p.2 && !S.lt p.2 q.2) = true then _ else _)
      split <;> simp [hp, hq]

theorem bump_erase (s : Fs.UB.PF α) (c : Nat × α) (fo : Bool) : erase (Fs.UB.bump s c fo) = erase s := rfl

theorem step_erase (S : Scalar α) (nbrs : Nat → List Nat) (mask : Nat → Bool) (s : Fs.UB.PF α) :
    (Fs.UB.step (ubOrd S) nbrs mask s).map erase = Fs.step (ordOf S) nbrs mask (erase s) := by
  unfold Fs.UB.step Fs.step
  rw [← pop_erase]
  cases h : Fs.UB.pop (ubOrd S) s with
  | none => simp
  | some r =>
    obtain ⟨c, fo, s'⟩ := r
    simp only [Option.map_some]
    rw [fold_visit_erase, bump_erase]
    rfl

theorem run_erase (S : Scalar α) (nbrs : Nat → List Nat) (mask : Nat → Bool) (fuel : Nat) (s : Fs.UB.PF α) :
    erase (Fs.UB.run (ubOrd S) nbrs mask fuel s) = Fs.run (ordOf S) nbrs mask fuel (erase s) := by
  induction fuel generalizing s with
  | zero => rfl
  | succ f ih =>
    unfold Fs.UB.run Fs.run
    rw [← step_erase]
    cases h : Fs.UB.step (ubOrd S) nbrs mask s with
    | none => simp
    | some s' => simp only [Option.map_some]; exact ih s'

/-- each pop advances the ghost pop counter by one, so it never exceeds the fuel -/
theorem run_k_le (o : Fs.UB.Ord α) (nbrs : Nat → List Nat) (mask : Nat → Bool) (fuel : Nat) (s : Fs.UB.PF α) :
    (Fs.UB.run o nbrs mask fuel s).k ≤ s.k + fuel := by
  induction fuel generalizing s with
  | zero => simp [Fs.UB.run]
  | succ f ih =>
    unfold Fs.UB.run
    cases h : Fs.UB.step o nbrs mask s with
    | none => simp
    | some s' =>
      simp only
      have hk : s'.k = s.k + 1 := by
        unfold Fs.UB.step at h
        cases hp : Fs.UB.pop o s with
        | none => simp [hp] at h
        | some r =>
          obtain ⟨c, fo, s1⟩ := r
          simp only [hp, Option.some.injEq] at h
          rw [← h]
          have hs1 : s1.k = s.k := by
            unfold Fs.UB.pop at hp
            split at hp
            · cases hp
            · split at hp <;> (cases hp; rfl)
            · cases hp; rfl
            · cases hp; rfl
          -- visits never touch k
          have : ∀ (l : List Nat) (t : α) (u : Fs.UB.PF α), (l.foldl (Fs.UB.visit o mask t) u).k = u.k := by
            intro l t
            induction l with
            | nil => intro u; rfl
            | cons a r ihl =>
              intro u
              simp only [List.foldl_cons]
              rw [ihl]
              unfold Fs.UB.visit
              split
              · rfl
              · split <;> rfl
          rw [this]
          simp [Fs.UB.bump, hs1]
      have := ih s'
      omega

/-! ### the instrumented initial state -/

def ghost0 (z : Nat → α) : Fs.UB.PF α :=
  { elev := z, closed := fun _ => false, openQ := [], pitQ := [], k := 0, kO := 0, L := z 0, LO := z 0,
    ctime := fun _ => 0 }

def ubSeedStep (S : Scalar α) (e : Env α) (z : Nat → α) (s : Fs.UB.PF α) (b : Nat) : Fs.UB.PF α :=
  if e.mask b then s
  else { s with closed := Fs.UB.upd s.closed b true, openQ := Fs.UB.insertQ (ubOrd S) (b, z b) s.openQ }

/-- `init_pflood` with ghost counters at zero -/
def ubInit (S : Scalar α) (e : Env α) (z : Nat → α) : Fs.UB.PF α :=
  e.seeds.foldl (ubSeedStep S e z) (ghost0 z)

theorem seedStep_erase (S : Scalar α) (e : Env α) (z : Nat → α) (s : Fs.UB.PF α) (b : Nat) :
    erase (ubSeedStep S e z s b) =
      (if e.mask b then erase s
       else { elev := (erase s).elev, closed := Fs.upd (erase s).closed b true,
              openQ := Fs.insertQ (ordOf S) (b, z b) (erase s).openQ, pitQ := (erase s).pitQ }) := by
  unfold ubSeedStep
  by_cases hm : e.mask b = true
  · simp [hm]
  · simp only [hm, Bool.false_eq_true, if_false]
    simp only [erase, insertQ_eq, upd_eq]

theorem ubInit_erase (S : Scalar α) (e : Env α) (z : Nat → α) : erase (ubInit S e z) = pfInit S e z := by
  unfold ubInit pfInit
  have h0 : erase (ghost0 z) = ({ elev := z, closed := fun _ => false, openQ := [], pitQ := [] } : Fs.PF α) := rfl
  rw [← h0]
  generalize ghost0 z = s0
  induction e.seeds generalizing s0 with
  | nil => rfl
  | cons b t ih =>
    simp only [List.foldl_cons]
    rw [ih, seedStep_erase]

/-- seeds of the flood: the unmasked base levels -/
def seedP (e : Env α) (b : Nat) : Bool := e.seeds.contains b && !e.mask b

/-- facts about the initial state that make up `UBInv` at time zero -/
structure Init0 (S : Scalar α) (e : Env α) (z : Nat → α) (s : Fs.UB.PF α) : Prop where
  elev : s.elev = z
  pit : s.pitQ = []
  k : s.k = 0
  ctime : s.ctime = fun _ => 0
  closedIff : ∀ b, s.closed b = true → ∃ x, x ∈ s.openQ ∧ x = (b, z b)
  openMem : ∀ x, x ∈ s.openQ → s.closed x.1 = true ∧ x.2 = z x.1 ∧ e.mask x.1 = false
  openSeed : ∀ x, x ∈ s.openQ → x.1 ∈ e.seeds
  sorted : Fs.UB.SortedQ (ubOrd S) s.openQ

theorem ghost0_init0 (S : Scalar α) (e : Env α) (z : Nat → α) : Init0 S e z (ghost0 z) where
  elev := rfl
  pit := rfl
  k := rfl
  ctime := rfl
  closedIff := fun b h => (by cases h)
  openMem := fun x h => (by cases h)
  openSeed := fun x h => (by cases h)
  sorted := List.Pairwise.nil

theorem seedStep_init0 (S : Scalar α) (L : Fs.UB.Laws (ubOrd S)) (e : Env α) (z : Nat → α) (s : Fs.UB.PF α) (a : Nat)
    (ha : a ∈ e.seeds) (hs : Init0 S e z s) :
    Init0 S e z (ubSeedStep S e z s a) ∧ (∀ b, s.closed b = true → (ubSeedStep S e z s a).closed b = true) ∧
    (e.mask a = false → (ubSeedStep S e z s a).closed a = true) := by
  unfold ubSeedStep
  by_cases hm : e.mask a = true
  · simp only [hm, if_true]
    exact ⟨hs, fun _ h => h, fun h => by cases h⟩
  · have hm' : e.mask a = false := by cases h : e.mask a <;> simp_all
    simp only [hm', Bool.false_eq_true, if_false]
    refine ⟨⟨hs.elev, hs.pit, hs.k, hs.ctime, ?_, ?_, ?_, Fs.UB.insertQ_sorted _ L _ _ hs.sorted⟩, ?_, ?_⟩
    · intro b hb
      by_cases hba : b = a
      · subst hba; exact ⟨(b, z b), (Fs.UB.mem_insertQ _ _ _ _).mpr (Or.inl rfl), rfl⟩
      · have : s.closed b = true := by
          have hb' : Fs.UB.upd s.closed a true b = true := hb
          rwa [Fs.UB.upd_ne _ _ _ _ hba] at hb'
        obtain ⟨x, hx, hxe⟩ := hs.closedIff b this
        exact ⟨x, (Fs.UB.mem_insertQ _ _ _ _).mpr (Or.inr hx), hxe⟩
    · intro x hx
      rcases (Fs.UB.mem_insertQ _ _ _ _).mp hx with rfl | hx
      · exact ⟨Fs.UB.upd_same _ _ _, rfl, hm'⟩
      · obtain ⟨c1, c2, c3⟩ := hs.openMem x hx
        refine ⟨?_, c2, c3⟩
        show Fs.UB.upd s.closed a true x.1 = true
        unfold Fs.UB.upd; split <;> simp [c1]
    · intro x hx
      rcases (Fs.UB.mem_insertQ _ _ _ _).mp hx with rfl | hx
      · exact ha
      · exact hs.openSeed x hx
    · intro b hb
      show Fs.UB.upd s.closed a true b = true
      unfold Fs.UB.upd; split <;> simp [hb]
    · intro _; exact Fs.UB.upd_same _ _ _

theorem ubInit_init0 (S : Scalar α) (L : Fs.UB.Laws (ubOrd S)) (e : Env α) (z : Nat → α) :
    Init0 S e z (ubInit S e z) ∧ ∀ b, b ∈ e.seeds → e.mask b = false → (ubInit S e z).closed b = true := by
  unfold ubInit
  suffices H : ∀ (l : List Nat) (s : Fs.UB.PF α), (∀ b, b ∈ l → b ∈ e.seeds) → Init0 S e z s →
      Init0 S e z (l.foldl (ubSeedStep S e z) s) ∧
      (∀ b, s.closed b = true → (l.foldl (ubSeedStep S e z) s).closed b = true) ∧
      (∀ b, b ∈ l → e.mask b = false → (l.foldl (ubSeedStep S e z) s).closed b = true) by
    obtain ⟨h1, _, h3⟩ := H e.seeds (ghost0 z) (fun _ h => h) (ghost0_init0 S e z)
    exact ⟨h1, h3⟩
  intro l
  induction l with
  | nil => intro s _ hs; exact ⟨hs, fun _ h => h, fun b hb => by cases hb⟩
  | cons a t ih =>
    intro s hsub hs
    simp only [List.foldl_cons]
    obtain ⟨s1, s2, s3⟩ := seedStep_init0 S L e z s a (hsub a List.mem_cons_self) hs
    obtain ⟨i1, i2, i3⟩ := ih _ (fun b hb => hsub b (List.mem_cons_of_mem _ hb)) s1
    refine ⟨i1, fun b hb => i2 b (s2 b hb), ?_⟩
    intro b hb hm
    rcases List.mem_cons.mp hb with rfl | hbt
    · exact i2 b (s3 hm)
    · exact i3 b hbt hm

theorem seedP_iff (e : Env α) (b : Nat) : seedP e b = true ↔ b ∈ e.seeds ∧ e.mask b = false := by
  simp [seedP, List.contains_iff_mem]

/-- the instrumented initial state satisfies the upper-bound invariant -/
theorem ubInit_inv (S : Scalar α) (L : Fs.UB.Laws (ubOrd S)) (e : Env α) (z : Nat → α) :
    Fs.UB.UBInv (ubOrd S) z (nbIdx e.topo) (seedP e) e.mask none (ubInit S e z) := by
  obtain ⟨h0, hseed⟩ := ubInit_init0 S L e z
  have hq : ∀ x, (ubInit S e z).queued x → x ∈ (ubInit S e z).openQ := by
    intro x hx
    rcases hx with hx | hx
    · exact hx
    · rw [h0.pit] at hx; cases hx
  refine
    { queued := ?_, unclosedZ := ?_, seedClosed := ?_, openZ := ?_, openSorted := h0.sorted, pitSorted := ?_,
      pit0 := fun _ => h0.pit, pitVals := ?_, openLB := ?_, chainLo := ?_, chainHi := ?_, ctimeLe := ?_,
      pitTime := ?_, H := ?_, frontier := ?_, curInfo := ?_ }
  · intro x hx
    obtain ⟨c1, c2, _⟩ := h0.openMem x (hq x hx)
    exact ⟨c1, by rw [h0.elev, c2]⟩
  · intro n _; rw [h0.elev]
  · intro b hb
    obtain ⟨h1, h2⟩ := (seedP_iff e b).mp hb
    exact hseed b h1 h2
  · intro x hx; exact (h0.openMem x hx).2.1
  · rw [h0.pit]; exact List.Pairwise.nil
  · intro hk; rw [h0.k] at hk; cases hk
  · intro hk; rw [h0.k] at hk; cases hk
  · intro hk; rw [h0.k] at hk; cases hk
  · intro hk; rw [h0.k] at hk; cases hk
  · intro n _; rw [h0.ctime, h0.k]; exact Nat.le_refl 0
  · intro x hx; rw [h0.pit] at hx; cases hx
  · intro y _ p v hp hb
    rw [h0.elev, h0.ctime]
    have hyp : y ∈ p := hp.end_mem
    exact L.le_trans (hb y hyp) (Fs.UB.le_pw L 1 v)
  · intro c hc
    obtain ⟨x, hx, hxe⟩ := h0.closedIff c hc
    right; left
    exact ⟨z c, Or.inl (hxe ▸ hx)⟩
  · intro c hc; cases hc

/-- **fill_le_spill_plus_n_ulps** for the executed priority flood: for every node the flood closed,
every path from an unmasked base level through unmasked neighbours to that node, and every bound
`v` on the input elevation along the path, the filled elevation is at most `v` raised by `n + 2`
floating-point increments (`n` = number of grid nodes).  With `v` the maximum along the best path
this is `f ≤ (spill level)⁺⁽ⁿ⁺²⁾`.  Needs `lt` to be a linear order with a strictly increasing,
monotone `nextUp` (true of finite binary64 up to the identification of ±0). -/
theorem pflood_le_spill (S : Scalar α) (L : Fs.UB.Laws (ubOrd S)) (e : Env α) (z : Nat → α) (d : α)
    (y : Nat) (hy : y < e.topo.n) (p : List Nat) (v : α)
    (hclosed : (Fs.run (ordOf S) (nbIdx e.topo) e.mask (e.topo.n + 1) (pfInit S e z)).closed y = true)
    (hp : Fs.UB.Path (nbIdx e.topo) (seedP e) e.mask p y) (hb : Fs.UB.Bounded (ubOrd S) z p v) :
    (ubOrd S).le (look (pflood S e z) d y) (Fs.UB.pw (ubOrd S) (e.topo.n + 2) v) = true := by
  have herase := run_erase S (nbIdx e.topo) e.mask (e.topo.n + 1) (ubInit S e z)
  rw [ubInit_erase] at herase
  have hup := Fs.UB.pflood_upper (ubOrd S) L z (nbIdx e.topo) (seedP e) e.mask
    (e.topo.n + 1) (ubInit S e z) (ubInit_inv S L e z) y p v
  have hk := run_k_le (ubOrd S) (nbIdx e.topo) e.mask (e.topo.n + 1) (ubInit S e z)
  have h0 : (ubInit S e z).k = 0 := (ubInit_init0 S L e z).1.k
  rw [h0] at hk
  generalize Fs.UB.run (ubOrd S) (nbIdx e.topo) e.mask (e.topo.n + 1) (ubInit S e z) = fin at herase hup hk
  have hcl : fin.closed y = true := by
    have : (erase fin).closed y = true := by rw [herase]; exact hclosed
    exact this
  have hel : look (pflood S e z) d y = fin.elev y := by
    unfold pflood
    rw [look_tab _ _ _ _ hy, ← herase]
    rfl
  rw [hel]
  exact L.le_trans (hup hcl hp hb) (Fs.UB.pw_mono_left L (by omega) v)

/-! ### lower bounds: never below the input, identical at terminal nodes, not below the spill level -/

section lb
variable (o : Fs.UB.Ord α) (L : Fs.UB.Laws o) (z : Nat → α) (nbrs : Nat → List Nat) (seed mask : Nat → Bool)

theorem visit_keeps (t : α) (s : Fs.UB.PF α) (nb c : Nat) (hc : s.closed c = true) :
    (Fs.UB.visit o mask t s nb).closed c = true ∧ (Fs.UB.visit o mask t s nb).elev c = s.elev c := by
  unfold Fs.UB.visit
  by_cases h1 : (mask nb || s.closed nb) = true
  · rw [if_pos h1]; exact ⟨hc, rfl⟩
  · rw [if_neg h1]
    have hcl : s.closed nb = false := by cases hh : s.closed nb <;> simp_all
    have hne : c ≠ nb := by intro e; subst e; rw [hc] at hcl; cases hcl
    split
    · exact ⟨by show Fs.UB.upd s.closed nb true c = true; rw [Fs.UB.upd_ne _ _ _ _ hne]; exact hc, rfl⟩
    · exact ⟨by show Fs.UB.upd s.closed nb true c = true; rw [Fs.UB.upd_ne _ _ _ _ hne]; exact hc,
             by show Fs.UB.upd s.elev nb t c = s.elev c; rw [Fs.UB.upd_ne _ _ _ _ hne]⟩

include L in
theorem fold_lb (c : Nat) (ce : α) (l : List Nat) (hl : ∀ m, m ∈ l → m ∈ nbrs c) (s : Fs.UB.PF α)
    (h : Fs.UB.LBInv o z nbrs seed mask s) (hc : s.closed c = true) (he : s.elev c = ce) :
    Fs.UB.LBInv o z nbrs seed mask (l.foldl (Fs.UB.visit o mask (o.nextUp ce)) s) := by
  induction l generalizing s with
  | nil => exact h
  | cons a t ih =>
    simp only [List.foldl_cons]
    have hv := Fs.UB.visit_lb o L z nbrs seed mask c s a h hc (hl a List.mem_cons_self)
    rw [he] at hv
    obtain ⟨k1, k2⟩ := visit_keeps o mask (o.nextUp ce) s a c hc
    exact ih (fun m hm => hl m (List.mem_cons_of_mem _ hm)) _ hv k1 (by rw [k2, he])

include L in
theorem step_lb (s s' : Fs.UB.PF α)
    (hq : ∀ x, s.queued x → s.closed x.1 = true ∧ s.elev x.1 = x.2)
    (h : Fs.UB.LBInv o z nbrs seed mask s) (hs : Fs.UB.step o nbrs mask s = some s') :
    Fs.UB.LBInv o z nbrs seed mask s' := by
  unfold Fs.UB.step at hs
  split at hs
  · cases hs
  · rename_i c fo s1 hpop
    cases hs
    have hcq : s.queued c ∧ s1.elev = s.elev ∧ s1.closed = s.closed := by
      rcases Fs.UB.pop_cases o s c fo s1 hpop with ⟨_, qs, hq', rfl, _⟩ | ⟨_, ps, hp', rfl⟩
      · exact ⟨Or.inl (by rw [hq']; exact List.mem_cons_self), rfl, rfl⟩
      · exact ⟨Or.inr (by rw [hp']; exact List.mem_cons_self), rfl, rfl⟩
    obtain ⟨hcq1, he1, hc1⟩ := hcq
    obtain ⟨hcc, hce⟩ := hq c hcq1
    have hb : Fs.UB.LBInv o z nbrs seed mask (Fs.UB.bump s1 c fo) := by
      refine ⟨?_, ?_, ?_, ?_, ?_⟩
      · intro n; show o.le (z n) (s1.elev n) = true; rw [he1]; exact h.geZ n
      · intro n hn; show s1.elev n = z n; rw [he1]; exact h.unclosedZ n (by rw [← hc1]; exact hn)
      · intro b hb; show s1.elev b = z b ∧ s1.closed b = true; rw [he1, hc1]; exact h.seedZ b hb
      · intro n hn; show s1.elev n = z n; rw [he1]; exact h.maskZ n hn
      · intro y hy
        have hy' : s.closed y = true := by rw [← hc1]; exact hy
        obtain ⟨p, hp, hbd⟩ := h.lb y hy'
        exact ⟨p, hp, by show Fs.UB.Bounded o z p (s1.elev y); rw [he1]; exact hbd⟩
    exact fold_lb o L z nbrs seed mask c.1 c.2 (nbrs c.1) (fun _ hm => hm) _ hb
      (by show s1.closed c.1 = true; rw [hc1]; exact hcc) (by show s1.elev c.1 = c.2; rw [he1]; exact hce)

include L in
theorem run_lb (fuel : Nat) (s : Fs.UB.PF α) (hu : Fs.UB.UBInv o z nbrs seed mask none s)
    (h : Fs.UB.LBInv o z nbrs seed mask s) :
    Fs.UB.LBInv o z nbrs seed mask (Fs.UB.run o nbrs mask fuel s) := by
  induction fuel generalizing s with
  | zero => exact h
  | succ f ih =>
    unfold Fs.UB.run
    split
    · exact h
    · rename_i s' hs
      exact ih s' (Fs.UB.step_inv o L z nbrs seed mask s s' hu hs) (step_lb o L z nbrs seed mask s s' hu.queued h hs)

end lb

theorem ubInit_lb (S : Scalar α) (L : Fs.UB.Laws (ubOrd S)) (e : Env α) (z : Nat → α) :
    Fs.UB.LBInv (ubOrd S) z (nbIdx e.topo) (seedP e) e.mask (ubInit S e z) := by
  obtain ⟨h0, hseed⟩ := ubInit_init0 S L e z
  refine ⟨?_, ?_, ?_, ?_, ?_⟩
  · intro n; rw [h0.elev]; exact L.le_refl _
  · intro n _; rw [h0.elev]
  · intro b hb
    obtain ⟨h1, h2⟩ := (seedP_iff e b).mp hb
    exact ⟨by rw [h0.elev], hseed b h1 h2⟩
  · intro n _; rw [h0.elev]
  · intro y hy
    obtain ⟨x, hx, hxe⟩ := h0.closedIff y hy
    have hys : y ∈ e.seeds := by have := h0.openSeed x hx; rw [hxe] at this; exact this
    have hym : e.mask y = false := by have := (h0.openMem x hx).2.2; rw [hxe] at this; exact this
    refine ⟨[y], Fs.UB.Path.seed y ((seedP_iff e y).mpr ⟨hys, hym⟩) hym, ?_⟩
    intro w hw
    simp only [List.mem_singleton] at hw
    subst hw; rw [h0.elev]; exact L.le_refl _

/-- the state the executed flood ends in satisfies the lower-bound facts -/
theorem pflood_lb (S : Scalar α) (L : Fs.UB.Laws (ubOrd S)) (e : Env α) (z : Nat → α) :
    ∃ fin : Fs.UB.PF α, erase fin = Fs.run (ordOf S) (nbIdx e.topo) e.mask (e.topo.n + 1) (pfInit S e z) ∧
      Fs.UB.LBInv (ubOrd S) z (nbIdx e.topo) (seedP e) e.mask fin := by
  refine ⟨Fs.UB.run (ubOrd S) (nbIdx e.topo) e.mask (e.topo.n + 1) (ubInit S e z), ?_, ?_⟩
  · rw [run_erase, ubInit_erase]
  · exact run_lb (ubOrd S) L z (nbIdx e.topo) (seedP e) e.mask _ _ (ubInit_inv S L e z) (ubInit_lb S L e z)

/-- **fill_ge_input**: the filled elevation is never below the input -/
theorem pflood_ge_input (S : Scalar α) (L : Fs.UB.Laws (ubOrd S)) (e : Env α) (z : Nat → α) (d : α) (y : Nat) (hy : y < e.topo.n) :
    (ubOrd S).le (z y) (look (pflood S e z) d y) = true := by
  obtain ⟨fin, he, hl⟩ := pflood_lb S L e z
  unfold pflood
  rw [look_tab _ _ _ _ hy, ← he]
  exact hl.geZ y

/-- **fill_fixed**: base-level nodes (masked or not) and masked nodes keep their elevation bit for bit -/
theorem pflood_fixed (S : Scalar α) (L : Fs.UB.Laws (ubOrd S)) (e : Env α) (z : Nat → α) (d : α) (y : Nat) (hy : y < e.topo.n)
    (h : y ∈ e.seeds ∨ e.mask y = true) : look (pflood S e z) d y = z y := by
  obtain ⟨fin, he, hl⟩ := pflood_lb S L e z
  unfold pflood
  rw [look_tab _ _ _ _ hy, ← he]
  show fin.elev y = z y
  by_cases hm : e.mask y = true
  · exact hl.maskZ y hm
  · rcases h with h | h
    · exact (hl.seedZ y ((seedP_iff e y).mpr ⟨h, by cases hh : e.mask y <;> simp_all⟩)).1
    · exact absurd h hm

/-- **fill_ge_spill**: every node the flood closed is reached from an unmasked base level by a path
through unmasked neighbours along which the input elevation never exceeds the node's filled
elevation - so the filled elevation is at least the spill level (min over paths of the max input) -/
theorem pflood_ge_spill (S : Scalar α) (L : Fs.UB.Laws (ubOrd S)) (e : Env α) (z : Nat → α) (d : α) (y : Nat) (hy : y < e.topo.n)
    (hclosed : (Fs.run (ordOf S) (nbIdx e.topo) e.mask (e.topo.n + 1) (pfInit S e z)).closed y = true) :
    ∃ p, Fs.UB.Path (nbIdx e.topo) (seedP e) e.mask p y ∧
      ∀ w, w ∈ p → (ubOrd S).le (z w) (look (pflood S e z) d y) = true := by
  obtain ⟨fin, he, hl⟩ := pflood_lb S L e z
  have hcl : fin.closed y = true := by
    have : (erase fin).closed y = true := by rw [he]; exact hclosed
    exact this
  obtain ⟨p, hp, hb⟩ := hl.lb y hcl
  refine ⟨p, hp, ?_⟩
  intro w hw
  unfold pflood
  rw [look_tab _ _ _ _ hy, ← he]
  exact hb w hw

end Fs.C02
