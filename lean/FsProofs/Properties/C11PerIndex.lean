import FsProofs.Properties.C11
import FsProofs.Properties.C11Spurious

/-! # C11 — composition at the level of INDICES

`C11.lean` proves the block arithmetic (`blocks_exact`, `index_in_unique_block` about `Fs.mkBlocks`),
`C11Spurious.lean` the protocol (`exactly_once5`, `reaches_finished5`, `no_infinite_run5` about
`Fs.Pool5`).  This file composes the two for ONE call `run_blocks(first, last, min_size)`:

* `want_over_call`: over one `runBlocks b` call (from the state just before the call to the state
  in which it has returned) `want k` grows by `1` if `k < b ∧ k < N`, by `0` otherwise, and the pool
  size does not change (pure transition-system fact, phase invariant `Phase`);
* `execs_over_call`: the same for the executed-callback counters `execs` (with `exactly_once5`
  at both ends);
* `run_blocks_per_index`: with `b := (Fs.mkBlocks first last N minSize).nb` (`= 0` for an empty
  range: nothing is dispatched): every index of `[first, last)` lies in the block of EXACTLY ONE
  worker `k < b ≤ N`, that worker executed its callback exactly once during the call, workers
  without a block executed nothing, all blocks lie inside `[first, last)` and are contiguous;
* `run_blocks_call_returns`: the call returns (a state in which it has returned is reachable from
  every state reachable after the call started, and there is no infinite execution);
* `run_blocks_total`: both halves for the one-call program `init N [.runBlocks b] sp`. -/
namespace Fs.C11

open Fs.Pool5

/-! ### one `runBlocks b` call: how `want` changes -/

/-- the caller is inside the `run_blocks` call with `b` blocks (possibly in its implicit `resume`) -/
def inCall (b : Nat) (c : CPc) (x : Ctx) : Prop :=
  match c with
  | .reLock | .reReq | .reNotify | .reUnlock | .reClear | .reWait => x = .inRun b
  | .rbSet b' => b' = b
  | .rbPub _ b' => b' = b
  | .rbWait b' => b' = b
  | _ => False

/-- phase invariant of the LAST call `runBlocks b` of a program, relative to the pool size `N` and
the counters `w0` just before the call: not yet started / in flight / returned -/
def Phase (b N : Nat) (w0 : Nat → Nat) (s : S) : Prop :=
  s.N = N ∧
  ((s.cpc = .ready ∧ s.ops = [.runBlocks b] ∧ s.want = w0) ∨
   (s.ops = [] ∧ inCall b s.cpc s.ctx ∧ s.want = w0) ∨
   (s.ops = [] ∧ s.cpc = .ready ∧ s.want = fun i => w0 i + (if i < b ∧ i < N then 1 else 0)))

theorem phase_congr (b N : Nat) (w0 : Nat → Nat) (s s' : S) (hN : s'.N = s.N) (hc : s'.cpc = s.cpc)
    (hx : s'.ctx = s.ctx) (ho : s'.ops = s.ops) (hw : s'.want = s.want) (hp : Phase b N w0 s) :
    Phase b N w0 s' := by
  unfold Phase at hp ⊢
  rw [hN, hc, hx, ho, hw]; exact hp

theorem phase_stepC (b N : Nat) (w0 : Nat → Nat) (s s' : S) (hp : Phase b N w0 s)
    (h : stepC s = some s') : Phase b N w0 s' := by
  obtain ⟨hN, hcase⟩ := hp
  rcases hcase with ⟨hc, ho, hw⟩ | ⟨ho, hin, hw⟩ | ⟨ho, hc, _⟩
  · -- the call starts
    unfold stepC at h
    rw [hc] at h; simp only [] at h
    rw [ho] at h; simp only [] at h
    cases h
    simp only [startOp]
    split
    · exact ⟨hN, Or.inr (Or.inl ⟨rfl, rfl, hw⟩)⟩
    · exact ⟨hN, Or.inr (Or.inl ⟨rfl, rfl, hw⟩)⟩
  · -- the call is in flight
    unfold stepC at h
    cases hc : s.cpc <;> rw [hc] at h hin <;> simp only [inCall] at hin <;> simp only [] at h
    case rbSet b' =>
      cases h; subst hin
      exact ⟨hN, Or.inr (Or.inl ⟨ho, rfl, hw⟩)⟩
    case rbPub k b' =>
      subst hin
      split at h <;> cases h
      · exact ⟨hN, Or.inr (Or.inl ⟨ho, rfl, hw⟩)⟩
      · exact ⟨hN, Or.inr (Or.inl ⟨ho, rfl, hw⟩)⟩
    case rbWait b' =>
      subst hin
      split at h <;> cases h
      refine ⟨hN, Or.inr (Or.inr ⟨ho, rfl, ?_⟩)⟩
      show (fun i => s.want i + (if i < b' ∧ i < s.N then 1 else 0)) = _
      rw [hw, hN]
    case reLock =>
      split at h <;> cases h
      exact ⟨hN, Or.inr (Or.inl ⟨ho, hin, hw⟩)⟩
    case reReq => cases h; exact ⟨hN, Or.inr (Or.inl ⟨ho, hin, hw⟩)⟩
    case reNotify => cases h; exact ⟨hN, Or.inr (Or.inl ⟨ho, hin, hw⟩)⟩
    case reUnlock => cases h; exact ⟨hN, Or.inr (Or.inl ⟨ho, hin, hw⟩)⟩
    case reClear => cases h; exact ⟨hN, Or.inr (Or.inl ⟨ho, hin, hw⟩)⟩
    case reWait =>
      split at h <;> cases h
      rw [hin]
      exact ⟨hN, Or.inr (Or.inl ⟨ho, rfl, hw⟩)⟩
  · -- the call has returned and nothing is left to do: the caller has no step
    unfold stepC at h
    rw [hc] at h; simp only [] at h
    rw [ho] at h; cases h

theorem phase_step (b N : Nat) (w0 : Nat → Nat) (s s' : S) (t : Tid) (hp : Phase b N w0 s)
    (h : Fs.Pool5.step s t = some s') : Phase b N w0 s' := by
  have hwant : t ≠ .caller → s'.want = s.want := by
    intro hne
    rcases want_step s s' t h with hw | ⟨_, ht, _⟩
    · exact hw
    · exact absurd ht hne
  cases t with
  | caller => exact phase_stepC b N w0 s s' hp h
  | work i =>
    have hw := hwant (by intro e; cases e)
    simp only [Fs.Pool5.step] at h
    split at h
    · obtain ⟨h1, h2, h3, h4, _⟩ := stepW_frame s s' i h
      exact phase_congr b N w0 s s' h1 h2 h3 h4 hw hp
    · cases h
  | exit i =>
    have hw := hwant (by intro e; cases e)
    simp only [Fs.Pool5.step] at h
    split at h
    · obtain ⟨h1, h2, h3, h4, _⟩ := stepX_frame s s' i h
      exact phase_congr b N w0 s s' h1 h2 h3 h4 hw hp
    · cases h
  | spur i =>
    have hw := hwant (by intro e; cases e)
    simp only [Fs.Pool5.step] at h
    split at h
    · obtain ⟨h1, h2, h3, h4, _⟩ := stepS_frame s s' i h
      exact phase_congr b N w0 s s' h1 h2 h3 h4 hw hp
    · cases h

theorem phase_reachable (b N : Nat) (w0 : Nat → Nat) (s0 s : S) (hp : Phase b N w0 s0)
    (h : Reachable s0 s) : Phase b N w0 s := by
  induction h with
  | refl => exact hp
  | step a a' t _ hs ih => exact phase_step b N w0 a a' t ih hs

/-- **`want` over one call**: `s0` is the state just before the last call `runBlocks b` of the
program (caller between calls), `s1` any state reachable from it in which that call has returned.
The pool size is unchanged and `want k` has been incremented exactly for the workers that had a
block (`k < b`, `k < N`).  No invariant is needed: this is a fact about the transition system. -/
theorem want_over_call (b : Nat) (s0 s1 : S) (hc0 : s0.cpc = .ready) (ho0 : s0.ops = [.runBlocks b])
    (hr : Reachable s0 s1) (hc1 : s1.cpc = .ready) (ho1 : s1.ops = []) :
    s1.N = s0.N ∧ ∀ k, s1.want k = s0.want k + (if k < b ∧ k < s0.N then 1 else 0) := by
  have hp0 : Phase b s0.N s0.want s0 := ⟨rfl, Or.inl ⟨hc0, ho0, rfl⟩⟩
  obtain ⟨hN, hcase⟩ := phase_reachable b s0.N s0.want s0 s1 hp0 hr
  refine ⟨hN, ?_⟩
  rcases hcase with ⟨_, ho, _⟩ | ⟨_, hin, _⟩ | ⟨_, _, hw⟩
  · rw [ho1] at ho; cases ho
  · rw [hc1] at hin; exact absurd hin (by simp [inCall])
  · intro k; rw [hw]

/-- while the call is in flight or before it, the state in which it has returned is
distinguishable: every state reachable from `s0` has the pool size of `s0` -/
theorem size_over_call (b : Nat) (s0 s : S) (hc0 : s0.cpc = .ready) (ho0 : s0.ops = [.runBlocks b])
    (hr : Reachable s0 s) : s.N = s0.N :=
  (phase_reachable b s0.N s0.want s0 s ⟨rfl, Or.inl ⟨hc0, ho0, rfl⟩⟩ hr).1

/-- **executions over one call** (protocol half of C11 for one call): between the state just
before the call and any state in which it has returned, worker `k` has executed its callback
exactly once if it had a block (`k < b`, `k < N`) and not at all otherwise -/
theorem execs_over_call (n : Nat) (ops : List Op) (sp : Nat → Nat) (hops : okProg false false ops = true)
    (b : Nat) (s0 s1 : S) (h0 : Reachable (init n ops sp) s0)
    (hc0 : s0.cpc = .ready) (ho0 : s0.ops = [.runBlocks b])
    (hr : Reachable s0 s1) (hc1 : s1.cpc = .ready) (ho1 : s1.ops = []) :
    ∀ k, s1.execs k = s0.execs k + (if k < b ∧ k < s0.N then 1 else 0) := by
  intro k
  have e0 := exactly_once5 n ops sp hops s0 h0 hc0 k
  have e1 := exactly_once5 n ops sp hops s1 (Reachable.trans h0 hr) hc1 k
  have hw := (want_over_call b s0 s1 hc0 ho0 hr hc1 ho1).2 k
  rw [e0, e1, hw]

/-! ### the blocks lie inside the range -/

/-- any family of `nb` non-empty contiguous intervals from `first` to `last` stays inside
`[first, last)` -/
theorem intervals_inside (nb first last : Nat) (start stop : Nat → Nat)
    (h0 : start 0 = first) (hlast : stop (nb - 1) = last)
    (hne : ∀ k, k < nb → start k < stop k) (hcont : ∀ k, k + 1 < nb → stop k = start (k + 1)) :
    ∀ k, k < nb → first ≤ start k ∧ stop k ≤ last := by
  have lo : ∀ k, k < nb → first ≤ start k := by
    intro k
    induction k with
    | zero => intro _; omega
    | succ m ih =>
      intro hk
      have h1 := ih (by omega)
      have h2 := hne m (by omega)
      have h3 := hcont m hk
      omega
  have hi : ∀ d k, nb - 1 - k = d → k < nb → stop k ≤ last := by
    intro d
    induction d with
    | zero =>
      intro k hd hk
      have : k = nb - 1 := by omega
      rw [this, hlast]; exact Nat.le_refl _
    | succ m ih =>
      intro k hd hk
      have hk1 : k + 1 < nb := by omega
      have h1 := ih (k + 1) (by omega) hk1
      have h2 := hne (k + 1) hk1
      have h3 := hcont k hk1
      omega
  intro k hk
  exact ⟨lo k hk, hi _ k rfl hk⟩

/-! ### composition: one `run_blocks(first, last, min_size)` call, index by index -/

/-- **run_blocks_per_index** (safety half of C11 at the level of indices).

Setting: any program `ops` the library can issue (`okProg`), any initial pool size `n`, any budgets
of spurious wake-ups `sp`, any interleaving.  `s0` is a reachable state just before the LAST call
of the program, which is `run_blocks(first, last, minSize)` on the pool of `s0.N ≥ 1` workers: the
C++ computes `B := mkBlocks first last s0.N minSize` and dispatches `B.nb` blocks (`B.nb = 0` for
an empty range: `blocks_empty`), i.e. `s0.ops = [.runBlocks B.nb]`.  `s1` is ANY state reachable
from `s0` in which the call has returned.  Then

1. `B.nb ≤ s0.N` (never more blocks than workers) and the pool still has `s0.N` workers;
2. every worker `k < B.nb` executed its callback exactly once during the call;
3. every other worker slot (`k ≥ B.nb`) executed nothing during the call;
4. every index `x` of `[first, last)` lies in the block `[B.start k, B.stop k)` of EXACTLY ONE
   worker `k < B.nb`, and that worker executed its callback exactly once during the call;
5. every dispatched block is non-empty and lies inside `[first, last)` (no index outside the range
   is processed), and consecutive blocks are contiguous.

Reading "worker `k` runs the user callback once over `[B.start k, B.stop k)`" (this is what the
block job does, `thread_pool_inl.hpp`), 2-5 say: every index of the range is processed exactly
once and no other index is processed. -/
theorem run_blocks_per_index (n : Nat) (ops : List Op) (sp : Nat → Nat)
    (hops : okProg false false ops = true) (first last minSize : Nat)
    (s0 : S) (h0 : Reachable (init n ops sp) s0) (hN : 0 < s0.N) (hc0 : s0.cpc = .ready)
    (ho0 : s0.ops = [.runBlocks (Fs.mkBlocks first last s0.N minSize).nb])
    (s1 : S) (h1 : Reachable s0 s1) (hc1 : s1.cpc = .ready) (ho1 : s1.ops = []) :
    let B := Fs.mkBlocks first last s0.N minSize
    (B.nb ≤ s0.N ∧ s1.N = s0.N) ∧
    (∀ k, k < B.nb → s1.execs k = s0.execs k + 1) ∧
    (∀ k, B.nb ≤ k → s1.execs k = s0.execs k) ∧
    (∀ x, first ≤ x → x < last →
      ∃ k, k < B.nb ∧ B.start k ≤ x ∧ x < B.stop k ∧ s1.execs k = s0.execs k + 1 ∧
        ∀ k', k' < B.nb → B.start k' ≤ x → x < B.stop k' → k' = k) ∧
    (∀ k, k < B.nb → first ≤ B.start k ∧ B.start k < B.stop k ∧ B.stop k ≤ last) ∧
    (∀ k, k + 1 < B.nb → B.stop k = B.start (k + 1)) := by
  intro B
  have hex := execs_over_call n ops sp hops B.nb s0 s1 h0 hc0 ho0 h1 hc1 ho1
  have hsz := (want_over_call B.nb s0 s1 hc0 ho0 h1 hc1 ho1).1
  have hle : B.nb ≤ s0.N := by
    by_cases h : first < last
    · exact (blocks_exact first last s0.N minSize hN h).2.1
    · have : B.nb = 0 := blocks_empty first last s0.N minSize h
      omega
  have hone : ∀ k, k < B.nb → s1.execs k = s0.execs k + 1 := by
    intro k hk
    rw [hex k, if_pos ⟨hk, by omega⟩]
  have hzero : ∀ k, B.nb ≤ k → s1.execs k = s0.execs k := by
    intro k hk
    rw [hex k, if_neg (by omega)]; rfl
  refine ⟨⟨hle, hsz⟩, hone, hzero, ?_, ?_, ?_⟩
  · intro x hx1 hx2
    have hfl : first < last := by omega
    obtain ⟨⟨k, hk, hs, he⟩, huniq⟩ := index_in_unique_block first last s0.N minSize hN hfl x ⟨hx1, hx2⟩
    exact ⟨k, hk, hs, he, hone k hk, fun k' hk' hs' he' => huniq k' k hk' hk hs' he' hs he⟩
  · intro k hk
    by_cases h : first < last
    · obtain ⟨_, _, h0', hl', hne, hcont⟩ := blocks_exact first last s0.N minSize hN h
      have := intervals_inside _ first last _ _ h0' hl' hne hcont k hk
      exact ⟨this.1, hne k hk, this.2⟩
    · have : B.nb = 0 := blocks_empty first last s0.N minSize h
      omega
  · intro k hk
    by_cases h : first < last
    · exact (blocks_exact first last s0.N minSize hN h).2.2.2.2.2 k hk
    · have : B.nb = 0 := blocks_empty first last s0.N minSize h
      omega

/-- **the call returns** (termination half, same setting): from every state `s` reachable after
`s0` (in particular from `s0` itself and from every state inside the call) a state in which the
call has returned is reachable, with an unchanged pool; and no execution of the program is
infinite.  So `run_blocks` returns under every fair schedule, whatever the number of (finitely
many) spurious wake-ups. -/
theorem run_blocks_call_returns (n : Nat) (ops : List Op) (sp : Nat → Nat)
    (hops : okProg false false ops = true) (b : Nat)
    (s0 : S) (h0 : Reachable (init n ops sp) s0) (hc0 : s0.cpc = .ready) (ho0 : s0.ops = [.runBlocks b]) :
    (∀ s, Reachable s0 s → ∃ s1, Reachable s s1 ∧ s1.cpc = .ready ∧ s1.ops = [] ∧ s1.N = s0.N) ∧
    (∀ (run : Nat → S) (sched : Nat → Tid), run 0 = init n ops sp →
      (∀ k, Fs.Pool5.step (run k) (sched k) = some (run (k + 1))) → False) := by
  constructor
  · intro s hs
    obtain ⟨s1, hr, hf⟩ := reaches_finished5 n ops sp hops s (Reachable.trans h0 hs)
    exact ⟨s1, hr, hf.1, hf.2, size_over_call b s0 s1 hc0 ho0 (Reachable.trans hs hr)⟩
  · intro run sched hr0 hstep
    exact no_infinite_run5 n ops sp hops run sched hr0 hstep

/-! ### the one-call program -/

theorem okProg_single (b : Nat) : okProg false false [.runBlocks b] = true := by
  simp [okProg]

/-- **run_blocks_total**: a pool of `N ≥ 1` workers (fresh, any spurious wake-up budgets) on which
`run_blocks(first, last, minSize)` is called once, any interleaving.

* the call returns: from every reachable state a finished state is reachable, and there is no
  infinite execution;
* in EVERY reachable state in which the call has returned: at most `N` blocks were dispatched;
  worker `k` has executed its callback exactly once if `k < B.nb` and never otherwise; every index
  of `[first, last)` lies in the block of exactly one worker, which has executed its callback
  exactly once; every block is non-empty, inside `[first, last)`, and the blocks are contiguous. -/
theorem run_blocks_total (N first last minSize : Nat) (hN : 0 < N) (sp : Nat → Nat) :
    let B := Fs.mkBlocks first last N minSize
    let prog : List Op := [.runBlocks B.nb]
    -- the call returns
    (∀ s, Reachable (init N prog sp) s → ∃ s1, Reachable s s1 ∧ finished s1) ∧
    (∀ (run : Nat → S) (sched : Nat → Tid), run 0 = init N prog sp →
      (∀ k, Fs.Pool5.step (run k) (sched k) = some (run (k + 1))) → False) ∧
    -- when it has returned
    (∀ s1, Reachable (init N prog sp) s1 → finished s1 →
      B.nb ≤ N ∧
      (∀ k, s1.execs k = if k < B.nb then 1 else 0) ∧
      (∀ x, first ≤ x → x < last →
        ∃ k, k < B.nb ∧ B.start k ≤ x ∧ x < B.stop k ∧ s1.execs k = 1 ∧
          ∀ k', k' < B.nb → B.start k' ≤ x → x < B.stop k' → k' = k) ∧
      (∀ k, k < B.nb → first ≤ B.start k ∧ B.start k < B.stop k ∧ B.stop k ≤ last) ∧
      (∀ k, k + 1 < B.nb → B.stop k = B.start (k + 1))) := by
  intro B prog
  have hops : okProg false false prog = true := okProg_single _
  refine ⟨fun s hs => reaches_finished5 N prog sp hops s hs,
    fun run sched hr0 hstep => no_infinite_run5 N prog sp hops run sched hr0 hstep, ?_⟩
  intro s1 hr hf
  obtain ⟨⟨hle, _⟩, hone, hzero, hidx, hin, hcont⟩ :=
    run_blocks_per_index N prog sp hops first last minSize (init N prog sp) Reachable.refl
      hN rfl rfl s1 hr hf.1 hf.2
  have hone' : ∀ k, k < B.nb → s1.execs k = 1 := by
    intro k hk; have := hone k hk; simpa [init] using this
  refine ⟨hle, ?_, ?_, hin, hcont⟩
  · intro k
    by_cases hk : k < B.nb
    · rw [if_pos hk]; exact hone' k hk
    · rw [if_neg hk]; have := hzero k (Nat.le_of_not_lt hk); simpa [init] using this
  · intro x hx1 hx2
    obtain ⟨k, hk, hs, he, _, hu⟩ := hidx x hx1 hx2
    exact ⟨k, hk, hs, he, hone' k hk, hu⟩

/-! ### concrete instances (non-vacuity) -/

/-- `run_blocks(3, 20, 2)` on 4 workers: 4 blocks `[3,8) [8,12) [12,16) [16,20)` -/
example : (Fs.mkBlocks 3 20 4 2).nb = 4 ∧
    ((List.range 4).map fun k => ((Fs.mkBlocks 3 20 4 2).start k, (Fs.mkBlocks 3 20 4 2).stop k))
      = [(3, 8), (8, 12), (12, 16), (16, 20)] := by decide

/-- `run_blocks_total` on first = 3, last = 20, N = 4, minSize = 2 (hypotheses by `decide`), any
spurious wake-up budgets: the call returns, and once it has returned each of the 4 workers has
executed its callback exactly once, worker slots ≥ 4 never, and e.g. index 10 was processed by
worker 1 (block `[8, 12)`) and by no other worker. -/
example (sp : Nat → Nat) :
    (∀ s, Reachable (init 4 [.runBlocks 4] sp) s → ∃ s1, Reachable s s1 ∧ finished s1) ∧
    (∀ s1, Reachable (init 4 [.runBlocks 4] sp) s1 → finished s1 →
      (∀ k, s1.execs k = if k < 4 then 1 else 0) ∧
      (∀ x, 3 ≤ x → x < 20 →
        ∃ k, k < 4 ∧ (Fs.mkBlocks 3 20 4 2).start k ≤ x ∧ x < (Fs.mkBlocks 3 20 4 2).stop k ∧
          s1.execs k = 1 ∧
          ∀ k', k' < 4 → (Fs.mkBlocks 3 20 4 2).start k' ≤ x → x < (Fs.mkBlocks 3 20 4 2).stop k' → k' = k) ∧
      s1.execs 1 = 1 ∧ (Fs.mkBlocks 3 20 4 2).start 1 ≤ 10 ∧ 10 < (Fs.mkBlocks 3 20 4 2).stop 1) := by
  have hnb : (Fs.mkBlocks 3 20 4 2).nb = 4 := by decide
  have h := run_blocks_total 4 3 20 2 (by decide) sp
  simp only [hnb] at h
  obtain ⟨hret, _, hsafe⟩ := h
  refine ⟨hret, ?_⟩
  intro s1 hr hf
  obtain ⟨_, hex, hidx, _, _⟩ := hsafe s1 hr hf
  exact ⟨hex, hidx, by rw [hex 1]; decide, by decide, by decide⟩

/-- a schedule for the prefix `run_blocks` (1 block) of the program `[.runBlocks 1, .runBlocks 4]`
on 4 workers: start, `set_tasks`, 4 publication steps, go to `wait`; worker 0 takes the job, runs
the block, clears its flag; the caller's `wait` returns -/
def prefixSchedule : List Tid :=
  [.caller, .caller, .caller, .caller, .caller, .caller, .caller, .work 0, .work 0, .work 0, .caller]

/-- the hypotheses of `run_blocks_per_index` are satisfiable with a NON-trivial prefix (`s0` is not
the initial state and its counters are not zero): after a first call with one block, the state just
before `run_blocks(3, 20, 2)` on the 4 workers is reachable, worker 0 has executed one callback
there, and in every state in which the second call has returned it has executed two, workers
1, 2, 3 one, and index 10 was processed during the second call by worker 1 only. -/
example : ∃ s0, Reachable (init 4 [.runBlocks 1, .runBlocks 4] (fun _ => 0)) s0 ∧ s0.N = 4 ∧
    s0.cpc = .ready ∧ s0.ops = [.runBlocks (Fs.mkBlocks 3 20 s0.N 2).nb] ∧ s0.execs 0 = 1 ∧
    ∀ s1, Reachable s0 s1 → s1.cpc = .ready → s1.ops = [] →
      s1.execs 0 = 2 ∧ s1.execs 1 = 1 ∧ s1.execs 2 = 1 ∧ s1.execs 3 = 1 ∧ s1.execs 4 = 0 ∧
      ∃ k, k < 4 ∧ s1.execs k = s0.execs k + 1 ∧
        ∀ k', k' < 4 → (Fs.mkBlocks 3 20 4 2).start k' ≤ 10 → 10 < (Fs.mkBlocks 3 20 4 2).stop k' → k' = k := by
  have hnb : (Fs.mkBlocks 3 20 4 2).nb = 4 := by decide
  cases h : runSched (init 4 [.runBlocks 1, .runBlocks 4] (fun _ => 0)) prefixSchedule with
  | none => exact absurd h (by decide)
  | some s0 =>
    have hr := runSched_reachable _ _ _ h
    have hb : (match runSched (init 4 [.runBlocks 1, .runBlocks 4] (fun _ => 0)) prefixSchedule with
        | some s => decide (s.N = 4) && decide (s.cpc = .ready) && decide (s.ops = [.runBlocks 4]) &&
                    (s.execs 0 == 1) && (s.execs 1 == 0) && (s.execs 2 == 0) && (s.execs 3 == 0) &&
                    (s.execs 4 == 0)
        | none => false) = true := by decide
    rw [h] at hb
    simp only [Bool.and_eq_true, decide_eq_true_eq, beq_iff_eq] at hb
    obtain ⟨⟨⟨⟨⟨⟨⟨hN, hc⟩, ho⟩, e0⟩, e1⟩, e2⟩, e3⟩, e4⟩ := hb
    have ho' : s0.ops = [.runBlocks (Fs.mkBlocks 3 20 s0.N 2).nb] := by rw [hN, hnb]; exact ho
    refine ⟨s0, hr, hN, hc, ho', e0, ?_⟩
    intro s1 hr1 hc1 ho1
    have hmain := run_blocks_per_index 4 [.runBlocks 1, .runBlocks 4] (fun _ => 0) (by decide) 3 20 2
      s0 hr (by omega) hc ho' s1 hr1 hc1 ho1
    simp only [hN, hnb] at hmain
    obtain ⟨_, hone, hzero, hidx, _, _⟩ := hmain
    have h0 := hone 0 (by omega)
    have h1 := hone 1 (by omega)
    have h2 := hone 2 (by omega)
    have h3 := hone 3 (by omega)
    have h4 := hzero 4 (by omega)
    obtain ⟨k, hk, _, _, hek, hu⟩ := hidx 10 (by omega) (by omega)
    exact ⟨by omega, by omega, by omega, by omega, by omega, k, hk, hek, hu⟩

/-- empty range: nothing is dispatched, nobody executes anything, the call still returns -/
example (sp : Nat → Nat) (s1 : S) (hr : Reachable (init 4 [.runBlocks (Fs.mkBlocks 7 7 4 2).nb] sp) s1)
    (hf : finished s1) : ∀ k, s1.execs k = 0 := by
  intro k
  have h := (run_blocks_total 4 7 7 2 (by decide) sp).2.2 s1 hr hf
  have hnb : (Fs.mkBlocks 7 7 4 2).nb = 0 := by decide
  have := h.2.1 k
  rw [hnb] at this
  simpa using this

end Fs.C11

