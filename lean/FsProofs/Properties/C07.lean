import FsModel.Grid
import FsModel.U64

/-! # C07 — raster neighbourhoods computed from the node-code tables equal the geometry

Theorems about `Fs.Grid.codeOffsets` / `Fs.Grid.codeOf`, the definitions the model driver executes
with the tables regenerated from raster_grid.hpp (`Fs.Gen.codedTuples`, `offsRook/Queen/Bishop`,
`code*` constants): for every shape ≥ 2 × 2, every admissible loop flags, every node and EVERY
connectivity (indeed any list of direction symbols), the offset list selected through the node
code is, element by element and in the same order, the geometric one-step neighbourhood (stay
inside, wrap across a looped border, drop otherwise). -/
namespace Fs.C07
open Fs.Grid Fs.Gen

/-- direction of an offset symbol: 0 = stay, 1 = towards smaller index, 2 = towards larger index -/
def dirOf : Nat → Int
  | 0 => 0 | 1 => -1 | _ => 1

/-- one geometric step along an axis of length `n` from `x` -/
def stepAxis (n : Int) (looped : Bool) (x d : Int) : Option Int :=
  let y := x + d
  if 0 ≤ y ∧ y < n then some y
  else if looped then some (if y < 0 then y + n else y - n)
  else none

/-- geometric neighbour offsets of node `(r, c)` for a list of direction symbols -/
def geomOffsets (offsL : List (Nat × Nat)) (rows cols : Nat) (lv lh : Bool) (r c : Nat) : List (Int × Int) :=
  offsL.filterMap fun (sr, sc) =>
    match stepAxis rows lv r (dirOf sr), stepAxis cols lh c (dirOf sc) with
    | some r', some c' => some (r' - r, c' - c)
    | _, _ => none

/-- position class along an axis: 0 first, 1 interior, 2 last (as `build_nodes_codes` tests them) -/
def cls (len x : Nat) : Nat := if x = len - 1 then 2 else if x = 0 then 0 else 1

/-- the node code is `3 * row class + column class` (constants regenerated from the source) -/
theorem codeOf_cls (rows cols r c : Nat) : codeOf rows cols r c = 3 * cls rows r + cls cols c := by
  unfold codeOf axisCode cls
  have h1 : codeRowMid = 3 := by decide
  have h2 : codeColMid = 1 := by decide
  have h3 : codeLastMul = 2 := by decide
  rw [h1, h2, h3]
  split <;> split <;> (try split) <;> (try split) <;> omega

/-- what the regenerated argument tuples say: `up` wraps on the first row, `down` on the last,
`left` on the first column, `right` on the last; plain ±1 otherwise -/
def upOf (k : Nat) : Sym := if k = 0 then .dr else .mone
def downOf (k : Nat) : Sym := if k = 2 then .mdr else .one
def leftOf (k : Nat) : Sym := if k = 0 then .dc else .mone
def rightOf (k : Nat) : Sym := if k = 2 then .mdc else .one

/-- **generated-table obligation**: the nine coded tuples found in the source are these -/
theorem codedTuples_spec : ∀ kr, kr < 3 → ∀ kc, kc < 3 →
    codedTuples.getD (3 * kr + kc) (.mone, .one, .mone, .one) = (upOf kr, downOf kr, leftOf kc, rightOf kc) := by
  decide

/-- one axis of the code-driven computation: the selected offset (`none` when it is dropped), with
`wrap` the value of the wrap-around argument (`rows-1` / `cols-1` if looped, else 0) -/
def codeAxis (len x s : Nat) (wrap : Int) : Option Int :=
  let lo : Int := if cls len x = 0 then wrap else -1
  let hi : Int := if cls len x = 2 then -wrap else 1
  let o := pick lo hi s
  if s ≠ 0 ∧ o = 0 then none else some o

theorem cls_first (len : Nat) (hl : 2 ≤ len) : cls len 0 = 0 := by
  unfold cls; have : ¬ (0 = len - 1) := by omega
  simp [this]
theorem cls_last (len : Nat) (hl : 2 ≤ len) : cls len (len - 1) = 2 := by simp [cls]
theorem cls_mid (len x : Nat) (h0 : 0 < x) (h1 : x < len - 1) : cls len x = 1 := by
  unfold cls; have a : ¬ (x = len - 1) := by omega
  have b : ¬ (x = 0) := by omega
  simp [a, b]

/-- **the axis lemma**: code-driven offset = geometric step, for every axis length ≥ 2 -/
theorem axis (len : Nat) (hl : 2 ≤ len) (looped : Bool) (x : Nat) (hx : x < len) (s : Nat) (hs : s < 3) :
    codeAxis len x s (if looped then (len : Int) - 1 else 0)
      = (stepAxis len looped x (dirOf s)).map (· - (x : Int)) := by
  obtain ⟨k, rfl⟩ : ∃ k, len = k + 1 := ⟨len - 1, by omega⟩
  have hk : 1 ≤ k := by omega
  have hcast : ((k + 1 : Nat) : Int) = (k : Int) + 1 := by omega
  have hpos : x = 0 ∨ x = k ∨ (0 < x ∧ x < k) := by omega
  have hs' : s = 0 ∨ s = 1 ∨ s = 2 := by omega
  have hc0 : cls (k + 1) 0 = 0 := cls_first (k + 1) hl
  have hc2 : cls (k + 1) k = 2 := by simp [cls]
  rcases hpos with rfl | rfl | ⟨h0, h1⟩
  · -- first position
    rcases hs' with rfl | rfl | rfl
    · simp [codeAxis, hc0, pick, stepAxis, dirOf, hcast] <;> (first | done | omega | (constructor <;> omega))
    · cases looped
      · simp [codeAxis, hc0, pick, stepAxis, dirOf, hcast] <;> (first | done | omega | (constructor <;> omega))
      · have h : ¬ ((k : Int) + 1 - 1 = 0) := by omega
        simp [codeAxis, hc0, pick, stepAxis, dirOf, hcast, h] <;> (first | done | omega | (constructor <;> omega))
    · have h : (1 : Int) < (k : Int) + 1 := by omega
      simp [codeAxis, hc0, pick, stepAxis, dirOf, hcast, h] <;> (first | done | omega | (constructor <;> omega))
  · -- last position
    rcases hs' with rfl | rfl | rfl
    · have a0 : (x : Int) < (x : Int) + 1 := by omega
      simp [codeAxis, hc2, pick, stepAxis, dirOf, hcast, a0] <;> (first | done | omega | (constructor <;> omega))
    · have a1 : (0 : Int) ≤ (x : Int) + -1 := by omega
      have a2 : (x : Int) + -1 < (x : Int) + 1 := by omega
      simp [codeAxis, hc2, pick, stepAxis, dirOf, hcast, a1, a2] <;> (first | done | omega | (constructor <;> omega))
    · cases looped
      · have a3 : ¬ ((x : Int) + 1 < (x : Int) + 1) := by omega
        simp [codeAxis, hc2, pick, stepAxis, dirOf, hcast, a3] <;> (first | done | omega | (constructor <;> omega))
      · have h : ¬ (-((x : Int) + 1 - 1) = 0) := by omega
        have a3 : ¬ ((x : Int) + 1 < (x : Int) + 1) := by omega
        have a4 : ¬ ((x : Int) + 1 < 0) := by omega
        simp [codeAxis, hc2, pick, stepAxis, dirOf, hcast, h, a3, a4] <;> (first | done | omega | (constructor <;> omega))
  · -- interior position
    have hc1 : cls (k + 1) x = 1 := cls_mid (k + 1) x h0 (by simpa using h1)
    rcases hs' with rfl | rfl | rfl
    · have a0 : (x : Int) < (k : Int) + 1 := by omega
      simp [codeAxis, hc1, pick, stepAxis, dirOf, hcast, a0] <;> (first | done | omega | (constructor <;> omega))
    · have a1 : (0 : Int) ≤ (x : Int) + -1 := by omega
      have a2 : (x : Int) + -1 < (k : Int) + 1 := by omega
      simp [codeAxis, hc1, pick, stepAxis, dirOf, hcast, a1, a2] <;> (first | done | omega | (constructor <;> omega))
    · have a1 : (0 : Int) ≤ (x : Int) + 1 := by omega
      have a2 : (x : Int) + 1 < (k : Int) + 1 := by omega
      simp [codeAxis, hc1, pick, stepAxis, dirOf, hcast, a1, a2] <;> (first | done | omega | (constructor <;> omega))

theorem filterMap_congr' {β γ : Type} (l : List β) (f g : β → Option γ) (h : ∀ x, x ∈ l → f x = g x) :
    l.filterMap f = l.filterMap g := by
  induction l with
  | nil => rfl
  | cons a t ih =>
    simp only [List.filterMap_cons]
    rw [h a List.mem_cons_self, ih (fun x hx => h x (List.mem_cons_of_mem _ hx))]

theorem cls_lt (len x : Nat) : cls len x < 3 := by unfold cls; split <;> (try split) <;> omega

theorem symVal_up (dr dc : Int) (k : Nat) : symVal dr dc (upOf k) = if k = 0 then dr else -1 := by
  unfold upOf; split <;> rfl
theorem symVal_down (dr dc : Int) (k : Nat) : symVal dr dc (downOf k) = if k = 2 then -dr else 1 := by
  unfold downOf; split <;> rfl
theorem symVal_left (dr dc : Int) (k : Nat) : symVal dr dc (leftOf k) = if k = 0 then dc else -1 := by
  unfold leftOf; split <;> rfl
theorem symVal_right (dr dc : Int) (k : Nat) : symVal dr dc (rightOf k) = if k = 2 then -dc else 1 := by
  unfold rightOf; split <;> rfl

/-- **generated-table obligation**: every direction symbol in the regenerated offset lists is 0, 1 or 2 -/
theorem offs_valid (conn : Conn) : ∀ p, p ∈ offs conn → p.1 < 3 ∧ p.2 < 3 := by
  cases conn <;> decide

/-- **raster_nbrs_eq_geom**: for every shape ≥ 2 × 2, every loop flags, every node `(r, c)` and
every connectivity, the offsets selected through the node code (tables regenerated from the
source) are exactly the geometric one-step neighbours, in the same order -/
theorem codeOffsets_eq_geom (conn : Conn) (rows cols : Nat) (hr : 2 ≤ rows) (hc : 2 ≤ cols) (lv lh : Bool)
    (r c : Nat) (hrr : r < rows) (hcc : c < cols) :
    codeOffsets conn rows cols lv lh (codeOf rows cols r c) = geomOffsets (offs conn) rows cols lv lh r c := by
  unfold codeOffsets geomOffsets
  rw [codeOf_cls, codedTuples_spec (cls rows r) (cls_lt rows r) (cls cols c) (cls_lt cols c)]
  apply filterMap_congr'
  intro p hp
  obtain ⟨sr, sc⟩ := p
  obtain ⟨h1, h2⟩ := offs_valid conn (sr, sc) hp
  have hR := axis rows hr lv r hrr sr h1
  have hC := axis cols hc lh c hcc sc h2
  simp only [symVal_up, symVal_down, symVal_left, symVal_right]
  unfold codeAxis at hR hC
  simp only at hR hC
  -- split on whether each axis keeps its offset
  by_cases hdr : (sr ≠ 0 ∧ pick (if cls rows r = 0 then (if lv = true then (rows : Int) - 1 else 0) else -1)
      (if cls rows r = 2 then -(if lv = true then (rows : Int) - 1 else 0) else 1) sr = 0)
  · rw [if_pos hdr] at hR
    have : stepAxis rows lv r (dirOf sr) = none := by
      cases hst : stepAxis rows lv r (dirOf sr) with
      | none => rfl
      | some y => rw [hst] at hR; cases hR
    simp [hdr, this]
  · rw [if_neg hdr] at hR
    obtain ⟨y, hy, hyo⟩ : ∃ y, stepAxis rows lv r (dirOf sr) = some y ∧
        pick (if cls rows r = 0 then (if lv = true then (rows : Int) - 1 else 0) else -1)
          (if cls rows r = 2 then -(if lv = true then (rows : Int) - 1 else 0) else 1) sr = y - r := by
      cases hst : stepAxis rows lv r (dirOf sr) with
      | none => rw [hst] at hR; cases hR
      | some y => rw [hst] at hR; exact ⟨y, rfl, by simpa using hR⟩
    by_cases hdc : (sc ≠ 0 ∧ pick (if cls cols c = 0 then (if lh = true then (cols : Int) - 1 else 0) else -1)
        (if cls cols c = 2 then -(if lh = true then (cols : Int) - 1 else 0) else 1) sc = 0)
    · rw [if_pos hdc] at hC
      have : stepAxis cols lh c (dirOf sc) = none := by
        cases hst : stepAxis cols lh c (dirOf sc) with
        | none => rfl
        | some y => rw [hst] at hC; cases hC
      simp [hdc, this, hy]
    · rw [if_neg hdc] at hC
      obtain ⟨x, hx, hxo⟩ : ∃ x, stepAxis cols lh c (dirOf sc) = some x ∧
          pick (if cls cols c = 0 then (if lh = true then (cols : Int) - 1 else 0) else -1)
            (if cls cols c = 2 then -(if lh = true then (cols : Int) - 1 else 0) else 1) sc = x - c := by
        cases hst : stepAxis cols lh c (dirOf sc) with
        | none => rw [hst] at hC; cases hC
        | some x => rw [hst] at hC; exact ⟨x, rfl, by simpa using hC⟩
      have hnot : ¬ ((sr ≠ 0 ∧ pick (if cls rows r = 0 then (if lv = true then (rows : Int) - 1 else 0) else -1)
          (if cls rows r = 2 then -(if lv = true then (rows : Int) - 1 else 0) else 1) sr = 0) ∨
          (sc ≠ 0 ∧ pick (if cls cols c = 0 then (if lh = true then (cols : Int) - 1 else 0) else -1)
          (if cls cols c = 2 then -(if lh = true then (cols : Int) - 1 else 0) else 1) sc = 0)) := by
        rintro (h | h)
        · exact hdr h
        · exact hdc h
      simp only [hy, hx]
      rw [if_neg hnot, hyo, hxo]

/-! ### the count table equals the length of the offset list -/

theorem length_filterMap_congr {β γ δ : Type} (l : List β) (f : β → Option γ) (g : β → Option δ)
    (h : ∀ x, x ∈ l → (f x).isSome = (g x).isSome) : (l.filterMap f).length = (l.filterMap g).length := by
  induction l with
  | nil => rfl
  | cons a t ih =>
    have ha := h a List.mem_cons_self
    have ht := ih (fun x hx => h x (List.mem_cons_of_mem _ hx))
    simp only [List.filterMap_cons]
    cases hf : f a <;> cases hg : g a <;> simp_all

theorem symVal_zero_iff (dr dc dr' dc' : Int) (h1 : dr = 0 ↔ dr' = 0) (h2 : dc = 0 ↔ dc' = 0) (s : Sym) :
    symVal dr dc s = 0 ↔ symVal dr' dc' s = 0 := by
  cases s <;> simp [symVal, h1, h2] <;> omega

theorem pick_zero_iff (a b a' b' : Int) (ha : a = 0 ↔ a' = 0) (hb : b = 0 ↔ b' = 0) (s : Nat) :
    pick a b s = 0 ↔ pick a' b' s = 0 := by
  match s with
  | 0 => simp [pick]
  | 1 => simpa [pick] using ha
  | (n + 2) => simpa [pick] using hb

/-- the number of offsets selected does not depend on the shape (≥ 2 × 2) -/
theorem codeOffsets_length_shape (conn : Conn) (rows cols : Nat) (hr : 2 ≤ rows) (hc : 2 ≤ cols) (lv lh : Bool) (code : Nat) :
    (codeOffsets conn rows cols lv lh code).length = (codeOffsets conn 2 2 lv lh code).length := by
  unfold codeOffsets
  apply length_filterMap_congr
  intro p _
  obtain ⟨sr, sc⟩ := p
  have h1 : ((if lv = true then ((rows : Nat) : Int) - 1 else 0) = 0 ↔ (if lv = true then ((2 : Nat) : Int) - 1 else 0) = 0) := by
    cases lv <;> simp <;> omega
  have h2 : ((if lh = true then ((cols : Nat) : Int) - 1 else 0) = 0 ↔ (if lh = true then ((2 : Nat) : Int) - 1 else 0) = 0) := by
    cases lh <;> simp <;> omega
  simp only
  have e0 := pick_zero_iff _ _ _ _
    (symVal_zero_iff _ _ _ _ h1 h2 (codedTuples.getD code (.mone, .one, .mone, .one)).1)
    (symVal_zero_iff _ _ _ _ h1 h2 (codedTuples.getD code (.mone, .one, .mone, .one)).2.1) sr
  have e1 := pick_zero_iff _ _ _ _
    (symVal_zero_iff _ _ _ _ h1 h2 (codedTuples.getD code (.mone, .one, .mone, .one)).2.2.1)
    (symVal_zero_iff _ _ _ _ h1 h2 (codedTuples.getD code (.mone, .one, .mone, .one)).2.2.2) sc
  by_cases hA : (sr ≠ 0 ∧ pick (symVal (if lv = true then ((rows : Nat) : Int) - 1 else 0) (if lh = true then ((cols : Nat) : Int) - 1 else 0)
        (codedTuples.getD code (.mone, .one, .mone, .one)).1)
      (symVal (if lv = true then ((rows : Nat) : Int) - 1 else 0) (if lh = true then ((cols : Nat) : Int) - 1 else 0)
        (codedTuples.getD code (.mone, .one, .mone, .one)).2.1) sr = 0) ∨
      (sc ≠ 0 ∧ pick (symVal (if lv = true then ((rows : Nat) : Int) - 1 else 0) (if lh = true then ((cols : Nat) : Int) - 1 else 0)
        (codedTuples.getD code (.mone, .one, .mone, .one)).2.2.1)
      (symVal (if lv = true then ((rows : Nat) : Int) - 1 else 0) (if lh = true then ((cols : Nat) : Int) - 1 else 0)
        (codedTuples.getD code (.mone, .one, .mone, .one)).2.2.2) sc = 0)
  · have hB : (sr ≠ 0 ∧ pick (symVal (if lv = true then ((2 : Nat) : Int) - 1 else 0) (if lh = true then ((2 : Nat) : Int) - 1 else 0)
          (codedTuples.getD code (.mone, .one, .mone, .one)).1)
        (symVal (if lv = true then ((2 : Nat) : Int) - 1 else 0) (if lh = true then ((2 : Nat) : Int) - 1 else 0)
          (codedTuples.getD code (.mone, .one, .mone, .one)).2.1) sr = 0) ∨
        (sc ≠ 0 ∧ pick (symVal (if lv = true then ((2 : Nat) : Int) - 1 else 0) (if lh = true then ((2 : Nat) : Int) - 1 else 0)
          (codedTuples.getD code (.mone, .one, .mone, .one)).2.2.1)
        (symVal (if lv = true then ((2 : Nat) : Int) - 1 else 0) (if lh = true then ((2 : Nat) : Int) - 1 else 0)
          (codedTuples.getD code (.mone, .one, .mone, .one)).2.2.2) sc = 0) := by
      rcases hA with ⟨a, b⟩ | ⟨a, b⟩
      · exact Or.inl ⟨a, e0.mp b⟩
      · exact Or.inr ⟨a, e1.mp b⟩
    rw [if_pos hA, if_pos hB]
  · have hB : ¬ ((sr ≠ 0 ∧ pick (symVal (if lv = true then ((2 : Nat) : Int) - 1 else 0) (if lh = true then ((2 : Nat) : Int) - 1 else 0)
          (codedTuples.getD code (.mone, .one, .mone, .one)).1)
        (symVal (if lv = true then ((2 : Nat) : Int) - 1 else 0) (if lh = true then ((2 : Nat) : Int) - 1 else 0)
          (codedTuples.getD code (.mone, .one, .mone, .one)).2.1) sr = 0) ∨
        (sc ≠ 0 ∧ pick (symVal (if lv = true then ((2 : Nat) : Int) - 1 else 0) (if lh = true then ((2 : Nat) : Int) - 1 else 0)
          (codedTuples.getD code (.mone, .one, .mone, .one)).2.2.1)
        (symVal (if lv = true then ((2 : Nat) : Int) - 1 else 0) (if lh = true then ((2 : Nat) : Int) - 1 else 0)
          (codedTuples.getD code (.mone, .one, .mone, .one)).2.2.2) sc = 0)) := by
      intro hB; apply hA
      rcases hB with ⟨a, b⟩ | ⟨a, b⟩
      · exact Or.inl ⟨a, e0.mpr b⟩
      · exact Or.inr ⟨a, e1.mpr b⟩
    rw [if_neg hA, if_neg hB]
    rfl

/-- **generated-table obligation** (`nb_count_eq_length`): for every connectivity, every loop
flags and every node code, the regenerated count table entry is the number of offsets the
regenerated offset / argument tables select (evaluated on the smallest shape; shape independence
is the previous theorem) -/
theorem count_table_spec : ∀ conn : Conn, ∀ lv lh : Bool, ∀ code, code < 9 →
    (countTab conn lv lh).getD code 0 = (codeOffsets conn 2 2 lv lh code).length := by
  intro conn lv lh
  cases conn <;> cases lv <;> cases lh <;> decide

/-- **nb_count_eq_length**: the count accessor equals the length of the neighbour list, all shapes -/
theorem count_eq_length (conn : Conn) (rows cols : Nat) (hr : 2 ≤ rows) (hc : 2 ≤ cols) (lv lh : Bool) (r c : Nat) :
    (countTab conn lv lh).getD (codeOf rows cols r c) 0 = (codeOffsets conn rows cols lv lh (codeOf rows cols r c)).length := by
  have hlt : codeOf rows cols r c < 9 := by
    rw [codeOf_cls]; have := cls_lt rows r; have := cls_lt cols c; omega
  rw [count_table_spec conn lv lh _ hlt, codeOffsets_length_shape conn rows cols hr hc]

/-! ### flat indices: the `size_t` wrap-around arithmetic lands on the geometric neighbour -/

theorem stepAxis_range (n : Nat) (hn : 2 ≤ n) (l : Bool) (x : Nat) (hx : x < n) (d : Int) (hd : d = 0 ∨ d = -1 ∨ d = 1) (y : Int)
    (h : stepAxis n l x d = some y) : 0 ≤ y ∧ y < n := by
  unfold stepAxis at h
  simp only at h
  split at h
  · cases h; assumption
  · split at h
    · cases h
      split <;> omega
    · cases h

theorem dirOf_cases (s : Nat) : dirOf s = 0 ∨ dirOf s = -1 ∨ dirOf s = 1 := by
  match s with
  | 0 => simp [dirOf]
  | 1 => simp [dirOf]
  | (n + 2) => simp [dirOf]

/-- every geometric offset leads to a node of the grid -/
theorem geomOffsets_in_grid (offsL : List (Nat × Nat)) (rows cols : Nat) (hr : 2 ≤ rows) (hc : 2 ≤ cols) (lv lh : Bool)
    (r c : Nat) (hrr : r < rows) (hcc : c < cols) (o : Int × Int) (ho : o ∈ geomOffsets offsL rows cols lv lh r c) :
    0 ≤ (r : Int) + o.1 ∧ (r : Int) + o.1 < rows ∧ 0 ≤ (c : Int) + o.2 ∧ (c : Int) + o.2 < cols := by
  unfold geomOffsets at ho
  obtain ⟨p, _, hp⟩ := List.mem_filterMap.mp ho
  obtain ⟨sr, sc⟩ := p
  simp only at hp
  cases h1 : stepAxis rows lv r (dirOf sr) with
  | none => rw [h1] at hp; cases hp
  | some y =>
    cases h2 : stepAxis cols lh c (dirOf sc) with
    | none => rw [h1, h2] at hp; cases hp
    | some x =>
      rw [h1, h2] at hp
      cases hp
      have a := stepAxis_range rows hr lv r hrr _ (dirOf_cases sr) y h1
      have b := stepAxis_range cols hc lh c hcc _ (dirOf_cases sc) x h2
      simp only
      omega

/-- **raster_nbrs_eq_geom, flat indices**: for every raster with at least two nodes per axis and
fewer than 2⁶³ nodes, every connectivity and loop flags, the neighbour indices of node `idx` as the
code computes them (count table, offset tables, `size_t` wrap-around arithmetic) are exactly the
row-major indices of the geometric one-step neighbours, in the same order -/
theorem rasterNbIdx_eq_geom {α : Type} (g : Raster α) (hr : 2 ≤ g.rows) (hc : 2 ≤ g.cols)
    (hsz : g.rows * g.cols < 2 ^ 63) (idx : Nat) (hidx : idx < g.rows * g.cols) :
    rasterNbIdx g idx =
      (geomOffsets (offs g.conn) g.rows g.cols g.lv g.lh (idx / g.cols) (idx % g.cols)).map
        (fun (o : Int × Int) => ((((idx / g.cols : Nat) : Int) + o.1) * g.cols + (((idx % g.cols : Nat) : Int) + o.2)).toNat) := by
  have hcpos : 0 < g.cols := by omega
  have hrr : idx / g.cols < g.rows := by
    apply (Nat.div_lt_iff_lt_mul hcpos).mpr; exact hidx
  have hcc : idx % g.cols < g.cols := Nat.mod_lt _ hcpos
  have hc' : idx - idx / g.cols * g.cols = idx % g.cols := by
    have := Nat.div_add_mod idx g.cols
    have h2 : idx / g.cols * g.cols = g.cols * (idx / g.cols) := Nat.mul_comm _ _
    omega
  unfold rasterNbIdx
  simp only [hc']
  rw [count_eq_length g.conn g.rows g.cols hr hc g.lv g.lh, codeOffsets_eq_geom g.conn g.rows g.cols hr hc g.lv g.lh _ _ hrr hcc]
  have hlen : ((geomOffsets (offs g.conn) g.rows g.cols g.lv g.lh (idx / g.cols) (idx % g.cols)).map fun x =>
      (nbIndex x.1 x.2 (UInt64.ofNat g.cols) (UInt64.ofNat idx)).toNat).length =
      (geomOffsets (offs g.conn) g.rows g.cols g.lv g.lh (idx / g.cols) (idx % g.cols)).length := by simp
  rw [show ∀ (l : List Nat) (pad : List Nat), l.length = (geomOffsets (offs g.conn) g.rows g.cols g.lv g.lh (idx / g.cols) (idx % g.cols)).length →
      (l ++ pad).take (geomOffsets (offs g.conn) g.rows g.cols g.lv g.lh (idx / g.cols) (idx % g.cols)).length = l from
    fun l pad h => by rw [← h, List.take_left'] ; rfl]
  · apply List.map_congr_left
    intro o ho
    obtain ⟨b1, b2, b3, b4⟩ := geomOffsets_in_grid _ g.rows g.cols hr hc g.lv g.lh _ _ hrr hcc o ho
    have hcols : (UInt64.ofNat g.cols).toNat = g.cols := by
      have : g.cols < 2 ^ 64 := by
        have : g.cols ≤ g.rows * g.cols := Nat.le_mul_of_pos_left _ (by omega)
        omega
      simp [UInt64.toNat_ofNat_of_lt' this]
    have hi : (UInt64.ofNat idx).toNat = idx := by
      have : idx < 2 ^ 64 := by omega
      simp [UInt64.toNat_ofNat_of_lt' this]
    have hdecomp : (idx : Int) = ((idx / g.cols : Nat) : Int) * g.cols + ((idx % g.cols : Nat) : Int) := by
      have := Nat.div_add_mod idx g.cols
      have h2 : idx / g.cols * g.cols = g.cols * (idx / g.cols) := Nat.mul_comm _ _
      have : idx = idx / g.cols * g.cols + idx % g.cols := by omega
      exact_mod_cast this
    have hval : (idx : Int) + o.1 * g.cols + o.2 = (((idx / g.cols : Nat) : Int) + o.1) * g.cols + (((idx % g.cols : Nat) : Int) + o.2) := by
      rw [hdecomp]; simp only [Int.add_mul]; omega
    -- the target lies inside the grid, hence in the unsigned range
    have hnn : 0 ≤ (((idx / g.cols : Nat) : Int) + o.1) * g.cols + (((idx % g.cols : Nat) : Int) + o.2) := by
      have : 0 ≤ (((idx / g.cols : Nat) : Int) + o.1) * g.cols := Int.mul_nonneg b1 (by omega)
      omega
    have hub : (((idx / g.cols : Nat) : Int) + o.1) * g.cols + (((idx % g.cols : Nat) : Int) + o.2) < 2 ^ 64 := by
      have h1 : (((idx / g.cols : Nat) : Int) + o.1) + 1 ≤ g.rows := by omega
      have h2 : ((((idx / g.cols : Nat) : Int) + o.1) + 1) * g.cols ≤ (g.rows : Int) * g.cols :=
        Int.mul_le_mul_of_nonneg_right h1 (by omega)
      have h3 : ((g.rows * g.cols : Nat) : Int) < 2 ^ 63 := by exact_mod_cast hsz
      have h4 : ((g.rows * g.cols : Nat) : Int) = (g.rows : Int) * g.cols := by push_cast; rfl
      simp only [Int.add_mul] at h2
      omega
    have := nbIndex_toNat o.1 o.2 (UInt64.ofNat g.cols) (UInt64.ofNat idx)
      (by rw [hcols, hi, hval]; exact hnn) (by rw [hcols, hi, hval]; exact hub)
    rw [hcols, hi, hval] at this
    rw [← this]
    simp
  · exact hlen

/-! ### profile grid -/

/-- **generated-table obligation**: the profile count arrays found in the source -/
theorem profileCount_spec : profileCount true = [2, 2, 2] ∧ profileCount false = [1, 2, 1] := by decide

/-- **profile_nbrs_eq_geom**: on a profile grid with at least two nodes the neighbours of a node
are the geometric left and right neighbours (wrapping only when looped), in that order -/
theorem profileNbIdx_eq_geom (n : Nat) (hn : 2 ≤ n) (looped : Bool) (idx : Nat) (hidx : idx < n) :
    profileNbIdx n looped idx =
      ([(-1 : Int), 1].filterMap (fun d => stepAxis n looped idx d)).map Int.toNat := by
  obtain ⟨k, rfl⟩ : ∃ k, n = k + 1 := ⟨n - 1, by omega⟩
  have hcast : ((k + 1 : Nat) : Int) = (k : Int) + 1 := by omega
  obtain ⟨h1, h2⟩ := profileCount_spec
  have hpos : idx = 0 ∨ idx = k ∨ (0 < idx ∧ idx < k) := by omega
  rcases hpos with rfl | rfl | ⟨h0, hk⟩
  · have e : ¬ (0 = k) := by omega
    have a1 : (1 : Int) < (k : Int) + 1 := by omega
    have a2 : ((k : Int)).toNat = k := by omega
    cases looped
    · simp [profileNbIdx, e, h2, stepAxis, hcast, a1]
    · simp [profileNbIdx, e, h1, stepAxis, hcast, a1]
      omega
  · have e0 : ¬ (idx = 0) := by omega
    have a1 : (0 : Int) ≤ (idx : Int) + -1 := by omega
    have a2 : (idx : Int) + -1 < (idx : Int) + 1 := by omega
    have a3 : ¬ ((idx : Int) + 1 < (idx : Int) + 1) := by omega
    have a4 : ¬ ((idx : Int) + 1 < 0) := by omega
    have a5 : ((idx : Int) + -1).toNat = idx - 1 := by omega
    cases looped
    · simp [profileNbIdx, e0, h2, stepAxis, hcast, a1, a2, a3, a5]
    · simp [profileNbIdx, e0, h1, stepAxis, hcast, a1, a2, a3, a4, a5]
  · have e0 : ¬ (idx = 0) := by omega
    have e1 : ¬ (idx = k) := by omega
    have a1 : (0 : Int) ≤ (idx : Int) + -1 := by omega
    have a2 : (idx : Int) + -1 < (k : Int) + 1 := by omega
    have a3 : (0 : Int) ≤ (idx : Int) + 1 := by omega
    have a4 : (idx : Int) + 1 < (k : Int) + 1 := by omega
    have a5 : ((idx : Int) + -1).toNat = idx - 1 := by omega
    have a6 : ((idx : Int) + 1).toNat = idx + 1 := by omega
    cases looped
    · simp [profileNbIdx, e0, e1, h2, stepAxis, hcast, a1, a2, a3, a4, a5, a6]
    · simp [profileNbIdx, e0, e1, h1, stepAxis, hcast, a1, a2, a3, a4, a5, a6]

end Fs.C07
