import FsProofs.Properties.ClosedC12Resolve

/-! # Closed corollary: C19 (basin delineation) on the graph returned by the spanning-tree sink
resolver

`ClosedMore.lean` proves `grid_C19_basins` for the graph of the single router.  The usual pipeline
delineates basins on the graph AFTER `Fs.Mst.resolve`.  `Fs.C19.basins_spec` needs three facts about
the graph; two of them are C01 for the returned graph (`Fs.C01Mst.resolve_c01_singleRouter`:
`SingleGraph`, `dfs = dfsBottomUp`).  The new one is `hmask_closed`: **an unmasked node's NEW
receiver is unmasked** (`grid_resolve_mask_closed`).

It is proved by an invariant of the two re-routing folds on the receiver table restricted to the
nodes `< n` (`MaskOk`): receivers stay below `n` and the receiver of an unmasked node is unmasked.
* any step that only writes "good" values (`< n`, unmasked) keeps it, wherever it writes them
  (`maskOk_of_writes`);
* `routeBasic` writes the pass nodes `p0` / `p1` (`routeBasic_maskOk`);
* `carveLoop` writes `recv[next] := cur`; `cur` starts at `p1` and then takes the values of `next`,
  which are old receivers of good nodes, hence good (`carveLoop_maskOk`);
* the pass nodes of the real edges of the oriented basin graph are unmasked nodes
  (`bg_edges_um`, from `Fs.C15Connect.c15_edge_sound`; `orient` only flips edges).

The pay-off of the resolver for the basins (`grid_C19_resolve`, clauses 8 and 9): a pit of the
returned graph is not connected through unmasked neighbours to any unmasked base level; if every
unmasked node is so connected, there is no pit left. -/
namespace Fs.Closed
open Fs Fs.Flow Fs.Grid Fs.Mesh Fs.MeshGrid

/-! ## the invariant of the re-routing folds on the mask -/

section maskinv
open Fs.Mst Fs.C01Mst
variable {α : Type}

/-- receivers of the nodes `< n` stay below `n`, and the receiver of an unmasked node `< n` is
unmasked -/
structure MaskOk (n : Nat) (mask : Nat → Bool) (r : RR α) : Prop where
  lt : ∀ y, y < n → r.recv.get y < n
  mc : ∀ y, y < n → mask y = false → mask (r.recv.get y) = false

/-- every real edge joins two unmasked nodes `< n` -/
def EdgesUm (n : Nat) (mask : Nat → Bool) (edges : Array (BEdge α)) : Prop :=
  ∀ (idx : Nat) (e : BEdge α), edges[idx]? = some e → e.p0 ≠ Mst.none →
    e.p0 < n ∧ e.p1 < n ∧ mask e.p0 = false ∧ mask e.p1 = false

/-- a table whose entries are old entries or unmasked nodes `< n` keeps the two clauses -/
theorem maskOk_of_writes (n : Nat) (mask : Nat → Bool) (T T' : Nat → Nat)
    (hlt : ∀ y, y < n → T y < n) (hmc : ∀ y, y < n → mask y = false → mask (T y) = false)
    (hw : ∀ y, T' y = T y ∨ (T' y < n ∧ mask (T' y) = false)) :
    (∀ y, y < n → T' y < n) ∧ (∀ y, y < n → mask y = false → mask (T' y) = false) := by
  refine ⟨?_, ?_⟩
  · intro y hy
    rcases hw y with h | ⟨h, _⟩
    · rw [h]; exact hlt y hy
    · exact h
  · intro y hy hm
    rcases hw y with h | ⟨_, h⟩
    · rw [h]; exact hmc y hy hm
    · exact h

/-- `routeBasic` keeps `MaskOk`: it writes the pass nodes `p0` (at the pit or at `p1`) and `p1` (at
the pit) -/
theorem routeBasic_maskOk (n : Nat) (mask : Nat → Bool) (S : Scalar α) (f : Nat → α)
    (outlets : Array Nat) (edges : Array (BEdge α)) (hed : EdgesUm n mask edges)
    (r : RR α) (idx : Nat) (h : MaskOk n mask r) :
    MaskOk n mask (routeBasic S f outlets edges r idx) := by
  cases hea : edges[idx]? with
  | none => rw [routeBasic_skip_none S f outlets edges r idx hea]; exact h
  | some e =>
    by_cases hv : e.p0 = Mst.none
    · rw [routeBasic_skip_virtual S f outlets edges r idx e hea hv]; exact h
    · obtain ⟨hp0, hp1, hm0, hm1⟩ := hed idx e hea hv
      obtain ⟨_, c1, c2⟩ := routeBasic_spec S f outlets edges r idx e hea hv
      have hw : ∀ y, (routeBasic S f outlets edges r idx).recv.get y = r.recv.get y ∨
          ((routeBasic S f outlets edges r idx).recv.get y < n ∧
            mask ((routeBasic S f outlets edges r idx).recv.get y) = false) := by
        intro y
        by_cases hlt : S.lt (f e.p1) (f e.p0) = true
        · obtain ⟨a, b, _, _⟩ := c1 hlt
          by_cases hp : y = outlets.getD e.l1 0
          · right; rw [hp, a]; exact ⟨hp0, hm0⟩
          · left; exact b y hp
        · obtain ⟨a, b, c, _, _, _⟩ := c2 (by simpa using hlt)
          by_cases hq : y = e.p1
          · right; rw [hq, a]; exact ⟨hp0, hm0⟩
          · by_cases hp : y = outlets.getD e.l1 0
            · right; rw [hp, b (fun h' => hq (hp.trans h'))]; exact ⟨hp1, hm1⟩
            · left; exact c y hp hq
      obtain ⟨g1, g2⟩ := maskOk_of_writes n mask r.recv.get _ h.lt h.mc hw
      exact ⟨g1, g2⟩

/-- the loop of `routeCarve` keeps the two clauses of `MaskOk`: `cur` and `next` are unmasked nodes
`< n` (`next` is the receiver of `cur` in the table before the path was reversed) -/
theorem carveLoop_maskOk (n : Nat) (mask : Nat → Bool) (pit : Nat) :
    ∀ (fuel : Nat) (s : CarveSt α),
      (∀ y, y < n → s.recv.get y < n) →
      (∀ y, y < n → mask y = false → mask (s.recv.get y) = false) →
      s.cur < n → mask s.cur = false → s.next < n → mask s.next = false →
      (∀ y, y < n → (carveLoop pit fuel s).1.recv.get y < n) ∧
      (∀ y, y < n → mask y = false → mask ((carveLoop pit fuel s).1.recv.get y) = false) := by
  intro fuel
  induction fuel with
  | zero => intro s hE hA _ _ _ _; exact ⟨hE, hA⟩
  | succ fuel ih =>
    intro s hE hA hC hCm hD hDm
    by_cases hc : s.cur = pit
    · have : carveLoop pit (fuel + 1) s = (s, false) := by rw [carveLoop]; simp [hc]
      rw [this]; exact ⟨hE, hA⟩
    · have hstep : carveLoop pit (fuel + 1) s = carveLoop pit fuel
          { recv := s.recv.set s.next s.cur, dist := s.dist.set s.next s.prev, cur := s.next,
            next := s.recv.get s.next, prev := s.dist.get s.next } := by
        rw [carveLoop]; simp [hc]
      rw [hstep]
      apply ih
      · intro y hy
        show (s.recv.set s.next s.cur).get y < n
        by_cases hyn : y = s.next
        · rw [hyn, Tbl.get_set_same]; exact hC
        · rw [Tbl.get_set_other _ _ _ _ hyn]; exact hE y hy
      · intro y hy hm
        show mask ((s.recv.set s.next s.cur).get y) = false
        by_cases hyn : y = s.next
        · rw [hyn, Tbl.get_set_same]; exact hCm
        · rw [Tbl.get_set_other _ _ _ _ hyn]; exact hA y hy hm
      · exact hD
      · exact hDm
      · exact hE _ hD
      · exact hA _ hD hDm

/-- `routeCarve` keeps `MaskOk` -/
theorem routeCarve_maskOk (n : Nat) (mask : Nat → Bool) (m : Nat) (outlets : Array Nat)
    (edges : Array (BEdge α)) (hed : EdgesUm n mask edges)
    (r : RR α) (idx : Nat) (h : MaskOk n mask r) :
    MaskOk n mask (routeCarve m outlets edges r idx) := by
  cases hea : edges[idx]? with
  | none => rw [routeCarve_skip_none m outlets edges r idx hea]; exact h
  | some e =>
    by_cases hv : e.p0 = Mst.none
    · rw [routeCarve_skip_virtual m outlets edges r idx e hea hv]; exact h
    · obtain ⟨hp0, hp1, hm0, hm1⟩ := hed idx e hea hv
      have hrc : routeCarve m outlets edges r idx =
          { recv := (carveLoop (outlets.getD e.l1 0) (m + 1)
              { recv := r.recv.set e.p1 e.p0, dist := r.dist.set e.p1 e.pl, cur := e.p1,
                next := r.recv.get e.p1, prev := r.dist.get e.p1 }).1.recv,
            dist := (carveLoop (outlets.getD e.l1 0) (m + 1)
              { recv := r.recv.set e.p1 e.p0, dist := r.dist.set e.p1 e.pl, cur := e.p1,
                next := r.recv.get e.p1, prev := r.dist.get e.p1 }).1.dist,
            hang := r.hang || (carveLoop (outlets.getD e.l1 0) (m + 1)
              { recv := r.recv.set e.p1 e.p0, dist := r.dist.set e.p1 e.pl, cur := e.p1,
                next := r.recv.get e.p1, prev := r.dist.get e.p1 }).2 } := by
        simp [routeCarve, hea, hv]
      rw [hrc]
      obtain ⟨g1, g2⟩ := carveLoop_maskOk n mask (outlets.getD e.l1 0) (m + 1)
        { recv := r.recv.set e.p1 e.p0, dist := r.dist.set e.p1 e.pl, cur := e.p1,
          next := r.recv.get e.p1, prev := r.dist.get e.p1 }
        (by
          intro y hy
          show (r.recv.set e.p1 e.p0).get y < n
          by_cases hq : y = e.p1
          · rw [hq, Tbl.get_set_same]; exact hp0
          · rw [Tbl.get_set_other _ _ _ _ hq]; exact h.lt y hy)
        (by
          intro y hy hm
          show mask ((r.recv.set e.p1 e.p0).get y) = false
          by_cases hq : y = e.p1
          · rw [hq, Tbl.get_set_same]; exact hm0
          · rw [Tbl.get_set_other _ _ _ _ hq]; exact h.mc y hy hm)
        hp1 hm1 (h.lt _ hp1) (h.mc _ hp1 hm1)
      exact ⟨g1, g2⟩

/-- a step that keeps `MaskOk` keeps it over a fold -/
theorem foldl_maskOk (n : Nat) (mask : Nat → Bool) (step : RR α → Nat → RR α)
    (hstep : ∀ r idx, MaskOk n mask r → MaskOk n mask (step r idx)) :
    ∀ (l : List Nat) (r : RR α), MaskOk n mask r → MaskOk n mask (l.foldl step r) := by
  intro l
  induction l with
  | nil => intro r h; exact h
  | cons a l ih => intro r h; exact ih _ (hstep r a h)

end maskinv

/-! ## the real edges of the oriented basin graph join unmasked nodes -/

section edges
open Fs.Mst Fs.Dfs Fs.C06 Fs.Kruskal Fs.C15 Fs.C15Connect Fs.C01Mst
variable {α : Type}
variable (S : Scalar α) (e : Env α) (g : Graph α) (f : Nat → α) (perm : List Nat) (maxLow : Nat)
  {recv1 : Nat → Nat} {skip : Nat → Bool}

/-- every real edge of the oriented basin graph (Kruskal's tree) joins two unmasked nodes of the
grid (`c15_edge_sound`; `orient` keeps an edge or flips it, and a flipped virtual edge is
virtual) -/
theorem bg_edges_um (hlaws : LtLaws S) (hg : SingleGraph e.topo.n g recv1 skip)
    (hdfs : g.dfs = dfsBottomUp e.topo.n g)
    (hmc : ∀ x, x < e.topo.n → e.mask x = false → e.mask (recv1 x) = false)
    (hwork : work e.topo g.dfs < Mst.none)
    (hnb : ∀ i, i < e.topo.n → ∀ p, p ∈ e.topo.nbrs i → p.1 < e.topo.n) :
    EdgesUm e.topo.n e.mask (bgOf S e g f false perm maxLow).edges := by
  have H := sweepHyp_resolve S e hlaws hg hdfs hmc hwork
  have hF : Forest ((tree0Of S e g f false perm maxLow).filterMap (toE (cbOf S e g f).edges)) := by
    have : tree0Of S e g f false perm maxLow =
        kruskal (basins e.topo.n g e.mask e.isBase).outlets.length (cbOf S e g f).edges perm := by
      simp [tree0Of]
    rw [this]
    apply Fs.C15.kruskal_forest
    intro i _ ed hed
    exact cb_edges_lt S e g f hlaws hg hdfs hmc hwork hnb i ed hed
  obtain ⟨hE, _, _⟩ := bgOf_eq S e g f false perm maxLow
  obtain ⟨_, _, o_flip, _⟩ :=
    orient_spec (basins e.topo.n g e.mask e.isBase).outlets.length (cbOf S e g f).edges
      (tree0Of S e g f false perm maxLow) (cbOf S e g f).root hF
  rw [← hE] at o_flip
  have hmemn : ∀ x, x ∈ g.dfs → x < e.topo.n := fun x hx => by
    rw [hdfs] at hx; exact (Fs.C19.mem_order hg x).mp hx
  have sound := c15_edge_sound (isBase := e.isBase) (f := f) H
  obtain ⟨_, v_list⟩ := c15_virtual (isBase := e.isBase) (f := f) H
  change (cbOf S e g f).edges.toList.filter _ = _ at v_list
  have hreal0 : ∀ (k : Nat) (e0 : BEdge α), (cbOf S e g f).edges[k]? = some e0 → e0.p0 ≠ Mst.none →
      e0.p0 < e.topo.n ∧ e0.p1 < e.topo.n ∧ e.mask e0.p0 = false ∧ e.mask e0.p1 = false := by
    intro k e0 hk hr
    obtain ⟨s1, s2, s3, ⟨dd, s4, _⟩, _⟩ := sound e0 (Array.mem_iff_getElem?.mpr ⟨k, hk⟩) hr
    have hp0 := hmemn _ s1
    exact ⟨hp0, hnb _ hp0 _ s4, s2, s3⟩
  have hvirt0 : ∀ (k : Nat) (e0 : BEdge α), (cbOf S e g f).edges[k]? = some e0 → e0.p0 = Mst.none →
      e0.p1 = Mst.none := by
    intro k e0 hk hv
    have hm : e0 ∈ (cbOf S e g f).edges.toList.filter (fun ed => ed.p0 == Mst.none) :=
      List.mem_filter.mpr ⟨Array.mem_toList_iff.mpr (Array.mem_iff_getElem?.mpr ⟨k, hk⟩), by simp [hv]⟩
    rw [v_list] at hm
    obtain ⟨o, _, rfl⟩ := List.mem_map.mp hm
    rfl
  intro idx ed hed hr
  rcases o_flip idx with h1 | ⟨_, e0, he0, h1⟩
  · rw [hed] at h1; exact hreal0 idx ed h1.symm hr
  · rw [hed] at h1; cases h1
    have hr0 : e0.p0 ≠ Mst.none := fun hv => hr (hvirt0 idx e0 he0 hv)
    obtain ⟨a, b, c, d⟩ := hreal0 idx e0 he0 hr0
    exact ⟨b, a, d, c⟩

/-- the tables handed to the graph rebuild satisfy `MaskOk` if the input tables do -/
theorem rrOf_maskOk (carve : Bool)
    (hed : EdgesUm e.topo.n e.mask (bgOf S e g f false perm maxLow).edges)
    (h0 : MaskOk e.topo.n e.mask (rr0 S g)) :
    MaskOk e.topo.n e.mask (rrOf S e g f false carve perm maxLow) := by
  cases carve with
  | true =>
    have : rrOf S e g f false true perm maxLow = (bgOf S e g f false perm maxLow).tree.foldl
        (routeCarve e.topo.n (outlOf e g) (bgOf S e g f false perm maxLow).edges) (rr0 S g) := by
      simp [rrOf]
    rw [this]
    exact foldl_maskOk _ _ _ (fun r idx h => routeCarve_maskOk _ _ _ _ _ hed r idx h) _ _ h0
  | false =>
    have : rrOf S e g f false false perm maxLow = (bgOf S e g f false perm maxLow).tree.foldl
        (routeBasic S f (outlOf e g) (bgOf S e g f false perm maxLow).edges) (rr0 S g) := by
      simp [rrOf]
    rw [this]
    exact foldl_maskOk _ _ _ (fun r idx h => routeBasic_maskOk _ _ S f _ _ hed r idx h) _ _ h0

/-- `SingleGraph` only reads the receiver function on the nodes `< n` -/
theorem singleGraph_congr {n : Nat} {G : Graph α} {r1 r2 : Nat → Nat} {sk : Nat → Bool}
    (h : SingleGraph n G r1 sk) (heq : ∀ i, i < n → r2 i = r1 i) : SingleGraph n G r2 sk where
  recv_eq := fun i hi => by rw [heq i hi]; exact h.recv_eq i hi
  don_eq := fun i hi => by
    rw [h.don_eq i hi, Fs.Donors.donors_eq, Fs.Donors.donors_eq]
    apply List.filter_congr
    intro d hd
    rw [heq d (List.mem_range.mp hd)]
  skip_self := fun d hd hs => by rw [heq d hd]; exact h.skip_self d hd hs
  recv_lt := fun i hi => by rw [heq i hi]; exact h.recv_lt i hi
  forest := fun i hi => by
    obtain ⟨k, hk⟩ := h.forest i hi
    obtain ⟨a, b⟩ := iter_eq_of_lt h.recv_lt heq k i hi
    exact ⟨k, by rw [a, heq _ b]; exact hk⟩

end edges

/-! ## C19 on the graph returned by the sink resolver -/

section c19r
open Fs.Mst Fs.Dfs Fs.C06 Fs.C15Connect Fs.C01Mst
variable {α : Type} [Field α] [LinearOrder α] [IsStrictOrderedRing α]
variable (pow : α → α → α) (sq nu : α → α) (lo mx mn : α)

local notation "SF" => fieldScalar α pow sq nu lo mx mn

/-- **the mask is closed under the receivers of the graph returned by the sink resolver** (single
router, then `resolve` with Kruskal's tree, `carve` or `basic`, on any grid): the hypothesis
`hmask_closed` of `Fs.C19.basins_spec` for the re-routed graph.  Only "the work arrays fit" is
needed besides the grid facts: the statement does not depend on the permutation handed to Kruskal
(`hnu`, `hvp`, `hfin` are kept so that the hypotheses are those of `grid_C06_resolve`). -/
theorem grid_resolve_mask_closed
    (e : Env α) (E : EnvOk lo e)
    (par : Bool) (f : Nat → α) (perm : List Nat) (maxLow : Nat) (carve : Bool)
    (_hnu : ∀ x, x < nu x)
    (hwork : work e.topo (singleRouter (SF) e par f).dfs < Mst.none)
    (_hvp : validPerm (SF) (cbOf (SF) e (singleRouter (SF) e par f) f).edges perm = true)
    (_hfin : ∀ i, i < e.topo.n → lo < f i) :
    let n := e.topo.n
    let o := resolve (SF) e (singleRouter (SF) e par f) f false carve perm maxLow
    ∀ x, x < n → e.mask x = false → e.mask (recv0 o.g x) = false := by
  intro n o x hx hm
  have hmc0 := grid_mask_closed pow sq nu lo mx mn e E par f
  cases hp : (basins e.topo.n (singleRouter (SF) e par f) e.mask e.isBase).pits.isEmpty with
  | true =>
    have hG : o.g = singleRouter (SF) e par f := by
      show (resolve (SF) e (singleRouter (SF) e par f) f false carve perm maxLow).g = _
      rw [resolve_empty (SF) e _ f false carve perm maxLow hp]
    rw [hG]; exact hmc0 x hx hm
  | false =>
    have L := Fs.C05.sf_router_laws pow sq nu lo mx mn
    have hlow := grid_hlow pow sq nu lo mx mn e E f
    have hnb := E.ok.nb_lt
    have hg := singleRouter_graph (SF) e par f L hnb hlow
    have hr0 := recv0_single (SF) e par f
    have hdfs : (singleRouter (SF) e par f).dfs = dfsBottomUp e.topo.n (singleRouter (SF) e par f) :=
      dfs_single (SF) e par f
    have hlaws : LtLaws (SF) := ⟨L.irrefl, L.trans⟩
    have hmc : ∀ x, x < e.topo.n → e.mask x = false → e.mask (rowRecv (SF) e f x) = false := by
      intro x hx hm
      rw [← hr0]; exact hmc0 x hx hm
    have hed := bg_edges_um (SF) e (singleRouter (SF) e par f) f perm maxLow hlaws hg hdfs hmc hwork hnb
    have h0 : MaskOk e.topo.n e.mask (rr0 (SF) (singleRouter (SF) e par f)) := by
      refine ⟨?_, ?_⟩
      · intro y hy
        show recv0 (singleRouter (SF) e par f) y < e.topo.n
        rw [recv0_eq hg y hy]; exact hg.recv_lt y hy
      · intro y hy hmy
        show e.mask (recv0 (singleRouter (SF) e par f) y) = false
        exact hmc0 y hy hmy
    have hfinal := rrOf_maskOk (SF) e (singleRouter (SF) e par f) f perm maxLow carve hed h0
    obtain ⟨r1, _⟩ := resolve_rows (SF) e (singleRouter (SF) e par f) f perm maxLow false carve hp x hx
    change o.g.recv x = _ at r1
    have : recv0 o.g x = (rrOf (SF) e (singleRouter (SF) e par f) f false carve perm maxLow).recv.get x := by
      simp [recv0, r1]
    rw [this]
    exact hfinal.mc x hx hm

/-- **C19 on any grid, on the graph returned by the sink resolver** (single router, then
`mst_sink_resolver` with Kruskal's tree, `carve` or `basic`, then `basins`): the statement of
`grid_C19_basins` for the re-routed graph (clauses 1 – 7), and the pay-off of the resolver:
(8) a pit of the re-routed graph is not connected through unmasked neighbours to any unmasked
base-level node; (9) if every unmasked node is connected to an unmasked base level, no pit is left.
Hypotheses: the run-time facts of `grid_C06_resolve` (`hnu`, `hwork`, `hvp`, `hfin`). -/
theorem grid_C19_resolve
    (e : Env α) (E : EnvOk lo e)
    (par : Bool) (f : Nat → α) (perm : List Nat) (maxLow : Nat) (carve : Bool)
    (hnu : ∀ x, x < nu x)
    (hwork : work e.topo (singleRouter (SF) e par f).dfs < Mst.none)
    (hvp : validPerm (SF) (cbOf (SF) e (singleRouter (SF) e par f) f).edges perm = true)
    (hfin : ∀ i, i < e.topo.n → lo < f i) :
    let n := e.topo.n
    let G := (resolve (SF) e (singleRouter (SF) e par f) f false carve perm maxLow).g
    let recv := recv0 G
    let b := basins n G e.mask e.isBase
    let lab := look b.labels 0
    -- 1. masked nodes carry the reserved label
    (∀ x, x < n → e.mask x = true → lab x = maxLabel) ∧
    -- 2. an unmasked node has the label of its receiver
    (∀ x, x < n → e.mask x = false → lab x = lab (recv x)) ∧
    -- 3. the outlets are the unmasked self-receivers, in bottom-up order, without repetition
    b.outlets = G.dfs.filter (fun i => !e.mask i && recv i == i) ∧
    (∀ o, o ∈ b.outlets ↔ o < n ∧ e.mask o = false ∧ recv o = o) ∧
    b.outlets.Nodup ∧
    -- 4. outlets are numbered consecutively from zero in that order
    (∀ k (hk : k < b.outlets.length), lab (b.outlets[k]) = k) ∧
    -- 5. every unmasked label is the index of an outlet
    (∀ x, x < n → e.mask x = false → lab x < b.outlets.length) ∧
    -- 6. the label of an unmasked node is the index of the outlet it drains to ...
    (∀ x, x < n → e.mask x = false → ∃ k, b.outlets[lab x]? = some (iter recv k x) ∧
        recv (iter recv k x) = iter recv k x) ∧
    -- ... hence two unmasked nodes have the same label iff they drain to the same outlet
    (∀ x y, x < n → y < n → e.mask x = false → e.mask y = false →
      (lab x = lab y ↔ ∃ k k', iter recv k x = iter recv k' y ∧
        recv (iter recv k x) = iter recv k x)) ∧
    -- 7. pits are the outlets that are not base levels
    b.pits = b.outlets.filter (fun o => !e.isBase o) ∧
    -- 8. a remaining pit is cut off from every unmasked base level
    (∀ p, p ∈ b.pits → ∀ bl, bl < n → e.mask bl = false → e.isBase bl = true →
      ¬ NConn e.topo e.mask p bl) ∧
    -- 9. if every unmasked node is connected to an unmasked base level, no pit is left
    ((∀ y, y < n → e.mask y = false →
        ∃ bl, bl < n ∧ e.mask bl = false ∧ e.isBase bl = true ∧ NConn e.topo e.mask y bl) →
      b.pits = []) := by
  intro n G recv b lab
  obtain ⟨_, ⟨recv1', skip', hg', hrecv'⟩, hdfs', _, _, _, _, _, hconn⟩ :=
    grid_C01_mst pow sq nu lo mx mn e E par f perm maxLow carve hnu hwork hvp hfin
  have hg : SingleGraph n G recv skip' := singleGraph_congr hg' hrecv'
  have hmc := grid_resolve_mask_closed pow sq nu lo mx mn e E par f perm maxLow carve hnu hwork hvp hfin
  have hspec := Fs.C19.basins_spec hg hdfs' e.mask e.isBase hmc
  rw [← hdfs'] at hspec
  obtain ⟨c1, c2, c3, c4, c5, c6, c7, c8, c9, c10⟩ := hspec
  have h8 : ∀ p, p ∈ b.pits → ∀ bl, bl < n → e.mask bl = false → e.isBase bl = true →
      ¬ NConn e.topo e.mask p bl := by
    intro p hp bl hbl hmb hbb hc
    rw [c10, List.mem_filter] at hp
    obtain ⟨hpo, hpb⟩ := hp
    obtain ⟨hpn, hpm, hps⟩ := (c4 p).mp hpo
    obtain ⟨t, ht, _⟩ := hconn p bl hpn hpm hbl hmb hbb hc
    rw [Fs.C19.iter_fix hps] at ht
    rw [ht] at hpb
    cases hpb
  refine ⟨c1, c2, c3, c4, c5, c6, c7, c8, c9, c10, h8, ?_⟩
  intro hall
  apply List.eq_nil_iff_forall_not_mem.mpr
  intro p hp
  have hp' := hp
  rw [c10, List.mem_filter] at hp'
  obtain ⟨hpn, hpm, _⟩ := (c4 p).mp hp'.1
  obtain ⟨bl, hbl, hmb, hbb, hc⟩ := hall p hpn hpm
  exact h8 p hp bl hbl hmb hbb hc

/-! ### instances: raster, triangular mesh, profile -/

/-- `grid_resolve_mask_closed` on a raster -/
theorem raster_resolve_mask_closed
    {g : Raster α} (H : ShapeOk g) (F : FieldOk sq lo g)
    (e : Env α) (he : e.topo = rasterTopo (fieldScalar α pow sq nu lo mx mn) g)
    (par : Bool) (f : Nat → α) (perm : List Nat) (maxLow : Nat) (carve : Bool)
    (hnu : ∀ x, x < nu x)
    (hwork : work e.topo (singleRouter (SF) e par f).dfs < Mst.none)
    (hvp : validPerm (SF) (cbOf (SF) e (singleRouter (SF) e par f) f).edges perm = true)
    (hfin : ∀ i, i < e.topo.n → lo < f i) :
    let n := e.topo.n
    let o := resolve (SF) e (singleRouter (SF) e par f) f false carve perm maxLow
    ∀ x, x < n → e.mask x = false → e.mask (recv0 o.g x) = false :=
  grid_resolve_mask_closed pow sq nu lo mx mn e (raster_envOk pow nu mx mn H F e he)
    par f perm maxLow carve hnu hwork hvp hfin

/-- `grid_resolve_mask_closed` on a triangular mesh -/
theorem mesh_resolve_mask_closed
    {n : Nat} {pts : Nat → α × α} {tris : List (Nat × Nat × Nat)}
    (M : MeshOk n tris) (F : MeshFieldOk sq lo pts tris)
    (e : Env α) (he : e.topo = meshTopo sq n pts tris)
    (par : Bool) (f : Nat → α) (perm : List Nat) (maxLow : Nat) (carve : Bool)
    (hnu : ∀ x, x < nu x)
    (hwork : work e.topo (singleRouter (SF) e par f).dfs < Mst.none)
    (hvp : validPerm (SF) (cbOf (SF) e (singleRouter (SF) e par f) f).edges perm = true)
    (hfin : ∀ i, i < e.topo.n → lo < f i) :
    let n := e.topo.n
    let o := resolve (SF) e (singleRouter (SF) e par f) f false carve perm maxLow
    ∀ x, x < n → e.mask x = false → e.mask (recv0 o.g x) = false :=
  grid_resolve_mask_closed pow sq nu lo mx mn e (mesh_envOk M F e he)
    par f perm maxLow carve hnu hwork hvp hfin

/-- `grid_resolve_mask_closed` on a profile grid -/
theorem profile_resolve_mask_closed
    (n : Nat) (hn : 2 ≤ n) (dx : α) (looped : Bool) (hdx : 0 < dx) (hlo : lo ≤ 0)
    (e : Env α) (he : e.topo = profileTopo n dx looped)
    (par : Bool) (f : Nat → α) (perm : List Nat) (maxLow : Nat) (carve : Bool)
    (hnu : ∀ x, x < nu x)
    (hwork : work e.topo (singleRouter (SF) e par f).dfs < Mst.none)
    (hvp : validPerm (SF) (cbOf (SF) e (singleRouter (SF) e par f) f).edges perm = true)
    (hfin : ∀ i, i < e.topo.n → lo < f i) :
    let n := e.topo.n
    let o := resolve (SF) e (singleRouter (SF) e par f) f false carve perm maxLow
    ∀ x, x < n → e.mask x = false → e.mask (recv0 o.g x) = false :=
  grid_resolve_mask_closed pow sq nu lo mx mn e (profile_envOk n hn dx looped hdx hlo e he)
    par f perm maxLow carve hnu hwork hvp hfin

/-- `grid_C19_resolve` on a raster: same statement, no topology hypothesis left -/
theorem raster_C19_resolve
    {g : Raster α} (H : ShapeOk g) (F : FieldOk sq lo g)
    (e : Env α) (he : e.topo = rasterTopo (fieldScalar α pow sq nu lo mx mn) g)
    (par : Bool) (f : Nat → α) (perm : List Nat) (maxLow : Nat) (carve : Bool)
    (hnu : ∀ x, x < nu x)
    (hwork : work e.topo (singleRouter (SF) e par f).dfs < Mst.none)
    (hvp : validPerm (SF) (cbOf (SF) e (singleRouter (SF) e par f) f).edges perm = true)
    (hfin : ∀ i, i < e.topo.n → lo < f i) :
    let n := e.topo.n
    let G := (resolve (SF) e (singleRouter (SF) e par f) f false carve perm maxLow).g
    let recv := recv0 G
    let b := basins n G e.mask e.isBase
    let lab := look b.labels 0
    -- 1. masked nodes carry the reserved label
    (∀ x, x < n → e.mask x = true → lab x = maxLabel) ∧
    -- 2. an unmasked node has the label of its receiver
    (∀ x, x < n → e.mask x = false → lab x = lab (recv x)) ∧
    -- 3. the outlets are the unmasked self-receivers, in bottom-up order, without repetition
    b.outlets = G.dfs.filter (fun i => !e.mask i && recv i == i) ∧
    (∀ o, o ∈ b.outlets ↔ o < n ∧ e.mask o = false ∧ recv o = o) ∧
    b.outlets.Nodup ∧
    -- 4. outlets are numbered consecutively from zero in that order
    (∀ k (hk : k < b.outlets.length), lab (b.outlets[k]) = k) ∧
    -- 5. every unmasked label is the index of an outlet
    (∀ x, x < n → e.mask x = false → lab x < b.outlets.length) ∧
    -- 6. the label of an unmasked node is the index of the outlet it drains to ...
    (∀ x, x < n → e.mask x = false → ∃ k, b.outlets[lab x]? = some (iter recv k x) ∧
        recv (iter recv k x) = iter recv k x) ∧
    -- ... hence two unmasked nodes have the same label iff they drain to the same outlet
    (∀ x y, x < n → y < n → e.mask x = false → e.mask y = false →
      (lab x = lab y ↔ ∃ k k', iter recv k x = iter recv k' y ∧
        recv (iter recv k x) = iter recv k x)) ∧
    -- 7. pits are the outlets that are not base levels
    b.pits = b.outlets.filter (fun o => !e.isBase o) ∧
    -- 8. a remaining pit is cut off from every unmasked base level
    (∀ p, p ∈ b.pits → ∀ bl, bl < n → e.mask bl = false → e.isBase bl = true →
      ¬ NConn e.topo e.mask p bl) ∧
    -- 9. if every unmasked node is connected to an unmasked base level, no pit is left
    ((∀ y, y < n → e.mask y = false →
        ∃ bl, bl < n ∧ e.mask bl = false ∧ e.isBase bl = true ∧ NConn e.topo e.mask y bl) →
      b.pits = []) :=
  grid_C19_resolve pow sq nu lo mx mn e (raster_envOk pow nu mx mn H F e he)
    par f perm maxLow carve hnu hwork hvp hfin

/-- `grid_C19_resolve` on a triangular mesh: same statement, no topology hypothesis left -/
theorem mesh_C19_resolve
    {n : Nat} {pts : Nat → α × α} {tris : List (Nat × Nat × Nat)}
    (M : MeshOk n tris) (F : MeshFieldOk sq lo pts tris)
    (e : Env α) (he : e.topo = meshTopo sq n pts tris)
    (par : Bool) (f : Nat → α) (perm : List Nat) (maxLow : Nat) (carve : Bool)
    (hnu : ∀ x, x < nu x)
    (hwork : work e.topo (singleRouter (SF) e par f).dfs < Mst.none)
    (hvp : validPerm (SF) (cbOf (SF) e (singleRouter (SF) e par f) f).edges perm = true)
    (hfin : ∀ i, i < e.topo.n → lo < f i) :
    let n := e.topo.n
    let G := (resolve (SF) e (singleRouter (SF) e par f) f false carve perm maxLow).g
    let recv := recv0 G
    let b := basins n G e.mask e.isBase
    let lab := look b.labels 0
    -- 1. masked nodes carry the reserved label
    (∀ x, x < n → e.mask x = true → lab x = maxLabel) ∧
    -- 2. an unmasked node has the label of its receiver
    (∀ x, x < n → e.mask x = false → lab x = lab (recv x)) ∧
    -- 3. the outlets are the unmasked self-receivers, in bottom-up order, without repetition
    b.outlets = G.dfs.filter (fun i => !e.mask i && recv i == i) ∧
    (∀ o, o ∈ b.outlets ↔ o < n ∧ e.mask o = false ∧ recv o = o) ∧
    b.outlets.Nodup ∧
    -- 4. outlets are numbered consecutively from zero in that order
    (∀ k (hk : k < b.outlets.length), lab (b.outlets[k]) = k) ∧
    -- 5. every unmasked label is the index of an outlet
    (∀ x, x < n → e.mask x = false → lab x < b.outlets.length) ∧
    -- 6. the label of an unmasked node is the index of the outlet it drains to ...
    (∀ x, x < n → e.mask x = false → ∃ k, b.outlets[lab x]? = some (iter recv k x) ∧
        recv (iter recv k x) = iter recv k x) ∧
    -- ... hence two unmasked nodes have the same label iff they drain to the same outlet
    (∀ x y, x < n → y < n → e.mask x = false → e.mask y = false →
      (lab x = lab y ↔ ∃ k k', iter recv k x = iter recv k' y ∧
        recv (iter recv k x) = iter recv k x)) ∧
    -- 7. pits are the outlets that are not base levels
    b.pits = b.outlets.filter (fun o => !e.isBase o) ∧
    -- 8. a remaining pit is cut off from every unmasked base level
    (∀ p, p ∈ b.pits → ∀ bl, bl < n → e.mask bl = false → e.isBase bl = true →
      ¬ NConn e.topo e.mask p bl) ∧
    -- 9. if every unmasked node is connected to an unmasked base level, no pit is left
    ((∀ y, y < n → e.mask y = false →
        ∃ bl, bl < n ∧ e.mask bl = false ∧ e.isBase bl = true ∧ NConn e.topo e.mask y bl) →
      b.pits = []) :=
  grid_C19_resolve pow sq nu lo mx mn e (mesh_envOk M F e he)
    par f perm maxLow carve hnu hwork hvp hfin

/-- `grid_C19_resolve` on a profile grid: same statement, no topology hypothesis left -/
theorem profile_C19_resolve
    (n : Nat) (hn : 2 ≤ n) (dx : α) (looped : Bool) (hdx : 0 < dx) (hlo : lo ≤ 0)
    (e : Env α) (he : e.topo = profileTopo n dx looped)
    (par : Bool) (f : Nat → α) (perm : List Nat) (maxLow : Nat) (carve : Bool)
    (hnu : ∀ x, x < nu x)
    (hwork : work e.topo (singleRouter (SF) e par f).dfs < Mst.none)
    (hvp : validPerm (SF) (cbOf (SF) e (singleRouter (SF) e par f) f).edges perm = true)
    (hfin : ∀ i, i < e.topo.n → lo < f i) :
    let n := e.topo.n
    let G := (resolve (SF) e (singleRouter (SF) e par f) f false carve perm maxLow).g
    let recv := recv0 G
    let b := basins n G e.mask e.isBase
    let lab := look b.labels 0
    -- 1. masked nodes carry the reserved label
    (∀ x, x < n → e.mask x = true → lab x = maxLabel) ∧
    -- 2. an unmasked node has the label of its receiver
    (∀ x, x < n → e.mask x = false → lab x = lab (recv x)) ∧
    -- 3. the outlets are the unmasked self-receivers, in bottom-up order, without repetition
    b.outlets = G.dfs.filter (fun i => !e.mask i && recv i == i) ∧
    (∀ o, o ∈ b.outlets ↔ o < n ∧ e.mask o = false ∧ recv o = o) ∧
    b.outlets.Nodup ∧
    -- 4. outlets are numbered consecutively from zero in that order
    (∀ k (hk : k < b.outlets.length), lab (b.outlets[k]) = k) ∧
    -- 5. every unmasked label is the index of an outlet
    (∀ x, x < n → e.mask x = false → lab x < b.outlets.length) ∧
    -- 6. the label of an unmasked node is the index of the outlet it drains to ...
    (∀ x, x < n → e.mask x = false → ∃ k, b.outlets[lab x]? = some (iter recv k x) ∧
        recv (iter recv k x) = iter recv k x) ∧
    -- ... hence two unmasked nodes have the same label iff they drain to the same outlet
    (∀ x y, x < n → y < n → e.mask x = false → e.mask y = false →
      (lab x = lab y ↔ ∃ k k', iter recv k x = iter recv k' y ∧
        recv (iter recv k x) = iter recv k x)) ∧
    -- 7. pits are the outlets that are not base levels
    b.pits = b.outlets.filter (fun o => !e.isBase o) ∧
    -- 8. a remaining pit is cut off from every unmasked base level
    (∀ p, p ∈ b.pits → ∀ bl, bl < n → e.mask bl = false → e.isBase bl = true →
      ¬ NConn e.topo e.mask p bl) ∧
    -- 9. if every unmasked node is connected to an unmasked base level, no pit is left
    ((∀ y, y < n → e.mask y = false →
        ∃ bl, bl < n ∧ e.mask bl = false ∧ e.isBase bl = true ∧ NConn e.topo e.mask y bl) →
      b.pits = []) :=
  grid_C19_resolve pow sq nu lo mx mn e (profile_envOk n hn dx looped hdx hlo e he)
    par f perm maxLow carve hnu hwork hvp hfin

end c19r

/-! ## the executed model, and the hypotheses are satisfiable -/

section example_c19r
open Fs.Mst Fs.C01Mst Fs.C15Connect

/-- all hypotheses of `raster_C19_resolve` / `raster_resolve_mask_closed` hold on the 3 × 3 raster
with the pit `8` (carve and basic) -/
example (carve : Bool) :=
  raster_C19_resolve (fun x _ => x) (fun x => x) (fun x => x + 1) (-1000) 1000 (1/1000)
    exShape exField exEnv rfl false exZ [0] 0 carve exNu exWork exValid exFin

example (carve : Bool) :=
  raster_resolve_mask_closed (fun x _ => x) (fun x => x) (fun x => x + 1) (-1000) 1000 (1/1000)
    exShape exField exEnv rfl false exZ [0] 0 carve exNu exWork exValid exFin

/-- the same on the triangle fan (hub `0` is a pit below the rim) -/
example (carve : Bool) :=
  mesh_C19_resolve (fun x _ => x) (fun x => x) (fun x => x + 1) (-1000) 1000 (1/1000)
    fanOk fanField fanEnv rfl false fanZ fanPerm 0 carve exNu fanWork fanValid fanFin

example (carve : Bool) :=
  mesh_resolve_mask_closed (fun x _ => x) (fun x => x) (fun x => x + 1) (-1000) 1000 (1/1000)
    fanOk fanField fanEnv rfl false fanZ fanPerm 0 carve exNu fanWork fanValid fanFin

/-- the same on the profile of four nodes (pit `2`) -/
example (carve : Bool) :=
  profile_C19_resolve (fun x _ => x) (fun x => x) (fun x => x + 1) (-1000) 1000 (1/1000)
    4 (by decide) (1/2) false prDx prLo prEnv rfl false prZ [0] 0 carve exNu prWork prValid prFin

example (carve : Bool) :=
  profile_resolve_mask_closed (fun x _ => x) (fun x => x) (fun x => x + 1) (-1000) 1000 (1/1000)
    4 (by decide) (1/2) false prDx prLo prEnv rfl false prZ [0] 0 carve exNu prWork prValid prFin

/-- what the model computes on the raster (outlets, labels, pits): the router leaves the two basins
of the outlets `0` (base level) and `8` (a pit); after the resolver, `carve` or `basic`, there is one
basin and no pit -/
example :
    (let b := basins 9 (singleRouter exSF exEnv false exZ) exEnv.mask exEnv.isBase
     (b.outlets, b.labels, b.pits)) = ([0, 8], #[0, 0, 0, 0, 0, 1, 0, 1, 1], [8]) ∧
    (let o := resolve exSF exEnv (singleRouter exSF exEnv false exZ) exZ false true [0] 0
     let b := basins 9 o.g exEnv.mask exEnv.isBase
     (b.outlets, b.labels, b.pits)) = ([0], #[0, 0, 0, 0, 0, 0, 0, 0, 0], []) ∧
    (let o := resolve exSF exEnv (singleRouter exSF exEnv false exZ) exZ false false [0] 0
     let b := basins 9 o.g exEnv.mask exEnv.isBase
     (b.outlets, b.labels, b.pits)) = ([0], #[0, 0, 0, 0, 0, 0, 0, 0, 0], []) := by
  decide +kernel

/-- every node of the profile is connected to the base level `0` (walk down the chain) -/
theorem prConnBase19 : ∀ y, y < prEnv.topo.n → prEnv.mask y = false →
    ∃ bl, bl < prEnv.topo.n ∧ prEnv.mask bl = false ∧ prEnv.isBase bl = true ∧
      NConn prEnv.topo prEnv.mask y bl := by
  intro y hy _
  refine ⟨0, by decide, rfl, rfl, ?_⟩
  have h0 : ∀ z, z < 3 → (z, (1/2 : ℚ)) ∈ prEnv.topo.nbrs (z + 1) := by decide +kernel
  have hdown : ∀ k, k < 4 → ∀ y, y < 4 → NConn prEnv.topo prEnv.mask y (y - k) := by
    intro k
    induction k with
    | zero => intro _ y _; exact .refl y
    | succ k ih =>
      intro hk y hy
      by_cases hyk : y ≤ k
      · have : y - (k + 1) = y - k := by omega
        rw [this]; exact ih (by omega) y hy
      · have h2 := h0 (y - (k + 1)) (by omega)
        have : y - (k + 1) + 1 = y - k := by omega
        rw [this] at h2
        exact .step (1/2) (ih (by omega) y hy) h2 rfl
  have := hdown y hy y hy
  rwa [Nat.sub_self] at this

/-- clause 9 used as a theorem (no computation of the resolver): on the profile, whose nodes are
all connected to the base level, no pit is left, `carve` or `basic` -/
example (carve : Bool) :
    (basins prEnv.topo.n
      (resolve exSF prEnv (singleRouter exSF prEnv false prZ) prZ false carve [0] 0).g
      prEnv.mask prEnv.isBase).pits = [] :=
  (profile_C19_resolve (fun x _ => x) (fun x => x) (fun x => x + 1) (-1000) 1000 (1/1000)
    4 (by decide) (1/2) false prDx prLo prEnv rfl false prZ [0] 0 carve exNu prWork prValid
    prFin).2.2.2.2.2.2.2.2.2.2.2 prConnBase19

/-! A profile cut in two by a masked node: the basin `{3, 4}` cannot reach the base level `0`, no
pass is found, the resolver leaves the pit `4` — clause 8 says this is the only way a pit survives. -/

def cut19Env : Env ℚ :=
  { topo := profileTopo 5 (1/2) false, mask := fun i => i == 2, seeds := [0],
    isBase := fun i => i == 0 }
def cut19Z : Nat → ℚ := fun i => [0, 2, 9, 3, 1].getD i 0
theorem cut19Fin : ∀ i, i < cut19Env.topo.n → (-1000 : ℚ) < cut19Z i := by decide +kernel
theorem cut19Work : work cut19Env.topo (singleRouter exSF cut19Env false cut19Z).dfs < Mst.none := by
  decide +kernel
theorem cut19Valid :
    validPerm exSF (cbOf exSF cut19Env (singleRouter exSF cut19Env false cut19Z) cut19Z).edges [] = true := by
  decide +kernel

/-- the hypotheses hold on the cut profile as well (a masked node, an empty list of passes) -/
example (carve : Bool) :=
  profile_C19_resolve (fun x _ => x) (fun x => x) (fun x => x + 1) (-1000) 1000 (1/1000)
    5 (by decide) (1/2) false prDx prLo cut19Env rfl false cut19Z [] 0 carve exNu cut19Work cut19Valid cut19Fin

/-- the pit `4` survives the resolver (masked node `2` carries the reserved label) -/
example :
    (let o := resolve exSF cut19Env (singleRouter exSF cut19Env false cut19Z) cut19Z false true [] 0
     let b := basins 5 o.g cut19Env.mask cut19Env.isBase
     (b.outlets, b.labels, b.pits)) = ([0, 4], #[0, 0, maxLabel, 1, 1], [4]) := by
  decide +kernel

/-- hence (clause 8) the node `4` is not connected to the base level `0` through unmasked nodes -/
example : ¬ NConn cut19Env.topo cut19Env.mask 4 0 := by
  have h := (profile_C19_resolve (fun x _ => x) (fun x => x) (fun x => x + 1) (-1000) 1000 (1/1000)
    5 (by decide) (1/2) false prDx prLo cut19Env rfl false cut19Z [] 0 true exNu cut19Work cut19Valid
    cut19Fin).2.2.2.2.2.2.2.2.2.2.1
  have hp : (basins cut19Env.topo.n
      (resolve exSF cut19Env (singleRouter exSF cut19Env false cut19Z) cut19Z false true [] 0).g
      cut19Env.mask cut19Env.isBase).pits = [4] := by decide +kernel
  exact h 4 (by rw [hp]; simp) 0 (by decide) rfl rfl

end example_c19r

end Fs.Closed
