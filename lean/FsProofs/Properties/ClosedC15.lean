import FsProofs.Properties.ClosedMore
import FsProofs.Properties.C15Bottleneck
import FsProofs.Properties.C15UnionFind
import FsProofs.Properties.C01MstOrientComplete

/-! # Closed corollaries of C15 — the basin graph of the spanning-tree sink resolver

Property C15: (1) the pass stored for two adjacent basins is a lowest pass between them; (2) the
tree (Kruskal) is a minimum spanning forest of the basin graph; (3) the orientation from the root
is a valid rooted tree.

The theorems of `C15Connect.lean` (under `SweepHyp`), `C15.lean` / `C15Min.lean` /
`C15Bottleneck.lean` / `C15UnionFind.lean` / `C01MstKruskal.lean` (under `hv`, `hsorted`) and
`C01MstOrient.lean` / `C01MstOrientComplete.lean` (under `Forest`, labels `< nb`) are instantiated
here at the graph of the executed single router `G := singleRouter SF e par f` on any grid with
`EnvOk lo e` (`ClosedMesh.lean`), the executed `connect_basins` `cb := cbOf SF e G f`, the executed
Kruskal tree `tree0Of SF e G f false perm maxLow` and the executed `bgOf SF e G f false perm
maxLow`, over the exact scalar `fieldScalar`.  Every abstract hypothesis (`SweepHyp`,
`SingleGraph`, bottom-up order, receiver-closed mask, labels below the number of basins,
sortedness, `Forest`) is discharged; what is left are run-time facts:

* `hwork` : the node / neighbour entries swept are fewer than `2^64 - 1` (the arrays fit in memory);
* `hvp`   : the permutation handed to Kruskal passes the harness check `validPerm` (all edge
            indices, sorted by pass elevation: what `std::sort` provides) — Kruskal / orientation only;
* `hfin`  : elevations are above `lowest` — only where the virtual edges must be kept by Kruskal.

Order facts are stated with `≤`, `<`, `max` of the field. -/
namespace Fs.Closed
open Fs Fs.Flow Fs.Grid Fs.Mesh Fs.MeshGrid

/-- the abstract (weighted, undirected) edges of the basin graph: one `(l0, l1, pe)` per stored
edge of `connect_basins` -/
def bgEdges {α : Type} (edges : Array (Fs.Mst.BEdge α)) : List (Fs.Kruskal.E α) :=
  edges.toList.map (fun ed => (ed.l0, ed.l1, ed.pe))

/-! ## Kruskal on an array of edges whose permutation passes the harness check (any scalar) -/

section kruskal_generic
open Fs.Mst Fs.Kruskal Fs.C15 Fs.C01Mst
variable {α : Type}

theorem mem_bgEdges {edges : Array (BEdge α)} {x : E α} :
    x ∈ bgEdges edges ↔ ∃ (k : Nat) (ed : BEdge α), edges[k]? = some ed ∧ x = (ed.l0, ed.l1, ed.pe) := by
  unfold bgEdges
  constructor
  · intro hx
    obtain ⟨ed, hed, rfl⟩ := List.mem_map.mp hx
    obtain ⟨k, hk⟩ := Array.mem_iff_getElem?.mp (Array.mem_toList_iff.mp hed)
    exact ⟨k, ed, hk, rfl⟩
  · rintro ⟨k, ed, hk, rfl⟩
    exact List.mem_map.mpr ⟨ed, Array.mem_toList_iff.mpr (Array.mem_iff_getElem?.mpr ⟨k, hk⟩), rfl⟩

/-- a permutation that passes `validPerm` hands ALL the stored edges to Kruskal: the abstract edge
list Kruskal works on has the same elements as the basin graph -/
theorem mem_perm_toE (S : Scalar α) (edges : Array (BEdge α)) (perm : List Nat)
    (hvp : validPerm S edges perm = true) (x : E α) :
    x ∈ perm.filterMap (toE edges) ↔ x ∈ bgEdges edges := by
  rw [mem_bgEdges]
  constructor
  · intro hx
    obtain ⟨i, _, hix⟩ := List.mem_filterMap.mp hx
    unfold toE at hix
    cases he : edges[i]? with
    | none => rw [he] at hix; cases hix
    | some ed =>
      rw [he] at hix
      simp only [Option.map_some, Option.some.injEq] at hix
      exact ⟨i, ed, he, hix.symm⟩
  · rintro ⟨k, ed, hk, rfl⟩
    have hksz : k < edges.size := Fs.C15Connect.lt_size hk
    exact List.mem_filterMap.mpr ⟨k, validPerm_mem S edges perm hvp k hksz, by simp [toE, hk]⟩

/-- **Kruskal with a permutation that passes the harness check**, for a scalar whose `lt` is `<` of
a linearly ordered additive group: the executed class-map Kruskal equals Kruskal on the real
union-find (`kruskalUF_eq`); its tree is a spanning forest of ALL the stored edges
(`kruskal_exec_is_spanning_forest`), of minimum total weight among all spanning forests
(`kruskal_exec_min_weight`), and bottleneck-minimal: two basins are joined within pass elevation `b`
by tree edges iff they are by edges of the whole graph (`kruskal_minimax_iff`). -/
theorem validPerm_kruskal_msf [AddCommGroup α] [LinearOrder α] [IsOrderedAddMonoid α]
    (S : Scalar α) (hlt : ∀ a b, S.lt a b = decide (a < b)) (nb : Nat) (edges : Array (BEdge α))
    (perm : List Nat)
    (hv : ∀ (k : Nat) (ed : BEdge α), edges[k]? = some ed → ed.l0 < nb ∧ ed.l1 < nb)
    (hvp : validPerm S edges perm = true) :
    Fs.UF.kruskalUF nb edges perm = Mst.kruskal nb edges perm ∧
    SpanningForest (bgEdges edges) ((Mst.kruskal nb edges perm).filterMap (toE edges)) ∧
    (∀ T', SpanningForest (bgEdges edges) T' →
      weight ((Mst.kruskal nb edges perm).filterMap (toE edges)) ≤ weight T') ∧
    (∀ u v b, Bottle ((Mst.kruskal nb edges perm).filterMap (toE edges)) u v b ↔
      Bottle (bgEdges edges) u v b) := by
  have hv' : ∀ i, i ∈ perm → ∀ e, edges[i]? = some e → e.l0 < nb ∧ e.l1 < nb :=
    fun i _ e he => hv i e he
  have hs := validPerm_sorted S hlt edges perm hvp
  have hmem := mem_perm_toE S edges perm hvp
  have hsf := kruskal_exec_is_spanning_forest nb edges perm hv'
  refine ⟨kruskalUF_eq nb edges perm hv', ?_, ?_, ?_⟩
  · exact ⟨fun x hx => (hmem x).mp (hsf.sub x hx), hsf.forest,
      fun x hx => hsf.span x ((hmem x).mpr hx)⟩
  · intro T' h'
    exact kruskal_exec_min_weight nb edges perm hv' hs T'
      ⟨fun x hx => (hmem x).mpr (h'.sub x hx), h'.forest, fun x hx => h'.span x ((hmem x).mp hx)⟩
  · intro u v b
    rw [kruskal_sim nb edges perm hv', kruskal_minimax_iff _ (toE_sorted edges perm hs) u v b]
    unfold Bottle
    constructor
    · intro h
      refine h.mono ?_
      intro x hx
      simp only [List.mem_filter] at hx ⊢
      exact ⟨(hmem x).mp hx.1, hx.2⟩
    · intro h
      refine h.mono ?_
      intro x hx
      simp only [List.mem_filter] at hx ⊢
      exact ⟨(hmem x).mpr hx.1, hx.2⟩

end kruskal_generic

section c15
open Fs.Mst Fs.Dfs Fs.C06 Fs.C15Connect Fs.C01Mst Fs.Kruskal Fs.C15
variable {α : Type} [Field α] [LinearOrder α] [IsStrictOrderedRing α]
variable (pow : α → α → α) (sq nu : α → α) (lo mx mn : α)

local notation "SF" => fieldScalar α pow sq nu lo mx mn

/-! ## bridges -/

omit [IsStrictOrderedRing α] in
/-- `std::max` of the exact scalar is `max` of the field -/
theorem sf_max (a b : α) : (SF).max a b = max a b := by
  unfold Scalar.max
  simp only [sf_lt, decide_eq_true_eq]
  split
  · rename_i h; exact (max_eq_right (le_of_lt h)).symm
  · rename_i h; exact (max_eq_left (not_lt.mp h)).symm

omit [IsStrictOrderedRing α] in
/-- "`max a b` is not below `c`" of the exact scalar is `c ≤ max a b` of the field -/
theorem sf_max_not_lt (a b c : α) : (SF).lt ((SF).max a b) c = false ↔ c ≤ max a b := by
  rw [sf_max]
  simp only [sf_lt, decide_eq_false_iff_not, not_lt]

omit [IsStrictOrderedRing α] in
/-- the order laws of `C15Connect.lean` for the exact scalar -/
theorem sf_ltLaws : LtLaws (SF) :=
  ⟨fun a => by simp, fun a b c => by
    simp only [sf_lt, decide_eq_true_eq]; exact lt_trans⟩

/-- **`SweepHyp` holds for the executed single router on any grid**: the only hypothesis left is
`hwork` -/
theorem grid_sweepHyp (e : Env α) (E : EnvOk lo e) (par : Bool) (f : Nat → α)
    (hwork : work e.topo (singleRouter (SF) e par f).dfs < Mst.none) :
    SweepHyp (SF) e.topo e.mask (recv0 (singleRouter (SF) e par f)) (singleRouter (SF) e par f).dfs
      (labOf e (singleRouter (SF) e par f))
      (basins e.topo.n (singleRouter (SF) e par f) e.mask e.isBase).outlets :=
  sweepHyp_resolve (SF) e (sf_ltLaws pow sq nu lo mx mn) (grid_singleGraph pow sq nu lo mx mn e E par f)
    (dfs_single (SF) e par f) (grid_mask_closed pow sq nu lo mx mn e E par f) hwork

/-- the bottom-up order of the single router lists exactly the grid nodes -/
theorem grid_mem_dfs (e : Env α) (E : EnvOk lo e) (par : Bool) (f : Nat → α) (x : Nat) :
    x ∈ (singleRouter (SF) e par f).dfs ↔ x < e.topo.n := by
  rw [dfs_single (SF) e par f]
  exact Fs.C19.mem_order (grid_singleGraph pow sq nu lo mx mn e E par f) x

/-- every edge stored by the executed `connect_basins` joins two basin labels below the number of
basins -/
theorem grid_cb_edges_lt (e : Env α) (E : EnvOk lo e) (par : Bool) (f : Nat → α)
    (hwork : work e.topo (singleRouter (SF) e par f).dfs < Mst.none) :
    ∀ (k : Nat) (ed : BEdge α),
      (cbOf (SF) e (singleRouter (SF) e par f) f).edges[k]? = some ed →
      ed.l0 < (basins e.topo.n (singleRouter (SF) e par f) e.mask e.isBase).outlets.length ∧
      ed.l1 < (basins e.topo.n (singleRouter (SF) e par f) e.mask e.isBase).outlets.length :=
  cb_edges_lt (SF) e (singleRouter (SF) e par f) f (sf_ltLaws pow sq nu lo mx mn)
    (grid_singleGraph pow sq nu lo mx mn e E par f) (dfs_single (SF) e par f)
    (grid_mask_closed pow sq nu lo mx mn e E par f) hwork E.ok.nb_lt

/-! ## (1) the stored passes are lowest passes -/

/-- **C15 (E1) on any grid, soundness of the real edges** (`c15_edge_sound`).  Every stored edge
with `p0 ≠ none` is the edge of an unmasked grid node `p0` and one of its unmasked neighbour entries
`(p1, pl)`, carries their basin labels and the pass elevation `max (f p0) (f p1)`; its first basin is
inner (its outlet is not a base level) and the pair is taken from the lower-numbered inner side or
towards an outer basin; in particular `l0 ≠ l1`. -/
theorem grid_C15_edge_sound
    (e : Env α) (E : EnvOk lo e) (par : Bool) (f : Nat → α)
    (hwork : work e.topo (singleRouter (SF) e par f).dfs < Mst.none) :
    let G := singleRouter (SF) e par f
    let cb := cbOf (SF) e G f
    let lab := labOf e G
    let outl := (basins e.topo.n G e.mask e.isBase).outlets
    ∀ ed, ed ∈ cb.edges → ed.p0 ≠ Mst.none →
      ed.p0 < e.topo.n ∧ e.mask ed.p0 = false ∧ ed.p1 < e.topo.n ∧ e.mask ed.p1 = false ∧
      (∃ d, (ed.p1, d) ∈ e.topo.nbrs ed.p0 ∧ ed.pl = d ∧ 0 < d) ∧
      lab ed.p0 = ed.l0 ∧ lab ed.p1 = ed.l1 ∧ ed.pe = max (f ed.p0) (f ed.p1) ∧
      e.isBase (outl.getD ed.l0 0) = false ∧
      (ed.l0 < ed.l1 ∨ e.isBase (outl.getD ed.l1 0) = true) ∧ ed.l0 ≠ ed.l1 := by
  intro G cb lab outl ed hed hr
  obtain ⟨s1, s2, s3, ⟨d, s4, s4'⟩, s5, s6, s7, s8, s9, s10⟩ :=
    c15_edge_sound (isBase := e.isBase) (f := f) (grid_sweepHyp pow sq nu lo mx mn e E par f hwork)
      ed hed hr
  have hp0 : ed.p0 < e.topo.n := (grid_mem_dfs pow sq nu lo mx mn e E par f _).mp s1
  refine ⟨hp0, s2, E.ok.nb_lt _ hp0 _ s4, s3, ⟨d, s4, s4', E.dist_pos _ hp0 _ s4⟩, s5, s6, ?_, s8, s9,
    s10⟩
  rw [s7]; exact sf_max pow sq nu lo mx mn _ _

/-- **C15 (E2) on any grid, uniqueness** (`c15_edge_unique`): two distinct indices holding real
edges never carry the same ordered pair of basins. -/
theorem grid_C15_edge_unique
    (e : Env α) (E : EnvOk lo e) (par : Bool) (f : Nat → α)
    (hwork : work e.topo (singleRouter (SF) e par f).dfs < Mst.none) :
    let G := singleRouter (SF) e par f
    let cb := cbOf (SF) e G f
    ∀ (k1 k2 : Nat) e1 e2, cb.edges[k1]? = some e1 → cb.edges[k2]? = some e2 →
      e1.p0 ≠ Mst.none → e2.p0 ≠ Mst.none → e1.l0 = e2.l0 → e1.l1 = e2.l1 → k1 = k2 :=
  c15_edge_unique (isBase := e.isBase) (f := f) (grid_sweepHyp pow sq nu lo mx mn e E par f hwork)

/-- **C15 (E3) on any grid, a pass is stored and it is low** (`c15_lowest_pass_exists`): for every
unmasked grid node `i` of an inner basin and every unmasked neighbour `j` whose basin is
higher-numbered or outer there is a stored real edge between the two basins whose pass elevation is
at most `max (f i) (f j)`. -/
theorem grid_C15_lowest_pass_exists
    (e : Env α) (E : EnvOk lo e) (par : Bool) (f : Nat → α)
    (hwork : work e.topo (singleRouter (SF) e par f).dfs < Mst.none) :
    let G := singleRouter (SF) e par f
    let cb := cbOf (SF) e G f
    let lab := labOf e G
    let outl := (basins e.topo.n G e.mask e.isBase).outlets
    ∀ i, i < e.topo.n → e.mask i = false → e.isBase (outl.getD (lab i) 0) = false →
    ∀ j d, (j, d) ∈ e.topo.nbrs i → e.mask j = false →
      (lab i < lab j ∨ e.isBase (outl.getD (lab j) 0) = true) →
      ∃ ed, ed ∈ cb.edges ∧ ed.l0 = lab i ∧ ed.l1 = lab j ∧ ed.p0 ≠ Mst.none ∧
        ed.pe ≤ max (f i) (f j) := by
  intro G cb lab outl i hi hmi hii j d hjd hmj hadm
  obtain ⟨ed, h1, h2, h3, h4, h5⟩ :=
    c15_lowest_pass_exists (isBase := e.isBase) (f := f)
      (grid_sweepHyp pow sq nu lo mx mn e E par f hwork) i
      ((grid_mem_dfs pow sq nu lo mx mn e E par f i).mpr hi) hmi hii j d hjd hmj hadm
  exact ⟨ed, h1, h2, h3, h4, (sf_max_not_lt pow sq nu lo mx mn _ _ _).mp h5⟩

/-- **C15, first clause, on any grid** (`c15_lowest_pass`): the pass stored for a pair of adjacent
basins is a minimum of `max (f i) (f j)` over ALL the pairs of neighbouring unmasked grid nodes
joining them, whichever of the two nodes lies in the first basin (`grid_C15_edge_sound` says the
stored pass is itself such a pair, so the minimum is attained). -/
theorem grid_C15_lowest_pass
    (e : Env α) (E : EnvOk lo e) (par : Bool) (f : Nat → α)
    (hwork : work e.topo (singleRouter (SF) e par f).dfs < Mst.none) :
    let G := singleRouter (SF) e par f
    let cb := cbOf (SF) e G f
    let lab := labOf e G
    ∀ ed, ed ∈ cb.edges → ed.p0 ≠ Mst.none →
    ∀ i, i < e.topo.n → e.mask i = false → ∀ j d, (j, d) ∈ e.topo.nbrs i → e.mask j = false →
      ((lab i = ed.l0 ∧ lab j = ed.l1) ∨ (lab i = ed.l1 ∧ lab j = ed.l0)) →
      ed.pe ≤ max (f i) (f j) := by
  intro G cb lab ed hed hr i hi hmi j d hjd hmj hl
  have H := grid_sweepHyp pow sq nu lo mx mn e E par f hwork
  have key : ∀ a, a < e.topo.n → e.mask a = false → lab a = ed.l0 →
      ∀ b dd, (b, dd) ∈ e.topo.nbrs a → e.mask b = false → lab b = ed.l1 →
      ed.pe ≤ max (f a) (f b) := by
    intro a ha hma hla b dd hb hmb hlb
    exact (sf_max_not_lt pow sq nu lo mx mn _ _ _).mp
      (c15_lowest_pass (isBase := e.isBase) (f := f) H ed hed hr a
        ((grid_mem_dfs pow sq nu lo mx mn e E par f a).mpr ha) hma hla b dd hb hmb hlb)
  rcases hl with ⟨h0, h1⟩ | ⟨h1, h0⟩
  · exact key i hi hmi h0 j d hjd hmj h1
  · obtain ⟨d', hd'⟩ := hsym'_of_hsym (hsym_of_ok E.ok) i j d hi hjd
    rw [max_comm]
    exact key j (E.ok.nb_lt i hi _ hjd) hmj h0 i d' hd' hmi h1

/-- **C15 (E4) on any grid, virtual edges** (`c15_virtual`): `root` is the label of the first
unmasked base-level outlet of the bottom-up order (`none` if there is none) and the virtual edges
(`p0 = none`) are, in order, one edge `(root, label o, none, none, lo, 0)` for each later unmasked
base-level outlet `o`. -/
theorem grid_C15_virtual
    (e : Env α) (E : EnvOk lo e) (par : Bool) (f : Nat → α)
    (hwork : work e.topo (singleRouter (SF) e par f).dfs < Mst.none) :
    let G := singleRouter (SF) e par f
    let cb := cbOf (SF) e G f
    let lab := labOf e G
    let outers := (G.dfs.filter (fun x => (!e.mask x && recv0 G x == x) && e.isBase x))
    cb.root = (match outers with | [] => Mst.none | o :: _ => lab o) ∧
    cb.edges.toList.filter (fun ed => ed.p0 == Mst.none) =
      outers.tail.map (fun o =>
        { l0 := cb.root, l1 := lab o, p0 := Mst.none, p1 := Mst.none, pe := lo, pl := 0 }) :=
  c15_virtual (isBase := e.isBase) (f := f) (grid_sweepHyp pow sq nu lo mx mn e E par f hwork)

/-- **C15 (1) on any grid**: the five statements about the executed `connect_basins` in one -/
theorem grid_C15_passes
    (e : Env α) (E : EnvOk lo e) (par : Bool) (f : Nat → α)
    (hwork : work e.topo (singleRouter (SF) e par f).dfs < Mst.none) :
    let G := singleRouter (SF) e par f
    let cb := cbOf (SF) e G f
    let lab := labOf e G
    let outl := (basins e.topo.n G e.mask e.isBase).outlets
    let outers := (G.dfs.filter (fun x => (!e.mask x && recv0 G x == x) && e.isBase x))
    -- E1: a real edge is a pair of neighbouring unmasked nodes of the two basins
    (∀ ed, ed ∈ cb.edges → ed.p0 ≠ Mst.none →
      ed.p0 < e.topo.n ∧ e.mask ed.p0 = false ∧ ed.p1 < e.topo.n ∧ e.mask ed.p1 = false ∧
      (∃ d, (ed.p1, d) ∈ e.topo.nbrs ed.p0 ∧ ed.pl = d ∧ 0 < d) ∧
      lab ed.p0 = ed.l0 ∧ lab ed.p1 = ed.l1 ∧ ed.pe = max (f ed.p0) (f ed.p1) ∧
      e.isBase (outl.getD ed.l0 0) = false ∧
      (ed.l0 < ed.l1 ∨ e.isBase (outl.getD ed.l1 0) = true) ∧ ed.l0 ≠ ed.l1) ∧
    -- E2: one edge per pair of basins
    (∀ (k1 k2 : Nat) e1 e2, cb.edges[k1]? = some e1 → cb.edges[k2]? = some e2 →
      e1.p0 ≠ Mst.none → e2.p0 ≠ Mst.none → e1.l0 = e2.l0 → e1.l1 = e2.l1 → k1 = k2) ∧
    -- E3: its pass is the lowest of all pairs of neighbouring nodes joining the two basins
    (∀ ed, ed ∈ cb.edges → ed.p0 ≠ Mst.none →
      ∀ i, i < e.topo.n → e.mask i = false → ∀ j d, (j, d) ∈ e.topo.nbrs i → e.mask j = false →
      ((lab i = ed.l0 ∧ lab j = ed.l1) ∨ (lab i = ed.l1 ∧ lab j = ed.l0)) →
      ed.pe ≤ max (f i) (f j)) ∧
    -- E3': and every such pair of basins has an edge
    (∀ i, i < e.topo.n → e.mask i = false → e.isBase (outl.getD (lab i) 0) = false →
      ∀ j d, (j, d) ∈ e.topo.nbrs i → e.mask j = false →
      (lab i < lab j ∨ e.isBase (outl.getD (lab j) 0) = true) →
      ∃ ed, ed ∈ cb.edges ∧ ed.l0 = lab i ∧ ed.l1 = lab j ∧ ed.p0 ≠ Mst.none ∧
        ed.pe ≤ max (f i) (f j)) ∧
    -- E4: the root and the virtual edges
    (cb.root = (match outers with | [] => Mst.none | o :: _ => lab o) ∧
      cb.edges.toList.filter (fun ed => ed.p0 == Mst.none) =
        outers.tail.map (fun o =>
          { l0 := cb.root, l1 := lab o, p0 := Mst.none, p1 := Mst.none, pe := lo, pl := 0 })) :=
  ⟨grid_C15_edge_sound pow sq nu lo mx mn e E par f hwork,
   grid_C15_edge_unique pow sq nu lo mx mn e E par f hwork,
   grid_C15_lowest_pass pow sq nu lo mx mn e E par f hwork,
   grid_C15_lowest_pass_exists pow sq nu lo mx mn e E par f hwork,
   grid_C15_virtual pow sq nu lo mx mn e E par f hwork⟩

/-! ## (2) Kruskal's tree is a minimum spanning forest of the basin graph -/

omit [IsStrictOrderedRing α] in
/-- `≤` of the exact scalar is transitive (the hypothesis `hnt` of `kruskal_keeps_virtual`) -/
theorem sf_hnt : ∀ a b c : α, (SF).lt b a = false → (SF).lt c b = false → (SF).lt c a = false := by
  intro a b c
  simp only [sf_lt, decide_eq_false_iff_not, not_lt]
  exact le_trans

/-- **C15 (2) on any grid: Kruskal's tree is a minimum spanning forest of the basin graph and a
minimax-path (bottleneck) tree.**  `tree := tree0Of … false perm maxLow` is the tree the executed
resolver builds with Kruskal on the edges `cb.edges` of the executed `connect_basins`, for
`nb := number of basins`; `T` are its abstract edges `(l0, l1, pe)`, `bgEdges cb.edges` those of the
whole basin graph.
* the tree is the executed class-map Kruskal and equals Kruskal on the real union-find
  (path compression, union by rank);
* every edge of the basin graph joins two basins `< nb`;
* `T` is a spanning forest of the basin graph: its edges are edges of the graph, it has no cycle,
  and it connects the two basins of EVERY stored edge;
* `T` has minimum total pass elevation among ALL the spanning forests of the basin graph;
* `T` is bottleneck-minimal: two basins are joined by tree edges of pass elevation `≤ b` iff they
  are joined by graph edges of pass elevation `≤ b`.
Hypotheses left: `hwork`, `hvp`. -/
theorem grid_C15_kruskal
    (e : Env α) (E : EnvOk lo e) (par : Bool) (f : Nat → α) (perm : List Nat) (maxLow : Nat)
    (hwork : work e.topo (singleRouter (SF) e par f).dfs < Mst.none)
    (hvp : validPerm (SF) (cbOf (SF) e (singleRouter (SF) e par f) f).edges perm = true) :
    let G := singleRouter (SF) e par f
    let cb := cbOf (SF) e G f
    let nb := (basins e.topo.n G e.mask e.isBase).outlets.length
    let tree := tree0Of (SF) e G f false perm maxLow
    let T := tree.filterMap (toE cb.edges)
    tree = Mst.kruskal nb cb.edges perm ∧ tree = Fs.UF.kruskalUF nb cb.edges perm ∧
    (∀ x, x ∈ bgEdges cb.edges → x.1 < nb ∧ x.2.1 < nb) ∧
    SpanningForest (bgEdges cb.edges) T ∧
    (∀ T', SpanningForest (bgEdges cb.edges) T' → weight T ≤ weight T') ∧
    (∀ u v b, Bottle T u v b ↔ Bottle (bgEdges cb.edges) u v b) := by
  intro G cb nb tree T
  have ht : tree = Mst.kruskal nb cb.edges perm := by simp [tree, tree0Of, nb, cb, G]
  have hv := grid_cb_edges_lt pow sq nu lo mx mn e E par f hwork
  obtain ⟨h1, h2, h3, h4⟩ := validPerm_kruskal_msf (SF) (fun _ _ => rfl) nb cb.edges perm hv hvp
  have hT : T = (Mst.kruskal nb cb.edges perm).filterMap (toE cb.edges) := by
    show tree.filterMap _ = _; rw [ht]
  rw [hT]
  refine ⟨ht, ht.trans h1.symm, ?_, h2, h3, h4⟩
  intro x hx
  obtain ⟨k, ed, hk, rfl⟩ := mem_bgEdges.mp hx
  exact hv k ed hk

/-- **Kruskal's tree keeps every virtual edge** (`kruskal_keeps_virtual`): with elevations above
`lo` (`hfin`) the edges that tie the outer basins to the root basin are all in the tree. -/
theorem grid_C15_kruskal_virtual
    (e : Env α) (E : EnvOk lo e) (par : Bool) (f : Nat → α) (perm : List Nat) (maxLow : Nat)
    (hwork : work e.topo (singleRouter (SF) e par f).dfs < Mst.none)
    (hvp : validPerm (SF) (cbOf (SF) e (singleRouter (SF) e par f) f).edges perm = true)
    (hfin : ∀ i, i < e.topo.n → lo < f i) :
    let G := singleRouter (SF) e par f
    let cb := cbOf (SF) e G f
    ∀ (k : Nat) (ed : BEdge α), cb.edges[k]? = some ed → ed.p0 = Mst.none →
      k ∈ tree0Of (SF) e G f false perm maxLow := by
  intro G cb
  have hlaws := sf_ltLaws pow sq nu lo mx mn
  have hg := grid_singleGraph pow sq nu lo mx mn e E par f
  have hdfs := dfs_single (SF) e par f
  have hmc := grid_mask_closed pow sq nu lo mx mn e E par f
  have ht : tree0Of (SF) e G f false perm maxLow =
      Mst.kruskal (basins e.topo.n G e.mask e.isBase).outlets.length cb.edges perm := by
    simp [tree0Of, cb, G]
  rw [ht]
  obtain ⟨hV, hVinj⟩ := cb_virtual_star (SF) e G f hlaws hg hdfs hmc hwork
  apply kruskal_keeps_virtual (SF) _ _ perm hvp (sf_hnt pow sq nu lo mx mn)
    (grid_cb_edges_lt pow sq nu lo mx mn e E par f hwork) cb.root hV hVinj
  intro k ed hk hr
  obtain ⟨h0, _, h1, _, _, _, _, h7, _⟩ := grid_C15_edge_sound pow sq nu lo mx mn e E par f hwork ed
    (Array.mem_iff_getElem?.mpr ⟨k, hk⟩) hr
  show decide (lo < ed.pe) = true
  rw [h7]
  exact decide_eq_true (lt_of_lt_of_le (hfin _ h0) (le_max_left _ _))

/-- **Kruskal's tree connects the basins of neighbouring nodes**: the basins of two unmasked
neighbouring grid nodes are connected by tree edges (the basin graph has an edge, or a chain of two
virtual edges through the root basin, between any two adjacent basins, and the tree spans the basin
graph); hence so are the basins of any two nodes connected through unmasked neighbours. -/
theorem grid_C15_kruskal_connects
    (e : Env α) (E : EnvOk lo e) (par : Bool) (f : Nat → α) (perm : List Nat) (maxLow : Nat)
    (hwork : work e.topo (singleRouter (SF) e par f).dfs < Mst.none)
    (hvp : validPerm (SF) (cbOf (SF) e (singleRouter (SF) e par f) f).edges perm = true) :
    let G := singleRouter (SF) e par f
    let cb := cbOf (SF) e G f
    let lab := labOf e G
    let T := (tree0Of (SF) e G f false perm maxLow).filterMap (toE cb.edges)
    (∀ u v d, u < e.topo.n → e.mask u = false → (v, d) ∈ e.topo.nbrs u → e.mask v = false →
      Conn T (lab u) (lab v)) ∧
    (∀ y z, y < e.topo.n → e.mask y = false → NConn e.topo e.mask y z → Conn T (lab y) (lab z)) := by
  intro G cb lab T
  have hg := grid_singleGraph pow sq nu lo mx mn e E par f
  have hdfs := dfs_single (SF) e par f
  have hmc := grid_mask_closed pow sq nu lo mx mn e E par f
  have hnb := E.ok.nb_lt
  have hsym := hsym'_of_hsym (hsym_of_ok E.ok)
  have bd : BasinData e.topo.n e.mask (recv0 G) (labOf e G) (outlOf e G) :=
    basinData_of hg hdfs e.mask e.isBase hmc
  obtain ⟨_, _, _, hSF, _, _⟩ := grid_C15_kruskal pow sq nu lo mx mn e E par f perm maxLow hwork hvp
  have hspan : ∀ (k : Nat) (ed : BEdge α), cb.edges[k]? = some ed → Conn T ed.l0 ed.l1 :=
    fun k ed hk => hSF.span (ed.l0, ed.l1, ed.pe) (mem_bgEdges.mpr ⟨k, ed, hk, rfl⟩)
  obtain ⟨v_root, v_list⟩ := grid_C15_virtual pow sq nu lo mx mn e E par f hwork
  have hlow := grid_C15_lowest_pass_exists pow sq nu lo mx mn e E par f hwork
  -- an outer basin is connected to the root basin
  have houter : ∀ x, x < e.topo.n → e.mask x = false →
      e.isBase ((basins e.topo.n G e.mask e.isBase).outlets.getD (lab x) 0) = true →
      Conn T cb.root (lab x) := by
    intro x hx hmx hbx
    have hin : InB e.topo.n e.mask (labOf e G) (labOf e G x) x := ⟨hx, hmx, rfl⟩
    have hpit := bd.inB_pit hin
    have hself := bd.pit_self' hin
    have hlo : (outlOf e G).getD (labOf e G x) 0 =
        (basins e.topo.n G e.mask e.isBase).outlets.getD (labOf e G x) 0 := by
      unfold outlOf; rw [toArray_getD]
    rw [hlo] at hpit hself
    change e.isBase ((basins e.topo.n G e.mask e.isBase).outlets.getD (labOf e G x) 0) = true at hbx
    generalize (basins e.topo.n G e.mask e.isBase).outlets.getD (labOf e G x) 0 = oo at hpit hself hbx
    have hout : oo ∈ G.dfs.filter (fun x => (!e.mask x && recv0 G x == x) && e.isBase x) :=
      List.mem_filter.mpr ⟨(grid_mem_dfs pow sq nu lo mx mn e E par f oo).mpr hpit.1, by
        simp [hpit.2.1, hself, hbx]⟩
    have v_root' : cb.root =
        (match G.dfs.filter (fun x => (!e.mask x && recv0 G x == x) && e.isBase x) with
          | [] => Mst.none | o :: _ => labOf e G o) := v_root
    have v_list' : cb.edges.toList.filter (fun ed => ed.p0 == Mst.none) =
        (G.dfs.filter (fun x => (!e.mask x && recv0 G x == x) && e.isBase x)).tail.map (fun o =>
          (⟨cb.root, labOf e G o, Mst.none, Mst.none, lo, 0⟩ : BEdge α)) := v_list
    cases hos : G.dfs.filter (fun x => (!e.mask x && recv0 G x == x) && e.isBase x) with
    | nil => rw [hos] at hout; cases hout
    | cons o1 rest =>
      rw [hos] at v_root' v_list' hout
      show Conn T cb.root (labOf e G x)
      rcases List.mem_cons.mp hout with h1 | h1
      · rw [← hpit.2.2, h1, v_root']; exact .refl _
      · have hm : (⟨cb.root, labOf e G oo, Mst.none, Mst.none, lo, 0⟩ : BEdge α) ∈
            cb.edges.toList.filter (fun ed => ed.p0 == Mst.none) := by
          rw [v_list']; exact List.mem_map.mpr ⟨oo, h1, rfl⟩
        obtain ⟨k, hk⟩ := Array.mem_iff_getElem?.mp (Array.mem_toList_iff.mp (List.mem_filter.mp hm).1)
        have := hspan k _ hk
        rw [← hpit.2.2]; exact this
  have hadj : ∀ u v d, u < e.topo.n → e.mask u = false → (v, d) ∈ e.topo.nbrs u → e.mask v = false →
      Conn T (lab u) (lab v) := by
    intro u v d hu hmu hv hmv
    have hvn : v < e.topo.n := hnb u hu _ hv
    obtain ⟨d', hv'⟩ := hsym u v d hu hv
    have edge_conn : ∀ (a b : Nat) (dd : α), a < e.topo.n → e.mask a = false →
        (b, dd) ∈ e.topo.nbrs a → e.mask b = false →
        e.isBase ((basins e.topo.n G e.mask e.isBase).outlets.getD (lab a) 0) = false →
        (lab a < lab b ∨
          e.isBase ((basins e.topo.n G e.mask e.isBase).outlets.getD (lab b) 0) = true) →
        Conn T (lab a) (lab b) := by
      intro a b dd ha hma hab hmb' hin hadm
      obtain ⟨ed, hed, h0, h1, _⟩ := hlow a ha hma hin b dd hab hmb' hadm
      obtain ⟨k, hk⟩ := Array.mem_iff_getElem?.mp hed
      have := hspan k ed hk
      rw [h0, h1] at this; exact this
    cases hou : e.isBase ((basins e.topo.n G e.mask e.isBase).outlets.getD (lab u) 0) <;>
      cases hov : e.isBase ((basins e.topo.n G e.mask e.isBase).outlets.getD (lab v) 0)
    · rcases Nat.lt_trichotomy (lab u) (lab v) with h | h | h
      · exact edge_conn u v d hu hmu hv hmv hou (Or.inl h)
      · rw [h]; exact .refl _
      · exact (edge_conn v u d' hvn hmv hv' hmu hov (Or.inl h)).symm
    · exact edge_conn u v d hu hmu hv hmv hou (Or.inr hov)
    · exact (edge_conn v u d' hvn hmv hv' hmu hov (Or.inr hou)).symm
    · exact (houter u hu hmu hou).symm.trans (houter v hvn hmv hov)
  refine ⟨hadj, ?_⟩
  intro y z hy hmy hc
  have : z < e.topo.n ∧ e.mask z = false ∧ Conn T (lab y) (lab z) := by
    induction hc with
    | refl => exact ⟨hy, hmy, .refl _⟩
    | step d _ hnbr hmz ih =>
      obtain ⟨h1, h2, h3⟩ := ih
      exact ⟨hnb _ h1 _ hnbr, hmz, h3.trans (hadj _ _ d h1 h2 hnbr hmz)⟩
  exact this.2.2

/-! ## (3) the orientation from the root is a valid rooted tree -/

/-- the root basin is a basin as soon as the grid has an unmasked base-level node -/
theorem grid_C15_root_lt
    (e : Env α) (E : EnvOk lo e) (par : Bool) (f : Nat → α)
    (hwork : work e.topo (singleRouter (SF) e par f).dfs < Mst.none)
    (b : Nat) (hb : b < e.topo.n) (hmb : e.mask b = false) (hbb : e.isBase b = true) :
    let G := singleRouter (SF) e par f
    (cbOf (SF) e G f).root < (basins e.topo.n G e.mask e.isBase).outlets.length := by
  intro G
  have hg := grid_singleGraph pow sq nu lo mx mn e E par f
  have bd : BasinData e.topo.n e.mask (recv0 G) (labOf e G) (outlOf e G) :=
    basinData_of hg (dfs_single (SF) e par f) e.mask e.isBase
      (grid_mask_closed pow sq nu lo mx mn e E par f)
  obtain ⟨v_root, _⟩ := grid_C15_virtual pow sq nu lo mx mn e E par f hwork
  have hrb : recv0 G b = b := by
    simp [recv0, G, (Fs.C04.terminal_row (SF) e par f b hb (by simp [hbb])).1]
  have hbo : b ∈ G.dfs.filter (fun x => (!e.mask x && recv0 G x == x) && e.isBase x) :=
    List.mem_filter.mpr ⟨(grid_mem_dfs pow sq nu lo mx mn e E par f b).mpr hb, by simp [hmb, hrb, hbb]⟩
  cases hos : G.dfs.filter (fun x => (!e.mask x && recv0 G x == x) && e.isBase x) with
  | nil => rw [hos] at hbo; cases hbo
  | cons o1 rest =>
    have ho1 : o1 ∈ G.dfs.filter (fun x => (!e.mask x && recv0 G x == x) && e.isBase x) := by
      rw [hos]; exact List.mem_cons_self
    obtain ⟨h1, h2⟩ := List.mem_filter.mp ho1
    simp only [Bool.and_eq_true, Bool.not_eq_true', beq_iff_eq] at h2
    have := bd.lab_lt o1 ((grid_mem_dfs pow sq nu lo mx mn e E par f o1).mp h1) h2.1.1
    have v_root' : (cbOf (SF) e G f).root =
        (match G.dfs.filter (fun x => (!e.mask x && recv0 G x == x) && e.isBase x) with
          | [] => Mst.none | o :: _ => labOf e G o) := v_root
    rw [hos] at v_root'
    rw [v_root']
    simpa [outlOf] using this

/-- **C15 (3) on any grid: `orient` turns Kruskal's tree into a rooted tree** (`orient_spec`,
`orient_reached_iff`).  `bg := bgOf … false perm maxLow` is the basin graph the executed resolver
works on (`orient` applied to `cb.edges`, Kruskal's tree and `cb.root`).
The kept tree lists each index once and only indices of Kruskal's tree; every stored edge is
untouched or (if kept) flipped; every kept index holds an edge; a basin is entered by at most one
kept edge; no kept edge enters the root; there is a depth function increasing by one along every
kept edge (no cycle, edges point away from the root); the tail of a kept edge is the root or is
itself entered by a kept edge; and (if the root is a basin) the basins reached are exactly those
Kruskal's tree connects to the root.  Hypothesis left: `hwork` (any list of edge indices `perm`:
Kruskal's tree is a forest whatever the processing order). -/
theorem grid_C15_orient
    (e : Env α) (E : EnvOk lo e) (par : Bool) (f : Nat → α) (perm : List Nat) (maxLow : Nat)
    (hwork : work e.topo (singleRouter (SF) e par f).dfs < Mst.none) :
    let G := singleRouter (SF) e par f
    let cb := cbOf (SF) e G f
    let nb := (basins e.topo.n G e.mask e.isBase).outlets.length
    let tree0 := tree0Of (SF) e G f false perm maxLow
    let bg := bgOf (SF) e G f false perm maxLow
    bg.root = cb.root ∧
    bg.tree.Nodup ∧ (∀ i, i ∈ bg.tree → i ∈ tree0) ∧
    (∀ i, bg.edges[i]? = cb.edges[i]? ∨
      (i ∈ bg.tree ∧ ∃ e0, cb.edges[i]? = some e0 ∧ bg.edges[i]? = some (flipE e0))) ∧
    (∀ i, i ∈ bg.tree → ∃ e', bg.edges[i]? = some e') ∧
    (∀ i j, i ∈ bg.tree → j ∈ bg.tree → ∀ ei ej, bg.edges[i]? = some ei → bg.edges[j]? = some ej →
      ei.l1 = ej.l1 → i = j) ∧
    (∀ i, i ∈ bg.tree → ∀ e', bg.edges[i]? = some e' → e'.l1 ≠ bg.root) ∧
    (∃ d : Nat → Nat, ∀ i, i ∈ bg.tree → ∀ e', bg.edges[i]? = some e' → d e'.l1 = d e'.l0 + 1) ∧
    (∀ i, i ∈ bg.tree → ∀ e', bg.edges[i]? = some e' →
      e'.l0 = bg.root ∨ ∃ j, j ∈ bg.tree ∧ ∃ ej, bg.edges[j]? = some ej ∧ ej.l1 = e'.l0) ∧
    (cb.root < nb → ∀ v, ReachedB bg.edges bg.tree bg.root v ↔
      Conn (tree0.filterMap (toE cb.edges)) cb.root v) := by
  intro G cb nb tree0 bg
  have hv := grid_cb_edges_lt pow sq nu lo mx mn e E par f hwork
  have ht : tree0 = Mst.kruskal nb cb.edges perm := by simp [tree0, tree0Of, nb, cb, G]
  have hF : Forest (tree0.filterMap (toE cb.edges)) := by
    rw [ht]; exact Fs.C15.kruskal_forest _ _ perm (fun i _ ed hed => hv i ed hed)
  obtain ⟨hE, hT, hR⟩ := bgOf_eq (SF) e G f false perm maxLow
  obtain ⟨o1, o2, o3, o4, o5, o6, o7, o8⟩ := orient_spec nb cb.edges tree0 cb.root hF
  have hri := orient_reached_iff nb cb.edges tree0 cb.root hF (fun i _ e0 he0 => hv i e0 he0)
  rw [← hE, ← hT] at o3 o4 o5 o6 o7 o8
  rw [← hT] at o1 o2
  rw [← hR] at o6 o8
  refine ⟨hR, o1, o2, o3, o4, o5, o6, o7, o8, ?_⟩
  intro hr v
  have := hri hr v
  rw [← hE, ← hT] at this
  rw [hR]; exact this

/-- **the oriented basin tree is the rooted tree the re-routing needs** (`bg_hyps`): with elevations
above `lo` (`hfin`, so that Kruskal keeps the virtual edges) the executed `bgOf` satisfies
`TreeHyp` (each index once; a real tree edge joins an unmasked node of basin `l0` to an unmasked node
of basin `l1`; a basin is entered by at most one tree edge; a depth function increases along the
edges), every real tree edge enters an inner basin, and `RootHyp` (the root basin is outer; a virtual
tree edge leads to an outer basin; the tail of a tree edge is the root or is entered by a tree
edge). -/
theorem grid_C15_orient_tree
    (e : Env α) (E : EnvOk lo e) (par : Bool) (f : Nat → α) (perm : List Nat) (maxLow : Nat)
    (hwork : work e.topo (singleRouter (SF) e par f).dfs < Mst.none)
    (hvp : validPerm (SF) (cbOf (SF) e (singleRouter (SF) e par f) f).edges perm = true)
    (hfin : ∀ i, i < e.topo.n → lo < f i) :
    let G := singleRouter (SF) e par f
    let bg := bgOf (SF) e G f false perm maxLow
    TreeHyp e.topo.n e.mask (labOf e G) bg.edges bg.tree ∧
    (∀ idx, idx ∈ bg.tree → ∀ ed, bg.edges[idx]? = some ed → ed.p0 ≠ Mst.none →
      e.isBase ((outlOf e G).getD ed.l1 0) = false) ∧
    RootHyp e.isBase (outlOf e G) bg.edges bg.tree bg.root := by
  intro G bg
  have hv := grid_cb_edges_lt pow sq nu lo mx mn e E par f hwork
  have ht : tree0Of (SF) e G f false perm maxLow =
      Mst.kruskal (basins e.topo.n G e.mask e.isBase).outlets.length (cbOf (SF) e G f).edges perm := by
    simp [tree0Of, G]
  refine bg_hyps (SF) e G f false perm maxLow (sf_ltLaws pow sq nu lo mx mn)
    (grid_singleGraph pow sq nu lo mx mn e E par f) (dfs_single (SF) e par f)
    (grid_mask_closed pow sq nu lo mx mn e E par f) hwork E.ok.nb_lt ?_
    (grid_C15_kruskal_virtual pow sq nu lo mx mn e E par f perm maxLow hwork hvp hfin)
  rw [ht]
  exact Fs.C15.kruskal_forest _ _ perm (fun i _ ed hed => hv i ed hed)

/-- **the oriented tree reaches every basin connected to a base level**
(`reached_of_connected`): the basin of an unmasked node that is connected through unmasked
neighbours to an unmasked base-level node is the root or is entered by a kept edge. -/
theorem grid_C15_reached
    (e : Env α) (E : EnvOk lo e) (par : Bool) (f : Nat → α) (perm : List Nat) (maxLow : Nat)
    (hwork : work e.topo (singleRouter (SF) e par f).dfs < Mst.none)
    (hvp : validPerm (SF) (cbOf (SF) e (singleRouter (SF) e par f) f).edges perm = true) :
    let G := singleRouter (SF) e par f
    let bg := bgOf (SF) e G f false perm maxLow
    ∀ y b, y < e.topo.n → e.mask y = false → b < e.topo.n → e.mask b = false → e.isBase b = true →
      NConn e.topo e.mask y b → ReachedB bg.edges bg.tree bg.root (labOf e G y) := by
  intro G bg y b hy hmy hb hmb hbb hc
  refine reached_of_connected (SF) e G f perm maxLow (sf_ltLaws pow sq nu lo mx mn)
    (grid_singleGraph pow sq nu lo mx mn e E par f) (dfs_single (SF) e par f)
    (grid_mask_closed pow sq nu lo mx mn e E par f) ?_ hwork E.ok.nb_lt
    (hsym'_of_hsym (hsym_of_ok E.ok)) hvp y b hy hmy hb hmb hbb hc
  intro x hx hbx
  simp [recv0, (Fs.C04.terminal_row (SF) e par f x hx (by simp [hbx])).1]

/-! ## instances: raster, triangular mesh, profile (no topology hypothesis left) -/

/-- **C15 on a raster**: the executed `connect_basins` stores the lowest passes (E1 – E4)
(`grid_C15_passes` on a raster: same statement, no topology hypothesis left) -/
theorem raster_C15_passes
    {g : Raster α} (H : ShapeOk g) (F : FieldOk sq lo g)
    (e : Env α) (he : e.topo = rasterTopo (fieldScalar α pow sq nu lo mx mn) g)
    (par : Bool) (f : Nat → α)
    (hwork : work e.topo (singleRouter (SF) e par f).dfs < Mst.none) :
    let G := singleRouter (SF) e par f
    let cb := cbOf (SF) e G f
    let lab := labOf e G
    let outl := (basins e.topo.n G e.mask e.isBase).outlets
    let outers := (G.dfs.filter (fun x => (!e.mask x && recv0 G x == x) && e.isBase x))
    -- E1: a real edge is a pair of neighbouring unmasked nodes of the two basins
    (∀ ed, ed ∈ cb.edges → ed.p0 ≠ Mst.none →
      ed.p0 < e.topo.n ∧ e.mask ed.p0 = false ∧ ed.p1 < e.topo.n ∧ e.mask ed.p1 = false ∧
      (∃ d, (ed.p1, d) ∈ e.topo.nbrs ed.p0 ∧ ed.pl = d ∧ 0 < d) ∧
      lab ed.p0 = ed.l0 ∧ lab ed.p1 = ed.l1 ∧ ed.pe = max (f ed.p0) (f ed.p1) ∧
      e.isBase (outl.getD ed.l0 0) = false ∧
      (ed.l0 < ed.l1 ∨ e.isBase (outl.getD ed.l1 0) = true) ∧ ed.l0 ≠ ed.l1) ∧
    -- E2: one edge per pair of basins
    (∀ (k1 k2 : Nat) e1 e2, cb.edges[k1]? = some e1 → cb.edges[k2]? = some e2 →
      e1.p0 ≠ Mst.none → e2.p0 ≠ Mst.none → e1.l0 = e2.l0 → e1.l1 = e2.l1 → k1 = k2) ∧
    -- E3: its pass is the lowest of all pairs of neighbouring nodes joining the two basins
    (∀ ed, ed ∈ cb.edges → ed.p0 ≠ Mst.none →
      ∀ i, i < e.topo.n → e.mask i = false → ∀ j d, (j, d) ∈ e.topo.nbrs i → e.mask j = false →
      ((lab i = ed.l0 ∧ lab j = ed.l1) ∨ (lab i = ed.l1 ∧ lab j = ed.l0)) →
      ed.pe ≤ max (f i) (f j)) ∧
    -- E3': and every such pair of basins has an edge
    (∀ i, i < e.topo.n → e.mask i = false → e.isBase (outl.getD (lab i) 0) = false →
      ∀ j d, (j, d) ∈ e.topo.nbrs i → e.mask j = false →
      (lab i < lab j ∨ e.isBase (outl.getD (lab j) 0) = true) →
      ∃ ed, ed ∈ cb.edges ∧ ed.l0 = lab i ∧ ed.l1 = lab j ∧ ed.p0 ≠ Mst.none ∧
        ed.pe ≤ max (f i) (f j)) ∧
    -- E4: the root and the virtual edges
    (cb.root = (match outers with | [] => Mst.none | o :: _ => lab o) ∧
      cb.edges.toList.filter (fun ed => ed.p0 == Mst.none) =
        outers.tail.map (fun o =>
          { l0 := cb.root, l1 := lab o, p0 := Mst.none, p1 := Mst.none, pe := lo, pl := 0 })) :=
  grid_C15_passes pow sq nu lo mx mn e (raster_envOk pow nu mx mn H F e he)
    par f hwork

/-- **C15 on a triangular mesh**: the executed `connect_basins` stores the lowest passes (E1 – E4)
(`grid_C15_passes` on a triangular mesh: same statement, no topology hypothesis left) -/
theorem mesh_C15_passes
    {n : Nat} {pts : Nat → α × α} {tris : List (Nat × Nat × Nat)}
    (M : MeshOk n tris) (F : MeshFieldOk sq lo pts tris)
    (e : Env α) (he : e.topo = meshTopo sq n pts tris)
    (par : Bool) (f : Nat → α)
    (hwork : work e.topo (singleRouter (SF) e par f).dfs < Mst.none) :
    let G := singleRouter (SF) e par f
    let cb := cbOf (SF) e G f
    let lab := labOf e G
    let outl := (basins e.topo.n G e.mask e.isBase).outlets
    let outers := (G.dfs.filter (fun x => (!e.mask x && recv0 G x == x) && e.isBase x))
    -- E1: a real edge is a pair of neighbouring unmasked nodes of the two basins
    (∀ ed, ed ∈ cb.edges → ed.p0 ≠ Mst.none →
      ed.p0 < e.topo.n ∧ e.mask ed.p0 = false ∧ ed.p1 < e.topo.n ∧ e.mask ed.p1 = false ∧
      (∃ d, (ed.p1, d) ∈ e.topo.nbrs ed.p0 ∧ ed.pl = d ∧ 0 < d) ∧
      lab ed.p0 = ed.l0 ∧ lab ed.p1 = ed.l1 ∧ ed.pe = max (f ed.p0) (f ed.p1) ∧
      e.isBase (outl.getD ed.l0 0) = false ∧
      (ed.l0 < ed.l1 ∨ e.isBase (outl.getD ed.l1 0) = true) ∧ ed.l0 ≠ ed.l1) ∧
    -- E2: one edge per pair of basins
    (∀ (k1 k2 : Nat) e1 e2, cb.edges[k1]? = some e1 → cb.edges[k2]? = some e2 →
      e1.p0 ≠ Mst.none → e2.p0 ≠ Mst.none → e1.l0 = e2.l0 → e1.l1 = e2.l1 → k1 = k2) ∧
    -- E3: its pass is the lowest of all pairs of neighbouring nodes joining the two basins
    (∀ ed, ed ∈ cb.edges → ed.p0 ≠ Mst.none →
      ∀ i, i < e.topo.n → e.mask i = false → ∀ j d, (j, d) ∈ e.topo.nbrs i → e.mask j = false →
      ((lab i = ed.l0 ∧ lab j = ed.l1) ∨ (lab i = ed.l1 ∧ lab j = ed.l0)) →
      ed.pe ≤ max (f i) (f j)) ∧
    -- E3': and every such pair of basins has an edge
    (∀ i, i < e.topo.n → e.mask i = false → e.isBase (outl.getD (lab i) 0) = false →
      ∀ j d, (j, d) ∈ e.topo.nbrs i → e.mask j = false →
      (lab i < lab j ∨ e.isBase (outl.getD (lab j) 0) = true) →
      ∃ ed, ed ∈ cb.edges ∧ ed.l0 = lab i ∧ ed.l1 = lab j ∧ ed.p0 ≠ Mst.none ∧
        ed.pe ≤ max (f i) (f j)) ∧
    -- E4: the root and the virtual edges
    (cb.root = (match outers with | [] => Mst.none | o :: _ => lab o) ∧
      cb.edges.toList.filter (fun ed => ed.p0 == Mst.none) =
        outers.tail.map (fun o =>
          { l0 := cb.root, l1 := lab o, p0 := Mst.none, p1 := Mst.none, pe := lo, pl := 0 })) :=
  grid_C15_passes pow sq nu lo mx mn e (mesh_envOk M F e he)
    par f hwork

/-- **C15 on a profile grid**: the executed `connect_basins` stores the lowest passes (E1 – E4)
(`grid_C15_passes` on a profile grid: same statement, no topology hypothesis left) -/
theorem profile_C15_passes
    (n : Nat) (hn : 2 ≤ n) (dx : α) (looped : Bool) (hdx : 0 < dx) (hlo : lo ≤ 0)
    (e : Env α) (he : e.topo = profileTopo n dx looped)
    (par : Bool) (f : Nat → α)
    (hwork : work e.topo (singleRouter (SF) e par f).dfs < Mst.none) :
    let G := singleRouter (SF) e par f
    let cb := cbOf (SF) e G f
    let lab := labOf e G
    let outl := (basins e.topo.n G e.mask e.isBase).outlets
    let outers := (G.dfs.filter (fun x => (!e.mask x && recv0 G x == x) && e.isBase x))
    -- E1: a real edge is a pair of neighbouring unmasked nodes of the two basins
    (∀ ed, ed ∈ cb.edges → ed.p0 ≠ Mst.none →
      ed.p0 < e.topo.n ∧ e.mask ed.p0 = false ∧ ed.p1 < e.topo.n ∧ e.mask ed.p1 = false ∧
      (∃ d, (ed.p1, d) ∈ e.topo.nbrs ed.p0 ∧ ed.pl = d ∧ 0 < d) ∧
      lab ed.p0 = ed.l0 ∧ lab ed.p1 = ed.l1 ∧ ed.pe = max (f ed.p0) (f ed.p1) ∧
      e.isBase (outl.getD ed.l0 0) = false ∧
      (ed.l0 < ed.l1 ∨ e.isBase (outl.getD ed.l1 0) = true) ∧ ed.l0 ≠ ed.l1) ∧
    -- E2: one edge per pair of basins
    (∀ (k1 k2 : Nat) e1 e2, cb.edges[k1]? = some e1 → cb.edges[k2]? = some e2 →
      e1.p0 ≠ Mst.none → e2.p0 ≠ Mst.none → e1.l0 = e2.l0 → e1.l1 = e2.l1 → k1 = k2) ∧
    -- E3: its pass is the lowest of all pairs of neighbouring nodes joining the two basins
    (∀ ed, ed ∈ cb.edges → ed.p0 ≠ Mst.none →
      ∀ i, i < e.topo.n → e.mask i = false → ∀ j d, (j, d) ∈ e.topo.nbrs i → e.mask j = false →
      ((lab i = ed.l0 ∧ lab j = ed.l1) ∨ (lab i = ed.l1 ∧ lab j = ed.l0)) →
      ed.pe ≤ max (f i) (f j)) ∧
    -- E3': and every such pair of basins has an edge
    (∀ i, i < e.topo.n → e.mask i = false → e.isBase (outl.getD (lab i) 0) = false →
      ∀ j d, (j, d) ∈ e.topo.nbrs i → e.mask j = false →
      (lab i < lab j ∨ e.isBase (outl.getD (lab j) 0) = true) →
      ∃ ed, ed ∈ cb.edges ∧ ed.l0 = lab i ∧ ed.l1 = lab j ∧ ed.p0 ≠ Mst.none ∧
        ed.pe ≤ max (f i) (f j)) ∧
    -- E4: the root and the virtual edges
    (cb.root = (match outers with | [] => Mst.none | o :: _ => lab o) ∧
      cb.edges.toList.filter (fun ed => ed.p0 == Mst.none) =
        outers.tail.map (fun o =>
          { l0 := cb.root, l1 := lab o, p0 := Mst.none, p1 := Mst.none, pe := lo, pl := 0 })) :=
  grid_C15_passes pow sq nu lo mx mn e (profile_envOk n hn dx looped hdx hlo e he)
    par f hwork

/-- **C15 on a raster**: Kruskal's tree is a minimum spanning forest and a minimax-path tree of the basin graph
(`grid_C15_kruskal` on a raster: same statement, no topology hypothesis left) -/
theorem raster_C15_kruskal
    {g : Raster α} (H : ShapeOk g) (F : FieldOk sq lo g)
    (e : Env α) (he : e.topo = rasterTopo (fieldScalar α pow sq nu lo mx mn) g)
    (par : Bool) (f : Nat → α) (perm : List Nat) (maxLow : Nat)
    (hwork : work e.topo (singleRouter (SF) e par f).dfs < Mst.none)
    (hvp : validPerm (SF) (cbOf (SF) e (singleRouter (SF) e par f) f).edges perm = true) :
    let G := singleRouter (SF) e par f
    let cb := cbOf (SF) e G f
    let nb := (basins e.topo.n G e.mask e.isBase).outlets.length
    let tree := tree0Of (SF) e G f false perm maxLow
    let T := tree.filterMap (toE cb.edges)
    tree = Mst.kruskal nb cb.edges perm ∧ tree = Fs.UF.kruskalUF nb cb.edges perm ∧
    (∀ x, x ∈ bgEdges cb.edges → x.1 < nb ∧ x.2.1 < nb) ∧
    SpanningForest (bgEdges cb.edges) T ∧
    (∀ T', SpanningForest (bgEdges cb.edges) T' → weight T ≤ weight T') ∧
    (∀ u v b, Bottle T u v b ↔ Bottle (bgEdges cb.edges) u v b) :=
  grid_C15_kruskal pow sq nu lo mx mn e (raster_envOk pow nu mx mn H F e he)
    par f perm maxLow hwork hvp

/-- **C15 on a triangular mesh**: Kruskal's tree is a minimum spanning forest and a minimax-path tree of the basin graph
(`grid_C15_kruskal` on a triangular mesh: same statement, no topology hypothesis left) -/
theorem mesh_C15_kruskal
    {n : Nat} {pts : Nat → α × α} {tris : List (Nat × Nat × Nat)}
    (M : MeshOk n tris) (F : MeshFieldOk sq lo pts tris)
    (e : Env α) (he : e.topo = meshTopo sq n pts tris)
    (par : Bool) (f : Nat → α) (perm : List Nat) (maxLow : Nat)
    (hwork : work e.topo (singleRouter (SF) e par f).dfs < Mst.none)
    (hvp : validPerm (SF) (cbOf (SF) e (singleRouter (SF) e par f) f).edges perm = true) :
    let G := singleRouter (SF) e par f
    let cb := cbOf (SF) e G f
    let nb := (basins e.topo.n G e.mask e.isBase).outlets.length
    let tree := tree0Of (SF) e G f false perm maxLow
    let T := tree.filterMap (toE cb.edges)
    tree = Mst.kruskal nb cb.edges perm ∧ tree = Fs.UF.kruskalUF nb cb.edges perm ∧
    (∀ x, x ∈ bgEdges cb.edges → x.1 < nb ∧ x.2.1 < nb) ∧
    SpanningForest (bgEdges cb.edges) T ∧
    (∀ T', SpanningForest (bgEdges cb.edges) T' → weight T ≤ weight T') ∧
    (∀ u v b, Bottle T u v b ↔ Bottle (bgEdges cb.edges) u v b) :=
  grid_C15_kruskal pow sq nu lo mx mn e (mesh_envOk M F e he)
    par f perm maxLow hwork hvp

/-- **C15 on a profile grid**: Kruskal's tree is a minimum spanning forest and a minimax-path tree of the basin graph
(`grid_C15_kruskal` on a profile grid: same statement, no topology hypothesis left) -/
theorem profile_C15_kruskal
    (n : Nat) (hn : 2 ≤ n) (dx : α) (looped : Bool) (hdx : 0 < dx) (hlo : lo ≤ 0)
    (e : Env α) (he : e.topo = profileTopo n dx looped)
    (par : Bool) (f : Nat → α) (perm : List Nat) (maxLow : Nat)
    (hwork : work e.topo (singleRouter (SF) e par f).dfs < Mst.none)
    (hvp : validPerm (SF) (cbOf (SF) e (singleRouter (SF) e par f) f).edges perm = true) :
    let G := singleRouter (SF) e par f
    let cb := cbOf (SF) e G f
    let nb := (basins e.topo.n G e.mask e.isBase).outlets.length
    let tree := tree0Of (SF) e G f false perm maxLow
    let T := tree.filterMap (toE cb.edges)
    tree = Mst.kruskal nb cb.edges perm ∧ tree = Fs.UF.kruskalUF nb cb.edges perm ∧
    (∀ x, x ∈ bgEdges cb.edges → x.1 < nb ∧ x.2.1 < nb) ∧
    SpanningForest (bgEdges cb.edges) T ∧
    (∀ T', SpanningForest (bgEdges cb.edges) T' → weight T ≤ weight T') ∧
    (∀ u v b, Bottle T u v b ↔ Bottle (bgEdges cb.edges) u v b) :=
  grid_C15_kruskal pow sq nu lo mx mn e (profile_envOk n hn dx looped hdx hlo e he)
    par f perm maxLow hwork hvp

/-- **C15 on a raster**: Kruskal's tree keeps every virtual edge
(`grid_C15_kruskal_virtual` on a raster: same statement, no topology hypothesis left) -/
theorem raster_C15_kruskal_virtual
    {g : Raster α} (H : ShapeOk g) (F : FieldOk sq lo g)
    (e : Env α) (he : e.topo = rasterTopo (fieldScalar α pow sq nu lo mx mn) g)
    (par : Bool) (f : Nat → α) (perm : List Nat) (maxLow : Nat)
    (hwork : work e.topo (singleRouter (SF) e par f).dfs < Mst.none)
    (hvp : validPerm (SF) (cbOf (SF) e (singleRouter (SF) e par f) f).edges perm = true)
    (hfin : ∀ i, i < e.topo.n → lo < f i) :
    let G := singleRouter (SF) e par f
    let cb := cbOf (SF) e G f
    ∀ (k : Nat) (ed : BEdge α), cb.edges[k]? = some ed → ed.p0 = Mst.none →
      k ∈ tree0Of (SF) e G f false perm maxLow :=
  grid_C15_kruskal_virtual pow sq nu lo mx mn e (raster_envOk pow nu mx mn H F e he)
    par f perm maxLow hwork hvp hfin

/-- **C15 on a triangular mesh**: Kruskal's tree keeps every virtual edge
(`grid_C15_kruskal_virtual` on a triangular mesh: same statement, no topology hypothesis left) -/
theorem mesh_C15_kruskal_virtual
    {n : Nat} {pts : Nat → α × α} {tris : List (Nat × Nat × Nat)}
    (M : MeshOk n tris) (F : MeshFieldOk sq lo pts tris)
    (e : Env α) (he : e.topo = meshTopo sq n pts tris)
    (par : Bool) (f : Nat → α) (perm : List Nat) (maxLow : Nat)
    (hwork : work e.topo (singleRouter (SF) e par f).dfs < Mst.none)
    (hvp : validPerm (SF) (cbOf (SF) e (singleRouter (SF) e par f) f).edges perm = true)
    (hfin : ∀ i, i < e.topo.n → lo < f i) :
    let G := singleRouter (SF) e par f
    let cb := cbOf (SF) e G f
    ∀ (k : Nat) (ed : BEdge α), cb.edges[k]? = some ed → ed.p0 = Mst.none →
      k ∈ tree0Of (SF) e G f false perm maxLow :=
  grid_C15_kruskal_virtual pow sq nu lo mx mn e (mesh_envOk M F e he)
    par f perm maxLow hwork hvp hfin

/-- **C15 on a profile grid**: Kruskal's tree keeps every virtual edge
(`grid_C15_kruskal_virtual` on a profile grid: same statement, no topology hypothesis left) -/
theorem profile_C15_kruskal_virtual
    (n : Nat) (hn : 2 ≤ n) (dx : α) (looped : Bool) (hdx : 0 < dx) (hlo : lo ≤ 0)
    (e : Env α) (he : e.topo = profileTopo n dx looped)
    (par : Bool) (f : Nat → α) (perm : List Nat) (maxLow : Nat)
    (hwork : work e.topo (singleRouter (SF) e par f).dfs < Mst.none)
    (hvp : validPerm (SF) (cbOf (SF) e (singleRouter (SF) e par f) f).edges perm = true)
    (hfin : ∀ i, i < e.topo.n → lo < f i) :
    let G := singleRouter (SF) e par f
    let cb := cbOf (SF) e G f
    ∀ (k : Nat) (ed : BEdge α), cb.edges[k]? = some ed → ed.p0 = Mst.none →
      k ∈ tree0Of (SF) e G f false perm maxLow :=
  grid_C15_kruskal_virtual pow sq nu lo mx mn e (profile_envOk n hn dx looped hdx hlo e he)
    par f perm maxLow hwork hvp hfin

/-- **C15 on a raster**: Kruskal's tree connects the basins of neighbouring / connected nodes
(`grid_C15_kruskal_connects` on a raster: same statement, no topology hypothesis left) -/
theorem raster_C15_kruskal_connects
    {g : Raster α} (H : ShapeOk g) (F : FieldOk sq lo g)
    (e : Env α) (he : e.topo = rasterTopo (fieldScalar α pow sq nu lo mx mn) g)
    (par : Bool) (f : Nat → α) (perm : List Nat) (maxLow : Nat)
    (hwork : work e.topo (singleRouter (SF) e par f).dfs < Mst.none)
    (hvp : validPerm (SF) (cbOf (SF) e (singleRouter (SF) e par f) f).edges perm = true) :
    let G := singleRouter (SF) e par f
    let cb := cbOf (SF) e G f
    let lab := labOf e G
    let T := (tree0Of (SF) e G f false perm maxLow).filterMap (toE cb.edges)
    (∀ u v d, u < e.topo.n → e.mask u = false → (v, d) ∈ e.topo.nbrs u → e.mask v = false →
      Conn T (lab u) (lab v)) ∧
    (∀ y z, y < e.topo.n → e.mask y = false → NConn e.topo e.mask y z → Conn T (lab y) (lab z)) :=
  grid_C15_kruskal_connects pow sq nu lo mx mn e (raster_envOk pow nu mx mn H F e he)
    par f perm maxLow hwork hvp

/-- **C15 on a triangular mesh**: Kruskal's tree connects the basins of neighbouring / connected nodes
(`grid_C15_kruskal_connects` on a triangular mesh: same statement, no topology hypothesis left) -/
theorem mesh_C15_kruskal_connects
    {n : Nat} {pts : Nat → α × α} {tris : List (Nat × Nat × Nat)}
    (M : MeshOk n tris) (F : MeshFieldOk sq lo pts tris)
    (e : Env α) (he : e.topo = meshTopo sq n pts tris)
    (par : Bool) (f : Nat → α) (perm : List Nat) (maxLow : Nat)
    (hwork : work e.topo (singleRouter (SF) e par f).dfs < Mst.none)
    (hvp : validPerm (SF) (cbOf (SF) e (singleRouter (SF) e par f) f).edges perm = true) :
    let G := singleRouter (SF) e par f
    let cb := cbOf (SF) e G f
    let lab := labOf e G
    let T := (tree0Of (SF) e G f false perm maxLow).filterMap (toE cb.edges)
    (∀ u v d, u < e.topo.n → e.mask u = false → (v, d) ∈ e.topo.nbrs u → e.mask v = false →
      Conn T (lab u) (lab v)) ∧
    (∀ y z, y < e.topo.n → e.mask y = false → NConn e.topo e.mask y z → Conn T (lab y) (lab z)) :=
  grid_C15_kruskal_connects pow sq nu lo mx mn e (mesh_envOk M F e he)
    par f perm maxLow hwork hvp

/-- **C15 on a profile grid**: Kruskal's tree connects the basins of neighbouring / connected nodes
(`grid_C15_kruskal_connects` on a profile grid: same statement, no topology hypothesis left) -/
theorem profile_C15_kruskal_connects
    (n : Nat) (hn : 2 ≤ n) (dx : α) (looped : Bool) (hdx : 0 < dx) (hlo : lo ≤ 0)
    (e : Env α) (he : e.topo = profileTopo n dx looped)
    (par : Bool) (f : Nat → α) (perm : List Nat) (maxLow : Nat)
    (hwork : work e.topo (singleRouter (SF) e par f).dfs < Mst.none)
    (hvp : validPerm (SF) (cbOf (SF) e (singleRouter (SF) e par f) f).edges perm = true) :
    let G := singleRouter (SF) e par f
    let cb := cbOf (SF) e G f
    let lab := labOf e G
    let T := (tree0Of (SF) e G f false perm maxLow).filterMap (toE cb.edges)
    (∀ u v d, u < e.topo.n → e.mask u = false → (v, d) ∈ e.topo.nbrs u → e.mask v = false →
      Conn T (lab u) (lab v)) ∧
    (∀ y z, y < e.topo.n → e.mask y = false → NConn e.topo e.mask y z → Conn T (lab y) (lab z)) :=
  grid_C15_kruskal_connects pow sq nu lo mx mn e (profile_envOk n hn dx looped hdx hlo e he)
    par f perm maxLow hwork hvp

/-- **C15 on a raster**: the root basin is a basin
(`grid_C15_root_lt` on a raster: same statement, no topology hypothesis left) -/
theorem raster_C15_root_lt
    {g : Raster α} (H : ShapeOk g) (F : FieldOk sq lo g)
    (e : Env α) (he : e.topo = rasterTopo (fieldScalar α pow sq nu lo mx mn) g)
    (par : Bool) (f : Nat → α)
    (hwork : work e.topo (singleRouter (SF) e par f).dfs < Mst.none)
    (b : Nat) (hb : b < e.topo.n) (hmb : e.mask b = false) (hbb : e.isBase b = true) :
    let G := singleRouter (SF) e par f
    (cbOf (SF) e G f).root < (basins e.topo.n G e.mask e.isBase).outlets.length :=
  grid_C15_root_lt pow sq nu lo mx mn e (raster_envOk pow nu mx mn H F e he)
    par f hwork b hb hmb hbb

/-- **C15 on a triangular mesh**: the root basin is a basin
(`grid_C15_root_lt` on a triangular mesh: same statement, no topology hypothesis left) -/
theorem mesh_C15_root_lt
    {n : Nat} {pts : Nat → α × α} {tris : List (Nat × Nat × Nat)}
    (M : MeshOk n tris) (F : MeshFieldOk sq lo pts tris)
    (e : Env α) (he : e.topo = meshTopo sq n pts tris)
    (par : Bool) (f : Nat → α)
    (hwork : work e.topo (singleRouter (SF) e par f).dfs < Mst.none)
    (b : Nat) (hb : b < e.topo.n) (hmb : e.mask b = false) (hbb : e.isBase b = true) :
    let G := singleRouter (SF) e par f
    (cbOf (SF) e G f).root < (basins e.topo.n G e.mask e.isBase).outlets.length :=
  grid_C15_root_lt pow sq nu lo mx mn e (mesh_envOk M F e he)
    par f hwork b hb hmb hbb

/-- **C15 on a profile grid**: the root basin is a basin
(`grid_C15_root_lt` on a profile grid: same statement, no topology hypothesis left) -/
theorem profile_C15_root_lt
    (n : Nat) (hn : 2 ≤ n) (dx : α) (looped : Bool) (hdx : 0 < dx) (hlo : lo ≤ 0)
    (e : Env α) (he : e.topo = profileTopo n dx looped)
    (par : Bool) (f : Nat → α)
    (hwork : work e.topo (singleRouter (SF) e par f).dfs < Mst.none)
    (b : Nat) (hb : b < e.topo.n) (hmb : e.mask b = false) (hbb : e.isBase b = true) :
    let G := singleRouter (SF) e par f
    (cbOf (SF) e G f).root < (basins e.topo.n G e.mask e.isBase).outlets.length :=
  grid_C15_root_lt pow sq nu lo mx mn e (profile_envOk n hn dx looped hdx hlo e he)
    par f hwork b hb hmb hbb

/-- **C15 on a raster**: `orient` turns Kruskal's tree into a rooted tree
(`grid_C15_orient` on a raster: same statement, no topology hypothesis left) -/
theorem raster_C15_orient
    {g : Raster α} (H : ShapeOk g) (F : FieldOk sq lo g)
    (e : Env α) (he : e.topo = rasterTopo (fieldScalar α pow sq nu lo mx mn) g)
    (par : Bool) (f : Nat → α) (perm : List Nat) (maxLow : Nat)
    (hwork : work e.topo (singleRouter (SF) e par f).dfs < Mst.none) :
    let G := singleRouter (SF) e par f
    let cb := cbOf (SF) e G f
    let nb := (basins e.topo.n G e.mask e.isBase).outlets.length
    let tree0 := tree0Of (SF) e G f false perm maxLow
    let bg := bgOf (SF) e G f false perm maxLow
    bg.root = cb.root ∧
    bg.tree.Nodup ∧ (∀ i, i ∈ bg.tree → i ∈ tree0) ∧
    (∀ i, bg.edges[i]? = cb.edges[i]? ∨
      (i ∈ bg.tree ∧ ∃ e0, cb.edges[i]? = some e0 ∧ bg.edges[i]? = some (flipE e0))) ∧
    (∀ i, i ∈ bg.tree → ∃ e', bg.edges[i]? = some e') ∧
    (∀ i j, i ∈ bg.tree → j ∈ bg.tree → ∀ ei ej, bg.edges[i]? = some ei → bg.edges[j]? = some ej →
      ei.l1 = ej.l1 → i = j) ∧
    (∀ i, i ∈ bg.tree → ∀ e', bg.edges[i]? = some e' → e'.l1 ≠ bg.root) ∧
    (∃ d : Nat → Nat, ∀ i, i ∈ bg.tree → ∀ e', bg.edges[i]? = some e' → d e'.l1 = d e'.l0 + 1) ∧
    (∀ i, i ∈ bg.tree → ∀ e', bg.edges[i]? = some e' →
      e'.l0 = bg.root ∨ ∃ j, j ∈ bg.tree ∧ ∃ ej, bg.edges[j]? = some ej ∧ ej.l1 = e'.l0) ∧
    (cb.root < nb → ∀ v, ReachedB bg.edges bg.tree bg.root v ↔
      Conn (tree0.filterMap (toE cb.edges)) cb.root v) :=
  grid_C15_orient pow sq nu lo mx mn e (raster_envOk pow nu mx mn H F e he)
    par f perm maxLow hwork

/-- **C15 on a triangular mesh**: `orient` turns Kruskal's tree into a rooted tree
(`grid_C15_orient` on a triangular mesh: same statement, no topology hypothesis left) -/
theorem mesh_C15_orient
    {n : Nat} {pts : Nat → α × α} {tris : List (Nat × Nat × Nat)}
    (M : MeshOk n tris) (F : MeshFieldOk sq lo pts tris)
    (e : Env α) (he : e.topo = meshTopo sq n pts tris)
    (par : Bool) (f : Nat → α) (perm : List Nat) (maxLow : Nat)
    (hwork : work e.topo (singleRouter (SF) e par f).dfs < Mst.none) :
    let G := singleRouter (SF) e par f
    let cb := cbOf (SF) e G f
    let nb := (basins e.topo.n G e.mask e.isBase).outlets.length
    let tree0 := tree0Of (SF) e G f false perm maxLow
    let bg := bgOf (SF) e G f false perm maxLow
    bg.root = cb.root ∧
    bg.tree.Nodup ∧ (∀ i, i ∈ bg.tree → i ∈ tree0) ∧
    (∀ i, bg.edges[i]? = cb.edges[i]? ∨
      (i ∈ bg.tree ∧ ∃ e0, cb.edges[i]? = some e0 ∧ bg.edges[i]? = some (flipE e0))) ∧
    (∀ i, i ∈ bg.tree → ∃ e', bg.edges[i]? = some e') ∧
    (∀ i j, i ∈ bg.tree → j ∈ bg.tree → ∀ ei ej, bg.edges[i]? = some ei → bg.edges[j]? = some ej →
      ei.l1 = ej.l1 → i = j) ∧
    (∀ i, i ∈ bg.tree → ∀ e', bg.edges[i]? = some e' → e'.l1 ≠ bg.root) ∧
    (∃ d : Nat → Nat, ∀ i, i ∈ bg.tree → ∀ e', bg.edges[i]? = some e' → d e'.l1 = d e'.l0 + 1) ∧
    (∀ i, i ∈ bg.tree → ∀ e', bg.edges[i]? = some e' →
      e'.l0 = bg.root ∨ ∃ j, j ∈ bg.tree ∧ ∃ ej, bg.edges[j]? = some ej ∧ ej.l1 = e'.l0) ∧
    (cb.root < nb → ∀ v, ReachedB bg.edges bg.tree bg.root v ↔
      Conn (tree0.filterMap (toE cb.edges)) cb.root v) :=
  grid_C15_orient pow sq nu lo mx mn e (mesh_envOk M F e he)
    par f perm maxLow hwork

/-- **C15 on a profile grid**: `orient` turns Kruskal's tree into a rooted tree
(`grid_C15_orient` on a profile grid: same statement, no topology hypothesis left) -/
theorem profile_C15_orient
    (n : Nat) (hn : 2 ≤ n) (dx : α) (looped : Bool) (hdx : 0 < dx) (hlo : lo ≤ 0)
    (e : Env α) (he : e.topo = profileTopo n dx looped)
    (par : Bool) (f : Nat → α) (perm : List Nat) (maxLow : Nat)
    (hwork : work e.topo (singleRouter (SF) e par f).dfs < Mst.none) :
    let G := singleRouter (SF) e par f
    let cb := cbOf (SF) e G f
    let nb := (basins e.topo.n G e.mask e.isBase).outlets.length
    let tree0 := tree0Of (SF) e G f false perm maxLow
    let bg := bgOf (SF) e G f false perm maxLow
    bg.root = cb.root ∧
    bg.tree.Nodup ∧ (∀ i, i ∈ bg.tree → i ∈ tree0) ∧
    (∀ i, bg.edges[i]? = cb.edges[i]? ∨
      (i ∈ bg.tree ∧ ∃ e0, cb.edges[i]? = some e0 ∧ bg.edges[i]? = some (flipE e0))) ∧
    (∀ i, i ∈ bg.tree → ∃ e', bg.edges[i]? = some e') ∧
    (∀ i j, i ∈ bg.tree → j ∈ bg.tree → ∀ ei ej, bg.edges[i]? = some ei → bg.edges[j]? = some ej →
      ei.l1 = ej.l1 → i = j) ∧
    (∀ i, i ∈ bg.tree → ∀ e', bg.edges[i]? = some e' → e'.l1 ≠ bg.root) ∧
    (∃ d : Nat → Nat, ∀ i, i ∈ bg.tree → ∀ e', bg.edges[i]? = some e' → d e'.l1 = d e'.l0 + 1) ∧
    (∀ i, i ∈ bg.tree → ∀ e', bg.edges[i]? = some e' →
      e'.l0 = bg.root ∨ ∃ j, j ∈ bg.tree ∧ ∃ ej, bg.edges[j]? = some ej ∧ ej.l1 = e'.l0) ∧
    (cb.root < nb → ∀ v, ReachedB bg.edges bg.tree bg.root v ↔
      Conn (tree0.filterMap (toE cb.edges)) cb.root v) :=
  grid_C15_orient pow sq nu lo mx mn e (profile_envOk n hn dx looped hdx hlo e he)
    par f perm maxLow hwork

/-- **C15 on a raster**: the oriented basin tree satisfies `TreeHyp` / `RootHyp`
(`grid_C15_orient_tree` on a raster: same statement, no topology hypothesis left) -/
theorem raster_C15_orient_tree
    {g : Raster α} (H : ShapeOk g) (F : FieldOk sq lo g)
    (e : Env α) (he : e.topo = rasterTopo (fieldScalar α pow sq nu lo mx mn) g)
    (par : Bool) (f : Nat → α) (perm : List Nat) (maxLow : Nat)
    (hwork : work e.topo (singleRouter (SF) e par f).dfs < Mst.none)
    (hvp : validPerm (SF) (cbOf (SF) e (singleRouter (SF) e par f) f).edges perm = true)
    (hfin : ∀ i, i < e.topo.n → lo < f i) :
    let G := singleRouter (SF) e par f
    let bg := bgOf (SF) e G f false perm maxLow
    TreeHyp e.topo.n e.mask (labOf e G) bg.edges bg.tree ∧
    (∀ idx, idx ∈ bg.tree → ∀ ed, bg.edges[idx]? = some ed → ed.p0 ≠ Mst.none →
      e.isBase ((outlOf e G).getD ed.l1 0) = false) ∧
    RootHyp e.isBase (outlOf e G) bg.edges bg.tree bg.root :=
  grid_C15_orient_tree pow sq nu lo mx mn e (raster_envOk pow nu mx mn H F e he)
    par f perm maxLow hwork hvp hfin

/-- **C15 on a triangular mesh**: the oriented basin tree satisfies `TreeHyp` / `RootHyp`
(`grid_C15_orient_tree` on a triangular mesh: same statement, no topology hypothesis left) -/
theorem mesh_C15_orient_tree
    {n : Nat} {pts : Nat → α × α} {tris : List (Nat × Nat × Nat)}
    (M : MeshOk n tris) (F : MeshFieldOk sq lo pts tris)
    (e : Env α) (he : e.topo = meshTopo sq n pts tris)
    (par : Bool) (f : Nat → α) (perm : List Nat) (maxLow : Nat)
    (hwork : work e.topo (singleRouter (SF) e par f).dfs < Mst.none)
    (hvp : validPerm (SF) (cbOf (SF) e (singleRouter (SF) e par f) f).edges perm = true)
    (hfin : ∀ i, i < e.topo.n → lo < f i) :
    let G := singleRouter (SF) e par f
    let bg := bgOf (SF) e G f false perm maxLow
    TreeHyp e.topo.n e.mask (labOf e G) bg.edges bg.tree ∧
    (∀ idx, idx ∈ bg.tree → ∀ ed, bg.edges[idx]? = some ed → ed.p0 ≠ Mst.none →
      e.isBase ((outlOf e G).getD ed.l1 0) = false) ∧
    RootHyp e.isBase (outlOf e G) bg.edges bg.tree bg.root :=
  grid_C15_orient_tree pow sq nu lo mx mn e (mesh_envOk M F e he)
    par f perm maxLow hwork hvp hfin

/-- **C15 on a profile grid**: the oriented basin tree satisfies `TreeHyp` / `RootHyp`
(`grid_C15_orient_tree` on a profile grid: same statement, no topology hypothesis left) -/
theorem profile_C15_orient_tree
    (n : Nat) (hn : 2 ≤ n) (dx : α) (looped : Bool) (hdx : 0 < dx) (hlo : lo ≤ 0)
    (e : Env α) (he : e.topo = profileTopo n dx looped)
    (par : Bool) (f : Nat → α) (perm : List Nat) (maxLow : Nat)
    (hwork : work e.topo (singleRouter (SF) e par f).dfs < Mst.none)
    (hvp : validPerm (SF) (cbOf (SF) e (singleRouter (SF) e par f) f).edges perm = true)
    (hfin : ∀ i, i < e.topo.n → lo < f i) :
    let G := singleRouter (SF) e par f
    let bg := bgOf (SF) e G f false perm maxLow
    TreeHyp e.topo.n e.mask (labOf e G) bg.edges bg.tree ∧
    (∀ idx, idx ∈ bg.tree → ∀ ed, bg.edges[idx]? = some ed → ed.p0 ≠ Mst.none →
      e.isBase ((outlOf e G).getD ed.l1 0) = false) ∧
    RootHyp e.isBase (outlOf e G) bg.edges bg.tree bg.root :=
  grid_C15_orient_tree pow sq nu lo mx mn e (profile_envOk n hn dx looped hdx hlo e he)
    par f perm maxLow hwork hvp hfin

/-- **C15 on a raster**: basins connected to a base level are reached
(`grid_C15_reached` on a raster: same statement, no topology hypothesis left) -/
theorem raster_C15_reached
    {g : Raster α} (H : ShapeOk g) (F : FieldOk sq lo g)
    (e : Env α) (he : e.topo = rasterTopo (fieldScalar α pow sq nu lo mx mn) g)
    (par : Bool) (f : Nat → α) (perm : List Nat) (maxLow : Nat)
    (hwork : work e.topo (singleRouter (SF) e par f).dfs < Mst.none)
    (hvp : validPerm (SF) (cbOf (SF) e (singleRouter (SF) e par f) f).edges perm = true) :
    let G := singleRouter (SF) e par f
    let bg := bgOf (SF) e G f false perm maxLow
    ∀ y b, y < e.topo.n → e.mask y = false → b < e.topo.n → e.mask b = false → e.isBase b = true →
      NConn e.topo e.mask y b → ReachedB bg.edges bg.tree bg.root (labOf e G y) :=
  grid_C15_reached pow sq nu lo mx mn e (raster_envOk pow nu mx mn H F e he)
    par f perm maxLow hwork hvp

/-- **C15 on a triangular mesh**: basins connected to a base level are reached
(`grid_C15_reached` on a triangular mesh: same statement, no topology hypothesis left) -/
theorem mesh_C15_reached
    {n : Nat} {pts : Nat → α × α} {tris : List (Nat × Nat × Nat)}
    (M : MeshOk n tris) (F : MeshFieldOk sq lo pts tris)
    (e : Env α) (he : e.topo = meshTopo sq n pts tris)
    (par : Bool) (f : Nat → α) (perm : List Nat) (maxLow : Nat)
    (hwork : work e.topo (singleRouter (SF) e par f).dfs < Mst.none)
    (hvp : validPerm (SF) (cbOf (SF) e (singleRouter (SF) e par f) f).edges perm = true) :
    let G := singleRouter (SF) e par f
    let bg := bgOf (SF) e G f false perm maxLow
    ∀ y b, y < e.topo.n → e.mask y = false → b < e.topo.n → e.mask b = false → e.isBase b = true →
      NConn e.topo e.mask y b → ReachedB bg.edges bg.tree bg.root (labOf e G y) :=
  grid_C15_reached pow sq nu lo mx mn e (mesh_envOk M F e he)
    par f perm maxLow hwork hvp

/-- **C15 on a profile grid**: basins connected to a base level are reached
(`grid_C15_reached` on a profile grid: same statement, no topology hypothesis left) -/
theorem profile_C15_reached
    (n : Nat) (hn : 2 ≤ n) (dx : α) (looped : Bool) (hdx : 0 < dx) (hlo : lo ≤ 0)
    (e : Env α) (he : e.topo = profileTopo n dx looped)
    (par : Bool) (f : Nat → α) (perm : List Nat) (maxLow : Nat)
    (hwork : work e.topo (singleRouter (SF) e par f).dfs < Mst.none)
    (hvp : validPerm (SF) (cbOf (SF) e (singleRouter (SF) e par f) f).edges perm = true) :
    let G := singleRouter (SF) e par f
    let bg := bgOf (SF) e G f false perm maxLow
    ∀ y b, y < e.topo.n → e.mask y = false → b < e.topo.n → e.mask b = false → e.isBase b = true →
      NConn e.topo e.mask y b → ReachedB bg.edges bg.tree bg.root (labOf e G y) :=
  grid_C15_reached pow sq nu lo mx mn e (profile_envOk n hn dx looped hdx hlo e he)
    par f perm maxLow hwork hvp

end c15

/-! ## non-vacuity: the instances of `Closed.lean` / `ClosedMesh.lean` over `ℚ`

ALL hypotheses of the closed C15 corollaries hold on the 3 × 3 queen raster `exEnv` (one pit,
one base level: 2 basins, 1 lowest-pass edge), on the fan mesh `fanEnv` (the hub a pit, the five rim
nodes base levels: 6 basins, 5 lowest-pass edges and 4 virtual edges, Kruskal keeps the 4 virtual
edges and the lowest pass) and on the profile `prEnv` (one pit, one base level). -/

section example_c15
open Fs.Mst Fs.C01Mst Fs.C15Connect Fs.C15 Fs.Kruskal

/-! ### raster -/

example :=
  raster_C15_passes (fun x _ => x) (fun x => x) (fun x => x + 1) (-1000) 1000 (1/1000)
    exShape exField exEnv rfl false exZ exWork

example :=
  raster_C15_kruskal (fun x _ => x) (fun x => x) (fun x => x + 1) (-1000) 1000 (1/1000)
    exShape exField exEnv rfl false exZ [0] 0 exWork exValid

example :=
  raster_C15_kruskal_virtual (fun x _ => x) (fun x => x) (fun x => x + 1) (-1000) 1000 (1/1000)
    exShape exField exEnv rfl false exZ [0] 0 exWork exValid exFin

example :=
  raster_C15_kruskal_connects (fun x _ => x) (fun x => x) (fun x => x + 1) (-1000) 1000 (1/1000)
    exShape exField exEnv rfl false exZ [0] 0 exWork exValid

example :=
  raster_C15_root_lt (fun x _ => x) (fun x => x) (fun x => x + 1) (-1000) 1000 (1/1000)
    exShape exField exEnv rfl false exZ exWork 0 (by decide) rfl (by decide)

example :=
  raster_C15_orient (fun x _ => x) (fun x => x) (fun x => x + 1) (-1000) 1000 (1/1000)
    exShape exField exEnv rfl false exZ [0] 0 exWork

example :=
  raster_C15_orient_tree (fun x _ => x) (fun x => x) (fun x => x + 1) (-1000) 1000 (1/1000)
    exShape exField exEnv rfl false exZ [0] 0 exWork exValid exFin

example :=
  raster_C15_reached (fun x _ => x) (fun x => x) (fun x => x + 1) (-1000) 1000 (1/1000)
    exShape exField exEnv rfl false exZ [0] 0 exWork exValid

/-- what the model computes on the raster: basin labels, the one stored pass `1 → 0` over the nodes
`(8, 4)` at elevation `5 = max (f 8) (f 4)`, root basin `0`, Kruskal's tree `[0]`, and the oriented
edge `0 → 1` over `(4, 8)` -/
example :
    (List.range 9).map (labOf exEnv (singleRouter exSF exEnv false exZ)) = [0, 0, 0, 0, 0, 1, 0, 1, 1] ∧
    (cbOf exSF exEnv (singleRouter exSF exEnv false exZ) exZ).edges.toList.map
      (fun e => (e.l0, e.l1, e.p0, e.p1, e.pe, e.pl)) = [(1, 0, 8, 4, 5, 2)] ∧
    (cbOf exSF exEnv (singleRouter exSF exEnv false exZ) exZ).root = 0 ∧
    tree0Of exSF exEnv (singleRouter exSF exEnv false exZ) exZ false [0] 0 = [0] ∧
    (bgOf exSF exEnv (singleRouter exSF exEnv false exZ) exZ false [0] 0).edges.toList.map
      (fun e => (e.l0, e.l1, e.p0, e.p1, e.pe, e.pl)) = [(0, 1, 4, 8, 5, 2)] ∧
    (bgOf exSF exEnv (singleRouter exSF exEnv false exZ) exZ false [0] 0).tree = [0] := by
  refine ⟨?_, ?_, ?_, ?_, ?_, ?_⟩ <;> decide +kernel

/-! ### triangular mesh -/

example :=
  mesh_C15_passes (fun x _ => x) (fun x => x) (fun x => x + 1) (-1000) 1000 (1/1000)
    fanOk fanField fanEnv rfl false fanZ fanWork

example :=
  mesh_C15_kruskal (fun x _ => x) (fun x => x) (fun x => x + 1) (-1000) 1000 (1/1000)
    fanOk fanField fanEnv rfl false fanZ fanPerm 0 fanWork fanValid

example :=
  mesh_C15_kruskal_virtual (fun x _ => x) (fun x => x) (fun x => x + 1) (-1000) 1000 (1/1000)
    fanOk fanField fanEnv rfl false fanZ fanPerm 0 fanWork fanValid fanFin

example :=
  mesh_C15_kruskal_connects (fun x _ => x) (fun x => x) (fun x => x + 1) (-1000) 1000 (1/1000)
    fanOk fanField fanEnv rfl false fanZ fanPerm 0 fanWork fanValid

example :=
  mesh_C15_root_lt (fun x _ => x) (fun x => x) (fun x => x + 1) (-1000) 1000 (1/1000)
    fanOk fanField fanEnv rfl false fanZ fanWork 1 (by decide) rfl (by decide)

example :=
  mesh_C15_orient (fun x _ => x) (fun x => x) (fun x => x + 1) (-1000) 1000 (1/1000)
    fanOk fanField fanEnv rfl false fanZ fanPerm 0 fanWork

example :=
  mesh_C15_orient_tree (fun x _ => x) (fun x => x) (fun x => x + 1) (-1000) 1000 (1/1000)
    fanOk fanField fanEnv rfl false fanZ fanPerm 0 fanWork fanValid fanFin

example :=
  mesh_C15_reached (fun x _ => x) (fun x => x) (fun x => x + 1) (-1000) 1000 (1/1000)
    fanOk fanField fanEnv rfl false fanZ fanPerm 0 fanWork fanValid

/-- what the model computes on the fan: every node its own basin; five lowest passes hub → rim at
the rim elevations `3 … 7` (the hub basin `0` is the only inner one) and four virtual edges from the
root basin `1` at `lo = -1000`; Kruskal's tree keeps the four virtual edges and the lowest pass
(index `0`, elevation `3`); `orient` flips that pass to `1 → 0` -/
example :
    (List.range 6).map (labOf fanEnv (singleRouter exSF fanEnv false fanZ)) = [0, 1, 2, 3, 4, 5] ∧
    (cbOf exSF fanEnv (singleRouter exSF fanEnv false fanZ) fanZ).edges.toList.map
      (fun e => (e.l0, e.l1, e.p0, e.p1, e.pe, e.pl)) =
      [(0, 1, 0, 1, 3, 4), (0, 2, 0, 2, 4, 5), (0, 3, 0, 3, 5, 5), (0, 4, 0, 4, 6, 5),
       (0, 5, 0, 5, 7, 5), (1, 2, Mst.none, Mst.none, -1000, 0), (1, 3, Mst.none, Mst.none, -1000, 0),
       (1, 4, Mst.none, Mst.none, -1000, 0), (1, 5, Mst.none, Mst.none, -1000, 0)] ∧
    (cbOf exSF fanEnv (singleRouter exSF fanEnv false fanZ) fanZ).root = 1 ∧
    tree0Of exSF fanEnv (singleRouter exSF fanEnv false fanZ) fanZ false fanPerm 0 = [5, 6, 7, 8, 0] ∧
    (bgOf exSF fanEnv (singleRouter exSF fanEnv false fanZ) fanZ false fanPerm 0).edges[0]?.map
      (fun e => (e.l0, e.l1, e.p0, e.p1, e.pe, e.pl)) = some (1, 0, 1, 0, 3, 4) ∧
    (bgOf exSF fanEnv (singleRouter exSF fanEnv false fanZ) fanZ false fanPerm 0).tree =
      [5, 6, 7, 8, 0] := by
  refine ⟨?_, ?_, ?_, ?_, ?_, ?_⟩ <;> decide +kernel

/-- the minimum total weight on the fan is `4 · (-1000) + 3`; e.g. the spanning forest that uses the
pass of elevation `4` (index `1`) instead of the lowest one weighs one more -/
example :
    weight ((tree0Of exSF fanEnv (singleRouter exSF fanEnv false fanZ) fanZ false fanPerm 0).filterMap
      (toE (cbOf exSF fanEnv (singleRouter exSF fanEnv false fanZ) fanZ).edges)) = -3997 ∧
    weight (([5, 6, 7, 8, 1] : List Nat).filterMap
      (toE (cbOf exSF fanEnv (singleRouter exSF fanEnv false fanZ) fanZ).edges)) = -3996 := by
  decide +kernel

/-! ### profile -/

example :=
  profile_C15_passes (fun x _ => x) (fun x => x) (fun x => x + 1) (-1000) 1000 (1/1000)
    4 (by decide) (1/2) false prDx prLo prEnv rfl false prZ prWork

example :=
  profile_C15_kruskal (fun x _ => x) (fun x => x) (fun x => x + 1) (-1000) 1000 (1/1000)
    4 (by decide) (1/2) false prDx prLo prEnv rfl false prZ [0] 0 prWork prValid

example :=
  profile_C15_kruskal_virtual (fun x _ => x) (fun x => x) (fun x => x + 1) (-1000) 1000 (1/1000)
    4 (by decide) (1/2) false prDx prLo prEnv rfl false prZ [0] 0 prWork prValid prFin

example :=
  profile_C15_kruskal_connects (fun x _ => x) (fun x => x) (fun x => x + 1) (-1000) 1000 (1/1000)
    4 (by decide) (1/2) false prDx prLo prEnv rfl false prZ [0] 0 prWork prValid

example :=
  profile_C15_root_lt (fun x _ => x) (fun x => x) (fun x => x + 1) (-1000) 1000 (1/1000)
    4 (by decide) (1/2) false prDx prLo prEnv rfl false prZ prWork 0 (by decide) rfl (by decide)

example :=
  profile_C15_orient (fun x _ => x) (fun x => x) (fun x => x + 1) (-1000) 1000 (1/1000)
    4 (by decide) (1/2) false prDx prLo prEnv rfl false prZ [0] 0 prWork

example :=
  profile_C15_orient_tree (fun x _ => x) (fun x => x) (fun x => x + 1) (-1000) 1000 (1/1000)
    4 (by decide) (1/2) false prDx prLo prEnv rfl false prZ [0] 0 prWork prValid prFin

example :=
  profile_C15_reached (fun x _ => x) (fun x => x) (fun x => x + 1) (-1000) 1000 (1/1000)
    4 (by decide) (1/2) false prDx prLo prEnv rfl false prZ [0] 0 prWork prValid

/-- what the model computes on the profile: basins `{0, 1}` and `{2, 3}`, the stored pass `1 → 0`
over the nodes `(2, 1)` at elevation `2 = max (f 2) (f 1)`, root basin `0`, tree `[0]`, oriented
`0 → 1` over `(1, 2)` -/
example :
    (List.range 4).map (labOf prEnv (singleRouter exSF prEnv false prZ)) = [0, 0, 1, 1] ∧
    (cbOf exSF prEnv (singleRouter exSF prEnv false prZ) prZ).edges.toList.map
      (fun e => (e.l0, e.l1, e.p0, e.p1, e.pe, e.pl)) = [(1, 0, 2, 1, 2, 1/2)] ∧
    (cbOf exSF prEnv (singleRouter exSF prEnv false prZ) prZ).root = 0 ∧
    tree0Of exSF prEnv (singleRouter exSF prEnv false prZ) prZ false [0] 0 = [0] ∧
    (bgOf exSF prEnv (singleRouter exSF prEnv false prZ) prZ false [0] 0).edges.toList.map
      (fun e => (e.l0, e.l1, e.p0, e.p1, e.pe, e.pl)) = [(0, 1, 1, 2, 2, 1/2)] := by
  refine ⟨?_, ?_, ?_, ?_, ?_⟩ <;> decide +kernel

end example_c15

end Fs.Closed
