import FsModel.Adi
import FsProofs.FieldScalar
import FsProofs.Thomas
import FsProofs.AdiPivots

/-! # C14 — the diffusion step solves the two tridiagonal half-step systems

Theorems about `Fs.Adi.thomas` / `Fs.Adi.solveRow`, the definitions the model driver executes,
instantiated over an arbitrary (ordered) field: the Thomas sweep returns a solution of the
tridiagonal system whenever no pivot vanishes, and for the matrices the eroder builds (K ≥ 0,
dt ≥ 0) every pivot is ≥ 1, so it never fails. -/
namespace Fs.C14
open Fs Fs.Adi

section field
variable {α : Type} [Field α] [LinearOrder α]
variable (pow : α → α → α) (sq nu : α → α) (lo mx mn : α)
local notation "SF" => fieldScalar α pow sq nu lo mx mn

/-- the executed forward sweep is the sweep of `FsProofs.Thomas` -/
theorem fwd_eq (l d u v : Nat → α) (i : Nat) :
    fwd (SF) l d u v i = ((Fs.Thomas.fwd l d u v i).1, (Fs.Thomas.fwd l d u v i).2.1, (Fs.Thomas.fwd l d u v i).2.2) := by
  induction i with
  | zero => simp [fwd, Fs.Thomas.fwd]
  | succ i ih =>
    simp only [fwd, Fs.Thomas.fwd, ih, sf_div, sf_sub, sf_mul]

theorem xback_eq (l d u v : Nat → α) (m k : Nat) :
    xback (SF) l d u v m k = Fs.Thomas.xback l d u v m k := by
  induction k with
  | zero => simp [xback, Fs.Thomas.xback, fwd_eq, Fs.Thomas.y]
  | succ k ih => simp only [xback, Fs.Thomas.xback, ih, fwd_eq, sf_sub, sf_mul, Fs.Thomas.y, Fs.Thomas.gam]

/-- `thomas` succeeds exactly when no pivot vanishes, and then returns the back-substituted values -/
theorem thomas_some (l d u v : Nat → α) (m : Nat) (xs : List α)
    (h : thomas (SF) (m + 1) l d u v = some xs) :
    (∀ j, j ≤ m → Fs.Thomas.bet l d u v j ≠ 0) ∧ xs = (List.range (m + 1)).map (fun i => Fs.Thomas.x l d u v m i) := by
  unfold thomas at h
  simp only [Nat.add_one_ne_zero, if_false] at h
  split at h
  · cases h
  · rename_i hany
    simp only [Option.some.injEq] at h
    constructor
    · intro j hj hz
      apply hany
      rw [List.any_eq_true]
      refine ⟨j, List.mem_range.mpr (by omega), ?_⟩
      rw [fwd_eq]
      simp only [Scalar.beq, sf_lt, sf_zero]
      have : (Fs.Thomas.fwd l d u v j).1 = 0 := hz
      simp [this]
    · rw [← h]
      apply List.map_congr_left
      intro i _
      simp only [Nat.add_sub_cancel, xback_eq, Fs.Thomas.x]

/-- **thomas_solves**: whenever the executed solver returns, its result satisfies every row of the
tridiagonal system (first, interior and last rows) -/
theorem thomas_solves (l d u v : Nat → α) (m : Nat) (xs : List α)
    (h : thomas (SF) (m + 1) l d u v = some xs) :
    let x := fun i => Fs.Thomas.x l d u v m i
    xs = (List.range (m + 1)).map x ∧
    (m = 0 → d 0 * x 0 = v 0) ∧
    (0 < m → d 0 * x 0 + u 0 * x 1 = v 0) ∧
    (∀ i, i + 1 < m → l (i + 1) * x i + d (i + 1) * x (i + 1) + u (i + 1) * x (i + 2) = v (i + 1)) ∧
    (0 < m → l m * x (m - 1) + d m * x m = v m) := by
  obtain ⟨hb, hx⟩ := thomas_some pow sq nu lo mx mn l d u v m xs h
  refine ⟨hx, ?_, ?_, ?_, ?_⟩
  · intro hm; subst hm; exact Fs.Thomas.thomas_single l d u v (hb 0 (Nat.le_refl 0))
  · intro hm; exact Fs.Thomas.thomas_first l d u v m hm hb
  · intro i hi; exact Fs.Thomas.thomas_row l d u v m i hi hb
  · intro hm; exact Fs.Thomas.thomas_last l d u v m hm hb

end field

section ordered
variable {α : Type} [Field α] [LinearOrder α] [IsStrictOrderedRing α]

/-- pivots of a system `lower = -a`, `upper = -c`, `diag = 1 + a + c` with `a, c ≥ 0` -/
theorem bet_eq_pivot (a c : Nat → α) (v : Nat → α) (i : Nat) :
    Fs.Thomas.bet (fun j => -(a j)) (fun j => 1 + a j + c j) (fun j => -(c j)) v i = Fs.AdiPivots.bet a c i := by
  induction i with
  | zero => simp [Fs.Thomas.bet, Fs.Thomas.fwd, Fs.AdiPivots.bet]
  | succ i ih =>
    rw [Fs.Thomas.bet_succ, Fs.Thomas.gam_succ, ih]
    simp [Fs.AdiPivots.bet]

/-- **adi_pivots_pos**: diagonally dominant systems of the ADI form never produce a vanishing pivot -/
theorem adi_pivots_ne_zero (a c : Nat → α) (v : Nat → α) (ha : ∀ i, 0 ≤ a i) (hc : ∀ i, 0 ≤ c i) (i : Nat) :
    Fs.Thomas.bet (fun j => -(a j)) (fun j => 1 + a j + c j) (fun j => -(c j)) v i ≠ 0 := by
  rw [bet_eq_pivot]
  have := Fs.AdiPivots.pivots_ge_one a c ha hc i
  intro h; rw [h] at this; linarith

variable (pow : α → α → α) (sq nu : α → α) (lo mx mn : α)
local notation "SF" => fieldScalar α pow sq nu lo mx mn

/-- the coefficients of row `r` as `solve_adi_row` builds them, in field notation -/
def rowLower (ncols : Nat) (fcol : Factors α) (dt : α) (r c : Nat) : α :=
  if c = 0 ∨ c = ncols - 1 then 0 else -(fcol.f0 r c * dt)
def rowUpper (ncols : Nat) (fcol : Factors α) (dt : α) (r c : Nat) : α :=
  if c = 0 ∨ c = ncols - 1 then 0 else -(fcol.f2 r c * dt)
def rowDiag (ncols : Nat) (fcol : Factors α) (dt : α) (r c : Nat) : α :=
  if c = 0 ∨ c = ncols - 1 then 1 else 1 + 2 * fcol.f1 r c * dt
def rowVec (ncols : Nat) (frow : Factors α) (dt : α) (e : Fld α) (r c : Nat) : α :=
  if c = 0 ∨ c = ncols - 1 then e r c
  else (1 - 2 * frow.f1 r c * dt) * e r c + frow.f0 r c * e (r - 1) c * dt + frow.f2 r c * e (r + 1) c * dt

theorem solveRow_eq (ncols : Nat) (frow fcol : Factors α) (dt : α) (e : Fld α) (r : Nat) :
    solveRow (SF) ncols frow fcol dt e r =
      thomas (SF) ncols (rowLower ncols fcol dt r) (rowDiag ncols fcol dt r) (rowUpper ncols fcol dt r) (rowVec ncols frow dt e r) := by
  have hl : (fun c => if (decide (c = 0) || decide (c = ncols - 1)) = true then (SF).zero
      else (SF).mul ((SF).mul ((SF).sub (SF).zero (SF).one) (fcol.f0 r c)) dt) = rowLower ncols fcol dt r := by
    funext c
    by_cases h : (c = 0 ∨ c = ncols - 1)
    · simp [rowLower, h]
    · simp only [rowLower, h, if_false, sf_sub, sf_zero, sf_one, sf_mul]
      have : (decide (c = 0) || decide (c = ncols - 1)) = false := by simpa using h
      simp only [this, Bool.false_eq_true, if_false]; ring
  have hu : (fun c => if (decide (c = 0) || decide (c = ncols - 1)) = true then (SF).zero
      else (SF).mul ((SF).mul ((SF).sub (SF).zero (SF).one) (fcol.f2 r c)) dt) = rowUpper ncols fcol dt r := by
    funext c
    by_cases h : (c = 0 ∨ c = ncols - 1)
    · simp [rowUpper, h]
    · simp only [rowUpper, h, if_false, sf_sub, sf_zero, sf_one, sf_mul]
      have : (decide (c = 0) || decide (c = ncols - 1)) = false := by simpa using h
      simp only [this, Bool.false_eq_true, if_false]; ring
  have hd : (fun c => if (decide (c = 0) || decide (c = ncols - 1)) = true then (SF).one
      else (SF).add (SF).one ((SF).mul ((SF).mul (two (SF)) (fcol.f1 r c)) dt)) = rowDiag ncols fcol dt r := by
    funext c
    by_cases h : (c = 0 ∨ c = ncols - 1)
    · simp [rowDiag, h]
    · have : (decide (c = 0) || decide (c = ncols - 1)) = false := by simpa using h
      simp only [rowDiag, h, if_false, this, Bool.false_eq_true, sf_add, sf_one, sf_mul, two]
      simp [fieldScalar]
  have hv : (fun c => if (decide (c = 0) || decide (c = ncols - 1)) = true then e r c
      else (SF).add ((SF).add ((SF).mul ((SF).sub (SF).one ((SF).mul ((SF).mul (two (SF)) (frow.f1 r c)) dt)) (e r c))
                      ((SF).mul ((SF).mul (frow.f0 r c) (e (r - 1) c)) dt))
               ((SF).mul ((SF).mul (frow.f2 r c) (e (r + 1) c)) dt)) = rowVec ncols frow dt e r := by
    funext c
    by_cases h : (c = 0 ∨ c = ncols - 1)
    · simp [rowVec, h]
    · have : (decide (c = 0) || decide (c = ncols - 1)) = false := by simpa using h
      simp only [rowVec, h, if_false, this, Bool.false_eq_true, sf_add, sf_sub, sf_one, sf_mul, two]
      simp [fieldScalar]
  unfold solveRow
  simp only [hl, hu, hd, hv]

/-- a row system of the eroder has the diagonally dominant form when the centre factor is the mean
of the two face factors (`2 f1 = f0 + f2`, which `set_factors` guarantees) -/
theorem row_dominant (ncols : Nat) (fcol : Factors α) (dt : α) (r : Nat)
    (hmid : ∀ c, 2 * fcol.f1 r c = fcol.f0 r c + fcol.f2 r c) :
    let a := fun c => if c = 0 ∨ c = ncols - 1 then 0 else fcol.f0 r c * dt
    let cc := fun c => if c = 0 ∨ c = ncols - 1 then 0 else fcol.f2 r c * dt
    rowLower ncols fcol dt r = (fun j => -(a j)) ∧ rowDiag ncols fcol dt r = (fun j => 1 + a j + cc j) ∧
    rowUpper ncols fcol dt r = (fun j => -(cc j)) := by
  intro a cc
  refine ⟨?_, ?_, ?_⟩
  · funext j
    by_cases h : (j = 0 ∨ j = ncols - 1) <;> simp [rowLower, a, h]
  · funext j
    by_cases h : (j = 0 ∨ j = ncols - 1)
    · simp [rowDiag, a, cc, h]
    · simp only [rowDiag, a, cc, h, if_false]
      rw [hmid j]; ring
  · funext j
    by_cases h : (j = 0 ∨ j = ncols - 1) <;> simp [rowUpper, cc, h]

/-- **adi_never_throws**: with non-negative face factors and time step, no pivot of a row system
vanishes, so `solve_adi_row` returns a row -/
theorem solveRow_isSome (ncols : Nat) (hn : 0 < ncols) (frow fcol : Factors α) (dt : α) (e : Fld α) (r : Nat)
    (hdt : 0 ≤ dt) (h0 : ∀ c, 0 ≤ fcol.f0 r c) (h2 : ∀ c, 0 ≤ fcol.f2 r c)
    (hmid : ∀ c, 2 * fcol.f1 r c = fcol.f0 r c + fcol.f2 r c) :
    (solveRow (SF) ncols frow fcol dt e r).isSome = true := by
  rw [solveRow_eq]
  obtain ⟨e1, e2, e3⟩ := row_dominant ncols fcol dt r hmid
  rw [e1, e2, e3]
  unfold thomas
  have hn0 : ncols ≠ 0 := by omega
  simp only [hn0, if_false]
  split
  · rename_i hany
    exfalso
    rw [List.any_eq_true] at hany
    obtain ⟨j, _, hj⟩ := hany
    rw [fwd_eq] at hj
    simp only [Scalar.beq, sf_lt, sf_zero, Bool.and_eq_true, Bool.not_eq_true', decide_eq_false_iff_not, not_lt] at hj
    have hz : Fs.Thomas.bet _ _ _ (rowVec ncols frow dt e r) j = 0 := le_antisymm hj.2 hj.1
    refine adi_pivots_ne_zero _ _ (rowVec ncols frow dt e r) ?_ ?_ j hz
    · intro i
      show 0 ≤ (if i = 0 ∨ i = ncols - 1 then (0 : α) else fcol.f0 r i * dt)
      split
      · exact le_refl _
      · exact mul_nonneg (h0 i) hdt
    · intro i
      show 0 ≤ (if i = 0 ∨ i = ncols - 1 then (0 : α) else fcol.f2 r i * dt)
      split
      · exact le_refl _
      · exact mul_nonneg (h2 i) hdt
  · rfl

/-- **half-step equations**: the row returned for an interior row `r` keeps the two border values
and satisfies, at every interior column, the implicit equation of the half step -
`-(f0 dt) x(c-1) + (1 + 2 f1 dt) x(c) - (f2 dt) x(c+1)` on the implicit direction equals
`(1 - 2 g1 dt) e(r,c) + g0 dt e(r-1,c) + g2 dt e(r+1,c)` on the explicit direction -/
theorem solveRow_equations (m : Nat) (hm : 2 ≤ m) (frow fcol : Factors α) (dt : α) (e : Fld α) (r : Nat) (xs : List α)
    (h : solveRow (SF) (m + 1) frow fcol dt e r = some xs) :
    ∃ x : Nat → α, xs = (List.range (m + 1)).map x ∧ x 0 = e r 0 ∧ x m = e r m ∧
      ∀ c, 0 < c → c < m →
        -(fcol.f0 r c * dt) * x (c - 1) + (1 + 2 * fcol.f1 r c * dt) * x c + -(fcol.f2 r c * dt) * x (c + 1)
          = (1 - 2 * frow.f1 r c * dt) * e r c + frow.f0 r c * e (r - 1) c * dt + frow.f2 r c * e (r + 1) c * dt := by
  rw [solveRow_eq] at h
  obtain ⟨hx, _, hfirst, hmid, hlast⟩ := thomas_solves pow sq nu lo mx mn _ _ _ _ m xs h
  refine ⟨_, hx, ?_, ?_, ?_⟩
  · have := hfirst (by omega)
    simpa [rowDiag, rowUpper, rowVec] using this
  · have := hlast (by omega)
    simpa [rowDiag, rowLower, rowVec] using this
  · intro c hc0 hcm
    obtain ⟨i, rfl⟩ : ∃ i, c = i + 1 := ⟨c - 1, by omega⟩
    have := hmid i (by omega)
    have hne : ¬ (i + 1 = m) := by omega
    simpa [rowLower, rowDiag, rowUpper, rowVec, hne] using this

/-- the factor tables `set_factors` builds have the centre factor equal to the mean of the two face
factors (scalar diffusivity: all three equal; array: face averages) and are non-negative for K ≥ 0 -/
theorem factorsScalar_mid (half k d : α) (r c : Nat) :
    2 * (factorsScalar (SF) half k d).f1 r c = (factorsScalar (SF) half k d).f0 r c + (factorsScalar (SF) half k d).f2 r c := by
  simp only [factorsScalar]; ring

theorem factorsCol_mid (quarter dx : α) (k : Fld α) (r c : Nat) :
    2 * (factorsCol (SF) quarter dx k).f1 r c = (factorsCol (SF) quarter dx k).f0 r c + (factorsCol (SF) quarter dx k).f2 r c := by
  simp only [factorsCol, two, sf_mul, sf_div, sf_add]
  have h2 : ((SF).ofNat 2 : α) = 2 := by simp [fieldScalar]
  rw [h2]
  have : (2 : α) ≠ 0 := two_ne_zero
  field_simp
  ring

theorem factorsRow_mid (quarter dy : α) (k : Fld α) (r c : Nat) :
    2 * (factorsRow (SF) quarter dy k).f1 r c = (factorsRow (SF) quarter dy k).f0 r c + (factorsRow (SF) quarter dy k).f2 r c := by
  simp only [factorsRow, two, sf_mul, sf_div, sf_add]
  have h2 : ((SF).ofNat 2 : α) = 2 := by simp [fieldScalar]
  rw [h2]
  have : (2 : α) ≠ 0 := two_ne_zero
  field_simp
  ring

theorem factorsCol_nonneg (quarter dx : α) (k : Fld α) (hq : 0 ≤ quarter) (hk : ∀ r c, 0 ≤ k r c) (r c : Nat) :
    0 ≤ (factorsCol (SF) quarter dx k).f0 r c ∧ 0 ≤ (factorsCol (SF) quarter dx k).f2 r c := by
  simp only [factorsCol, sf_mul, sf_div, sf_add]
  have hf : 0 ≤ quarter / (dx * dx) := div_nonneg hq (mul_self_nonneg dx)
  exact ⟨mul_nonneg hf (add_nonneg (hk _ _) (hk _ _)), mul_nonneg hf (add_nonneg (hk _ _) (hk _ _))⟩

end ordered
end Fs.C14
