import FsModel.Grid
import FsModel.Iter

/-! # C17 — node status composition and status-filtered node iteration

All theorems are about the EXECUTED definitions of `FsModel/Grid.lean` (`Fs.Grid.paint`,
`rasterOverrides`, `rasterStatus`, `profileOverrides`, `profileStatus`, `sortKeys`, `iterFwd`,
`iterRev`) with the status codes / precedences regenerated from the C++ (`Fs.Gen.ns*`,
`Fs.Gen.prio*`).  Facts about the generated constants are proved by `decide`, so they break if
the constants change.  Core Lean only. -/
namespace Fs.C17
open Fs.Grid Fs.Gen

set_option linter.unusedVariables false

/-! ## 1. precedence -/

/-- fixed value > fixed gradient > looped > core (regenerated `node_status_cmp` table) -/
theorem prio_order :
    prio nsFixedValue > prio nsFixedGradient ∧ prio nsFixedGradient > prio nsLooped ∧
      prio nsLooped > prio nsCore := by decide

/-- the four status codes are pairwise distinct -/
theorem ns_distinct :
    nsCore ≠ nsFixedValue ∧ nsCore ≠ nsFixedGradient ∧ nsCore ≠ nsLooped ∧
      nsFixedValue ≠ nsFixedGradient ∧ nsFixedValue ≠ nsLooped ∧ nsFixedGradient ≠ nsLooped := by
  decide

theorem nsCore_ne_looped : nsCore ≠ nsLooped := by decide

theorem maxNS_spec (a b : Nat) : maxNS a b = if prio a < prio b then b else a := rfl

theorem maxNS_mem (a b : Nat) : maxNS a b = a ∨ maxNS a b = b := by
  unfold maxNS; split <;> simp

theorem prio_maxNS (a b : Nat) : prio (maxNS a b) = max (prio a) (prio b) := by
  unfold maxNS; split <;> omega

/-- `std::max` keeps the first argument on ties -/
theorem maxNS_tie (a b : Nat) (h : prio a = prio b) : maxNS a b = a := by
  unfold maxNS; rw [if_neg (by omega)]

/-- on the four status codes `prio` is injective, hence `maxNS` is THE status of larger precedence -/
theorem prio_inj_on_codes :
    ∀ a ∈ [nsCore, nsFixedValue, nsFixedGradient, nsLooped],
      ∀ b ∈ [nsCore, nsFixedValue, nsFixedGradient, nsLooped], prio a = prio b → a = b := by
  decide

/-- a corner is looped only if both meeting borders are looped or one is looped and the other core -/
theorem maxNS_looped_iff (a b : Nat) :
    maxNS a b = nsLooped ↔ (if prio a < prio b then b else a) = nsLooped := by
  rw [maxNS_spec]

/-! ## 2. the painted base array -/

/-- what a corner holds: one of the two meeting borders, with the larger precedence -/
def CornerOf (x y res : Nat) : Prop := (res = x ∨ res = y) ∧ prio res = max (prio x) (prio y)

theorem cornerOf_maxNS (x y : Nat) : CornerOf x y (maxNS x y) := ⟨maxNS_mem x y, prio_maxNS x y⟩

section paint
variable (rows cols : Nat) (b : Bounds)

theorem paint_inside (hr : 2 ≤ rows) (hc : 2 ≤ cols) (r c : Nat)
    (h1 : 0 < r) (h2 : r < rows - 1) (h3 : 0 < c) (h4 : c < cols - 1) :
    paint rows cols b r c = nsCore := by
  have e1 : r ≠ 0 := by omega
  have e2 : r ≠ rows - 1 := by omega
  have e3 : c ≠ 0 := by omega
  have e4 : c ≠ cols - 1 := by omega
  simp [paint, e1, e2, e3, e4]

theorem paint_left (hr : 2 ≤ rows) (hc : 2 ≤ cols) (r : Nat) (h1 : 0 < r) (h2 : r < rows - 1) :
    paint rows cols b r 0 = b.left := by
  have e1 : r ≠ 0 := by omega
  have e2 : r ≠ rows - 1 := by omega
  have e4 : 0 ≠ cols - 1 := by omega
  simp [paint, e1, e2, e4]

theorem paint_right (hr : 2 ≤ rows) (hc : 2 ≤ cols) (r : Nat) (h1 : 0 < r) (h2 : r < rows - 1) :
    paint rows cols b r (cols - 1) = b.right := by
  have e1 : r ≠ 0 := by omega
  have e2 : r ≠ rows - 1 := by omega
  have e4 : cols - 1 ≠ 0 := by omega
  simp [paint, e1, e2, e4]

theorem paint_top (hr : 2 ≤ rows) (hc : 2 ≤ cols) (c : Nat) (h3 : 0 < c) (h4 : c < cols - 1) :
    paint rows cols b 0 c = b.top := by
  have e1 : 0 ≠ rows - 1 := by omega
  have e3 : c ≠ 0 := by omega
  have e4 : c ≠ cols - 1 := by omega
  simp [paint, e1, e3, e4]

theorem paint_bottom (hr : 2 ≤ rows) (hc : 2 ≤ cols) (c : Nat) (h3 : 0 < c) (h4 : c < cols - 1) :
    paint rows cols b (rows - 1) c = b.bottom := by
  have e1 : rows - 1 ≠ 0 := by omega
  have e3 : c ≠ 0 := by omega
  have e4 : c ≠ cols - 1 := by omega
  simp [paint, e1, e3, e4]

theorem paint_corner_tl (hr : 2 ≤ rows) (hc : 2 ≤ cols) :
    paint rows cols b 0 0 = maxNS b.top b.left := by
  have e1 : 0 ≠ rows - 1 := by omega
  have e2 : 0 ≠ cols - 1 := by omega
  simp [paint, e1, e2]

theorem paint_corner_tr (hr : 2 ≤ rows) (hc : 2 ≤ cols) :
    paint rows cols b 0 (cols - 1) = maxNS b.top b.right := by
  have e1 : 0 ≠ rows - 1 := by omega
  have e2 : cols - 1 ≠ 0 := by omega
  simp [paint, e1, e2]

theorem paint_corner_bl (hr : 2 ≤ rows) (hc : 2 ≤ cols) :
    paint rows cols b (rows - 1) 0 = maxNS b.bottom b.left := by
  have e2 : 0 ≠ cols - 1 := by omega
  simp [paint, e2]

theorem paint_corner_br (hr : 2 ≤ rows) (hc : 2 ≤ cols) :
    paint rows cols b (rows - 1) (cols - 1) = maxNS b.bottom b.right := by
  simp [paint]

/-- **C17, composition of the base array** (before overrides): core inside, the border's status on
non-corner border nodes, and at each corner one of the two meeting borders, the one of larger
precedence (`maxNS`, i.e. `std::max` with `node_status_cmp`). -/
theorem paint_spec (hr : 2 ≤ rows) (hc : 2 ≤ cols) (r c : Nat) (hr' : r < rows) (hc' : c < cols) :
    (0 < r → r < rows - 1 → 0 < c → c < cols - 1 → paint rows cols b r c = nsCore) ∧
    (0 < r → r < rows - 1 → c = 0 → paint rows cols b r c = b.left) ∧
    (0 < r → r < rows - 1 → c = cols - 1 → paint rows cols b r c = b.right) ∧
    (r = 0 → 0 < c → c < cols - 1 → paint rows cols b r c = b.top) ∧
    (r = rows - 1 → 0 < c → c < cols - 1 → paint rows cols b r c = b.bottom) ∧
    (r = 0 → c = 0 → paint rows cols b r c = maxNS b.top b.left ∧
      CornerOf b.top b.left (paint rows cols b r c)) ∧
    (r = 0 → c = cols - 1 → paint rows cols b r c = maxNS b.top b.right ∧
      CornerOf b.top b.right (paint rows cols b r c)) ∧
    (r = rows - 1 → c = 0 → paint rows cols b r c = maxNS b.bottom b.left ∧
      CornerOf b.bottom b.left (paint rows cols b r c)) ∧
    (r = rows - 1 → c = cols - 1 → paint rows cols b r c = maxNS b.bottom b.right ∧
      CornerOf b.bottom b.right (paint rows cols b r c)) := by
  refine ⟨paint_inside rows cols b hr hc r c, ?_, ?_, ?_, ?_, ?_, ?_, ?_, ?_⟩
  · intro h1 h2 h3; subst h3; exact paint_left rows cols b hr hc r h1 h2
  · intro h1 h2 h3; subst h3; exact paint_right rows cols b hr hc r h1 h2
  · intro h1 h2 h3; subst h1; exact paint_top rows cols b hr hc c h2 h3
  · intro h1 h2 h3; subst h1; exact paint_bottom rows cols b hr hc c h2 h3
  · intro h1 h2; subst h1; subst h2
    rw [paint_corner_tl rows cols b hr hc]; exact ⟨rfl, cornerOf_maxNS _ _⟩
  · intro h1 h2; subst h1; subst h2
    rw [paint_corner_tr rows cols b hr hc]; exact ⟨rfl, cornerOf_maxNS _ _⟩
  · intro h1 h2; subst h1; subst h2
    rw [paint_corner_bl rows cols b hr hc]; exact ⟨rfl, cornerOf_maxNS _ _⟩
  · intro h1 h2; subst h1; subst h2
    rw [paint_corner_br rows cols b hr hc]; exact ⟨rfl, cornerOf_maxNS _ _⟩

end paint

/-- the nine cases of `paint_spec` are exhaustive -/
theorem paint_cases (rows cols r c : Nat) (hr' : r < rows) (hc' : c < cols) :
    (r = 0 ∨ r = rows - 1 ∨ (0 < r ∧ r < rows - 1)) ∧ (c = 0 ∨ c = cols - 1 ∨ (0 < c ∧ c < cols - 1)) := by
  omega

example : (List.range 4).map (fun r => (List.range 5).map (fun c =>
    paint 4 5 ⟨nsFixedValue, nsFixedGradient, nsLooped, nsLooped⟩ r c)) =
    [[1, 3, 3, 3, 2], [1, 0, 0, 0, 2], [1, 0, 0, 0, 2], [1, 3, 3, 3, 2]] := by decide

/-! ## 5. `sortKeys` (std::map iteration order) -/

theorem insertKey_perm {β : Type} (lt : β → β → Bool) (x : β) (l : List β) :
    (insertKey lt x l).Perm (x :: l) := by
  induction l with
  | nil => exact List.Perm.refl _
  | cons y ys ih =>
    unfold insertKey
    split
    · exact List.Perm.refl _
    · exact ((List.Perm.cons y ih).trans (List.Perm.swap x y ys))

/-- the overrides applied are exactly the given ones -/
theorem sortKeys_perm {β : Type} (lt : β → β → Bool) (l : List β) : (sortKeys lt l).Perm l := by
  induction l with
  | nil => exact List.Perm.refl _
  | cons x xs ih =>
    show (insertKey lt x (sortKeys lt xs)).Perm (x :: xs)
    exact (insertKey_perm lt x _).trans (List.Perm.cons x ih)

theorem mem_sortKeys {β : Type} (lt : β → β → Bool) (l : List β) (e : β) :
    e ∈ sortKeys lt l ↔ e ∈ l := (sortKeys_perm lt l).mem_iff

theorem insertKey_sorted {β : Type} (lt : β → β → Bool)
    (hasym : ∀ a b, lt a b = true → lt b a = false)
    (htr : ∀ a b c, lt b a = false → lt c b = false → lt c a = false)
    (x : β) (l : List β) (h : l.Pairwise (fun a b => lt b a = false)) :
    (insertKey lt x l).Pairwise (fun a b => lt b a = false) := by
  induction l with
  | nil => simp [insertKey]
  | cons y ys ih =>
    rw [List.pairwise_cons] at h
    unfold insertKey
    split
    · rename_i hxy
      have hyx := hasym x y hxy
      rw [List.pairwise_cons]
      refine ⟨?_, List.pairwise_cons.mpr h⟩
      intro a ha
      rcases List.mem_cons.mp ha with rfl | ha
      · exact hyx
      · exact htr x y a hyx (h.1 a ha)
    · rename_i hxy
      have hxy' : lt x y = false := by cases hh : lt x y <;> simp_all
      rw [List.pairwise_cons]
      refine ⟨?_, ih h.2⟩
      intro a ha
      rcases List.mem_cons.mp ((insertKey_perm lt x ys).mem_iff.mp ha) with rfl | ha
      · exact hxy'
      · exact h.1 a ha

/-- insertion sort sorts: for an asymmetric, negatively transitive comparison (a strict weak
order, as `std::map`'s `key_compare`), no later element is smaller than an earlier one -/
theorem sortKeys_sorted {β : Type} (lt : β → β → Bool)
    (hasym : ∀ a b, lt a b = true → lt b a = false)
    (htr : ∀ a b c, lt b a = false → lt c b = false → lt c a = false) (l : List β) :
    (sortKeys lt l).Pairwise (fun a b => lt b a = false) := by
  induction l with
  | nil => exact List.Pairwise.nil
  | cons x xs ih => exact insertKey_sorted lt hasym htr x _ ih

/-- the comparison `rasterStatus` sorts with: lexicographic on the `(row, col)` key -/
def keyLt (x y : (Nat × Nat) × Nat) : Bool :=
  x.1.1 < y.1.1 || (x.1.1 == y.1.1 && x.1.2 < y.1.2)

theorem keyLt_asymm (a b : (Nat × Nat) × Nat) (h : keyLt a b = true) : keyLt b a = false := by
  simp only [keyLt, Bool.or_eq_true, Bool.and_eq_true, decide_eq_true_eq, beq_iff_eq] at h
  cases hh : keyLt b a
  · rfl
  · simp only [keyLt, Bool.or_eq_true, Bool.and_eq_true, decide_eq_true_eq, beq_iff_eq] at hh
    omega

theorem keyLt_false_iff (a b : (Nat × Nat) × Nat) :
    keyLt a b = false ↔ (b.1.1 < a.1.1 ∨ (b.1.1 = a.1.1 ∧ b.1.2 ≤ a.1.2)) := by
  cases hh : keyLt a b
  · have : ¬ (keyLt a b = true) := by simp [hh]
    simp only [keyLt, Bool.or_eq_true, Bool.and_eq_true, decide_eq_true_eq, beq_iff_eq] at this
    constructor
    · intro _; omega
    · intro _; rfl
  · simp only [keyLt, Bool.or_eq_true, Bool.and_eq_true, decide_eq_true_eq, beq_iff_eq] at hh
    constructor
    · intro h; cases h
    · intro h; omega

theorem keyLt_negtrans (a b c : (Nat × Nat) × Nat) (h1 : keyLt b a = false) (h2 : keyLt c b = false) :
    keyLt c a = false := by
  rw [keyLt_false_iff] at *
  omega

/-- total on distinct keys -/
theorem keyLt_total (a b : (Nat × Nat) × Nat) (hne : a.1 ≠ b.1) (h : keyLt b a = false) :
    keyLt a b = true := by
  rw [keyLt_false_iff] at h
  have hne' : ¬ (a.1.1 = b.1.1 ∧ a.1.2 = b.1.2) := by
    intro hh; apply hne; exact Prod.ext hh.1 hh.2
  simp only [keyLt, Bool.or_eq_true, Bool.and_eq_true, decide_eq_true_eq, beq_iff_eq]
  omega

/-- the sorted override list is non-decreasing in the key … -/
theorem sortKeys_keyLt_sorted (l : List ((Nat × Nat) × Nat)) :
    (sortKeys keyLt l).Pairwise (fun a b => keyLt b a = false) :=
  sortKeys_sorted keyLt keyLt_asymm keyLt_negtrans l

/-- … and strictly increasing when the keys are distinct (as they are in a `std::map`) -/
theorem sortKeys_keyLt_strict (l : List ((Nat × Nat) × Nat)) (hd : l.Pairwise (fun a b => a.1 ≠ b.1)) :
    (sortKeys keyLt l).Pairwise (fun a b => keyLt a b = true) := by
  have hd' : (sortKeys keyLt l).Pairwise (fun a b => a.1 ≠ b.1) :=
    ((sortKeys_perm keyLt l).pairwise_iff (fun h => fun e => h e.symm)).mpr hd
  exact (hd'.and (sortKeys_keyLt_sorted l)).imp (fun h => keyLt_total _ _ h.1 h.2)

example : sortKeys keyLt [((2, 1), 7), ((0, 3), 5), ((2, 0), 9), ((0, 1), 4)] =
    [((0, 1), 4), ((0, 3), 5), ((2, 0), 9), ((2, 1), 7)] := by decide


/-! ## 3. raster overrides and `rasterStatus` -/

theorem getD_setIfInBounds (st : Array Nat) (j v i d : Nat) :
    (st.setIfInBounds j v).getD i d = if j = i ∧ j < st.size then v else st.getD i d := by
  rw [Array.getD_eq_getD_getElem?, Array.getD_eq_getD_getElem?, Array.getElem?_setIfInBounds]
  by_cases h1 : j = i
  · subst h1
    by_cases h2 : j < st.size
    · simp [h2]
    · simp [h2]
  · simp [h1]

/-- a legal write neither creates nor destroys a looped node -/
theorem looped_set (st : Array Nat) (j s : Nat) (hs : s ≠ nsLooped) (hj : st.getD j 0 ≠ nsLooped) (i : Nat) :
    (st.setIfInBounds j s).getD i 0 = nsLooped ↔ st.getD i 0 = nsLooped := by
  rw [getD_setIfInBounds]
  split
  · rename_i h
    have : j = i := h.1
    subst this
    constructor
    · intro h'; exact absurd h' hs
    · intro h'; exact absurd h' hj
  · exact Iff.rfl

theorem find?_congr' {β : Type} (p q : β → Bool) (l : List β) (h : ∀ x ∈ l, p x = q x) :
    l.find? p = l.find? q := by
  induction l with
  | nil => rfl
  | cons a as ih =>
    rw [List.find?_cons, List.find?_cons, h a (List.mem_cons_self ..),
      ih (fun x hx => h x (List.mem_cons_of_mem _ hx))]

/-- value selected by an optional override entry -/
def ovVal {κ : Type} (o : Option (κ × Nat)) (d : Nat) : Nat :=
  match o with
  | some e => e.2
  | none => d

/-- flat index of an override entry's key -/
def flat (cols : Nat) (e : (Nat × Nat) × Nat) : Nat := e.1.1 * cols + e.1.2

theorem flat_lt (rows cols : Nat) (e : (Nat × Nat) × Nat) (h1 : e.1.1 < rows) (h2 : e.1.2 < cols) :
    flat cols e < rows * cols := by
  have : (e.1.1 + 1) * cols ≤ rows * cols := Nat.mul_le_mul_right _ h1
  rw [Nat.succ_mul] at this
  unfold flat; omega

theorem flat_div (cols : Nat) (e : (Nat × Nat) × Nat) (h2 : e.1.2 < cols) : flat cols e / cols = e.1.1 := by
  unfold flat
  rw [Nat.mul_comm, Nat.mul_add_div (by omega), Nat.div_eq_of_lt h2, Nat.add_zero]

theorem flat_mod (cols : Nat) (e : (Nat × Nat) × Nat) (h2 : e.1.2 < cols) : flat cols e % cols = e.1.2 := by
  unfold flat
  exact Nat.mul_add_mod_of_lt h2

/-- `r * cols + c` with `c < cols` is injective in `(r, c)` -/
theorem flat_eq_iff (cols : Nat) (e : (Nat × Nat) × Nat) (h2 : e.1.2 < cols) (i : Nat) :
    flat cols e = i ↔ (e.1.1 = i / cols ∧ e.1.2 = i % cols) := by
  constructor
  · intro h; subst h; exact ⟨(flat_div cols e h2).symm, (flat_mod cols e h2).symm⟩
  · intro h
    have := Nat.div_add_mod i cols
    unfold flat
    rw [h.1, h.2, Nat.mul_comm]; exact this

/-- an override entry the code accepts, given the current status array -/
def RGood (rows cols : Nat) (st : Array Nat) (e : (Nat × Nat) × Nat) : Prop :=
  e.1.1 < rows ∧ e.1.2 < cols ∧ e.2 ≠ nsLooped ∧ st.getD (flat cols e) 0 ≠ nsLooped

instance (rows cols : Nat) (st : Array Nat) (e : (Nat × Nat) × Nat) : Decidable (RGood rows cols st e) := by
  unfold RGood; exact inferInstance

/-- the error a rejected raster entry raises: bounds check first -/
def rKind (rows cols : Nat) (e : (Nat × Nat) × Nat) : Err :=
  if e.1.1 ≥ rows ∨ e.1.2 ≥ cols then .outOfRange else .invalidArgument

theorem rasterOverrides_cons_good (rows cols : Nat) (st : Array Nat) (e : (Nat × Nat) × Nat)
    (rest : List ((Nat × Nat) × Nat)) (h : RGood rows cols st e) :
    rasterOverrides rows cols st (e :: rest) =
      rasterOverrides rows cols (st.setIfInBounds (flat cols e) e.2) rest := by
  obtain ⟨⟨r, c⟩, s⟩ := e
  obtain ⟨h1, h2, h3, h4⟩ := h
  simp only [flat] at h1 h2 h3 h4 ⊢
  conv => lhs; unfold rasterOverrides
  rw [if_neg (by omega), if_neg h3, if_neg h4]

theorem rasterOverrides_cons_bad (rows cols : Nat) (st : Array Nat) (e : (Nat × Nat) × Nat)
    (rest : List ((Nat × Nat) × Nat)) (h : ¬ RGood rows cols st e) :
    rasterOverrides rows cols st (e :: rest) = .error (rKind rows cols e) := by
  obtain ⟨⟨r, c⟩, s⟩ := e
  simp only [RGood, flat] at h
  unfold rasterOverrides rKind
  by_cases h0 : r ≥ rows ∨ c ≥ cols
  · simp only [h0, if_true]
  · simp only [h0, if_false]
    by_cases h3 : s = nsLooped
    · rw [if_pos h3]
    · rw [if_neg h3]
      by_cases h4 : st.getD (r * cols + c) 0 = nsLooped
      · rw [if_pos h4]
      · exact absurd ⟨by omega, by omega, h3, h4⟩ h

theorem RGood_set (rows cols : Nat) (st : Array Nat) (e e' : (Nat × Nat) × Nat) (h : RGood rows cols st e) :
    RGood rows cols (st.setIfInBounds (flat cols e) e.2) e' ↔ RGood rows cols st e' := by
  have := looped_set st (flat cols e) e.2 h.2.2.1 h.2.2.2 (flat cols e')
  unfold RGood
  exact ⟨fun ⟨a, b, c, d⟩ => ⟨a, b, c, fun hh => d (this.mpr hh)⟩,
    fun ⟨a, b, c, d⟩ => ⟨a, b, c, fun hh => d (this.mp hh)⟩⟩

/-- **acceptance**: the override walk succeeds iff every entry is in range, not looped, and does not
target a node that is looped in the array the walk STARTS from (the walk never changes which
nodes are looped, so "current" = "initial") -/
theorem rasterOverrides_ok_iff (rows cols : Nat) (st : Array Nat) (l : List ((Nat × Nat) × Nat)) :
    (∃ st', rasterOverrides rows cols st l = .ok st') ↔ ∀ e ∈ l, RGood rows cols st e := by
  induction l generalizing st with
  | nil => simp [rasterOverrides]
  | cons e rest ih =>
    by_cases hg : RGood rows cols st e
    · rw [rasterOverrides_cons_good rows cols st e rest hg, ih]
      constructor
      · intro h e' he'
        rcases List.mem_cons.mp he' with rfl | he'
        · exact hg
        · exact (RGood_set rows cols st e e' hg).mp (h e' he')
      · intro h e' he'
        exact (RGood_set rows cols st e e' hg).mpr (h e' (List.mem_cons_of_mem _ he'))
    · rw [rasterOverrides_cons_bad rows cols st e rest hg]
      constructor
      · intro ⟨_, h⟩; cases h
      · intro h; exact absurd (h e (List.mem_cons_self ..)) hg

/-- **rejection, with the error kind**: the walk fails with `k` iff there is a FIRST offending entry
(all earlier ones accepted) and `k` is the error of that entry -/
theorem rasterOverrides_error_iff (rows cols : Nat) (st : Array Nat) (l : List ((Nat × Nat) × Nat)) (k : Err) :
    rasterOverrides rows cols st l = .error k ↔
      ∃ pre e post, l = pre ++ e :: post ∧ (∀ e' ∈ pre, RGood rows cols st e') ∧
        ¬ RGood rows cols st e ∧ k = rKind rows cols e := by
  induction l generalizing st with
  | nil =>
    constructor
    · intro h; simp [rasterOverrides] at h
    · intro ⟨pre, e, post, h, _⟩; simp at h
  | cons e0 rest ih =>
    by_cases hg : RGood rows cols st e0
    · rw [rasterOverrides_cons_good rows cols st e0 rest hg, ih]
      constructor
      · intro ⟨pre, e, post, h1, h2, h3, h4⟩
        refine ⟨e0 :: pre, e, post, by rw [h1]; rfl, ?_, ?_, h4⟩
        · intro e' he'
          rcases List.mem_cons.mp he' with rfl | he'
          · exact hg
          · exact (RGood_set rows cols st e0 e' hg).mp (h2 e' he')
        · intro hh; exact h3 ((RGood_set rows cols st e0 e hg).mpr hh)
      · intro ⟨pre, e, post, h1, h2, h3, h4⟩
        cases pre with
        | nil =>
          simp only [List.nil_append, List.cons.injEq] at h1
          rw [← h1.1] at h3; exact absurd hg h3
        | cons a pre' =>
          simp only [List.cons_append, List.cons.injEq] at h1
          refine ⟨pre', e, post, h1.2, ?_, ?_, h4⟩
          · intro e' he'
            exact (RGood_set rows cols st e0 e' hg).mpr (h2 e' (List.mem_cons_of_mem _ he'))
          · intro hh; exact h3 ((RGood_set rows cols st e0 e hg).mp hh)
    · rw [rasterOverrides_cons_bad rows cols st e0 rest hg]
      constructor
      · intro h
        have : k = rKind rows cols e0 := by injection h with h; exact h.symm
        exact ⟨[], e0, rest, rfl, (fun _ h => by cases h), hg, this⟩
      · intro ⟨pre, e, post, h1, h2, h3, h4⟩
        cases pre with
        | nil =>
          simp only [List.nil_append, List.cons.injEq] at h1
          rw [h4, ← h1.1]
        | cons a pre' =>
          simp only [List.cons_append, List.cons.injEq] at h1
          have := h2 a (List.mem_cons_self ..)
          rw [← h1.1] at this; exact absurd this hg

/-- **looped rule**: a successful walk leaves the set of looped nodes unchanged -/
theorem rasterOverrides_looped (rows cols : Nat) (st st' : Array Nat) (l : List ((Nat × Nat) × Nat))
    (h : rasterOverrides rows cols st l = .ok st') (i : Nat) :
    st'.getD i 0 = nsLooped ↔ st.getD i 0 = nsLooped := by
  induction l generalizing st with
  | nil => simp only [rasterOverrides, Except.ok.injEq] at h; rw [h]
  | cons e rest ih =>
    by_cases hg : RGood rows cols st e
    · rw [rasterOverrides_cons_good rows cols st e rest hg] at h
      rw [ih _ h, looped_set st _ _ hg.2.2.1 hg.2.2.2]
    · rw [rasterOverrides_cons_bad rows cols st e rest hg] at h; cases h

/-- **result of the walk**: node `i` holds the status of the LAST entry (in walk order) whose key
addresses `i`, if any, else its initial status -/
theorem rasterOverrides_ok_spec (rows cols : Nat) (st st' : Array Nat) (l : List ((Nat × Nat) × Nat))
    (hsz : st.size = rows * cols) (h : rasterOverrides rows cols st l = .ok st') :
    st'.size = rows * cols ∧ ∀ i, st'.getD i 0 =
      ovVal (l.reverse.find? (fun e => e.1.1 * cols + e.1.2 == i)) (st.getD i 0) := by
  induction l generalizing st with
  | nil =>
    simp only [rasterOverrides, Except.ok.injEq] at h
    subst h
    exact ⟨hsz, fun i => rfl⟩
  | cons e rest ih =>
    by_cases hg : RGood rows cols st e
    · rw [rasterOverrides_cons_good rows cols st e rest hg] at h
      obtain ⟨a1, a2⟩ := ih _ (by rw [Array.size_setIfInBounds]; exact hsz) h
      refine ⟨a1, fun i => ?_⟩
      rw [a2 i, List.reverse_cons, List.find?_append]
      cases hf : rest.reverse.find? (fun e => e.1.1 * cols + e.1.2 == i) with
      | some e' => rfl
      | none =>
        rw [Option.none_or, List.find?_singleton, getD_setIfInBounds]
        have hlt := flat_lt rows cols e hg.1 hg.2.1
        by_cases hi : flat cols e = i
        · have : (e.1.1 * cols + e.1.2 == i) = true := by simpa [flat] using hi
          rw [if_pos ⟨hi, by omega⟩, if_pos this]; rfl
        · have : ¬ ((e.1.1 * cols + e.1.2 == i) = true) := by simpa [flat] using hi
          rw [if_neg (fun hh => hi hh.1), if_neg this]
    · rw [rasterOverrides_cons_bad rows cols st e rest hg] at h; cases h


/-- the same in the `match` form, with the key test as a proposition; together with the facts a
successful walk implies about the entries -/
theorem rasterOverrides_ok (rows cols : Nat) (st st' : Array Nat) (l : List ((Nat × Nat) × Nat))
    (hsz : st.size = rows * cols) (h : rasterOverrides rows cols st l = .ok st') :
    (∀ e ∈ l, e.1.1 < rows ∧ e.1.2 < cols ∧ e.2 ≠ nsLooped) ∧ st'.size = rows * cols ∧
    ∀ i, st'.getD i 0 =
      (match l.reverse.find? (fun e => e.1.1 * cols + e.1.2 = i) with
        | some e => e.2
        | none => st.getD i 0) := by
  obtain ⟨a1, a2⟩ := rasterOverrides_ok_spec rows cols st st' l hsz h
  have hg := (rasterOverrides_ok_iff rows cols st l).mp ⟨st', h⟩
  refine ⟨fun e he => ⟨(hg e he).1, (hg e he).2.1, (hg e he).2.2.1⟩, a1, fun i => ?_⟩
  rw [a2 i]
  have : l.reverse.find? (fun e => e.1.1 * cols + e.1.2 == i) =
      l.reverse.find? (fun e => decide (e.1.1 * cols + e.1.2 = i)) := by
    apply find?_congr'
    intro e _
    cases hh : (e.1.1 * cols + e.1.2 == i) <;> simp_all
  rw [this]
  generalize List.find? _ _ = o
  cases o <;> rfl

/-- the painted base array of `rasterStatus` -/
def rbase (rows cols : Nat) (b : Bounds) : Array Nat :=
  Fs.tab (rows * cols) (fun i => paint rows cols b (i / cols) (i % cols))

theorem rasterStatus_unfold (rows cols : Nat) (b : Bounds) (ov : List ((Nat × Nat) × Nat)) :
    rasterStatus rows cols b ov =
      if !symmetricLoops b then .error .invalidArgument
      else rasterOverrides rows cols (rbase rows cols b) (sortKeys keyLt ov) := rfl

theorem rbase_getD (rows cols : Nat) (b : Bounds) (i : Nat) (hi : i < rows * cols) :
    (rbase rows cols b).getD i 0 = paint rows cols b (i / cols) (i % cols) :=
  Fs.look_tab (rows * cols) 0 _ i hi

theorem rbase_size (rows cols : Nat) (b : Bounds) : (rbase rows cols b).size = rows * cols := by
  simp [rbase]

/-- an override entry `rasterStatus` accepts: in range, not looped, not on a looped border node -/
def ROk (rows cols : Nat) (b : Bounds) (e : (Nat × Nat) × Nat) : Prop :=
  e.1.1 < rows ∧ e.1.2 < cols ∧ e.2 ≠ nsLooped ∧ paint rows cols b e.1.1 e.1.2 ≠ nsLooped

instance (rows cols : Nat) (b : Bounds) (e : (Nat × Nat) × Nat) : Decidable (ROk rows cols b e) := by
  unfold ROk; exact inferInstance

theorem RGood_rbase (rows cols : Nat) (b : Bounds) (e : (Nat × Nat) × Nat) :
    RGood rows cols (rbase rows cols b) e ↔ ROk rows cols b e := by
  unfold RGood ROk
  constructor
  · intro ⟨h1, h2, h3, h4⟩
    rw [rbase_getD rows cols b _ (flat_lt rows cols e h1 h2), flat_div cols e h2, flat_mod cols e h2] at h4
    exact ⟨h1, h2, h3, h4⟩
  · intro ⟨h1, h2, h3, h4⟩
    rw [rbase_getD rows cols b _ (flat_lt rows cols e h1 h2), flat_div cols e h2, flat_mod cols e h2]
    exact ⟨h1, h2, h3, h4⟩

/-- looped borders come in opposite pairs -/
theorem symmetricLoops_iff (b : Bounds) :
    symmetricLoops b = true ↔
      ((b.left = nsLooped ↔ b.right = nsLooped) ∧ (b.top = nsLooped ↔ b.bottom = nsLooped)) := by
  unfold symmetricLoops
  have e1 : (b.left == nsLooped) = true ↔ b.left = nsLooped := beq_iff_eq
  have e2 : (b.right == nsLooped) = true ↔ b.right = nsLooped := beq_iff_eq
  have e3 : (b.top == nsLooped) = true ↔ b.top = nsLooped := beq_iff_eq
  have e4 : (b.bottom == nsLooped) = true ↔ b.bottom = nsLooped := beq_iff_eq
  rw [← e1, ← e2, ← e3, ← e4]
  cases (b.left == nsLooped) <;> cases (b.right == nsLooped) <;> cases (b.top == nsLooped) <;>
    cases (b.bottom == nsLooped) <;> decide

/-- **C17, construction succeeds iff** looped borders are symmetric and every override entry is in
range, is not looped, and does not target a looped node -/
theorem rasterStatus_ok_iff (rows cols : Nat) (b : Bounds) (ov : List ((Nat × Nat) × Nat)) :
    (∃ st, rasterStatus rows cols b ov = .ok st) ↔
      symmetricLoops b = true ∧ ∀ e ∈ ov, ROk rows cols b e := by
  rw [rasterStatus_unfold]
  cases hs : symmetricLoops b
  · simp
  · simp only [Bool.not_true, Bool.false_eq_true, if_false, true_and]
    rw [rasterOverrides_ok_iff]
    constructor
    · intro h e he
      exact (RGood_rbase rows cols b e).mp (h e ((mem_sortKeys keyLt ov e).mpr he))
    · intro h e he
      exact (RGood_rbase rows cols b e).mpr (h e ((mem_sortKeys keyLt ov e).mp he))

/-- **C17, construction fails iff** asymmetric looped borders, or some override entry is out of
range, has status looped, or targets a looped node -/
theorem rasterStatus_error_iff (rows cols : Nat) (b : Bounds) (ov : List ((Nat × Nat) × Nat)) :
    (∃ k, rasterStatus rows cols b ov = .error k) ↔
      (symmetricLoops b = false ∨ ∃ e ∈ ov, e.1.1 ≥ rows ∨ e.1.2 ≥ cols ∨ e.2 = nsLooped ∨
        paint rows cols b e.1.1 e.1.2 = nsLooped) := by
  have hok := rasterStatus_ok_iff rows cols b ov
  have hbad : ∀ e, ¬ ROk rows cols b e ↔ (e.1.1 ≥ rows ∨ e.1.2 ≥ cols ∨ e.2 = nsLooped ∨
      paint rows cols b e.1.1 e.1.2 = nsLooped) := by
    intro e; unfold ROk
    by_cases h3 : e.2 = nsLooped <;> by_cases h4 : paint rows cols b e.1.1 e.1.2 = nsLooped <;>
      simp [h3, h4] <;> omega
  constructor
  · intro ⟨k, hk⟩
    cases hs : symmetricLoops b
    · exact Or.inl rfl
    · refine Or.inr ?_
      apply Classical.byContradiction
      intro hne
      have : ∀ e ∈ ov, ROk rows cols b e := by
        intro e he
        apply Classical.byContradiction
        intro hb
        exact hne ⟨e, he, (hbad e).mp hb⟩
      obtain ⟨st, hst⟩ := hok.mpr ⟨hs, this⟩
      rw [hst] at hk; cases hk
  · intro h
    cases hr : rasterStatus rows cols b ov with
    | error k => exact ⟨k, rfl⟩
    | ok st =>
      obtain ⟨h1, h2⟩ := hok.mp ⟨st, hr⟩
      rcases h with h | ⟨e, he, hb⟩
      · rw [h1] at h; cases h
      · exact absurd (h2 e he) ((hbad e).mpr hb)

/-- **C17, which error**: `invalid_argument` for asymmetric looped borders; otherwise the error of
the first offending entry in key order — `out_of_range` if it is out of range, else
`invalid_argument` -/
theorem rasterStatus_error_kind (rows cols : Nat) (b : Bounds) (ov : List ((Nat × Nat) × Nat)) (k : Err) :
    rasterStatus rows cols b ov = .error k ↔
      (symmetricLoops b = false ∧ k = .invalidArgument) ∨
      (symmetricLoops b = true ∧ ∃ pre e post, sortKeys keyLt ov = pre ++ e :: post ∧
        (∀ e' ∈ pre, ROk rows cols b e') ∧ ¬ ROk rows cols b e ∧ k = rKind rows cols e) := by
  rw [rasterStatus_unfold]
  cases hs : symmetricLoops b
  · simp only [Bool.not_false, if_true, true_and, Bool.false_eq_true, false_and, or_false]
    constructor
    · intro h; injection h with h; exact h.symm
    · intro h; rw [h]
  · simp only [Bool.not_true, Bool.false_eq_true, if_false, true_and, false_and, false_or, reduceCtorEq]
    rw [rasterOverrides_error_iff]
    constructor
    · intro ⟨pre, e, post, h1, h2, h3, h4⟩
      exact ⟨pre, e, post, h1, fun e' he' => (RGood_rbase rows cols b e').mp (h2 e' he'),
        fun hh => h3 ((RGood_rbase rows cols b e).mpr hh), h4⟩
    · intro ⟨pre, e, post, h1, h2, h3, h4⟩
      exact ⟨pre, e, post, h1, fun e' he' => (RGood_rbase rows cols b e').mpr (h2 e' he'),
        fun hh => h3 ((RGood_rbase rows cols b e).mp hh), h4⟩

/-- **C17, the constructed status array**: size `rows*cols`; node `i` holds the status of the last
entry of the key-sorted override list with key `(i / cols, i % cols)` if there is one, else the
painted border/corner/core composition (`paint_spec`); and the looped nodes are exactly the
painted looped ones. -/
theorem rasterStatus_ok (rows cols : Nat) (b : Bounds) (ov : List ((Nat × Nat) × Nat)) (st : Array Nat)
    (h : rasterStatus rows cols b ov = .ok st) :
    st.size = rows * cols ∧ ∀ i, i < rows * cols →
      st.getD i 0 =
        (match (sortKeys keyLt ov).reverse.find? (fun e => e.1.1 == i / cols && e.1.2 == i % cols) with
          | some e => e.2
          | none => paint rows cols b (i / cols) (i % cols)) ∧
      (st.getD i 0 = nsLooped ↔ paint rows cols b (i / cols) (i % cols) = nsLooped) := by
  have hall := ((rasterStatus_ok_iff rows cols b ov).mp ⟨st, h⟩).2
  rw [rasterStatus_unfold] at h
  cases hs : symmetricLoops b
  · rw [hs] at h; cases h
  · rw [hs] at h
    simp only [Bool.not_true, Bool.false_eq_true, if_false] at h
    obtain ⟨a1, a2⟩ := rasterOverrides_ok_spec rows cols _ st _ (rbase_size rows cols b) h
    refine ⟨a1, fun i hi => ⟨?_, ?_⟩⟩
    · rw [a2 i, rbase_getD rows cols b i hi]
      have : (sortKeys keyLt ov).reverse.find? (fun e => e.1.1 * cols + e.1.2 == i) =
          (sortKeys keyLt ov).reverse.find? (fun e => e.1.1 == i / cols && e.1.2 == i % cols) := by
        apply find?_congr'
        intro e he
        have he' : e ∈ ov := (mem_sortKeys keyLt ov e).mp (List.mem_reverse.mp he)
        have hc := (hall e he').2.1
        have := flat_eq_iff cols e hc i
        unfold flat at this
        cases hh : (e.1.1 * cols + e.1.2 == i)
        · have hne : ¬ (e.1.1 * cols + e.1.2 = i) := by simpa using hh
          rw [this] at hne
          symm
          cases h2 : (e.1.1 == i / cols && e.1.2 == i % cols)
          · rfl
          · simp only [Bool.and_eq_true, beq_iff_eq] at h2; exact absurd h2 hne
        · have he : e.1.1 * cols + e.1.2 = i := by simpa using hh
          rw [this] at he
          symm
          simp only [Bool.and_eq_true, beq_iff_eq]; exact he
      rw [this]
      generalize List.find? _ _ = o
      cases o <;> rfl
    · rw [rasterOverrides_looped rows cols _ st _ h i, rbase_getD rows cols b i hi]

/-- with distinct keys (a `std::map`), independent of the sort: every given entry is what its node
holds, and all other nodes hold the painted composition -/
theorem rasterStatus_ok_distinct (rows cols : Nat) (b : Bounds) (ov : List ((Nat × Nat) × Nat))
    (st : Array Nat) (h : rasterStatus rows cols b ov = .ok st)
    (hd : ov.Pairwise (fun a b => a.1 ≠ b.1)) :
    (∀ e ∈ ov, st.getD (e.1.1 * cols + e.1.2) 0 = e.2) ∧
    (∀ i, i < rows * cols → (∀ e ∈ ov, e.1 ≠ (i / cols, i % cols)) →
      st.getD i 0 = paint rows cols b (i / cols) (i % cols)) := by
  have hall := ((rasterStatus_ok_iff rows cols b ov).mp ⟨st, h⟩).2
  obtain ⟨_, hv⟩ := rasterStatus_ok rows cols b ov st h
  have huniq : ∀ l : List ((Nat × Nat) × Nat), l.Pairwise (fun a b => a.1 ≠ b.1) →
      ∀ x ∈ l, ∀ y ∈ l, x.1 = y.1 → x = y := by
    intro l hl
    induction hl with
    | nil => intro x hx; cases hx
    | cons ha _ ih =>
      intro x hx0 y hy0 hxy
      rcases List.mem_cons.mp hx0 with hx | hx <;> rcases List.mem_cons.mp hy0 with hy | hy
      · rw [hx, hy]
      · rw [hx] at hxy; exact absurd hxy (ha y hy)
      · rw [hy] at hxy; exact absurd hxy.symm (ha x hx)
      · exact ih x hx y hy hxy
  constructor
  · intro e he
    obtain ⟨h1, h2, _, _⟩ := hall e he
    have hlt := flat_lt rows cols e h1 h2
    have hdv := flat_div cols e h2
    have hmd := flat_mod cols e h2
    unfold flat at hlt hdv hmd
    rw [(hv _ hlt).1]
    cases hf : (sortKeys keyLt ov).reverse.find?
        (fun e' => e'.1.1 == (e.1.1 * cols + e.1.2) / cols && e'.1.2 == (e.1.1 * cols + e.1.2) % cols) with
    | none =>
      rw [List.find?_eq_none] at hf
      have := hf e (List.mem_reverse.mpr ((mem_sortKeys keyLt ov e).mpr he))
      rw [hdv, hmd] at this
      simp at this
    | some e' =>
      have hp := List.find?_some hf
      have hm : e' ∈ ov := (mem_sortKeys keyLt ov e').mp (List.mem_reverse.mp (List.mem_of_find?_eq_some hf))
      rw [hdv, hmd] at hp
      simp only [Bool.and_eq_true, beq_iff_eq] at hp
      have : e' = e := huniq ov hd e' hm e he (Prod.ext hp.1 hp.2)
      rw [this]
  · intro i hi hno
    rw [(hv i hi).1]
    cases hf : (sortKeys keyLt ov).reverse.find? (fun e => e.1.1 == i / cols && e.1.2 == i % cols) with
    | none => rfl
    | some e' =>
      have hp := List.find?_some hf
      have hm : e' ∈ ov := (mem_sortKeys keyLt ov e').mp (List.mem_reverse.mp (List.mem_of_find?_eq_some hf))
      simp only [Bool.and_eq_true, beq_iff_eq] at hp
      exact absurd (Prod.ext hp.1 hp.2) (hno e' hm)


example : [((1, 2), nsFixedGradient), ((1, 1), nsFixedValue)].Pairwise
    (fun (a b : (Nat × Nat) × Nat) => a.1 ≠ b.1) := by decide

/-- looped appears exactly on the looped borders: a corner is looped only when the winning border
is (e.g. both meeting borders looped, or looped against core) -/
theorem paint_looped_inside (rows cols : Nat) (b : Bounds) (r c : Nat)
    (h1 : 0 < r) (h2 : r < rows - 1) (h3 : 0 < c) (h4 : c < cols - 1) :
    paint rows cols b r c ≠ nsLooped := by
  rw [paint_inside rows cols b (by omega) (by omega) r c h1 h2 h3 h4]; exact nsCore_ne_looped

example : rasterStatus 3 4 ⟨nsFixedValue, nsFixedValue, nsLooped, nsLooped⟩
    [((1, 2), nsFixedGradient), ((1, 1), nsFixedValue)] =
    .ok #[1, 3, 3, 1, 1, 1, 2, 1, 1, 3, 3, 1] := by rfl
example : rasterStatus 3 4 ⟨nsFixedValue, nsFixedValue, nsLooped, nsLooped⟩ [((0, 1), nsFixedValue)] =
    .error .invalidArgument := by rfl
example : rasterStatus 3 4 ⟨nsFixedValue, nsFixedValue, nsLooped, nsLooped⟩ [((3, 1), nsLooped)] =
    .error .outOfRange := by rfl
example : rasterStatus 3 4 ⟨nsFixedValue, nsLooped, nsCore, nsCore⟩ [] = .error .invalidArgument := by rfl
example : ROk 3 4 ⟨nsFixedValue, nsFixedValue, nsLooped, nsLooped⟩ ((1, 2), nsFixedGradient) := by decide


/-- the `getD … 0` reads used above are plain reads inside the array -/
theorem getD_eq_getElem (st : Array Nat) (i : Nat) (h : i < st.size) : st.getD i 0 = st[i] :=
  (Array.getElem_eq_getD 0).symm

/-! ## 4. profile overrides and `profileStatus` -/

/-- an override entry the profile grid accepts, given the current status array -/
def PGood (n : Nat) (st : Array Nat) (e : Nat × Nat) : Prop :=
  e.2 ≠ nsLooped ∧ e.1 < n ∧ st.getD e.1 0 ≠ nsLooped

instance (n : Nat) (st : Array Nat) (e : Nat × Nat) : Decidable (PGood n st e) := by
  unfold PGood; exact inferInstance

/-- the error a rejected profile entry raises: "looped not allowed" is tested BEFORE the
bounds-checked access (the opposite order of the raster grid) -/
def pKind (n : Nat) (e : Nat × Nat) : Err :=
  if e.2 = nsLooped then .invalidArgument else if e.1 ≥ n then .outOfRange else .invalidArgument

theorem profileOverrides_cons_good (n : Nat) (st : Array Nat) (e : Nat × Nat) (rest : List (Nat × Nat))
    (h : PGood n st e) :
    profileOverrides n st (e :: rest) = profileOverrides n (st.setIfInBounds e.1 e.2) rest := by
  obtain ⟨i, s⟩ := e
  obtain ⟨h1, h2, h3⟩ := h
  simp only at h1 h2 h3 ⊢
  conv => lhs; unfold profileOverrides
  rw [if_neg h1, if_neg (by omega), if_neg h3]

theorem profileOverrides_cons_bad (n : Nat) (st : Array Nat) (e : Nat × Nat) (rest : List (Nat × Nat))
    (h : ¬ PGood n st e) :
    profileOverrides n st (e :: rest) = .error (pKind n e) := by
  obtain ⟨i, s⟩ := e
  simp only [PGood] at h
  unfold profileOverrides pKind
  by_cases h1 : s = nsLooped
  · simp only [h1, if_true]
  · simp only [h1, if_false]
    by_cases h2 : i ≥ n
    · simp only [h2, if_true]
    · simp only [h2, if_false]
      by_cases h3 : st.getD i 0 = nsLooped
      · rw [if_pos h3]
      · exact absurd ⟨h1, by omega, h3⟩ h

theorem PGood_set (n : Nat) (st : Array Nat) (e e' : Nat × Nat) (h : PGood n st e) :
    PGood n (st.setIfInBounds e.1 e.2) e' ↔ PGood n st e' := by
  have := looped_set st e.1 e.2 h.1 h.2.2 e'.1
  unfold PGood
  exact ⟨fun ⟨a, b, d⟩ => ⟨a, b, fun hh => d (this.mpr hh)⟩,
    fun ⟨a, b, d⟩ => ⟨a, b, fun hh => d (this.mp hh)⟩⟩

theorem profileOverrides_ok_iff (n : Nat) (st : Array Nat) (l : List (Nat × Nat)) :
    (∃ st', profileOverrides n st l = .ok st') ↔ ∀ e ∈ l, PGood n st e := by
  induction l generalizing st with
  | nil => simp [profileOverrides]
  | cons e rest ih =>
    by_cases hg : PGood n st e
    · rw [profileOverrides_cons_good n st e rest hg, ih]
      constructor
      · intro h e' he'
        rcases List.mem_cons.mp he' with rfl | he'
        · exact hg
        · exact (PGood_set n st e e' hg).mp (h e' he')
      · intro h e' he'
        exact (PGood_set n st e e' hg).mpr (h e' (List.mem_cons_of_mem _ he'))
    · rw [profileOverrides_cons_bad n st e rest hg]
      constructor
      · intro ⟨_, h⟩; cases h
      · intro h; exact absurd (h e (List.mem_cons_self ..)) hg

theorem profileOverrides_error_iff (n : Nat) (st : Array Nat) (l : List (Nat × Nat)) (k : Err) :
    profileOverrides n st l = .error k ↔
      ∃ pre e post, l = pre ++ e :: post ∧ (∀ e' ∈ pre, PGood n st e') ∧
        ¬ PGood n st e ∧ k = pKind n e := by
  induction l generalizing st with
  | nil =>
    constructor
    · intro h; simp [profileOverrides] at h
    · intro ⟨pre, e, post, h, _⟩; simp at h
  | cons e0 rest ih =>
    by_cases hg : PGood n st e0
    · rw [profileOverrides_cons_good n st e0 rest hg, ih]
      constructor
      · intro ⟨pre, e, post, h1, h2, h3, h4⟩
        refine ⟨e0 :: pre, e, post, by rw [h1]; rfl, ?_, ?_, h4⟩
        · intro e' he'
          rcases List.mem_cons.mp he' with rfl | he'
          · exact hg
          · exact (PGood_set n st e0 e' hg).mp (h2 e' he')
        · intro hh; exact h3 ((PGood_set n st e0 e hg).mpr hh)
      · intro ⟨pre, e, post, h1, h2, h3, h4⟩
        cases pre with
        | nil =>
          simp only [List.nil_append, List.cons.injEq] at h1
          rw [← h1.1] at h3; exact absurd hg h3
        | cons a pre' =>
          simp only [List.cons_append, List.cons.injEq] at h1
          refine ⟨pre', e, post, h1.2, ?_, ?_, h4⟩
          · intro e' he'
            exact (PGood_set n st e0 e' hg).mpr (h2 e' (List.mem_cons_of_mem _ he'))
          · intro hh; exact h3 ((PGood_set n st e0 e hg).mp hh)
    · rw [profileOverrides_cons_bad n st e0 rest hg]
      constructor
      · intro h
        have : k = pKind n e0 := by injection h with h; exact h.symm
        exact ⟨[], e0, rest, rfl, (fun _ h => by cases h), hg, this⟩
      · intro ⟨pre, e, post, h1, h2, h3, h4⟩
        cases pre with
        | nil =>
          simp only [List.nil_append, List.cons.injEq] at h1
          rw [h4, ← h1.1]
        | cons a pre' =>
          simp only [List.cons_append, List.cons.injEq] at h1
          have := h2 a (List.mem_cons_self ..)
          rw [← h1.1] at this; exact absurd this hg

theorem profileOverrides_looped (n : Nat) (st st' : Array Nat) (l : List (Nat × Nat))
    (h : profileOverrides n st l = .ok st') (i : Nat) :
    st'.getD i 0 = nsLooped ↔ st.getD i 0 = nsLooped := by
  induction l generalizing st with
  | nil => simp only [profileOverrides, Except.ok.injEq] at h; rw [h]
  | cons e rest ih =>
    by_cases hg : PGood n st e
    · rw [profileOverrides_cons_good n st e rest hg] at h
      rw [ih _ h, looped_set st _ _ hg.1 hg.2.2]
    · rw [profileOverrides_cons_bad n st e rest hg] at h; cases h

theorem profileOverrides_ok_spec (n : Nat) (st st' : Array Nat) (l : List (Nat × Nat))
    (hsz : st.size = n) (h : profileOverrides n st l = .ok st') :
    st'.size = n ∧ ∀ i, st'.getD i 0 = ovVal (l.reverse.find? (fun e => e.1 == i)) (st.getD i 0) := by
  induction l generalizing st with
  | nil =>
    simp only [profileOverrides, Except.ok.injEq] at h
    subst h
    exact ⟨hsz, fun i => rfl⟩
  | cons e rest ih =>
    by_cases hg : PGood n st e
    · rw [profileOverrides_cons_good n st e rest hg] at h
      obtain ⟨a1, a2⟩ := ih _ (by rw [Array.size_setIfInBounds]; exact hsz) h
      refine ⟨a1, fun i => ?_⟩
      rw [a2 i, List.reverse_cons, List.find?_append]
      cases hf : rest.reverse.find? (fun e => e.1 == i) with
      | some e' => rfl
      | none =>
        rw [Option.none_or, List.find?_singleton, getD_setIfInBounds]
        have hlt := hg.2.1
        by_cases hi : e.1 = i
        · have : (e.1 == i) = true := by simpa using hi
          rw [if_pos ⟨hi, by omega⟩, if_pos this]; rfl
        · have : ¬ ((e.1 == i) = true) := by simpa using hi
          rw [if_neg (fun hh => hi hh.1), if_neg this]
    · rw [profileOverrides_cons_bad n st e rest hg] at h; cases h

/-- the base composition of a profile grid: right end, left end, core inside (the code writes
`left` at 0 and then `right` at `n-1`, so `right` wins on the degenerate `n = 1`) -/
def pbase (n left right i : Nat) : Nat := if i = n - 1 then right else if i = 0 then left else nsCore

theorem pbase_spec (n left right : Nat) (hn : 2 ≤ n) :
    pbase n left right 0 = left ∧ pbase n left right (n - 1) = right ∧
      ∀ i, 0 < i → i < n - 1 → pbase n left right i = nsCore := by
  refine ⟨?_, ?_, ?_⟩
  · unfold pbase; rw [if_neg (by omega), if_pos rfl]
  · unfold pbase; rw [if_pos rfl]
  · intro i h1 h2; unfold pbase; rw [if_neg (by omega), if_neg (by omega)]

/-- the comparison `profileStatus` sorts with -/
def pLt (x y : Nat × Nat) : Bool := x.1 < y.1

theorem profileStatus_unfold (n left right : Nat) (ov : List (Nat × Nat)) :
    profileStatus n left right ov =
      if (left == nsLooped) != (right == nsLooped) then .error .invalidArgument
      else profileOverrides n (Fs.tab n (pbase n left right)) (sortKeys pLt ov) := rfl

theorem pLt_sorted (l : List (Nat × Nat)) : (sortKeys pLt l).Pairwise (fun a b => a.1 ≤ b.1) := by
  have := sortKeys_sorted pLt
    (by intro a b h; simp only [pLt, decide_eq_true_eq, decide_eq_false_iff_not] at *; omega)
    (by intro a b c h1 h2; simp only [pLt, decide_eq_false_iff_not] at *; omega) l
  exact this.imp (fun h => by simp only [pLt, decide_eq_false_iff_not] at h; omega)

/-- an override entry `profileStatus` accepts -/
def POk (n left right : Nat) (e : Nat × Nat) : Prop :=
  e.2 ≠ nsLooped ∧ e.1 < n ∧ pbase n left right e.1 ≠ nsLooped

instance (n left right : Nat) (e : Nat × Nat) : Decidable (POk n left right e) := by
  unfold POk; exact inferInstance

theorem PGood_pbase (n left right : Nat) (e : Nat × Nat) :
    PGood n (Fs.tab n (pbase n left right)) e ↔ POk n left right e := by
  unfold PGood POk
  constructor
  · intro ⟨h1, h2, h3⟩
    have := Fs.look_tab n 0 (pbase n left right) e.1 h2
    unfold Fs.look at this
    rw [this] at h3; exact ⟨h1, h2, h3⟩
  · intro ⟨h1, h2, h3⟩
    have := Fs.look_tab n 0 (pbase n left right) e.1 h2
    unfold Fs.look at this
    rw [this]; exact ⟨h1, h2, h3⟩

theorem loopMismatch_iff (left right : Nat) :
    ((left == nsLooped) != (right == nsLooped)) = false ↔ (left = nsLooped ↔ right = nsLooped) := by
  have e1 : (left == nsLooped) = true ↔ left = nsLooped := beq_iff_eq
  have e2 : (right == nsLooped) = true ↔ right = nsLooped := beq_iff_eq
  rw [← e1, ← e2]
  cases (left == nsLooped) <;> cases (right == nsLooped) <;> decide

/-- **C17, profile construction succeeds iff** both or neither end is looped and every override
entry is not looped, in range, and does not target a looped end -/
theorem profileStatus_ok_iff (n left right : Nat) (ov : List (Nat × Nat)) :
    (∃ st, profileStatus n left right ov = .ok st) ↔
      (left = nsLooped ↔ right = nsLooped) ∧ ∀ e ∈ ov, POk n left right e := by
  rw [profileStatus_unfold, ← loopMismatch_iff]
  cases hs : ((left == nsLooped) != (right == nsLooped))
  · simp only [Bool.false_eq_true, if_false, true_and]
    rw [profileOverrides_ok_iff]
    constructor
    · intro h e he
      exact (PGood_pbase n left right e).mp (h e ((mem_sortKeys pLt ov e).mpr he))
    · intro h e he
      exact (PGood_pbase n left right e).mpr (h e ((mem_sortKeys pLt ov e).mp he))
  · simp

/-- **C17, profile construction fails iff** exactly one end is looped, or some override entry is
looped, out of range, or targets a looped end -/
theorem profileStatus_error_iff (n left right : Nat) (ov : List (Nat × Nat)) :
    (∃ k, profileStatus n left right ov = .error k) ↔
      (¬ (left = nsLooped ↔ right = nsLooped) ∨
        ∃ e ∈ ov, e.2 = nsLooped ∨ e.1 ≥ n ∨ pbase n left right e.1 = nsLooped) := by
  have hok := profileStatus_ok_iff n left right ov
  have hbad : ∀ e, ¬ POk n left right e ↔ (e.2 = nsLooped ∨ e.1 ≥ n ∨ pbase n left right e.1 = nsLooped) := by
    intro e; unfold POk
    by_cases h3 : e.2 = nsLooped <;> by_cases h4 : pbase n left right e.1 = nsLooped <;>
      simp [h3, h4] <;> omega
  constructor
  · intro ⟨k, hk⟩
    by_cases hs : (left = nsLooped ↔ right = nsLooped)
    · refine Or.inr ?_
      apply Classical.byContradiction
      intro hne
      have : ∀ e ∈ ov, POk n left right e := by
        intro e he
        apply Classical.byContradiction
        intro hb
        exact hne ⟨e, he, (hbad e).mp hb⟩
      obtain ⟨st, hst⟩ := hok.mpr ⟨hs, this⟩
      rw [hst] at hk; cases hk
    · exact Or.inl hs
  · intro h
    cases hr : profileStatus n left right ov with
    | error k => exact ⟨k, rfl⟩
    | ok st =>
      obtain ⟨h1, h2⟩ := hok.mp ⟨st, hr⟩
      rcases h with h | ⟨e, he, hb⟩
      · exact absurd h1 h
      · exact absurd (h2 e he) ((hbad e).mpr hb)

/-- **C17, which error (profile)**: `invalid_argument` when exactly one end is looped; otherwise
the error of the first offending entry in key order — `invalid_argument` if its status is looped,
else `out_of_range` if it is out of range, else `invalid_argument` (over a looped end) -/
theorem profileStatus_error_kind (n left right : Nat) (ov : List (Nat × Nat)) (k : Err) :
    profileStatus n left right ov = .error k ↔
      (¬ (left = nsLooped ↔ right = nsLooped) ∧ k = .invalidArgument) ∨
      ((left = nsLooped ↔ right = nsLooped) ∧ ∃ pre e post, sortKeys pLt ov = pre ++ e :: post ∧
        (∀ e' ∈ pre, POk n left right e') ∧ ¬ POk n left right e ∧ k = pKind n e) := by
  rw [profileStatus_unfold, ← loopMismatch_iff]
  cases hs : ((left == nsLooped) != (right == nsLooped))
  · simp only [Bool.false_eq_true, if_false, true_and, not_true_eq_false, false_and, false_or]
    rw [profileOverrides_error_iff]
    constructor
    · intro ⟨pre, e, post, h1, h2, h3, h4⟩
      exact ⟨pre, e, post, h1, fun e' he' => (PGood_pbase n left right e').mp (h2 e' he'),
        fun hh => h3 ((PGood_pbase n left right e).mpr hh), h4⟩
    · intro ⟨pre, e, post, h1, h2, h3, h4⟩
      exact ⟨pre, e, post, h1, fun e' he' => (PGood_pbase n left right e').mpr (h2 e' he'),
        fun hh => h3 ((PGood_pbase n left right e).mp hh), h4⟩
  · simp only [if_true, reduceCtorEq, not_false_eq_true, true_and, false_and, or_false]
    constructor
    · intro h; injection h with h; exact h.symm
    · intro h; rw [h]

/-- **C17, the constructed profile status array**: size `n`; node `i` holds the status of the last
entry of the key-sorted override list with key `i` if there is one, else the base composition
(`pbase_spec`: left at 0, right at n-1, core inside); looped nodes are exactly the looped ends. -/
theorem profileStatus_ok (n left right : Nat) (ov : List (Nat × Nat)) (st : Array Nat)
    (h : profileStatus n left right ov = .ok st) :
    st.size = n ∧ ∀ i, i < n →
      st.getD i 0 =
        (match (sortKeys pLt ov).reverse.find? (fun e => e.1 == i) with
          | some e => e.2
          | none => pbase n left right i) ∧
      (st.getD i 0 = nsLooped ↔ pbase n left right i = nsLooped) := by
  rw [profileStatus_unfold] at h
  cases hs : ((left == nsLooped) != (right == nsLooped))
  · rw [hs] at h
    simp only [Bool.false_eq_true, if_false] at h
    obtain ⟨a1, a2⟩ := profileOverrides_ok_spec n _ st _ (Fs.size_tab n _) h
    have hb : ∀ i, i < n → (Fs.tab n (pbase n left right)).getD i 0 = pbase n left right i :=
      fun i hi => Fs.look_tab n 0 (pbase n left right) i hi
    refine ⟨a1, fun i hi => ⟨?_, ?_⟩⟩
    · rw [a2 i, hb i hi]
      generalize List.find? _ _ = o
      cases o <;> rfl
    · rw [profileOverrides_looped n _ st _ h i, hb i hi]
  · rw [hs] at h; cases h

example : profileStatus 5 nsFixedValue nsFixedGradient [(3, nsFixedValue), (1, nsFixedGradient)] =
    .ok #[1, 2, 0, 1, 2] := by rfl
example : profileStatus 5 nsLooped nsLooped [(3, nsFixedValue)] = .ok #[3, 0, 0, 1, 3] := by rfl
example : profileStatus 5 nsLooped nsFixedValue [] = .error .invalidArgument := by rfl
example : profileStatus 5 nsLooped nsLooped [(4, nsFixedValue)] = .error .invalidArgument := by rfl
example : profileStatus 5 nsCore nsCore [(7, nsLooped)] = .error .invalidArgument := by rfl
example : profileStatus 5 nsCore nsCore [(7, nsFixedValue)] = .error .outOfRange := by rfl
example : POk 5 nsLooped nsLooped (3, nsFixedValue) := by decide

/-! ## 6. status-filtered iteration -/

/-- filtering an interval whose first part has no match -/
theorem filter_range'_skip (p : Nat → Bool) (size : Nat) (d idx : Nat) (hle : idx + d ≤ size)
    (h : ∀ k, idx ≤ k → k < idx + d → p k = false) :
    (List.range' idx (size - idx)).filter p = (List.range' (idx + d) (size - (idx + d))).filter p := by
  have hsplit : size - idx = d + (size - (idx + d)) := by omega
  rw [hsplit, ← List.range'_append_1, List.filter_append]
  have : (List.range' idx d).filter p = [] := by
    rw [List.filter_eq_nil_iff]
    intro a ha
    rw [List.mem_range'_1] at ha
    simp [h a ha.1 ha.2]
  rw [this, List.nil_append]

/-- the stop index of the (repaired-order) skip loop, from `Fs.Iter.skipFwd_stop` -/
theorem next_spec (size : Nat) (p : Nat → Bool) (idx : Nat) (hidx : idx ≤ size) :
    let r := (Fs.Iter.skipFwd false size p (size + 1) idx []).1
    idx ≤ r ∧ r ≤ size ∧ (r < size → p r = true) ∧
      (List.range' idx (size - idx)).filter p = (List.range' r (size - r)).filter p := by
  obtain ⟨h1, h2, h3, h4⟩ := Fs.Iter.skipFwd_stop size p (size + 1) idx [] (by omega) hidx
  refine ⟨h1, h2, h3, ?_⟩
  have := filter_range'_skip p size ((Fs.Iter.skipFwd false size p (size + 1) idx []).1 - idx) idx
    (by omega) (fun k hk1 hk2 => h4 k hk1 (by omega))
  rw [this]
  congr 2 <;> omega

theorem iterFwdAux_eq (size : Nat) (p : Nat → Bool) (fuel idx : Nat) (hidx : idx ≤ size)
    (hp : idx < size → p idx = true) (hf : size - idx < fuel) :
    iterFwdAux size p fuel idx = (List.range' idx (size - idx)).filter p := by
  induction fuel generalizing idx with
  | zero => omega
  | succ f ih =>
    unfold iterFwdAux
    split
    · rename_i hge
      have : size - idx = 0 := by omega
      simp [this]
    · rename_i hlt
      obtain ⟨h1, h2, h3, h4⟩ := next_spec size p (idx + 1) (by omega)
      rw [ih _ h2 h3 (by omega), ← h4]
      have hs : size - idx = (size - (idx + 1)) + 1 := by omega
      rw [hs, List.range'_succ, List.filter_cons, if_pos (hp (by omega))]

/-- **C17, forward iteration**: exactly the matching indices, in increasing order -/
theorem iterFwd_eq (size : Nat) (p : Nat → Bool) : iterFwd size p = (List.range size).filter p := by
  unfold iterFwd
  obtain ⟨h1, h2, h3, h4⟩ := next_spec size p 0 (Nat.zero_le _)
  rw [iterFwdAux_eq size p (size + 1) _ h2 h3 (by omega), ← h4, List.range_eq_range']
  rfl

/-- `--`: from `idx`, the largest matching index `≤ idx` (given there is one) -/
theorem skipBack_spec (p : Nat → Bool) (fuel idx : Nat) (hf : idx < fuel) (f : Nat) (hfi : f ≤ idx)
    (hpf : p f = true) :
    let k := skipBack p fuel idx
    f ≤ k ∧ k ≤ idx ∧ p k = true ∧ ∀ j, k < j → j ≤ idx → p j = false := by
  induction fuel generalizing idx with
  | zero => omega
  | succ n ih =>
    unfold skipBack
    split
    · rename_i hc
      have hpi : p idx = false := by cases hh : p idx <;> simp_all
      have hne : f ≠ idx := by intro e; subst e; simp [hpf] at hpi
      obtain ⟨a1, a2, a3, a4⟩ := ih (idx - 1) (by omega) (by omega)
      refine ⟨a1, by omega, a3, ?_⟩
      intro j hj1 hj2
      by_cases hj : j = idx
      · subst hj; exact hpi
      · exact a4 j hj1 (by omega)
    · rename_i hc
      have hpi : p idx = true := by
        cases hh : p idx
        · have h0 : idx = 0 := by
            apply Classical.byContradiction; intro h0
            exact hc ⟨by omega, by simp [hh]⟩
          have : f = idx := by omega
          subst this; simp [hpf] at hh
        · rfl
      exact ⟨hfi, Nat.le_refl _, hpi, fun j h1 h2 => by omega⟩

theorem iterRevAux_eq (p : Nat → Bool) (first fuel cur : Nat) (hle : first ≤ cur)
    (hp : first < cur → p first = true) (hf : cur - first < fuel) :
    iterRevAux p first fuel cur = ((List.range' first (cur - first)).filter p).reverse := by
  induction fuel generalizing cur with
  | zero => omega
  | succ n ih =>
    unfold iterRevAux
    split
    · rename_i he
      subst he
      simp
    · rename_i hne
      have hlt : first < cur := by omega
      obtain ⟨a1, a2, a3, a4⟩ := skipBack_spec p (cur + 1) (cur - 1) (by omega) first (by omega) (hp hlt)
      show skipBack p (cur + 1) (cur - 1) :: iterRevAux p first n (skipBack p (cur + 1) (cur - 1)) = _
      generalize skipBack p (cur + 1) (cur - 1) = k at a1 a2 a3 a4
      rw [ih k a1 (fun _ => hp hlt) (by omega)]
      have hs : cur - first = (k - first) + (1 + (cur - (k + 1))) := by omega
      rw [hs, ← List.range'_append_1, ← List.range'_append_1, List.filter_append, List.filter_append]
      have hk : first + (k - first) = k := by omega
      rw [hk]
      have h1 : (List.range' k 1).filter p = [k] := by simp [List.range'_succ, a3]
      have h2 : (List.range' (k + 1) (cur - (k + 1))).filter p = [] := by
        rw [List.filter_eq_nil_iff]
        intro a ha
        rw [List.mem_range'_1] at ha
        simp [a4 a (by omega) (by omega)]
      rw [h1, h2]
      simp

/-- **C17, reverse iteration**: exactly the matching indices, in decreasing order -/
theorem iterRev_eq (size : Nat) (p : Nat → Bool) :
    iterRev size p = ((List.range size).filter p).reverse := by
  unfold iterRev
  obtain ⟨h1, h2, h3, h4⟩ := next_spec size p 0 (Nat.zero_le _)
  show iterRevAux p _ (size + 1) size = _
  rw [iterRevAux_eq p _ (size + 1) size h2 h3 (by omega), ← h4, List.range_eq_range']
  rfl


theorem iterFwd_mem (size : Nat) (p : Nat → Bool) (i : Nat) :
    i ∈ iterFwd size p ↔ i < size ∧ p i = true := by
  rw [iterFwd_eq, List.mem_filter, List.mem_range]

theorem iterFwd_increasing (size : Nat) (p : Nat → Bool) : (iterFwd size p).Pairwise (· < ·) := by
  rw [iterFwd_eq]; exact List.pairwise_lt_range.filter p

theorem iterRev_mem (size : Nat) (p : Nat → Bool) (i : Nat) :
    i ∈ iterRev size p ↔ i < size ∧ p i = true := by
  rw [iterRev_eq, List.mem_reverse, List.mem_filter, List.mem_range]

theorem iterRev_decreasing (size : Nat) (p : Nat → Bool) : (iterRev size p).Pairwise (· > ·) := by
  rw [iterRev_eq, List.pairwise_reverse]; exact List.pairwise_lt_range.filter p

/-- iteration filtered by a status `s` over a status array `st` (the filter reads `st[i]`) -/
theorem iter_status (st : Array Nat) (s : Nat) :
    iterFwd st.size (fun i => st.getD i 0 == s) = (List.range st.size).filter (fun i => st.getD i 0 == s) ∧
    iterRev st.size (fun i => st.getD i 0 == s) =
      ((List.range st.size).filter (fun i => st.getD i 0 == s)).reverse :=
  ⟨iterFwd_eq _ _, iterRev_eq _ _⟩

/-- unfiltered iteration -/
theorem iter_all (size : Nat) :
    iterFwd size (fun _ => true) = List.range size ∧ iterRev size (fun _ => true) = (List.range size).reverse := by
  rw [iterFwd_eq, iterRev_eq]; simp

example : iterFwd 6 (fun i => #[1, 0, 0, 1, 0, 1].getD i 0 == 0) = [1, 2, 4] ∧
    iterRev 6 (fun i => #[1, 0, 0, 1, 0, 1].getD i 0 == 0) = [4, 2, 1] := by decide

end Fs.C17
