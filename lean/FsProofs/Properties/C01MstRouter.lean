import FsProofs.Properties.C01MstConnected

/-! # C01 (spanning-tree resolver) on the graph of the single-direction router

`resolve_c01_kruskal_sorted` and `resolve_c01_connected` with the hypotheses on the input graph
discharged for `g = singleRouter S e par f` (`Fs.C06.singleRouter_graph`, `Fs.C04.recv_lower`,
`Fs.C04.terminal_row`). -/
namespace Fs.C01Mst
open Fs Fs.Flow Fs.Mst Fs.Dfs Fs.C06 Fs.C15Connect

variable {α : Type}

/-- **C01, spanning-tree resolver after the single router** (Kruskal, sorted permutation).
Remaining hypotheses: the strict-weak-order laws of `S.lt` (`L`), `x < nextUp x` (`next_gt`),
neighbours are nodes (`hnb`) and the relation is symmetric (`hsym`, only for the last clause),
slopes of candidates are above `lowest` (`hlow`, the hypothesis of C04/C06), elevations are above
`lowest` (`hfin`), the arrays fit in memory (`hwork`), and the permutation passes the harness
check `validPerm` (`hvp`). -/
theorem resolve_c01_singleRouter (S : Scalar α) (e : Env α) (par : Bool) (f : Nat → α) (perm : List Nat)
    (maxLow : Nat) (carve : Bool) (L : Fs.Router.Laws (routerOps S))
    (hnb : ∀ i, i < e.topo.n → ∀ p, p ∈ e.topo.nbrs i → p.1 < e.topo.n)
    (hlow : Fs.C04.HLow S e f)
    (next_gt : ∀ x, S.lt x (S.nextUp x) = true)
    (hwork : work e.topo (singleRouter S e par f).dfs < Mst.none)
    (hvp : validPerm S (cbOf S e (singleRouter S e par f) f).edges perm = true)
    (hfin : ∀ i, i < e.topo.n → S.lt S.lowest (f i) = true) :
    let n := e.topo.n
    let g := singleRouter S e par f
    let o := resolve S e g f false carve perm maxLow
    let recv' := recv0 o.g
    let z' := look o.elev S.zero
    (∀ i, i < n → (e.mask i = true ∨ e.isBase i = true) → recv' i = i) ∧
    (∃ recv1' skip', SingleGraph n o.g recv1' skip' ∧ (∀ i, i < n → recv' i = recv1' i)) ∧
    o.g.dfs = dfsBottomUp n o.g ∧
    (∀ i, i < n → recv' i < n) ∧
    (∀ i, i < n → ∃ k, recv' (iter recv' k i) = iter recv' k i) ∧
    (∀ i, i < n → recv' i ≠ i → S.lt (z' (recv' i)) (z' i) = true) ∧
    (∀ y, y < n → e.mask y = false →
      ((basins n g e.mask e.isBase).pits.isEmpty = true ∨
        ReachedB (bgOf S e g f false perm maxLow).edges (bgOf S e g f false perm maxLow).tree
          (bgOf S e g f false perm maxLow).root (labOf e g y)) →
      ∃ t, e.isBase (iter recv' t y) = true ∧ recv' (iter recv' t y) = iter recv' t y) ∧
    o.hang = false ∧
    ((∀ u v d, u < n → (v, d) ∈ e.topo.nbrs u → ∃ d', (u, d') ∈ e.topo.nbrs v) →
      ∀ y b, y < n → e.mask y = false → b < n → e.mask b = false → e.isBase b = true →
        NConn e.topo e.mask y b →
        ∃ t, e.isBase (iter recv' t y) = true ∧ recv' (iter recv' t y) = iter recv' t y) := by
  intro n g o recv' z'
  have hg := singleRouter_graph S e par f L hnb hlow
  have hr0 := recv0_single S e par f
  have hdfs : g.dfs = dfsBottomUp n g := dfs_single S e par f
  have hlaws : LtLaws S := ⟨L.irrefl, L.trans⟩
  have hnt : ∀ a b c, S.lt b a = false → S.lt c b = false → S.lt c a = false :=
    fun a b c h1 h2 => L.ntrans c b a h2 h1
  have hlower := fun i hi => Fs.C04.recv_lower S e par f L i hi hlow
  have hmc : ∀ x, x < n → e.mask x = false → e.mask (rowRecv S e f x) = false := by
    intro x hx hm
    rw [← hr0]
    rcases hlower x hx with h | ⟨_, h, _⟩
    · rw [h]; exact hm
    · exact h
  have hterm : ∀ x, x < n → (e.mask x || e.isBase x) = true → rowRecv S e f x = x := by
    intro x hx h
    rw [← hr0]
    simp [recv0, (Fs.C04.terminal_row S e par f x hx h).1]
  have hms : ∀ x, x < n → e.mask x = true → rowRecv S e f x = x :=
    fun x hx h => hterm x hx (by simp [h])
  have hbs : ∀ x, x < n → e.isBase x = true → rowRecv S e f x = x :=
    fun x hx h => hterm x hx (by simp [h])
  have hdesc : ∀ x, x < n → rowRecv S e f x ≠ x → S.lt (f (rowRecv S e f x)) (f x) = true := by
    intro x hx hne
    rw [← hr0] at hne ⊢
    rcases hlower x hx with h | ⟨h, _⟩
    · exact absurd h hne
    · exact h
  obtain ⟨a, b, c, d, e5, e6, e7, e8⟩ := resolve_c01_kruskal_sorted S e g f perm maxLow carve hlaws hg hdfs
    hmc hms hbs hdesc next_gt hwork hnb hvp hnt hfin
  refine ⟨a, b, c, d, e5, e6, e7, e8, ?_⟩
  intro hsym y b' hy hmy hb hmb hbb hc
  exact resolve_c01_connected S e g f perm maxLow carve hlaws hg hdfs hmc hms hbs hdesc next_gt hwork hnb
    hsym hvp hnt hfin y b' hy hmy hb hmb hbb hc

end Fs.C01Mst
